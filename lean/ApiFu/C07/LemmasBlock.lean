/-
  C07 — helper lemmas, part 3: `blockStringValue` (Go, transliterated) = `Spec.blockStringValue`
  (the specification's algorithm), step by step.
-/
import ApiFu.C07.Model
import ApiFu.C07.Spec

namespace ApiFu.C07

/-! ### step 1: lines -/

theorem splitLF_ne_nil (s : List Nat) : splitLF s ≠ [] := by
  induction s with
  | nil => simp [splitLF]
  | cons c rest ih =>
    unfold splitLF
    split
    · simp
    · split <;> simp

theorem splitLines_ne_nil : ∀ (s : List Nat), Spec.splitLines s ≠ [] := by
  intro s
  fun_induction Spec.splitLines s <;> simp_all

theorem replaceCRLF_cons (c : Nat) (rest : List Nat) (h : ¬ (c = 13 ∧ rest.head? = some 10)) :
    replaceCRLF (c :: rest) = c :: replaceCRLF rest := by
  conv => lhs; unfold replaceCRLF
  split
  · rename_i heq
    simp only [List.cons.injEq] at heq
    exact absurd ⟨heq.1, by rw [heq.2]; rfl⟩ h
  · rename_i heq
    simp only [List.cons.injEq] at heq
    rw [heq.1, heq.2]
  · rename_i heq; cases heq

/-- Replacing CRLF, then CR, by LF and splitting at LF is splitting at line terminators. -/
theorem split_eq (raw : List Nat) : splitLF (replaceCR (replaceCRLF raw)) = Spec.splitLines raw := by
  fun_induction Spec.splitLines raw with
  | case1 => simp [replaceCRLF, replaceCR, splitLF]
  | case2 rest ih =>
    simp only [replaceCRLF, replaceCR, List.map_cons] at ih ⊢
    simp [splitLF, ih]
  | case3 c rest hnot hc ih =>
    have e : replaceCRLF (c :: rest) = c :: replaceCRLF rest := by
      apply replaceCRLF_cons
      rintro ⟨h1, h2⟩
      cases rest with
      | nil => simp at h2
      | cons d r => simp at h2; exact hnot r h1 (by rw [h2])
    rw [e]
    simp only [replaceCR, List.map_cons] at ih ⊢
    rcases hc with hc | hc
    · subst hc; simp [splitLF, ih]
    · subst hc; simp [splitLF, ih]
  | case4 c rest hnot hc l ls hsp ih =>
    have h13 : c ≠ 13 := fun h => hc (.inl h)
    have h10 : c ≠ 10 := fun h => hc (.inr h)
    have e : replaceCRLF (c :: rest) = c :: replaceCRLF rest :=
      replaceCRLF_cons c rest (fun h => h13 h.1)
    rw [e]
    simp only [replaceCR, List.map_cons] at ih ⊢
    simp [splitLF, h13, h10, ih, hsp]
  | case5 c rest hnot hc hsp ih =>
    exact absurd hsp (splitLines_ne_nil rest)

/-! ### step 2: common indent -/

theorem isBlank_eq : isBlank = Spec.isWhiteSpace := by
  funext c
  simp only [isBlank, Spec.isWhiteSpace]
  exact Bool.or_comm _ _

theorem indentOf_eq (l : List Nat) : indentOf l = Spec.leadingWhiteSpace l := by
  simp [indentOf, Spec.leadingWhiteSpace, isBlank_eq]

theorem allBlank_eq (l : List Nat) : allBlank l = Spec.onlyWhiteSpace l := by
  simp [allBlank, Spec.onlyWhiteSpace, isBlank_eq]

/-- `min` on optional values where `none` is "no value yet" (Go's `-1`). -/
def optMin : Option Nat → Option Nat → Option Nat
  | none, m => m
  | some a, none => some a
  | some a, some m => some (min a m)

/-- The minimum indent of the non-blank lines, as the specification describes it. -/
def specIndent (ls : List (List Nat)) : Option Nat :=
  ((ls.filter fun l => Spec.leadingWhiteSpace l < l.length).map Spec.leadingWhiteSpace).min?

theorem specIndent_cons (l : List Nat) (ls : List (List Nat)) :
    specIndent (l :: ls) =
      if Spec.leadingWhiteSpace l < l.length then optMin (some (Spec.leadingWhiteSpace l)) (specIndent ls)
      else specIndent ls := by
  unfold specIndent
  simp only [List.filter_cons]
  split
  · rename_i h
    simp only [decide_eq_true_eq] at h
    simp only [h, if_true, List.map_cons, List.min?_cons]
    cases ((ls.filter fun l => decide (Spec.leadingWhiteSpace l < l.length)).map Spec.leadingWhiteSpace).min? <;>
      simp [optMin, Option.elim]
  · rename_i h
    simp only [decide_eq_true_eq] at h
    simp [h]

theorem optMin_assoc (a b c : Option Nat) : optMin (optMin a b) c = optMin a (optMin b c) := by
  cases a <;> cases b <;> cases c <;> simp [optMin, Nat.min_assoc]

theorem commonIndentLoop_eq (ls : List (List Nat)) (ci : Option Nat) :
    commonIndentLoop ls ci = optMin ci (specIndent ls) := by
  induction ls generalizing ci with
  | nil => cases ci <;> simp [commonIndentLoop, specIndent, optMin]
  | cons l ls ih =>
    unfold commonIndentLoop
    simp only
    rw [ih, specIndent_cons, indentOf_eq]
    by_cases hlt : Spec.leadingWhiteSpace l < l.length
    · simp only [hlt, true_and, if_true]
      cases ci with
      | none => simp [optMin]
      | some a =>
        simp only [Option.getD_some, reduceCtorEq, false_or]
        by_cases hlt2 : Spec.leadingWhiteSpace l < a
        · simp only [hlt2, if_true]
          rw [← optMin_assoc]
          congr 1
          simp only [optMin]
          congr 1; omega
        · simp only [hlt2, if_false]
          rw [← optMin_assoc]
          congr 1
          simp only [optMin]
          congr 1; omega
    · simp [hlt]

theorem commonIndent_eq (lines : List (List Nat)) :
    commonIndentLoop (lines.drop 1) none = Spec.commonIndent lines := by
  rw [commonIndentLoop_eq]
  rfl

/-! ### step 3: removing the indent -/

theorem removeIndent_eq (lines : List (List Nat)) (ci : Option Nat) :
    removeIndentLoop ci lines = Spec.removeIndent ci lines := by
  unfold removeIndentLoop
  cases ci with
  | none => cases lines <;> rfl
  | some n =>
    cases lines with
    | nil => simp [Spec.removeIndent]
    | cons first more =>
      simp only [Spec.removeIndent]
      split
      · congr 1
        apply List.map_congr_left
        intro line _
        split
        · rfl
        · rename_i h
          exact (List.drop_eq_nil_of_le (by omega)).symm
      · rename_i h
        have : n = 0 := by omega
        subst this
        simp

/-! ### step 4: blank lines at both ends -/

theorem stripBlank_of_head {first : List Nat} {more : List (List Nat)} (h : Spec.onlyWhiteSpace first = false) :
    Spec.stripBlankLines (first :: more) = ((first :: more).reverse.dropWhile Spec.onlyWhiteSpace).reverse := by
  simp [Spec.stripBlankLines, h]

theorem stripLoop_eq : ∀ (fuel : Nat) (lines : List (List Nat)), lines.length ≤ fuel →
    stripLoop fuel lines = Spec.stripBlankLines lines
  | 0, lines, h => by
    have : lines = [] := List.length_eq_zero_iff.mp (by omega)
    subst this; rfl
  | fuel + 1, [], _ => by simp [stripLoop, Spec.stripBlankLines]
  | fuel + 1, first :: more, h => by
    unfold stripLoop
    simp only
    rw [allBlank_eq]
    cases hb : Spec.onlyWhiteSpace first with
    | true =>
      simp only [if_true]
      rw [stripLoop_eq fuel more (by simpa using h)]
      simp [Spec.stripBlankLines, hb]
    | false =>
      simp only [Bool.false_eq_true, if_false]
      rw [stripBlank_of_head hb]
      cases more with
      | nil =>
        simp [hb]
      | cons second more' =>
        -- the list ends in `last`
        have hne : (first :: second :: more') ≠ [] := by simp
        have hdl := List.dropLast_concat_getLast hne
        have hgl : (first :: second :: more').getLast? = some ((first :: second :: more').getLast hne) :=
          List.getLast?_eq_some_getLast hne
        generalize hlast : (first :: second :: more').getLast hne = last at hdl hgl
        have hinit : (first :: second :: more').dropLast = first :: (second :: more').dropLast := by
          simp [List.dropLast]
        rw [allBlank_eq, hgl]
        simp only [Option.getD_some, ne_eq, reduceCtorEq, not_false_eq_true, true_and]
        cases hbl : Spec.onlyWhiteSpace last with
        | true =>
          simp only [if_true]
          have hlen : (first :: second :: more').dropLast.length ≤ fuel := by
            simp only [List.length_dropLast, List.length_cons] at h ⊢; omega
          rw [stripLoop_eq fuel _ hlen, hinit, stripBlank_of_head hb, ← hinit]
          conv => rhs; rw [← hdl]
          simp [hbl]
        | false =>
          simp only [Bool.false_eq_true, if_false]
          conv => rhs; rw [← hdl]
          rw [List.reverse_append]
          simp only [List.reverse_cons, List.reverse_nil, List.nil_append, List.singleton_append,
            List.dropWhile_cons, hbl, Bool.false_eq_true, if_false]
          rw [List.reverse_reverse, hdl]

/-! ### step 5: joining -/

theorem joinLF_eq (lines : List (List Nat)) : joinLF lines = Spec.joinLines lines := by
  unfold Spec.joinLines
  induction lines with
  | nil => simp [joinLF, List.intercalate]
  | cons l ls ih =>
    cases ls with
    | nil => simp [joinLF, List.intercalate]
    | cons l' ls' =>
      simp only [joinLF]
      rw [ih]
      simp [List.intercalate, List.intersperse]

/-- **The Go `blockStringValue` computes the specification's BlockStringValue, for every raw value.** -/
theorem blockStringValue_eq (raw : List Nat) : blockStringValue raw = Spec.blockStringValue raw := by
  unfold blockStringValue Spec.blockStringValue
  simp only
  rw [split_eq, commonIndent_eq, removeIndent_eq, joinLF_eq, stripLoop_eq _ _ (Nat.le_refl _)]

end ApiFu.C07
