/-
  C07 — helper lemmas, part 8: the whole token stream. `scanLoop` (the model of `for s.Scan()`) against
  `Spec.lexFrom`, and the skip-ignored mode as a filter of the ScanIgnored mode.
-/
import ApiFu.C07.LemmasToken
import ApiFu.C07.LemmasScan

namespace ApiFu.C07

theorem ScanPost.adv {b : Bool} {s : St} : ∀ {r : Option Tok × St}, ScanPost b s r → Adv s r.2
  | (none, _), h => h.1
  | (some _, _), ⟨_, h0, _, h1, _⟩ => h0.trans h1.adv

/-- After the first iteration of `Scan()`, whatever else it does only moves forward. -/
theorem scan_after_token (b : Bool) (fuel : Nat) (s : St) (hne : s.rest ≠ []) (hf : s.rest.length < fuel) :
    Adv (scanToken s).2.2 (scan b fuel s).2 := by
  cases fuel with
  | zero => omega
  | succ fuel =>
    unfold scan
    rw [if_neg (by simpa using (not_done_iff s).2 hne)]
    have hadv := scanToken_adv s hne
    generalize scanToken s = r at hadv ⊢
    obtain ⟨k, v, s1⟩ := r
    simp only at hadv ⊢
    split
    · exact (scan_spec b fuel s1 (by have := hadv.length_lt; omega)).adv
    · exact .refl _

/-- `Scan()` in ScanIgnored mode at a state where the reference finds a token: exactly that token. -/
theorem scan_token {src : List Nat} {s : St} (hi : Inv src s) (hv : Valid s.rest) (hne : s.rest ≠ [])
    {k : Kind} {n : Nat} {v : List Nat} (h : Spec.token? (s.off == 0) s.rest = some (k, n, v)) (fuel : Nat) :
    scan true (fuel + 1) s =
      (some { kind := k, off := s.off, len := n, line := (Spec.position src s.off).1,
              col := (Spec.position src s.off).2, value := v }, consumeN n s) ∧
    1 ≤ n ∧ n ≤ s.rest.length := by
  obtain ⟨hm, h1, h2, hk⟩ := (scanToken_spec s hv hne).1 k n v h
  refine ⟨?_, h1, h2⟩
  unfold scan
  rw [if_neg (by simpa using (not_done_iff s).2 hne), hm]
  simp only
  rw [if_neg (by simp [hk])]
  have hp := hi.pos
  have hl : (Spec.position src s.off).1 = s.line := by rw [← hp]
  have hc : (Spec.position src s.off).2 = s.col := by rw [← hp]
  rw [hl, hc, consumeN_off h2]
  simp

theorem Inv.valid {src : List Nat} {s : St} (hi : Inv src s) (hv : Valid src) : Valid s.rest := by
  rw [hi.rest]; exact hv.drop _

theorem scanLoop_succ (b : Bool) (fuel : Nat) (s : St) :
    scanLoop b (fuel + 1) s =
      match scan b (s.rest.length + 1) s with
      | (none, s') => ([], s')
      | (some t, s') =>
        match scanLoop b fuel s' with
        | (ts, sf) => (t :: ts, sf) := rfl

/-- An error recorded by the first iteration is still there at the end of the run. -/
theorem scanLoop_errs_grow (b : Bool) (src : List Nat) (fuel : Nat) (s : St) (hne : s.rest ≠ [])
    (hf : s.rest.length < fuel + 1) (hi : Inv src s) (herr : s.errs.length < (scanToken s).2.2.errs.length) :
    s.errs.length < (scanLoop b (fuel + 1) s).2.errs.length := by
  have hadv0 := scanToken_adv s hne
  have hadv1 := scan_after_token b (s.rest.length + 1) s hne (by omega)
  have hi1 : Inv src (scan b (s.rest.length + 1) s).2 := (hadv0.adv.trans hadv1).inv hi
  have hlen1 : (scan b (s.rest.length + 1) s).2.rest.length < s.rest.length := (hadv0.trans_adv hadv1).length_lt
  obtain ⟨es1, he1⟩ := hadv1.errs_prefix
  rw [scanLoop_succ]
  generalize scan b (s.rest.length + 1) s = r at hi1 hlen1 he1 ⊢
  obtain ⟨ot, s'⟩ := r
  simp only at hi1 hlen1 he1
  cases ot with
  | none => simp only; rw [he1]; simp; omega
  | some t =>
    simp only
    have := (scanLoop_spec b src fuel s' (by omega) hi1).1
    obtain ⟨es2, he2⟩ := this.errs_prefix
    generalize scanLoop b fuel s' = r2 at he2 ⊢
    obtain ⟨ts, sf⟩ := r2
    simp only at he2 ⊢
    rw [he2, he1]; simp; omega

/-- The token stream in ScanIgnored mode against the reference lexer, from any state on the text. -/
theorem scanLoop_eq_spec (src : List Nat) (hvs : Valid src) : ∀ (fuel lfuel : Nat) (s : St),
    s.rest.length < fuel → s.rest.length < lfuel → Inv src s →
    match Spec.lexFrom src lfuel s.off with
    | .ok ts => (scanLoop true fuel s).1 = ts ∧ (scanLoop true fuel s).2.errs = s.errs
    | .error ts => (∃ more, (scanLoop true fuel s).1 = ts ++ more) ∧
        s.errs.length < (scanLoop true fuel s).2.errs.length
  | 0, _, s, hf, _, _ => by omega
  | _, 0, s, _, hl, _ => by omega
  | fuel + 1, lfuel + 1, s, hf, hl, hi => by
    have hv := hi.valid hvs
    unfold Spec.lexFrom
    rw [← hi.rest]
    by_cases hne : s.rest = []
    · have hs : scan true (s.rest.length + 1) s = (none, s) := by
        unfold scan; rw [if_pos ((done_iff s).2 hne)]
      rw [scanLoop_succ, hs, hne]
      simp
    · obtain ⟨c, w, hw⟩ := List.exists_cons_of_ne_nil hne
      cases ht : Spec.token? (s.off == 0) s.rest with
      | none =>
        have herr := (scanToken_spec s hv hne).2 ht
        rw [hw] at ht ⊢
        simp only [ht]
        exact ⟨⟨_, (List.nil_append _).symm⟩, scanLoop_errs_grow true src fuel s hne hf hi herr⟩
      | some p =>
        obtain ⟨k, n, v⟩ := p
        obtain ⟨hs, hn1, hn2⟩ := scan_token hi hv hne ht s.rest.length
        rw [hw] at ht ⊢
        simp only [ht]
        rw [scanLoop_succ, hs]
        simp only
        have hadv := consumeN_adv n s hn2
        have hi' := hadv.inv hi
        have hoff : (consumeN n s).off = s.off + n := consumeN_off hn2
        have hlen : (consumeN n s).rest.length = s.rest.length - n := by rw [consumeN_rest]; simp
        have ih := scanLoop_eq_spec src hvs fuel lfuel (consumeN n s) (by omega) (by omega) hi'
        rw [hoff, consumeN_errs] at ih
        generalize Spec.lexFrom src lfuel (s.off + n) = res at ih ⊢
        generalize scanLoop true fuel (consumeN n s) = r2 at ih ⊢
        obtain ⟨ts2, sf⟩ := r2
        cases res with
        | ok ts =>
          simp only [Spec.Res.cons] at ih ⊢
          exact ⟨by rw [ih.1], ih.2⟩
        | error ts =>
          simp only [Spec.Res.cons] at ih ⊢
          obtain ⟨⟨more, hm⟩, he⟩ := ih
          exact ⟨⟨more, by rw [hm]; rfl⟩, he⟩

/-! ## Skipping ignored tokens = filtering the ScanIgnored stream -/

theorem ScanPost.length_lt {b : Bool} {s : St} {t : Tok} {s' : St} (h : ScanPost b s (some t, s')) :
    s'.rest.length < s.rest.length := by
  obtain ⟨s0, h0, _, h1, _⟩ := h
  have := h0.length_le
  have := h1.length_lt
  omega

/-- More fuel than `rest.length + 1` never changes the token stream. -/
theorem scanLoop_fuel (b : Bool) : ∀ (f1 f2 : Nat) (s : St), s.rest.length < f1 → s.rest.length < f2 →
    scanLoop b f1 s = scanLoop b f2 s
  | 0, _, s, h, _ => by omega
  | _, 0, s, _, h => by omega
  | f1 + 1, f2 + 1, s, h1, h2 => by
    rw [scanLoop_succ, scanLoop_succ]
    have hp := scan_spec b (s.rest.length + 1) s (by omega)
    generalize scan b (s.rest.length + 1) s = r at hp ⊢
    obtain ⟨ot, s'⟩ := r
    cases ot with
    | none => rfl
    | some t =>
      simp only
      have := hp.length_lt
      rw [scanLoop_fuel b f1 f2 s' (by omega) (by omega)]

/-- One unfolding of `Scan()` with enough fuel, in terms of `scanToken`. -/
theorem scan_unfold (b : Bool) (s : St) (hne : s.rest ≠ []) :
    scan b (s.rest.length + 1) s =
      if (scanToken s).1 = .invalid ∨ ((scanToken s).1.isIgnored = true ∧ (!b) = true) then
        scan b ((scanToken s).2.2.rest.length + 1) (scanToken s).2.2
      else
        (some { kind := (scanToken s).1, off := s.off, len := (scanToken s).2.2.off - s.off, line := s.line,
                col := s.col, value := (scanToken s).2.1 }, (scanToken s).2.2) := by
  have hlt := (scanToken_adv s hne).length_lt
  conv => lhs; unfold scan
  rw [if_neg (by simpa using (not_done_iff s).2 hne)]
  generalize scanToken s = r at hlt ⊢
  obtain ⟨k, v, s1⟩ := r
  simp only at hlt ⊢
  split
  · exact scan_fuel b _ _ s1 (by omega) (by omega)
  · rfl

/-- When the first iteration yields nothing to return, the run continues from the state it left. -/
theorem scanLoop_skip (b : Bool) (fuel : Nat) (s : St) (hne : s.rest ≠ []) (hf : s.rest.length < fuel)
    (h : (scanToken s).1 = .invalid ∨ ((scanToken s).1.isIgnored = true ∧ (!b) = true)) :
    scanLoop b fuel s = scanLoop b fuel (scanToken s).2.2 := by
  cases fuel with
  | zero => omega
  | succ fuel => rw [scanLoop_succ, scanLoop_succ, scan_unfold b s hne, if_pos h]

theorem scanLoop_emit (b : Bool) (fuel : Nat) (s : St) (hne : s.rest ≠ [])
    (h : ¬ ((scanToken s).1 = .invalid ∨ ((scanToken s).1.isIgnored = true ∧ (!b) = true))) :
    scanLoop b (fuel + 1) s =
      ({ kind := (scanToken s).1, off := s.off, len := (scanToken s).2.2.off - s.off, line := s.line,
         col := s.col, value := (scanToken s).2.1 } :: (scanLoop b fuel (scanToken s).2.2).1,
       (scanLoop b fuel (scanToken s).2.2).2) := by
  rw [scanLoop_succ, scan_unfold b s hne, if_neg h]

/-- **Mode 0 is the filter of mode ScanIgnored**: same final state (hence the same errors), and the
    tokens are exactly the non-ignored ones. -/
theorem scanLoop_filter : ∀ (n fuel : Nat) (s : St), s.rest.length ≤ n → s.rest.length < fuel →
    (scanLoop false fuel s).1 = (scanLoop true fuel s).1.filter (fun t => !t.kind.isIgnored) ∧
    (scanLoop false fuel s).2 = (scanLoop true fuel s).2
  | n, 0, s, _, hf => by omega
  | n, fuel + 1, s, hn, hf => by
    by_cases hne : s.rest = []
    · have hs : ∀ b, scan b (s.rest.length + 1) s = (none, s) := by
        intro b; unfold scan; rw [if_pos ((done_iff s).2 hne)]
      rw [scanLoop_succ, scanLoop_succ, hs, hs]
      simp
    · have hlt := (scanToken_adv s hne).length_lt
      cases n with
      | zero => exact absurd (List.length_eq_zero_iff.mp (by omega)) hne
      | succ n =>
        by_cases hinv : (scanToken s).1 = .invalid
        · rw [scanLoop_skip false _ s hne hf (.inl hinv), scanLoop_skip true _ s hne hf (.inl hinv)]
          exact scanLoop_filter n (fuel + 1) _ (by omega) (by omega)
        · by_cases hig : (scanToken s).1.isIgnored = true
          · rw [scanLoop_skip false _ s hne hf (.inr ⟨hig, rfl⟩),
              scanLoop_emit true fuel s hne (by simp [hinv])]
            have ih := scanLoop_filter n (fuel + 1) (scanToken s).2.2 (by omega) (by omega)
            rw [scanLoop_fuel true (fuel + 1) fuel _ (by omega) (by omega)] at ih
            simp only [List.filter_cons, hig, Bool.not_true, Bool.false_eq_true, if_false]
            exact ih
          · rw [scanLoop_emit false fuel s hne (by simp [hinv, hig]), scanLoop_emit true fuel s hne (by simp [hinv])]
            have ih := scanLoop_filter n fuel (scanToken s).2.2 (by omega) (by omega)
            simp only [List.filter_cons, hig, Bool.not_false, if_true]
            exact ⟨by rw [ih.1], ih.2⟩

end ApiFu.C07
