/-
  C07 — helper lemmas, part 2: positions along `Adv`, and `scan` / `scanLoop` in terms of `Adv`.
-/
import ApiFu.C07.Lemmas

namespace ApiFu.C07

/-! ## Positions -/

theorem runeVal_eq_small {r c : Nat} (hc : c < 0xFFFD) : runeVal r = c ↔ r = c := by
  unfold runeVal badBase
  split
  · exact Iff.rfl
  · constructor
    · intro h; omega
    · intro h; omega

theorem position_zero (src : List Nat) : Spec.position src 0 = (1, 1) := by
  simp [Spec.position]

/-- Moving one code point forward: a new line exactly when a line terminator ends there. -/
theorem position_succ (src : List Nat) (off : Nat) :
    Spec.position src (off + 1) =
      if Spec.ltEndsAt src.toArray off then ((Spec.position src off).1 + 1, 1)
      else ((Spec.position src off).1, (Spec.position src off).2 + 1) := by
  unfold Spec.position
  simp only [List.range_succ, List.filter_append, List.filter_cons, List.filter_nil]
  split
  · simp
    omega
  · simp only [List.append_nil]
    congr 1
    cases h : ((List.range off).filter (Spec.ltEndsAt src.toArray)).getLast? with
    | none => simp
    | some i =>
      simp only
      have hm : i ∈ (List.range off).filter (Spec.ltEndsAt src.toArray) := List.mem_of_getLast? h
      have : i < off := by
        have := (List.mem_filter.mp hm).1
        simpa using this
      omega

/-- The state describes offset `s.off` of `src`. -/
structure Inv (src : List Nat) (s : St) : Prop where
  rest : s.rest = src.drop s.off
  le : s.off ≤ src.length
  pos : (s.line, s.col) = Spec.position src s.off

theorem Inv.init (src : List Nat) : Inv src (St.init src) :=
  ⟨by simp [St.init], by simp [St.init], by simp [St.init, position_zero]⟩

theorem Inv.errorf {src : List Nat} {s : St} (h : Inv src s) : Inv src s.errorf :=
  ⟨h.rest, h.le, h.pos⟩

theorem Inv.consume {src : List Nat} {s : St} (h : Inv src s) (hne : s.rest ≠ []) : Inv src (consumeRune s) := by
  obtain ⟨r, rest', e⟩ := List.exists_cons_of_ne_nil hne
  have hlt : s.off < src.length := by
    have := h.rest
    rw [e] at this
    by_cases hl : s.off < src.length
    · exact hl
    · rw [List.drop_eq_nil_of_le (by omega)] at this; cases this
  have hdrop : src.drop s.off = src[s.off] :: src.drop (s.off + 1) := List.drop_eq_getElem_cons hlt
  have hr : src[s.off]? = some r := by
    have := h.rest; rw [e, hdrop] at this
    rw [List.getElem?_eq_getElem hlt]; congr 1; exact (List.cons.inj this).1.symm
  have hrest' : rest' = src.drop (s.off + 1) := by
    have := h.rest; rw [e, hdrop] at this; exact (List.cons.inj this).2
  have hnext : src[s.off + 1]? = rest'.head? := by rw [hrest', List.head?_drop]
  refine ⟨?_, ?_, ?_⟩
  · rw [consumeRune_rest e, consumeRune_off hne, hrest']
  · rw [consumeRune_off hne]; omega
  · rw [consumeRune_off hne, position_succ]
    have hp := h.pos
    have hl : (Spec.position src s.off).1 = s.line := by rw [← hp]
    have hc : (Spec.position src s.off).2 = s.col := by rw [← hp]
    -- the model's test is the reference's test
    have htest : (runeVal r = 10 ∨ (runeVal r = 13 ∧ (rest'.head?.map runeVal) ≠ some 10)) ↔
        Spec.ltEndsAt src.toArray s.off = true := by
      unfold Spec.ltEndsAt
      simp only [List.getElem?_toArray, hr, hnext, Bool.or_eq_true, beq_iff_eq, Bool.and_eq_true, bne_iff_ne,
        ne_eq, Option.some.injEq]
      rw [runeVal_eq_small (by decide), runeVal_eq_small (by decide)]
      have : (rest'.head?.map runeVal = some 10) ↔ (rest'.head? = some 10) := by
        cases rest'.head? with
        | none => simp
        | some x => simp [runeVal_eq_small (c := 10) (by decide)]
      rw [this]
    unfold consumeRune
    simp only [e]
    have hnx : (St.next { rest := rest', off := s.off + 1, line := s.line, col := s.col, errs := s.errs }) = rest'.head?.map runeVal := by
      unfold St.next; cases rest' <;> rfl
    rw [hnx]
    by_cases ht : Spec.ltEndsAt src.toArray s.off = true
    · rw [if_pos (htest.2 ht), if_pos ht, hl]
    · rw [if_neg (fun h => ht (htest.1 h)), if_neg ht, hl, hc]

theorem Adv.inv {src : List Nat} {s s' : St} (h : Adv s s') (hi : Inv src s) : Inv src s' := by
  induction h with
  | refl => exact hi
  | consume hne _ ih => exact ih (hi.consume hne)
  | error _ ih => exact ih hi.errorf

/-- Errors recorded along the way all carry the position of some offset of the text. -/
theorem Adv.errs_pos {src : List Nat} {s s' : St} (h : Adv s s') (hi : Inv src s)
    (hs : ∀ e ∈ s.errs, ∃ off, off ≤ src.length ∧ (e.line, e.col) = Spec.position src off) :
    ∀ e ∈ s'.errs, ∃ off, off ≤ src.length ∧ (e.line, e.col) = Spec.position src off := by
  induction h with
  | refl => exact hs
  | consume hne _ ih => exact ih (hi.consume hne) (by simpa using hs)
  | error _ ih =>
    refine ih hi.errorf ?_
    intro e he
    simp only [errorf_errs, List.mem_append, List.mem_singleton] at he
    rcases he with he | he
    · exact hs e he
    · subst he; exact ⟨_, hi.le, hi.pos⟩

/-! ## `scan` -/

/-- What one call of `Scan()` does, in terms of `Adv`: it stops only at the end of the input; a token
    starts at a state `s0` reached from `s` and ends at the returned state, strictly later. -/
def ScanPost (b : Bool) (s : St) : Option Tok × St → Prop
  | (none, s') => Adv s s' ∧ s'.rest = []
  | (some t, s') => ∃ s0, Adv s s0 ∧ s0.rest ≠ [] ∧ AdvS s0 s' ∧
      t.off = s0.off ∧ t.line = s0.line ∧ t.col = s0.col ∧ t.len = s'.off - s0.off ∧
      (t.kind, t.value, s') = scanToken s0 ∧ t.kind ≠ .invalid ∧ (t.kind.isIgnored = true → b = true)

theorem ScanPost.mono {b : Bool} {s s1 : St} (h : Adv s s1) : ∀ {r : Option Tok × St}, ScanPost b s1 r → ScanPost b s r
  | (none, _), hp => ⟨h.trans hp.1, hp.2⟩
  | (some _, _), ⟨s0, h0, rest⟩ => ⟨s0, h.trans h0, rest⟩

theorem scan_spec (b : Bool) : ∀ (fuel : Nat) (s : St), s.rest.length < fuel → ScanPost b s (scan b fuel s)
  | 0, s, h => by omega
  | fuel + 1, s, h => by
    unfold scan
    split
    · rename_i hd
      exact ⟨.refl _, (done_iff s).1 hd⟩
    · rename_i hd
      have hne : s.rest ≠ [] := (not_done_iff s).1 (by simpa using hd)
      have hadv := scanToken_adv s hne
      split
      · rename_i k v s' hst
        rw [hst] at hadv
        simp only at hadv
        split
        · have hl := hadv.length_lt
          exact (scan_spec b fuel s' (by omega)).mono hadv.adv
        · rename_i hk
          refine ⟨s, .refl _, hne, hadv, rfl, rfl, rfl, rfl, hst.symm, ?_, ?_⟩
          · intro hk'; exact hk (.inl hk')
          · intro hig
            cases hb : b with
            | true => rfl
            | false => exact absurd (.inr ⟨hig, by simp [hb]⟩) hk

/-- More fuel than `rest.length + 1` never changes the result of `Scan()`. -/
theorem scan_fuel (b : Bool) : ∀ (f1 f2 : Nat) (s : St), s.rest.length < f1 → s.rest.length < f2 →
    scan b f1 s = scan b f2 s
  | 0, _, s, h, _ => by omega
  | _, 0, s, _, h => by omega
  | f1 + 1, f2 + 1, s, h1, h2 => by
    unfold scan
    split
    · rfl
    · rename_i hd
      have hne : s.rest ≠ [] := (not_done_iff s).1 (by simpa using hd)
      have hl := (scanToken_adv s hne).length_lt
      split
      · rename_i k v s' hst
        rw [hst] at hl
        simp only at hl
        split
        · exact scan_fuel b f1 f2 s' (by omega) (by omega)
        · rfl

/-! ## `scanLoop` -/

/-- The properties of every token of a run and of its final state, from a start state satisfying the
    invariant. -/
theorem scanLoop_spec (b : Bool) (src : List Nat) : ∀ (fuel : Nat) (s : St), s.rest.length < fuel → Inv src s →
    Adv s (scanLoop b fuel s).2 ∧ (scanLoop b fuel s).2.rest = [] ∧
    (∀ t ∈ (scanLoop b fuel s).1, s.off ≤ t.off ∧ 1 ≤ t.len ∧ t.off + t.len ≤ src.length ∧
        (t.line, t.col) = Spec.position src t.off ∧ t.kind ≠ .invalid ∧ (t.kind.isIgnored = true → b = true)) ∧
    (scanLoop b fuel s).1.Pairwise (fun a c => a.off + a.len ≤ c.off)
  | 0, s, h, _ => by omega
  | fuel + 1, s, h, hi => by
    unfold scanLoop
    have hs := scan_spec b (s.rest.length + 1) s (by omega)
    split
    · rename_i s' hres
      rw [hres] at hs
      exact ⟨hs.1, hs.2, by simp, by simp⟩
    · rename_i t s' hres
      rw [hres] at hs
      obtain ⟨s0, h0, hne0, hadv, hoff, hline, hcol, hlen, _, hk, hig⟩ := hs
      have hi0 := h0.inv hi
      have hi' := hadv.adv.inv hi0
      have hlt := hadv.length_lt
      have hle0 := h0.length_le
      have ih := scanLoop_spec b src fuel s' (by omega) hi'
      split
      · rename_i ts sf hrec
        rw [hrec] at ih
        simp only at ih ⊢
        obtain ⟨ia, ir, it, ip⟩ := ih
        have hofflt := hadv.off_lt
        have hend : t.off + t.len = s'.off := by omega
        refine ⟨(h0.trans hadv.adv).trans ia, ir, ?_, ?_⟩
        · intro t' ht'
          rcases List.mem_cons.mp ht' with rfl | ht'
          · refine ⟨by have := h0.off_le; omega, by omega, by have := hi'.le; omega, ?_, hk, hig⟩
            rw [hoff, hline, hcol]; exact hi0.pos
          · obtain ⟨a1, a2, a3, a4, a5⟩ := it t' ht'
            exact ⟨by have := h0.off_le; omega, a2, a3, a4, a5⟩
        · refine List.pairwise_cons.mpr ⟨?_, ip⟩
          intro t' ht'
          have := (it t' ht').1
          omega

end ApiFu.C07
