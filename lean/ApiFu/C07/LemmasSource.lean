/-
  C07 — helper lemmas, part 10: a text the reference lexer accepts consists of SourceCharacters only
  (every token of the grammar does), hence any character outside SourceCharacter is a lexical error.
-/
import ApiFu.C07.LemmasToken
import ApiFu.C07.LemmasNumber

namespace ApiFu.C07

def AllSource (w : List Nat) : Prop := ∀ c ∈ w, isSourceCharacter c = true

theorem AllSource.nil : AllSource [] := fun _ h => by cases h

theorem AllSource.cons {c : Nat} {w : List Nat} (h1 : isSourceCharacter c = true) (h2 : AllSource w) :
    AllSource (c :: w) := by
  intro x hx
  rcases List.mem_cons.mp hx with rfl | hx
  · exact h1
  · exact h2 x hx

theorem AllSource.append {u w : List Nat} (h1 : AllSource u) (h2 : AllSource w) : AllSource (u ++ w) := by
  intro x hx
  rcases List.mem_append.mp hx with hx | hx
  · exact h1 x hx
  · exact h2 x hx

theorem ascii_source {c : Nat} (h : 0x20 ≤ c ∧ c ≤ 0x7E) : isSourceCharacter c = true := by
  simp only [isSourceCharacter, Bool.or_eq_true, beq_iff_eq, Bool.and_eq_true, decide_eq_true_eq]
  omega

theorem hex_source {c v : Nat} (h : hexRuneValue c = some v) : isSourceCharacter c = true := by
  apply ascii_source
  unfold hexRuneValue at h
  split at h
  · omega
  · split at h
    · omega
    · split at h
      · omega
      · cases h

theorem hexPrefix_source : ∀ (n : Nat) (w : List Nat) (code c : Nat), hexPrefix n w code = some c → AllSource (w.take n)
  | 0, _, _, _, _ => by simpa using AllSource.nil
  | n + 1, [], _, _, h => by simp [hexPrefix] at h
  | n + 1, x :: r, code, c, h => by
    simp only [hexPrefix] at h
    cases hv : hexRuneValue x with
    | none => rw [hv] at h; cases h
    | some v =>
      rw [hv] at h
      rw [List.take_succ_cons]
      exact AllSource.cons (hex_source hv) (hexPrefix_source n r _ c h)

/-! ## Strings -/

theorem string_source : ∀ (fuel : Nat) (w : List Nat) (n : Nat) (v : List Nat), w.length ≤ fuel →
    Spec.stringBody? w = some (n, v) → AllSource (w.take n)
  | 0, w, n, v, hf, h => by
    have : w = [] := List.length_eq_zero_iff.mp (by omega)
    rw [this, stringBody_nil] at h; cases h
  | fuel + 1, [], n, v, _, h => by rw [stringBody_nil] at h; cases h
  | fuel + 1, c :: rest, n, v, hf, h => by
    by_cases hq : c = 34
    · subst hq
      rw [stringBody_quote] at h; cases h
      simpa using AllSource.cons (c := 34) (by decide) AllSource.nil
    · by_cases hb : c = 92
      · subst hb
        cases rest with
        | nil => rw [stringBody_bs_nil] at h; cases h
        | cons e rest1 =>
          by_cases hu : e = 117
          · subst hu
            rw [stringBody_u] at h
            cases hp : hexPrefix 4 rest1 0 with
            | none => rw [hp] at h; cases h
            | some code =>
              rw [hp] at h
              simp only [Option.bind_some] at h
              cases hb : Spec.stringBody? (rest1.drop 4) with
              | none => rw [hb] at h; cases h
              | some p =>
                rw [hb] at h
                simp only [Option.map_some, Option.some.injEq, Prod.mk.injEq] at h
                obtain ⟨rfl, _⟩ := h
                have ih := string_source fuel (rest1.drop 4) p.1 p.2 (by simp at hf ⊢; omega) hb
                have h4 := hexPrefix_source 4 rest1 0 code hp
                have hlen := hexPrefix_length 4 rest1 0 code hp
                have : (92 :: 117 :: rest1).take (p.1 + 6) = [92, 117] ++ (rest1.take 4 ++ (rest1.drop 4).take p.1) := by
                  rw [show p.1 + 6 = (4 + p.1) + 1 + 1 by omega, List.take_succ_cons, List.take_succ_cons,
                    List.take_add]
                  rfl
                rw [this]
                exact AllSource.append (AllSource.cons (by decide) (AllSource.cons (by decide) AllSource.nil))
                  (AllSource.append h4 ih)
          · rw [stringBody_esc rest1 hu] at h
            cases he : Spec.escapedCharacter? e with
            | none => rw [he] at h; cases h
            | some x =>
              rw [he] at h
              simp only [Option.bind_some] at h
              cases hb : Spec.stringBody? rest1 with
              | none => rw [hb] at h; cases h
              | some p =>
                rw [hb] at h
                simp only [Option.map_some, Option.some.injEq, Prod.mk.injEq] at h
                obtain ⟨rfl, _⟩ := h
                have ih := string_source fuel rest1 p.1 p.2 (by simp at hf ⊢; omega) hb
                have hes : isSourceCharacter e = true := by
                  rcases escaped_cases he with h | h | h | h | h | h | h | h <;> obtain ⟨rfl, _⟩ := h <;> decide
                rw [show p.1 + 2 = p.1 + 1 + 1 by omega, List.take_succ_cons, List.take_succ_cons]
                exact AllSource.cons (by decide) (AllSource.cons hes ih)
      · rw [stringBody_char rest hq hb] at h
        by_cases hs : (Spec.isSourceCharacter c && !Spec.isLineTerminatorChar c) = true
        · rw [if_pos hs] at h
          simp only [Bool.and_eq_true, isSourceCharacter_eq] at hs
          cases hb' : Spec.stringBody? rest with
          | none => rw [hb'] at h; cases h
          | some p =>
            rw [hb'] at h
            simp only [Option.map_some, Option.some.injEq, Prod.mk.injEq] at h
            obtain ⟨rfl, _⟩ := h
            have ih := string_source fuel rest p.1 p.2 (by simpa using hf) hb'
            rw [List.take_succ_cons]
            exact AllSource.cons hs.1 ih
        · rw [if_neg hs] at h; cases h

theorem block_source : ∀ (fuel : Nat) (w : List Nat) (n : Nat) (v : List Nat), w.length ≤ fuel →
    Spec.blockBody? w = some (n, v) → AllSource (w.take n)
  | 0, w, n, v, hf, h => by
    have : w = [] := List.length_eq_zero_iff.mp (by omega)
    rw [this, blockBody_nil] at h; cases h
  | fuel + 1, [], n, v, _, h => by rw [blockBody_nil] at h; cases h
  | fuel + 1, c :: rest, n, v, hf, h => by
    by_cases h1 : c = 34 ∧ rest.take 2 = [34, 34]
    · obtain ⟨rfl, ht⟩ := h1
      obtain ⟨rest', rfl⟩ : ∃ rest', rest = 34 :: 34 :: rest' := by
        rcases rest with _ | ⟨a, _ | ⟨b, r⟩⟩ <;> simp at ht
        exact ⟨r, by rw [ht.1, ht.2]⟩
      rw [blockBody_close] at h; cases h
      simpa using AllSource.cons (c := 34) (by decide) (AllSource.cons (c := 34) (by decide)
        (AllSource.cons (c := 34) (by decide) AllSource.nil))
    · by_cases h2 : c = 92 ∧ rest.take 3 = [34, 34, 34]
      · obtain ⟨rfl, ht⟩ := h2
        obtain ⟨rest', rfl⟩ : ∃ rest', rest = 34 :: 34 :: 34 :: rest' := by
          rcases rest with _ | ⟨a, _ | ⟨b, _ | ⟨d, r⟩⟩⟩ <;> simp at ht
          exact ⟨r, by rw [ht.1, ht.2.1, ht.2.2]⟩
        rw [blockBody_esc] at h
        cases hb : Spec.blockBody? rest' with
        | none => rw [hb] at h; cases h
        | some p =>
          rw [hb] at h
          simp only [Option.map_some, Option.some.injEq, Prod.mk.injEq] at h
          obtain ⟨rfl, _⟩ := h
          have ih := block_source fuel rest' p.1 p.2 (by simp at hf ⊢; omega) hb
          rw [show p.1 + 4 = p.1 + 1 + 1 + 1 + 1 by omega, List.take_succ_cons, List.take_succ_cons,
            List.take_succ_cons, List.take_succ_cons]
          exact AllSource.cons (by decide) (AllSource.cons (by decide) (AllSource.cons (by decide)
            (AllSource.cons (by decide) ih)))
      · rw [blockBody_other rest h1 h2] at h
        by_cases hs : Spec.isSourceCharacter c = true
        · rw [if_pos hs] at h
          cases hb : Spec.blockBody? rest with
          | none => rw [hb] at h; cases h
          | some p =>
            rw [hb] at h
            simp only [Option.map_some, Option.some.injEq, Prod.mk.injEq] at h
            obtain ⟨rfl, _⟩ := h
            have ih := block_source fuel rest p.1 p.2 (by simpa using hf) hb
            rw [List.take_succ_cons]
            exact AllSource.cons (by rw [← isSourceCharacter_eq]; exact hs) ih
        · rw [if_neg hs] at h; cases h

/-! ## Numbers and names -/

theorem digit_source {c : Nat} (h : Spec.isDigit c = true) : isSourceCharacter c = true := by
  apply ascii_source
  simp only [Spec.isDigit, Bool.and_eq_true, decide_eq_true_eq, c0, c9] at h
  omega

theorem digits_source {w : List Nat} (h : Spec.Digits w) : AllSource w := fun c hc => digit_source (h c hc)

theorem integerPart_source {w : List Nat} (h : Spec.IntegerPart w) : AllSource w := by
  have un : ∀ x, Spec.UnsignedIntegerPart x → AllSource x := by
    intro x hx
    cases hx with
    | zero => exact AllSource.cons (by decide) AllSource.nil
    | nonZero d ds hnz hds =>
      refine AllSource.cons (ascii_source ?_) (digits_source hds)
      simp only [Spec.isNonZeroDigit, Bool.and_eq_true, decide_eq_true_eq, c1, c9] at hnz
      omega
  rcases h with h | ⟨x, hx, rfl⟩
  · exact un w h
  · exact AllSource.cons (by decide) (un x hx)

theorem fractionalPart_source {w : List Nat} (h : Spec.FractionalPart w) : AllSource w := by
  obtain ⟨d, ds, hd, hds, rfl⟩ := h
  exact AllSource.cons (by decide) (AllSource.cons (digit_source hd) (digits_source hds))

theorem exponentPart_source {w : List Nat} (h : Spec.ExponentPart w) : AllSource w := by
  obtain ⟨e, sign, d, ds, he, hs, hd, hds, rfl⟩ := h
  refine AllSource.cons (by rcases he with h | h <;> subst h <;> decide) (AllSource.append ?_ ?_)
  · rcases hs with rfl | rfl | rfl
    · exact AllSource.nil
    · exact AllSource.cons (by decide) AllSource.nil
    · exact AllSource.cons (by decide) AllSource.nil
  · exact AllSource.cons (digit_source hd) (digits_source hds)

theorem number_source {w : List Nat} {f : Bool} {n : Nat} (h : Spec.number? w = some (f, n)) : AllSource (w.take n) := by
  have hl := (Spec.number_loose w).1 _ h
  obtain ⟨_, _, hi, hf⟩ := Spec.numberLoose_sound hl
  cases f with
  | false => exact integerPart_source (hi rfl)
  | true =>
    obtain ⟨ip, fp, ep, h1, h2, h3, _, he⟩ := hf rfl
    rw [he]
    refine AllSource.append (AllSource.append (integerPart_source h1) ?_) ?_
    · rcases h2 with rfl | h2
      · exact AllSource.nil
      · exact fractionalPart_source h2
    · rcases h3 with rfl | h3
      · exact AllSource.nil
      · exact exponentPart_source h3

theorem take_takeWhile_gen (p : Nat → Bool) (w : List Nat) : w.take (w.takeWhile p).length = w.takeWhile p := by
  induction w with
  | nil => rfl
  | cons c w ih =>
    by_cases h : p c = true
    · simp [h, ih]
    · simp [h]

theorem mem_takeWhile {p : Nat → Bool} {w : List Nat} {c : Nat} (h : c ∈ w.takeWhile p) : p c = true := by
  induction w with
  | nil => cases h
  | cons x w ih =>
    by_cases hx : p x = true
    · simp only [List.takeWhile_cons, hx, if_true] at h
      rcases List.mem_cons.mp h with rfl | h
      · exact hx
      · exact ih h
    · simp [hx] at h

theorem nameCont_source {c : Nat} (h : Spec.isNameContinue c = true) : isSourceCharacter c = true := by
  apply ascii_source
  simp only [Spec.isNameContinue, Spec.isNameStart, Spec.isDigit, Bool.or_eq_true, Bool.and_eq_true, beq_iff_eq,
    decide_eq_true_eq, show '_'.toNat = 95 from rfl, show 'A'.toNat = 65 from rfl, show 'Z'.toNat = 90 from rfl,
    show 'a'.toNat = 97 from rfl, show 'z'.toNat = 122 from rfl, c0, c9] at h
  omega

theorem name_source {w : List Nat} {n : Nat} (h : Spec.name? w = some n) : AllSource (w.take n) := by
  cases w with
  | nil => simp [Spec.name?] at h
  | cons c r =>
    simp only [Spec.name?] at h
    split at h
    · rename_i hs
      cases h
      rw [Nat.add_comm, List.take_succ_cons, take_takeWhile_gen]
      exact AllSource.cons (nameCont_source (by simp [Spec.isNameContinue, hs]))
        (fun x hx => nameCont_source (mem_takeWhile hx))
    · cases h

/-! ## Every token -/

theorem token_source (b : Bool) (w : List Nat) {k : Kind} {n : Nat} {v : List Nat}
    (h : Spec.token? b w = some (k, n, v)) : AllSource (w.take n) := by
  cases w with
  | nil => simp [Spec.token?] at h
  | cons c rest =>
    by_cases h1 : c = 9 ∨ c = 32
    · rw [spec_ws b rest h1] at h; cases h
      rcases h1 with rfl | rfl <;> simpa using AllSource.cons (by decide) AllSource.nil
    by_cases h2 : isPunct1 c = true
    · rw [spec_punct b rest h2] at h; cases h
      have : isSourceCharacter c = true := by
        apply ascii_source
        simp only [isPunct1, Bool.or_eq_true, beq_iff_eq] at h2; omega
      simpa using AllSource.cons this AllSource.nil
    by_cases h3 : c = 44
    · subst h3; rw [spec_comma] at h; cases h
      simpa using AllSource.cons (c := 44) (by decide) AllSource.nil
    by_cases h4 : c = 13 ∨ c = 10
    · rw [spec_lt b rest h4] at h; cases h
      have hc : isSourceCharacter c = true := by rcases h4 with rfl | rfl <;> decide
      split
      · rename_i hcr
        cases rest with
        | nil => simp at hcr
        | cons d r =>
          simp only [List.head?_cons, Option.some.injEq] at hcr
          rw [hcr.2]
          simpa using AllSource.cons hc (AllSource.cons (c := 10) (by decide) AllSource.nil)
      · simpa using AllSource.cons hc AllSource.nil
    by_cases h5 : c = 35
    · subst h5
      rw [spec_comment] at h
      split at h
      · rename_i hall
        cases h
        rw [Nat.add_comm, List.take_succ_cons, take_takeWhile_gen]
        refine AllSource.cons (by decide) ?_
        intro x hx
        rw [← isSourceCharacter_eq]
        exact List.all_eq_true.mp hall x hx
      · cases h
    by_cases h6 : c = 46
    · subst h6
      rw [spec_dot] at h
      split at h
      · rename_i ht
        cases h
        rcases rest with _ | ⟨a, _ | ⟨d, r⟩⟩ <;> simp at ht
        obtain ⟨rfl, rfl⟩ := ht
        simpa using AllSource.cons (c := 46) (by decide) (AllSource.cons (c := 46) (by decide)
          (AllSource.cons (c := 46) (by decide) AllSource.nil))
      · cases h
    by_cases h7 : c = 34
    · subst h7
      rw [spec_quote] at h
      unfold specString at h
      split at h
      · rename_i ht
        cases hb : Spec.blockBody? (rest.drop 2) with
        | none => rw [hb] at h; cases h
        | some p =>
          rw [hb] at h
          simp only [Option.map_some, Option.some.injEq, Prod.mk.injEq] at h
          obtain ⟨_, rfl, _⟩ := h
          have := block_source _ _ p.1 p.2 (Nat.le_refl _) hb
          obtain ⟨r, rfl⟩ : ∃ r, rest = 34 :: 34 :: r := by
            rcases rest with _ | ⟨a, _ | ⟨d, r⟩⟩ <;> simp at ht
            exact ⟨r, by rw [ht.1, ht.2]⟩
          simp only [List.drop_succ_cons, List.drop_zero] at this
          rw [show 3 + p.1 = p.1 + 1 + 1 + 1 by omega, List.take_succ_cons, List.take_succ_cons, List.take_succ_cons]
          exact AllSource.cons (by decide) (AllSource.cons (by decide) (AllSource.cons (by decide) this))
      · cases hb : Spec.stringBody? rest with
        | none => rw [hb] at h; cases h
        | some p =>
          rw [hb] at h
          simp only [Option.map_some, Option.some.injEq, Prod.mk.injEq] at h
          obtain ⟨_, rfl, _⟩ := h
          have := string_source _ _ p.1 p.2 (Nat.le_refl _) hb
          rw [Nat.add_comm, List.take_succ_cons]
          exact AllSource.cons (by decide) this
    by_cases h9 : c = 0xFEFF
    · subst h9
      rw [spec_bom] at h
      split at h
      · cases h; simpa using AllSource.cons (c := 0xFEFF) (by decide) AllSource.nil
      · cases h
    rw [spec_default b rest h1 (by simpa using h2) h3 h4 h5 h6 h7 h9] at h
    split at h
    · cases hn : Spec.number? (c :: rest) with
      | none => rw [hn] at h; cases h
      | some p =>
        rw [hn] at h
        simp only [Option.map_some, Option.some.injEq, Prod.mk.injEq] at h
        obtain ⟨_, rfl, _⟩ := h
        exact number_source (f := p.1) hn
    · cases hn : Spec.name? (c :: rest) with
      | none => rw [hn] at h; cases h
      | some m =>
        rw [hn] at h
        simp only [Option.map_some, Option.some.injEq, Prod.mk.injEq] at h
        obtain ⟨_, rfl, _⟩ := h
        exact name_source hn

/-- A text the reference accepts from offset `off` consists of SourceCharacters from there on. -/
theorem lexFrom_ok_source (src : List Nat) : ∀ (fuel off : Nat) (ts : List Tok),
    Spec.lexFrom src fuel off = .ok ts → AllSource (src.drop off)
  | 0, _, _, h => by simp [Spec.lexFrom] at h
  | fuel + 1, off, ts, h => by
    unfold Spec.lexFrom at h
    cases hd : src.drop off with
    | nil => exact AllSource.nil
    | cons c rest =>
      rw [hd] at h
      simp only at h
      cases ht : Spec.token? (off == 0) (c :: rest) with
      | none => rw [ht] at h; cases h
      | some p =>
        obtain ⟨k, n, v⟩ := p
        rw [ht] at h
        simp only at h
        have hs := token_source _ _ ht
        cases hr : Spec.lexFrom src fuel (off + n) with
        | error ts' => rw [hr] at h; simp [Spec.Res.cons] at h
        | ok ts' =>
          have ih := lexFrom_ok_source src fuel (off + n) ts' hr
          rw [← List.take_append_drop n (c :: rest)]
          refine AllSource.append hs ?_
          rw [← hd, List.drop_drop]
          exact ih

end ApiFu.C07
