/-
  C07 — helper lemmas, part 6: the block-string loop of `consumeStringValue` against `Spec.blockBody?`.
-/
import ApiFu.C07.LemmasString

namespace ApiFu.C07

/-! ## The reference's block-string grammar, one case at a time -/

theorem blockBody_nil : Spec.blockBody? [] = none := by simp [Spec.blockBody?]

theorem blockBody_close (rest' : List Nat) : Spec.blockBody? (34 :: 34 :: 34 :: rest') = some (3, []) := by
  rw [Spec.blockBody?.eq_def]; simp

theorem blockBody_esc (rest' : List Nat) :
    Spec.blockBody? (92 :: 34 :: 34 :: 34 :: rest') =
      (Spec.blockBody? rest').map fun p => (p.1 + 4, [34, 34, 34] ++ p.2) := by
  rw [Spec.blockBody?.eq_def]; simp

theorem blockBody_other {c : Nat} (rest : List Nat) (h1 : ¬ (c = 34 ∧ rest.take 2 = [34, 34]))
    (h2 : ¬ (c = 92 ∧ rest.take 3 = [34, 34, 34])) :
    Spec.blockBody? (c :: rest) =
      if Spec.isSourceCharacter c = true then (Spec.blockBody? rest).map fun p => (p.1 + 1, c :: p.2) else none := by
  rw [Spec.blockBody?.eq_def]
  simp only [show '"'.toNat = 34 from rfl, show '\\'.toNat = 92 from rfl, List.take_succ_cons, List.cons.injEq]
  rw [if_neg h1, if_neg h2]

/-! ## Single iterations, block strings -/

section block
variable {s : St} {c : Nat} {rest : List Nat} (v : List Nat)

theorem take2_iff {rest : List Nat} {s1 : St} (hr : s1.rest = rest) (hv : Valid rest) :
    (s1.next = some 34 ∧ s1.peek = 34) ↔ rest.take 2 = [34, 34] := by
  rcases rest with _ | ⟨a, _ | ⟨b, r⟩⟩
  · simp [next_nil hr]
  · simp [next_cons hr hv.head, peek_single hr]
  · simp [next_cons hr hv.head, peek_cons hr hv.tail.head]

theorem bstep_close {rest' : List Nat} (hw : s.rest = 34 :: 34 :: 34 :: rest') :
    strStep true (mkSS s v) = doneSS (consumeN 3 s) v := by
  have hr1 : (consumeRune s).rest = 34 :: 34 :: rest' := consumeRune_rest hw
  simp [strStep, mkSS, doneSS, next_cons hw (by decide), next_cons hr1 (by decide), peek_cons hr1 (by decide),
    consumeN_succ]

theorem bstep_quote (hw : s.rest = 34 :: rest) (hv : Valid rest) (h : rest.take 2 ≠ [34, 34]) :
    strStep true (mkSS s v) = mkSS (consumeN 1 s) (v ++ [34]) := by
  have hr1 : (consumeRune s).rest = rest := consumeRune_rest hw
  have := (not_congr (take2_iff hr1 hv)).2 h
  simp [strStep, mkSS, next_cons hw (by decide), this, consumeN_one]

theorem bstep_esc {rest' : List Nat} (hw : s.rest = 92 :: 34 :: 34 :: 34 :: rest') :
    strStep true (mkSS s v) = mkSS (consumeN 4 s) (v ++ [34, 34, 34]) := by
  have hr1 : (consumeRune s).rest = 34 :: 34 :: 34 :: rest' := consumeRune_rest hw
  simp [strStep, mkSS, next_cons hw (by decide), hr1, consumeN_succ]

theorem bstep_bs (hw : s.rest = 92 :: rest) (h : rest.take 3 ≠ [34, 34, 34]) :
    strStep true (mkSS s v) = mkSS (consumeN 1 s) (v ++ [92]) := by
  have hr1 : (consumeRune s).rest = rest := consumeRune_rest hw
  simp [strStep, mkSS, next_cons hw (by decide), hr1, h, consumeN_one]

theorem bstep_crlf {rest' : List Nat} (hw : s.rest = 13 :: 10 :: rest') :
    strStep true (mkSS s v) = mkSS (consumeN 2 s) (v ++ [13, 10]) := by
  have hr1 : (consumeRune s).rest = 10 :: rest' := consumeRune_rest hw
  simp [strStep, mkSS, next_cons hw (by decide), next_cons hr1 (by decide), consumeN_succ]

theorem bstep_lf (hw : s.rest = 10 :: rest) : strStep true (mkSS s v) = mkSS (consumeN 1 s) (v ++ [10]) := by
  simp [strStep, mkSS, next_cons hw (by decide), consumeN_one]

theorem bstep_cr (hw : s.rest = 13 :: rest) (hv : Valid rest) (h : rest.head? ≠ some 10) :
    strStep true (mkSS s v) = mkSS (consumeN 1 s) (v ++ [13]) := by
  have hr1 : (consumeRune s).rest = rest := consumeRune_rest hw
  have : (consumeRune s).next ≠ some 10 := by
    cases rest with
    | nil => simp [next_nil hr1]
    | cons a r => simpa [next_cons hr1 hv.head] using h
  simp [strStep, mkSS, next_cons hw (by decide), this, consumeN_one]

theorem bstep_char (hw : s.rest = c :: rest) (hcb : c < badBase) (h1 : c ≠ 34) (h2 : c ≠ 92) (h3 : c ≠ 10)
    (h4 : c ≠ 13) (hs : isSourceCharacter c = true) :
    strStep true (mkSS s v) = mkSS (consumeN 1 s) (v ++ [c]) := by
  simp [strStep, mkSS, next_cons hw hcb, h1, h2, h3, h4, hs, consumeN_one]

theorem bstep_nonsource (hw : s.rest = c :: rest) (hcb : c < badBase) (hs : isSourceCharacter c = false) :
    strStep true (mkSS s v) = mkSS (consumeRune s.errorf) v := by
  have h1 : c ≠ 34 := by intro h; subst h; simp [isSourceCharacter] at hs
  have h2 : c ≠ 92 := by intro h; subst h; simp [isSourceCharacter] at hs
  have h3 : c ≠ 10 := by intro h; subst h; simp [isSourceCharacter] at hs
  have h4 : c ≠ 13 := by intro h; subst h; simp [isSourceCharacter] at hs
  simp [strStep, mkSS, next_cons hw hcb, h1, h2, h3, h4, hs]

end block

/-- What one iteration of the block-string loop does at `c :: rest`, in the reference's terms: it
    terminates at `"""`, or consumes `k ≥ 1` code points that the reference accepts as block string
    characters with value `u`, or meets a non-SourceCharacter and records an error. -/
inductive BlockStep (s : St) (v : List Nat) : SS → Prop
  | close : Spec.blockBody? s.rest = some (3, []) → 3 ≤ s.rest.length → BlockStep s v (doneSS (consumeN 3 s) v)
  | chars (k : Nat) (u : List Nat) : 1 ≤ k → k ≤ s.rest.length →
      Spec.blockBody? s.rest = (Spec.blockBody? (s.rest.drop k)).map (fun p => (p.1 + k, u ++ p.2)) →
      BlockStep s v (mkSS (consumeN k s) (v ++ u))
  | bad : Spec.blockBody? s.rest = none → BlockStep s v (mkSS (consumeRune s.errorf) v)

theorem blockStep (s : St) (v : List Nat) (hne : s.rest ≠ []) (hv : Valid s.rest) :
    BlockStep s v (strStep true (mkSS s v)) := by
  obtain ⟨c, rest, hw⟩ := List.exists_cons_of_ne_nil hne
  rw [hw] at hv
  have hcb := hv.head
  by_cases hq : c = 34
  · subst hq
    by_cases ht : rest.take 2 = [34, 34]
    · obtain ⟨rest', rfl⟩ : ∃ rest', rest = 34 :: 34 :: rest' := by
        rcases rest with _ | ⟨a, _ | ⟨b, r⟩⟩ <;> simp at ht
        exact ⟨r, by rw [ht.1, ht.2]⟩
      rw [bstep_close v hw]
      exact .close (by rw [hw, blockBody_close]) (by rw [hw]; simp)
    · rw [bstep_quote v hw hv.tail ht]
      refine .chars 1 [34] (by omega) (by rw [hw]; simp) ?_
      rw [hw, blockBody_other rest (fun h => ht h.2) (fun h => by simp at h)]
      simp [Spec.isSourceCharacter]
  · by_cases hb : c = 92
    · subst hb
      by_cases ht : rest.take 3 = [34, 34, 34]
      · obtain ⟨rest', rfl⟩ : ∃ rest', rest = 34 :: 34 :: 34 :: rest' := by
          rcases rest with _ | ⟨a, _ | ⟨b, _ | ⟨d, r⟩⟩⟩ <;> simp at ht
          exact ⟨r, by rw [ht.1, ht.2.1, ht.2.2]⟩
        rw [bstep_esc v hw]
        refine .chars 4 [34, 34, 34] (by omega) (by rw [hw]; simp) ?_
        rw [hw, blockBody_esc]
        simp
      · rw [bstep_bs v hw ht]
        refine .chars 1 [92] (by omega) (by rw [hw]; simp) ?_
        rw [hw, blockBody_other rest (fun h => by simp at h) (fun h => ht h.2)]
        simp [Spec.isSourceCharacter]
    · have o1 : ∀ r : List Nat, ¬ (c = 34 ∧ r.take 2 = [34, 34]) := fun _ h => hq h.1
      have o2 : ∀ r : List Nat, ¬ (c = 92 ∧ r.take 3 = [34, 34, 34]) := fun _ h => hb h.1
      by_cases hcr : c = 13
      · subst hcr
        by_cases hlf : rest.head? = some 10
        · obtain ⟨rest', rfl⟩ : ∃ rest', rest = 10 :: rest' := by
            cases rest with
            | nil => simp at hlf
            | cons a r => simp at hlf; exact ⟨r, by rw [hlf]⟩
          rw [bstep_crlf v hw]
          refine .chars 2 [13, 10] (by omega) (by rw [hw]; simp) ?_
          rw [hw, blockBody_other _ (o1 _) (o2 _), blockBody_other _ (by simp) (by simp)]
          simp [Spec.isSourceCharacter, Option.map_map, Function.comp_def, Nat.add_assoc]
        · rw [bstep_cr v hw hv.tail hlf]
          refine .chars 1 [13] (by omega) (by rw [hw]; simp) ?_
          rw [hw, blockBody_other _ (o1 _) (o2 _)]
          simp [Spec.isSourceCharacter]
      · by_cases hlf : c = 10
        · subst hlf
          rw [bstep_lf v hw]
          refine .chars 1 [10] (by omega) (by rw [hw]; simp) ?_
          rw [hw, blockBody_other _ (o1 _) (o2 _)]
          simp [Spec.isSourceCharacter]
        · by_cases hs : isSourceCharacter c = true
          · rw [bstep_char v hw hcb hq hb hlf hcr hs]
            refine .chars 1 [c] (by omega) (by rw [hw]; simp) ?_
            rw [hw, blockBody_other _ (o1 _) (o2 _)]
            simp [isSourceCharacter_eq, hs]
          · have hs' : isSourceCharacter c = false := by simpa using hs
            rw [bstep_nonsource v hw hcb hs']
            refine .bad ?_
            rw [hw, blockBody_other _ (o1 _) (o2 _)]
            simp [isSourceCharacter_eq, hs']

/-! ## The block-string loop -/

/-- Accepting direction. -/
theorem block_some : ∀ (fuel : Nat) (s : St) (v : List Nat) (n : Nat) (u : List Nat),
    s.rest.length ≤ fuel → Valid s.rest → Spec.blockBody? s.rest = some (n, u) →
    loop strCond (strStep true) fuel (mkSS s v) = doneSS (consumeN n s) (v ++ u) ∧ 3 ≤ n ∧ n ≤ s.rest.length
  | 0, s, v, n, u, hf, _, h => by
    have : s.rest = [] := List.length_eq_zero_iff.mp (by omega)
    rw [this, blockBody_nil] at h; cases h
  | fuel + 1, s, v, n, u, hf, hv, h => by
    by_cases hne : s.rest = []
    · rw [hne, blockBody_nil] at h; cases h
    · rw [loop_true (strCond_mk hne v)]
      have hbs := blockStep s v hne hv
      generalize strStep true (mkSS s v) = y at hbs ⊢
      cases hbs with
      | close hb hl =>
        rw [hb] at h
        simp only [Option.some.injEq, Prod.mk.injEq] at h
        obtain ⟨rfl, rfl⟩ := h
        rw [loop_false (strCond_done _ _)]
        simp [hl]
      | chars k u' hk hkl hb =>
        rw [hb] at h
        have hrk : (consumeN k s).rest = s.rest.drop k := consumeN_rest k s
        cases hb' : Spec.blockBody? (s.rest.drop k) with
        | none => rw [hb'] at h; cases h
        | some p =>
          obtain ⟨n', u''⟩ := p
          rw [hb'] at h
          simp only [Option.map_some, Option.some.injEq, Prod.mk.injEq] at h
          obtain ⟨rfl, rfl⟩ := h
          have ih := block_some fuel (consumeN k s) (v ++ u') n' u''
            (by rw [hrk]; simp; omega) (by rw [hrk]; exact hv.drop k) (by rw [hrk]; exact hb')
          rw [ih.1, consumeN_add]
          refine ⟨by simp [Nat.add_comm], by omega, ?_⟩
          have := ih.2.2
          rw [hrk] at this
          simp at this
          omega
      | bad hb => rw [hb] at h; cases h

/-- Rejecting direction. -/
theorem block_none : ∀ (fuel : Nat) (s : St) (v : List Nat),
    s.rest.length ≤ fuel → Valid s.rest → Spec.blockBody? s.rest = none →
    (loop strCond (strStep true) fuel (mkSS s v)).terminated = false ∨
      s.errs.length < (loop strCond (strStep true) fuel (mkSS s v)).st.errs.length
  | 0, s, v, hf, _, _ => by left; rfl
  | fuel + 1, s, v, hf, hv, h => by
    by_cases hne : s.rest = []
    · rw [loop_false (strCond_mk_nil hne v)]; left; rfl
    · rw [loop_true (strCond_mk hne v)]
      have hbs := blockStep s v hne hv
      generalize strStep true (mkSS s v) = y at hbs ⊢
      cases hbs with
      | close hb hl => rw [hb] at h; cases h
      | chars k u' hk hkl hb =>
        rw [hb] at h
        simp only [Option.map_eq_none_iff] at h
        have hrk : (consumeN k s).rest = s.rest.drop k := consumeN_rest k s
        have ih := block_none fuel (consumeN k s) (v ++ u')
          (by rw [hrk]; simp; omega) (by rw [hrk]; exact hv.drop k) (by rw [hrk]; exact h)
        simpa using ih
      | bad hb =>
        right
        have := strLoop_errs_le true fuel (mkSS (consumeRune s.errorf) v)
        simp only [mkSS, consumeRune_errs, errorf_errs, List.length_append, List.length_singleton] at this ⊢
        omega

end ApiFu.C07
