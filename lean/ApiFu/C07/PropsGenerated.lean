/-
  C07 — the leaves of the model are what the source says.

  `Generated.lean` is written by `tools/c07facts` from the *current* Go source on every check: a literal
  translation of the scanner's pure leaf functions, conditions, case-label tables and constants (runes as
  `Int`, `-1` = end of input). This file proves, for ALL runes (no bound, no enumeration: case analysis and
  linear arithmetic over `Int`/`Nat`), that each generated definition equals the corresponding leaf of the
  hand-written model `Model.lean`, and — for the two `switch s.nextRune` tables, the string character chain
  and `consumeRune`'s line test — that the model's step function *is* the function obtained by plugging
  the generated table in. So `scan_eq_spec`, `position_correct`, … (Props.lean) speak about what the source
  says at the leaves; what remains observed-only is the control flow between the leaves (the harness).

  Conventions: a Go rune `r ≥ 0` is the model's `Nat` `r.toNat`; `s.nextRune` is `optRune s.next`
  (`-1` when the input is exhausted — every generated predicate is false there, which is what the model's
  `St.nextIs` assumes); `s.peek()` is never negative (RuneError at the end), the model's `St.peek`.

  Robustness: the proofs do not depend on the syntactic shape of the conditions (operand order, `a <= r`
  vs `r >= a`, order of `||` operands, order of switch clauses and of labels inside a clause, `switch`
  vs `if` chain, equivalent constants such as `'0'` vs `48` vs `0x30`): see design-notes/C07.md, Session 3.
-/
import ApiFu.C07.Model
import ApiFu.C07.Generated

set_option linter.unusedSimpArgs false

namespace ApiFu.C07.GeneratedProps
open ApiFu.C07

/-- Bool equality of two leaf predicates: to propositions, then linear arithmetic. -/
macro "leaf_bool" : tactic =>
  `(tactic| (rw [Bool.eq_iff_iff]
             simp only [Bool.and_eq_true, Bool.or_eq_true, Bool.not_eq_true', decide_eq_true_eq,
               decide_eq_false_iff_not, beq_iff_eq, bne_iff_ne, Bool.not_eq_eq_eq_not, Bool.not_true,
               Bool.true_and, Bool.false_and, Bool.and_true, Bool.and_false, Bool.not_false,
               Bool.false_eq_true, ne_eq, Option.some.injEq, reduceCtorEq, not_false_eq_true, not_true_eq_false,
               false_and, and_false, true_and, and_true, false_or, or_false, optRune,
               Bool.and_eq_false_iff, Bool.or_eq_false_iff, beq_eq_false_iff_ne, iff_true, iff_false, true_or, or_true, Bool.not_and, Bool.not_or,
               Bool.not_not, Bool.decide_and, Bool.decide_or, decide_not]
             <;> first | decide | omega))

/-! ## Tokens (graphql/token/token.go) -/

/-- The Go name of a token kind. -/
def goName : Kind → String
  | .invalid => "INVALID" | .punctuator => "PUNCTUATOR" | .name => "NAME" | .intValue => "INT_VALUE"
  | .floatValue => "FLOAT_VALUE" | .stringValue => "STRING_VALUE" | .unicodeBOM => "UNICODE_BOM"
  | .whiteSpace => "WHITE_SPACE" | .lineTerminator => "LINE_TERMINATOR" | .comment => "COMMENT"
  | .comma => "COMMA"

def allKinds : List Kind :=
  [.invalid, .punctuator, .name, .intValue, .floatValue, .stringValue, .unicodeBOM, .whiteSpace,
   .lineTerminator, .comment, .comma]

/-- `allKinds` is every kind of the model. -/
theorem allKinds_complete (k : Kind) : k ∈ allKinds := by cases k <;> simp [allKinds]

/-- The `Token` constants of token.go are exactly the model's kinds, same names, same order, and
    `Kind.code` is the value `iota` gives each. -/
theorem token_constants :
    Generated.tokenConstants = allKinds.map (fun k => (goName k, (k.code : Int))) := by
  decide

theorem tokenIsIgnored_kind (k : Kind) : Generated.tokenIsIgnored k.code = k.isIgnored := by
  cases k <;> rfl

/-- `Token.IsIgnored` is true exactly on the values of the model's ignored kinds (and on no other integer). -/
theorem tokenIsIgnored_eq (t : Int) :
    Generated.tokenIsIgnored t = true ↔ ∃ k : Kind, (k.code : Int) = t ∧ k.isIgnored = true := by
  constructor
  · intro h
    unfold Generated.tokenIsIgnored at h
    simp only [Bool.or_eq_true, decide_eq_true_eq, ite_eq_left_iff, Bool.not_eq_true, reduceCtorEq, imp_false,
      Bool.if_true_left, Bool.if_false_right, Bool.and_true, Bool.or_false, Bool.decide_eq_true, Bool.not_eq_false] at h
    have h5 : t = 6 ∨ t = 7 ∨ t = 8 ∨ t = 9 ∨ t = 10 := by omega
    rcases h5 with rfl | rfl | rfl | rfl | rfl
    all_goals first
      | exact ⟨.unicodeBOM, rfl, rfl⟩ | exact ⟨.whiteSpace, rfl, rfl⟩ | exact ⟨.lineTerminator, rfl, rfl⟩
      | exact ⟨.comment, rfl, rfl⟩ | exact ⟨.comma, rfl, rfl⟩
  · rintro ⟨k, rfl, hk⟩
    rw [tokenIsIgnored_kind, hk]

/-! ## Conventions -/

/-- The conventions of this file come from the source too: `s.nextRune` is `-1` at the end of the input
    (`optRune none`), a scanner starts at line 1, column 1, offset 0 (`St.init`), and `StringValue()` is the
    decoded value exactly for STRING_VALUE tokens (`Tok.value`; the literal text otherwise). -/
theorem scanner_conventions (src : List Nat) (k : Kind) :
    Generated.endOfInputRune = optRune none
    ∧ ((St.init src).line : Int) = Generated.initialLine ∧ ((St.init src).col : Int) = Generated.initialColumn
    ∧ (St.init src).off = 0
    ∧ Generated.stringValueIsDecoded k.code = decide (k = .stringValue) := by
  refine ⟨rfl, rfl, rfl, rfl, ?_⟩
  cases k <;> rfl

/-! ## Rune classes -/

/-- `isDigit` (int_value.go) is the model's `isDigit`; false on negative values (`-1`). -/
theorem isDigit_eq (r : Int) : Generated.isDigit r = (decide (0 ≤ r) && isDigit r.toNat) := by
  unfold Generated.isDigit isDigit
  leaf_bool

/-- `isSourceCharacter` (scanner.go) is the model's. -/
theorem isSourceCharacter_eq (r : Int) :
    Generated.isSourceCharacter r = (decide (0 ≤ r) && isSourceCharacter r.toNat) := by
  unfold Generated.isSourceCharacter isSourceCharacter
  leaf_bool

/-- The test on the first rune in `consumeName` is the model's `isNameStart`. -/
theorem nameStart_eq (r : Int) : Generated.nameStart r = (decide (0 ≤ r) && isNameStart r.toNat) := by
  unfold Generated.nameStart isNameStart
  leaf_bool

/-- The test on the further runes in `consumeName` is the model's `isNameCont`. -/
theorem nameContinue_eq (r : Int) : Generated.nameContinue r = (decide (0 ≤ r) && isNameCont r.toNat) := by
  unfold Generated.nameContinue isNameCont isNameStart isDigit
  leaf_bool

/-- The loop of `consumeName` runs while `!s.isDone()`; with `nameContinue` this is the condition of the
    model's `consumeWhile isNameCont`. -/
theorem nameLoop_eq (s : St) :
    (Generated.nameLoop s.done && Generated.nameContinue (optRune s.next)) = (!s.done && s.nextIs isNameCont) := by
  rw [nameContinue_eq]
  unfold Generated.nameLoop St.nextIs
  cases s.next <;> cases s.done <;> simp [optRune]

/-- Go value of the model's `Option Nat` result of `hexRuneValue`. -/
def goHex : Option Nat → Int
  | some v => (v : Int)
  | none => -1

/-- `hexRuneValue` (string_value.go), including its 32-bit arithmetic and the error value `-1`, is the
    model's `hexRuneValue`. -/
theorem hexRuneValue_eq (r : Int) :
    Generated.hexRuneValue r = if 0 ≤ r then goHex (hexRuneValue r.toNat) else -1 := by
  unfold Generated.hexRuneValue hexRuneValue
  simp only [Bool.and_eq_true, decide_eq_true_eq]
  repeat' split
  all_goals first
    | omega
    | (simp only [goHex, wrap32] <;> omega)

/-- The `v < 0` test of the `\u` loop fires exactly when the model's `s.next.bind hexRuneValue` is `none`
    (end of input included), and otherwise `v` is the model's digit value. -/
theorem hexInvalid_eq (nx : Option Nat) :
    Generated.hexInvalid (Generated.hexRuneValue (optRune nx)) = (nx.bind hexRuneValue).isNone
    ∧ ∀ v, nx.bind hexRuneValue = some v → Generated.hexRuneValue (optRune nx) = (v : Int) := by
  rw [hexRuneValue_eq]
  cases nx with
  | none => simp [optRune, Generated.hexInvalid]
  | some r =>
    simp only [optRune, Option.bind_some, Int.toNat_natCast, Int.natCast_nonneg, if_true]
    cases h : hexRuneValue r with
    | none => simp [goHex, Generated.hexInvalid]
    | some v =>
      simp only [goHex, Option.isNone_some, Option.some.injEq]
      unfold Generated.hexInvalid
      exact ⟨by simp, fun v' hv => by rw [hv]⟩

/-- A hex digit value is below 16, so `code = (code << 4) | v` is the model's `code * 16 + v`. -/
theorem unicode_accumulate (r code v : Nat) (h : hexRuneValue r = some v) :
    (code <<< Generated.unicodeEscapeShift) ||| v = code * 16 + v := by
  have hv : v < 16 := by
    unfold hexRuneValue at h
    repeat' split at h
    all_goals first
      | (injection h with h; omega)
      | contradiction
  show (code <<< 4) ||| v = code * 16 + v
  rw [← Nat.shiftLeft_add_eq_or_of_lt (by omega : v < 2 ^ 4), Nat.shiftLeft_eq]

/-! ## `consumeRune` -/

/-- The line-counting test of `consumeRune` is the model's (`nx` = the rune after the consumed one). -/
theorem consumeRuneNewLine_eq (v : Nat) (nx : Option Nat) :
    Generated.consumeRuneNewLine v (optRune nx) = decide (v = 10 ∨ (v = 13 ∧ nx ≠ some 10)) := by
  cases nx <;> simp only [optRune] <;> unfold Generated.consumeRuneNewLine <;> leaf_bool

/-- The model's `consumeRune` is the function obtained from the generated test. -/
theorem consumeRune_generated (s : St) (r : Nat) (rest' : List Nat) (h : s.rest = r :: rest') :
    consumeRune s =
      (let s' : St := { s with rest := rest', off := s.off + 1 }
       if Generated.consumeRuneNewLine (runeVal r) (optRune s'.next) then { s' with line := s.line + 1, col := 1 }
       else { s' with col := s.col + 1 }) := by
  simp only [consumeRune, h, consumeRuneNewLine_eq, decide_eq_true_eq]

/-! ## The dispatch of `Scan` -/

/-- The clauses of `switch s.nextRune` in `Scan`. -/
inductive Branch where
  | whiteSpace | punct | comma | lineTerm | comment | dot | string | runeError | bom | other
  deriving DecidableEq, Repr

/-- Which clause the model's `scanToken` takes for a rune (the conditions of `scanToken`, in its order). -/
def modelBranch (r : Nat) : Branch :=
  if r = 9 ∨ r = 32 then .whiteSpace
  else if isPunct1 r then .punct
  else if r = 44 then .comma
  else if r = 13 ∨ r = 10 then .lineTerm
  else if r = 35 then .comment
  else if r = 46 then .dot
  else if r = 34 then .string
  else if r = 0xFFFD then .runeError
  else if r = 0xFEFF then .bom
  else .other

/-- `scanToken` is a case distinction on `modelBranch` and nothing else. -/
theorem scanToken_branch (s : St) (r : Nat) (h : s.next = some r) :
    scanToken s =
      match modelBranch r with
      | .whiteSpace => (.whiteSpace, [], consumeRune s)
      | .punct => (.punctuator, [], consumeRune s)
      | .comma => (.comma, [], consumeRune s)
      | .lineTerm => (.lineTerminator, [], scanLineTerminator r s)
      | .comment => (.comment, [], consumeComment s)
      | .dot => ((scanEllipsis s).1, [], (scanEllipsis s).2)
      | .string => (.stringValue, (consumeStringValue s).1, (consumeStringValue s).2)
      | .runeError => (.invalid, [], consumeRune s.errorf)
      | .bom => if s.off = 0 then (.unicodeBOM, [], consumeRune s) else (.invalid, [], consumeRune s.errorf)
      | .other => ((scanDefault s).1, [], (scanDefault s).2) := by
  unfold scanToken modelBranch
  rw [h]
  simp only []
  repeat' split
  all_goals first
    | rfl
    | contradiction
    | (rename_i hb; injection hb)

/-- The token constants a clause may assign (values of the Go constants, ascending). -/
def Branch.tokens : Branch → List Int
  | .whiteSpace => [Kind.whiteSpace.code]
  | .punct => [Kind.punctuator.code]
  | .comma => [Kind.comma.code]
  | .lineTerm => [Kind.lineTerminator.code]
  | .comment => [Kind.comment.code]
  | .dot => [Kind.punctuator.code]
  | .string => [Kind.stringValue.code]
  | .runeError => []
  | .bom => [Kind.unicodeBOM.code]
  | .other => [Kind.name.code, Kind.intValue.code, Kind.floatValue.code]

/-- Fingerprint: the clauses whose body reports an error itself. -/
def Branch.callsErrorf : Branch → Bool
  | .comment | .dot | .runeError | .bom | .other => true
  | _ => false

theorem scanEllipsis_kind (s : St) : (scanEllipsis s).1 = .invalid ∨ (scanEllipsis s).1 = .punctuator := by
  unfold scanEllipsis
  by_cases h1 : (consumeRune s).next ≠ some 46 <;> by_cases h2 : (consumeRune (consumeRune s)).next ≠ some 46 <;>
    simp [h1, h2]

theorem scanDefault_kind (s : St) :
    (scanDefault s).1 = .invalid ∨ (scanDefault s).1 = .name ∨ (scanDefault s).1 = .intValue
      ∨ (scanDefault s).1 = .floatValue := by
  unfold scanDefault
  generalize consumeIntegerPart s = p
  obtain ⟨isInt, s1⟩ := p
  cases isInt
  · generalize hq : consumeName s1 = q
    obtain ⟨n, s2⟩ := q
    cases n <;> simp [hq]
  · generalize hq : consumeFractionalPart s1 = q
    obtain ⟨f, s2⟩ := q
    cases f
    · generalize he : consumeExponentPart s2 = e
      obtain ⟨x, s3⟩ := e
      cases x <;> simp [hq, he]
    · simp [hq]

/-- `Branch.tokens` is what the model does: the kind `scanToken` returns is INVALID or one of the clause's
    constants (exactly that constant in the six single-kind clauses without an error exit). -/
theorem scanToken_kind (s : St) (r : Nat) (h : s.next = some r) :
    ((scanToken s).1 = .invalid ∨ ((scanToken s).1.code : Int) ∈ (modelBranch r).tokens)
    ∧ (modelBranch r ∈ [.whiteSpace, .punct, .comma, .lineTerm, .comment, .string] →
        (modelBranch r).tokens = [((scanToken s).1.code : Int)]) := by
  rw [scanToken_branch s r h]
  generalize modelBranch r = b
  cases b
  case dot =>
    refine ⟨?_, by simp⟩
    rcases scanEllipsis_kind s with h | h <;> simp only [h, Branch.tokens] <;> simp
  case bom =>
    refine ⟨?_, by simp⟩
    simp only [Branch.tokens]
    split <;> simp
  case other =>
    refine ⟨?_, by simp⟩
    rcases scanDefault_kind s with h | h | h | h <;> simp only [h, Branch.tokens] <;> simp
  all_goals simp [Branch.tokens]

/-- The case labels of `Scan`'s switch send every rune to the clause the model takes, and that clause
    assigns the token constants the model produces there (reordering clauses or labels changes nothing). -/
theorem scan_dispatch (r : Nat) :
    Generated.scanCaseTokens (Generated.scanCase r) = (modelBranch r).tokens
    ∧ Generated.scanCaseCallsErrorf (Generated.scanCase r) = (modelBranch r).callsErrorf := by
  unfold modelBranch isPunct1
  simp only [Bool.or_eq_true, decide_eq_true_eq, beq_iff_eq]
  -- the model's side first: in every clause but the last the rune is one of finitely many constants, and
  -- the generated functions are evaluated on each
  repeat' split
  all_goals try (
    rename_i h
    repeat' (first | (rcases h with h | h) | subst h)
    all_goals decide)
  -- the model's default clause: no label of the generated switch matches either
  unfold Generated.scanCase
  simp only [Bool.or_eq_true, decide_eq_true_eq]
  repeat' split
  all_goals first
    | exact ⟨rfl, rfl⟩
    | (exfalso; omega)

/-- The byte order mark is accepted exactly at offset 0, as in the model. -/
theorem bomAccepted_eq (off : Nat) : Generated.bomAccepted off = decide (off = 0) := by
  unfold Generated.bomAccepted
  leaf_bool

/-- The comment loop condition is the model's `consumeComment` condition. -/
theorem commentLoop_eq (s : St) :
    Generated.commentLoop s.done (optRune s.next) = (!s.done && s.next ≠ some 13 && s.next ≠ some 10) := by
  cases s.next <;> cases s.done <;> simp only [optRune] <;> unfold Generated.commentLoop <;> leaf_bool

/-- The SourceCharacter test inside a comment is the model's `commentStep` test. -/
theorem commentIllegal_eq (s : St) :
    Generated.commentIllegal (optRune s.next) = !s.nextIs isSourceCharacter := by
  unfold St.nextIs
  cases s.next <;> simp only [optRune] <;> unfold Generated.commentIllegal <;> rw [isSourceCharacter_eq] <;> simp

/-- `\r\n` is one line terminator: the model's `scanLineTerminator` test. -/
theorem lineTerminatorCRLF_eq (r : Nat) (nx : Option Nat) :
    Generated.lineTerminatorCRLF r (optRune nx) = decide (r = 13 ∧ nx = some 10) := by
  cases nx <;> simp only [optRune] <;> unfold Generated.lineTerminatorCRLF <;> leaf_bool

/-- The two `.` tests of `case '.'` are the model's `scanEllipsis` tests. -/
theorem ellipsisMissing_eq (nx : Option Nat) :
    Generated.ellipsisMissing2 (optRune nx) = decide (nx ≠ some 46)
    ∧ Generated.ellipsisMissing3 (optRune nx) = decide (nx ≠ some 46) := by
  cases nx <;> simp only [optRune] <;> unfold Generated.ellipsisMissing2 Generated.ellipsisMissing3 <;>
    constructor <;> leaf_bool

/-- The filter after the switch is the model's `scan` filter, with `scanIgnored = (mode & ScanIgnored != 0)`. -/
theorem scanSkips_eq (k : Kind) (mode : Nat) :
    Generated.scanSkips k.code mode
      = decide (k = .invalid ∨ (k.isIgnored ∧ !(mode &&& Generated.scanIgnoredBit != 0))) := by
  unfold Generated.scanSkips
  rw [tokenIsIgnored_kind]
  cases k <;> simp [Kind.code, Kind.isIgnored, Generated.scanIgnoredBit]

/-! ## Numbers (int_value.go, float_value.go) -/

/-- `consumeIntegerPart`: the sign test, the `0` test, the no-digit test and the loop are the model's. -/
theorem intPart_conds (s : St) :
    Generated.intPartMinus (optRune s.next) s.peek = decide (s.next = some 45 ∧ isDigit s.peek)
    ∧ Generated.intPartZero (optRune s.next) = decide (s.next = some 48)
    ∧ Generated.intPartNoDigit (optRune s.next) = !s.nextIs isDigit
    ∧ Generated.intPartLoop s.done (optRune s.next) = (!s.done && s.nextIs isDigit) := by
  unfold St.nextIs
  cases s.next <;> cases s.done <;> simp only [optRune] <;>
    simp only [Generated.intPartMinus, Generated.intPartZero, Generated.intPartNoDigit, Generated.intPartLoop,
      Generated.isDigit, isDigit] <;>
    refine ⟨?_, ?_, ?_, ?_⟩ <;> leaf_bool

/-- `consumeFractionalPart`: the model's test and loop. -/
theorem fracPart_conds (s : St) :
    Generated.fracPartAbsent (optRune s.next) s.peek = decide (s.next ≠ some 46 ∨ !isDigit s.peek)
    ∧ Generated.fracPartLoop s.done (optRune s.next) = (!s.done && s.nextIs isDigit) := by
  unfold St.nextIs
  cases s.next <;> cases s.done <;> simp only [optRune] <;>
    simp only [Generated.fracPartAbsent, Generated.fracPartLoop, Generated.isDigit, isDigit] <;>
    refine ⟨?_, ?_⟩ <;> leaf_bool

/-- `consumeExponentPart`: the model's indicator test, sign test, digit test and loop. -/
theorem expPart_conds (s : St) :
    Generated.expPartAbsent (optRune s.next) = decide (s.next ≠ some 101 ∧ s.next ≠ some 69)
    ∧ Generated.expPartSign (optRune s.next) = decide (s.next = some 43 ∨ s.next = some 45)
    ∧ Generated.expPartDigitMissing (optRune s.next) = !s.nextIs isDigit
    ∧ Generated.expPartLoop s.done (optRune s.next) = (!s.done && s.nextIs isDigit) := by
  unfold St.nextIs
  cases s.next <;> cases s.done <;> simp only [optRune] <;>
    simp only [Generated.expPartAbsent, Generated.expPartSign, Generated.expPartDigitMissing,
      Generated.expPartLoop, Generated.isDigit, isDigit] <;>
    refine ⟨?_, ?_, ?_, ?_⟩ <;> leaf_bool

/-! ## Strings (string_value.go) -/

/-- The escape table as one function of the rune after the backslash: the value appended by the clause the
    rune selects (`none`: the `\u` clause or the default clause). -/
def genEscape (r : Int) : Option Int := Generated.escapeCaseValue r (Generated.escapeCase r)

/-- The rune after the backslash selects the `\u` clause. -/
def genEscapeIsUnicode (r : Int) : Bool := Generated.escapeCase r == Generated.escapeUnicodeCase

/-- The rune after the backslash selects the default clause (an error). -/
def genEscapeIsError (r : Int) : Bool := Generated.escapeCase r == Generated.escapeDefaultCase

/-- The escape switch, whatever the order of its clauses and labels, is the table of the model (and of the
    grammar: `"` `\` `/` themselves, `b f n r t` → U+0008 U+000C U+000A U+000D U+0009, `u` → the hex loop,
    anything else → an error). -/
theorem escape_table_generated (r : Nat) :
    genEscape r =
      (if r = 34 ∨ r = 92 ∨ r = 47 then some (r : Int) else if r = 98 then some 8 else if r = 102 then some 12
       else if r = 110 then some 10 else if r = 114 then some 13 else if r = 116 then some 9 else none)
    ∧ genEscapeIsUnicode r = decide (r = 117)
    ∧ genEscapeIsError r = !(decide (r = 34 ∨ r = 92 ∨ r = 47 ∨ r = 98 ∨ r = 102 ∨ r = 110 ∨ r = 114 ∨ r = 116 ∨ r = 117)) := by
  unfold genEscape genEscapeIsUnicode genEscapeIsError Generated.escapeCase
  simp only [Bool.or_eq_true, decide_eq_true_eq]
  repeat' split
  all_goals first
    | (exfalso; omega)
    | (refine ⟨rfl, ?_, ?_⟩ <;> (rw [Bool.eq_iff_iff]; simp [Generated.escapeUnicodeCase, Generated.escapeDefaultCase] <;> omega))

/-- The model's escape branch *is* the generated escape table: the clause of the switch that the rune after
    the backslash selects appends its `string(…)` value; the `\u` clause runs the hex loop
    `unicodeEscapeDigits` times; the default clause records an error. -/
theorem escapeStep_generated (x : SS) (r : Nat) (h : x.st.next = some r) :
    escapeStep x =
      match genEscape r with
      | some v => { x with st := consumeRune x.st, value := x.value ++ [v.toNat], isEscaped := false }
      | none =>
        if genEscapeIsUnicode r then
          { x with st := (hexLoop Generated.unicodeEscapeDigits (consumeRune x.st) 0).1,
                   value := x.value ++ [runeToString (hexLoop Generated.unicodeEscapeDigits (consumeRune x.st) 0).2],
                   isEscaped := false }
        else { x with st := consumeRune x.st.errorf, isEscaped := false } := by
  obtain ⟨hv, hu, -⟩ := escape_table_generated r
  rw [hv, hu]
  unfold escapeStep
  simp only [h]
  repeat' split
  all_goals first
    | rfl
    | (exfalso; omega)
    | (rename_i heq; injection heq with heq; subst heq; simp only [Int.toNat_natCast]; rfl)
    | (rename_i heq; injection heq with heq; subst heq; rfl)
    | simp_all [Generated.unicodeEscapeDigits]

/-- The opening and closing triple-quote tests are the model's. -/
theorem blockQuotes_eq (nx : Option Nat) (pk : Nat) :
    Generated.blockOpens (optRune nx) pk = decide (nx = some 34 ∧ pk = 34)
    ∧ Generated.blockCloses (optRune nx) pk = decide (nx = some 34 ∧ pk = 34) := by
  cases nx <;> simp only [optRune] <;> unfold Generated.blockOpens Generated.blockCloses <;>
    constructor <;> leaf_bool

/-- `\r\n` inside a block string is kept as two characters by one step: the model's test. -/
theorem stringCRLF_eq (r : Nat) (nx : Option Nat) :
    Generated.stringCRLF r (optRune nx) = decide (r = 13 ∧ nx = some 10) := by
  cases nx <;> simp only [optRune] <;> unfold Generated.stringCRLF <;> leaf_bool

/-- The generated test chain on an unescaped rune of a string, in the model's terms. -/
theorem stringCharCase_eq (r : Nat) :
    Generated.stringCharCase r =
      if r = 10 ∨ r = 13 then 0 else if r = 92 then 1 else if r = 34 then 2
      else if !isSourceCharacter r then 3 else 4 := by
  unfold Generated.stringCharCase
  rw [isSourceCharacter_eq]
  simp only [Bool.or_eq_true, decide_eq_true_eq, Int.toNat_natCast, Int.natCast_nonneg, decide_true, Bool.true_and]
  repeat' split
  all_goals first
    | rfl
    | (exfalso; omega)
    | simp_all

/-- The model's test chain on an unescaped rune of a string *is* the generated chain
    (line terminator / backslash / quote / not a SourceCharacter / ordinary character). -/
theorem strStep_generated (isBlock : Bool) (x : SS) (r : Nat) (hesc : x.isEscaped = false)
    (h : x.st.next = some r) :
    strStep isBlock x =
      match Generated.stringCharCase r with
      | 0 =>
        if !isBlock then { x with broke := true }
        else if Generated.stringCRLF r (optRune (consumeRune x.st).next) then
          { x with st := consumeRune (consumeRune x.st), value := x.value ++ [r, 10] }
        else { x with st := consumeRune x.st, value := x.value ++ [r] }
      | 1 =>
        if !isBlock then { x with st := consumeRune x.st, isEscaped := true }
        else if (consumeRune x.st).rest.take Generated.blockEscapedText.length = Generated.blockEscapedText then
          { x with st := consumeRune (consumeRune (consumeRune (consumeRune x.st))),
                   value := x.value ++ Generated.blockEscapedText }
        else { x with st := consumeRune x.st, value := x.value ++ [92] }
      | 2 =>
        if isBlock then
          if Generated.blockCloses (optRune (consumeRune x.st).next) (consumeRune x.st).peek then
            { x with st := consumeRune (consumeRune (consumeRune x.st)), terminated := true }
          else { x with st := consumeRune x.st, value := x.value ++ [34] }
        else { x with st := consumeRune x.st, terminated := true }
      | 3 => { x with st := consumeRune x.st.errorf }
      | _ => { x with st := consumeRune x.st, value := x.value ++ [r] } := by
  rw [stringCharCase_eq]
  unfold strStep
  simp only [hesc, h, Bool.false_eq_true, if_false, stringCRLF_eq, (blockQuotes_eq _ _).2, decide_eq_true_eq,
    Generated.blockEscapedText, List.length_cons, List.length_nil]
  by_cases h1 : r = 10 ∨ r = 13
  · simp only [h1, if_true]
  · simp only [h1, if_false]
    by_cases h2 : r = 92
    · simp only [h2, if_true]
    · simp only [h2, if_false]
      by_cases h3 : r = 34
      · simp only [h3, if_true]
      · simp only [h3, if_false]
        cases h4 : isSourceCharacter r <;> simp

/-! ## `blockStringValue` -/

/-- `blockStringValue` normalises `\r\n` then `\r` to `\n`, splits and joins on `\n` (the constants the model's
    `replaceCRLF`, `replaceCR`, `splitLF`, `joinLF` hard-code), and starts with `commonIndent = -1` = the model's `none`. -/
theorem block_constants :
    Generated.blockStringCalls =
      [("ReplaceAll", [[13, 10], [10]]), ("ReplaceAll", [[13], [10]]), ("Split", [[10]]), ("Join", [[10]])]
    ∧ Generated.blockNoIndent = optRune none := ⟨rfl, rfl⟩

/-- The three "not a space or tab" tests (indentation count, blank first line, blank last line) are the
    negation of the model's `isBlank` (`indentOf`, `allBlank`). -/
theorem blockNotBlank_eq (r : Nat) :
    Generated.blockIndentEnds r = !isBlank r ∧ Generated.blockNotBlank1 r = !isBlank r
    ∧ Generated.blockNotBlank2 r = !isBlank r := by
  unfold Generated.blockIndentEnds Generated.blockNotBlank1 Generated.blockNotBlank2 isBlank
  refine ⟨?_, ?_, ?_⟩ <;> leaf_bool

/-- The update test of the common-indent loop is the model's. -/
theorem blockIndentUpdates_eq (indent len : Nat) (ci : Option Nat) :
    Generated.blockIndentUpdates indent len (optRune ci)
      = decide (indent < len ∧ (ci = none ∨ indent < ci.getD 0)) := by
  cases ci <;> simp only [optRune, Option.getD] <;> unfold Generated.blockIndentUpdates <;> leaf_bool

/-- The model's `commonIndentLoop` is the loop obtained from the generated test. -/
theorem commonIndentLoop_generated (line : List Nat) (rest : List (List Nat)) (ci : Option Nat) :
    commonIndentLoop (line :: rest) ci =
      commonIndentLoop rest
        (if Generated.blockIndentUpdates (indentOf line) line.length (optRune ci) then some (indentOf line) else ci) := by
  simp only [commonIndentLoop, blockIndentUpdates_eq, decide_eq_true_eq]

/-- Indentation is removed iff `commonIndent > 0` (never for `-1`), as in the model's `removeIndentLoop`. -/
theorem blockRemoveIndent_eq (ci : Option Nat) :
    Generated.blockRemoveIndent (optRune ci) = (match ci with | some c => decide (c > 0) | none => false) := by
  cases ci <;> simp only [optRune] <;> unfold Generated.blockRemoveIndent <;> leaf_bool

/-- Line `i` is cut iff `i > 0` and it is long enough; otherwise emptied iff `i > 0` (the first line is untouched). -/
theorem blockLine_eq (len c i : Nat) :
    Generated.blockLineCut len c i = decide (0 < i ∧ len ≥ c) ∧ Generated.blockLineEmptied i = decide (0 < i) := by
  unfold Generated.blockLineCut Generated.blockLineEmptied
  constructor <;> leaf_bool

/-- The model's `removeIndentLoop` is the loop obtained from the generated tests (lines after the first have `i ≥ 1`). -/
theorem removeIndentLoop_generated (ci : Option Nat) (first : List Nat) (more : List (List Nat)) :
    removeIndentLoop ci (first :: more) =
      if Generated.blockRemoveIndent (optRune ci) then
        first :: more.map fun line =>
          if Generated.blockLineCut line.length (ci.getD 0) 1 then line.drop (ci.getD 0) else []
      else first :: more := by
  rw [blockRemoveIndent_eq]
  cases ci with
  | none => simp [removeIndentLoop]
  | some c =>
    have hcut : ∀ len : Nat, Generated.blockLineCut len c 1 = decide (len ≥ c) := fun len => by
      unfold Generated.blockLineCut; leaf_bool
    simp [removeIndentLoop, hcut]

/-- One iteration of the model's `stripLoop` is the iteration obtained from the generated tests, and the loop
    condition `len(lines) > 0` is the model's case distinction on the list. -/
theorem stripLoop_generated (fuel : Nat) (first : List Nat) (more : List (List Nat)) :
    stripLoop (fuel + 1) (first :: more) =
      (if Generated.blockStripFirst (allBlank first) then stripLoop fuel more
       else if Generated.blockStripLast (first :: more).length (allBlank ((first :: more).getLast?.getD []))
         then stripLoop fuel (first :: more).dropLast
       else first :: more)
    ∧ Generated.blockStripLoop (first :: more).length = true
    ∧ Generated.blockStripLoop ([] : List (List Nat)).length = false := by
  refine ⟨?_, ?_, ?_⟩
  · unfold Generated.blockStripFirst Generated.blockStripLast
    cases more with
    | nil => simp [stripLoop]
    | cons l ls =>
      have h1 : (1 : Int) < ↑ls.length + 1 + 1 := by omega
      simp [stripLoop, h1]
  · unfold Generated.blockStripLoop; simp
  · rfl

/-! ## The model's functions, rebuilt from the generated conditions -/

/-- The first-rune test of `consumeName` on `s.nextRune` is the model's `s.nextIs isNameStart`. -/
theorem nameStart_next (s : St) : Generated.nameStart (optRune s.next) = s.nextIs isNameStart := by
  rw [nameStart_eq]; unfold St.nextIs; cases s.next <;> simp [optRune]

/-- The model's `consumeName` is Go's `consumeName` skeleton over the generated tests. -/
theorem consumeName_generated (s : St) :
    consumeName s =
      if Generated.nameStart (optRune s.next) then
        (true, loop (fun s => Generated.nameLoop s.done && Generated.nameContinue (optRune s.next)) consumeRune
                 (consumeRune s).rest.length (consumeRune s))
      else (false, s) := by
  have hc : (fun s : St => Generated.nameLoop s.done && Generated.nameContinue (optRune s.next))
      = (fun s => !s.done && s.nextIs isNameCont) := funext nameLoop_eq
  rw [hc, nameStart_next]; rfl

/-- The model's `consumeIntegerPart` is Go's skeleton over the generated tests. -/
theorem consumeIntegerPart_generated (s : St) :
    consumeIntegerPart s =
      (let s1 := if Generated.intPartMinus (optRune s.next) s.peek then consumeRune s else s
       if Generated.intPartZero (optRune s1.next) then (true, consumeRune s1)
       else if Generated.intPartNoDigit (optRune s1.next) then (false, s1)
       else (true, loop (fun s => Generated.intPartLoop s.done (optRune s.next)) consumeRune s1.rest.length s1)) := by
  have hl : (fun s : St => Generated.intPartLoop s.done (optRune s.next)) = (fun s => !s.done && s.nextIs isDigit) :=
    funext fun s => (intPart_conds s).2.2.2
  simp only [hl, (intPart_conds _).1, (intPart_conds _).2.1, (intPart_conds _).2.2.1, decide_eq_true_eq]
  rfl

/-- The model's `consumeFractionalPart` is Go's skeleton over the generated tests. -/
theorem consumeFractionalPart_generated (s : St) :
    consumeFractionalPart s =
      if Generated.fracPartAbsent (optRune s.next) s.peek then (false, s)
      else (true, loop (fun s => Generated.fracPartLoop s.done (optRune s.next)) consumeRune
              (consumeRune s).rest.length (consumeRune s)) := by
  have hl : (fun s : St => Generated.fracPartLoop s.done (optRune s.next)) = (fun s => !s.done && s.nextIs isDigit) :=
    funext fun s => (fracPart_conds s).2
  simp only [hl, (fracPart_conds _).1, decide_eq_true_eq]
  rfl

/-- The model's `consumeExponentPart` is Go's skeleton over the generated tests. -/
theorem consumeExponentPart_generated (s : St) :
    consumeExponentPart s =
      if Generated.expPartAbsent (optRune s.next) then (false, s)
      else
        (let s1 := consumeRune s
         let s2 := if Generated.expPartSign (optRune s1.next) then consumeRune s1 else s1
         let s3 := if Generated.expPartDigitMissing (optRune s2.next) then s2.errorf else s2
         (true, loop (fun s => Generated.expPartLoop s.done (optRune s.next)) consumeRune s3.rest.length s3)) := by
  have hl : (fun s : St => Generated.expPartLoop s.done (optRune s.next)) = (fun s => !s.done && s.nextIs isDigit) :=
    funext fun s => (expPart_conds s).2.2.2
  simp only [hl, (expPart_conds _).1, (expPart_conds _).2.1, (expPart_conds _).2.2.1, decide_eq_true_eq]
  rfl

/-- The model's comment loop is Go's loop over the generated tests. -/
theorem consumeComment_generated (s : St) :
    consumeComment s =
      loop (fun s => Generated.commentLoop s.done (optRune s.next))
        (fun s => consumeRune (if Generated.commentIllegal (optRune s.next) then s.errorf else s)) s.rest.length s := by
  have hl : (fun s : St => Generated.commentLoop s.done (optRune s.next))
      = (fun s => !s.done && s.next ≠ some 13 && s.next ≠ some 10) := funext commentLoop_eq
  have hb : (fun s : St => consumeRune (if Generated.commentIllegal (optRune s.next) then s.errorf else s))
      = commentStep := funext fun s => by rw [commentIllegal_eq]; rfl
  rw [hl, hb]; rfl

/-- The model's `case '\r', '\n'` and `case '.'` are Go's skeletons over the generated tests. -/
theorem lineTerminator_ellipsis_generated (r : Nat) (s : St) :
    scanLineTerminator r s =
      (if Generated.lineTerminatorCRLF r (optRune (consumeRune s).next) then consumeRune (consumeRune s) else consumeRune s)
    ∧ scanEllipsis s =
      (if Generated.ellipsisMissing2 (optRune (consumeRune s).next) then (.invalid, (consumeRune s).errorf)
       else if Generated.ellipsisMissing3 (optRune (consumeRune (consumeRune s)).next) then
         (.invalid, (consumeRune (consumeRune s)).errorf)
       else (.punctuator, consumeRune (consumeRune (consumeRune s)))) := by
  simp only [lineTerminatorCRLF_eq, (ellipsisMissing_eq _).1, (ellipsisMissing_eq _).2, decide_eq_true_eq]
  exact ⟨rfl, rfl⟩

/-- The model's `Scan` loop is Go's: return unless `scanSkips`, with the BOM accepted by `bomAccepted`. -/
theorem scan_generated (mode : Nat) (fuel : Nat) (s : St) :
    scan (mode &&& Generated.scanIgnoredBit != 0) (fuel + 1) s =
      if s.done then (none, s)
      else
        if Generated.scanSkips (scanToken s).1.code mode then
          scan (mode &&& Generated.scanIgnoredBit != 0) fuel (scanToken s).2.2
        else
          (some { kind := (scanToken s).1, off := s.off, len := (scanToken s).2.2.off - s.off, line := s.line,
                  col := s.col, value := (scanToken s).2.1 }, (scanToken s).2.2) := by
  rw [scanSkips_eq]
  simp only [scan, decide_eq_true_eq]
/-- One iteration of the model's `\u` loop is Go's: `v := hexRuneValue(s.nextRune)`, error and stop if `v < 0`,
    else `code = (code << 4) | v` and consume. -/
theorem hexLoop_generated (n : Nat) (s : St) (code : Nat) :
    hexLoop (n + 1) s code =
      if Generated.hexInvalid (Generated.hexRuneValue (optRune s.next)) then (s.errorf, code)
      else hexLoop n (consumeRune s)
        ((code <<< Generated.unicodeEscapeShift) ||| (Generated.hexRuneValue (optRune s.next)).toNat) := by
  obtain ⟨hi, hv⟩ := hexInvalid_eq s.next
  rw [hi]
  cases h : s.next.bind hexRuneValue with
  | none => simp [hexLoop, h]
  | some v =>
    have hv' := hv v h
    obtain ⟨r, hr, hrv⟩ : ∃ r, s.next = some r ∧ hexRuneValue r = some v := by
      cases hn : s.next with
      | none => simp [hn] at h
      | some r => exact ⟨r, rfl, by simpa [hn] using h⟩
    simp only [hexLoop, h, Option.isNone_some, Bool.false_eq_true, if_false, hv', Int.toNat_natCast,
      unicode_accumulate r code v hrv]

/-- The model's `consumeStringValue` is Go's skeleton over the generated opening test (the loop body is
    `strStep`, see `strStep_generated` / `escapeStep_generated`). -/
theorem consumeStringValue_generated (s : St) :
    consumeStringValue s =
      (let s1 := consumeRune s
       let isBlock := Generated.blockOpens (optRune s1.next) s1.peek
       let s2 := if isBlock then consumeRune (consumeRune s1) else s1
       let x := loop (fun x => !x.terminated && !x.st.done && !x.broke) (strStep isBlock) s2.rest.length
         { st := s2, value := [], terminated := false, isEscaped := false, broke := false }
       let s3 := if !x.terminated then x.st.errorf else x.st
       (if isBlock then blockStringValue x.value else x.value, s3)) := by
  simp only [consumeStringValue, (blockQuotes_eq _ _).1]
  by_cases h : (consumeRune s).next = some 34 ∧ (consumeRune s).peek = 34 <;> simp [h]
end ApiFu.C07.GeneratedProps
