/-
  C07 — executable model of the api-fu scanner, transliterated from
    graphql/scanner/scanner.go, string_value.go, int_value.go, float_value.go, graphql/token/token.go
  *after* the four `fix:` patches of /verif/repo-patches/C07 (models follow the fixed code):
    01 readNextRune sizes a literal U+FFFD correctly (F-07a)
    02 blockStringValue empties a line that is shorter than the common indent (F-07b)
    03 comments report runes outside SourceCharacter (F-07c, comment half)
    04 in a block string a backslash only forms the escape `\"""`; the rune after any other backslash is
       scanned normally, so it is checked against SourceCharacter (F-07c, block-string half) and `\\"""`
       is a backslash followed by the escape `\"""` as in the grammar (F-07e)

  Source text (DESIGN §6.2). The scanner only ever calls `utf8.DecodeRune` at the current offset and
  advances by the size it returned, so scanning bytes is scanning the list of decoded elements. An
  element is a `Nat`: a code point `< 0x110000` produced by a valid encoding, or `0x110000 + b` for a
  byte `b` that is not the start of a valid encoding (Go: `RuneError`, size 1). `runeVal` is the value
  `s.nextRune` takes for an element. Offsets and lengths are counted in elements (the harness converts
  the real scanner's byte offsets with the same decoding). "Valid UTF-8" is `∀ r ∈ src, r < 0x110000`.

  Go `for` loops become `loop cond body fuel` with fuel = number of remaining elements; `Props` shows
  that the fuel is never the reason a loop stops (`scanner_progress`, `*_fuel`).
  Core Lean only: this file is linked into the driver.
-/
namespace ApiFu.C07

/-! ## Tokens (graphql/token/token.go) -/

inductive Kind where
  | invalid | punctuator | name | intValue | floatValue | stringValue
  | unicodeBOM | whiteSpace | lineTerminator | comment | comma
  deriving Repr, DecidableEq, Inhabited

/-- The numeric value of the Go constant (`iota`). -/
def Kind.code : Kind → Nat
  | .invalid => 0 | .punctuator => 1 | .name => 2 | .intValue => 3 | .floatValue => 4
  | .stringValue => 5 | .unicodeBOM => 6 | .whiteSpace => 7 | .lineTerminator => 8
  | .comment => 9 | .comma => 10

/-- `Token.IsIgnored`. -/
def Kind.isIgnored : Kind → Bool
  | .unicodeBOM | .whiteSpace | .lineTerminator | .comment | .comma => true
  | _ => false

/-- `scanner.Error` without the message: where it was recorded. -/
structure Err where
  line : Nat
  col : Nat
  deriving Repr, DecidableEq

/-- What the harness reads after a successful `Scan()`: `Token()`, `tokenOffset`, `tokenLength`,
    `Position()`, and `tokenStringValue` (code points; `[]` for every kind but STRING_VALUE). -/
structure Tok where
  kind : Kind
  off : Nat
  len : Nat
  line : Nat
  col : Nat
  value : List Nat
  deriving Repr, DecidableEq

/-! ## Runes -/

def badBase : Nat := 0x110000

/-- `s.nextRune` for a source element (an invalid byte reads as `utf8.RuneError` = U+FFFD). -/
def runeVal (r : Nat) : Nat := if r < badBase then r else 0xFFFD

def isDigit (r : Nat) : Bool := 48 ≤ r && r ≤ 57
def isNameStart (r : Nat) : Bool := r == 95 || (97 ≤ r && r ≤ 122) || (65 ≤ r && r ≤ 90)
def isNameCont (r : Nat) : Bool := isNameStart r || isDigit r

/-- `isSourceCharacter` (scanner.go:113). -/
def isSourceCharacter (r : Nat) : Bool := r == 9 || r == 10 || r == 13 || (0x20 ≤ r && r ≤ 0xFFFF)

/-- The one-rune punctuators of `Scan` (scanner.go:138): `! $ ( ) : = @ [ ] { | }`. -/
def isPunct1 (r : Nat) : Bool :=
  r == 33 || r == 36 || r == 40 || r == 41 || r == 58 || r == 61 || r == 64 || r == 91 || r == 93 ||
  r == 123 || r == 124 || r == 125

/-- `hexRuneValue` (string_value.go:5); `none` is Go's `-1`. -/
def hexRuneValue (r : Nat) : Option Nat :=
  if 48 ≤ r ∧ r ≤ 57 then some (r - 48)
  else if 97 ≤ r ∧ r ≤ 102 then some (10 + r - 97)
  else if 65 ≤ r ∧ r ≤ 70 then some (10 + r - 65)
  else none

/-- Go's `string(rune)` as a code point: surrogates and out-of-range values become U+FFFD. -/
def runeToString (c : Nat) : Nat := if (0xD800 ≤ c ∧ c ≤ 0xDFFF) ∨ c > 0x10FFFF then 0xFFFD else c

/-! ## Scanner state -/

/-- `Scanner`: `rest` is `src[offset:]` decoded, `off` the number of elements consumed. -/
structure St where
  rest : List Nat
  off : Nat
  line : Nat
  col : Nat
  errs : List Err
  deriving Repr, DecidableEq

/-- `New` (scanner.go:44). -/
def St.init (src : List Nat) : St := { rest := src, off := 0, line := 1, col := 1, errs := [] }

/-- `isDone`. -/
def St.done (s : St) : Bool := s.rest.isEmpty

/-- `s.nextRune`; `none` is Go's `-1` at the end of the input. -/
def St.next (s : St) : Option Nat :=
  match s.rest with
  | [] => none
  | r :: _ => some (runeVal r)

/-- `peek()` (scanner.go:80): the rune after `nextRune`, `RuneError` at the end. -/
def St.peek (s : St) : Nat :=
  match s.rest with
  | _ :: r :: _ => runeVal r
  | _ => 0xFFFD

/-- Go comparisons / predicates on `nextRune` are false for `-1`. -/
def St.nextIs (s : St) (p : Nat → Bool) : Bool :=
  match s.next with
  | some r => p r
  | none => false

/-- `errorf` (scanner.go:59): record the current line and column. -/
def St.errorf (s : St) : St := { s with errs := s.errs ++ [⟨s.line, s.col⟩] }

/-- `consumeRune` (scanner.go:85). At the end of input Go adds 0 to the offset and still increments the
    column; `Props.no_consume_at_eof` shows the scanner never does that. -/
def consumeRune (s : St) : St :=
  match s.rest with
  | [] => { s with col := s.col + 1 }
  | r :: rest' =>
    let v := runeVal r
    let s' : St := { s with rest := rest', off := s.off + 1 }
    if v = 10 ∨ (v = 13 ∧ s'.next ≠ some 10) then { s' with line := s.line + 1, col := 1 }
    else { s' with col := s.col + 1 }

/-- A Go `for cond { body }` with explicit fuel. -/
def loop {σ : Type} (cond : σ → Bool) (body : σ → σ) : Nat → σ → σ
  | 0, s => s
  | n + 1, s => if cond s then loop cond body n (body s) else s

/-- `for !s.isDone() && p(s.nextRune) { s.consumeRune() }`. -/
def consumeWhile (p : Nat → Bool) (s : St) : St :=
  loop (fun s => !s.done && s.nextIs p) consumeRune s.rest.length s

/-! ## Names and numbers -/

/-- `consumeName` (scanner.go:98). -/
def consumeName (s : St) : Bool × St :=
  if s.nextIs isNameStart then (true, consumeWhile isNameCont (consumeRune s)) else (false, s)

/-- The second half of `consumeIntegerPart` (int_value.go:12-22): `0`, or a run of digits. -/
def consumeIntegerDigits (s : St) : Bool × St :=
  if s.next = some 48 then (true, consumeRune s)
  else if !s.nextIs isDigit then (false, s)
  else (true, consumeWhile isDigit s)

/-- `consumeIntegerPart` (int_value.go:7): an optional `-` (only when a digit follows), then the digits. -/
def consumeIntegerPart (s : St) : Bool × St :=
  consumeIntegerDigits (if s.next = some 45 ∧ isDigit s.peek then consumeRune s else s)

/-- `consumeFractionalPart` (float_value.go:3). -/
def consumeFractionalPart (s : St) : Bool × St :=
  if s.next ≠ some 46 ∨ !isDigit s.peek then (false, s)
  else (true, consumeWhile isDigit (consumeRune s))

/-- float_value.go:19-21: an optional sign. -/
def consumeSign (s : St) : St := if s.next = some 43 ∨ s.next = some 45 then consumeRune s else s

/-- float_value.go:22-24: "exponent digit expected" unless a digit follows. -/
def expectDigit (s : St) : St := if !s.nextIs isDigit then s.errorf else s

/-- `consumeExponentPart` (float_value.go:14). -/
def consumeExponentPart (s : St) : Bool × St :=
  if s.next ≠ some 101 ∧ s.next ≠ some 69 then (false, s)
  else (true, consumeWhile isDigit (expectDigit (consumeSign (consumeRune s))))

/-! ## Strings (string_value.go) -/

/-- `strings.ReplaceAll(raw, "\r\n", "\n")`. -/
def replaceCRLF : List Nat → List Nat
  | 13 :: 10 :: rest => 10 :: replaceCRLF rest
  | c :: rest => c :: replaceCRLF rest
  | [] => []

/-- `strings.ReplaceAll(raw, "\r", "\n")`. -/
def replaceCR (s : List Nat) : List Nat := s.map fun c => if c = 13 then 10 else c

/-- `strings.Split(s, "\n")`: always at least one line. -/
def splitLF : List Nat → List (List Nat)
  | [] => [[]]
  | c :: rest =>
    if c = 10 then [] :: splitLF rest
    else
      match splitLF rest with
      | l :: ls => (c :: l) :: ls
      | [] => [[c]]   -- not reached: `splitLF` never returns `[]`

def isBlank (c : Nat) : Bool := c == 32 || c == 9

/-- The inner loop of string_value.go:23-28: number of leading spaces and tabs. -/
def indentOf (line : List Nat) : Nat := (line.takeWhile isBlank).length

/-- The loop of string_value.go:21-33 over `lines[1:]`; `none` is Go's `-1`. -/
def commonIndentLoop : List (List Nat) → Option Nat → Option Nat
  | [], ci => ci
  | line :: rest, ci =>
    let indent := indentOf line
    let ci' :=
      if indent < line.length ∧ (ci = none ∨ indent < ci.getD 0) then some indent else ci
    commonIndentLoop rest ci'

/-- `strings.IndexFunc(line, notBlank) == -1`. -/
def allBlank (line : List Nat) : Bool := line.all isBlank

/-- The loop of string_value.go:43-51 (fuel = number of lines). -/
def stripLoop : Nat → List (List Nat) → List (List Nat)
  | 0, lines => lines
  | fuel + 1, lines =>
    match lines with
    | [] => []
    | first :: more =>
      if allBlank first then stripLoop fuel more
      else if more ≠ [] ∧ allBlank ((first :: more).getLast?.getD []) then stripLoop fuel (first :: more).dropLast
      else lines

/-- `strings.Join(lines, "\n")`. -/
def joinLF : List (List Nat) → List Nat
  | [] => []
  | [l] => l
  | l :: ls => l ++ 10 :: joinLF ls

/-- The loop of string_value.go:35-43 (with patch 02: a line shorter than the common indent becomes
    empty). `commonIndent = none` is Go's `-1`. -/
def removeIndentLoop (commonIndent : Option Nat) (lines : List (List Nat)) : List (List Nat) :=
  match commonIndent with
  | some ci =>
    if ci > 0 then
      match lines with
      | [] => []
      | first :: more => first :: more.map fun line => if line.length ≥ ci then line.drop ci else []
    else lines
  | none => lines

/-- `blockStringValue` (string_value.go:16). Lines hold code points; the Go code slices bytes, which is
    the same cut because only spaces and tabs are ever removed from a line that is long enough, and a
    shorter line consists of spaces and tabs only. -/
def blockStringValue (raw : List Nat) : List Nat :=
  let lines := splitLF (replaceCR (replaceCRLF raw))
  let commonIndent := commonIndentLoop (lines.drop 1) none
  let lines := removeIndentLoop commonIndent lines
  joinLF (stripLoop lines.length lines)

/-- The `for i := 0; i < 4; i++` loop of the `\u` escape (string_value.go:100-108). -/
def hexLoop : Nat → St → Nat → St × Nat
  | 0, s, code => (s, code)
  | n + 1, s, code =>
    match s.next.bind hexRuneValue with
    | none => (s.errorf, code)                       -- "illegal unicode escape sequence"; break
    | some v => hexLoop n (consumeRune s) (code * 16 + v)   -- code = (code << 4) | v

/-- Loop variables of `consumeStringValue`. `broke` records the `break` at a line end. -/
structure SS where
  st : St
  value : List Nat
  terminated : Bool
  isEscaped : Bool
  broke : Bool
  deriving Repr, DecidableEq

/-- The `isEscaped` branch (string_value.go:71-118); after patch 04 only quoted strings get here. -/
def escapeStep (x : SS) : SS :=
  let s := x.st
  match s.next with
  | none => x    -- not reached: the loop condition has `!s.isDone()`
  | some r =>
    if r = 34 ∨ r = 92 ∨ r = 47 then { x with st := consumeRune s, value := x.value ++ [r], isEscaped := false }
    else if r = 98 then { x with st := consumeRune s, value := x.value ++ [8], isEscaped := false }
    else if r = 102 then { x with st := consumeRune s, value := x.value ++ [12], isEscaped := false }
    else if r = 110 then { x with st := consumeRune s, value := x.value ++ [10], isEscaped := false }
    else if r = 114 then { x with st := consumeRune s, value := x.value ++ [13], isEscaped := false }
    else if r = 116 then { x with st := consumeRune s, value := x.value ++ [9], isEscaped := false }
    else if r = 117 then
      let (s', code) := hexLoop 4 (consumeRune s) 0
      { x with st := s', value := x.value ++ [runeToString code], isEscaped := false }
    else { x with st := consumeRune s.errorf, isEscaped := false }   -- "illegal escape sequence"

/-- One iteration of the loop of `consumeStringValue` (string_value.go:70-152, patched). -/
def strStep (isBlock : Bool) (x : SS) : SS :=
  if x.isEscaped then escapeStep x
  else
    let s := x.st
    match s.next with
    | none => x    -- not reached
    | some r =>
      if r = 10 ∨ r = 13 then
        if !isBlock then { x with broke := true }
        else
          let s1 := consumeRune s
          if r = 13 ∧ s1.next = some 10 then { x with st := consumeRune s1, value := x.value ++ [r, 10] }
          else { x with st := s1, value := x.value ++ [r] }
      else if r = 92 then
        let s1 := consumeRune s
        if !isBlock then { x with st := s1, isEscaped := true }
        else if s1.rest.take 3 = [34, 34, 34] then   -- bytes.HasPrefix(s.src[s.offset:], `"""`)
          { x with st := consumeRune (consumeRune (consumeRune s1)), value := x.value ++ [34, 34, 34] }
        else { x with st := s1, value := x.value ++ [92] }
      else if r = 34 then
        let s1 := consumeRune s
        if isBlock then
          if s1.next = some 34 ∧ s1.peek = 34 then
            { x with st := consumeRune (consumeRune s1), terminated := true }
          else { x with st := s1, value := x.value ++ [34] }
        else { x with st := s1, terminated := true }
      else if !isSourceCharacter r then { x with st := consumeRune s.errorf }   -- "illegal character in string"
      else { x with st := consumeRune s, value := x.value ++ [r] }

/-- `consumeStringValue` (string_value.go:56). Called with `nextRune == '"'`. -/
def consumeStringValue (s : St) : List Nat × St :=
  let s := consumeRune s
  let (isBlock, s) :=
    if s.next = some 34 ∧ s.peek = 34 then (true, consumeRune (consumeRune s)) else (false, s)
  let x := loop (fun x => !x.terminated && !x.st.done && !x.broke) (strStep isBlock) s.rest.length
    { st := s, value := [], terminated := false, isEscaped := false, broke := false }
  let s := if !x.terminated then x.st.errorf else x.st          -- "unterminated string"
  (if isBlock then blockStringValue x.value else x.value, s)

/-! ## Scan -/

/-- The comment loop (scanner.go:150, patch 03). -/
def commentStep (s : St) : St :=
  consumeRune (if !s.nextIs isSourceCharacter then s.errorf else s)

def consumeComment (s : St) : St :=
  loop (fun s => !s.done && s.next ≠ some 13 && s.next ≠ some 10) commentStep s.rest.length s

/-- `case '\r', '\n'` (scanner.go:144); `r` is `s.nextRune`. -/
def scanLineTerminator (r : Nat) (s : St) : St :=
  let s1 := consumeRune s
  if r = 13 ∧ s1.next = some 10 then consumeRune s1 else s1

/-- `case '.'` (scanner.go:154). -/
def scanEllipsis (s : St) : Kind × St :=
  let s1 := consumeRune s
  if s1.next ≠ some 46 then (.invalid, s1.errorf)
  else
    let s2 := consumeRune s1
    if s2.next ≠ some 46 then (.invalid, s2.errorf)
    else (.punctuator, consumeRune s2)

/-- `default:` (scanner.go:180): a number, a name, or an illegal character. -/
def scanDefault (s : St) : Kind × St :=
  let (isInt, s1) := consumeIntegerPart s
  if isInt then
    let (isFrac, s2) := consumeFractionalPart s1
    if isFrac then (.floatValue, (consumeExponentPart s2).2)
    else
      let (isExp, s3) := consumeExponentPart s2
      if isExp then (.floatValue, s3) else (.intValue, s3)
  else
    let (isName, s2) := consumeName s1
    if isName then (.name, s2)
    else (.invalid, consumeRune s2.errorf)                     -- "illegal character"

/-- The `switch` of one iteration of `Scan` (scanner.go:134-196), entered with `!s.isDone()`.
    Returns `s.token`, `s.tokenStringValue` (only meaningful for STRING_VALUE) and the state. -/
def scanToken (s : St) : Kind × List Nat × St :=
  match s.next with
  | none => (.invalid, [], s)     -- not reached
  | some r =>
    if r = 9 ∨ r = 32 then (.whiteSpace, [], consumeRune s)
    else if isPunct1 r then (.punctuator, [], consumeRune s)
    else if r = 44 then (.comma, [], consumeRune s)
    else if r = 13 ∨ r = 10 then (.lineTerminator, [], scanLineTerminator r s)
    else if r = 35 then (.comment, [], consumeComment s)
    else if r = 46 then ((scanEllipsis s).1, [], (scanEllipsis s).2)
    else if r = 34 then (.stringValue, (consumeStringValue s).1, (consumeStringValue s).2)
    else if r = 0xFFFD then (.invalid, [], consumeRune s.errorf)        -- "invalid utf-8 character"
    else if r = 0xFEFF then
      if s.off = 0 then (.unicodeBOM, [], consumeRune s)
      else (.invalid, [], consumeRune s.errorf)                        -- "illegal byte order mark"
    else ((scanDefault s).1, [], (scanDefault s).2)

/-- `Scan()` (scanner.go:121): `none` is `return false`. `scanIgnored` is `mode&ScanIgnored != 0`. -/
def scan (scanIgnored : Bool) : Nat → St → Option Tok × St
  | 0, s => (none, s)     -- fuel exhausted: not reached with fuel ≥ rest.length + 1 (`Props.scan_fuel`)
  | fuel + 1, s =>
    if s.done then (none, s)
    else
      match scanToken s with
      | (k, v, s') =>
        if k = .invalid ∨ (k.isIgnored ∧ !scanIgnored) then scan scanIgnored fuel s'
        else (some { kind := k, off := s.off, len := s'.off - s.off, line := s.line, col := s.col, value := v }, s')

/-- `for s.Scan() { … }`: every token, then the final state (for `Errors()`). -/
def scanLoop (scanIgnored : Bool) : Nat → St → List Tok × St
  | 0, s => ([], s)
  | fuel + 1, s =>
    match scan scanIgnored (s.rest.length + 1) s with
    | (none, s') => ([], s')
    | (some t, s') =>
      match scanLoop scanIgnored fuel s' with
      | (ts, sf) => (t :: ts, sf)

/-- The observable the harness compares: all tokens and all errors of a source text. -/
def scanAll (scanIgnored : Bool) (src : List Nat) : List Tok × List Err :=
  match scanLoop scanIgnored (src.length + 1) (St.init src) with
  | (ts, sf) => (ts, sf.errs)

end ApiFu.C07
