/-
  C07 — helper lemmas, part 4: on valid UTF-8 the model's sub-scanners compute exactly the reference
  recognisers of `Spec.lean` (names, numbers, line terminators, comments, punctuators).
-/
import ApiFu.C07.Lemmas

namespace ApiFu.C07

/-! ## Character classes: the Go predicates are the grammar's -/

theorem c0 : '0'.toNat = 48 := rfl
theorem c9 : '9'.toNat = 57 := rfl
theorem c1 : '1'.toNat = 49 := rfl

theorem isDigit_eq (c : Nat) : Spec.isDigit c = isDigit c := rfl

theorem isNameStart_eq (c : Nat) : Spec.isNameStart c = isNameStart c := by
  apply Bool.eq_iff_iff.mpr
  simp only [Spec.isNameStart, isNameStart, Bool.or_eq_true, Bool.and_eq_true, beq_iff_eq, decide_eq_true_eq,
    show '_'.toNat = 95 from rfl, show 'A'.toNat = 65 from rfl, show 'Z'.toNat = 90 from rfl,
    show 'a'.toNat = 97 from rfl, show 'z'.toNat = 122 from rfl]
  omega

theorem isNameCont_eq (c : Nat) : Spec.isNameContinue c = isNameCont c := by
  simp [Spec.isNameContinue, isNameCont, isNameStart_eq, isDigit_eq]

theorem isSourceCharacter_eq (c : Nat) : Spec.isSourceCharacter c = isSourceCharacter c := rfl

theorem isPunct_eq (c : Nat) : Spec.isPunctuatorChar c = isPunct1 c := by
  apply Bool.eq_iff_iff.mpr
  simp [Spec.isPunctuatorChar, Spec.punctuatorChars, isPunct1]
  omega

theorem hexDigit_eq (c : Nat) : Spec.hexDigit? c = hexRuneValue c := by
  unfold Spec.hexDigit? hexRuneValue Spec.isDigit
  simp only [show '0'.toNat = 48 from rfl, show '9'.toNat = 57 from rfl, show 'a'.toNat = 97 from rfl,
    show 'f'.toNat = 102 from rfl, show 'A'.toNat = 65 from rfl, show 'F'.toNat = 70 from rfl,
    Bool.and_eq_true, decide_eq_true_eq]
  by_cases h1 : 48 ≤ c ∧ c ≤ 57
  · simp [h1]
  · by_cases h2 : 97 ≤ c ∧ c ≤ 102
    · simp [h1, h2]; omega
    · by_cases h3 : 65 ≤ c ∧ c ≤ 70
      · simp [h1, h2, h3]; omega
      · simp [h1, h2, h3]

theorem hexRuneValue_lt {c v : Nat} (h : hexRuneValue c = some v) : v < 16 := by
  unfold hexRuneValue at h
  split at h
  · cases h; omega
  · split at h
    · cases h; omega
    · split at h
      · cases h; omega
      · cases h

/-! ## Valid UTF-8 -/

/-- No invalid byte: every element is a code point. -/
def Valid (w : List Nat) : Prop := ∀ r ∈ w, r < badBase

theorem runeVal_valid {r : Nat} (h : r < badBase) : runeVal r = r := by simp [runeVal, h]

theorem Valid.head {c : Nat} {w : List Nat} (h : Valid (c :: w)) : c < badBase := h c (by simp)
theorem Valid.tail {c : Nat} {w : List Nat} (h : Valid (c :: w)) : Valid w := fun r hr => h r (by simp [hr])
theorem Valid.drop {w : List Nat} (h : Valid w) (n : Nat) : Valid (w.drop n) := fun r hr => h r (List.mem_of_mem_drop hr)
theorem Valid.nil : Valid [] := fun _ h => by cases h

/-! ## Reading the state -/

theorem next_nil {s : St} (h : s.rest = []) : s.next = none := (next_none_iff s).2 h

theorem next_cons {s : St} {c : Nat} {w : List Nat} (h : s.rest = c :: w) (hc : c < badBase) : s.next = some c := by
  simp [St.next, h, runeVal_valid hc]

theorem nextIs_nil {s : St} (h : s.rest = []) (p : Nat → Bool) : s.nextIs p = false := by
  simp [St.nextIs, next_nil h]

theorem nextIs_cons {s : St} {c : Nat} {w : List Nat} (h : s.rest = c :: w) (hc : c < badBase) (p : Nat → Bool) :
    s.nextIs p = p c := by
  simp [St.nextIs, next_cons h hc]

theorem peek_cons {s : St} {c d : Nat} {w : List Nat} (h : s.rest = c :: d :: w) (hd : d < badBase) : s.peek = d := by
  simp [St.peek, h, runeVal_valid hd]

theorem peek_single {s : St} {c : Nat} (h : s.rest = [c]) : s.peek = 0xFFFD := by
  simp [St.peek, h]

theorem done_nil {s : St} (h : s.rest = []) : s.done = true := (done_iff s).2 h
theorem done_cons {s : St} {c : Nat} {w : List Nat} (h : s.rest = c :: w) : s.done = false :=
  (not_done_iff s).2 (by rw [h]; simp)

/-! ## `consumeN` -/

/-- `n` calls of `consumeRune`. -/
def consumeN : Nat → St → St
  | 0, s => s
  | n + 1, s => consumeN n (consumeRune s)

@[simp] theorem consumeN_zero (s : St) : consumeN 0 s = s := rfl
theorem consumeN_succ (n : Nat) (s : St) : consumeN (n + 1) s = consumeN n (consumeRune s) := rfl
theorem consumeN_one (s : St) : consumeN 1 s = consumeRune s := rfl

theorem consumeN_add (a b : Nat) (s : St) : consumeN b (consumeN a s) = consumeN (a + b) s := by
  induction a generalizing s with
  | zero => simp
  | succ a ih => rw [consumeN_succ, ih, show a + 1 + b = (a + b) + 1 by omega, consumeN_succ]

theorem consumeRune_consumeN (n : Nat) (s : St) : consumeRune (consumeN n s) = consumeN (n + 1) s := by
  rw [← consumeN_one (consumeN n s), consumeN_add]

@[simp] theorem consumeN_rest (n : Nat) (s : St) : (consumeN n s).rest = s.rest.drop n := by
  induction n generalizing s with
  | zero => simp
  | succ n ih => rw [consumeN_succ, ih, consumeRune_rest_tail]; simp [List.drop_tail]

@[simp] theorem consumeN_errs (n : Nat) (s : St) : (consumeN n s).errs = s.errs := by
  induction n generalizing s with
  | zero => simp
  | succ n ih => rw [consumeN_succ, ih, consumeRune_errs]

theorem consumeN_adv : ∀ (n : Nat) (s : St), n ≤ s.rest.length → Adv s (consumeN n s)
  | 0, s, _ => .refl _
  | n + 1, s, h => by
    have hne : s.rest ≠ [] := by intro h'; rw [h'] at h; simp at h
    have := consumeRune_length hne
    exact .consume hne (consumeN_adv n _ (by omega))

theorem consumeN_off {n : Nat} {s : St} (h : n ≤ s.rest.length) : (consumeN n s).off = s.off + n := by
  obtain ⟨m, _, h1, h2, h3, _⟩ := (consumeN_adv n s h).facts
  rw [consumeN_rest] at h1
  have : s.rest.length - n = s.rest.length - m := by
    have := congrArg List.length h1; simpa using this
  omega

theorem consumeN_advS {n : Nat} {s : St} (h1 : 1 ≤ n) (h : n ≤ s.rest.length) : AdvS s (consumeN n s) := by
  cases n with
  | zero => omega
  | succ n =>
    have hne : s.rest ≠ [] := by intro h'; rw [h'] at h; simp at h
    have := consumeRune_length hne
    exact AdvS.of_consume hne (consumeN_adv n _ (by omega))

/-! ## consumeWhile = takeWhile -/

theorem loop_false {σ : Type} {cond : σ → Bool} {body : σ → σ} {x : σ} (h : cond x = false) (n : Nat) :
    loop cond body n x = x := by
  cases n with
  | zero => rfl
  | succ n => simp [loop_succ, h]

theorem loop_true {σ : Type} {cond : σ → Bool} {body : σ → σ} {x : σ} (h : cond x = true) (n : Nat) :
    loop cond body (n + 1) x = loop cond body n (body x) := by
  simp [loop_succ, h]

theorem whileLoop_eq (p : Nat → Bool) : ∀ (fuel : Nat) (s : St), s.rest.length ≤ fuel → Valid s.rest →
    loop (whileCond p) consumeRune fuel s = consumeN (s.rest.takeWhile p).length s
  | 0, s, h, _ => by
    have : s.rest = [] := List.length_eq_zero_iff.mp (by omega)
    simp [loop, this]
  | fuel + 1, s, h, hv => by
    cases hw : s.rest with
    | nil =>
      rw [loop_false (by simp [whileCond, done_nil hw])]
      simp
    | cons c w =>
      rw [hw] at hv h
      have hc := hv.head
      by_cases hp : p c = true
      · rw [loop_true (by simp [whileCond, done_cons hw, nextIs_cons hw hc, hp])]
        have hr := consumeRune_rest hw
        rw [whileLoop_eq p fuel (consumeRune s) (by rw [hr]; simpa using h) (by rw [hr]; exact hv.tail), hr]
        simp [hp, consumeN_succ]
      · rw [loop_false (by simp [whileCond, nextIs_cons hw hc, hp])]
        simp [hp]

theorem consumeWhile_eq (p : Nat → Bool) (s : St) (hv : Valid s.rest) :
    consumeWhile p s = consumeN (s.rest.takeWhile p).length s :=
  whileLoop_eq p _ s (Nat.le_refl _) hv

/-- `consumeWhile` after `n` consumed runes. -/
theorem consumeWhile_consumeN (p : Nat → Bool) (n : Nat) (s : St) (hv : Valid s.rest) :
    consumeWhile p (consumeN n s) = consumeN (n + ((s.rest.drop n).takeWhile p).length) s := by
  rw [consumeWhile_eq p _ (by rw [consumeN_rest]; exact hv.drop n), consumeN_rest, consumeN_add]

/-! ## Names -/

theorem consumeName_eq (s : St) (hv : Valid s.rest) :
    consumeName s = match Spec.name? s.rest with
      | some n => (true, consumeN n s)
      | none => (false, s) := by
  unfold consumeName
  cases hw : s.rest with
  | nil => simp [nextIs_nil hw, Spec.name?]
  | cons c w =>
    rw [hw] at hv
    rw [nextIs_cons hw hv.head]
    simp only [Spec.name?, isNameStart_eq]
    by_cases hp : isNameStart c = true
    · simp only [hp, if_true]
      rw [← consumeN_one, consumeWhile_consumeN _ _ _ (by rw [hw]; exact hv), hw]
      simp only [List.drop_succ_cons, List.drop_zero]
      have : Spec.isNameContinue = isNameCont := funext isNameCont_eq
      rw [this]
    · simp [hp]

/-! ## Numbers -/

theorem isNonZeroDigit_of_digit {c : Nat} (hd : isDigit c = true) (h0 : c ≠ 48) : Spec.isNonZeroDigit c = true := by
  simp only [Spec.isNonZeroDigit, c1, c9, Bool.and_eq_true, decide_eq_true_eq]
  simp only [isDigit, Bool.and_eq_true, decide_eq_true_eq] at hd
  omega

theorem isNonZeroDigit_digit {c : Nat} (h : Spec.isNonZeroDigit c = true) : isDigit c = true := by
  simp only [Spec.isNonZeroDigit, c1, c9, Bool.and_eq_true, decide_eq_true_eq] at h
  simp only [isDigit, Bool.and_eq_true, decide_eq_true_eq]
  omega

theorem unsigned_of_not_digit {d : Nat} {w : List Nat} (h : ¬ isDigit d = true) :
    Spec.unsignedIntegerPart? (d :: w) = none := by
  have h0 : d ≠ 48 := by intro h'; subst h'; exact h (by decide)
  have hnz : ¬ Spec.isNonZeroDigit d = true := fun h' => h (isNonZeroDigit_digit h')
  simp [Spec.unsignedIntegerPart?, c0, h0, hnz]

theorem unsigned_of_digit {d : Nat} {w : List Nat} (h : isDigit d = true) :
    ∃ n, Spec.unsignedIntegerPart? (d :: w) = some n := by
  by_cases h0 : d = 48
  · exact ⟨1, by simp [Spec.unsignedIntegerPart?, c0, h0]⟩
  · exact ⟨1 + (w.takeWhile Spec.isDigit).length, by simp [Spec.unsignedIntegerPart?, c0, h0, isNonZeroDigit_of_digit h h0]⟩

/-- The digits of `consumeIntegerPart`, from a state that has consumed `k` runes of `s`. -/
theorem consumeIntegerDigits_eq (s : St) (hv : Valid s.rest) (k : Nat) :
    consumeIntegerDigits (consumeN k s) =
    match Spec.unsignedIntegerPart? (s.rest.drop k) with
    | some n => (true, consumeN (k + n) s)
    | none => (false, consumeN k s) := by
  have hr : (consumeN k s).rest = s.rest.drop k := consumeN_rest k s
  have hvu : Valid (s.rest.drop k) := hv.drop k
  unfold consumeIntegerDigits
  cases hu : s.rest.drop k with
  | nil =>
    rw [hu] at hr
    simp [next_nil hr, nextIs_nil hr, Spec.unsignedIntegerPart?]
  | cons c rest =>
    rw [hu] at hr hvu
    have hc := hvu.head
    rw [next_cons hr hc, nextIs_cons hr hc]
    simp only [Option.some.injEq]
    by_cases h0 : c = 48
    · simp [h0, consumeRune_consumeN, Spec.unsignedIntegerPart?, c0]
    · simp only [h0, if_false]
      by_cases hd : isDigit c = true
      · simp only [hd, Bool.not_true, Bool.false_eq_true, if_false]
        rw [consumeWhile_consumeN _ _ _ hv, hu]
        simp only [Spec.unsignedIntegerPart?, c0, h0, isNonZeroDigit_of_digit hd h0, List.takeWhile_cons, hd,
          if_true, if_false, List.length_cons]
        have : Spec.isDigit = isDigit := rfl
        rw [this, Nat.add_comm 1]
      · rw [unsigned_of_not_digit hd]
        simp [hd]

theorem consumeIntegerPart_eq (s : St) (hv : Valid s.rest) :
    consumeIntegerPart s = match Spec.integerPart? s.rest with
      | some n => (true, consumeN n s)
      | none => (false, s) := by
  have u0 := consumeIntegerDigits_eq s hv 0
  have u1 := consumeIntegerDigits_eq s hv 1
  simp only [consumeN_zero, consumeN_one, List.drop_zero, Nat.zero_add] at u0 u1
  unfold consumeIntegerPart
  cases hw : s.rest with
  | nil =>
    rw [hw] at u0
    simp [next_nil hw, u0, Spec.integerPart?, Spec.unsignedIntegerPart?]
  | cons c w =>
    rw [hw] at hv u0 u1
    have hc := hv.head
    rw [next_cons hw hc]
    simp only [Spec.integerPart?, show '-'.toNat = 45 from rfl, Option.some.injEq]
    by_cases hm : c = 45
    · subst hm
      simp only [if_true, true_and]
      cases w with
      | nil =>
        simp only [peek_single hw]
        rw [if_neg (by decide), u0]
        simp [Spec.unsignedIntegerPart?, c0, Spec.isNonZeroDigit, c1, c9]
      | cons d w' =>
        have hd := hv.tail.head
        rw [peek_cons hw hd]
        simp only [List.drop_succ_cons, List.drop_zero] at u1
        by_cases hdd : isDigit d = true
        · simp only [hdd, if_true]
          rw [u1]
          obtain ⟨n, hn⟩ := unsigned_of_digit (w := w') hdd
          simp [hn, Nat.add_comm]
        · simp only [hdd, Bool.false_eq_true, if_false]
          rw [u0, unsigned_of_not_digit hdd, unsigned_of_not_digit (by decide)]
          simp
    · simp only [hm, false_and, if_false]
      rw [u0]

theorem consumeFractionalPart_eq (s : St) (hv : Valid s.rest) :
    consumeFractionalPart s = match Spec.fractionalPart? s.rest with
      | some n => (true, consumeN n s)
      | none => (false, s) := by
  unfold consumeFractionalPart
  cases hw : s.rest with
  | nil => simp [next_nil hw, Spec.fractionalPart?]
  | cons c w =>
    rw [hw] at hv
    have hc := hv.head
    rw [next_cons hw hc]
    cases w with
    | nil => simp [peek_single hw, isDigit, Spec.fractionalPart?]
    | cons d w' =>
      have hd := hv.tail.head
      rw [peek_cons hw hd]
      simp only [Spec.fractionalPart?, show '.'.toNat = 46 from rfl, isDigit_eq, ne_eq, Option.some.injEq]
      by_cases h : c = 46 ∧ isDigit d = true
      · obtain ⟨h1, h2⟩ := h
        subst h1
        simp only [h2, not_true_eq_false, Bool.not_true, Bool.false_eq_true, or_self, if_false, and_self, if_true]
        rw [← consumeN_one, consumeWhile_consumeN _ _ _ (by rw [hw]; exact hv), hw]
        have : Spec.isDigit = isDigit := rfl
        simp only [List.drop_succ_cons, List.drop_zero, List.takeWhile_cons, h2, if_true, List.length_cons, this]
        congr 2; omega
      · have h' : ¬c = 46 ∨ (!isDigit d) = true := by
          by_cases h1 : c = 46
          · right; simpa using fun h2 => h ⟨h1, h2⟩
          · left; exact h1
        simp [h]

theorem digits1_of_digit {d : Nat} {w : List Nat} (h : isDigit d = true) :
    Spec.digits1? (d :: w) = some (1 + (w.takeWhile isDigit).length) := by
  simp [Spec.digits1?, isDigit_eq, h]
  rfl

theorem digits1_of_not_digit {d : Nat} {w : List Nat} (h : ¬ isDigit d = true) : Spec.digits1? (d :: w) = none := by
  simp [Spec.digits1?, isDigit_eq, h]

/-- The digits of an exponent, from a state that has consumed `k` runes of `s`. -/
theorem expDigits_eq (s : St) (hv : Valid s.rest) (k : Nat) :
    consumeWhile isDigit (expectDigit (consumeN k s)) =
    match Spec.digits1? (s.rest.drop k) with
    | some m => consumeN (k + m) s
    | none => (consumeN k s).errorf := by
  have hr : (consumeN k s).rest = s.rest.drop k := consumeN_rest k s
  have hvu : Valid (s.rest.drop k) := hv.drop k
  unfold expectDigit
  cases hu : s.rest.drop k with
  | nil =>
    rw [hu] at hr
    simp only [nextIs_nil hr, Bool.not_false, if_true, Spec.digits1?]
    unfold consumeWhile
    rw [loop_false]
    simp [nextIs_nil hr]
  | cons d w =>
    rw [hu] at hr hvu
    rw [nextIs_cons hr hvu.head]
    by_cases hd : isDigit d = true
    · simp only [hd, Bool.not_true, Bool.false_eq_true, if_false, digits1_of_digit hd]
      rw [consumeWhile_consumeN _ _ _ hv, hu]
      simp only [List.takeWhile_cons, hd, if_true, List.length_cons]
      rw [Nat.add_comm 1]
    · simp only [hd, Bool.not_false, if_true, digits1_of_not_digit hd]
      unfold consumeWhile
      rw [loop_false]
      simp [nextIs_cons hr hvu.head, hd]

theorem consumeSign_eq (s : St) (hv : Valid s.rest) (k : Nat) :
    consumeSign (consumeN k s) =
      match s.rest.drop k with
      | c :: _ => if c = 43 ∨ c = 45 then consumeN (k + 1) s else consumeN k s
      | [] => consumeN k s := by
  have hr : (consumeN k s).rest = s.rest.drop k := consumeN_rest k s
  have hvu : Valid (s.rest.drop k) := hv.drop k
  unfold consumeSign
  cases hu : s.rest.drop k with
  | nil => rw [hu] at hr; simp [next_nil hr]
  | cons c w =>
    rw [hu] at hr hvu
    rw [next_cons hr hvu.head]
    simp [consumeRune_consumeN]

/-- The state after `consumeExponentPart` at an exponent indicator followed by `rest`. -/
def expTail (s : St) (rest : List Nat) : St :=
  match rest with
  | sg :: rest' =>
    if sg = 43 ∨ sg = 45 then
      (match Spec.digits1? rest' with | some m => consumeN (2 + m) s | none => (consumeN 2 s).errorf)
    else
      (match Spec.digits1? rest with | some m => consumeN (1 + m) s | none => (consumeN 1 s).errorf)
  | [] => (consumeN 1 s).errorf

/-- `consumeExponentPart` at an exponent indicator, in terms of the reference's `digits1?`. -/
theorem consumeExponentPart_at (s : St) (hv : Valid s.rest) {e : Nat} {rest : List Nat} (hw : s.rest = e :: rest)
    (he : e = 101 ∨ e = 69) : consumeExponentPart s = (true, expTail s rest) := by
  unfold expTail
  unfold consumeExponentPart
  rw [hw] at hv
  rw [next_cons hw hv.head]
  have : ¬ (some e ≠ some 101 ∧ some e ≠ some 69) := by
    simp only [ne_eq, Option.some.injEq]; omega
  rw [if_neg this, ← consumeN_one, consumeSign_eq s (by rw [hw]; exact hv) 1, hw]
  simp only [List.drop_succ_cons, List.drop_zero]
  cases rest with
  | nil =>
    simp only
    rw [expDigits_eq s (by rw [hw]; exact hv) 1, hw]
    simp [Spec.digits1?]
  | cons sg rest' =>
    simp only
    by_cases hsg : sg = 43 ∨ sg = 45
    · rw [if_pos hsg, if_pos hsg, expDigits_eq s (by rw [hw]; exact hv) 2, hw]
      simp only [List.drop_succ_cons, List.drop_zero]
    · rw [if_neg hsg, if_neg hsg, expDigits_eq s (by rw [hw]; exact hv) 1, hw]
      simp only [List.drop_succ_cons, List.drop_zero]

theorem exponentPart_at {e : Nat} {rest : List Nat} (he : e = 101 ∨ e = 69) :
    Spec.exponentPart? (e :: rest) =
      match rest with
      | sg :: rest' =>
        if sg = 43 ∨ sg = 45 then (Spec.digits1? rest').map (· + 2) else (Spec.digits1? rest).map (· + 1)
      | [] => none := by
  cases rest <;>
  simp only [Spec.exponentPart?, show 'e'.toNat = 101 from rfl, show 'E'.toNat = 69 from rfl,
    show '+'.toNat = 43 from rfl, show '-'.toNat = 45 from rfl, he, if_true]

theorem exponentPart_not {e : Nat} {rest : List Nat} (he : ¬ (e = 101 ∨ e = 69)) :
    Spec.exponentPart? (e :: rest) = none := by
  simp only [Spec.exponentPart?, show 'e'.toNat = 101 from rfl, show 'E'.toNat = 69 from rfl, he, if_false]

/-- A complete ExponentPart is consumed exactly, without an error. -/
theorem consumeExponentPart_some (s : St) (hv : Valid s.rest) {n : Nat} (h : Spec.exponentPart? s.rest = some n) :
    consumeExponentPart s = (true, consumeN n s) := by
  cases hw : s.rest with
  | nil => rw [hw] at h; simp [Spec.exponentPart?] at h
  | cons e rest =>
    rw [hw] at h
    by_cases he : e = 101 ∨ e = 69
    · rw [consumeExponentPart_at s hv hw he]
      rw [exponentPart_at he] at h
      unfold expTail
      cases rest with
      | nil => simp at h
      | cons sg rest' =>
        simp only at h ⊢
        by_cases hsg : sg = 43 ∨ sg = 45
        · rw [if_pos hsg] at h ⊢
          cases hd : Spec.digits1? rest' with
          | none => rw [hd] at h; simp at h
          | some m =>
            rw [hd] at h
            simp only [Option.map_some, Option.some.injEq] at h
            subst h
            simp only [Nat.add_comm]
        · rw [if_neg hsg] at h ⊢
          cases hd : Spec.digits1? (sg :: rest') with
          | none => rw [hd] at h; simp at h
          | some m =>
            rw [hd] at h
            simp only [Option.map_some, Option.some.injEq] at h
            subst h
            simp only [Nat.add_comm]
    · rw [exponentPart_not he] at h; cases h

/-- An exponent indicator that does not start a complete ExponentPart: `consumeExponentPart` still
    returns true, after recording "exponent digit expected". -/
theorem consumeExponentPart_dangling (s : St) (hv : Valid s.rest) {c : Nat} {w : List Nat} (hw : s.rest = c :: w)
    (hc : c = 101 ∨ c = 69) (h : Spec.exponentPart? s.rest = none) :
    (consumeExponentPart s).1 = true ∧ s.errs.length < (consumeExponentPart s).2.errs.length := by
  rw [consumeExponentPart_at s hv hw hc]
  rw [hw, exponentPart_at hc] at h
  refine ⟨rfl, ?_⟩
  unfold expTail
  cases w with
  | nil => simp
  | cons sg rest' =>
    simp only at h ⊢
    by_cases hsg : sg = 43 ∨ sg = 45
    · rw [if_pos hsg] at h ⊢
      cases hd : Spec.digits1? rest' with
      | none => simp
      | some m => rw [hd] at h; simp at h
    · rw [if_neg hsg] at h ⊢
      cases hd : Spec.digits1? (sg :: rest') with
      | none => simp
      | some m => rw [hd] at h; simp at h

/-- No exponent indicator: nothing happens. -/
theorem consumeExponentPart_absent (s : St) (hv : Valid s.rest)
    (h : match s.rest with | c :: _ => c ≠ 101 ∧ c ≠ 69 | [] => True) :
    consumeExponentPart s = (false, s) := by
  unfold consumeExponentPart
  cases hw : s.rest with
  | nil => simp [next_nil hw]
  | cons c w =>
    rw [hw] at h hv
    simp only at h
    rw [next_cons hw hv.head]
    simp [h.1, h.2]

/-! ## The default branch of `Scan`: numbers and names -/

theorem integerPart_of_digit {c : Nat} {w : List Nat} (h : isDigit c = true) : ∃ n, Spec.integerPart? (c :: w) = some n := by
  have h45 : c ≠ 45 := by intro h'; subst h'; simp [isDigit] at h
  obtain ⟨n, hn⟩ := unsigned_of_digit (w := w) h
  exact ⟨n, by simp [Spec.integerPart?, show '-'.toNat = 45 from rfl, h45, hn]⟩

theorem integerPart_none_of_other {c : Nat} {w : List Nat} (h : ¬ (c = 45 ∨ isDigit c = true)) :
    Spec.integerPart? (c :: w) = none := by
  have h45 : c ≠ 45 := fun h' => h (.inl h')
  have hd : ¬ isDigit c = true := fun h' => h (.inr h')
  simp [Spec.integerPart?, show '-'.toNat = 45 from rfl, h45, unsigned_of_not_digit hd]

/-- After the number: the exponent (or its absence, or the D1 error), from `s2 = consumeN n1 s`. -/
theorem exponent_after (s : St) (hv : Valid s.rest) (n1 : Nat) :
    match Spec.exponentPart? (s.rest.drop n1) with
    | some ep => consumeExponentPart (consumeN n1 s) = (true, consumeN (n1 + ep) s)
    | none =>
      match s.rest.drop n1 with
      | c :: _ =>
        if c = 'e'.toNat ∨ c = 'E'.toNat then
          (consumeExponentPart (consumeN n1 s)).1 = true ∧ s.errs.length < (consumeExponentPart (consumeN n1 s)).2.errs.length
        else consumeExponentPart (consumeN n1 s) = (false, consumeN n1 s)
      | [] => consumeExponentPart (consumeN n1 s) = (false, consumeN n1 s) := by
  have hr : (consumeN n1 s).rest = s.rest.drop n1 := consumeN_rest n1 s
  have hv2 : Valid (consumeN n1 s).rest := by rw [hr]; exact hv.drop n1
  cases hep : Spec.exponentPart? (s.rest.drop n1) with
  | some ep =>
    simp only
    rw [consumeExponentPart_some _ hv2 (by rw [hr]; exact hep), consumeN_add]
  | none =>
    simp only
    cases hu : s.rest.drop n1 with
    | nil =>
      simp only
      exact consumeExponentPart_absent _ hv2 (by rw [hr, hu]; trivial)
    | cons c u =>
      simp only [show 'e'.toNat = 101 from rfl, show 'E'.toNat = 69 from rfl]
      by_cases he : c = 101 ∨ c = 69
      · rw [if_pos he]
        have := consumeExponentPart_dangling _ hv2 (by rw [hr, hu]) he (by rw [hr]; exact hep)
        simpa using this
      · rw [if_neg he]
        exact consumeExponentPart_absent _ hv2 (by rw [hr, hu]; simp only; omega)

theorem scanDefault_number (s : St) (hv : Valid s.rest) {c : Nat} {w : List Nat} (hw : s.rest = c :: w)
    (hc : c = 45 ∨ isDigit c = true) :
    match Spec.number? s.rest with
    | some (isFloat, n) => scanDefault s = (if isFloat then .floatValue else .intValue, consumeN n s)
    | none => s.errs.length < (scanDefault s).2.errs.length := by
  unfold scanDefault Spec.number?
  rw [consumeIntegerPart_eq s hv]
  cases hip : Spec.integerPart? s.rest with
  | none =>
    simp only
    -- only `-` without a digit gets here; it is not a name either
    have h45 : c = 45 := by
      rcases hc with h | h
      · exact h
      · obtain ⟨n, hn⟩ := integerPart_of_digit (w := w) h
        rw [hw, hn] at hip; cases hip
    have hnm : consumeName s = (false, s) := by
      rw [consumeName_eq s hv, hw, h45]
      simp [Spec.name?, Spec.isNameStart]
    simp [hnm]
  | some ip =>
    simp only [if_true]
    have hr1 : (consumeN ip s).rest = s.rest.drop ip := consumeN_rest ip s
    rw [consumeFractionalPart_eq _ (by rw [hr1]; exact hv.drop ip), hr1]
    cases hfp : Spec.fractionalPart? (s.rest.drop ip) with
    | some fp =>
      simp only [if_true, consumeN_add]
      have := exponent_after s hv (ip + fp)
      cases hep : Spec.exponentPart? (s.rest.drop (ip + fp)) with
      | some ep => rw [hep] at this; simp only at this ⊢; rw [this]; simp
      | none =>
        rw [hep] at this
        simp only at this ⊢
        cases hu : s.rest.drop (ip + fp) with
        | nil => rw [hu] at this; simp only at this ⊢; rw [this]; simp
        | cons c' u =>
          rw [hu] at this
          simp only at this ⊢
          by_cases he : c' = 'e'.toNat ∨ c' = 'E'.toNat
          · rw [if_pos he] at this ⊢; exact this.2
          · rw [if_neg he] at this ⊢; simp only; rw [this]; simp
    | none =>
      simp only [Bool.false_eq_true, if_false]
      have := exponent_after s hv ip
      cases hep : Spec.exponentPart? (s.rest.drop ip) with
      | some ep => rw [hep] at this; simp only at this ⊢; rw [this]; simp
      | none =>
        rw [hep] at this
        simp only at this ⊢
        cases hu : s.rest.drop ip with
        | nil => rw [hu] at this; simp only at this ⊢; rw [this]; simp
        | cons c' u =>
          rw [hu] at this
          simp only at this ⊢
          by_cases he : c' = 'e'.toNat ∨ c' = 'E'.toNat
          · rw [if_pos he] at this ⊢
            obtain ⟨h1, h2⟩ := this
            generalize consumeExponentPart (consumeN ip s) = ep at h1 h2 ⊢
            obtain ⟨isExp, s3⟩ := ep
            simp only at h1 h2 ⊢
            subst h1
            simpa using h2
          · rw [if_neg he] at this ⊢; simp only; rw [this]; simp

theorem scanDefault_name (s : St) (hv : Valid s.rest) {c : Nat} {w : List Nat} (hw : s.rest = c :: w)
    (hc : ¬ (c = 45 ∨ isDigit c = true)) :
    match Spec.name? s.rest with
    | some n => scanDefault s = (.name, consumeN n s)
    | none => s.errs.length < (scanDefault s).2.errs.length := by
  unfold scanDefault
  rw [consumeIntegerPart_eq s hv, hw, integerPart_none_of_other hc, ← hw]
  simp only [Bool.false_eq_true, if_false]
  rw [consumeName_eq s hv]
  cases Spec.name? s.rest with
  | some n => simp
  | none => simp

end ApiFu.C07
