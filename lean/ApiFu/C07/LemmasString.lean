/-
  C07 — helper lemmas, part 5: on valid UTF-8 the string loop of `consumeStringValue` computes the
  reference recognisers `Spec.stringBody?` / `Spec.blockBody?` (extent and decoded value), and records
  an error or stays unterminated exactly when they reject.
-/
import ApiFu.C07.LemmasExact

namespace ApiFu.C07

/-- The loop variables while scanning inside a string / after the closing quote. -/
def mkSS (s : St) (value : List Nat) : SS := ⟨s, value, false, false, false⟩
def escSS (s : St) (value : List Nat) : SS := ⟨s, value, false, true, false⟩
def doneSS (s : St) (value : List Nat) : SS := ⟨s, value, true, false, false⟩

theorem strCond_mk {s : St} (h : s.rest ≠ []) (v : List Nat) : strCond (mkSS s v) = true := by
  simp [strCond, mkSS, (not_done_iff s).2 h]

theorem strCond_esc {s : St} (h : s.rest ≠ []) (v : List Nat) : strCond (escSS s v) = true := by
  simp [strCond, escSS, (not_done_iff s).2 h]

theorem strCond_mk_nil {s : St} (h : s.rest = []) (v : List Nat) : strCond (mkSS s v) = false := by
  simp [strCond, mkSS, done_nil h]

theorem strCond_esc_nil {s : St} (h : s.rest = []) (v : List Nat) : strCond (escSS s v) = false := by
  simp [strCond, escSS, done_nil h]

theorem strCond_done (s : St) (v : List Nat) : strCond (doneSS s v) = false := by
  simp [strCond, doneSS]

/-- Errors only accumulate along the string loop. -/
theorem strLoop_errs_le (isBlock : Bool) (fuel : Nat) (x : SS) :
    x.st.errs.length ≤ (loop strCond (strStep isBlock) fuel x).st.errs.length := by
  obtain ⟨es, h⟩ := (strLoop_adv isBlock fuel x).errs_prefix
  rw [h]; simp

/-! ## The reference's string grammar, one case at a time -/

theorem stringBody_nil : Spec.stringBody? [] = none := by simp [Spec.stringBody?]

theorem stringBody_quote (rest : List Nat) : Spec.stringBody? (34 :: rest) = some (1, []) := by
  rw [Spec.stringBody?.eq_def]; simp

theorem stringBody_bs_nil : Spec.stringBody? [92] = none := by
  rw [Spec.stringBody?.eq_def]; simp

theorem stringBody_esc {e : Nat} (rest1 : List Nat) (he : e ≠ 117) :
    Spec.stringBody? (92 :: e :: rest1) =
      (Spec.escapedCharacter? e).bind fun v => (Spec.stringBody? rest1).map fun p => (p.1 + 2, v :: p.2) := by
  rw [Spec.stringBody?.eq_def]
  simp only [show '"'.toNat = 34 from rfl, show '\\'.toNat = 92 from rfl, show 'u'.toNat = 117 from rfl, he]
  cases Spec.escapedCharacter? e <;> simp

theorem stringBody_char {c : Nat} (rest : List Nat) (h1 : c ≠ 34) (h2 : c ≠ 92) :
    Spec.stringBody? (c :: rest) =
      if (Spec.isSourceCharacter c && !Spec.isLineTerminatorChar c) = true then
        (Spec.stringBody? rest).map fun p => (p.1 + 1, c :: p.2)
      else none := by
  rw [Spec.stringBody?.eq_def]
  simp [h1, h2]

/-- `n` hexadecimal digits at the head, accumulated as in Go (`code = code<<4 | v`). -/
def hexPrefix : Nat → List Nat → Nat → Option Nat
  | 0, _, code => some code
  | _ + 1, [], _ => none
  | n + 1, h :: r, code =>
    match hexRuneValue h with
    | some v => hexPrefix n r (code * 16 + v)
    | none => none

theorem stringBody_u (rest1 : List Nat) :
    Spec.stringBody? (92 :: 117 :: rest1) =
      (hexPrefix 4 rest1 0).bind fun code =>
        (Spec.stringBody? (rest1.drop 4)).map fun p => (p.1 + 6, Spec.codeUnit code :: p.2) := by
  rw [Spec.stringBody?.eq_def]
  simp only [show '"'.toNat = 34 from rfl, show '\\'.toNat = 92 from rfl, show 'u'.toNat = 117 from rfl]
  rcases rest1 with _ | ⟨h1, _ | ⟨h2, _ | ⟨h3, _ | ⟨h4, rest2⟩⟩⟩⟩ <;> simp [hexPrefix, hexDigit_eq]
  · cases hexRuneValue h1 <;> simp
  · cases hexRuneValue h1 <;> cases hexRuneValue h2 <;> simp
  · cases hexRuneValue h1 <;> cases hexRuneValue h2 <;> cases hexRuneValue h3 <;> simp
  · cases hexRuneValue h1 <;> cases hexRuneValue h2 <;> cases hexRuneValue h3 <;> cases hexRuneValue h4 <;> simp

theorem hexPrefix_lt : ∀ (n : Nat) (w : List Nat) (code c : Nat), hexPrefix n w code = some c → c < (code + 1) * 16 ^ n
  | 0, _, code, c, h => by simp [hexPrefix] at h; omega
  | n + 1, [], _, _, h => by simp [hexPrefix] at h
  | n + 1, x :: r, code, c, h => by
    simp only [hexPrefix] at h
    cases hv : hexRuneValue x with
    | none => rw [hv] at h; cases h
    | some v =>
      rw [hv] at h
      have := hexPrefix_lt n r _ c h
      have hlt := hexRuneValue_lt hv
      calc c < (code * 16 + v + 1) * 16 ^ n := this
        _ ≤ ((code + 1) * 16) * 16 ^ n := Nat.mul_le_mul_right _ (by omega)
        _ = (code + 1) * 16 ^ (n + 1) := by rw [Nat.pow_succ]; ac_rfl

theorem hexPrefix_length : ∀ (n : Nat) (w : List Nat) (code c : Nat), hexPrefix n w code = some c → n ≤ w.length
  | 0, _, _, _, _ => by omega
  | n + 1, [], _, _, h => by simp [hexPrefix] at h
  | n + 1, x :: r, code, c, h => by
    simp only [hexPrefix] at h
    cases hv : hexRuneValue x with
    | none => rw [hv] at h; cases h
    | some v => rw [hv] at h; have := hexPrefix_length n r _ c h; simp; omega

/-- The `\u` loop against `hexPrefix`: all digits consumed and the code computed, or exactly one error. -/
theorem hexLoop_eq : ∀ (n : Nat) (t : St) (code : Nat), Valid t.rest →
    match hexPrefix n t.rest code with
    | some c => hexLoop n t code = (consumeN n t, c)
    | none => (hexLoop n t code).1.errs.length = t.errs.length + 1
  | 0, t, code, _ => by simp [hexPrefix, hexLoop]
  | n + 1, t, code, hv => by
    cases hw : t.rest with
    | nil => simp [hexPrefix, hexLoop, next_nil hw]
    | cons h r =>
      rw [hw] at hv
      simp only [hexPrefix]
      unfold hexLoop
      rw [next_cons hw hv.head]
      simp only [Option.bind_some]
      cases hh : hexRuneValue h with
      | none => simp
      | some v =>
        simp only
        have hr := consumeRune_rest hw
        have ih := hexLoop_eq n (consumeRune t) (code * 16 + v) (by rw [hr]; exact hv.tail)
        rw [hr] at ih
        cases hp : hexPrefix n r (code * 16 + v) with
        | none => rw [hp] at ih; simpa using ih
        | some c => rw [hp] at ih; simp only at ih ⊢; rw [ih, consumeN_succ]

theorem runeToString_eq {c : Nat} (h : c < 0x10000) : runeToString c = Spec.codeUnit c := by
  unfold runeToString Spec.codeUnit
  by_cases hs : 0xD800 ≤ c ∧ c ≤ 0xDFFF
  · simp [hs]
  · have : ¬ ((0xD800 ≤ c ∧ c ≤ 0xDFFF) ∨ c > 0x10FFFF) := by omega
    rw [if_neg this, if_neg hs]

/-- The escape table of `consumeStringValue` is the table of the specification. -/
theorem escaped_cases {e v : Nat} (h : Spec.escapedCharacter? e = some v) :
    (e = 34 ∧ v = 34) ∨ (e = 92 ∧ v = 92) ∨ (e = 47 ∧ v = 47) ∨ (e = 98 ∧ v = 8) ∨ (e = 102 ∧ v = 12) ∨
    (e = 110 ∧ v = 10) ∨ (e = 114 ∧ v = 13) ∨ (e = 116 ∧ v = 9) := by
  unfold Spec.escapedCharacter? at h
  simp only [show '"'.toNat = 34 from rfl, show '\\'.toNat = 92 from rfl, show '/'.toNat = 47 from rfl,
    show 'b'.toNat = 98 from rfl, show 'f'.toNat = 102 from rfl, show 'n'.toNat = 110 from rfl,
    show 'r'.toNat = 114 from rfl, show 't'.toNat = 116 from rfl] at h
  repeat' split at h
  all_goals first
    | (cases h; omega)
    | cases h

theorem escaped_none {e : Nat} (h : Spec.escapedCharacter? e = none) :
    e ≠ 34 ∧ e ≠ 92 ∧ e ≠ 47 ∧ e ≠ 98 ∧ e ≠ 102 ∧ e ≠ 110 ∧ e ≠ 114 ∧ e ≠ 116 := by
  unfold Spec.escapedCharacter? at h
  simp only [show '"'.toNat = 34 from rfl, show '\\'.toNat = 92 from rfl, show '/'.toNat = 47 from rfl,
    show 'b'.toNat = 98 from rfl, show 'f'.toNat = 102 from rfl, show 'n'.toNat = 110 from rfl,
    show 'r'.toNat = 114 from rfl, show 't'.toNat = 116 from rfl] at h
  repeat' split at h
  all_goals first
    | omega
    | cases h

/-! ## Single iterations, quoted strings -/

section quoted
variable {s : St} {c : Nat} {rest : List Nat} (v : List Nat)

theorem qstep_quote (hw : s.rest = 34 :: rest) : strStep false (mkSS s v) = doneSS (consumeN 1 s) v := by
  simp [strStep, mkSS, doneSS, next_cons hw (by decide), consumeN_one]

theorem qstep_lt (hw : s.rest = c :: rest) (hc : c = 10 ∨ c = 13) :
    strStep false (mkSS s v) = { mkSS s v with broke := true } := by
  have hcb : c < badBase := by rcases hc with h | h <;> subst h <;> decide
  simp [strStep, mkSS, next_cons hw hcb, hc]

theorem qstep_bs (hw : s.rest = 92 :: rest) : strStep false (mkSS s v) = escSS (consumeN 1 s) v := by
  simp [strStep, mkSS, escSS, next_cons hw (by decide), consumeN_one]

theorem qstep_char (hw : s.rest = c :: rest) (hcb : c < badBase) (h1 : c ≠ 34) (h2 : c ≠ 92) (h3 : c ≠ 10)
    (h4 : c ≠ 13) (hs : isSourceCharacter c = true) :
    strStep false (mkSS s v) = mkSS (consumeN 1 s) (v ++ [c]) := by
  simp [strStep, mkSS, next_cons hw hcb, h1, h2, h3, h4, hs, consumeN_one]

theorem qstep_nonsource (hw : s.rest = c :: rest) (hcb : c < badBase) (hs : isSourceCharacter c = false) :
    strStep false (mkSS s v) = mkSS (consumeRune s.errorf) v := by
  have h1 : c ≠ 34 := by intro h; subst h; simp [isSourceCharacter] at hs
  have h2 : c ≠ 92 := by intro h; subst h; simp [isSourceCharacter] at hs
  have h3 : c ≠ 10 := by intro h; subst h; simp [isSourceCharacter] at hs
  have h4 : c ≠ 13 := by intro h; subst h; simp [isSourceCharacter] at hs
  simp [strStep, mkSS, next_cons hw hcb, h1, h2, h3, h4, hs]

theorem estep_char {u : Nat} (hw : s.rest = c :: rest) (hcb : c < badBase) (h : Spec.escapedCharacter? c = some u) :
    strStep false (escSS s v) = mkSS (consumeN 1 s) (v ++ [u]) := by
  rcases escaped_cases h with h | h | h | h | h | h | h | h <;> obtain ⟨rfl, rfl⟩ := h <;>
    simp [strStep, escapeStep, escSS, mkSS, next_cons hw hcb, consumeN_one]

theorem estep_bad (hw : s.rest = c :: rest) (hcb : c < badBase) (h : Spec.escapedCharacter? c = none) (hu : c ≠ 117) :
    strStep false (escSS s v) = mkSS (consumeRune s.errorf) v := by
  obtain ⟨a1, a2, a3, a4, a5, a6, a7, a8⟩ := escaped_none h
  simp [strStep, escapeStep, escSS, mkSS, next_cons hw hcb, a1, a2, a3, a4, a5, a6, a7, a8, hu]

theorem estep_u (hw : s.rest = 117 :: rest) :
    strStep false (escSS s v) =
      mkSS (hexLoop 4 (consumeN 1 s) 0).1 (v ++ [runeToString (hexLoop 4 (consumeN 1 s) 0).2]) := by
  simp [strStep, escapeStep, escSS, mkSS, next_cons hw (by decide), consumeN_one]

end quoted

/-! ## The quoted-string loop -/

/-- Accepting direction: when the reference reads a complete quoted string of `n` code points with value
    `u`, the loop consumes exactly those, appends exactly `u`, terminates, and records no error. -/
theorem quoted_some : ∀ (fuel : Nat) (s : St) (v : List Nat) (n : Nat) (u : List Nat),
    s.rest.length ≤ fuel → Valid s.rest → Spec.stringBody? s.rest = some (n, u) →
    loop strCond (strStep false) fuel (mkSS s v) = doneSS (consumeN n s) (v ++ u) ∧ 1 ≤ n ∧ n ≤ s.rest.length
  | 0, s, v, n, u, hf, _, h => by
    have : s.rest = [] := List.length_eq_zero_iff.mp (by omega)
    rw [this, stringBody_nil] at h; cases h
  | fuel + 1, s, v, n, u, hf, hv, h => by
    cases hw : s.rest with
    | nil => rw [hw, stringBody_nil] at h; cases h
    | cons c rest =>
      rw [hw] at h hv hf
      have hcb := hv.head
      have hne : s.rest ≠ [] := by rw [hw]; simp
      have hr1 : (consumeN 1 s).rest = rest := by rw [consumeN_rest, hw]; rfl
      rw [loop_true (strCond_mk hne v)]
      by_cases hq : c = 34
      · subst hq
        rw [stringBody_quote] at h
        cases h
        rw [qstep_quote v hw, loop_false (strCond_done _ _)]
        simp
      · by_cases hb : c = 92
        · subst hb
          rw [qstep_bs v hw]
          cases rest with
          | nil => rw [stringBody_bs_nil] at h; cases h
          | cons e rest1 =>
            have heb := hv.tail.head
            have hne1 : (consumeN 1 s).rest ≠ [] := by rw [hr1]; simp
            have hr2 : (consumeN 2 s).rest = rest1 := by rw [consumeN_rest, hw]; rfl
            cases fuel with
            | zero => simp at hf
            | succ fuel =>
              rw [loop_true (strCond_esc hne1 v)]
              by_cases hu : e = 117
              · subst hu
                rw [estep_u v hr1, consumeN_add]
                rw [stringBody_u] at h
                have hl := hexLoop_eq 4 (consumeN 2 s) 0 (by rw [hr2]; exact hv.tail.tail)
                rw [hr2] at hl
                cases hp : hexPrefix 4 rest1 0 with
                | none => rw [hp] at h; cases h
                | some code =>
                  rw [hp] at h hl
                  simp only [Option.bind_some] at h
                  simp only at hl
                  rw [hl]
                  simp only [consumeN_add]
                  cases hb : Spec.stringBody? (rest1.drop 4) with
                  | none => rw [hb] at h; cases h
                  | some p =>
                    obtain ⟨n', u'⟩ := p
                    rw [hb] at h
                    simp only [Option.map_some, Option.some.injEq, Prod.mk.injEq] at h
                    obtain ⟨rfl, rfl⟩ := h
                    have hr6 : (consumeN (2 + 4) s).rest = rest1.drop 4 := by
                      rw [consumeN_rest, hw]; simp
                    have hlen := hexPrefix_length 4 rest1 0 code hp
                    have ih := quoted_some fuel (consumeN (2 + 4) s) (v ++ [runeToString code]) n' u'
                      (by rw [hr6]; simp at hf ⊢; omega) (by rw [hr6]; exact (hv.tail.tail).drop 4) (by rw [hr6]; exact hb)
                    rw [ih.1, consumeN_add]
                    have hcode : code < 0x10000 := by
                      have := hexPrefix_lt 4 rest1 0 code hp; omega
                    rw [runeToString_eq hcode]
                    refine ⟨by simp [Nat.add_comm], by omega, ?_⟩
                    have := ih.2.2
                    rw [hr6] at this
                    simp at this ⊢
                    omega
              · rw [stringBody_esc rest1 hu] at h
                cases he : Spec.escapedCharacter? e with
                | none => rw [he] at h; cases h
                | some x =>
                  rw [he] at h
                  simp only [Option.bind_some] at h
                  rw [estep_char v hr1 heb he, consumeN_add]
                  cases hb : Spec.stringBody? rest1 with
                  | none => rw [hb] at h; cases h
                  | some p =>
                    obtain ⟨n', u'⟩ := p
                    rw [hb] at h
                    simp only [Option.map_some, Option.some.injEq, Prod.mk.injEq] at h
                    obtain ⟨rfl, rfl⟩ := h
                    have ih := quoted_some fuel (consumeN (1 + 1) s) (v ++ [x]) n' u'
                      (by rw [hr2]; simp at hf ⊢; omega) (by rw [hr2]; exact hv.tail.tail) (by rw [hr2]; exact hb)
                    rw [ih.1, consumeN_add]
                    refine ⟨by simp [Nat.add_comm], by omega, ?_⟩
                    have := ih.2.2
                    rw [hr2] at this
                    simp at this ⊢
                    omega
        · rw [stringBody_char rest hq hb] at h
          by_cases hs : (Spec.isSourceCharacter c && !Spec.isLineTerminatorChar c) = true
          · rw [if_pos hs] at h
            simp only [Bool.and_eq_true, Bool.not_eq_true', isSourceCharacter_eq] at hs
            have h10 : c ≠ 10 := by intro h'; subst h'; simp [Spec.isLineTerminatorChar] at hs
            have h13 : c ≠ 13 := by intro h'; subst h'; simp [Spec.isLineTerminatorChar] at hs
            rw [qstep_char v hw hcb hq hb h10 h13 hs.1]
            cases hb' : Spec.stringBody? rest with
            | none => rw [hb'] at h; cases h
            | some p =>
              obtain ⟨n', u'⟩ := p
              rw [hb'] at h
              simp only [Option.map_some, Option.some.injEq, Prod.mk.injEq] at h
              obtain ⟨rfl, rfl⟩ := h
              have ih := quoted_some fuel (consumeN 1 s) (v ++ [c]) n' u'
                (by rw [hr1]; simpa using hf) (by rw [hr1]; exact hv.tail) (by rw [hr1]; exact hb')
              rw [ih.1, consumeN_add]
              refine ⟨by simp [Nat.add_comm], by omega, ?_⟩
              have := ih.2.2
              rw [hr1] at this
              simp at this ⊢
              omega
          · rw [if_neg hs] at h; cases h

/-- Rejecting direction: when the reference finds no complete quoted string (unterminated, line end,
    bad escape, bad `\u`, character outside SourceCharacter), the loop ends unterminated or with at
    least one more error than it started with. -/
theorem quoted_none : ∀ (fuel : Nat) (s : St) (v : List Nat),
    s.rest.length ≤ fuel → Valid s.rest → Spec.stringBody? s.rest = none →
    (loop strCond (strStep false) fuel (mkSS s v)).terminated = false ∨
      s.errs.length < (loop strCond (strStep false) fuel (mkSS s v)).st.errs.length
  | 0, s, v, hf, _, _ => by left; rfl
  | fuel + 1, s, v, hf, hv, h => by
    cases hw : s.rest with
    | nil => rw [loop_false (strCond_mk_nil hw v)]; left; rfl
    | cons c rest =>
      rw [hw] at h hv hf
      have hcb := hv.head
      have hne : s.rest ≠ [] := by rw [hw]; simp
      have hr1 : (consumeN 1 s).rest = rest := by rw [consumeN_rest, hw]; rfl
      rw [loop_true (strCond_mk hne v)]
      by_cases hq : c = 34
      · subst hq; rw [stringBody_quote] at h; cases h
      · by_cases hb : c = 92
        · subst hb
          rw [qstep_bs v hw]
          cases rest with
          | nil => rw [loop_false (strCond_esc_nil hr1 v)]; left; rfl
          | cons e rest1 =>
            have heb := hv.tail.head
            have hne1 : (consumeN 1 s).rest ≠ [] := by rw [hr1]; simp
            have hr2 : (consumeN 2 s).rest = rest1 := by rw [consumeN_rest, hw]; rfl
            cases fuel with
            | zero => simp at hf
            | succ fuel =>
              rw [loop_true (strCond_esc hne1 v)]
              by_cases hu : e = 117
              · subst hu
                rw [estep_u v hr1, consumeN_add]
                rw [stringBody_u] at h
                have hl := hexLoop_eq 4 (consumeN 2 s) 0 (by rw [hr2]; exact hv.tail.tail)
                rw [hr2] at hl
                cases hp : hexPrefix 4 rest1 0 with
                | none =>
                  rw [hp] at hl
                  simp only [consumeN_errs] at hl
                  right
                  have := strLoop_errs_le false fuel
                    (mkSS (hexLoop 4 (consumeN (1 + 1) s) 0).1 (v ++ [runeToString (hexLoop 4 (consumeN (1 + 1) s) 0).2]))
                  simp only [mkSS, show (1 : Nat) + 1 = 2 from rfl] at this ⊢
                  omega
                | some code =>
                  rw [hp] at h hl
                  simp only [Option.bind_some, Option.map_eq_none_iff] at h
                  simp only at hl
                  rw [hl]
                  simp only [consumeN_add]
                  have hr6 : (consumeN (2 + 4) s).rest = rest1.drop 4 := by
                    rw [consumeN_rest, hw]; simp
                  have ih := quoted_none fuel (consumeN (2 + 4) s) (v ++ [runeToString code])
                    (by rw [hr6]; simp at hf ⊢; omega) (by rw [hr6]; exact (hv.tail.tail).drop 4) (by rw [hr6]; exact h)
                  simpa using ih
              · rw [stringBody_esc rest1 hu] at h
                cases he : Spec.escapedCharacter? e with
                | none =>
                  rw [estep_bad v hr1 heb he hu]
                  right
                  have := strLoop_errs_le false fuel (mkSS (consumeRune (consumeN 1 s).errorf) v)
                  simp only [mkSS, consumeRune_errs, errorf_errs, consumeN_errs, List.length_append,
                    List.length_singleton] at this ⊢
                  omega
                | some x =>
                  rw [he] at h
                  simp only [Option.bind_some, Option.map_eq_none_iff] at h
                  rw [estep_char v hr1 heb he, consumeN_add]
                  have ih := quoted_none fuel (consumeN (1 + 1) s) (v ++ [x])
                    (by rw [hr2]; simp at hf ⊢; omega) (by rw [hr2]; exact hv.tail.tail) (by rw [hr2]; exact h)
                  simpa using ih
        · rw [stringBody_char rest hq hb] at h
          by_cases hlt : c = 10 ∨ c = 13
          · rw [qstep_lt v hw hlt, loop_false (by simp [strCond, mkSS])]
            left; rfl
          · have h10 : c ≠ 10 := fun h' => hlt (.inl h')
            have h13 : c ≠ 13 := fun h' => hlt (.inr h')
            have hnl : Spec.isLineTerminatorChar c = false := by simp [Spec.isLineTerminatorChar, h10, h13]
            by_cases hs : isSourceCharacter c = true
            · rw [qstep_char v hw hcb hq hb h10 h13 hs]
              simp only [isSourceCharacter_eq, hs, hnl, Bool.not_false, Bool.and_self, if_true,
                Option.map_eq_none_iff] at h
              have ih := quoted_none fuel (consumeN 1 s) (v ++ [c])
                (by rw [hr1]; simpa using hf) (by rw [hr1]; exact hv.tail) (by rw [hr1]; exact h)
              simpa using ih
            · have hs' : isSourceCharacter c = false := by simpa using hs
              rw [qstep_nonsource v hw hcb hs']
              right
              have := strLoop_errs_le false fuel (mkSS (consumeRune s.errorf) v)
              simp only [mkSS, consumeRune_errs, errorf_errs, List.length_append, List.length_singleton] at this ⊢
              omega

end ApiFu.C07
