import ApiFu.C07.Model
import ApiFu.C07.Spec

namespace ApiFu.C07

/-- placeholder while the end-to-end pipeline is brought up -/
theorem kind_code_injective (a b : Kind) (h : a.code = b.code) : a = b := by
  cases a <;> cases b <;> simp [Kind.code] at h <;> rfl

end ApiFu.C07
