/-
  C07 — property theorems about the scanner model (`Model.lean`, the Go scanner after the C07 patches)
  against the reference lexer and algorithms of `Spec.lean` (written from the June-2018 grammar).
  All statements are for every source text; "valid UTF-8" is `∀ r ∈ src, r < badBase`.
-/
import ApiFu.C07.Lemmas
import ApiFu.C07.LemmasScan
import ApiFu.C07.LemmasBlock

namespace ApiFu.C07

/-! ## Block strings -/

/-- **blockString_eq_spec** — for every raw value (any code points, any mixture of CR, LF, CRLF, blank
    and whitespace-only lines) the transliterated Go `blockStringValue` returns exactly what the
    specification's BlockStringValue algorithm returns: lines split at line terminators, the common
    indent of the non-blank lines after the first removed from every line after the first (a shorter
    line becomes empty — patch 02), leading and trailing blank lines removed, joined by LF. -/
theorem blockString_eq_spec (raw : List Nat) : blockStringValue raw = Spec.blockStringValue raw :=
  blockStringValue_eq raw

/-- Non-vacuity / the F-07b witness: the short whitespace-only line becomes empty. -/
example : blockStringValue [10, 32, 32, 32, 32, 97, 10, 32, 32, 10, 32, 32, 32, 32, 98, 10] = [97, 10, 10, 98] := by
  decide

/-! ## Progress and termination -/

/-- **scanner_progress** — every iteration of `Scan` entered with input left consumes at least one
    element, never more than there are, and accounts for every element it consumes (`off + remaining`
    is constant). This is the termination measure of `Scan` and of `for s.Scan()`. -/
theorem scanner_progress (s : St) (h : s.rest ≠ []) :
    s.off < (scanToken s).2.2.off ∧
    (scanToken s).2.2.rest.length < s.rest.length ∧
    (scanToken s).2.2.off + (scanToken s).2.2.rest.length = s.off + s.rest.length := by
  have a := scanToken_adv s h
  exact ⟨a.off_lt, a.length_lt, a.adv.total⟩

/-- **no_consume_at_eof** — the state after an iteration of `Scan` is reached from the state before it
    by `consumeRune` steps taken only when a rune is left (and `errorf` steps): the Go scanner never
    executes `consumeRune` at the end of the input, where it would add 0 to the offset but still
    increment the column. Errors are only ever appended. -/
theorem no_consume_at_eof (s : St) (h : s.rest ≠ []) :
    Adv s (scanToken s).2.2 ∧ ∃ es, (scanToken s).2.2.errs = s.errs ++ es :=
  ⟨(scanToken_adv s h).adv, (scanToken_adv s h).adv.errs_prefix⟩

/-- **loops_exit** — the model's `for` loops run on fuel (the number of elements left). None of them
    ever stops because the fuel ran out: on exit the Go loop condition is false. -/
theorem loops_exit :
    (∀ p s, whileCond p (consumeWhile p s) = false) ∧
    (∀ s, commentCond (consumeComment s) = false) ∧
    (∀ isBlock x, x.broke = false → strCond (loop strCond (strStep isBlock) x.st.rest.length x) = false) :=
  ⟨consumeWhile_exits, consumeComment_exits, strLoop_exits⟩

/-- **scan_fuel_irrelevant** — `Scan()` gives the same answer for every fuel above the number of
    elements left; in particular it never returns `false` (`none`) for lack of fuel. -/
theorem scan_fuel_irrelevant (b : Bool) (f1 f2 : Nat) (s : St) (h1 : s.rest.length < f1) (h2 : s.rest.length < f2) :
    scan b f1 s = scan b f2 s :=
  scan_fuel b f1 f2 s h1 h2

/-- **scan_stops_only_at_end** — `Scan()` returns false only when the whole input has been consumed, and
    the `for s.Scan()` loop ends with nothing left (no element is silently dropped at the end). -/
theorem scan_stops_only_at_end (b : Bool) (src : List Nat) :
    (∀ s s', scan b (s.rest.length + 1) s = (none, s') → s'.rest = []) ∧
    (scanLoop b (src.length + 1) (St.init src)).2.rest = [] := by
  constructor
  · intro s s' h
    have := scan_spec b (s.rest.length + 1) s (by omega)
    rw [h] at this
    exact this.2
  · exact (scanLoop_spec b src (src.length + 1) (St.init src) (by simp [St.init]) (Inv.init src)).2.1

/-! ## Positions and extents -/

/-- **position_correct** — every token's reported (line, column) is the position of its first element as
    the reference computes it from the consumed prefix alone: line = 1 + number of line terminators
    ending before the token, where LF, CR (not followed by LF) and CRLF each count once; column = 1 +
    number of elements since the last of them. For every text, valid UTF-8 or not, in both modes. -/
theorem position_correct (b : Bool) (src : List Nat) :
    ∀ t ∈ (scanAll b src).1, (t.line, t.col) = Spec.position src t.off := by
  intro t ht
  have h := scanLoop_spec b src (src.length + 1) (St.init src) (by simp [St.init]) (Inv.init src)
  unfold scanAll at ht
  split at ht
  rename_i ts sf hres
  rw [hres] at h
  exact (h.2.2.1 t ht).2.2.2.1

/-- Non-vacuity: CRLF counts once, CR alone and LF alone count once (tokens `{`, CRLF, `a`, CR, `b`, LF, `c`). -/
example : (scanAll true [123, 13, 10, 97, 13, 98, 10, 99]).1.map (fun t => (t.off, t.line, t.col)) =
    [(0, 1, 1), (1, 1, 2), (3, 2, 1), (4, 2, 2), (5, 3, 1), (6, 3, 2), (7, 4, 1)] := by
  decide

/-- **error_positions** — every recorded error carries the position of some offset of the text. -/
theorem error_positions (b : Bool) (src : List Nat) :
    ∀ e ∈ (scanAll b src).2, ∃ off, off ≤ src.length ∧ (e.line, e.col) = Spec.position src off := by
  have h := scanLoop_spec b src (src.length + 1) (St.init src) (by simp [St.init]) (Inv.init src)
  have := h.1.errs_pos (Inv.init src) (by simp [St.init])
  unfold scanAll
  split
  rename_i ts sf hres
  rw [hres] at this
  exact this

/-- **token_extents** — tokens are non-empty, lie inside the text, come in increasing order without
    overlap, are never INVALID, and ignored kinds appear only in `ScanIgnored` mode. -/
theorem token_extents (b : Bool) (src : List Nat) :
    (∀ t ∈ (scanAll b src).1, 1 ≤ t.len ∧ t.off + t.len ≤ src.length ∧ t.kind ≠ .invalid ∧
        (t.kind.isIgnored = true → b = true)) ∧
    (scanAll b src).1.Pairwise (fun a c => a.off + a.len ≤ c.off) := by
  have h := scanLoop_spec b src (src.length + 1) (St.init src) (by simp [St.init]) (Inv.init src)
  unfold scanAll
  split
  rename_i ts sf hres
  rw [hres] at h
  refine ⟨fun t ht => ?_, h.2.2.2⟩
  have := h.2.2.1 t ht
  exact ⟨this.2.1, this.2.2.1, this.2.2.2.2.1, this.2.2.2.2.2⟩

end ApiFu.C07
