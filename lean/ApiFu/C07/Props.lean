/-
  C07 — property theorems about the scanner model (`Model.lean`, the Go scanner after the C07 patches)
  against the reference lexer and algorithms of `Spec.lean` (written from the June-2018 grammar).
  All statements are for every source text; "valid UTF-8" is `∀ r ∈ src, r < badBase`.
-/
import ApiFu.C07.Lemmas
import ApiFu.C07.LemmasScan
import ApiFu.C07.LemmasBlock
import ApiFu.C07.LemmasMain
import ApiFu.C07.LemmasNumber
import ApiFu.C07.LemmasSource

namespace ApiFu.C07

/-! ## Block strings -/

/-- **blockString_eq_spec** — for every raw value (any code points, any mixture of CR, LF, CRLF, blank
    and whitespace-only lines) the transliterated Go `blockStringValue` returns exactly what the
    specification's BlockStringValue algorithm returns: lines split at line terminators, the common
    indent of the non-blank lines after the first removed from every line after the first (a shorter
    line becomes empty — patch 02), leading and trailing blank lines removed, joined by LF. -/
theorem blockString_eq_spec (raw : List Nat) : blockStringValue raw = Spec.blockStringValue raw :=
  blockStringValue_eq raw

/-- Non-vacuity / the F-07b witness: the short whitespace-only line becomes empty. -/
example : blockStringValue [10, 32, 32, 32, 32, 97, 10, 32, 32, 10, 32, 32, 32, 32, 98, 10] = [97, 10, 10, 98] := by
  decide

/-! ## Progress and termination -/

/-- **scanner_progress** — every iteration of `Scan` entered with input left consumes at least one
    element, never more than there are, and accounts for every element it consumes (`off + remaining`
    is constant). This is the termination measure of `Scan` and of `for s.Scan()`. -/
theorem scanner_progress (s : St) (h : s.rest ≠ []) :
    s.off < (scanToken s).2.2.off ∧
    (scanToken s).2.2.rest.length < s.rest.length ∧
    (scanToken s).2.2.off + (scanToken s).2.2.rest.length = s.off + s.rest.length := by
  have a := scanToken_adv s h
  exact ⟨a.off_lt, a.length_lt, a.adv.total⟩

/-- **no_consume_at_eof** — the state after an iteration of `Scan` is reached from the state before it
    by `consumeRune` steps taken only when a rune is left (and `errorf` steps): the Go scanner never
    executes `consumeRune` at the end of the input, where it would add 0 to the offset but still
    increment the column. Errors are only ever appended. -/
theorem no_consume_at_eof (s : St) (h : s.rest ≠ []) :
    Adv s (scanToken s).2.2 ∧ ∃ es, (scanToken s).2.2.errs = s.errs ++ es :=
  ⟨(scanToken_adv s h).adv, (scanToken_adv s h).adv.errs_prefix⟩

/-- **loops_exit** — the model's `for` loops run on fuel (the number of elements left). None of them
    ever stops because the fuel ran out: on exit the Go loop condition is false. -/
theorem loops_exit :
    (∀ p s, whileCond p (consumeWhile p s) = false) ∧
    (∀ s, commentCond (consumeComment s) = false) ∧
    (∀ isBlock x, x.broke = false → strCond (loop strCond (strStep isBlock) x.st.rest.length x) = false) :=
  ⟨consumeWhile_exits, consumeComment_exits, strLoop_exits⟩

/-- **scan_fuel_irrelevant** — `Scan()` gives the same answer for every fuel above the number of
    elements left; in particular it never returns `false` (`none`) for lack of fuel. -/
theorem scan_fuel_irrelevant (b : Bool) (f1 f2 : Nat) (s : St) (h1 : s.rest.length < f1) (h2 : s.rest.length < f2) :
    scan b f1 s = scan b f2 s :=
  scan_fuel b f1 f2 s h1 h2

/-- **scan_stops_only_at_end** — `Scan()` returns false only when the whole input has been consumed, and
    the `for s.Scan()` loop ends with nothing left (no element is silently dropped at the end). -/
theorem scan_stops_only_at_end (b : Bool) (src : List Nat) :
    (∀ s s', scan b (s.rest.length + 1) s = (none, s') → s'.rest = []) ∧
    (scanLoop b (src.length + 1) (St.init src)).2.rest = [] := by
  constructor
  · intro s s' h
    have := scan_spec b (s.rest.length + 1) s (by omega)
    rw [h] at this
    exact this.2
  · exact (scanLoop_spec b src (src.length + 1) (St.init src) (by simp [St.init]) (Inv.init src)).2.1

/-! ## Positions and extents -/

/-- **position_correct** — every token's reported (line, column) is the position of its first element as
    the reference computes it from the consumed prefix alone: line = 1 + number of line terminators
    ending before the token, where LF, CR (not followed by LF) and CRLF each count once; column = 1 +
    number of elements since the last of them. For every text, valid UTF-8 or not, in both modes. -/
theorem position_correct (b : Bool) (src : List Nat) :
    ∀ t ∈ (scanAll b src).1, (t.line, t.col) = Spec.position src t.off := by
  intro t ht
  have h := scanLoop_spec b src (src.length + 1) (St.init src) (by simp [St.init]) (Inv.init src)
  unfold scanAll at ht
  split at ht
  rename_i ts sf hres
  rw [hres] at h
  exact (h.2.2.1 t ht).2.2.2.1

/-- Non-vacuity: CRLF counts once, CR alone and LF alone count once (tokens `{`, CRLF, `a`, CR, `b`, LF, `c`). -/
example : (scanAll true [123, 13, 10, 97, 13, 98, 10, 99]).1.map (fun t => (t.off, t.line, t.col)) =
    [(0, 1, 1), (1, 1, 2), (3, 2, 1), (4, 2, 2), (5, 3, 1), (6, 3, 2), (7, 4, 1)] := by
  decide

/-- **error_positions** — every recorded error carries the position of some offset of the text. -/
theorem error_positions (b : Bool) (src : List Nat) :
    ∀ e ∈ (scanAll b src).2, ∃ off, off ≤ src.length ∧ (e.line, e.col) = Spec.position src off := by
  have h := scanLoop_spec b src (src.length + 1) (St.init src) (by simp [St.init]) (Inv.init src)
  have := h.1.errs_pos (Inv.init src) (by simp [St.init])
  unfold scanAll
  split
  rename_i ts sf hres
  rw [hres] at this
  exact this

/-- **token_extents** — tokens are non-empty, lie inside the text, come in increasing order without
    overlap, are never INVALID, and ignored kinds appear only in `ScanIgnored` mode. -/
theorem token_extents (b : Bool) (src : List Nat) :
    (∀ t ∈ (scanAll b src).1, 1 ≤ t.len ∧ t.off + t.len ≤ src.length ∧ t.kind ≠ .invalid ∧
        (t.kind.isIgnored = true → b = true)) ∧
    (scanAll b src).1.Pairwise (fun a c => a.off + a.len ≤ c.off) := by
  have h := scanLoop_spec b src (src.length + 1) (St.init src) (by simp [St.init]) (Inv.init src)
  unfold scanAll
  split
  rename_i ts sf hres
  rw [hres] at h
  refine ⟨fun t ht => ?_, h.2.2.2⟩
  have := h.2.2.1 t ht
  exact ⟨this.2.1, this.2.2.1, this.2.2.2.2.1, this.2.2.2.2.2⟩

/-! ## The scanner is the reference lexer -/

/-- **scan_eq_spec** — for every valid UTF-8 text, in both modes: if the reference lexer (longest match
    over the June-2018 lexical grammar, `Spec.lexAll`) lexes the whole text, the scanner returns exactly
    its tokens — kind, offset, length, line, column, decoded string value (escapes, `\uXXXX`,
    BlockStringValue) — and reports no error; if the reference meets a lexical error (unterminated
    string, invalid escape, character outside SourceCharacter, stray punctuation, dangling exponent,
    misplaced BOM), the scanner reports at least one error, and the tokens it returned before the point
    of the error are exactly the reference's. Never a silently different value. -/
theorem scan_eq_spec (b : Bool) (src : List Nat) (hv : ∀ r ∈ src, r < badBase) :
    match Spec.lexAll b src with
    | .ok ts => scanAll b src = (ts, [])
    | .error ts => (∃ more, (scanAll b src).1 = ts ++ more) ∧ (scanAll b src).2 ≠ [] := by
  have hi := Inv.init src
  have h := scanLoop_eq_spec src hv (src.length + 1) (src.length + 1) (St.init src)
    (by simp [St.init]) (by simp [St.init]) hi
  have hf := scanLoop_filter src.length (src.length + 1) (St.init src) (by simp [St.init]) (by simp [St.init])
  have hoff : (St.init src).off = 0 := rfl
  have herr : (St.init src).errs = [] := rfl
  rw [hoff, herr] at h
  unfold Spec.lexAll scanAll
  cases b with
  | true =>
    generalize Spec.lexFrom src (src.length + 1) 0 = res at h ⊢
    generalize scanLoop true (src.length + 1) (St.init src) = r at h ⊢
    obtain ⟨ts2, sf⟩ := r
    cases res with
    | ok ts =>
      simp only [Spec.Res.filterIgnored, if_true] at h ⊢
      rw [h.1, h.2]
    | error ts =>
      simp only [Spec.Res.filterIgnored, if_true] at h ⊢
      refine ⟨h.1, ?_⟩
      intro he; rw [he] at h; simp at h
  | false =>
    generalize Spec.lexFrom src (src.length + 1) 0 = res at h ⊢
    generalize scanLoop true (src.length + 1) (St.init src) = r at h hf ⊢
    generalize scanLoop false (src.length + 1) (St.init src) = r0 at hf ⊢
    obtain ⟨ts2, sf⟩ := r
    obtain ⟨ts0, sf0⟩ := r0
    simp only at hf h
    obtain ⟨hf1, hf2⟩ := hf
    subst hf2
    cases res with
    | ok ts =>
      simp only [Spec.Res.filterIgnored, Bool.false_eq_true, if_false] at h ⊢
      rw [hf1, h.1, h.2]
    | error ts =>
      simp only [Spec.Res.filterIgnored, Bool.false_eq_true, if_false] at h ⊢
      obtain ⟨⟨more, hm⟩, he⟩ := h
      refine ⟨⟨more.filter (fun t => !t.kind.isIgnored), by rw [hf1, hm, List.filter_append]⟩, ?_⟩
      intro he'; rw [he'] at he; simp at he

/-- Non-vacuity, accepting side: a text with every token class; the reference accepts it. -/
example : (match Spec.lexAll true [0xFEFF, 123, 97, 58, 45, 49, 46, 53, 101, 43, 50, 44, 32, 34, 92, 117, 48, 48, 52, 49, 34, 13, 10, 46, 46, 46, 35, 33] with
    | .ok ts => ts.map (fun t => (t.kind.code, t.len)) | .error _ => []) =
    [(6, 1), (1, 1), (2, 1), (1, 1), (4, 7), (10, 1), (7, 1), (5, 8), (8, 2), (1, 3), (9, 2)] := by
  decide

/-- Non-vacuity, rejecting side (and the witnesses of the repaired defects F-07c, F-07e): a control
    character in a comment; `"""\\"""` is unterminated. -/
example : Spec.lexAll true [35, 1] = .error [] ∧ Spec.lexAll true [34, 34, 34, 92, 92, 34, 34, 34] = .error [] ∧
    (scanAll true [35, 1]).2 ≠ [] ∧ (scanAll true [34, 34, 34, 92, 92, 34, 34, 34]).2 ≠ [] := by
  decide

/-- **mode_filter** — scanning with ignored tokens skipped (`mode = 0`, what the parser uses) yields
    exactly the non-ignored tokens of the `ScanIgnored` run, and the same errors, for every text (valid
    UTF-8 or not). -/
theorem mode_filter (src : List Nat) :
    (scanAll false src).1 = (scanAll true src).1.filter (fun t => !t.kind.isIgnored) ∧
    (scanAll false src).2 = (scanAll true src).2 := by
  have hf := scanLoop_filter src.length (src.length + 1) (St.init src) (by simp [St.init]) (by simp [St.init])
  unfold scanAll
  generalize scanLoop true (src.length + 1) (St.init src) = r at hf ⊢
  generalize scanLoop false (src.length + 1) (St.init src) = r0 at hf ⊢
  obtain ⟨ts2, sf⟩ := r
  obtain ⟨ts0, sf0⟩ := r0
  simp only at hf ⊢
  exact ⟨hf.1, by rw [hf.2]⟩

/-- **token_eq_spec** — the same, one iteration of `Scan` at a time (any state on a valid text): where the
    reference finds a token the scanner returns that kind and value having consumed exactly its `n ≥ 1`
    code points and recorded nothing; where the reference finds none the scanner records an error. -/
theorem token_eq_spec (s : St) (hv : ∀ r ∈ s.rest, r < badBase) (hne : s.rest ≠ []) :
    (∀ k n v, Spec.token? (s.off == 0) s.rest = some (k, n, v) →
      scanToken s = (k, v, consumeN n s) ∧ 1 ≤ n ∧ n ≤ s.rest.length ∧ k ≠ .invalid) ∧
    (Spec.token? (s.off == 0) s.rest = none → s.errs.length < (scanToken s).2.2.errs.length) :=
  scanToken_spec s hv hne

/-! ## Strings and numbers (the token classes the statement singles out) -/

/-- **string_decode** — a `"` on valid UTF-8: if what follows is a StringValue of the grammar (quoted:
    StringCharacter* with the escape table and `\uXXXX`; block: BlockStringCharacter* with `\"""`), the
    scanner consumes exactly it, records no error, and returns exactly the specified value (for block
    strings `BlockStringValue` of the raw value); otherwise it records an error. -/
theorem string_decode (s : St) (hv : ∀ r ∈ s.rest, r < badBase) {rest : List Nat} (hw : s.rest = 34 :: rest) :
    (∀ k n v, specString rest = some (k, n, v) →
        consumeStringValue s = (v, consumeN n s) ∧ k = .stringValue ∧ 1 ≤ n ∧ n ≤ s.rest.length) ∧
    (specString rest = none → s.errs.length < (consumeStringValue s).2.errs.length) :=
  ⟨fun _ _ _ h => consumeStringValue_some s hv hw h, fun h => consumeStringValue_none s hv hw h⟩

/-- **escape_table** — the decoding of every two-character escape is the specification's table, and a
    backslash followed by anything else (except `u`) is an error. -/
theorem escape_table (s : St) (v : List Nat) {c : Nat} {rest : List Nat} (hw : s.rest = c :: rest) (hc : c < badBase) :
    (∀ u, Spec.escapedCharacter? c = some u → strStep false (escSS s v) = mkSS (consumeN 1 s) (v ++ [u])) ∧
    (Spec.escapedCharacter? c = none → c ≠ 117 → strStep false (escSS s v) = mkSS (consumeRune s.errorf) v) ∧
    (∀ u, Spec.escapedCharacter? c = some u ↔
      (c, u) ∈ [(34, 34), (92, 92), (47, 47), (98, 8), (102, 12), (110, 10), (114, 13), (116, 9)]) := by
  refine ⟨fun u h => estep_char v hw hc h, fun h hu => estep_bad v hw hc h hu, fun u => ⟨fun h => ?_, fun h => ?_⟩⟩
  · rcases escaped_cases h with h | h | h | h | h | h | h | h <;> obtain ⟨rfl, rfl⟩ := h <;> simp
  · simp only [List.mem_cons, Prod.mk.injEq, List.mem_nil_iff, or_false] at h
    rcases h with h | h | h | h | h | h | h | h <;> obtain ⟨rfl, rfl⟩ := h <;> decide

/-- **unicode_escape** — `\u` followed by four hexadecimal digits decodes to the code unit they spell
    (U+FFFD for a lone surrogate, as Go's `string(rune)`; not claimed either way, DESIGN F-07d); fewer
    than four hexadecimal digits record exactly one error. -/
theorem unicode_escape (t : St) (hv : ∀ r ∈ t.rest, r < badBase) :
    (∀ code, hexPrefix 4 t.rest 0 = some code →
        hexLoop 4 t 0 = (consumeN 4 t, code) ∧ code < 0x10000 ∧ runeToString code = Spec.codeUnit code) ∧
    (hexPrefix 4 t.rest 0 = none → (hexLoop 4 t 0).1.errs.length = t.errs.length + 1) := by
  have h := hexLoop_eq 4 t 0 hv
  constructor
  · intro code hc
    rw [hc] at h
    have hlt : code < 0x10000 := by have := hexPrefix_lt 4 t.rest 0 code hc; omega
    exact ⟨h, hlt, runeToString_eq hlt⟩
  · intro hn
    rw [hn] at h
    exact h

/-- **number_eq_spec** — at `-` or a digit on valid UTF-8 the scanner's Int/Float classification and the
    extent are those of the reference's longest match `Spec.number?` (IntegerPart, then FractionalPart if
    it matches, then ExponentPart if it matches; Float iff one of the two matched); when the reference
    rejects (a lone `-`, or an exponent indicator without digits — D1) an error is recorded. -/
theorem number_eq_spec (s : St) (hv : ∀ r ∈ s.rest, r < badBase) {c : Nat} {w : List Nat} (hw : s.rest = c :: w)
    (hc : c = 45 ∨ isDigit c = true) :
    match Spec.number? s.rest with
    | some (isFloat, n) => scanDefault s = (if isFloat then .floatValue else .intValue, consumeN n s)
    | none => s.errs.length < (scanDefault s).2.errs.length :=
  scanDefault_number s hv hw hc

/-- **number_longest_match** — the reference's number recogniser against the productions of §2.9.1/§2.9.2
    stated as predicates on words (`Spec.IntValue`, `Spec.FloatValue`, no algorithm): what it returns is a
    word of IntValue (classified Int) or of FloatValue (classified Float), no longer prefix of the text is
    a word of either, no word is both, and it rejects only when no prefix is a number at all or (D1) when
    the longest number is directly followed by `e`/`E`. With `number_eq_spec` and `scan_eq_spec`: the
    scanner classifies numbers Int or Float by the grammar's longest match. -/
theorem number_longest_match (w : List Nat) :
    (∀ f n, Spec.number? w = some (f, n) →
      n ≤ w.length ∧ 1 ≤ n ∧ (f = false → Spec.IntValue (w.take n)) ∧ (f = true → Spec.FloatValue (w.take n)) ∧
      ∀ u t, w = u ++ t → Spec.IntValue u ∨ Spec.FloatValue u → u.length ≤ n) ∧
    (Spec.number? w = none →
      (∀ u t, w = u ++ t → ¬ (Spec.IntValue u ∨ Spec.FloatValue u)) ∨
      ∃ f n c r, Spec.numberLoose? w = some (f, n) ∧ w.drop n = c :: r ∧ (c = 'e'.toNat ∨ c = 'E'.toNat)) ∧
    (∀ u, ¬ (Spec.IntValue u ∧ Spec.FloatValue u)) := by
  refine ⟨fun f n h => ?_, fun h => ?_, Spec.int_float_disjoint⟩
  · have hl := (Spec.number_loose w).1 _ h
    obtain ⟨h1, h2, h3, h4⟩ := Spec.numberLoose_sound hl
    refine ⟨h1, h2, h3, h4, fun u t hw hu => ?_⟩
    obtain ⟨f', n', hn', hle⟩ := Spec.numberLoose_max (t := t) hu
    rw [← hw, hl] at hn'
    cases hn'
    exact hle
  · rcases (Spec.number_loose w).2 h with hn | hd
    · left
      intro u t hw hu
      obtain ⟨f', n', hn', _⟩ := Spec.numberLoose_max (t := t) hu
      rw [← hw, hn] at hn'
      cases hn'
    · exact .inr hd

/-- Non-vacuity: `-12.5e+3x` — the longest match is the Float `-12.5e+3`; `1e` is rejected by D1. -/
example : Spec.number? [45, 49, 50, 46, 53, 101, 43, 51, 120] = some (true, 8) ∧ Spec.number? [49, 101] = none ∧
    Spec.numberLoose? [49, 101] = some (false, 1) := by decide

/-! ## The error classes of the statement -/

/-- **non_source_character_error** — a valid UTF-8 text that contains a character outside
    SourceCharacter (a control character other than TAB/LF/CR, or a code point above U+FFFD/U+FFFF)
    anywhere — between tokens, in a comment, in a string, in a block string — always yields an error. -/
theorem non_source_character_error (b : Bool) (src : List Nat) (hv : ∀ r ∈ src, r < badBase)
    (h : ∃ c ∈ src, isSourceCharacter c = false) : (scanAll b src).2 ≠ [] := by
  have hs := scan_eq_spec b src hv
  have hno : ∀ ts, Spec.lexFrom src (src.length + 1) 0 ≠ .ok ts := by
    intro ts hok
    have := lexFrom_ok_source src _ 0 ts hok
    obtain ⟨c, hc, hns⟩ := h
    have := this c (by simpa using hc)
    rw [hns] at this; cases this
  unfold Spec.lexAll at hs
  cases hr : Spec.lexFrom src (src.length + 1) 0 with
  | ok ts => exact absurd hr (hno ts)
  | error ts =>
    rw [hr] at hs
    simp only [Spec.Res.filterIgnored] at hs
    exact hs.2

/-- **stray_character_errors** — one iteration of `Scan` on valid UTF-8 records an error when it stands
    at: a `.` that does not start `...`; a `-` not followed by a digit; a number directly followed by a
    dangling exponent indicator is covered by `number_eq_spec`; a U+FEFF that is not the first character
    of the text; any character that is not a SourceCharacter; any other character that starts no token
    (`%`, `~`, `\`, `'`, U+FFFD …). Unterminated strings and invalid escapes: `string_decode`. -/
theorem stray_character_errors (s : St) (hv : ∀ r ∈ s.rest, r < badBase) {c : Nat} {rest : List Nat}
    (hw : s.rest = c :: rest)
    (h : (c = 46 ∧ rest.take 2 ≠ [46, 46]) ∨
         (c = 45 ∧ ∀ d r, rest = d :: r → isDigit d = false) ∨
         (c = 0xFEFF ∧ s.off ≠ 0) ∨
         isSourceCharacter c = false ∨
         Spec.token? (s.off == 0) s.rest = none) :
    s.errs.length < (scanToken s).2.2.errs.length := by
  have hne : s.rest ≠ [] := by rw [hw]; simp
  have hspec := scanToken_spec s hv hne
  apply hspec.2
  rcases h with ⟨rfl, ht⟩ | ⟨rfl, hd⟩ | ⟨rfl, ho⟩ | hns | hn
  · rw [hw, spec_dot, if_neg ht]
  · rw [hw, spec_default _ rest (by decide) (by decide) (by decide) (by decide) (by decide) (by decide) (by decide)
      (by decide), if_pos (.inl rfl)]
    have : Spec.number? (45 :: rest) = none := by
      unfold Spec.number? Spec.integerPart?
      cases rest with
      | nil => simp [Spec.unsignedIntegerPart?]
      | cons d r =>
        have := hd d r rfl
        simp [unsigned_of_not_digit (by simpa using this)]
    rw [this]; rfl
  · rw [hw, spec_bom, if_neg (by simpa using ho)]
  · cases ht : Spec.token? (s.off == 0) s.rest with
    | none => rfl
    | some p =>
      obtain ⟨k, n, v⟩ := p
      exfalso
      obtain ⟨_, hn1, _, _⟩ := hspec.1 k n v ht
      have := token_source _ _ ht c (by
        rw [hw]
        cases n with
        | zero => omega
        | succ n => simp)
      rw [hns] at this; cases this
  · exact hn

end ApiFu.C07
