/-
  C07 — layout lemmas: lexing a rendered document token by token.
-/
import ApiFu.C07.Layout

namespace ApiFu.C07.Layout

open ApiFu.C07

/-! ## Lexing a text that is known piece by piece -/

/-- `rem` lexes (after any prefix `pre` already consumed) without error, and the non-ignored tokens have
    the kinds and values `out`. -/
def LexesTo (rem : List Nat) (out : List (Kind × List Nat × List Nat)) : Prop :=
  ∀ (pre : List Nat) (fuel : Nat), rem.length < fuel →
    ∃ ts, Spec.lexFrom (pre ++ rem) fuel pre.length = .ok ts ∧ proj (pre ++ rem) ts = out

theorem lexFrom_succ (src : List Nat) (fuel off : Nat) :
    Spec.lexFrom src (fuel + 1) off =
      match src.drop off with
      | [] => .ok []
      | rest =>
        match Spec.token? (off == 0) rest with
        | none => .error []
        | some (k, n, v) =>
          (Spec.lexFrom src fuel (off + n)).cons
            { kind := k, off := off, len := n, line := (Spec.position src off).1,
              col := (Spec.position src off).2, value := v } := by
  rw [Spec.lexFrom]
  cases src.drop off <;> rfl

theorem LexesTo.nil : LexesTo [] [] := by
  intro pre fuel hf
  cases fuel with
  | zero => simp at hf
  | succ fuel =>
    refine ⟨[], ?_, rfl⟩
    rw [lexFrom_succ]
    simp

/-- The start-of-text flag only matters for U+FEFF. -/
theorem token_flag (b : Bool) {c : Nat} (w : List Nat) (hc : c ≠ 0xFEFF) :
    Spec.token? b (c :: w) = Spec.token? false (c :: w) := by
  simp [Spec.token?, hc]

/-- One token `a` (of length ≥ 1, not starting with U+FEFF) in front of a text that lexes. -/
theorem LexesTo.step {a rem : List Nat} {k : Kind} {v : List Nat} {out : List (Kind × List Nat × List Nat)}
    {c : Nat} {a' : List Nat} (ha : a = c :: a') (hc : c ≠ 0xFEFF)
    (ht : Spec.token? false (a ++ rem) = some (k, a.length, v)) (hrest : LexesTo rem out) :
    LexesTo (a ++ rem) (if k.isIgnored then out else (k, a, v) :: out) := by
  intro pre fuel hf
  cases fuel with
  | zero => omega
  | succ fuel =>
    rw [lexFrom_succ, List.drop_left]
    have hne : a ++ rem = c :: (a' ++ rem) := by rw [ha]; rfl
    rw [hne] at ht ⊢
    simp only
    rw [token_flag _ _ hc, ht]
    simp only
    have hlen : 1 ≤ a.length := by rw [ha]; simp
    simp only [List.length_append] at hf
    obtain ⟨ts, hts, hp⟩ := hrest (pre ++ a) fuel (by omega)
    have hsrc : pre ++ c :: (a' ++ rem) = (pre ++ a) ++ rem := by rw [ha]; simp
    rw [hsrc, show pre.length + a.length = (pre ++ a).length by simp, hts]
    refine ⟨_, rfl, ?_⟩
    simp only [proj, List.filter_cons]
    cases hk : k.isIgnored with
    | true => simpa [proj] using hp
    | false =>
      simp [← hp, proj]

/-! ## Trivia -/

theorem TItem.text_ne_nil (i : TItem) : ∃ c a', i.text = c :: a' ∧ c ≠ 0xFEFF ∧
    (c = 32 ∨ c = 9 ∨ c = 44 ∨ c = 10 ∨ c = 13 ∨ c = 35) := by
  cases i <;> simp [TItem.text]

theorem TItem.isIgnored (i : TItem) : i.kind.isIgnored = true := by
  cases i <;> rfl

theorem takeWhile_append_stop (p : Nat → Bool) (body next : List Nat) (hb : body.all p = true)
    (hn : next = [] ∨ ∃ c r, next = c :: r ∧ p c = false) : (body ++ next).takeWhile p = body := by
  induction body with
  | nil =>
    rcases hn with rfl | ⟨c, r, rfl, hc⟩
    · rfl
    · simp [hc]
  | cons x xs ih =>
    simp only [List.all_cons, Bool.and_eq_true] at hb
    simp [hb.1, ih hb.2]

/-- Each trivia item, before a text it is fine before, is read as one ignored token of its length. -/
theorem TItem.token (i : TItem) (next : List Nat) (h : i.okBefore next) :
    Spec.token? false (i.text ++ next) = some (i.kind, i.text.length, []) := by
  cases i with
  | space => simpa [TItem.text, TItem.kind] using spec_ws false next (c := 32) (.inr rfl)
  | tab => simpa [TItem.text, TItem.kind] using spec_ws false next (c := 9) (.inl rfl)
  | comma => simpa [TItem.text, TItem.kind] using spec_comma false next
  | lf =>
    have := spec_lt false next (c := 10) (.inr rfl)
    simpa [TItem.text, TItem.kind] using this
  | cr =>
    have := spec_lt false next (c := 13) (.inl rfl)
    have hh : next.head? ≠ some 10 := h
    simpa [TItem.text, TItem.kind, hh] using this
  | crlf =>
    have := spec_lt false (10 :: next) (c := 13) (.inl rfl)
    simpa [TItem.text, TItem.kind] using this
  | comment body =>
    obtain ⟨hb, hn⟩ := h
    have hb1 : body.all (fun c => !Spec.isLineTerminatorChar c) = true := by
      rw [List.all_eq_true] at hb ⊢
      intro c hc; have := hb c hc; simp only [Bool.and_eq_true] at this; exact this.2
    have hb2 : body.all Spec.isSourceCharacter = true := by
      rw [List.all_eq_true] at hb ⊢
      intro c hc; have := hb c hc; simp only [Bool.and_eq_true] at this; exact this.1
    have htw : (body ++ next).takeWhile (fun c => !Spec.isLineTerminatorChar c) = body := by
      apply takeWhile_append_stop _ _ _ hb1
      rcases hn with rfl | hn | hn
      · exact .inl rfl
      · cases next with
        | nil => simp at hn
        | cons c r => simp at hn; subst hn; exact .inr ⟨10, r, rfl, by decide⟩
      · cases next with
        | nil => simp at hn
        | cons c r => simp at hn; subst hn; exact .inr ⟨13, r, rfl, by decide⟩
    have := spec_comment false (body ++ next)
    rw [htw, if_pos hb2] at this
    simpa [TItem.text, TItem.kind, Nat.add_comm] using this

theorem Trivia.lexes : ∀ (tr : Trivia) (after : List Nat) (out : List (Kind × List Nat × List Nat)),
    Trivia.WF tr after → LexesTo after out → LexesTo (Trivia.text tr ++ after) out
  | [], after, out, _, h => by simpa [Trivia.text] using h
  | i :: is, after, out, hwf, h => by
    obtain ⟨hi, his⟩ := hwf
    have ih := Trivia.lexes is after out his h
    obtain ⟨c, a', ha, hc, _⟩ := i.text_ne_nil
    have := LexesTo.step ha hc (TItem.token i _ hi) ih
    rw [i.isIgnored] at this
    simpa [Trivia.text, List.append_assoc] using this

end ApiFu.C07.Layout
