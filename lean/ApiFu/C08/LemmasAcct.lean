/-
  C08 — helper lemmas: Acct: per operation, what was queued plus what is about to be queued is exactly what is due (while no send has failed).
-/
import ApiFu.C08.LemmasGens
namespace ApiFu.C08

/-! ### G3e: accounting — what was queued or is about to be queued, per operation -/

def noFail (cfg : Cfg) (s : Sys) : Bool := !(cfg.sendFix && writerGone s)

def taskPending (t : Task) : List SFrame :=
  match t.pc with
  | .sendData ev => [.result t.id t.gen ev]
  | .sendComplete => [.complete t.id t.gen]
  | _ => []

def Out.isMark : Out → Bool
  | .started _ _ _ => true
  | .consumed _ _ => true
  | .returned _ => true
  | .recv .ping true => true
  | _ => false

/-- What the accounting depends on. -/
structure AcctAbs where
  enq : List SFrame
  pend : List SFrame
  tasks : List (Gen × Id × TaskPc)
  marks : List Out

def absA (s : Sys) : AcctAbs :=
  { enq := enqOf s.log, pend := pendingOf s.reader, tasks := s.tasks.map (fun t => (t.gen, t.id, t.pc)),
    marks := s.log.filter Out.isMark }

def consumedOf (g : Gen) (marks : List Out) : List Nat :=
  marks.filterMap fun | .consumed g' n => if g' == g then some n else none | _ => none

def returnedIn (g : Gen) (marks : List Out) : Bool := marks.contains (.returned g)

def pingCount (marks : List Out) : Nat := marks.count (.recv .ping true)

def pendOf (id : Id) (g : Gen) : TaskPc → List SFrame
  | .sendData ev => [.result id g ev]
  | .sendComplete => [.complete id g]
  | _ => []

def pongDue (cfg : Cfg) : Bool := cfg.proto == .tws && cfg.pingFix

def AcctA (cfg : Cfg) (a : AcctAbs) : Prop :=
  (∀ g id k, Out.started g id k ∈ a.marks → k ≠ .subscription →
      projGen g (a.enq ++ a.pend) = [.result id g 0, .complete id g]) ∧
  (∀ t ∈ a.tasks, projGen t.1 a.enq ++ pendOf t.2.1 t.1 t.2.2 =
      (consumedOf t.1 a.marks).map (.result t.2.1 t.1) ++ (if returnedIn t.1 a.marks then [.complete t.2.1 t.1] else [])) ∧
  (∀ t ∈ a.tasks, returnedIn t.1 a.marks = (t.2.2 == .sendComplete || t.2.2 == .done)) ∧
  ((a.enq ++ a.pend).count .pong = if pongDue cfg then pingCount a.marks else 0)

def Acct (cfg : Cfg) (s : Sys) : Prop := noFail cfg s = true → AcctA cfg (absA s)

theorem acct_init (cfg : Cfg) : Acct cfg init := by
  intro _
  simp [AcctA, absA, init, enqOf, pendingOf, projGen, pingCount]

theorem mem_marks {o : Out} {log : List Out} (h : o.isMark = true) : o ∈ log.filter Out.isMark ↔ o ∈ log := by
  simp [List.mem_filter, h]

@[simp] theorem projGen_append (g : Gen) (a b : List SFrame) : projGen g (a ++ b) = projGen g a ++ projGen g b := by
  simp [projGen]

theorem projGen_nil_of {g : Gen} {l : List SFrame} (h : ∀ f ∈ l, f.gen? ≠ some g) : projGen g l = [] := by
  unfold projGen
  apply List.filter_eq_nil_iff.mpr
  intro f hf; simp; exact h f hf


/-! Abstract moves -/

/-- O1: the reader queues a prefix of its pending messages (none of which belongs to a goroutine). -/
theorem acctA_readerSend {cfg : Cfg} {a : AcctAbs} (h : AcctA cfg a) {x y : List SFrame} (hp : a.pend = x ++ y)
    (hx : ∀ f ∈ x, ∀ t ∈ a.tasks, f.gen? ≠ some t.1) : AcctA cfg { a with enq := a.enq ++ x, pend := y } := by
  obtain ⟨a1, a2, a3, a4⟩ := h
  refine ⟨?_, ?_, a3, ?_⟩
  · intro g id k hm hk
    have := a1 g id k hm hk
    rw [hp] at this
    simpa [List.append_assoc] using this
  · intro t ht
    have := a2 t ht
    have hnil : projGen t.1 x = [] := projGen_nil_of (fun f hf => hx f hf t ht)
    simp only [projGen_append, hnil, List.append_nil]; exact this
  · rw [hp] at a4; simpa [List.append_assoc] using a4

/-- The marks grow by an entry that is none of the accounting marks' concern for existing operations. -/
theorem consumedOf_append (g : Gen) (m e : List Out) : consumedOf g (m ++ e) = consumedOf g m ++ consumedOf g e := by
  simp [consumedOf]

theorem returnedIn_append (g : Gen) (m e : List Out) : returnedIn g (m ++ e) = (returnedIn g m || returnedIn g e) := by
  simp [returnedIn]

theorem pingCount_append (m e : List Out) : pingCount (m ++ e) = pingCount m + pingCount e := by
  simp [pingCount]

/-- O2a: the reader gets messages to send that belong to no operation and are no pong; the marks grow
    by entries that concern no operation (a received frame other than an answerable ping). -/
theorem acctA_setPend_plain {cfg : Cfg} {a : AcctAbs} (h : AcctA cfg a) (hp : a.pend = []) {p : List SFrame}
    (hg : ∀ f ∈ p, f.gen? = none) (hpong : p.count .pong = 0) : AcctA cfg { a with pend := p } := by
  obtain ⟨a1, a2, a3, a4⟩ := h
  rw [hp] at a1 a4
  refine ⟨?_, a2, a3, ?_⟩
  · intro g id k hm hk
    have := a1 g id k hm hk
    have hnil : projGen g p = [] := projGen_nil_of (fun f hf => by rw [hg f hf]; simp)
    simp only [projGen_append, hnil, List.append_nil] at this ⊢; exact this
  · simp only [List.count_append, hpong] at a4 ⊢; simpa using a4

/-- O2b: an answerable ping: the mark and the pong. -/
theorem acctA_ping {cfg : Cfg} {a : AcctAbs} (h : AcctA cfg a) (hp : a.pend = []) (hd : pongDue cfg = true) :
    AcctA cfg { a with pend := [.pong], marks := a.marks ++ [.recv .ping true] } := by
  obtain ⟨a1, a2, a3, a4⟩ := h
  rw [hp] at a1 a4
  refine ⟨?_, ?_, ?_, ?_⟩
  · intro g id k hm hk
    have hm' : Out.started g id k ∈ a.marks := by
      rcases List.mem_append.mp hm with hm | hm
      · exact hm
      · simp at hm
    have := a1 g id k hm' hk
    simp only [projGen_append, List.append_nil] at this ⊢
    rw [this]; simp [projGen, SFrame.gen?]
  · intro t ht
    have := a2 t ht
    simp only [consumedOf_append, returnedIn_append]
    simpa [consumedOf, returnedIn] using this
  · intro t ht
    have := a3 t ht
    simp only [returnedIn_append]
    simpa [returnedIn] using this
  · simp only [List.count_append, hd, ite_true, pingCount_append] at a4 ⊢
    simp [pingCount] at a4 ⊢; omega

/-- The marks grow by a `recv ping true` although no pong is due (graphql-ws, or before fix 01). -/
theorem acctA_ping_noPong {cfg : Cfg} {a : AcctAbs} (h : AcctA cfg a) (hd : pongDue cfg = false) :
    AcctA cfg { a with marks := a.marks ++ [.recv .ping true] } := by
  obtain ⟨a1, a2, a3, a4⟩ := h
  refine ⟨?_, ?_, ?_, ?_⟩
  · intro g id k hm hk
    apply a1 g id k _ hk
    rcases List.mem_append.mp hm with hm | hm
    · exact hm
    · simp at hm
  · intro t ht
    have := a2 t ht
    simp only [consumedOf_append, returnedIn_append]
    simpa [consumedOf, returnedIn] using this
  · intro t ht
    have := a3 t ht
    simp only [returnedIn_append]
    simpa [returnedIn] using this
  · simp only [hd] at a4 ⊢; exact a4

/-- O2c: an operation answered on the read loop starts: its mark, and its two messages pending. -/
theorem acctA_startSync {cfg : Cfg} {a : AcctAbs} (h : AcctA cfg a) (hp : a.pend = []) {g : Gen} {id : Id} {k : OpKind}
    (hk : k ≠ .subscription) (hfresh : ∀ f ∈ a.enq, f.gen? ≠ some g) (hnew : ∀ id' k', Out.started g id' k' ∉ a.marks)
    (htask : ∀ t ∈ a.tasks, t.1 ≠ g) :
    AcctA cfg { a with pend := [.result id g 0, .complete id g], marks := a.marks ++ [.started g id k] } := by
  obtain ⟨a1, a2, a3, a4⟩ := h
  rw [hp] at a1 a4
  refine ⟨?_, ?_, ?_, ?_⟩
  · intro g' id' k' hm hk'
    rcases List.mem_append.mp hm with hm | hm
    · have hne : g' ≠ g := fun he => hnew id' k' (he ▸ hm)
      have := a1 g' id' k' hm hk'
      simp only [projGen_append, List.append_nil] at this ⊢
      rw [this]
      have : projGen g' [SFrame.result id g 0, SFrame.complete id g] = [] := by
        apply projGen_nil_of; intro f hf; simp at hf
        rcases hf with rfl | rfl <;> simp [SFrame.gen?] <;> exact fun he => hne he.symm
      rw [this]; simp
    · simp at hm; obtain ⟨rfl, rfl, rfl⟩ := hm
      simp only [projGen_append, projGen_nil_of hfresh, List.nil_append]
      simp [projGen, SFrame.gen?]
  · intro t ht
    have := a2 t ht
    simp only [consumedOf_append, returnedIn_append]
    simpa [consumedOf, returnedIn] using this
  · intro t ht
    have := a3 t ht
    simp only [returnedIn_append]
    simpa [returnedIn] using this
  · simp only [pingCount_append] at a4 ⊢
    simp [pingCount] at a4 ⊢; exact a4


def setPc (g : Gen) (pc : TaskPc) (t : Gen × Id × TaskPc) : Gen × Id × TaskPc := if t.1 == g then (t.1, t.2.1, pc) else t

theorem mem_setPc {ts : List (Gen × Id × TaskPc)} {g : Gen} {pc : TaskPc} {t : Gen × Id × TaskPc}
    (h : t ∈ ts.map (setPc g pc)) : ∃ t0 ∈ ts, t0.1 = t.1 ∧ t0.2.1 = t.2.1 ∧ ((t0.1 = g ∧ t.2.2 = pc) ∨ (t0.1 ≠ g ∧ t = t0)) := by
  obtain ⟨t0, h0, rfl⟩ := List.mem_map.mp h
  refine ⟨t0, h0, ?_⟩
  unfold setPc
  by_cases he : t0.1 = g
  · simp [he]
  · have : (t0.1 == g) = false := by simpa using he
    simp [this, he]

/-- O3: goroutine `g` gets its pending message `f` into the buffer and moves on to `pc'` (where
    nothing is pending). -/
theorem acctA_taskSend {cfg : Cfg} {a : AcctAbs} (h : AcctA cfg a) {g : Gen} {id : Id} {pc pc' : TaskPc} {f : SFrame}
    (hn : (a.tasks.map (·.1)).Nodup) (ht : (g, id, pc) ∈ a.tasks) (hf : pendOf id g pc = [f]) (hf' : pendOf id g pc' = [])
    (hfg : f.gen? = some g) (hpong : f ≠ .pong)
    (hsub : ∀ id' k, Out.started g id' k ∈ a.marks → k = .subscription)
    (hpc : (pc == .sendComplete || pc == .done) = (pc' == .sendComplete || pc' == .done)) :
    AcctA cfg { a with enq := a.enq ++ [f], tasks := a.tasks.map (setPc g pc') } := by
  obtain ⟨a1, a2, a3, a4⟩ := h
  refine ⟨?_, ?_, ?_, ?_⟩
  · intro g' id' k hm hk
    have hne : g' ≠ g := fun he => hk (hsub id' k (he ▸ hm))
    have := a1 g' id' k hm hk
    have hnil : projGen g' [f] = [] := projGen_nil_of (fun f' hf' => by simp at hf'; subst hf'; rw [hfg]; simp; exact fun he => hne he.symm)
    simp only [projGen_append, hnil, List.append_nil] at this ⊢; exact this
  · intro t htm
    obtain ⟨t0, h0, e1, e2, hc⟩ := mem_setPc htm
    have h2 := a2 t0 h0
    rcases hc with ⟨hg, hpc'⟩ | ⟨hg, rfl⟩
    · have : t0 = (g, id, pc) := by
        apply List.inj_on_of_nodup_map hn h0 ht; exact hg
      subst this
      simp only [] at e1 e2 h2
      rw [← e1, ← e2, hpc', hf']
      rw [hf] at h2
      have hp1 : projGen g [f] = [f] := by simp [projGen, hfg]
      simp only [projGen_append, hp1, List.append_nil]; exact h2
    · have hnil : projGen t.1 [f] = [] := projGen_nil_of (fun f' hf' => by simp at hf'; subst hf'; rw [hfg]; simp; exact fun he => hg he.symm)
      simp only [projGen_append, hnil, List.append_nil]; exact h2
  · intro t htm
    obtain ⟨t0, h0, e1, e2, hc⟩ := mem_setPc htm
    have h3 := a3 t0 h0
    rcases hc with ⟨hg, hpc'⟩ | ⟨hg, rfl⟩
    · have : t0 = (g, id, pc) := by
        apply List.inj_on_of_nodup_map hn h0 ht; exact hg
      subst this
      rw [← e1, hpc', ← hpc]; exact h3
    · exact h3
  · have : List.count SFrame.pong [f] = 0 := by simp [List.count_cons, hpong]
    simp only [List.count_append, this] at a4 ⊢; simpa using a4

/-- O4: `Run` of goroutine `g` returns: the mark, and its complete pending. -/
theorem acctA_returned {cfg : Cfg} {a : AcctAbs} (h : AcctA cfg a) {g : Gen} {id : Id}
    (hn : (a.tasks.map (·.1)).Nodup) (ht : (g, id, .select) ∈ a.tasks) :
    AcctA cfg { a with tasks := a.tasks.map (setPc g .sendComplete), marks := a.marks ++ [.returned g] } := by
  obtain ⟨a1, a2, a3, a4⟩ := h
  have hnot : returnedIn g a.marks = false := (a3 _ ht).trans rfl
  refine ⟨?_, ?_, ?_, ?_⟩
  · intro g' id' k hm hk
    apply a1 g' id' k _ hk
    rcases List.mem_append.mp hm with hm | hm
    · exact hm
    · simp at hm
  · intro t htm
    obtain ⟨t0, h0, e1, e2, hc⟩ := mem_setPc htm
    have h2 := a2 t0 h0
    simp only [consumedOf_append, returnedIn_append]
    rcases hc with ⟨hg, hpc'⟩ | ⟨hg, rfl⟩
    · have : t0 = (g, id, .select) := by
        apply List.inj_on_of_nodup_map hn h0 ht; exact hg
      subst this
      simp only [] at e1 e2 h2
      rw [← e1, ← e2, hpc']
      simp only [hnot, pendOf] at h2 ⊢
      simp [consumedOf, returnedIn] at h2 ⊢
      rw [h2]
    · have : returnedIn t.1 [Out.returned g] = false := by simp [returnedIn]; exact fun he => hg he
      simp only [this, Bool.or_false]
      simpa [consumedOf] using h2
  · intro t htm
    obtain ⟨t0, h0, e1, e2, hc⟩ := mem_setPc htm
    have h3 := a3 t0 h0
    simp only [returnedIn_append]
    rcases hc with ⟨hg, hpc'⟩ | ⟨hg, rfl⟩
    · rw [← e1, hg, hpc']; simp [returnedIn]
    · have : returnedIn t.1 [Out.returned g] = false := by simp [returnedIn]; exact fun he => hg he
      simp only [this, Bool.or_false]; exact h3
  · simp only [pingCount_append] at a4 ⊢
    simp [pingCount] at a4 ⊢; exact a4

/-- O5: goroutine `g` receives event `n`. -/
theorem acctA_consume {cfg : Cfg} {a : AcctAbs} (h : AcctA cfg a) {g : Gen} {id : Id} {n : Nat}
    (hn : (a.tasks.map (·.1)).Nodup) (ht : (g, id, .select) ∈ a.tasks) :
    AcctA cfg { a with tasks := a.tasks.map (setPc g (.sendData n)), marks := a.marks ++ [.consumed g n] } := by
  obtain ⟨a1, a2, a3, a4⟩ := h
  have hnot : returnedIn g a.marks = false := (a3 _ ht).trans rfl
  refine ⟨?_, ?_, ?_, ?_⟩
  · intro g' id' k hm hk
    apply a1 g' id' k _ hk
    rcases List.mem_append.mp hm with hm | hm
    · exact hm
    · simp at hm
  · intro t htm
    obtain ⟨t0, h0, e1, e2, hc⟩ := mem_setPc htm
    have h2 := a2 t0 h0
    simp only [consumedOf_append, returnedIn_append]
    rcases hc with ⟨hg, hpc'⟩ | ⟨hg, rfl⟩
    · have : t0 = (g, id, .select) := by
        apply List.inj_on_of_nodup_map hn h0 ht; exact hg
      subst this
      simp only [] at e1 e2 h2
      rw [← e1, ← e2, hpc']
      simp only [hnot, pendOf] at h2 ⊢
      simp [consumedOf, returnedIn] at h2 ⊢
      rw [h2]
    · have : consumedOf t.1 [Out.consumed g n] = [] := by
        simp [consumedOf]; exact fun he => hg he.symm
      simp only [this, List.append_nil]
      simpa [returnedIn] using h2
  · intro t htm
    obtain ⟨t0, h0, e1, e2, hc⟩ := mem_setPc htm
    have h3 := a3 t0 h0
    simp only [returnedIn_append]
    rcases hc with ⟨hg, hpc'⟩ | ⟨hg, rfl⟩
    · rw [← e1, hg, hpc', hnot]; simp [returnedIn]
    · simpa [returnedIn] using h3
  · simp only [pingCount_append] at a4 ⊢
    simp [pingCount] at a4 ⊢; exact a4

/-- O6: a new subscription: its mark and its goroutine; nothing queued, consumed or returned for it yet. -/
theorem acctA_addTask {cfg : Cfg} {a : AcctAbs} (h : AcctA cfg a) {g : Gen} {id : Id}
    (hfresh : ∀ f ∈ a.enq, f.gen? ≠ some g) (hmarks : ∀ o ∈ a.marks, o.gen? ≠ some g) :
    AcctA cfg { a with tasks := a.tasks ++ [(g, id, .select)], marks := a.marks ++ [.started g id .subscription] } := by
  obtain ⟨a1, a2, a3, a4⟩ := h
  have hc : consumedOf g a.marks = [] := by
    unfold consumedOf
    apply List.filterMap_eq_nil_iff.mpr
    intro o ho
    cases o <;> simp
    rename_i g' n
    intro he; exact hmarks _ ho (by simp [Out.gen?, he])
  have hr : returnedIn g a.marks = false := by
    simp only [returnedIn, List.contains_eq_mem, decide_eq_false_iff_not]
    intro hm; exact hmarks _ hm rfl
  refine ⟨?_, ?_, ?_, ?_⟩
  · intro g' id' k hm hk
    apply a1 g' id' k _ hk
    rcases List.mem_append.mp hm with hm | hm
    · exact hm
    · simp at hm; exact absurd hm.2.2 hk
  · intro t htm
    simp only [consumedOf_append, returnedIn_append]
    rcases List.mem_append.mp htm with htm | htm
    · simpa [consumedOf, returnedIn] using a2 t htm
    · simp at htm; subst htm
      have e1 : consumedOf g [Out.started g id OpKind.subscription] = [] := rfl
      have e2 : returnedIn g [Out.started g id OpKind.subscription] = false := by simp [returnedIn]
      simp only [hc, hr, e1, e2, projGen_nil_of hfresh, pendOf]
      simp
  · intro t htm
    simp only [returnedIn_append]
    rcases List.mem_append.mp htm with htm | htm
    · simpa [returnedIn] using a3 t htm
    · simp at htm; subst htm
      have e2 : returnedIn g [Out.started g id OpKind.subscription] = false := by simp [returnedIn]
      simp only [hr, e2]; decide
  · simp only [pingCount_append] at a4 ⊢
    simp [pingCount] at a4 ⊢; exact a4


/-! Concrete primitives on the accounting abstraction -/

theorem absA_emit (s : Sys) (o : Out) (h1 : o.isMark = false) (h2 : ∀ f, o ≠ .queued f) : absA (emit s o) = absA s := by
  have e1 : enqOf [o] = [] := by cases o <;> simp_all [enqOf]
  simp [absA, emit, enqOf_append, e1, List.filter_append, List.filter_cons, h1]

theorem absA_emit_mark (s : Sys) (o : Out) (h1 : o.isMark = true) :
    absA (emit s o) = { absA s with marks := (absA s).marks ++ [o] } := by
  have e1 : enqOf [o] = [] := by cases o <;> simp_all [enqOf, Out.isMark]
  simp [absA, emit, enqOf_append, e1, List.filter_append, List.filter_cons, h1]

theorem absA_eq_of {s s' : Sys} (h1 : s'.log = s.log) (h2 : pendingOf s'.reader = pendingOf s.reader)
    (h3 : s'.tasks.map (fun t => (t.gen, t.id, t.pc)) = s.tasks.map (fun t => (t.gen, t.id, t.pc))) : absA s' = absA s := by
  simp [absA, h1, h2, h3]

theorem absA_beginClosing (s : Sys) (c : Nat) : absA (beginClosing s c) = absA s := by
  have b := beginClosing_same s c
  exact absA_eq_of b.1 (by rw [b.2.1]) (by rw [b.2.2.2.1])

theorem map_setTask_pcSame (ts : List Task) (g : Gen) (f : Task → Task)
    (hf : ∀ t, (f t).gen = t.gen ∧ (f t).id = t.id ∧ (f t).pc = t.pc) :
    (setTask ts g f).map (fun t => (t.gen, t.id, t.pc)) = ts.map (fun t => (t.gen, t.id, t.pc)) := by
  simp only [setTask, List.map_map]
  apply List.map_congr_left
  intro t _
  simp only [Function.comp]
  split
  · simp [hf t]
  · rfl

theorem map_setTask_pc (ts : List Task) (g : Gen) (pc : TaskPc) :
    (setTask ts g (fun t => { t with pc := pc })).map (fun t => (t.gen, t.id, t.pc)) =
    (ts.map (fun t => (t.gen, t.id, t.pc))).map (setPc g pc) := by
  simp only [setTask, List.map_map]
  apply List.map_congr_left
  intro t _
  simp only [Function.comp, setPc]
  split <;> rfl

theorem absA_callStop (s : Sys) (g : Gen) : absA (callStop s g) = absA s := by
  unfold callStop
  rw [absA_emit _ _ rfl (by intro f he; cases he)]
  exact absA_eq_of rfl rfl (map_setTask_pcSame _ _ _ (fun _ => ⟨rfl, rfl, rfl⟩))

theorem absA_stopAll (l : List (Id × Gen)) : ∀ s : Sys, absA (stopAll s l) = absA s := by
  induction l with
  | nil => intro s; rfl
  | cons p rest ih => intro s; unfold stopAll; rw [ih, absA_callStop]

theorem absA_handleClose (s : Sys) : absA (handleClose s) = absA s := by
  unfold handleClose
  simp only []
  split
  · rw [absA_emit _ _ rfl (by intro f he; cases he)]
    exact (absA_eq_of rfl rfl rfl).trans (absA_stopAll _ _)
  · exact (absA_eq_of rfl rfl rfl).trans (absA_stopAll _ _)

theorem absA_finishClosing (s : Sys) : absA (finishClosing s) = absA s := by
  unfold finishClosing; split
  · rfl
  · exact (absA_handleClose _).trans (absA_eq_of rfl rfl rfl)

theorem absA_admitSub {cfg : Cfg} {s s' : Sys} {id : Id} (h : admitSub cfg s id = some s') : absA s' = absA s := by
  unfold admitSub at h
  split at h
  · cases h; rfl
  · split at h
    · cases h; exact (absA_callStop _ _).trans (absA_eq_of rfl rfl rfl)
    · cases h

theorem noFail_false_of {cfg : Cfg} {s : Sys} (h : noFail cfg s = true) : ¬ (cfg.sendFix = true ∧ writerGone s = true) := by
  unfold noFail at h
  intro ⟨h1, h2⟩; simp [h1, h2] at h

/-- The reader works off `p` (no send fails): what was queued plus what stays pending is `p`. -/
theorem acct_pump {cfg : Cfg} {s : Sys} (hnf : noFail cfg s = true) {p : List SFrame} (fc : Bool) (tc : Option Nat)
    (h : AcctA cfg { absA s with pend := p }) (hx : ∀ f ∈ p, ∀ t ∈ s.tasks, f.gen? ≠ some t.gen) :
    AcctA cfg (absA (pump cfg s p fc tc)) := by
  obtain ⟨a, b, e1, e2, e3, _, _, _, _, _, e9⟩ := pump_spec cfg p fc tc s
  have hpend : pendingOf (pump cfg s p fc tc).reader = b := by
    rcases e9 with ⟨r, _, _⟩ | ⟨r, hb | hb⟩
    · rw [r]; rfl
    · rw [r, hb]; rfl
    · exact absurd hb (noFail_false_of hnf)
  have : absA (pump cfg s p fc tc) = { absA s with enq := (absA s).enq ++ a, pend := b } := by
    simp only [absA, e2, e3, hpend, enqOf_append, enqOf_map_queued, List.filter_append]
    have : List.filter Out.isMark (List.map Out.queued a) = [] := by
      apply List.filter_eq_nil_iff.mpr; intro o ho; obtain ⟨f, _, rfl⟩ := List.mem_map.mp ho; simp [Out.isMark]
    simp [this]
  rw [this]
  apply acctA_readerSend (a := { absA s with pend := p }) h e1
  intro f hf t ht
  obtain ⟨t0, h0, rfl⟩ := List.mem_map.mp ht
  exact hx f (by rw [e1]; exact List.mem_append_left _ hf) t0 h0


theorem task_sub_only {s : Sys} {p : List SFrame} (hg : GensP s p) {t : Task} (ht : t ∈ s.tasks) {id' : Id} {k : OpKind}
    (hm : Out.started t.gen id' k ∈ s.log) : k = .subscription :=
  (hg.2.2.1 _ _ _ _ _ hm (hg.2.2.2 t ht)).2

theorem sync_not_task {s : Sys} {p : List SFrame} (hg : GensP s p) {g : Gen} (hs : IsSync s.log g) : ∀ t ∈ s.tasks, t.gen ≠ g := by
  intro t ht he
  obtain ⟨id, k, hm, hk⟩ := hs
  exact hk (task_sub_only hg ht (he ▸ hm))

theorem pend_not_task {s : Sys} {p : List SFrame} (hg : GensP s p) : ∀ f ∈ p, ∀ t ∈ s.tasks, f.gen? ≠ some t.gen := by
  intro f hf t ht he
  exact sync_not_task hg (hg.2.1 f hf t.gen he) t ht rfl

theorem writerGone_writerStep (s : Sys) (pick : WPick) (h : writerGone s = true) : writerGone (writerStep s pick) = true := by
  unfold writerStep
  cases hw : s.writer with
  | loop => simp [writerGone, hw] at h
  | draining c => simp [writerGone, hw] at h
  | closeWait => simp [writerGone, hw] at h
  | exited => simp only []; split <;> simp [writerGone, hw]
  | finished => simp [writerGone, hw]

theorem fields_writer {s s' : Sys} (h : ctlFields s' = ctlFields s) : s'.writer = s.writer := by
  unfold ctlFields at h; exact (Prod.mk.inj h).1

theorem pump_writer (cfg : Cfg) (s : Sys) (p : List SFrame) (fc : Bool) (tc : Option Nat) :
    (pump cfg s p fc tc).writer = s.writer := by
  obtain ⟨_, _, _, _, _, _, _, _, e7, _⟩ := pump_spec cfg p fc tc s; exact e7

theorem handle_writer (cfg : Cfg) (s : Sys) (f : CFrame) : (handle cfg s f).writer = s.writer := by
  have bc : ∀ (s1 : Sys) c, (beginClosing s1 c).writer = s1.writer := fun s1 c => (beginClosing_same s1 c).2.2.2.2.2.1
  unfold handle
  cases f with
  | close => simp only []; unfold readerExit; exact bc _ _
  | malformed => simp only []; split; rfl; exact bc _ _
  | init ok =>
    cases ok <;> simp only [] <;> split
    · exact pump_writer _ _ _ _ _
    · exact bc _ _
    · exact pump_writer _ _ _ _ _
    · exact pump_writer _ _ _ _ _
  | start id k =>
    simp only []
    split
    · rfl
    · rw [pump_writer]; exact fields_writer (ctlFields_handleStart _ _ _ _ _)
  | startBad id => simp only []; split; rfl; split; rfl; exact bc _ _
  | stop id => simp only []; split; rfl; exact fields_writer (ctlFields_handleStop _ _)
  | ping =>
    simp only []; split; rfl
    split
    · split; rfl; exact pump_writer _ _ _ _ _
    · exact bc _ _
  | pong => rfl
  | terminate => simp only []; split <;> exact bc _ _
  | unknown => simp only []; split; rfl; exact bc _ _

theorem trySend_writer (cfg : Cfg) (s : Sys) (f : SFrame) : (trySend cfg s f).1.writer = s.writer := by
  rcases trySend_spec cfg s f with ⟨_, h2, _⟩ | ⟨_, h2, _⟩ | ⟨_, h2, _⟩ <;> rw [h2] <;> rfl

theorem subTaskStep_writer (cfg : Cfg) (s : Sys) (g : Gen) : (subTaskStep cfg s g).writer = s.writer := by
  unfold subTaskStep
  split
  · rfl
  · split
    · split <;> rfl
    · split
      · rename_i s' heq; have h1 := congrArg Prod.fst heq; simp at h1; rw [← h1]; exact trySend_writer _ _ _
      · rename_i s' r _ heq; have h1 := congrArg Prod.fst heq; simp at h1; show s'.writer = _; rw [← h1]; exact trySend_writer _ _ _
    · split
      · rename_i s' heq; have h1 := congrArg Prod.fst heq; simp at h1; rw [← h1]; exact trySend_writer _ _ _
      · rename_i s' r _ heq; have h1 := congrArg Prod.fst heq; simp at h1; show s'.writer = _; rw [← h1]; exact trySend_writer _ _ _
    · rfl

theorem finishClosing_writer (s : Sys) : (finishClosing s).writer = s.writer := by
  have h1 := ctlFields_stopAll { s with finishOnce := true } s.subs
  unfold finishClosing handleClose
  split
  · rfl
  · simp only []
    have := fields_writer h1
    split <;> exact this

theorem gone_mono (cfg : Cfg) (s : Sys) (e : Ev) (h : writerGone s = true) : writerGone (stepS cfg s e) = true := by
  have key : ∀ s' : Sys, s'.writer = s.writer → writerGone s' = true := by
    intro s' hw; unfold writerGone at *; rw [hw]; exact h
  unfold stepS
  cases e with
  | client f => simp only []; split; exact key _ (handle_writer _ _ _); exact h
  | source g e =>
    apply key; show (sourceStep s g e).writer = _
    unfold sourceStep; split; rfl; split; rfl; split <;> rfl
  | readerStep =>
    simp only []
    split
    · split
      · apply key; unfold readerExit; exact (beginClosing_same s 1011).2.2.2.2.2.1
      · exact h
    · exact key _ (pump_writer _ _ _ _ _)
    · exact h
  | writerStep pick => exact writerGone_writerStep s pick h
  | subTaskStep g => exact key _ (subTaskStep_writer _ _ _)
  | netDrop => exact key _ rfl
  | serverClose =>
    simp only []
    split
    · apply key
      show (beginClosing _ 1000).writer = _
      rw [(beginClosing_same _ 1000).2.2.2.2.2.1]; split <;> rfl
    · split
      · exact key _ (finishClosing_writer s)
      · exact h
    · exact h

theorem noFail_mono {cfg : Cfg} {s : Sys} {e : Ev} (h : noFail cfg (stepS cfg s e) = true) : noFail cfg s = true := by
  unfold noFail at *
  cases hf : cfg.sendFix <;> simp [hf] at h ⊢
  cases hg : writerGone s with
  | false => rfl
  | true => rw [gone_mono cfg s e hg] at h; cases h


theorem taskGens_nodup {s : Sys} (hb : Book s) : ((absA s).tasks.map (·.1)).Nodup := by
  have := hb.2.2.1
  simpa [absA, absBook, List.map_map, Function.comp_def] using this

theorem mem_absA_tasks {s : Sys} {t : Task} (h : t ∈ s.tasks) : (t.gen, t.id, t.pc) ∈ (absA s).tasks :=
  List.mem_map.mpr ⟨t, h, rfl⟩

theorem absA_startSync (s1 : Sys) (g : Gen) (id : Id) (k : OpKind) (e : Bool) :
    absA (startSync s1 g id k e).1 = { absA s1 with marks := (absA s1).marks ++ [.started g id k] } := by
  unfold startSync
  cases e
  · show absA (emit s1 (.started g id k)) = _
    exact absA_emit_mark _ _ rfl
  · show absA (emit (emit s1 (.started g id k)) (.exec g k)) = _
    rw [absA_emit _ _ rfl (by intro f' he'; cases he'), absA_emit_mark _ _ rfl]

theorem startSync_snd (s1 : Sys) (g : Gen) (id : Id) (k : OpKind) (e : Bool) :
    (startSync s1 g id k e).2 = [.result id g 0, .complete id g] := rfl

theorem startSync_tasks (s1 : Sys) (g : Gen) (id : Id) (k : OpKind) (e : Bool) :
    (startSync s1 g id k e).1.tasks = s1.tasks ∧ writerGone (startSync s1 g id k e).1 = writerGone s1 := by
  unfold startSync; cases e <;> exact ⟨rfl, rfl⟩

theorem absA_pump_nil (cfg : Cfg) (s1 : Sys) (fc : Bool) (hp : pendingOf s1.reader = []) :
    absA (pump cfg s1 [] fc none) = absA s1 := by
  unfold pump doneSending
  exact absA_eq_of rfl (by show ([] : List SFrame) = _; exact hp.symm) rfl

theorem absA_startSub (s1 : Sys) (g : Gen) (id : Id) :
    absA (startSub s1 g id) =
      { enq := (absA s1).enq, pend := (absA s1).pend, tasks := (absA s1).tasks ++ [(g, id, .select)],
        marks := (absA s1).marks ++ [.started g id .subscription] } := by
  unfold startSub
  simp [absA, emit, List.filter_append, List.filter_cons, enqOf, Out.isMark]

theorem absA_handleStop (s : Sys) (id : Id) : absA (handleStop s id) = absA s := by
  unfold handleStop; split
  · rfl
  · exact (absA_callStop _ _).trans (absA_eq_of rfl rfl rfl)

/-- HandleStart for a fresh operation `g`, followed by the sends. -/
theorem acct_handleStart {cfg : Cfg} {s2 : Sys} {g : Gen} (hb : Book s2) (hbel : Below s2 g) (hnf : noFail cfg s2 = true)
    (h : AcctA cfg (absA s2)) (hp : pendingOf s2.reader = []) (id : Id) (k : OpKind) :
    AcctA cfg (absA (pump cfg (handleStart cfg s2 g id k).1 (handleStart cfg s2 g id k).2 false none)) := by
  have fresh : ∀ s' : Sys, absA s' = absA s2 →
      (∀ f' ∈ (absA s').enq, f'.gen? ≠ some g) ∧ (∀ o ∈ (absA s').marks, o.gen? ≠ some g) ∧
      (∀ t ∈ (absA s').tasks, t.1 ≠ g) := by
    intro s' ha
    rw [ha]
    refine ⟨?_, ?_, ?_⟩
    · intro f' hf' he'; exact Nat.lt_irrefl _ (hbel.1 _ (mem_enqOf.mp hf') g he')
    · intro o ho he'; exact Nat.lt_irrefl _ (hbel.1 o (List.mem_filter.mp ho).1 g he')
    · intro t ht he'
      obtain ⟨t0, h0, rfl⟩ := List.mem_map.mp ht
      exact Nat.lt_irrefl _ (he' ▸ hbel.2 t0 h0)
  have sync : ∀ (s1 : Sys) (e : Bool), absA s1 = absA s2 → writerGone s1 = writerGone s2 → k ≠ .subscription →
      AcctA cfg (absA (pump cfg (startSync s1 g id k e).1 (startSync s1 g id k e).2 false none)) := by
    intro s1 e ha hw hk
    obtain ⟨f1, f2, f3⟩ := fresh s1 ha
    have hp1 : (absA s1).pend = [] := by rw [ha]; exact hp
    have h1 : AcctA cfg (absA s1) := by rw [ha]; exact h
    apply acct_pump (by unfold noFail at *; rw [(startSync_tasks s1 g id k e).2, hw]; exact hnf) false none
    · rw [absA_startSync, startSync_snd]
      exact acctA_startSync h1 hp1 hk f1 (fun id' k' hm => f2 _ hm rfl) f3
    · intro f' hf' t ht' he'
      rw [startSync_snd] at hf'
      rw [(startSync_tasks s1 g id k e).1] at ht'
      have : f'.gen? = some g := by simp at hf'; rcases hf' with rfl | rfl <;> rfl
      rw [this] at he'; simp at he'
      exact f3 _ (mem_absA_tasks ht') he'.symm
  have admitted : ∀ s', admitSub cfg s2 id = some s' → absA s' = absA s2 ∧ writerGone s' = writerGone s2 := by
    intro s' ha
    refine ⟨absA_admitSub ha, ?_⟩
    have := fields_writer (ctlFields_admitSub _ _ _ _ ha)
    unfold writerGone; rw [this]
  unfold handleStart
  cases k <;> simp only []
  · exact sync _ _ rfl rfl (by simp)
  · exact sync _ _ rfl rfl (by simp)
  · split
    · rw [absA_pump_nil _ _ _ hp]; exact h
    · rename_i s' ha
      obtain ⟨a1, a2⟩ := admitted s' ha
      obtain ⟨f1, f2, f3⟩ := fresh s' a1
      have hp' : pendingOf (startSub s' g id).reader = [] := by
        have := congrArg AcctAbs.pend a1; simp only [absA] at this
        show pendingOf s'.reader = []; rw [this]; exact hp
      rw [absA_pump_nil _ _ _ hp', absA_startSub]
      exact acctA_addTask (a := absA s') (id := id) (by rw [a1]; exact h) f1 f2
  · split
    · rw [absA_pump_nil _ _ _ hp]; exact h
    · rename_i s' ha
      obtain ⟨a1, a2⟩ := admitted s' ha
      exact sync s' _ a1 a2 (by simp)
  · exact sync _ _ rfl rfl (by simp)

theorem acct_handle {cfg : Cfg} {s : Sys} (hb : Book s) (hg : Gens s) (hnf : noFail cfg s = true)
    (h : AcctA cfg (absA s)) (hr : s.reader = .reading) (f : CFrame) : AcctA cfg (absA (handle cfg s f)) := by
  have hp0 : pendingOf s.reader = [] := by rw [hr]; rfl
  have hpend : (absA s).pend = [] := hp0
  -- the state after logging the receipt, when that is no accounting mark
  have he : ∀ d, (Out.recv f d).isMark = false → absA (emit s (.recv f d)) = absA s :=
    fun d hm => absA_emit _ _ hm (by intro f' he; cases he)
  have bc : ∀ (s1 : Sys) c, AcctA cfg (absA s1) → AcctA cfg (absA (beginClosing s1 c)) :=
    fun s1 c h1 => by rw [absA_beginClosing]; exact h1
  have plainPump : ∀ (s1 : Sys) (p : List SFrame) fc tc, absA s1 = absA s → s1.tasks = s.tasks → writerGone s1 = writerGone s →
      (∀ f ∈ p, f.gen? = none) → p.count .pong = 0 → AcctA cfg (absA (pump cfg s1 p fc tc)) := by
    intro s1 p fc tc ha ht hw hgn hpong
    apply acct_pump (by unfold noFail at *; rw [hw]; exact hnf) fc tc
    · rw [ha]; exact acctA_setPend_plain h hpend hgn hpong
    · intro f' hf' t _; rw [hgn f' hf']; simp
  unfold handle
  cases f with
  | close =>
    simp only []; unfold readerExit
    have b := beginClosing_same { emit s (.recv CFrame.close s.didInit) with closeRecv := true } 1011
    have : absA { beginClosing { emit s (.recv CFrame.close s.didInit) with closeRecv := true } 1011 with reader := .done } =
        absA (emit s (.recv CFrame.close s.didInit)) :=
      absA_eq_of (by show (beginClosing _ 1011).log = _; rw [b.1])
        (by show ([] : List SFrame) = pendingOf s.reader; exact hp0.symm)
        (by show (beginClosing _ 1011).tasks.map _ = _; rw [b.2.2.2.1])
    rw [this, he _ rfl]; exact h
  | malformed => simp only []; rw [← he s.didInit rfl] at h; split; exact h; exact bc _ _ h
  | init ok =>
    cases ok <;> simp only [] <;> split
    · exact plainPump _ _ _ _ (he _ rfl) rfl rfl (by simp [SFrame.gen?]) (by simp)
    · rw [← he s.didInit rfl] at h; exact bc _ _ h
    · exact plainPump { emit s _ with didInit := true } _ _ _ ((absA_eq_of rfl rfl rfl).trans (he _ rfl)) rfl rfl (by simp [SFrame.gen?]) (by simp)
    · exact plainPump { emit s _ with didInit := true } _ _ _ ((absA_eq_of rfl rfl rfl).trans (he _ rfl)) rfl rfl (by simp [SFrame.gen?]) (by simp)
  | start id k =>
    simp only []
    have e2 : absA { emit s (.recv (CFrame.start id k) s.didInit) with nextGen := s.nextGen + 1 } = absA s :=
      (absA_eq_of rfl rfl rfl).trans (he _ rfl)
    have h2 : AcctA cfg (absA { emit s (.recv (CFrame.start id k) s.didInit) with nextGen := s.nextGen + 1 }) := by
      rw [e2]; exact h
    split
    · exact h2
    · have hbel : Below { emit s (.recv (CFrame.start id k) s.didInit) with nextGen := s.nextGen + 1 } s.nextGen := by
        constructor
        · intro o ho g' hg'
          rcases List.mem_append.mp ho with ho | ho
          · exact hg.1 o ho g' hg'
          · simp at ho; subst ho; cases hg'
        · exact book_taskLt hb
      have hb' : Book { emit s (.recv (CFrame.start id k) s.didInit) with nextGen := s.nextGen + 1 } :=
        book_weaken (book_of_abs (absBook_emit _ _ rfl) hb) rfl rfl rfl (Nat.le_succ _) rfl (fun x => x) (fun x => x)
      exact acct_handleStart hb' hbel hnf h2 hp0 id k
  | startBad id =>
    simp only []; rw [← he s.didInit rfl] at h; split; exact h; split; exact h; exact bc _ _ h
  | stop id =>
    simp only []
    rw [← he s.didInit rfl] at h
    split; exact h
    rw [absA_handleStop]; exact h
  | ping =>
    simp only []
    cases hd : s.didInit with
    | false =>
      rw [← he false rfl] at h
      split; exact h
      split
      · simp [emit, hd]; exact h
      · exact bc _ _ h
    | true =>
      have hm : absA (emit s (.recv .ping true)) = { absA s with marks := (absA s).marks ++ [.recv .ping true] } :=
        absA_emit_mark _ _ rfl
      cases hpx : cfg.proto with
      | ws =>
        simp only []
        rw [hm]; exact acctA_ping_noPong h (by simp [pongDue, hpx])
      | tws =>
        simp only []
        cases hpf : cfg.pingFix with
        | false =>
          simp only [Bool.false_eq_true, ite_false]
          apply bc; rw [hm]; exact acctA_ping_noPong h (by simp [pongDue, hpf])
        | true =>
          simp only [ite_true]
          split
          · rename_i hx; simp [emit, hd] at hx
          · apply acct_pump (s := emit s (.recv .ping true)) hnf false none
            · rw [hm]; exact acctA_ping h hpend (by simp [pongDue, hpx, hpf])
            · intro f' hf' t _; simp at hf'; subst hf'; simp [SFrame.gen?]
  | pong => rw [he _ rfl]; exact h
  | terminate => simp only []; rw [← he s.didInit rfl] at h; split <;> exact bc _ _ h
  | unknown => simp only []; rw [← he s.didInit rfl] at h; split; exact h; exact bc _ _ h


theorem absA_setPc (s1 : Sys) (g : Gen) (pc : TaskPc) :
    absA { s1 with tasks := setTask s1.tasks g (fun t => { t with pc := pc }) } =
      { enq := (absA s1).enq, pend := (absA s1).pend, tasks := (absA s1).tasks.map (setPc g pc), marks := (absA s1).marks } := by
  simp only [absA, map_setTask_pc]

theorem acct_subTaskStep {cfg : Cfg} {s : Sys} (hb : Book s) (hg : Gens s) (hnf : noFail cfg s = true)
    (h : AcctA cfg (absA s)) (g : Gen) : AcctA cfg (absA (subTaskStep cfg s g)) := by
  unfold subTaskStep
  split
  · exact h
  · rename_i t hft
    obtain ⟨htm, htg⟩ := findTask_some hft
    have hn := taskGens_nodup hb
    have hmem := mem_absA_tasks htm
    have hsub : ∀ id' k, Out.started g id' k ∈ (absA s).marks → k = .subscription := by
      intro id' k hm
      exact task_sub_only hg htm (htg ▸ (List.mem_filter.mp hm).1)
    -- a send of the goroutine's pending message
    have send : ∀ (f : SFrame) (pc' : TaskPc), pendOf t.id g t.pc = [f] → pendOf t.id g pc' = [] → f.gen? = some g → f ≠ .pong →
        (t.pc == .sendComplete || t.pc == .done) = (pc' == .sendComplete || pc' == .done) →
        AcctA cfg (absA (match trySend cfg s f with
          | (s', .blocked) => s'
          | (s', _) => { s' with tasks := setTask s'.tasks g (fun t => { t with pc := pc' }) })) := by
      intro f pc' hf hf' hfg hpong hpc
      rcases trySend_spec cfg s f with ⟨h1, h2, _⟩ | ⟨h1, h2, h3, h4⟩ | ⟨h1, h2, _⟩
      · rw [show trySend cfg s f = (emit { s with outgoing := s.outgoing ++ [f] } (.queued f), .ok) from Prod.ext h2 h1]
        simp only []
        have e1 : absA (emit { s with outgoing := s.outgoing ++ [f] } (.queued f)) =
            { enq := (absA s).enq ++ [f], pend := (absA s).pend, tasks := (absA s).tasks, marks := (absA s).marks } := by
          simp [absA, emit, enqOf_append, List.filter_append, List.filter_cons, enqOf, Out.isMark]
        rw [absA_setPc, e1]
        exact acctA_taskSend h hn (htg ▸ hmem) hf hf' hfg hpong hsub hpc
      · exact absurd ⟨h3, h4⟩ (noFail_false_of hnf)
      · rw [show trySend cfg s f = (s, .blocked) from Prod.ext h2 h1]
        exact h
    split
    · rename_i hpc
      split
      · rw [absA_emit_mark _ _ rfl, absA_setPc]
        have : (g, t.id, TaskPc.select) ∈ (absA s).tasks := by rw [← hpc, ← htg]; exact hmem
        exact acctA_returned h hn this
      · exact h
    · rename_i ev hpc
      have := send (.result t.id t.gen ev) .select (by rw [hpc, htg]; rfl) rfl (by rw [htg]; rfl) (by simp) (by rw [hpc]; rfl)
      exact this
    · rename_i hpc
      have := send (.complete t.id t.gen) .done (by rw [hpc, htg]; rfl) rfl (by rw [htg]; rfl) (by simp) (by rw [hpc]; rfl)
      exact this
    · exact h

theorem acct_sourceStep {cfg : Cfg} {s : Sys} (hb : Book s) (h : AcctA cfg (absA s)) (g : Gen) (e : SrcEv) :
    AcctA cfg (absA (sourceStep s g e)) := by
  unfold sourceStep
  split
  · have : absA { s with tasks := setTask s.tasks g (fun t => { t with chanClosed := true }) } = absA s :=
      absA_eq_of rfl rfl (map_setTask_pcSame s.tasks g (fun t => { t with chanClosed := true }) (fun _ => ⟨rfl, rfl, rfl⟩))
    rw [this]; exact h
  · split
    · exact h
    · rename_i n _ t hft
      obtain ⟨htm, htg⟩ := findTask_some hft
      split
      · rename_i hc
        simp at hc
        rw [absA_emit_mark _ _ rfl, absA_setPc]
        have : (g, t.id, TaskPc.select) ∈ (absA s).tasks := by rw [← hc.1, ← htg]; exact mem_absA_tasks htm
        exact acctA_consume h (taskGens_nodup hb) this
      · exact h

theorem acct_writerStep {cfg : Cfg} {s : Sys} (h : AcctA cfg (absA s)) (pick : WPick) : AcctA cfg (absA (writerStep s pick)) := by
  have wire : ∀ (s1 : Sys) (o : Out), o.isMark = false → (∀ f, o ≠ .queued f) → absA s1 = absA s → AcctA cfg (absA (emit s1 o)) := by
    intro s1 o h1 h2 ha; rw [absA_emit _ _ h1 h2, ha]; exact h
  have keep : ∀ s1 : Sys, absA s1 = absA s → AcctA cfg (absA s1) := fun s1 ha => by rw [ha]; exact h
  unfold writerStep
  split
  · cases pick <;> simp only []
    · split
      · exact h
      · split
        · exact wire _ _ rfl (by intro f he; cases he) (absA_eq_of rfl rfl rfl)
        · exact keep _ (absA_eq_of rfl rfl rfl)
    · split
      · exact h
      · exact keep _ (absA_eq_of rfl rfl rfl)
    · split
      · split
        · apply keep; exact (absA_eq_of rfl rfl rfl).trans (absA_emit _ _ rfl (by intro f he; cases he))
        · exact keep _ (absA_eq_of rfl rfl rfl)
      · exact h
  · split
    · split
      · exact wire _ _ rfl (by intro f he; cases he) (absA_eq_of rfl rfl rfl)
      · exact keep _ (absA_eq_of rfl rfl rfl)
    · split
      · apply keep; exact (absA_eq_of rfl rfl rfl).trans (absA_emit _ _ rfl (by intro f he; cases he))
      · exact keep _ (absA_eq_of rfl rfl rfl)
  · exact keep _ (absA_eq_of rfl rfl rfl)
  · split
    · exact keep _ ((absA_eq_of rfl rfl rfl).trans (absA_finishClosing s))
    · exact h
  · exact h

theorem acct_step {cfg : Cfg} {s : Sys} (hb : Book s) (hg : Gens s) (h : Acct cfg s) (e : Ev) : Acct cfg (stepS cfg s e) := by
  intro hnf'
  have hnf := noFail_mono hnf'
  have ha := h hnf
  have keep : ∀ s1 : Sys, absA s1 = absA s → AcctA cfg (absA s1) := fun s1 he => by rw [he]; exact ha
  unfold stepS
  cases e with
  | client f =>
    simp only []
    split
    · rename_i hx; simp at hx; exact acct_handle hb hg hnf ha hx.1 f
    · exact ha
  | source g e => exact acct_sourceStep hb ha g e
  | readerStep =>
    simp only []
    split
    · rename_i hr
      split
      · unfold readerExit
        have b := beginClosing_same s 1011
        apply keep
        exact absA_eq_of b.1 (by show ([] : List SFrame) = _; rw [hr]; rfl) (by show (beginClosing s 1011).tasks.map _ = _; rw [b.2.2.2.1])
      · exact ha
    · rename_i p fc tc hr
      have hP : GensP s p := by have := hg; unfold Gens at this; rw [hr] at this; exact this
      apply acct_pump hnf fc tc
      · have : ({ absA s with pend := p } : AcctAbs) = absA s := by simp [absA, hr, pendingOf]
        rw [this]; exact ha
      · exact pend_not_task hP
    · exact ha
  | writerStep pick => exact acct_writerStep ha pick
  | subTaskStep g => exact acct_subTaskStep hb hg hnf ha g
  | netDrop => exact keep _ (absA_eq_of rfl rfl rfl)
  | serverClose =>
    simp only []
    split
    · apply keep
      apply (absA_eq_of (s := beginClosing _ 1000) rfl rfl rfl).trans
      rw [absA_beginClosing]
      split
      · exact (absA_emit _ _ rfl (by intro f he; cases he)).trans (absA_eq_of rfl rfl rfl)
      · rfl
    · split
      · exact keep _ ((absA_eq_of rfl rfl rfl).trans (absA_finishClosing s))
      · exact ha
    · exact ha

theorem inv_flow_reachable (cfg : Cfg) (evs : List Ev) :
    Ctl (run cfg init evs) ∧ Book (run cfg init evs) ∧ Fifo (run cfg init evs) ∧ Gens (run cfg init evs) ∧ Acct cfg (run cfg init evs) :=
  run_induction cfg (fun s => Ctl s ∧ Book s ∧ Fifo s ∧ Gens s ∧ Acct cfg s) init
    ⟨ctl_init, book_init, fifo_init, gens_init, acct_init cfg⟩
    (fun _ e h => ⟨ctl_step cfg h.1 e, book_step h.1 h.2.1 e, fifo_step h.2.2.1 e, gens_step h.2.1 h.2.2.1 h.2.2.2.1 e,
      acct_step h.2.1 h.2.2.2.1 h.2.2.2.2 e⟩) evs

end ApiFu.C08
