/-
  C08 — the keep-alive ticker (property theorem for fix 05 / finding F-08e).
-/
import ApiFu.C08.LemmasTicker
namespace ApiFu.C08

/-- **keepalive_only_after_ack_queued** — in the model extended by the write loop's keep-alive ticker
    as fix 05 has it, for every history (every schedule of the base events, of the write loop
    noticing `initialized`, and of ticks): whenever a tick writes a keep-alive to the socket, the
    acknowledgement of a successful init has been accepted by the `outgoing` buffer before.

    From "queued before" to "written before": the ack is in the buffer when the ticker is created,
    the first tick is 15 s later, the same goroutine drains the buffer, and before the first ack the
    buffer holds nothing but connection errors (`pre_ack_silence`); that the write loop writes what
    was buffered at the ticker's creation within the first period is a timing fact of the
    implementation (every write has a 5 s deadline, after which the loop returns), not a fact of the
    untimed interleaving model — the 15.3 s idle session of the corpus checks it on the real code. -/
theorem keepalive_only_after_ack_queued (cfg : Cfg) (evs : List EvT) :
    let s := runT cfg (initT true) evs
    (stepT cfg s .tick).base.log ≠ s.base.log → SFrame.ack ∈ enqOf s.base.log := by
  intro s hne
  have hinv := tickInv_reachable cfg evs
  by_cases ht : s.tickerOn = true
  · exact hinv ht
  · exfalso
    apply hne
    show (if s.base.writer == .loop && s.tickerOn then
      (if s.base.connOpen then { s with base := emit s.base (.wire (tickFrame cfg)) }
       else { s with base := writerExit s.base }) else s).base.log = s.base.log
    simp [ht]

/-- F-08e, the code before fix 05 (the ticker runs from the start): a tick writes the keep-alive on
    a connection on which no init was ever sent; with the fix the same tick writes nothing. And
    non-vacuity of the theorem: after an init the write loop notices it and a tick writes `ka`. -/
example :
    (stepT { proto := .ws } (runT { proto := .ws } (initT false) []) .tick).base.log = [.wire .ka] ∧
    (stepT { proto := .ws } (runT { proto := .ws } (initT true) []) .tick).base.log = [] ∧
    wireOf (runT { proto := .ws } (initT true)
      [.base (.client (.init true)), .initSeen, .base (.writerStep .outgoing), .base (.writerStep .outgoing), .tick]).base.log
      = [.ack, .ka, .ka] := by
  decide

end ApiFu.C08
