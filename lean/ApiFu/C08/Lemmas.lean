/-
  C08 — helper lemmas: induction over schedules and the inductive invariants behind the theorems of
  Props.lean.
    G1 `Ctl`   the control skeleton (once-guards, who may be where when the handler is closed)
    G2 `Book`  the handler's bookkeeping (subscriptions map, goroutines, Stop() calls, registry)
    G3 `Fifo`  the wire is a prefix of what was queued
-/
import Mathlib.Data.List.Nodup
import ApiFu.C08.Model
namespace ApiFu.C08

theorem run_nil (cfg : Cfg) (s : Sys) : run cfg s [] = s := rfl
theorem run_cons (cfg : Cfg) (s : Sys) (e : Ev) (es : List Ev) : run cfg s (e :: es) = run cfg (stepS cfg s e) es := rfl
theorem run_append (cfg : Cfg) (s : Sys) (a b : List Ev) : run cfg s (a ++ b) = run cfg (run cfg s a) b := by
  simp [run, List.foldl_append]

theorem run_induction (cfg : Cfg) (P : Sys → Prop) (s0 : Sys) (h0 : P s0)
    (hstep : ∀ s e, P s → P (stepS cfg s e)) : ∀ evs, P (run cfg s0 evs) := by
  intro evs
  induction evs generalizing s0 with
  | nil => simpa [run] using h0
  | cons e es ih => exact ih (stepS cfg s0 e) (hstep s0 e h0)

/-! ### G1: the control skeleton -/

def Ctl (s : Sys) : Prop :=
  (writerGone s = true → s.connOpen = false) ∧
  (s.closeMsg.isSome = true → s.beginOnce = true) ∧
  s.fault = false ∧
  (s.handlerClosed = true → s.reader = .done ∧ writerGone s = true) ∧
  (s.finishOnce = true ↔ s.handlerClosed = true) ∧
  (s.writer = .finished → s.handlerClosed = true) ∧
  (s.closer = .done → s.handlerClosed = true) ∧
  (s.reader = .done → s.beginOnce = true)

theorem ctl_init : Ctl init := by simp [Ctl, init, writerGone]

theorem ctl_emit {s : Sys} (h : Ctl s) (o : Out) : Ctl (emit s o) := h

theorem ctl_beginClosing {s : Sys} (h : Ctl s) (c : Nat) : Ctl (beginClosing s c) := by
  unfold beginClosing Ctl writerGone at *; grind

theorem ctl_trySend {s : Sys} (cfg : Cfg) (h : Ctl s) (f : SFrame) : Ctl (trySend cfg s f).1 := by
  unfold trySend Ctl writerGone emit at *; grind

theorem trySend_reader (cfg : Cfg) (s : Sys) (f : SFrame) : (trySend cfg s f).1.reader = s.reader := by
  unfold trySend emit; grind

theorem beginClosing_reader (s : Sys) (c : Nat) : (beginClosing s c).reader = s.reader := by
  unfold beginClosing; grind

theorem ctl_doneSending {s : Sys} (h : Ctl s) (hr : s.reader ≠ .done) (tc : Option Nat) : Ctl (doneSending s tc) := by
  unfold doneSending
  split
  · apply ctl_beginClosing; unfold Ctl writerGone at *; grind
  · unfold Ctl writerGone at *; grind

theorem ctl_pump {s : Sys} (cfg : Cfg) (h : Ctl s) (hr : s.reader ≠ .done) (p : List SFrame) (fc : Bool) (tc : Option Nat) :
    Ctl (pump cfg s p fc tc) := by
  induction p generalizing s with
  | nil => unfold pump; exact ctl_doneSending h hr tc
  | cons f rest ih =>
    unfold pump
    have h1 := ctl_trySend cfg h f
    have h2 := trySend_reader cfg s f
    split
    · rename_i s' heq; rw [heq] at h1 h2; simp at h1 h2; exact ih h1 (by rw [h2]; exact hr)
    · rename_i s' heq; rw [heq] at h1 h2; simp at h1 h2
      apply ctl_doneSending
      · split
        · exact ctl_beginClosing h1 _
        · exact h1
      · split
        · rw [beginClosing_reader, h2]; exact hr
        · rw [h2]; exact hr
    · rename_i s' heq; rw [heq] at h1 h2; simp at h1 h2
      unfold Ctl writerGone at *; grind


def ctlFields (s : Sys) := (s.writer, s.connOpen, s.closeMsg, s.beginOnce, s.fault, s.handlerClosed, s.reader, s.finishOnce, s.closer)

theorem ctl_of_fields {s s' : Sys} (he : ctlFields s' = ctlFields s) (h : Ctl s) : Ctl s' := by
  unfold ctlFields at he
  unfold Ctl writerGone at *
  grind

theorem ctlFields_emit (s : Sys) (o : Out) : ctlFields (emit s o) = ctlFields s := rfl

theorem ctlFields_callStop (s : Sys) (g : Gen) : ctlFields (callStop s g) = ctlFields s := rfl

theorem ctlFields_stopAll (s : Sys) (l : List (Id × Gen)) : ctlFields (stopAll s l) = ctlFields s := by
  induction l generalizing s with
  | nil => rfl
  | cons p rest ih => unfold stopAll; rw [ih, ctlFields_callStop]

theorem ctlFields_admitSub (cfg : Cfg) (s s' : Sys) (id : Id) (h : admitSub cfg s id = some s') :
    ctlFields s' = ctlFields s := by
  unfold admitSub at h
  split at h
  · cases h; rfl
  · split at h
    · cases h; rfl
    · cases h

theorem ctlFields_startSync (s : Sys) (g : Gen) (id : Id) (k : OpKind) (e : Bool) :
    ctlFields (startSync s g id k e).1 = ctlFields s := by
  unfold startSync; cases e <;> rfl

theorem ctlFields_handleStart (cfg : Cfg) (s : Sys) (g : Gen) (id : Id) (k : OpKind) :
    ctlFields (handleStart cfg s g id k).1 = ctlFields s := by
  unfold handleStart
  cases k <;> simp only [ctlFields_startSync]
  · split
    · rfl
    · rename_i s' h; rw [show ctlFields (startSub s' g id) = ctlFields s' from rfl]; exact ctlFields_admitSub cfg s s' id h
  · split
    · rfl
    · rename_i s' h; rw [ctlFields_startSync]; exact ctlFields_admitSub cfg s s' id h

theorem ctlFields_handleStop (s : Sys) (id : Id) : ctlFields (handleStop s id) = ctlFields s := by
  unfold handleStop; split <;> rfl


theorem ctl_handleClose {s : Sys} (h : Ctl s) (hr : s.reader = .done) (hw : writerGone s = true) :
    Ctl (handleClose { s with finishOnce := true }) := by
  unfold handleClose
  have e := ctlFields_stopAll { s with finishOnce := true } s.subs
  unfold ctlFields at e
  unfold Ctl writerGone emit at *
  simp only []
  split <;> grind

theorem ctl_finishClosing {s : Sys} (h : Ctl s) (hr : s.reader = .done) (hw : writerGone s = true) : Ctl (finishClosing s) := by
  unfold finishClosing
  split
  · exact h
  · exact ctl_handleClose h hr hw

theorem ctl_writerExit {s : Sys} (h : Ctl s) (hw : s.handlerClosed = false) : Ctl (writerExit s) := by
  unfold writerExit Ctl writerGone at *; grind

theorem ctl_readerExit {s : Sys} (h : Ctl s) : Ctl (readerExit s) := by
  have h1 := ctl_beginClosing h 1011
  have h2 : (beginClosing s 1011).beginOnce = true := by unfold beginClosing; grind
  unfold readerExit
  unfold Ctl writerGone at *; grind

theorem ctl_handle {s : Sys} (cfg : Cfg) (h : Ctl s) (hr : s.reader = .reading) (f : CFrame) : Ctl (handle cfg s f) := by
  have hr' : s.reader ≠ .done := by rw [hr]; simp
  have hstart : ∀ g id k, Ctl (handleStart cfg { emit s (.recv f s.didInit) with nextGen := s.nextGen + 1 } g id k).1 ∧
      (handleStart cfg { emit s (.recv f s.didInit) with nextGen := s.nextGen + 1 } g id k).1.reader ≠ .done := by
    intro g id k
    have e := ctlFields_handleStart cfg { emit s (.recv f s.didInit) with nextGen := s.nextGen + 1 } g id k
    constructor
    · exact ctl_of_fields (e.trans rfl) h
    · unfold ctlFields at e; simp at e; rw [e.2.2.2.2.2.2.1]; exact hr'
  unfold handle
  cases f with
  | close => simp only []; apply ctl_readerExit; exact h
  | malformed => simp only []; split; exact h; exact ctl_beginClosing (ctl_emit h _) _
  | init ok =>
    cases ok <;> simp only [] <;> split
    · exact ctl_pump cfg (ctl_emit h _) hr' _ _ _
    · exact ctl_beginClosing (ctl_emit h _) _
    · exact ctl_pump cfg (s := { emit s _ with didInit := true }) h hr' _ _ _
    · exact ctl_pump cfg (s := { emit s _ with didInit := true }) h hr' _ _ _
  | start id k =>
    simp only []
    split
    · exact h
    · exact ctl_pump cfg (hstart _ id k).1 (hstart _ id k).2 _ _ _
  | startBad id => simp only []; split; exact h; split; exact h; exact ctl_beginClosing (ctl_emit h _) _
  | stop id =>
    simp only []; split; exact h
    exact ctl_of_fields (ctlFields_handleStop _ id) (ctl_emit h _)
  | ping =>
    simp only []; split; exact h
    split
    · split; exact h; exact ctl_pump cfg (ctl_emit h _) hr' _ _ _
    · exact ctl_beginClosing (ctl_emit h _) _
  | pong => exact h
  | terminate => simp only []; split <;> exact ctl_beginClosing (ctl_emit h _) _
  | unknown => simp only []; split; exact h; exact ctl_beginClosing (ctl_emit h _) _


theorem ctl_writerStep {s : Sys} (h : Ctl s) (pick : WPick) : Ctl (writerStep s pick) := by
  unfold writerStep
  split
  · -- loop
    rename_i hw
    have hc : s.handlerClosed = false := by unfold Ctl writerGone at h; grind
    cases pick <;> simp only []
    · split
      · exact h
      · split
        · unfold Ctl writerGone emit at *; grind
        · apply ctl_writerExit (s := { s with outgoing := _ }) h hc
    · split
      · exact h
      · unfold Ctl writerGone at *; grind
    · split
      · apply ctl_writerExit
        · split
          · exact ctl_emit h _
          · exact h
        · split <;> exact hc
      · exact h
  · -- draining
    rename_i c hw
    split
    · split
      · unfold Ctl writerGone emit at *; grind
      · unfold Ctl writerGone at *; grind
    · split
      · unfold Ctl writerGone emit at *; grind
      · unfold Ctl writerGone at *; grind
  · -- closeWait
    rename_i hw
    apply ctl_writerExit h
    unfold Ctl writerGone at h; grind
  · -- exited
    rename_i hw
    split
    · rename_i hr
      have hr' : s.reader = .done := by simpa using hr
      have hg : writerGone s = true := by unfold writerGone; rw [hw]
      have := ctl_finishClosing h hr' hg
      have hcl : (finishClosing s).handlerClosed = true := by
        unfold finishClosing handleClose
        unfold Ctl at h
        split
        · grind
        · simp only []; split <;> rfl
      have hr2 : (finishClosing s).reader = .done := by
        have := (this.2.2.2.1 hcl).1; exact this
      unfold Ctl writerGone at *
      simp only []
      grind
    · exact h
  · exact h

theorem ctlFields_setTask (s : Sys) (ts : List Task) : ctlFields { s with tasks := ts } = ctlFields s := rfl

theorem ctl_subTaskStep {s : Sys} (cfg : Cfg) (h : Ctl s) (g : Gen) : Ctl (subTaskStep cfg s g) := by
  unfold subTaskStep
  split
  · exact h
  · split
    · split
      · exact h
      · exact h
    · split
      · rename_i s' heq; have h1 := congrArg Prod.fst heq; simp at h1; rw [← h1]; exact ctl_trySend cfg h _
      · rename_i s' r _ heq; have h1 := congrArg Prod.fst heq; simp at h1; rw [← h1]
        exact ctl_of_fields (ctlFields_setTask _ _) (ctl_trySend cfg h _)
    · split
      · rename_i s' heq; have h1 := congrArg Prod.fst heq; simp at h1; rw [← h1]; exact ctl_trySend cfg h _
      · rename_i s' r _ heq; have h1 := congrArg Prod.fst heq; simp at h1; rw [← h1]
        exact ctl_of_fields (ctlFields_setTask _ _) (ctl_trySend cfg h _)
    · exact h

theorem ctl_sourceStep {s : Sys} (h : Ctl s) (g : Gen) (e : SrcEv) : Ctl (sourceStep s g e) := by
  unfold sourceStep
  split
  · exact h
  · split
    · exact h
    · split <;> exact h

theorem ctl_step {s : Sys} (cfg : Cfg) (h : Ctl s) (e : Ev) : Ctl (stepS cfg s e) := by
  unfold stepS
  cases e with
  | client f =>
    simp only []
    split
    · rename_i hc; simp at hc; exact ctl_handle cfg h hc.1 f
    · exact h
  | source g e => exact ctl_sourceStep h g e
  | readerStep =>
    simp only []
    split
    · split
      · exact ctl_readerExit h
      · exact h
    · rename_i p fc tc hr; exact ctl_pump cfg h (by rw [hr]; simp) p fc tc
    · exact h
  | writerStep pick => exact ctl_writerStep h pick
  | subTaskStep g => exact ctl_subTaskStep cfg h g
  | netDrop => unfold Ctl writerGone at *; grind
  | serverClose =>
    simp only []
    split
    · have : Ctl (if s.registered = true then emit { s with registered := false } Out.deregistered else s) := by
        split
        · exact h
        · exact h
      have h2 := ctl_beginClosing this 1000
      unfold Ctl writerGone at *; grind
    · split
      · rename_i hc; simp at hc
        have := ctl_finishClosing h hc.1 hc.2
        have hcl : (finishClosing s).handlerClosed = true := by
          unfold finishClosing handleClose
          unfold Ctl at h
          split
          · grind
          · simp only []; split <;> rfl
        unfold Ctl writerGone at *; grind
      · exact h
    · exact h

theorem ctl_reachable (cfg : Cfg) (evs : List Ev) : Ctl (run cfg init evs) :=
  run_induction cfg Ctl init ctl_init (fun _ e h => ctl_step cfg h e) evs


/-! ### G2: the handler's bookkeeping -/

structure BookAbs where
  subs : List (Id × Gen)
  tasks : List (Gen × Id × Bool)     -- gen, id, cancelled
  stops : List Gen
  execs : List Gen                   -- operations for which `exec _ subscription` was logged
  nextGen : Gen
  closed : Bool
  registered : Bool
  didInit : Bool

def stopsOf (log : List Out) : List Gen := log.filterMap fun | .stop g => some g | _ => none
def execSubsOf (log : List Out) : List Gen := log.filterMap fun | .exec g .subscription => some g | _ => none

def absBook (s : Sys) : BookAbs :=
  { subs := s.subs, tasks := s.tasks.map (fun t => (t.gen, t.id, t.cancelled)), stops := stopsOf s.log,
    execs := execSubsOf s.log, nextGen := s.nextGen, closed := s.handlerClosed, registered := s.registered,
    didInit := s.didInit }

def BookA (a : BookAbs) : Prop :=
  (a.subs.map (·.1)).Nodup ∧ (a.subs.map (·.2)).Nodup ∧ (a.tasks.map (·.1)).Nodup ∧
  (∀ t ∈ a.tasks, t.1 < a.nextGen) ∧
  (∀ p ∈ a.subs, (p.2, p.1, false) ∈ a.tasks) ∧
  (∀ t ∈ a.tasks, a.stops.count t.1 = if t.1 ∈ a.subs.map (·.2) then 0 else 1) ∧
  (∀ t ∈ a.tasks, (t.2.2 = true ↔ t.1 ∉ a.subs.map (·.2))) ∧
  (∀ g, g ∉ a.tasks.map (·.1) → a.stops.count g = 0) ∧
  (a.closed = true → a.subs = [] ∧ a.registered = false) ∧
  (∀ g, g ∈ a.execs ↔ g ∈ a.tasks.map (·.1)) ∧
  (a.didInit = false → a.tasks = [])

def Book (s : Sys) : Prop := BookA (absBook s)

theorem book_init : Book init := by
  simp [Book, BookA, absBook, init, stopsOf, execSubsOf]

/-- Changes that cannot hurt: the generation counter grows, the connection gets deregistered, init happens. -/
theorem bookA_weaken {a a' : BookAbs} (h : BookA a) (h1 : a'.subs = a.subs) (h2 : a'.tasks = a.tasks)
    (h3 : a'.stops = a.stops) (h4 : a'.execs = a.execs) (h5 : a.nextGen ≤ a'.nextGen) (h6 : a'.closed = a.closed)
    (h7 : a'.registered = true → a.registered = true) (h8 : a.didInit = true → a'.didInit = true) : BookA a' := by
  unfold BookA at *
  rw [h1, h2, h3, h4, h6]
  obtain ⟨a1, a2, a3, a4, a5, a6, a7, a8, a9, a10, a11⟩ := h
  refine ⟨a1, a2, a3, ?_, a5, a6, a7, a8, ?_, a10, ?_⟩
  · intro t ht; exact Nat.lt_of_lt_of_le (a4 t ht) h5
  · intro hc; have := a9 hc; refine ⟨this.1, ?_⟩
    cases hr : a'.registered with
    | false => rfl
    | true => have := h7 hr; simp_all
  · intro hd; apply a11; cases hd' : a.didInit with
    | false => rfl
    | true => have := h8 hd'; simp_all

@[simp] theorem stopsOf_append (a b : List Out) : stopsOf (a ++ b) = stopsOf a ++ stopsOf b := by simp [stopsOf]
@[simp] theorem execSubsOf_append (a b : List Out) : execSubsOf (a ++ b) = execSubsOf a ++ execSubsOf b := by simp [execSubsOf]

theorem stopCount_eq (g : Gen) (log : List Out) : stopCount g log = (stopsOf log).count g := by
  induction log with
  | nil => rfl
  | cons o rest ih =>
    cases o <;> simp_all [stopCount, stopsOf, List.filter_cons, List.count_cons]
    rename_i g'
    by_cases h : g' = g <;> simp [h] <;> omega


theorem erase_gens {subs : List (Id × Gen)} (hi : (subs.map (·.1)).Nodup) (hg : (subs.map (·.2)).Nodup)
    {id : Id} {g : Gen} (hm : (id, g) ∈ subs) (x : Gen) :
    x ∈ (subs.filter (fun p => p.1 != id)).map (·.2) ↔ (x ∈ subs.map (·.2) ∧ x ≠ g) := by
  simp only [List.mem_map, List.mem_filter]
  constructor
  · rintro ⟨p, ⟨hp, hne⟩, rfl⟩
    refine ⟨⟨p, hp, rfl⟩, ?_⟩
    intro he
    have := List.inj_on_of_nodup_map hg hp hm he
    subst this; simp at hne
  · rintro ⟨⟨p, hp, rfl⟩, hne⟩
    refine ⟨p, ⟨hp, ?_⟩, rfl⟩
    simp only [bne_iff_ne, ne_eq]
    intro he
    have := List.inj_on_of_nodup_map hi hp hm he
    subst this; exact hne rfl

def markStopped (g : Gen) (t : Gen × Id × Bool) : Gen × Id × Bool := if t.1 == g then (t.1, t.2.1, true) else t

theorem markStopped_fst (g : Gen) (t : Gen × Id × Bool) : (markStopped g t).1 = t.1 := by
  unfold markStopped; split <;> rfl

theorem map_markStopped_fst (g : Gen) (ts : List (Gen × Id × Bool)) : (ts.map (markStopped g)).map (·.1) = ts.map (·.1) := by
  simp [List.map_map, Function.comp_def, markStopped_fst]

/-- Stopping the subscription that holds `id` and deleting its map entry (HandleStop, and the
    release of an ended subscription in HandleStart). -/
theorem bookA_stop {a : BookAbs} (h : BookA a) {id : Id} {g : Gen} (hm : (id, g) ∈ a.subs) :
    BookA { a with subs := a.subs.filter (fun p => p.1 != id), tasks := a.tasks.map (markStopped g),
                   stops := a.stops ++ [g] } := by
  obtain ⟨a1, a2, a3, a4, a5, a6, a7, a8, a9, a10, a11⟩ := h
  have eg := erase_gens a1 a2 hm
  have hgt : (g, id, false) ∈ a.tasks := a5 _ hm
  have hgs : g ∈ a.subs.map (·.2) := List.mem_map.mpr ⟨_, hm, rfl⟩
  refine ⟨?_, ?_, ?_, ?_, ?_, ?_, ?_, ?_, ?_, ?_, ?_⟩
  · exact (List.filter_sublist.map _).nodup a1
  · exact (List.filter_sublist.map _).nodup a2
  · show ((a.tasks.map (markStopped g)).map (·.1)).Nodup
    rw [map_markStopped_fst]; exact a3
  · intro t ht
    obtain ⟨t0, ht0, rfl⟩ := List.mem_map.mp ht
    rw [markStopped_fst]; exact a4 t0 ht0
  · intro p hp
    obtain ⟨hp1, hp2⟩ := List.mem_filter.mp hp
    have hpg : p.2 ≠ g := ((eg p.2).mp (List.mem_map.mpr ⟨p, hp, rfl⟩)).2
    refine List.mem_map.mpr ⟨(p.2, p.1, false), a5 p hp1, ?_⟩
    simp [markStopped, hpg]
  · intro t ht
    obtain ⟨t0, ht0, rfl⟩ := List.mem_map.mp ht
    simp only [markStopped_fst, List.count_append, eg]
    have := a6 t0 ht0
    by_cases hg0 : t0.1 = g
    · rw [hg0] at this ⊢; simp [hgs] at this; simp [this]
    · have hne : ¬ g = t0.1 := fun h => hg0 h.symm
      simp [this, hg0, hne]
      split <;> simp_all
  · intro t ht
    obtain ⟨t0, ht0, rfl⟩ := List.mem_map.mp ht
    simp only [markStopped_fst, eg]
    have := a7 t0 ht0
    by_cases hg0 : t0.1 = g
    · simp [markStopped, hg0]
    · simp [markStopped, hg0, this]
  · intro g' hg'
    simp only [map_markStopped_fst] at hg'
    have hne : g ≠ g' := by
      intro he; subst he; exact hg' (List.mem_map.mpr ⟨_, hgt, rfl⟩)
    simp [List.count_append, a8 g' hg', hne]
  · intro hc; have := (a9 hc).1; rw [this] at hm; cases hm
  · intro g'; simp only [map_markStopped_fst]; exact a10 g'
  · intro hd; simp [a11 hd]


/-- A new subscription: map entry, goroutine, `exec` mark. -/
theorem bookA_startSub {a : BookAbs} (h : BookA a) {id : Id} {g : Gen} (hid : id ∉ a.subs.map (·.1))
    (hlt : ∀ t ∈ a.tasks, t.1 < g) (hg : g < a.nextGen) (hd : a.didInit = true) (hc : a.closed = false) :
    BookA { a with subs := (id, g) :: a.subs, tasks := a.tasks ++ [(g, id, false)], execs := a.execs ++ [g] } := by
  obtain ⟨a1, a2, a3, a4, a5, a6, a7, a8, a9, a10, a11⟩ := h
  have hgt : g ∉ a.tasks.map (·.1) := by
    intro hm; obtain ⟨t, ht, rfl⟩ := List.mem_map.mp hm; exact Nat.lt_irrefl _ (hlt t ht)
  have hgs : g ∉ a.subs.map (·.2) := by
    intro hm; obtain ⟨p, hp, rfl⟩ := List.mem_map.mp hm
    exact hgt (List.mem_map.mpr ⟨_, a5 p hp, rfl⟩)
  refine ⟨?_, ?_, ?_, ?_, ?_, ?_, ?_, ?_, ?_, ?_, ?_⟩
  · simpa [List.nodup_cons] using ⟨by simpa using hid, a1⟩
  · simpa [List.nodup_cons] using ⟨by simpa using hgs, a2⟩
  · simp only [List.map_append, List.map_cons, List.map_nil]
    rw [List.nodup_append]
    refine ⟨a3, by simp, ?_⟩
    intro x hx y hy; simp at hy; subst hy; intro he; subst he; exact hgt hx
  · intro t ht
    rcases List.mem_append.mp ht with ht | ht
    · exact a4 t ht
    · simp at ht; subst ht; exact hg
  · intro p hp
    rcases List.mem_cons.mp hp with rfl | hp
    · simp
    · exact List.mem_append_left _ (a5 p hp)
  · intro t ht
    rcases List.mem_append.mp ht with ht | ht
    · have hne : t.1 ≠ g := fun he => hgt (he ▸ List.mem_map.mpr ⟨t, ht, rfl⟩)
      have := a6 t ht
      simp only [List.map_cons, List.mem_cons, hne, false_or]; exact this
    · simp at ht; subst ht
      simp [a8 g hgt]
  · intro t ht
    rcases List.mem_append.mp ht with ht | ht
    · have hne : t.1 ≠ g := fun he => hgt (he ▸ List.mem_map.mpr ⟨t, ht, rfl⟩)
      have := a7 t ht
      simp only [List.map_cons, List.mem_cons, hne, false_or]; exact this
    · simp at ht; subst ht; simp
  · intro g' hg'
    apply a8
    intro hm; apply hg'; simp only [List.map_append, List.mem_append]; exact Or.inl hm
  · intro hcl; simp [hc] at hcl
  · intro g'
    simp only [List.mem_append, List.map_append, List.map_cons, List.map_nil, List.mem_singleton, a10 g']
  · intro hf; simp [hd] at hf

def stopErase (a : BookAbs) (p : Id × Gen) : BookAbs :=
  { a with subs := a.subs.filter (fun q => q.1 != p.1), tasks := a.tasks.map (markStopped p.2), stops := a.stops ++ [p.2] }

theorem bookA_fold (l : List (Id × Gen)) : ∀ (a : BookAbs), BookA a → (∀ p ∈ l, p ∈ a.subs) → (l.map (·.1)).Nodup →
    BookA (l.foldl stopErase a) ∧ (l.foldl stopErase a).subs = a.subs.filter (fun q => !(l.map (·.1)).contains q.1) ∧
    (l.foldl stopErase a).tasks = l.foldl (fun ts p => ts.map (markStopped p.2)) a.tasks ∧
    (l.foldl stopErase a).stops = a.stops ++ l.map (·.2) ∧
    (l.foldl stopErase a).execs = a.execs ∧ (l.foldl stopErase a).nextGen = a.nextGen ∧
    (l.foldl stopErase a).closed = a.closed ∧ (l.foldl stopErase a).registered = a.registered ∧
    (l.foldl stopErase a).didInit = a.didInit := by
  induction l with
  | nil => intro a h _ _; simp [h]
  | cons p rest ih =>
    intro a h hsub hnd
    have hp : p ∈ a.subs := hsub p (by simp)
    have h1 : BookA (stopErase a p) := bookA_stop (id := p.1) (g := p.2) h hp
    rw [List.map_cons, List.nodup_cons] at hnd
    have hsub' : ∀ q ∈ rest, q ∈ (stopErase a p).subs := by
      intro q hq
      simp only [stopErase, List.mem_filter]
      refine ⟨hsub q (by simp [hq]), ?_⟩
      simp only [bne_iff_ne, ne_eq]
      intro he; exact hnd.1 (he ▸ List.mem_map.mpr ⟨q, hq, rfl⟩)
    obtain ⟨i1, i2, i3, i4, i5, i6, i7, i8, i9⟩ := ih (stopErase a p) h1 hsub' hnd.2
    simp only [List.foldl_cons]
    refine ⟨i1, ?_, ?_, ?_, ?_, ?_, ?_, ?_, ?_⟩
    · rw [i2]; simp only [stopErase, List.filter_filter]
      apply List.filter_congr; intro q _; simp [Bool.and_comm, bne, Bool.not_or]
    · rw [i3]; rfl
    · rw [i4]; simp [stopErase]
    · rw [i5]; rfl
    · rw [i6]; rfl
    · rw [i7]; rfl
    · rw [i8]; rfl
    · rw [i9]; rfl

/-- HandleClose: every remaining subscription is stopped, the map dropped, the connection deregistered. -/
theorem bookA_close {a : BookAbs} (h : BookA a) :
    BookA { a with subs := [], tasks := a.subs.foldl (fun ts p => ts.map (markStopped p.2)) a.tasks,
                   stops := a.stops ++ a.subs.map (·.2), closed := true, registered := false } := by
  obtain ⟨i1, i2, i3, i4, i5, i6, i7, i8, i9⟩ := bookA_fold a.subs a h (fun _ hp => hp) h.1
  have hs : (a.subs.foldl stopErase a).subs = [] := by
    rw [i2]; apply List.filter_eq_nil_iff.mpr
    intro q hq; simp; exact ⟨q.2, hq⟩
  unfold BookA at i1 ⊢
  rw [hs, i3, i4, i5, i6] at i1
  obtain ⟨b1, b2, b3, b4, b5, b6, b7, b8, b9, b10, b11⟩ := i1
  rw [i9] at b11
  exact ⟨b1, b2, b3, b4, b5, b6, b7, b8, fun _ => ⟨rfl, rfl⟩, b10, b11⟩


/-! Concrete primitives on the abstraction -/

def Out.quiet : Out → Bool
  | .stop _ => false
  | .exec _ .subscription => false
  | _ => true

theorem absBook_emit (s : Sys) (o : Out) (h : o.quiet = true) : absBook (emit s o) = absBook s := by
  cases o <;> simp_all [absBook, emit, stopsOf, execSubsOf, Out.quiet]
  rename_i g k; cases k <;> simp_all [Out.quiet]

theorem absBook_beginClosing (s : Sys) (c : Nat) : absBook (beginClosing s c) = absBook s := by
  unfold beginClosing; split <;> rfl

theorem absBook_trySend (cfg : Cfg) (s : Sys) (f : SFrame) : absBook (trySend cfg s f).1 = absBook s := by
  unfold trySend; split
  · rfl
  · split
    · exact absBook_emit _ _ rfl
    · rfl

theorem absBook_doneSending (s : Sys) (tc : Option Nat) : absBook (doneSending s tc) = absBook s := by
  unfold doneSending; split
  · rw [absBook_beginClosing]; rfl
  · rfl

theorem absBook_pump (cfg : Cfg) (s : Sys) (p : List SFrame) (fc : Bool) (tc : Option Nat) :
    absBook (pump cfg s p fc tc) = absBook s := by
  induction p generalizing s with
  | nil => unfold pump; exact absBook_doneSending s tc
  | cons f rest ih =>
    unfold pump
    have h1 := absBook_trySend cfg s f
    split
    · rename_i s' heq; rw [heq] at h1; rw [ih]; exact h1
    · rename_i s' heq; rw [heq] at h1; rw [absBook_doneSending]
      split
      · rw [absBook_beginClosing]; exact h1
      · exact h1
    · rename_i s' heq; rw [heq] at h1; exact h1

theorem map_setTask_cancel (ts : List Task) (g : Gen) :
    (setTask ts g (fun t => { t with cancelled := true })).map (fun t => (t.gen, t.id, t.cancelled)) =
    (ts.map (fun t => (t.gen, t.id, t.cancelled))).map (markStopped g) := by
  simp only [setTask, List.map_map]
  apply List.map_congr_left
  intro t _
  simp only [Function.comp, markStopped]
  split <;> rfl

theorem map_setTask_same (ts : List Task) (g : Gen) (f : Task → Task)
    (hf : ∀ t, (f t).gen = t.gen ∧ (f t).id = t.id ∧ (f t).cancelled = t.cancelled) :
    (setTask ts g f).map (fun t => (t.gen, t.id, t.cancelled)) = ts.map (fun t => (t.gen, t.id, t.cancelled)) := by
  simp only [setTask, List.map_map]
  apply List.map_congr_left
  intro t _
  simp only [Function.comp]
  split
  · simp [hf t]
  · rfl

theorem absBook_callStop (s : Sys) (g : Gen) :
    absBook (callStop s g) = { absBook s with tasks := (absBook s).tasks.map (markStopped g), stops := (absBook s).stops ++ [g] } := by
  simp [absBook, callStop, emit, map_setTask_cancel, stopsOf, execSubsOf]

theorem findSub_mem {subs : List (Id × Gen)} {id : Id} {g : Gen} (h : findSub subs id = some g) : (id, g) ∈ subs := by
  unfold findSub at h
  split at h
  · rename_i p hp
    have h1 := List.mem_of_find?_eq_some hp
    have h2 := List.find?_some hp
    simp at h2 h; subst h; subst h2; exact h1
  · cases h

theorem findSub_none {subs : List (Id × Gen)} {id : Id} (h : findSub subs id = none) : id ∉ subs.map (·.1) := by
  unfold findSub at h
  split at h
  · cases h
  · rename_i hp
    intro hm; obtain ⟨p, hp1, rfl⟩ := List.mem_map.mp hm
    have := List.find?_eq_none.mp hp p hp1; simp at this

/-- Stop the subscription holding `id` and delete its entry (HandleStop; the release in HandleStart). -/
theorem book_stopErase {s : Sys} (h : Book s) {id : Id} {g : Gen} (hf : findSub s.subs id = some g) :
    Book (callStop { s with subs := eraseSub s.subs id } g) := by
  unfold Book at *
  rw [absBook_callStop]
  exact bookA_stop (id := id) (g := g) h (findSub_mem hf)

theorem book_handleStop {s : Sys} (h : Book s) (id : Id) : Book (handleStop s id) := by
  unfold handleStop
  split
  · exact h
  · rename_i g hf; exact book_stopErase h hf

theorem book_of_abs {s s' : Sys} (he : absBook s' = absBook s) (h : Book s) : Book s' := by
  unfold Book; rw [he]; exact h

/-- After the duplicate-id check the id is free, the goroutines are the same, nothing else moved. -/
theorem book_admitSub {cfg : Cfg} {s s' : Sys} (h : Book s) {id : Id} (ha : admitSub cfg s id = some s') :
    Book s' ∧ id ∉ s'.subs.map (·.1) ∧ s'.tasks.map (·.gen) = s.tasks.map (·.gen) ∧ s'.nextGen = s.nextGen ∧
    s'.didInit = s.didInit ∧ s'.handlerClosed = s.handlerClosed := by
  unfold admitSub at ha
  split at ha
  · rename_i hn; cases ha; exact ⟨h, findSub_none hn, rfl, rfl, rfl, rfl⟩
  · rename_i g' hf
    split at ha
    · cases ha
      refine ⟨book_stopErase h hf, ?_, ?_, rfl, rfl, rfl⟩
      · simp [callStop, emit, eraseSub]
      · simp [callStop, emit, setTask, List.map_map, Function.comp_def]
        intro t _; split <;> rfl
    · cases ha

theorem book_startSync {s : Sys} (h : Book s) (g : Gen) (id : Id) (k : OpKind) (e : Bool) (hk : k ≠ .subscription) :
    Book (startSync s g id k e).1 := by
  unfold startSync
  cases e
  · exact book_of_abs (absBook_emit _ _ rfl) h
  · apply book_of_abs _ h
    simp only [ite_true]
    rw [absBook_emit _ _ (by cases k <;> simp_all [Out.quiet]), absBook_emit _ _ rfl]

theorem book_startSub {s : Sys} (h : Book s) {g : Gen} {id : Id} (hid : id ∉ s.subs.map (·.1))
    (hlt : ∀ t ∈ s.tasks, t.gen < g) (hg : g < s.nextGen) (hd : s.didInit = true) (hc : s.handlerClosed = false) :
    Book (startSub s g id) := by
  unfold Book at *
  have : absBook (startSub s g id) =
      { absBook s with subs := (id, g) :: (absBook s).subs, tasks := (absBook s).tasks ++ [(g, id, false)],
                       execs := (absBook s).execs ++ [g] } := by
    simp [absBook, startSub, emit, stopsOf, execSubsOf]
  rw [this]
  apply bookA_startSub h hid _ hg hd hc
  intro t ht
  obtain ⟨t0, ht0, rfl⟩ := List.mem_map.mp ht
  exact hlt t0 ht0


theorem book_handleStart {cfg : Cfg} {s : Sys} (h : Book s) {g : Gen} (id : Id) (k : OpKind)
    (hlt : ∀ t ∈ s.tasks, t.gen < g) (hg : g < s.nextGen) (hd : s.didInit = true) (hc : s.handlerClosed = false) :
    Book (handleStart cfg s g id k).1 := by
  unfold handleStart
  cases k <;> simp only []
  · exact book_startSync h g id _ _ (by simp)
  · exact book_startSync h g id _ _ (by simp)
  · split
    · exact h
    · rename_i s' ha
      obtain ⟨b1, b2, b3, b4, b5, b6⟩ := book_admitSub h ha
      apply book_startSub b1 b2 _ (b4 ▸ hg) (b5 ▸ hd) (b6 ▸ hc)
      intro t ht
      have : t.gen ∈ s.tasks.map (·.gen) := b3 ▸ List.mem_map.mpr ⟨t, ht, rfl⟩
      obtain ⟨t0, ht0, he⟩ := List.mem_map.mp this
      rw [← he]; exact hlt t0 ht0
  · split
    · exact h
    · rename_i s' ha
      exact book_startSync (book_admitSub h ha).1 g id _ _ (by simp)
  · exact book_startSync h g id _ _ (by simp)

theorem absBook_stopAll (l : List (Id × Gen)) : ∀ s : Sys, absBook (stopAll s l) =
    { absBook s with tasks := l.foldl (fun ts p => ts.map (markStopped p.2)) (absBook s).tasks,
                     stops := (absBook s).stops ++ l.map (·.2) } := by
  induction l with
  | nil => intro s; simp [stopAll]
  | cons p rest ih =>
    intro s
    unfold stopAll
    rw [ih, absBook_callStop]
    simp

theorem book_handleClose {s : Sys} (h : Book s) : Book (handleClose s) := by
  unfold Book at *
  have hc := bookA_close h
  unfold handleClose
  simp only []
  have e := absBook_stopAll s.subs s
  split
  · have : absBook (emit { (stopAll s s.subs) with subs := [], handlerClosed := true, registered := false } Out.deregistered) =
        { absBook s with subs := [], tasks := (absBook s).subs.foldl (fun ts p => ts.map (markStopped p.2)) (absBook s).tasks,
                         stops := (absBook s).stops ++ (absBook s).subs.map (·.2), closed := true, registered := false } := by
      rw [absBook_emit _ _ rfl]
      have := congrArg BookAbs.tasks e
      have := congrArg BookAbs.stops e
      have := congrArg BookAbs.execs e
      have := congrArg BookAbs.nextGen e
      have := congrArg BookAbs.didInit e
      simp_all [absBook]
    rw [this]; exact hc
  · rename_i hr
    have hr' : s.registered = false := by
      have := congrArg BookAbs.registered e; simp [absBook] at this; simp_all
    have : absBook { (stopAll s s.subs) with subs := [], handlerClosed := true } =
        { absBook s with subs := [], tasks := (absBook s).subs.foldl (fun ts p => ts.map (markStopped p.2)) (absBook s).tasks,
                         stops := (absBook s).stops ++ (absBook s).subs.map (·.2), closed := true, registered := false } := by
      have := congrArg BookAbs.tasks e
      have := congrArg BookAbs.stops e
      have := congrArg BookAbs.execs e
      have := congrArg BookAbs.nextGen e
      have := congrArg BookAbs.didInit e
      have := congrArg BookAbs.registered e
      simp_all [absBook]
    rw [this]; exact hc

theorem book_finishClosing {s : Sys} (h : Book s) : Book (finishClosing s) := by
  unfold finishClosing
  split
  · exact h
  · exact book_handleClose (s := { s with finishOnce := true }) h


theorem book_weaken {s s' : Sys} (h : Book s) (h1 : s'.subs = s.subs) (h2 : s'.tasks = s.tasks) (h3 : s'.log = s.log)
    (h5 : s.nextGen ≤ s'.nextGen) (h6 : s'.handlerClosed = s.handlerClosed)
    (h7 : s'.registered = true → s.registered = true) (h8 : s.didInit = true → s'.didInit = true) : Book s' := by
  unfold Book at *
  apply bookA_weaken h <;> simp [absBook, *] <;> assumption

theorem absBook_withTasks (s : Sys) (ts : List Task)
    (h : ts.map (fun t => (t.gen, t.id, t.cancelled)) = s.tasks.map (fun t => (t.gen, t.id, t.cancelled))) :
    absBook { s with tasks := ts } = absBook s := by
  simp only [absBook, h]

theorem absBook_writerExit (s : Sys) : absBook (writerExit s) = absBook s := rfl

theorem book_taskLt {s : Sys} (h : Book s) : ∀ t ∈ s.tasks, t.gen < s.nextGen := by
  intro t ht
  exact h.2.2.2.1 (t.gen, t.id, t.cancelled) (List.mem_map.mpr ⟨t, ht, rfl⟩)

theorem book_handle {cfg : Cfg} {s : Sys} (h : Book s) (hc : s.handlerClosed = false) (f : CFrame) :
    Book (handle cfg s f) := by
  have he : Book (emit s (.recv f s.didInit)) := book_of_abs (absBook_emit _ _ rfl) h
  unfold handle
  cases f with
  | close =>
    simp only []; unfold readerExit
    apply book_of_abs _ he
    show absBook { beginClosing _ 1011 with reader := .done } = _
    have := absBook_beginClosing { emit s (.recv CFrame.close s.didInit) with closeRecv := true } 1011
    simp only [absBook] at this ⊢; exact this
  | malformed => simp only []; split; exact he; exact book_of_abs (absBook_beginClosing _ _) he
  | init ok =>
    cases ok <;> simp only [] <;> split
    · exact book_of_abs (absBook_pump _ _ _ _ _) he
    · exact book_of_abs (absBook_beginClosing _ _) he
    · apply book_of_abs (absBook_pump _ _ _ _ _)
      exact book_weaken he rfl rfl rfl (Nat.le_refl _) rfl (fun x => x) (fun _ => rfl)
    · apply book_of_abs (absBook_pump _ _ _ _ _)
      exact book_weaken he rfl rfl rfl (Nat.le_refl _) rfl (fun x => x) (fun _ => rfl)
  | start id k =>
    simp only []
    have hn : Book { emit s (.recv (CFrame.start id k) s.didInit) with nextGen := s.nextGen + 1 } :=
      book_weaken he rfl rfl rfl (Nat.le_succ _) rfl (fun x => x) (fun x => x)
    split
    · exact hn
    · rename_i hd
      apply book_of_abs (absBook_pump _ _ _ _ _)
      apply book_handleStart hn id k
      · exact book_taskLt h
      · exact Nat.lt_succ_self _
      · simpa using hd
      · exact hc
  | startBad id => simp only []; split; exact he; split; exact he; exact book_of_abs (absBook_beginClosing _ _) he
  | stop id => simp only []; split; exact he; exact book_handleStop he id
  | ping =>
    simp only []; split; exact he
    split
    · split; exact he; exact book_of_abs (absBook_pump _ _ _ _ _) he
    · exact book_of_abs (absBook_beginClosing _ _) he
  | pong => exact he
  | terminate => simp only []; split <;> exact book_of_abs (absBook_beginClosing _ _) he
  | unknown => simp only []; split; exact he; exact book_of_abs (absBook_beginClosing _ _) he

theorem book_writerStep {s : Sys} (h : Book s) (pick : WPick) : Book (writerStep s pick) := by
  have hif : ∀ o : Out, o.quiet = true → Book (if s.connOpen = true then emit s o else s) := by
    intro o ho; split
    · exact book_of_abs (absBook_emit _ _ ho) h
    · exact h
  unfold writerStep
  split
  · cases pick <;> simp only []
    · split
      · exact h
      · split
        · exact book_of_abs (absBook_emit _ _ rfl) h
        · exact h
    · split <;> exact h
    · split
      · exact book_of_abs (absBook_writerExit _) (hif _ rfl)
      · exact h
  · split
    · split
      · exact book_of_abs (absBook_emit _ _ rfl) h
      · exact h
    · exact book_weaken (hif (.closeFrame _) rfl) rfl rfl rfl (Nat.le_refl _) rfl (fun x => x) (fun x => x)
  · exact h
  · split
    · exact book_weaken (book_finishClosing h) rfl rfl rfl (Nat.le_refl _) rfl (fun x => x) (fun x => x)
    · exact h
  · exact h

theorem book_subTaskStep {cfg : Cfg} {s : Sys} (h : Book s) (g : Gen) : Book (subTaskStep cfg s g) := by
  have hset : ∀ (s' : Sys) (f : Task → Task), absBook s' = absBook s →
      (∀ t, (f t).gen = t.gen ∧ (f t).id = t.id ∧ (f t).cancelled = t.cancelled) →
      absBook { s' with tasks := setTask s'.tasks g f } = absBook s := by
    intro s' f he hf
    rw [← he]
    exact absBook_withTasks _ _ (map_setTask_same _ _ _ hf)
  unfold subTaskStep
  split
  · exact h
  · split
    · split
      · apply book_of_abs _ h
        rw [absBook_emit _ _ rfl]
        exact hset s _ rfl (fun t => ⟨rfl, rfl, rfl⟩)
      · exact h
    · split
      · rename_i s' heq; have h1 := congrArg Prod.fst heq; simp at h1; rw [← h1]; exact book_of_abs (absBook_trySend _ _ _) h
      · rename_i s' r _ heq; have h1 := congrArg Prod.fst heq; simp at h1
        apply book_of_abs _ h
        exact hset s' _ (h1 ▸ absBook_trySend _ _ _) (fun t => ⟨rfl, rfl, rfl⟩)
    · split
      · rename_i s' heq; have h1 := congrArg Prod.fst heq; simp at h1; rw [← h1]; exact book_of_abs (absBook_trySend _ _ _) h
      · rename_i s' r _ heq; have h1 := congrArg Prod.fst heq; simp at h1
        apply book_of_abs _ h
        exact hset s' _ (h1 ▸ absBook_trySend _ _ _) (fun t => ⟨rfl, rfl, rfl⟩)
    · exact h

theorem book_sourceStep {s : Sys} (h : Book s) (g : Gen) (e : SrcEv) : Book (sourceStep s g e) := by
  unfold sourceStep
  split
  · exact book_of_abs (absBook_withTasks _ _ (map_setTask_same _ _ _ (fun t => ⟨rfl, rfl, rfl⟩))) h
  · split
    · exact h
    · split
      · apply book_of_abs _ h
        rw [absBook_emit _ _ rfl]
        exact absBook_withTasks _ _ (map_setTask_same _ _ _ (fun t => ⟨rfl, rfl, rfl⟩))
      · exact h

theorem book_step {cfg : Cfg} {s : Sys} (hc : Ctl s) (h : Book s) (e : Ev) : Book (stepS cfg s e) := by
  unfold stepS
  cases e with
  | client f =>
    simp only []
    split
    · rename_i hr; simp at hr
      apply book_handle h _ f
      unfold Ctl at hc
      cases hcl : s.handlerClosed with
      | false => rfl
      | true => have := (hc.2.2.2.1 hcl).1; rw [hr.1] at this; cases this
    · exact h
  | source g e => exact book_sourceStep h g e
  | readerStep =>
    simp only []
    split
    · split
      · unfold readerExit
        apply book_of_abs _ h
        have := absBook_beginClosing s 1011
        simp only [absBook] at this ⊢; exact this
      · exact h
    · exact book_of_abs (absBook_pump _ _ _ _ _) h
    · exact h
  | writerStep pick => exact book_writerStep h pick
  | subTaskStep g => exact book_subTaskStep h g
  | netDrop => exact book_weaken h rfl rfl rfl (Nat.le_refl _) rfl (fun x => x) (fun x => x)
  | serverClose =>
    simp only []
    split
    · have h1 : Book (if s.registered = true then emit { s with registered := false } Out.deregistered else s) := by
        split
        · apply book_of_abs (absBook_emit _ _ rfl)
          exact book_weaken h rfl rfl rfl (Nat.le_refl _) rfl (by simp) (fun x => x)
        · exact h
      have h2 := book_of_abs (absBook_beginClosing _ 1000) h1
      exact book_weaken h2 rfl rfl rfl (Nat.le_refl _) rfl (fun x => x) (fun x => x)
    · split
      · exact book_weaken (book_finishClosing h) rfl rfl rfl (Nat.le_refl _) rfl (fun x => x) (fun x => x)
      · exact h
    · exact h

theorem inv12_reachable (cfg : Cfg) (evs : List Ev) : Ctl (run cfg init evs) ∧ Book (run cfg init evs) :=
  run_induction cfg (fun s => Ctl s ∧ Book s) init ⟨ctl_init, book_init⟩
    (fun _ e h => ⟨ctl_step cfg h.1 e, book_step h.1 h.2 e⟩) evs

/-! ### Termination of the subscription goroutines once the writer is gone -/

theorem findTask_setTask (ts : List Task) (g : Gen) (f : Task → Task) (hf : ∀ t, (f t).gen = t.gen) :
    findTask (setTask ts g f) g = (findTask ts g).map f := by
  unfold findTask setTask
  induction ts with
  | nil => rfl
  | cons t rest ih =>
    rw [List.map_cons, List.find?_cons, List.find?_cons]
    by_cases h : t.gen = g
    · have h' : (t.gen == g) = true := by simpa using h
      simp only [h', ite_true]
      have : ((f t).gen == g) = true := by rw [hf]; exact h'
      rw [this]; rfl
    · have h' : (t.gen == g) = false := by simpa using h
      simp only [h', Bool.false_eq_true, ite_false]
      exact ih

def TaskPc.next : TaskPc → TaskPc
  | .sendData _ => .select
  | .select => .sendComplete
  | .sendComplete => .done
  | .done => .done

def TaskPc.rank : TaskPc → Nat
  | .sendData _ => 3
  | .select => 2
  | .sendComplete => 1
  | .done => 0

theorem trySend_gone {cfg : Cfg} {s : Sys} (hf : cfg.sendFix = true) (hg : writerGone s = true) (f : SFrame) :
    trySend cfg s f = (s, .failed) := by
  unfold trySend; simp [hf, hg]

/-- With the writer gone (fix 03) a cancelled subscription goroutine moves one stage towards `done`
    with each of its steps; nothing else changes but its `pc` (and a ghost mark). -/
theorem subTaskStep_gone {cfg : Cfg} {s : Sys} (hf : cfg.sendFix = true) (hg : writerGone s = true)
    {g : Gen} {t : Task} (ht : findTask s.tasks g = some t) (hc : t.cancelled = true) :
    let s' := subTaskStep cfg s g
    writerGone s' = true ∧ ∃ t', findTask s'.tasks g = some t' ∧ t'.cancelled = true ∧ t'.pc = t.pc.next := by
  intro s'
  have hfind : ∀ (s0 : Sys) (f : Task → Task), s0.tasks = s.tasks → (∀ t, (f t).gen = t.gen) →
      findTask (setTask s0.tasks g f) g = some (f t) := by
    intro s0 f h0 hf'; rw [findTask_setTask _ _ _ hf', h0, ht]; rfl
  show writerGone (subTaskStep cfg s g) = true ∧ ∃ t', findTask (subTaskStep cfg s g).tasks g = some t' ∧ _
  unfold subTaskStep
  rw [ht]
  simp only []
  cases hp : t.pc with
  | select =>
    simp only [hc, Bool.true_or, ite_true]
    refine ⟨hg, _, hfind s _ rfl (fun _ => rfl), hc, ?_⟩
    simp [TaskPc.next]
  | sendData ev =>
    simp only [trySend_gone hf hg]
    refine ⟨hg, _, hfind s _ rfl (fun _ => rfl), hc, ?_⟩
    simp [TaskPc.next]
  | sendComplete =>
    simp only [trySend_gone hf hg]
    refine ⟨hg, _, hfind s _ rfl (fun _ => rfl), hc, ?_⟩
    simp [TaskPc.next]
  | done =>
    refine ⟨hg, t, ht, hc, ?_⟩
    simp [TaskPc.next, hp]

theorem rank_next (p : TaskPc) : p.next.rank = p.rank - 1 := by cases p <;> rfl

theorem three_steps_done {cfg : Cfg} {s : Sys} (hf : cfg.sendFix = true) (hg : writerGone s = true)
    {g : Gen} {t : Task} (ht : findTask s.tasks g = some t) (hc : t.cancelled = true) :
    ∃ t', findTask (run cfg s [.subTaskStep g, .subTaskStep g, .subTaskStep g]).tasks g = some t' ∧ t'.pc = .done := by
  obtain ⟨g1, t1, h1, c1, p1⟩ := subTaskStep_gone hf hg ht hc
  obtain ⟨g2, t2, h2, c2, p2⟩ := subTaskStep_gone hf g1 h1 c1
  obtain ⟨g3, t3, h3, c3, p3⟩ := subTaskStep_gone hf g2 h2 c2
  refine ⟨t3, h3, ?_⟩
  have : t3.pc.rank = 0 := by
    rw [p3, rank_next, p2, rank_next, p1, rank_next]
    cases t.pc <;> rfl
  cases hp : t3.pc <;> simp [hp, TaskPc.rank] at this ⊢

theorem findTask_of_mem {ts : List Task} (hn : (ts.map (·.gen)).Nodup) {t : Task} (ht : t ∈ ts) :
    findTask ts t.gen = some t := by
  unfold findTask
  induction ts with
  | nil => cases ht
  | cons a rest ih =>
    rw [List.map_cons, List.nodup_cons] at hn
    rcases List.mem_cons.mp ht with rfl | hr
    · simp
    · have hne : a.gen ≠ t.gen := fun he => hn.1 (he ▸ List.mem_map.mpr ⟨t, hr, rfl⟩)
      have : (a.gen == t.gen) = false := by simpa using hne
      simp [List.find?_cons, this, ih hn.2 hr]


/-! ### G3a: FIFO — the wire is a prefix of what was queued -/

def absF (s : Sys) : List SFrame × List SFrame × List SFrame × WriterPc := (enqOf s.log, wireOf s.log, s.outgoing, s.writer)

def writerLive (w : WriterPc) : Bool :=
  match w with
  | .loop | .draining _ => true
  | _ => false

def FifoA (a : List SFrame × List SFrame × List SFrame × WriterPc) : Prop :=
  ∃ d, a.1 = a.2.1 ++ d ++ a.2.2.1 ∧ (d ≠ [] → writerLive a.2.2.2 = false)

def Fifo (s : Sys) : Prop := FifoA (absF s)

@[simp] theorem enqOf_append (a b : List Out) : enqOf (a ++ b) = enqOf a ++ enqOf b := by simp [enqOf]
@[simp] theorem wireOf_append (a b : List Out) : wireOf (a ++ b) = wireOf a ++ wireOf b := by simp [wireOf]

def Out.silent : Out → Bool
  | .wire _ => false
  | .queued _ => false
  | _ => true

theorem absF_emit (s : Sys) (o : Out) (h : o.silent = true) : absF (emit s o) = absF s := by
  cases o <;> simp_all [absF, emit, enqOf, wireOf, Out.silent]

theorem fifo_init : Fifo init := ⟨[], by simp [absF, init, enqOf, wireOf], by simp⟩

theorem fifo_of_abs {s s' : Sys} (he : absF s' = absF s) (h : Fifo s) : Fifo s' := by
  unfold Fifo; rw [he]; exact h

theorem absF_beginClosing (s : Sys) (c : Nat) : absF (beginClosing s c) = absF s := by
  unfold beginClosing; split <;> rfl

theorem fifo_trySend {cfg : Cfg} {s : Sys} (h : Fifo s) (f : SFrame) : Fifo (trySend cfg s f).1 := by
  unfold trySend
  split
  · exact h
  · split
    · obtain ⟨d, h1, h2⟩ := h
      refine ⟨d, ?_, h2⟩
      simp only [absF, emit, enqOf_append, wireOf_append] at h1 ⊢
      rw [h1, show enqOf [Out.queued f] = [f] from rfl, show wireOf [Out.queued f] = [] from rfl]
      simp
    · exact h

theorem absF_doneSending (s : Sys) (tc : Option Nat) : absF (doneSending s tc) = absF s := by
  unfold doneSending; split
  · rw [absF_beginClosing]; rfl
  · rfl

theorem fifo_pump {cfg : Cfg} {s : Sys} (h : Fifo s) (p : List SFrame) (fc : Bool) (tc : Option Nat) :
    Fifo (pump cfg s p fc tc) := by
  induction p generalizing s with
  | nil => unfold pump; exact fifo_of_abs (absF_doneSending s tc) h
  | cons f rest ih =>
    unfold pump
    have h1 := fifo_trySend (cfg := cfg) h f
    split
    · rename_i s' heq; rw [heq] at h1; exact ih h1
    · rename_i s' heq; rw [heq] at h1
      apply fifo_of_abs (absF_doneSending _ _)
      split
      · exact fifo_of_abs (absF_beginClosing _ _) h1
      · exact h1
    · rename_i s' heq; rw [heq] at h1; exact h1


theorem absF_handlerSide (s s' : Sys) (h1 : s'.log = s.log) (h2 : s'.outgoing = s.outgoing) (h3 : s'.writer = s.writer) :
    absF s' = absF s := by simp [absF, h1, h2, h3]

theorem absF_callStop (s : Sys) (g : Gen) : absF (callStop s g) = absF s := absF_emit _ _ rfl

theorem absF_stopAll (l : List (Id × Gen)) : ∀ s : Sys, absF (stopAll s l) = absF s := by
  induction l with
  | nil => intro s; rfl
  | cons p rest ih => intro s; unfold stopAll; rw [ih, absF_callStop]

theorem absF_handleClose (s : Sys) : absF (handleClose s) = absF s := by
  unfold handleClose
  simp only []
  split
  · rw [absF_emit _ _ rfl]
    exact (absF_handlerSide _ _ rfl rfl rfl).trans (absF_stopAll _ _)
  · exact (absF_handlerSide _ _ rfl rfl rfl).trans (absF_stopAll _ _)

theorem absF_finishClosing (s : Sys) : absF (finishClosing s) = absF s := by
  unfold finishClosing; split
  · rfl
  · exact (absF_handleClose _).trans rfl

theorem absF_admitSub {cfg : Cfg} {s s' : Sys} {id : Id} (h : admitSub cfg s id = some s') : absF s' = absF s := by
  unfold admitSub at h
  split at h
  · cases h; rfl
  · split at h
    · cases h; exact absF_callStop _ _
    · cases h

theorem absF_startSync (s : Sys) (g : Gen) (id : Id) (k : OpKind) (e : Bool) : absF (startSync s g id k e).1 = absF s := by
  unfold startSync; cases e
  · exact absF_emit _ _ rfl
  · simp only [ite_true]; rw [absF_emit _ _ rfl, absF_emit _ _ rfl]

theorem absF_handleStart (cfg : Cfg) (s : Sys) (g : Gen) (id : Id) (k : OpKind) : absF (handleStart cfg s g id k).1 = absF s := by
  unfold handleStart
  cases k <;> simp only [absF_startSync]
  · split
    · rfl
    · rename_i s' ha
      have : absF (startSub s' g id) = absF s' := by
        unfold startSub
        exact (absF_handlerSide _ _ rfl rfl rfl).trans ((absF_emit _ _ rfl).trans (absF_emit _ _ rfl))
      rw [this]; exact absF_admitSub ha
  · split
    · rfl
    · rename_i s' ha; rw [absF_startSync]; exact absF_admitSub ha

theorem absF_handleStop (s : Sys) (id : Id) : absF (handleStop s id) = absF s := by
  unfold handleStop; split
  · rfl
  · exact absF_callStop _ _

theorem fifo_handle {cfg : Cfg} {s : Sys} (h : Fifo s) (f : CFrame) : Fifo (handle cfg s f) := by
  have he : Fifo (emit s (.recv f s.didInit)) := fifo_of_abs (absF_emit _ _ rfl) h
  unfold handle
  cases f with
  | close =>
    simp only []; unfold readerExit
    apply fifo_of_abs _ he
    exact (absF_handlerSide _ _ rfl rfl rfl).trans ((absF_beginClosing _ _).trans (absF_handlerSide _ _ rfl rfl rfl))
  | malformed => simp only []; split; exact he; exact fifo_of_abs (absF_beginClosing _ _) he
  | init ok =>
    cases ok <;> simp only [] <;> split
    · exact fifo_pump he _ _ _
    · exact fifo_of_abs (absF_beginClosing _ _) he
    · exact fifo_pump (s := { emit s (.recv (.init true) s.didInit) with didInit := true }) he _ _ _
    · exact fifo_pump (s := { emit s (.recv (.init true) s.didInit) with didInit := true }) he _ _ _
  | start id k =>
    simp only []
    split
    · exact fifo_of_abs (absF_handlerSide _ _ rfl rfl rfl) he
    · apply fifo_pump
      apply fifo_of_abs (absF_handleStart _ _ _ _ _)
      exact fifo_of_abs (absF_handlerSide _ _ rfl rfl rfl) he
  | startBad id => simp only []; split; exact he; split; exact he; exact fifo_of_abs (absF_beginClosing _ _) he
  | stop id => simp only []; split; exact he; exact fifo_of_abs (absF_handleStop _ _) he
  | ping =>
    simp only []; split; exact he
    split
    · split; exact he; exact fifo_pump he _ _ _
    · exact fifo_of_abs (absF_beginClosing _ _) he
  | pong => exact he
  | terminate => simp only []; split <;> exact fifo_of_abs (absF_beginClosing _ _) he
  | unknown => simp only []; split; exact he; exact fifo_of_abs (absF_beginClosing _ _) he

theorem fifo_writerStep {s : Sys} (h : Fifo s) (pick : WPick) : Fifo (writerStep s pick) := by
  obtain ⟨d, h1, h2⟩ := h
  simp only [absF] at h1 h2
  unfold writerStep
  split
  · rename_i hw
    have hd : d = [] := by
      cases d with
      | nil => rfl
      | cons x xs => have := h2 (by simp); rw [hw] at this; simp [writerLive] at this
    subst hd
    cases pick <;> simp only []
    · split
      · exact ⟨[], h1, by simp⟩
      · rename_i f q ho
        split
        · refine ⟨[], ?_, by simp⟩
          simp only [absF, emit, enqOf_append, wireOf_append]
          rw [h1, ho, show enqOf [Out.wire f] = [] from rfl, show wireOf [Out.wire f] = [f] from rfl]; simp
        · refine ⟨[f], ?_, fun _ => rfl⟩
          simp only [absF, writerExit]; rw [h1, ho]; simp
    · split
      · exact ⟨[], h1, by simp⟩
      · exact ⟨[], h1, by simp⟩
    · split
      · refine ⟨[], ?_, by simp⟩
        split
        · simp only [absF, writerExit, emit, enqOf_append, wireOf_append]
          rw [h1, show enqOf [Out.closeFrame 1000] = [] from rfl, show wireOf [Out.closeFrame 1000] = [] from rfl]; simp
        · exact h1
      · exact ⟨[], h1, by simp⟩
  · rename_i c hw
    have hd : d = [] := by
      cases d with
      | nil => rfl
      | cons x xs => have := h2 (by simp); rw [hw] at this; simp [writerLive] at this
    subst hd
    split
    · rename_i f q ho
      split
      · refine ⟨[], ?_, by simp⟩
        simp only [absF, emit, enqOf_append, wireOf_append]
        rw [h1, ho, show enqOf [Out.wire f] = [] from rfl, show wireOf [Out.wire f] = [f] from rfl]; simp
      · refine ⟨[f], ?_, fun _ => rfl⟩
        simp only [absF]; rw [h1, ho]; simp
    · rename_i ho
      refine ⟨[], ?_, by simp⟩
      split
      · simp only [absF, emit, enqOf_append, wireOf_append]
        rw [h1, show enqOf [Out.closeFrame c] = [] from rfl, show wireOf [Out.closeFrame c] = [] from rfl]; simp
      · exact h1
  · exact ⟨d, h1, fun _ => rfl⟩
  · split
    · refine ⟨d, ?_, fun _ => rfl⟩
      have := absF_finishClosing s
      simp only [absF, Prod.mk.injEq] at this ⊢
      rw [this.1, this.2.1, this.2.2.1]; exact h1
    · exact ⟨d, h1, h2⟩
  · exact ⟨d, h1, h2⟩


theorem fifo_subTaskStep {cfg : Cfg} {s : Sys} (h : Fifo s) (g : Gen) : Fifo (subTaskStep cfg s g) := by
  unfold subTaskStep
  split
  · exact h
  · split
    · split
      · exact fifo_of_abs ((absF_emit _ _ rfl).trans (absF_handlerSide _ _ rfl rfl rfl)) h
      · exact h
    · split
      · rename_i s' heq; have h1 := congrArg Prod.fst heq; simp at h1; rw [← h1]; exact fifo_trySend h _
      · rename_i s' r _ heq; have h1 := congrArg Prod.fst heq; simp at h1
        exact fifo_of_abs (absF_handlerSide _ _ rfl rfl rfl) (h1 ▸ fifo_trySend h _)
    · split
      · rename_i s' heq; have h1 := congrArg Prod.fst heq; simp at h1; rw [← h1]; exact fifo_trySend h _
      · rename_i s' r _ heq; have h1 := congrArg Prod.fst heq; simp at h1
        exact fifo_of_abs (absF_handlerSide _ _ rfl rfl rfl) (h1 ▸ fifo_trySend h _)
    · exact h

theorem fifo_sourceStep {s : Sys} (h : Fifo s) (g : Gen) (e : SrcEv) : Fifo (sourceStep s g e) := by
  unfold sourceStep
  split
  · exact fifo_of_abs (absF_handlerSide _ _ rfl rfl rfl) h
  · split
    · exact h
    · split
      · exact fifo_of_abs ((absF_emit _ _ rfl).trans (absF_handlerSide _ _ rfl rfl rfl)) h
      · exact h

theorem fifo_step {cfg : Cfg} {s : Sys} (h : Fifo s) (e : Ev) : Fifo (stepS cfg s e) := by
  unfold stepS
  cases e with
  | client f => simp only []; split; exact fifo_handle h f; exact h
  | source g e => exact fifo_sourceStep h g e
  | readerStep =>
    simp only []
    split
    · split
      · unfold readerExit
        exact fifo_of_abs ((absF_handlerSide _ _ rfl rfl rfl).trans (absF_beginClosing _ _)) h
      · exact h
    · exact fifo_pump h _ _ _
    · exact h
  | writerStep pick => exact fifo_writerStep h pick
  | subTaskStep g => exact fifo_subTaskStep h g
  | netDrop => exact fifo_of_abs (absF_handlerSide _ _ rfl rfl rfl) h
  | serverClose =>
    simp only []
    split
    · apply fifo_of_abs ((absF_handlerSide _ _ rfl rfl rfl).trans (absF_beginClosing _ _))
      split
      · exact fifo_of_abs ((absF_emit _ _ rfl).trans (absF_handlerSide _ _ rfl rfl rfl)) h
      · exact h
    · split
      · exact fifo_of_abs ((absF_handlerSide _ _ rfl rfl rfl).trans (absF_finishClosing _)) h
      · exact h
    · exact h

theorem fifo_reachable (cfg : Cfg) (evs : List Ev) : Fifo (run cfg init evs) :=
  run_induction cfg Fifo init fifo_init (fun _ e h => fifo_step h e) evs

/-- The wire is a prefix of what was queued; while the writer is in its loops they differ exactly by the buffer. -/
theorem wire_prefix (cfg : Cfg) (evs : List Ev) :
    wireOf (run cfg init evs).log <+: enqOf (run cfg init evs).log ∧
    (writerLive (run cfg init evs).writer = true →
      enqOf (run cfg init evs).log = wireOf (run cfg init evs).log ++ (run cfg init evs).outgoing) := by
  obtain ⟨d, h1, h2⟩ := fifo_reachable cfg evs
  simp only [absF] at h1 h2
  constructor
  · exact ⟨d ++ (run cfg init evs).outgoing, by rw [h1]; simp⟩
  · intro hw
    have : d = [] := by
      cases d with
      | nil => rfl
      | cons x xs => have := h2 (by simp); rw [hw] at this; cases this
    rw [h1, this]; simp


theorem mem_execSubsOf (g : Gen) (log : List Out) : g ∈ execSubsOf log ↔ Out.exec g .subscription ∈ log := by
  unfold execSubsOf
  rw [List.mem_filterMap]
  constructor
  · rintro ⟨o, ho, he⟩
    match o, he with
    | .exec g' .subscription, he => simp at he; subst he; exact ho
  · intro h; exact ⟨_, h, rfl⟩

end ApiFu.C08
