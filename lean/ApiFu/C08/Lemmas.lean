/-
  C08 — helper lemmas: induction over schedules and the inductive invariants behind the theorems of
  Props.lean (G1 control skeleton, G2 handler bookkeeping, G3 message flow).
-/
import ApiFu.C08.Model
namespace ApiFu.C08

theorem run_nil (cfg : Cfg) (s : Sys) : run cfg s [] = s := rfl
theorem run_cons (cfg : Cfg) (s : Sys) (e : Ev) (es : List Ev) : run cfg s (e :: es) = run cfg (stepS cfg s e) es := rfl
theorem run_append (cfg : Cfg) (s : Sys) (a b : List Ev) : run cfg s (a ++ b) = run cfg (run cfg s a) b := by
  simp [run, List.foldl_append]

theorem run_induction (cfg : Cfg) (P : Sys → Prop) (s0 : Sys) (h0 : P s0)
    (hstep : ∀ s e, P s → P (stepS cfg s e)) : ∀ evs, P (run cfg s0 evs) := by
  intro evs
  induction evs generalizing s0 with
  | nil => simpa [run] using h0
  | cons e es ih => exact ih (stepS cfg s0 e) (hstep s0 e h0)

/-! ### G1: the control skeleton -/

def Ctl (s : Sys) : Prop :=
  (writerGone s = true → s.connOpen = false) ∧
  (s.closeMsg.isSome = true → s.beginOnce = true) ∧
  s.fault = false ∧
  (s.handlerClosed = true → s.reader = .done ∧ writerGone s = true) ∧
  (s.finishOnce = true ↔ s.handlerClosed = true) ∧
  (s.writer = .finished → s.handlerClosed = true) ∧
  (s.closer = .done → s.handlerClosed = true) ∧
  (s.reader = .done → s.beginOnce = true)

theorem ctl_init : Ctl init := by simp [Ctl, init, writerGone]

theorem ctl_emit {s : Sys} (h : Ctl s) (o : Out) : Ctl (emit s o) := h

theorem ctl_beginClosing {s : Sys} (h : Ctl s) (c : Nat) : Ctl (beginClosing s c) := by
  unfold beginClosing Ctl writerGone at *; grind

theorem ctl_trySend {s : Sys} (cfg : Cfg) (h : Ctl s) (f : SFrame) : Ctl (trySend cfg s f).1 := by
  unfold trySend Ctl writerGone emit at *; grind

theorem trySend_reader (cfg : Cfg) (s : Sys) (f : SFrame) : (trySend cfg s f).1.reader = s.reader := by
  unfold trySend emit; grind

theorem beginClosing_reader (s : Sys) (c : Nat) : (beginClosing s c).reader = s.reader := by
  unfold beginClosing; grind

theorem ctl_doneSending {s : Sys} (h : Ctl s) (hr : s.reader ≠ .done) (tc : Option Nat) : Ctl (doneSending s tc) := by
  unfold doneSending
  split
  · apply ctl_beginClosing; unfold Ctl writerGone at *; grind
  · unfold Ctl writerGone at *; grind

theorem ctl_pump {s : Sys} (cfg : Cfg) (h : Ctl s) (hr : s.reader ≠ .done) (p : List SFrame) (fc : Bool) (tc : Option Nat) :
    Ctl (pump cfg s p fc tc) := by
  induction p generalizing s with
  | nil => unfold pump; exact ctl_doneSending h hr tc
  | cons f rest ih =>
    unfold pump
    have h1 := ctl_trySend cfg h f
    have h2 := trySend_reader cfg s f
    split
    · rename_i s' heq; rw [heq] at h1 h2; simp at h1 h2; exact ih h1 (by rw [h2]; exact hr)
    · rename_i s' heq; rw [heq] at h1 h2; simp at h1 h2
      apply ctl_doneSending
      · split
        · exact ctl_beginClosing h1 _
        · exact h1
      · split
        · rw [beginClosing_reader, h2]; exact hr
        · rw [h2]; exact hr
    · rename_i s' heq; rw [heq] at h1 h2; simp at h1 h2
      unfold Ctl writerGone at *; grind


def ctlFields (s : Sys) := (s.writer, s.connOpen, s.closeMsg, s.beginOnce, s.fault, s.handlerClosed, s.reader, s.finishOnce, s.closer)

theorem ctl_of_fields {s s' : Sys} (he : ctlFields s' = ctlFields s) (h : Ctl s) : Ctl s' := by
  unfold ctlFields at he
  unfold Ctl writerGone at *
  grind

theorem ctlFields_emit (s : Sys) (o : Out) : ctlFields (emit s o) = ctlFields s := rfl

theorem ctlFields_callStop (s : Sys) (g : Gen) : ctlFields (callStop s g) = ctlFields s := rfl

theorem ctlFields_stopAll (s : Sys) (l : List (Id × Gen)) : ctlFields (stopAll s l) = ctlFields s := by
  induction l generalizing s with
  | nil => rfl
  | cons p rest ih => unfold stopAll; rw [ih, ctlFields_callStop]

theorem ctlFields_admitSub (cfg : Cfg) (s s' : Sys) (id : Id) (h : admitSub cfg s id = some s') :
    ctlFields s' = ctlFields s := by
  unfold admitSub at h
  split at h
  · cases h; rfl
  · split at h
    · cases h; rfl
    · cases h

theorem ctlFields_startSync (s : Sys) (g : Gen) (id : Id) (k : OpKind) (e : Bool) :
    ctlFields (startSync s g id k e).1 = ctlFields s := by
  unfold startSync; cases e <;> rfl

theorem ctlFields_handleStart (cfg : Cfg) (s : Sys) (g : Gen) (id : Id) (k : OpKind) :
    ctlFields (handleStart cfg s g id k).1 = ctlFields s := by
  unfold handleStart
  cases k <;> simp only [ctlFields_startSync]
  · split
    · rfl
    · rename_i s' h; rw [show ctlFields (startSub s' g id) = ctlFields s' from rfl]; exact ctlFields_admitSub cfg s s' id h
  · split
    · rfl
    · rename_i s' h; rw [ctlFields_startSync]; exact ctlFields_admitSub cfg s s' id h

theorem ctlFields_handleStop (s : Sys) (id : Id) : ctlFields (handleStop s id) = ctlFields s := by
  unfold handleStop; split <;> rfl


theorem ctl_handleClose {s : Sys} (h : Ctl s) (hr : s.reader = .done) (hw : writerGone s = true) :
    Ctl (handleClose { s with finishOnce := true }) := by
  unfold handleClose
  have e := ctlFields_stopAll { s with finishOnce := true } s.subs
  unfold ctlFields at e
  unfold Ctl writerGone emit at *
  simp only []
  split <;> grind

theorem ctl_finishClosing {s : Sys} (h : Ctl s) (hr : s.reader = .done) (hw : writerGone s = true) : Ctl (finishClosing s) := by
  unfold finishClosing
  split
  · exact h
  · exact ctl_handleClose h hr hw

theorem ctl_writerExit {s : Sys} (h : Ctl s) (hw : s.handlerClosed = false) : Ctl (writerExit s) := by
  unfold writerExit Ctl writerGone at *; grind

theorem ctl_readerExit {s : Sys} (h : Ctl s) : Ctl (readerExit s) := by
  have h1 := ctl_beginClosing h 1011
  have h2 : (beginClosing s 1011).beginOnce = true := by unfold beginClosing; grind
  unfold readerExit
  unfold Ctl writerGone at *; grind

theorem ctl_handle {s : Sys} (cfg : Cfg) (h : Ctl s) (hr : s.reader = .reading) (f : CFrame) : Ctl (handle cfg s f) := by
  have hr' : s.reader ≠ .done := by rw [hr]; simp
  have hstart : ∀ g id k, Ctl (handleStart cfg { emit s (.recv f s.didInit) with nextGen := s.nextGen + 1 } g id k).1 ∧
      (handleStart cfg { emit s (.recv f s.didInit) with nextGen := s.nextGen + 1 } g id k).1.reader ≠ .done := by
    intro g id k
    have e := ctlFields_handleStart cfg { emit s (.recv f s.didInit) with nextGen := s.nextGen + 1 } g id k
    constructor
    · exact ctl_of_fields (e.trans rfl) h
    · unfold ctlFields at e; simp at e; rw [e.2.2.2.2.2.2.1]; exact hr'
  unfold handle
  cases f with
  | close => simp only []; apply ctl_readerExit; exact h
  | malformed => simp only []; split; exact h; exact ctl_beginClosing (ctl_emit h _) _
  | init ok =>
    cases ok <;> simp only [] <;> split
    · exact ctl_pump cfg (ctl_emit h _) hr' _ _ _
    · exact ctl_beginClosing (ctl_emit h _) _
    · exact ctl_pump cfg (s := { emit s _ with didInit := true }) h hr' _ _ _
    · exact ctl_pump cfg (s := { emit s _ with didInit := true }) h hr' _ _ _
  | start id k =>
    simp only []
    split
    · exact h
    · exact ctl_pump cfg (hstart _ id k).1 (hstart _ id k).2 _ _ _
  | startBad id => simp only []; split; exact h; split; exact h; exact ctl_beginClosing (ctl_emit h _) _
  | stop id =>
    simp only []; split; exact h
    exact ctl_of_fields (ctlFields_handleStop _ id) (ctl_emit h _)
  | ping =>
    simp only []; split; exact h
    split
    · split; exact h; exact ctl_pump cfg (ctl_emit h _) hr' _ _ _
    · exact ctl_beginClosing (ctl_emit h _) _
  | pong => exact h
  | terminate => simp only []; split <;> exact ctl_beginClosing (ctl_emit h _) _
  | unknown => simp only []; split; exact h; exact ctl_beginClosing (ctl_emit h _) _


theorem ctl_writerStep {s : Sys} (h : Ctl s) (pick : WPick) : Ctl (writerStep s pick) := by
  unfold writerStep
  split
  · -- loop
    rename_i hw
    have hc : s.handlerClosed = false := by unfold Ctl writerGone at h; grind
    cases pick <;> simp only []
    · split
      · exact h
      · split
        · unfold Ctl writerGone emit at *; grind
        · apply ctl_writerExit (s := { s with outgoing := _ }) h hc
    · split
      · exact h
      · unfold Ctl writerGone at *; grind
    · split
      · apply ctl_writerExit
        · split
          · exact ctl_emit h _
          · exact h
        · split <;> exact hc
      · exact h
  · -- draining
    rename_i c hw
    split
    · split
      · unfold Ctl writerGone emit at *; grind
      · unfold Ctl writerGone at *; grind
    · split
      · unfold Ctl writerGone emit at *; grind
      · unfold Ctl writerGone at *; grind
  · -- closeWait
    rename_i hw
    apply ctl_writerExit h
    unfold Ctl writerGone at h; grind
  · -- exited
    rename_i hw
    split
    · rename_i hr
      have hr' : s.reader = .done := by simpa using hr
      have hg : writerGone s = true := by unfold writerGone; rw [hw]
      have := ctl_finishClosing h hr' hg
      have hcl : (finishClosing s).handlerClosed = true := by
        unfold finishClosing handleClose
        unfold Ctl at h
        split
        · grind
        · simp only []; split <;> rfl
      have hr2 : (finishClosing s).reader = .done := by
        have := (this.2.2.2.1 hcl).1; exact this
      unfold Ctl writerGone at *
      simp only []
      grind
    · exact h
  · exact h

theorem ctlFields_setTask (s : Sys) (ts : List Task) : ctlFields { s with tasks := ts } = ctlFields s := rfl

theorem ctl_subTaskStep {s : Sys} (cfg : Cfg) (h : Ctl s) (g : Gen) : Ctl (subTaskStep cfg s g) := by
  unfold subTaskStep
  split
  · exact h
  · split
    · split
      · exact h
      · exact h
    · split
      · rename_i s' heq; have h1 := congrArg Prod.fst heq; simp at h1; rw [← h1]; exact ctl_trySend cfg h _
      · rename_i s' r _ heq; have h1 := congrArg Prod.fst heq; simp at h1; rw [← h1]
        exact ctl_of_fields (ctlFields_setTask _ _) (ctl_trySend cfg h _)
    · split
      · rename_i s' heq; have h1 := congrArg Prod.fst heq; simp at h1; rw [← h1]; exact ctl_trySend cfg h _
      · rename_i s' r _ heq; have h1 := congrArg Prod.fst heq; simp at h1; rw [← h1]
        exact ctl_of_fields (ctlFields_setTask _ _) (ctl_trySend cfg h _)
    · exact h

theorem ctl_sourceStep {s : Sys} (h : Ctl s) (g : Gen) (e : SrcEv) : Ctl (sourceStep s g e) := by
  unfold sourceStep
  split
  · exact h
  · split
    · exact h
    · split <;> exact h

theorem ctl_step {s : Sys} (cfg : Cfg) (h : Ctl s) (e : Ev) : Ctl (stepS cfg s e) := by
  unfold stepS
  cases e with
  | client f =>
    simp only []
    split
    · rename_i hc; simp at hc; exact ctl_handle cfg h hc.1 f
    · exact h
  | source g e => exact ctl_sourceStep h g e
  | readerStep =>
    simp only []
    split
    · split
      · exact ctl_readerExit h
      · exact h
    · rename_i p fc tc hr; exact ctl_pump cfg h (by rw [hr]; simp) p fc tc
    · exact h
  | writerStep pick => exact ctl_writerStep h pick
  | subTaskStep g => exact ctl_subTaskStep cfg h g
  | netDrop => unfold Ctl writerGone at *; grind
  | serverClose =>
    simp only []
    split
    · have : Ctl (if s.registered = true then emit { s with registered := false } Out.deregistered else s) := by
        split
        · exact h
        · exact h
      have h2 := ctl_beginClosing this 1000
      unfold Ctl writerGone at *; grind
    · split
      · rename_i hc; simp at hc
        have := ctl_finishClosing h hc.1 hc.2
        have hcl : (finishClosing s).handlerClosed = true := by
          unfold finishClosing handleClose
          unfold Ctl at h
          split
          · grind
          · simp only []; split <;> rfl
        unfold Ctl writerGone at *; grind
      · exact h
    · exact h

theorem ctl_reachable (cfg : Cfg) (evs : List Ev) : Ctl (run cfg init evs) :=
  run_induction cfg Ctl init ctl_init (fun _ e h => ctl_step cfg h e) evs

end ApiFu.C08
