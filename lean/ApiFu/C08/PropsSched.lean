/-
  C08 — schedule independence (property theorems).

  The acceptor (`Accept.lean`) runs ONE canonical schedule of the model and compares per-operation
  projections with what the real server did under whatever schedule the Go runtime chose. These
  theorems are what makes that sound.

  Which events are independent. Split a schedule (`List Ev`) into
    * control inputs (`Ev.isCtlInput`): client frames, and "the application closed source g";
    * source events (`source g (event n)`), per source;
    * everything else: the scheduler's choices (`readerStep`, `writerStep pick`, `subTaskStep g`),
      `netDrop`, `serverClose`.
  With respect to the *skeleton* (`skelOf`: didInit, serial counter, subscriptions map, which
  sources exist / were closed, `started` marks, Stop() calls) every event outside the first class
  is the identity (`skelRun_filter`): it commutes with everything. Inside the first class client
  frames are ordered among themselves (one TCP stream); "source closed" commutes with every frame
  except the start of a subscription (it decides how a re-use of the id is answered — the harness
  puts a barrier there) and with the closing of other sources (`CtlIndep`, diamond lemma
  `skel_input_comm`, lifted over adjacent swaps: `CtlEquiv`, `skelRun_equiv`). Source events of one source are ordered among themselves (one channel); they enter only
  through `consumedOf g` (the sequence the goroutine took).

  The discipline (`Harnessed`), which the harness enforces by waiting at its barriers:
    * `EffAt`: a client frame is an input only when the read loop reads it, a source event only
      when the goroutine took it (the harness's unbuffered send returned);
    * `DiscAt`: a subscription start whose id is held by a map entry happens only when that entry's
      goroutine is idle (nothing outstanding for the id). This is exactly the side condition that
      makes the code's test (`ended` channel closed, a scheduling-dependent fact) equal to the
      reference machine's (source closed, an input fact): `ended_of_idle`.
-/
import ApiFu.C08.LemmasSched
namespace ApiFu.C08

/-- **skeleton_schedule_independent** — for every two schedules that respect the discipline and have
    the same control-input subsequence (client frames and "source closed" events, in order, up to
    swaps of independent ones: `CtlEquiv` — a source may be closed earlier or later relative to any
    frame that is not a subscription start) —
    however they interleave scheduler steps, source events, network drop and server close, and
    however many of them there are — as long as HandleClose has not run in either, the skeletons
    agree: same `didInit`, same serial numbers, same subscriptions map (the connection's registry of
    live subscriptions), same sources created and closed, same operations started (serial number,
    id, kind), same Stop() calls in the same order. -/
theorem skeleton_schedule_independent (cfg : Cfg) (σ₁ σ₂ : List Ev)
    (h₁ : Harnessed cfg init σ₁) (h₂ : Harnessed cfg init σ₂)
    (hin : CtlEquiv (σ₁.filter Ev.isCtlInput) (σ₂.filter Ev.isCtlInput))
    (ho₁ : (run cfg init σ₁).handlerClosed = false) (ho₂ : (run cfg init σ₂).handlerClosed = false) :
    skelOf (run cfg init σ₁) = skelOf (run cfg init σ₂) := by
  have r₁ := (skel_refines_from cfg σ₁ init (skelOf init) ctl_init book_init flags_init h₁ (fun _ => rfl) rfl).1 ho₁
  have r₂ := (skel_refines_from cfg σ₂ init (skelOf init) ctl_init book_init flags_init h₂ (fun _ => rfl) rfl).1 ho₂
  rw [r₁, r₂, skelRun_filter cfg _ σ₁, skelRun_filter cfg _ σ₂, skelRun_equiv cfg hin]

/-- **started_schedule_independent** — the same for the set of operations the connection ever
    started, at *every* state including after Closed (tear-down in progress or finished): which
    start frames were admitted, under which serial number, does not depend on the schedule. -/
theorem started_schedule_independent (cfg : Cfg) (σ₁ σ₂ : List Ev)
    (h₁ : Harnessed cfg init σ₁) (h₂ : Harnessed cfg init σ₂)
    (hin : CtlEquiv (σ₁.filter Ev.isCtlInput) (σ₂.filter Ev.isCtlInput)) :
    startedOf (run cfg init σ₁).log = startedOf (run cfg init σ₂).log := by
  have r₁ := (skel_refines_from cfg σ₁ init (skelOf init) ctl_init book_init flags_init h₁ (fun _ => rfl) rfl).2
  have r₂ := (skel_refines_from cfg σ₂ init (skelOf init) ctl_init book_init flags_init h₂ (fun _ => rfl) rfl).2
  rw [r₁, r₂, skelRun_filter cfg _ σ₁, skelRun_filter cfg _ σ₂, skelRun_equiv cfg hin]

/-- **closed_registry_schedule_independent** — and once both schedules have reached Closed the
    final registries agree outright: subscriptions map empty, connection deregistered, and the same
    operations were started (each started source stopped exactly once: `close_stops_each_once`). -/
theorem closed_registry_schedule_independent (cfg : Cfg) (σ₁ σ₂ : List Ev)
    (h₁ : Harnessed cfg init σ₁) (h₂ : Harnessed cfg init σ₂)
    (hin : CtlEquiv (σ₁.filter Ev.isCtlInput) (σ₂.filter Ev.isCtlInput))
    (hc₁ : (run cfg init σ₁).handlerClosed = true) (hc₂ : (run cfg init σ₂).handlerClosed = true) :
    (run cfg init σ₁).subs = (run cfg init σ₂).subs ∧ (run cfg init σ₁).registered = (run cfg init σ₂).registered ∧
    startedOf (run cfg init σ₁).log = startedOf (run cfg init σ₂).log := by
  obtain ⟨_, _, s1, r1, _⟩ := close_stops_each_once cfg σ₁ hc₁
  obtain ⟨_, _, s2, r2, _⟩ := close_stops_each_once cfg σ₂ hc₂
  exact ⟨by rw [s1, s2], by rw [r1, r2], started_schedule_independent cfg σ₁ σ₂ h₁ h₂ hin⟩

/-- **unstarted_operation_silent** — for every schedule: the wire carries no message with the serial
    number of an operation that was not started (a start before the init, a duplicate id that was
    refused, a serial number not yet handed out): every queued message belongs to a started
    operation (`own_reachable`), and the wire is a prefix of the queue. -/
theorem unstarted_operation_silent (cfg : Cfg) (evs : List Ev) (g : Gen)
    (h : ¬ ∃ id k, Out.started g id k ∈ (run cfg init evs).log) :
    projGen g (wireOf (run cfg init evs).log) = [] :=
  projGen_nil_of_not_started cfg evs g h

/-- Non-vacuity: a start before the init (serial number 0) is never started; the query after the
    init (serial number 1) is answered. -/
example :
    let s := run { proto := .ws } init [.client (.start 1 .query), .client (.init true), .client (.start 1 .query),
      .writerStep .outgoing, .writerStep .outgoing, .writerStep .outgoing, .writerStep .outgoing]
    startedOf s.log = [(1, 1, .query)] ∧ projGen 0 (wireOf s.log) = [] ∧
      projGen 1 (wireOf s.log) = [.result 1 1 0, .complete 1 1] := by
  decide

/-- **projection_schedule_independent** — the per-operation projection of the wire does not depend
    on the schedule. For every two schedules that respect the discipline, have the same
    control-input subsequence, and feed every source the same sequence of events (`srcEvents g`;
    under the discipline these are the events its goroutine took: `consumedOf_run`), at quiescent
    states of both (connection open, nothing in flight):
    (a) every operation answered on the read loop (query, mutation, failing subscription, invalid
        document) has the same wire projection in both;
    (b) every subscription whose source was created has the same wire projection in both
        (same results in the same order, same presence of the complete);
    (c) for an operation that was never started the wire carries nothing in either
        (`projGen_nil_of_not_started`: every queued message belongs to a started operation);
    hence the projections agree for EVERY operation serial number g,
    together with the equal skeletons (subscriptions map, Stop() calls, …) of
    `skeleton_schedule_independent`. No bound on the length of either schedule. -/
theorem projection_schedule_independent (cfg : Cfg) (σ₁ σ₂ : List Ev)
    (h₁ : Harnessed cfg init σ₁) (h₂ : Harnessed cfg init σ₂)
    (hin : CtlEquiv (σ₁.filter Ev.isCtlInput) (σ₂.filter Ev.isCtlInput))
    (hev : ∀ g, srcEvents g σ₁ = srcEvents g σ₂)
    (hq₁ : Quiescent (run cfg init σ₁)) (hq₂ : Quiescent (run cfg init σ₂)) :
    skelOf (run cfg init σ₁) = skelOf (run cfg init σ₂) ∧
    (∀ g, projGen g (wireOf (run cfg init σ₁).log) = projGen g (wireOf (run cfg init σ₂).log)) := by
  have open_of_q : ∀ σ, Quiescent (run cfg init σ) → (run cfg init σ).handlerClosed = false := by
    intro σ hq
    cases hcl : (run cfg init σ).handlerClosed with
    | false => rfl
    | true =>
      have := ((inv12_reachable cfg σ).1.2.2.2.1 hcl).1
      rw [hq.2.2.1] at this; cases this
  have hev : ∀ g, consumedOf g (run cfg init σ₁).log = consumedOf g (run cfg init σ₂).log := by
    intro g
    rw [consumedOf_run cfg g σ₁ init h₁, consumedOf_run cfg g σ₂ init h₂, hev g]
  have hsk := skeleton_schedule_independent cfg σ₁ σ₂ h₁ h₂ hin (open_of_q σ₁ hq₁) (open_of_q σ₂ hq₂)
  have hst : startedOf (run cfg init σ₁).log = startedOf (run cfg init σ₂).log := congrArg Skel.started hsk
  have hstops : stopsOf (run cfg init σ₁).log = stopsOf (run cfg init σ₂).log := congrArg Skel.stops hsk
  have hsrcs : (run cfg init σ₁).tasks.map (fun t => (t.gen, t.chanClosed)) =
      (run cfg init σ₂).tasks.map (fun t => (t.gen, t.chanClosed)) := congrArg Skel.srcs hsk
  have hsync : ∀ g id k, Out.started g id k ∈ (run cfg init σ₁).log → k ≠ .subscription →
      projGen g (wireOf (run cfg init σ₁).log) = projGen g (wireOf (run cfg init σ₂).log) := by
    intro g id k hs hk
    have hs2 : Out.started g id k ∈ (run cfg init σ₂).log := by
      rw [← mem_startedOf, ← hst, mem_startedOf]; exact hs
    rw [query_once_quiescent cfg σ₁ hq₁ g id k hs hk, query_once_quiescent cfg σ₂ hq₂ g id k hs2 hk]
  have hsub : ∀ g, Out.exec g .subscription ∈ (run cfg init σ₁).log →
      projGen g (wireOf (run cfg init σ₁).log) = projGen g (wireOf (run cfg init σ₂).log) := by
    intro g hx
    obtain ⟨_, hb1⟩ := inv12_reachable cfg σ₁
    obtain ⟨_, hb2⟩ := inv12_reachable cfg σ₂
    have hg1 := (hb1.2.2.2.2.2.2.2.2.2.1 g).mp ((mem_execSubsOf _ _).mpr hx)
    obtain ⟨b1, hb1m, hb1g⟩ := List.mem_map.mp hg1
    obtain ⟨t₁, ht₁, rfl⟩ := List.mem_map.mp hb1m
    simp only [] at hb1g
    have hm : (t₁.gen, t₁.chanClosed) ∈ (run cfg init σ₂).tasks.map (fun t => (t.gen, t.chanClosed)) := by
      rw [← hsrcs]; exact List.mem_map.mpr ⟨t₁, ht₁, rfl⟩
    obtain ⟨t₂, ht₂, he⟩ := List.mem_map.mp hm
    simp only [Prod.mk.injEq] at he
    obtain ⟨heg, hecc⟩ := he
    -- same id
    have hG1 := (safe_reachable cfg σ₁).1.2.2.2.1
    have hG2 := (safe_reachable cfg σ₂).1.2.2.2.1
    have st1 := hG1.2.2.2 t₁ ht₁
    have st2 := hG2.2.2.2 t₂ ht₂
    have st2' : Out.started t₂.gen t₂.id .subscription ∈ (run cfg init σ₁).log := by
      rw [← mem_startedOf, hst, mem_startedOf]; exact st2
    rw [heg] at st2'
    have hid : t₁.id = t₂.id := (hG1.2.2.1 _ _ _ _ _ st1 st2').1
    -- same cancelled
    have hc1 := cancelled_iff_stopped cfg σ₁ t₁ ht₁
    have hc2 := cancelled_iff_stopped cfg σ₂ t₂ ht₂
    rw [stopCount_eq] at hc1 hc2
    rw [heg, ← hstops] at hc2
    have hcanc : t₁.cancelled = t₂.cancelled := by
      cases h1 : t₁.cancelled <;> cases h2 : t₂.cancelled <;> simp_all
    have q1 := subscription_quiescent cfg σ₁ hq₁ t₁ ht₁
    have q2 := subscription_quiescent cfg σ₂ hq₂ t₂ ht₂
    rw [← hb1g]
    rw [q1]
    rw [heg] at q2
    rw [q2, hev, hid, hcanc, hecc]
  refine ⟨hsk, ?_⟩
  -- every operation: a started read-loop operation, a started subscription, or never started
  intro g
  by_cases hst1 : StartedIn (run cfg init σ₁).log g
  · obtain ⟨id, k, hs⟩ := hst1
    by_cases hk : k = .subscription
    · subst hk
      -- a started subscription has its source: in the reference machine, hence (refinement) here
      have r₁ := (skel_refines_from cfg σ₁ init (skelOf init) ctl_init book_init flags_init h₁ (fun _ => rfl) rfl).1
        (open_of_q σ₁ hq₁)
      have hss : (skelOf (run cfg init σ₁)).SubSrc := by rw [r₁]; exact subSrc_run cfg σ₁ _ subSrc_init
      have hm := hss g id (mem_startedOf.mpr hs)
      have hm' : g ∈ (absBook (run cfg init σ₁)).tasks.map (·.1) := by
        simp only [skelOf, List.map_map] at hm
        simp only [absBook, List.map_map]
        exact hm
      exact hsub g ((mem_execSubsOf _ _).mp (((inv12_reachable cfg σ₁).2.2.2.2.2.2.2.2.2.2.1 g).mpr hm'))
    · exact hsync g id k hs hk
  · have hst2 : ¬ StartedIn (run cfg init σ₂).log g := by
      rintro ⟨id, k, hs⟩
      exact hst1 ⟨id, k, by rw [← mem_startedOf, hst, mem_startedOf]; exact hs⟩
    rw [projGen_nil_of_not_started cfg σ₁ g hst1, projGen_nil_of_not_started cfg σ₂ g hst2]

/-- Non-vacuity: two schedules of the same session (init, a subscription, a query, one source event,
    a stop) — one eager (every frame answered and written before the next), one that reads all
    frames first, stops the subscription while its result is still unsent and writes everything at
    the end. Both respect the discipline, have the same control inputs, both end quiescent; the
    wires differ as sequences (the query's complete and the subscription's result are interleaved
    differently) while every per-operation projection agrees, as the theorem says. -/
example :
    let cfg : Cfg := { proto := .tws }
    let σ₂ := [Ev.client (.init true), .client (.start 1 .subscription), .client (.start 2 .query), .readerStep,
               .source 0 (.event 7), .client (.stop 1), .subTaskStep 0, .subTaskStep 0, .subTaskStep 0,
               .writerStep .outgoing, .writerStep .outgoing, .writerStep .outgoing, .writerStep .outgoing,
               .writerStep .outgoing]
    let σ₁ := [Ev.client (.init true), .writerStep .outgoing, .client (.start 1 .subscription), .source 0 (.event 7),
               .subTaskStep 0, .writerStep .outgoing, .client (.start 2 .query), .writerStep .outgoing,
               .writerStep .outgoing, .client (.stop 1), .subTaskStep 0, .subTaskStep 0, .writerStep .outgoing]
    (harnessedB cfg init σ₁ = true ∧ harnessedB cfg init σ₂ = true ∧
      σ₁.filter Ev.isCtlInput = σ₂.filter Ev.isCtlInput ∧ ∀ g, g < 3 → srcEvents g σ₁ = srcEvents g σ₂) ∧
    ((run cfg init σ₁).outgoing = [] ∧ (run cfg init σ₂).outgoing = [] ∧
      (run cfg init σ₁).tasks.all Task.idleB = true ∧ (run cfg init σ₂).tasks.all Task.idleB = true) ∧
    wireOf (run cfg init σ₁).log = [.ack, .result 1 0 7, .result 2 1 0, .complete 2 1, .complete 1 0] ∧
    wireOf (run cfg init σ₂).log = [.ack, .result 2 1 0, .complete 2 1, .result 1 0 7, .complete 1 0] ∧
    skelOf (run cfg init σ₁) = skelOf (run cfg init σ₂) := by
  decide

/-- **What the harness's barrier gives.** The harness re-uses an id (and touches a source) only
    after everything that is due for the operation holding it has been *observed on the wire*: one
    result per event the goroutine took and, if the subscription was stopped or its source closed,
    the complete. On a connection whose write loop is alive this observation implies that the
    goroutine is idle — the `DiscAt` side condition of the schedule-independence theorems. -/
theorem idle_of_delivered (cfg : Cfg) (evs : List Ev) (hnf : noFail cfg (run cfg init evs) = true)
    (t : Task) (ht : t ∈ (run cfg init evs).tasks)
    (hdel : projGen t.gen (wireOf (run cfg init evs).log) =
      (consumedOf t.gen (run cfg init evs).log).map (.result t.id t.gen) ++
      (if t.cancelled || t.chanClosed then [.complete t.id t.gen] else [])) : t.idle := by
  obtain ⟨⟨_, _, hf, _, hacct⟩, _⟩ := safe_reachable cfg evs
  have ha := hacct hnf
  have h2 := ha.2.1 _ (mem_absA_tasks ht)
  have h3 := ha.2.2.1 _ (mem_absA_tasks ht)
  have hfl := flags_reachable cfg evs t ht
  simp only [] at h2 h3
  have hpre := projGen_prefix (g := t.gen) (fifo_wire_prefix hf)
  have hlen := hpre.length_le
  have hc : consumedOf t.gen (absA (run cfg init evs)).marks = consumedOf t.gen (run cfg init evs).log :=
    consumedOf_filter _ _
  rw [hc] at h2
  have l2 := congrArg List.length h2
  have ld := congrArg List.length hdel
  rw [ld] at hlen
  simp only [List.length_append, List.length_map] at l2 hlen
  change _ + _ ≤ (projGen t.gen (absA (run cfg init evs)).enq).length at hlen
  unfold Task.idle
  cases hpc : t.pc with
  | done => exact Or.inl rfl
  | select =>
    right
    rw [hpc] at h3 l2
    simp only [pendOf] at l2
    have hr : returnedIn t.gen (absA (run cfg init evs)).marks = false := by rw [h3]; rfl
    rw [hr] at l2
    refine ⟨rfl, ?_, ?_⟩
    · cases hcn : t.cancelled with
      | false => rfl
      | true => simp [hcn] at hlen l2; omega
    · cases hcc : t.chanClosed with
      | false => rfl
      | true => simp [hcc] at hlen l2; omega
  | sendData ev =>
    exfalso
    rw [hpc] at h3 l2
    have hr : returnedIn t.gen (absA (run cfg init evs)).marks = false := by rw [h3]; rfl
    rw [hr] at l2
    simp [pendOf] at l2
    omega
  | sendComplete =>
    exfalso
    rw [hpc] at h3 l2
    have hr : returnedIn t.gen (absA (run cfg init evs)).marks = true := by rw [h3]; rfl
    rw [hr] at l2
    simp [Task.flagsOk, hpc] at hfl
    have hcc : (t.cancelled || t.chanClosed) = true := by simpa using hfl
    rw [hcc] at hlen
    simp [pendOf] at l2 hlen
    omega

end ApiFu.C08
