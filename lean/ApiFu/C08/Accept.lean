/-
  C08 — the model as an *acceptor* of an observed session (core Lean only; linked into `c08model`).

  The harness plays a client history against the real server and reports
    * its inputs in the order it issued them: client frames, source events that the subscription
      goroutine *consumed* (the harness's channel send returned), source channels it closed,
      quiescence points (`sync`: everything expected so far was observed; `syncId i`: everything
      expected for operation id i was observed), and how the session ended;
    * what it observed: the server's messages in wire order, the close code, the order in which
      resolvers ran, how often each source's Stop() ran, whether the registry is empty.

  `accept` runs the model on these inputs under one canonical schedule — after every input all
  enabled internal steps run until nothing moves, except that the writer does not take the
  `closeMessage` branch before the inputs are exhausted ("lazy close": the model then processes the
  longest possible prefix of the frames that follow a closing trigger and delivers the most) — and
  decides whether the observation is a behaviour of the model for these inputs:

    * per operation id, and for the connection-level messages, the observed sequence must be a
      prefix of the model's, and must cover everything the model wrote before the last quiescence
      point that concerns it, plus — when the server closed by itself and the client just waited —
      everything the reader goroutine queued up to the frame that triggered the close (the
      drain-then-close handshake delivers it);
    * resolver invocations: a prefix of the model's, covering those before the last quiescence point
      and (when the client waited for the server's close) those up to the trigger;
    * at each `sync` the set of stopped sources equals the model's;
    * after the end every source that was created was stopped exactly once and the connection is
      deregistered — what the model's final state says (and `close_stops_each_once` proves);
    * the close code, when one was observed, is one the model can produce on this path.

  The per-id projection is independent of the schedule for histories that respect the harness's
  discipline (an id is re-used only after everything outstanding for it was observed; no source
  action while a frame whose handling depends on it is in flight), which is what makes one
  canonical schedule enough; frames cut off by a close are covered by the prefix rule.
-/
import ApiFu.C08.Model

namespace ApiFu.C08

inductive Input where
  | frame (f : CFrame)
  | ev (g : Gen) (n : Nat)
  | ended (g : Gen)
  | sync (stopped : List Gen)
  | syncId (id : Id)
  | drop
  | sclose
  deriving Repr, DecidableEq

inductive Ending where
  | await      -- the client only read until the server's close arrived
  | cclose     -- the client sent a close frame (last input)
  | drop       -- the client closed the TCP connection abruptly (last input)
  | sclose     -- API.CloseHijackedConnections (last input)
  deriving Repr, DecidableEq

/-- Observed server message. -/
inductive OFrame where
  | ack | ka | pong | connError
  | res (id : Id) (gen : Int) (ev : Nat)
  | comp (id : Id)
  | other (ty : String)
  deriving Repr, DecidableEq

structure Obs where
  wire : List OFrame
  closeCode : Option Nat
  execs : List (Gen × OpKind)
  stops : List (Gen × Nat)
  dereg : Bool
  deriving Repr

def taskEnabled (t : Task) : Bool :=
  match t.pc with
  | .select => t.cancelled || t.chanClosed
  | .sendData _ => true
  | .sendComplete => true
  | .done => false

/-- One round of internal steps (reader retry, every enabled sub-task, the writer on `outgoing`). -/
def roundOpen (cfg : Cfg) (s : Sys) : Sys :=
  let s := match s.reader with
    | .sending .. => stepS cfg s .readerStep
    | _ => s
  let s := s.tasks.foldl (fun acc t => if taskEnabled t then stepS cfg acc (.subTaskStep t.gen) else acc) s
  let s := s.tasks.foldl (fun acc t => if taskEnabled t then stepS cfg acc (.subTaskStep t.gen) else acc) s
  match s.writer with
  | .loop => if s.outgoing.isEmpty then s else stepS cfg s (.writerStep .outgoing)
  | _ => s

/-- Progress measure used to detect quiescence without comparing whole states. -/
def sig (s : Sys) : Nat × Nat × Nat × Bool × Bool :=
  (s.log.length, s.outgoing.length, (s.tasks.filter taskEnabled).length,
   (match s.reader with | .sending .. => true | _ => false), s.handlerClosed)

def settleOpen (cfg : Cfg) : Nat → Sys → Sys
  | 0, s => s
  | fuel + 1, s =>
    let s' := roundOpen cfg s
    if sig s' == sig s && s'.tasks == s.tasks then s' else settleOpen cfg fuel s'

/-- One round of the closing phase: everything may move. -/
def roundClose (cfg : Cfg) (s : Sys) : Sys :=
  let s := roundOpen cfg s
  let s := stepS cfg s .readerStep
  let s := match s.writer with
    | .loop => if s.outgoing.isEmpty then stepS cfg s (.writerStep .closeMsg) else s
    | .finished => s
    | _ => stepS cfg s (.writerStep .outgoing)
  match s.closer with
  | .waiting => stepS cfg s .serverClose
  | _ => s

def sigClose (s : Sys) : Nat × Nat × WriterPc × ReaderPc × CloserPc × Bool :=
  (s.log.length, s.outgoing.length, s.writer, s.reader, s.closer, s.connOpen)

def settleClose (cfg : Cfg) : Nat → Sys → Sys
  | 0, s => s
  | fuel + 1, s =>
    let s' := roundClose cfg s
    if sigClose s' == sigClose s && s'.tasks == s.tasks then s' else settleClose cfg fuel s'

/-- An expected observable with the index of the input that caused it. -/
structure Tagged (α : Type) where
  val : α
  idx : Nat
  deriving Repr

structure Trace where
  sys : Sys
  wire : List (Tagged SFrame) := []        -- reverse order while building
  execs : List (Tagged (Gen × OpKind)) := []
  lastSync : Nat := 0                      -- outputs of inputs with index < lastSync must have been observed
  idSyncs : List (Id × Nat) := []          -- (id, index): outputs for id of inputs with index < index must …
  trigger : Option Nat := none             -- index of the input during which beginClosing first fired
  err : Option String := none
  deriving Repr

def collect (tr : Trace) (old : Nat) (i : Nat) (s : Sys) : Trace :=
  let fresh := s.log.drop old
  let w := fresh.filterMap fun | .wire f => some { val := f, idx := i : Tagged SFrame } | _ => none
  let e := fresh.filterMap fun | .exec g k => some { val := (g, k), idx := i : Tagged (Gen × OpKind) } | _ => none
  let trig := match tr.trigger with
    | some t => some t
    | none => if s.beginOnce then some i else none
  { tr with sys := s, wire := w.reverse ++ tr.wire, execs := e.reverse ++ tr.execs, trigger := trig }

def stoppedSet (log : List Out) : List Gen :=
  log.filterMap fun | .stop g => some g | _ => none

def sameSet (a b : List Nat) : Bool := a.all (b.contains ·) && b.all (a.contains ·)

def fuelFor (s : Sys) : Nat := 64 + 8 * (s.tasks.length + s.outgoing.length)

def feed (cfg : Cfg) (tr : Trace) (i : Nat) (inp : Input) : Trace :=
  if tr.err.isSome then tr else
  let s := tr.sys
  let old := s.log.length
  match inp with
  | .frame f =>
    let s := stepS cfg s (.client f)
    collect tr old i (settleOpen cfg (fuelFor s) s)
  | .ev g n =>
    let s' := stepS cfg s (.source g (.event n))
    if s'.log.length == old then
      { tr with err := some s!"input {i}: the model's subscription {g} cannot consume an event here" }
    else collect tr old i (settleOpen cfg (fuelFor s') s')
  | .ended g =>
    let s := stepS cfg s (.source g .ended)
    collect tr old i (settleOpen cfg (fuelFor s) s)
  | .sync stopped =>
    if !sameSet stopped (stoppedSet s.log) then
      { tr with err := some s!"input {i}: at this quiescence point the stopped sources are {stopped}, the model has {stoppedSet s.log}" }
    else { tr with lastSync := i }
  | .syncId id => { tr with idSyncs := (id, i) :: tr.idSyncs }
  | .drop => collect tr old i (stepS cfg s .netDrop)
  | .sclose => collect tr old i (stepS cfg s .serverClose)

def feedAll (cfg : Cfg) (tr : Trace) : Nat → List Input → Trace
  | _, [] => tr
  | i, inp :: rest => feedAll cfg (feed cfg tr i inp) (i + 1) rest

def SFrame.id? : SFrame → Option Id
  | .result id _ _ => some id
  | .complete id _ => some id
  | _ => none

def OFrame.id? : OFrame → Option Id
  | .res id _ _ => some id
  | .comp id => some id
  | _ => none

def frameMatches (o : OFrame) (f : SFrame) : Bool :=
  match o, f with
  | .ack, .ack => true
  | .ka, .ka => true
  | .pong, .pong => true
  | .connError, .connError => true
  | .res id g ev, .result id' g' ev' =>
    -- g = -1: the payload is an error that does not name its operation (syntax error, cancelled context)
    id == id' && (g == -1 || (g == Int.ofNat g' && ev == ev'))
  | .comp id, .complete id' _ => id == id'
  | _, _ => false

def kindOfGen (log : List Out) (g : Gen) : Option OpKind :=
  log.findSome? fun | .started g' _ k => if g' == g then some k else none | _ => none

/-- Was this message queued by the reader goroutine (as opposed to a subscription goroutine)? -/
def readerOrigin (log : List Out) (f : SFrame) : Bool :=
  match f.gen? with
  | none => true
  | some g => kindOfGen log g != some .subscription

def showS : SFrame → String
  | .connError => "connection_error" | .ack => "ack" | .ka => "ka" | .pong => "pong"
  | .result id g ev => s!"result(id {id}, op {g}, event {ev})"
  | .complete id g => s!"complete(id {id}, op {g})"

def showO : OFrame → String
  | .connError => "connection_error" | .ack => "ack" | .ka => "ka" | .pong => "pong"
  | .res id g ev => s!"result(id {id}, op {g}, event {ev})"
  | .comp id => s!"complete(id {id})"
  | .other t => s!"message of type {t}"

/-- `obs` must be a prefix of `exp` (matching element-wise) of length ≥ `must`. -/
def checkPrefix (what : String) (obs : List OFrame) (exp : List SFrame) (must : Nat) : Option String :=
  let rec go (n : Nat) : List OFrame → List SFrame → Option String
    | [], rest => if n < must then
        some s!"{what}: observed only {n} message(s), the model requires at least {must} here; next expected: {(rest.head?.map showS).getD "-"}"
      else none
    | o :: _, [] => some s!"{what}: observed {showO o} after {n} message(s), the model has nothing more"
    | o :: os, f :: fs =>
      if frameMatches o f then go (n + 1) os fs
      else some s!"{what}: message {n} observed {showO o}, the model has {showS f}"
  go 0 obs exp

def isSubseq {α : Type} [BEq α] : List α → List α → Bool
  | [], _ => true
  | _ :: _, [] => false
  | a :: as, b :: bs => if a == b then isSubseq as bs else isSubseq (a :: as) bs

structure Verdict where
  ok : Bool
  reason : String
  expWire : List SFrame
  expExecs : List (Gen × OpKind)
  codes : List Nat
  deriving Repr

def dedup (l : List Nat) : List Nat := l.foldl (fun acc x => if acc.contains x then acc else acc ++ [x]) []

def accept (cfg : Cfg) (inputs : List Input) (ending : Ending) (obs : Obs) : Verdict :=
  let tr := feedAll cfg { sys := init } 0 inputs
  let n := inputs.length
  -- the close code the writer would send from here: the pending closeMessage, or (if the reader has
  -- not exited yet) the 1011 of its deferred beginClosing; plus 1000 on the closeReceived branch
  let sOpen := tr.sys
  let old := sOpen.log.length
  let sFin := settleClose cfg (fuelFor sOpen + 64) sOpen
  let tr := collect tr old n sFin
  let wire := tr.wire.reverse
  let execs := tr.execs.reverse
  let log := sFin.log
  let codes :=
    (log.filterMap fun | .closeFrame c => some c | _ => none) ++ (if sFin.closeRecv then [1000] else [])
      -- frames may still have been in flight when CloseHijackedConnections began to close
      ++ (if ending == .sclose then [1000] else [])
  let mk (ok : Bool) (reason : String) : Verdict :=
    { ok, reason, expWire := wire.map (·.val), expExecs := execs.map (·.val), codes }
  match tr.err with
  | some e => mk false e
  | none =>
  if !sFin.handlerClosed then mk false "model: the canonical schedule did not reach Closed" else
  let trig := tr.trigger.getD n
  let mustW (t : Tagged SFrame) : Bool :=
    t.idx < tr.lastSync
    || (match t.val.id? with
        | some id => tr.idSyncs.any (fun p => p.1 == id && t.idx < p.2)
        | none => false)
    || (ending == .await && t.idx ≤ trig && t.idx < n && readerOrigin log t.val)
  let mustLen (l : List (Tagged SFrame)) : Nat :=
    -- FIFO: everything queued before a delivered message is delivered too
    (l.zipIdx.foldl (fun acc p => if mustW p.1 then p.2 + 1 else acc) 0)
  -- connection-level messages
  let connExp := wire.filter (fun t => t.val.id?.isNone)
  let connObs := obs.wire.filter (fun o => o.id?.isNone)
  match checkPrefix "connection-level messages" connObs (connExp.map (·.val)) (mustLen connExp) with
  | some e => mk false e
  | none =>
  let ids := dedup ((obs.wire.filterMap OFrame.id?) ++ (wire.filterMap (·.val.id?)))
  let perId := ids.findSome? fun id =>
    let e := wire.filter (fun t => t.val.id? == some id)
    let o := obs.wire.filter (fun o => o.id? == some id)
    checkPrefix s!"operation id {id}" o (e.map (·.val)) (mustLen e)
  match perId with
  | some e => mk false e
  | none =>
  -- resolver invocations
  let mustE := execs.zipIdx.foldl (fun acc p =>
      if p.1.idx < tr.lastSync || (ending == .await && p.1.idx ≤ trig && p.1.idx < n) then p.2 + 1 else acc) 0
  let expE := execs.map (·.val)
  -- the first mustE are there in order; what follows is a subsequence of the rest (a query that
  -- arrives after the context was cancelled is answered without its resolver being called)
  if obs.execs.take mustE != expE.take mustE then
    mk false s!"resolver invocations {repr obs.execs}: the model requires {repr (expE.take mustE)} first"
  else if !isSubseq (obs.execs.drop mustE) (expE.drop mustE) then
    mk false s!"resolver invocations {repr obs.execs} are not a sub-sequence of the model's {repr expE}"
  else
  -- cleanup
  let created := obs.execs.filterMap fun p => if p.2 == .subscription then some p.1 else none
  if !sameSet created (obs.stops.map (·.1)) then
    mk false s!"sources created {created} vs sources reported {obs.stops.map (·.1)}"
  else
  match obs.stops.find? (fun p => p.2 != 1) with
  | some p => mk false s!"source of operation {p.1} was stopped {p.2} time(s) after the connection ended; the model stops every source exactly once"
  | none =>
  if created.any (fun g => stopCount g log != 1) then
    mk false "model: a created source is not stopped exactly once in the model's run"
  else if !obs.dereg then mk false "the connection is still registered after it ended; the model deregisters it"
  else if sFin.registered then mk false "model: still registered"
  else
  match obs.closeCode with
  | some c =>
    if ending != .drop && !codes.contains c then
      mk false s!"close code {c} observed, the model can send {codes}"
    else mk true ""
  | none => mk true ""

end ApiFu.C08
