/-
  C08 — the keep-alive ticker of the write loop, as an extension of the model (fix 05, F-08e).

  `Model.lean` has no ticker (a keep-alive belongs to no operation; the acceptor is not asked about
  sessions old enough to carry one). This file adds it on top, as the fixed code has it:

    * the read loop closes `initialized` once the first connection_ack has been queued — in the
      extension: "`ack` is among the queued messages";
    * the write loop, in its main select, takes the `<-initialized` case once and creates the
      ticker (`EvT.initSeen`, sets `tickerOn`);
    * the write loop takes the ticker case (`EvT.tick`): it writes the keep-alive (`ka` on
      graphql-ws, `pong` on graphql-transport-ws) directly to the socket, not through `outgoing`;
      a write error makes it return.

  `Cfg`-like switch `tickFix`: `false` is the code before fix 05 (the ticker runs from the start).
-/
import ApiFu.C08.Props
namespace ApiFu.C08

structure SysT where
  base : Sys
  /-- the write loop has created its keep-alive ticker -/
  tickerOn : Bool

inductive EvT where
  | base (e : Ev)
  | initSeen      -- the write loop takes `<-initialized`
  | tick          -- the write loop takes `<-keepAlive`

def tickFrame (cfg : Cfg) : SFrame :=
  match cfg.proto with
  | .ws => .ka
  | .tws => .pong

/-- `tickFix = false`: the ticker is created by `writeLoop` before its loop (the code before fix 05). -/
def initT (tickFix : Bool) : SysT := { base := init, tickerOn := !tickFix }

def stepT (cfg : Cfg) (s : SysT) : EvT → SysT
  | .base e => { s with base := stepS cfg s.base e }
  | .initSeen =>
    if s.base.writer == .loop && (enqOf s.base.log).contains .ack then { s with tickerOn := true } else s
  | .tick =>
    if s.base.writer == .loop && s.tickerOn then
      if s.base.connOpen then { s with base := emit s.base (.wire (tickFrame cfg)) }
      else { s with base := writerExit s.base }
    else s

def runT (cfg : Cfg) (s : SysT) (evs : List EvT) : SysT := evs.foldl (stepT cfg) s

/-- The ticker exists only after the ack of a successful init was accepted by the buffer. -/
def TickInv (s : SysT) : Prop := s.tickerOn = true → SFrame.ack ∈ enqOf s.base.log

theorem enqOf_mono {s s' : Sys} (h : Ext s s') {f : SFrame} (hf : f ∈ enqOf s.log) : f ∈ enqOf s'.log := by
  obtain ⟨⟨ext, hl⟩, _⟩ := h
  rw [hl]
  exact mem_enqOf.mpr (List.mem_append_left _ (mem_enqOf.mp hf))

theorem tickInv_step (cfg : Cfg) {s : SysT} (h : TickInv s) (e : EvT) : TickInv (stepT cfg s e) := by
  cases e with
  | base e =>
    intro ht
    exact enqOf_mono (ext_step cfg s.base e) (h ht)
  | initSeen =>
    show TickInv (if s.base.writer == .loop && (enqOf s.base.log).contains .ack then { s with tickerOn := true } else s)
    by_cases hc : (s.base.writer == .loop && (enqOf s.base.log).contains .ack) = true
    · rw [if_pos hc]
      intro _
      simp only [Bool.and_eq_true, List.contains_iff_mem] at hc
      exact hc.2
    · rw [if_neg hc]; exact h
  | tick =>
    show TickInv (if s.base.writer == .loop && s.tickerOn then
      (if s.base.connOpen then { s with base := emit s.base (.wire (tickFrame cfg)) }
       else { s with base := writerExit s.base }) else s)
    by_cases hc : (s.base.writer == .loop && s.tickerOn) = true
    · rw [if_pos hc]
      by_cases ho : s.base.connOpen = true
      · rw [if_pos ho]
        intro ht
        have := h ht
        show SFrame.ack ∈ enqOf (s.base.log ++ [Out.wire (tickFrame cfg)])
        exact mem_enqOf.mpr (List.mem_append_left _ (mem_enqOf.mp this))
      · rw [if_neg ho]; exact h
    · rw [if_neg hc]; exact h

theorem tickInv_reachable (cfg : Cfg) (evs : List EvT) : TickInv (runT cfg (initT true) evs) := by
  have : ∀ (evs : List EvT) (s : SysT), TickInv s → TickInv (runT cfg s evs) := by
    intro evs
    induction evs with
    | nil => intro s h; exact h
    | cons e es ih => intro s h; exact ih _ (tickInv_step cfg h e)
  exact this evs _ (by intro h; cases h)

end ApiFu.C08
