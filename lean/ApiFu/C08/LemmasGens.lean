/-
  C08 — helper lemmas: Gens: operation serial numbers are fresh, `started` marks are unique, the reader only has messages of read-loop operations pending.
-/
import ApiFu.C08.LemmasAck
namespace ApiFu.C08

/-! ### G3d: operation serial numbers are fresh; who may send for which operation -/

def Out.gen? : Out → Option Gen
  | .wire f => f.gen?
  | .queued f => f.gen?
  | .exec g _ => some g
  | .stop g => some g
  | .started g _ _ => some g
  | .consumed g _ => some g
  | .returned g => some g
  | _ => none

def IsSync (log : List Out) (g : Gen) : Prop := ∃ id k, Out.started g id k ∈ log ∧ k ≠ .subscription

/-- Structural facts about serial numbers, with `p` the messages the reader still has to send. -/
def GensP (s : Sys) (p : List SFrame) : Prop :=
  (∀ o ∈ s.log, ∀ g, o.gen? = some g → g < s.nextGen) ∧
  (∀ f ∈ p, ∀ g, f.gen? = some g → IsSync s.log g) ∧
  (∀ g id k id' k', Out.started g id k ∈ s.log → Out.started g id' k' ∈ s.log → id = id' ∧ k = k') ∧
  (∀ t ∈ s.tasks, Out.started t.gen t.id .subscription ∈ s.log)

def Gens (s : Sys) : Prop := GensP s (pendingOf s.reader)

theorem gens_init : Gens init := by simp [Gens, GensP, init, pendingOf]

theorem isSync_mono {log ext : List Out} {g : Gen} (h : IsSync log g) : IsSync (log ++ ext) g := by
  obtain ⟨id, k, hm, hk⟩ := h; exact ⟨id, k, List.mem_append_left _ hm, hk⟩

/-- A step that appends entries whose serial numbers are below the (possibly grown) counter, adds
    no `started` mark, keeps the goroutines' identities, and leaves the reader with (part of) `p`. -/
theorem gensP_ext {s s' : Sys} {p p' : List SFrame} (h : GensP s p) {ext : List Out} (hl : s'.log = s.log ++ ext)
    (hn : s.nextGen ≤ s'.nextGen) (hg : ∀ o ∈ ext, ∀ g, o.gen? = some g → g < s'.nextGen)
    (hs : ∀ o ∈ ext, ∀ g id k, o ≠ .started g id k)
    (hp : ∀ f ∈ p', f ∈ p)
    (ht : ∀ t ∈ s'.tasks, ∃ t0 ∈ s.tasks, t0.gen = t.gen ∧ t0.id = t.id) : GensP s' p' := by
  obtain ⟨g1, g2, g3, g4⟩ := h
  refine ⟨?_, ?_, ?_, ?_⟩
  · intro o ho g hg'
    rw [hl] at ho
    rcases List.mem_append.mp ho with ho | ho
    · exact Nat.lt_of_lt_of_le (g1 o ho g hg') hn
    · exact hg o ho g hg'
  · intro f hf g hg'
    rw [hl]; exact isSync_mono (g2 f (hp f hf) g hg')
  · intro g id k id' k' h1 h2
    rw [hl] at h1 h2
    have m1 : Out.started g id k ∈ s.log := by
      rcases List.mem_append.mp h1 with h | h
      · exact h
      · exact absurd rfl (hs _ h g id k)
    have m2 : Out.started g id' k' ∈ s.log := by
      rcases List.mem_append.mp h2 with h | h
      · exact h
      · exact absurd rfl (hs _ h g id' k')
    exact g3 g id k id' k' m1 m2
  · intro t ht'
    obtain ⟨t0, h0, e1, e2⟩ := ht t ht'
    rw [hl, ← e1, ← e2]; exact List.mem_append_left _ (g4 t0 h0)

theorem isSync_lt {s : Sys} {p : List SFrame} (h : GensP s p) {g : Gen} (hs : IsSync s.log g) : g < s.nextGen := by
  obtain ⟨id, k, hm, _⟩ := hs
  exact h.1 _ hm g rfl

/-- The reader works off `p`. -/
theorem gens_pump {cfg : Cfg} {s : Sys} {p : List SFrame} (h : GensP s p) (fc : Bool) (tc : Option Nat) :
    Gens (pump cfg s p fc tc) := by
  obtain ⟨a, b, e1, e2, e3, _, _, e6, _, _, e9⟩ := pump_spec cfg p fc tc s
  apply gensP_ext h e2 (by rw [e6]; exact Nat.le_refl _)
  · intro o ho g hg
    obtain ⟨f, hf, rfl⟩ := List.mem_map.mp ho
    rw [e6]
    exact isSync_lt h (h.2.1 f (by rw [e1]; exact List.mem_append_left _ hf) g hg)
  · intro o ho g id k he
    obtain ⟨f, hf, rfl⟩ := List.mem_map.mp ho
    cases he
  · intro f hf
    rcases e9 with ⟨r, _, _⟩ | ⟨r, _⟩ <;> rw [r] at hf
    · rw [e1]; exact List.mem_append_right _ hf
    · cases hf
  · intro t ht; rw [e3] at ht; exact ⟨t, ht, rfl, rfl⟩

/-- Steps that leave the reader alone (or stop it), log only entries about existing operations, and
    keep the goroutines' identities. -/
theorem gens_quiet {s s' : Sys} (h : Gens s) {ext : List Out} (hl : s'.log = s.log ++ ext)
    (hn : s.nextGen ≤ s'.nextGen) (hg : ∀ o ∈ ext, ∀ g, o.gen? = some g → g < s'.nextGen)
    (hs : ∀ o ∈ ext, ∀ g id k, o ≠ .started g id k)
    (hp : ∀ f ∈ pendingOf s'.reader, f ∈ pendingOf s.reader)
    (ht : ∀ t ∈ s'.tasks, ∃ t0 ∈ s.tasks, t0.gen = t.gen ∧ t0.id = t.id) : Gens s' :=
  gensP_ext h hl hn hg hs hp ht


theorem book_subGen_lt {s : Sys} (hb : Book s) {id : Id} {g : Gen} (hm : (id, g) ∈ s.subs) : g < s.nextGen := by
  have h5 := hb.2.2.2.2.1 (id, g) hm
  exact hb.2.2.2.1 _ h5

theorem gensP_callStop {s : Sys} {p : List SFrame} (h : GensP s p) {g : Gen} (hg : g < s.nextGen) (subs' : List (Id × Gen)) :
    GensP (callStop { s with subs := subs' } g) p := by
  refine gensP_ext (s' := callStop { s with subs := subs' } g) h (ext := [.stop g]) rfl (Nat.le_refl _) ?_ ?_ ?_ ?_
  · intro o ho g' hg'; simp at ho; subst ho; simp [Out.gen?] at hg'; subst hg'; exact hg
  · intro o ho g' id k he; simp at ho; subst ho; cases he
  · intro f hf; exact hf
  · intro t ht
    simp only [callStop, emit, setTask] at ht
    obtain ⟨t0, h0, rfl⟩ := List.mem_map.mp ht
    refine ⟨t0, h0, ?_, ?_⟩ <;> split <;> rfl

/-- Everything logged so far, and every goroutine, belongs to an operation older than `g`. -/
def Below (s : Sys) (g : Gen) : Prop :=
  (∀ o ∈ s.log, ∀ g', o.gen? = some g' → g' < g) ∧ (∀ t ∈ s.tasks, t.gen < g)

theorem gensP_admitSub {cfg : Cfg} {s s' : Sys} {p : List SFrame} (hb : Book s) (h : GensP s p) {id : Id} {g : Gen}
    (hbel : Below s g) (ha : admitSub cfg s id = some s') : GensP s' p ∧ s'.nextGen = s.nextGen ∧ Below s' g := by
  unfold admitSub at ha
  split at ha
  · cases ha; exact ⟨h, rfl, hbel⟩
  · rename_i g0 hf
    split at ha
    · cases ha
      have hm := findSub_mem hf
      have h5 := hb.2.2.2.2.1 (id, g0) hm
      obtain ⟨t, ht, he⟩ := List.mem_map.mp h5
      simp at he
      have hg0 : g0 < g := he.1 ▸ hbel.2 t ht
      refine ⟨gensP_callStop h (book_subGen_lt hb hm) _, rfl, ?_, ?_⟩
      · intro o ho g' hg'
        simp only [callStop, emit] at ho
        rcases List.mem_append.mp ho with ho | ho
        · exact hbel.1 o ho g' hg'
        · simp at ho; subst ho; simp [Out.gen?] at hg'; subst hg'; exact hg0
      · intro t' ht'
        simp only [callStop, emit, setTask] at ht'
        obtain ⟨t0, h0, rfl⟩ := List.mem_map.mp ht'
        have := hbel.2 t0 h0
        split <;> exact this
    · cases ha

theorem gensP_startSync {s : Sys} (h : GensP s []) {g : Gen} (hbel : Below s g) (hn : s.nextGen = g + 1)
    (id : Id) (k : OpKind) (e : Bool) (hk : k ≠ .subscription) :
    GensP (startSync s g id k e).1 (startSync s g id k e).2 := by
  have hfresh : ∀ id' k', Out.started g id' k' ∉ s.log := by
    intro id' k' hm; exact Nat.lt_irrefl _ (hbel.1 _ hm g rfl)
  obtain ⟨g1, _, g3, g4⟩ := h
  have key : ∀ ext : List Out, (∀ o ∈ ext, o = .started g id k ∨ o = .exec g k) → Out.started g id k ∈ ext →
      ∀ s' : Sys, s'.log = s.log ++ ext → s'.nextGen = s.nextGen → s'.tasks = s.tasks →
      GensP s' [.result id g 0, .complete id g] := by
    intro ext hext hmem s' hl hn' ht
    refine ⟨?_, ?_, ?_, ?_⟩
    · intro o ho g' hg'
      rw [hl] at ho; rw [hn']
      rcases List.mem_append.mp ho with ho | ho
      · exact g1 o ho g' hg'
      · rcases hext o ho with rfl | rfl <;> simp [Out.gen?] at hg' <;> rw [← hg', hn] <;> exact Nat.lt_succ_self _
    · intro f hf g' hg'
      have : g' = g := by
        simp at hf; rcases hf with rfl | rfl <;> simp [SFrame.gen?] at hg' <;> exact hg'.symm
      subst this
      exact ⟨id, k, by rw [hl]; exact List.mem_append_right _ hmem, hk⟩
    · intro g' i1 k1 i2 k2 h1 h2
      rw [hl] at h1 h2
      rcases List.mem_append.mp h1 with h1 | h1 <;> rcases List.mem_append.mp h2 with h2 | h2
      · exact g3 g' i1 k1 i2 k2 h1 h2
      · rcases hext _ h2 with he | he <;> cases he; exact absurd h1 (hfresh _ _)
      · rcases hext _ h1 with he | he <;> cases he; exact absurd h2 (hfresh _ _)
      · rcases hext _ h1 with he | he <;> cases he
        rcases hext _ h2 with he | he <;> cases he
        exact ⟨rfl, rfl⟩
    · intro t ht'; rw [ht] at ht'; rw [hl]; exact List.mem_append_left _ (g4 t ht')
  unfold startSync
  cases e
  · exact key [.started g id k] (by simp) (by simp) _ rfl rfl rfl
  · exact key [.started g id k, .exec g k] (by simp) (by simp) _ (by simp [emit]) rfl rfl

theorem gensP_startSub {s : Sys} (h : GensP s []) {g : Gen} (hbel : Below s g) (hn : s.nextGen = g + 1) (id : Id) :
    GensP (startSub s g id) [] := by
  have hfresh : ∀ id' k', Out.started g id' k' ∉ s.log := by
    intro id' k' hm; exact Nat.lt_irrefl _ (hbel.1 _ hm g rfl)
  obtain ⟨g1, _, g3, g4⟩ := h
  have hl : (startSub s g id).log = s.log ++ [.started g id .subscription, .exec g .subscription] := by
    simp [startSub, emit]
  refine ⟨?_, ?_, ?_, ?_⟩
  · intro o ho g' hg'
    rw [hl] at ho
    show g' < s.nextGen
    rcases List.mem_append.mp ho with ho | ho
    · exact g1 o ho g' hg'
    · simp at ho; rcases ho with rfl | rfl <;> simp [Out.gen?] at hg' <;> rw [← hg', hn] <;> exact Nat.lt_succ_self _
  · intro f hf; cases hf
  · intro g' i1 k1 i2 k2 h1 h2
    rw [hl] at h1 h2
    rcases List.mem_append.mp h1 with m1 | m1 <;> rcases List.mem_append.mp h2 with m2 | m2
    · exact g3 g' i1 k1 i2 k2 m1 m2
    · simp at m2; obtain ⟨e1, e2, e3⟩ := m2; subst e1; exact absurd m1 (hfresh _ _)
    · simp at m1; obtain ⟨e1, e2, e3⟩ := m1; subst e1; exact absurd m2 (hfresh _ _)
    · simp at m1 m2; obtain ⟨_, e2, e3⟩ := m1; obtain ⟨_, f2, f3⟩ := m2; subst e2 e3 f2 f3; exact ⟨rfl, rfl⟩
  · intro t ht
    rw [hl]
    simp only [startSub, emit] at ht
    rcases List.mem_append.mp ht with ht | ht
    · exact List.mem_append_left _ (g4 t ht)
    · simp at ht; subst ht; simp

theorem gensP_handleStart {cfg : Cfg} {s : Sys} (hb : Book s) (h : GensP s []) {g : Gen} (hbel : Below s g)
    (hn : s.nextGen = g + 1) (id : Id) (k : OpKind) :
    GensP (handleStart cfg s g id k).1 (handleStart cfg s g id k).2 := by
  unfold handleStart
  cases k <;> simp only []
  · exact gensP_startSync h hbel hn id _ _ (by simp)
  · exact gensP_startSync h hbel hn id _ _ (by simp)
  · split
    · exact h
    · rename_i s' ha
      obtain ⟨a1, a2, a3⟩ := gensP_admitSub hb h hbel ha
      exact gensP_startSub a1 a3 (a2.trans hn) id
  · split
    · exact h
    · rename_i s' ha
      obtain ⟨a1, a2, a3⟩ := gensP_admitSub hb h hbel ha
      exact gensP_startSync a1 a3 (a2.trans hn) id _ _ (by simp)
  · exact gensP_startSync h hbel hn id _ _ (by simp)


theorem mem_enqOf {f : SFrame} {log : List Out} : f ∈ enqOf log ↔ Out.queued f ∈ log := by
  unfold enqOf
  rw [List.mem_filterMap]
  constructor
  · rintro ⟨o, ho, he⟩
    match o, he with
    | .queued f', he => simp at he; subst he; exact ho
  · intro h; exact ⟨_, h, rfl⟩

theorem gens_same_log {s s' : Sys} (h : Gens s) (hl : s'.log = s.log) (hn : s.nextGen ≤ s'.nextGen)
    (hp : ∀ f ∈ pendingOf s'.reader, f ∈ pendingOf s.reader) (ht : s'.tasks = s.tasks) : Gens s' :=
  gens_quiet h (ext := []) (by simp [hl]) hn (by simp) (by simp) hp (fun t h' => ⟨t, ht ▸ h', rfl, rfl⟩)

theorem gens_stopAll {s : Sys} (hb : Book s) : ∀ (l : List (Id × Gen)) (s1 : Sys), (∀ p ∈ l, p ∈ s.subs) →
    s1.nextGen = s.nextGen → Gens s1 → Gens (stopAll s1 l) ∧ (stopAll s1 l).nextGen = s.nextGen ∧
    (stopAll s1 l).reader = s1.reader := by
  intro l
  induction l with
  | nil => intro s1 _ hn h; exact ⟨h, hn, rfl⟩
  | cons p rest ih =>
    intro s1 hsub hn h
    unfold stopAll
    have hp : p.2 < s1.nextGen := hn ▸ book_subGen_lt hb (hsub p (by simp))
    have h1 : Gens (callStop s1 p.2) := by
      have := gensP_callStop (p := pendingOf s1.reader) h hp s1.subs
      exact this
    obtain ⟨i1, i2, i3⟩ := ih (callStop s1 p.2) (fun q hq => hsub q (by simp [hq])) hn h1
    exact ⟨i1, i2, i3⟩

theorem gens_handleClose {s : Sys} (hb : Book s) (h : Gens s) : Gens (handleClose s) ∧ (handleClose s).reader = s.reader := by
  obtain ⟨i1, i2, i3⟩ := gens_stopAll hb s.subs s (fun _ hp => hp) rfl h
  unfold handleClose
  simp only []
  have base : Gens { stopAll s s.subs with subs := [], handlerClosed := true } :=
    gens_same_log i1 rfl (Nat.le_refl _) (fun _ hf => hf) rfl
  split
  · constructor
    · refine gens_quiet (s := { stopAll s s.subs with subs := [], handlerClosed := true }) base (ext := [.deregistered]) rfl
        (Nat.le_refl _) ?_ ?_ (fun _ hf => hf) (fun t ht => ⟨t, ht, rfl, rfl⟩)
      · intro o ho g hg; simp at ho; subst ho; cases hg
      · intro o ho g id k he; simp at ho; subst ho; cases he
    · exact i3
  · exact ⟨base, i3⟩

theorem gens_finishClosing {s : Sys} (hb : Book s) (h : Gens s) : Gens (finishClosing s) ∧ (finishClosing s).reader = s.reader := by
  unfold finishClosing
  split
  · exact ⟨h, rfl⟩
  · exact gens_handleClose (s := { s with finishOnce := true }) hb h

theorem gens_handleStop {s : Sys} (hb : Book s) (h : Gens s) (id : Id) : Gens (handleStop s id) := by
  unfold handleStop
  split
  · exact h
  · rename_i g hf
    exact gensP_callStop (p := pendingOf s.reader) h (book_subGen_lt hb (findSub_mem hf)) _

theorem gens_beginClosing {s : Sys} (h : Gens s) (c : Nat) : Gens (beginClosing s c) := by
  have b := beginClosing_same s c
  exact gens_same_log h b.1 (by rw [b.2.2.2.2.2.2.2.1]; exact Nat.le_refl _) (by rw [b.2.1]; exact fun _ hf => hf) b.2.2.2.1

theorem gens_handle {cfg : Cfg} {s : Sys} (hb : Book s) (h : Gens s) (hr : s.reader = .reading) (f : CFrame) :
    Gens (handle cfg s f) := by
  have hp0 : pendingOf s.reader = [] := by rw [hr]; rfl
  have he : Gens (emit s (.recv f s.didInit)) := by
    refine gens_quiet h (ext := [.recv f s.didInit]) rfl (Nat.le_refl _) ?_ ?_ (fun _ hf => hf) (fun t ht => ⟨t, ht, rfl, rfl⟩)
    · intro o ho g hg; simp at ho; subst ho; cases hg
    · intro o ho g id k he; simp at ho; subst ho; cases he
  have heP : GensP (emit s (.recv f s.didInit)) [] := by
    have := he; unfold Gens at this; rw [show pendingOf (emit s (.recv f s.didInit)).reader = [] from hp0] at this; exact this
  have plain : ∀ p : List SFrame, (∀ f ∈ p, f.gen? = none) → ∀ (s1 : Sys), GensP s1 [] → GensP s1 p := by
    intro p hp s1 h1
    refine ⟨h1.1, ?_, h1.2.2.1, h1.2.2.2⟩
    intro f hf g hg; rw [hp f hf] at hg; cases hg
  unfold handle
  cases f with
  | close =>
    simp only []; unfold readerExit
    have b := beginClosing_same { emit s (.recv CFrame.close s.didInit) with closeRecv := true } 1011
    refine gens_same_log (s := emit s (.recv CFrame.close s.didInit)) he b.1 ?_ ?_ b.2.2.2.1
    · show _ ≤ (beginClosing _ 1011).nextGen; rw [b.2.2.2.2.2.2.2.1]; exact Nat.le_refl _
    · intro f hf; cases hf
  | malformed => simp only []; split; exact he; exact gens_beginClosing he _
  | init ok =>
    cases ok <;> simp only [] <;> split
    · exact gens_pump (plain _ (by simp [SFrame.gen?]) _ heP) _ _
    · exact gens_beginClosing he _
    · exact gens_pump (s := { emit s _ with didInit := true }) (plain _ (by simp [SFrame.gen?]) _ heP) _ _
    · exact gens_pump (s := { emit s _ with didInit := true }) (plain _ (by simp [SFrame.gen?]) _ heP) _ _
  | start id k =>
    simp only []
    have hbel : Below { emit s (.recv (CFrame.start id k) s.didInit) with nextGen := s.nextGen + 1 } s.nextGen := by
      constructor
      · intro o ho g' hg'; exact he.1 o ho g' hg'
      · exact book_taskLt hb
    have hP : GensP { emit s (.recv (CFrame.start id k) s.didInit) with nextGen := s.nextGen + 1 } [] :=
      ⟨fun o ho g hg => Nat.lt_succ_of_lt (heP.1 o ho g hg), heP.2.1, heP.2.2.1, heP.2.2.2⟩
    split
    · show GensP _ (pendingOf s.reader)
      rw [hp0]; exact hP
    · apply gens_pump
      have hb' : Book { emit s (.recv (CFrame.start id k) s.didInit) with nextGen := s.nextGen + 1 } :=
        book_weaken (book_of_abs (absBook_emit _ _ rfl) hb) rfl rfl rfl (Nat.le_succ _) rfl (fun x => x) (fun x => x)
      exact gensP_handleStart hb' hP hbel rfl id k
  | startBad id => simp only []; split; exact he; split; exact he; exact gens_beginClosing he _
  | stop id =>
    simp only []; split; exact he
    exact gens_handleStop (book_of_abs (absBook_emit _ _ rfl) hb) he id
  | ping =>
    simp only []; split; exact he
    split
    · split; exact he; exact gens_pump (plain _ (by simp [SFrame.gen?]) _ heP) _ _
    · exact gens_beginClosing he _
  | pong => exact he
  | terminate => simp only []; split <;> exact gens_beginClosing he _
  | unknown => simp only []; split; exact he; exact gens_beginClosing he _


theorem findTask_some {ts : List Task} {g : Gen} {t : Task} (h : findTask ts g = some t) : t ∈ ts ∧ t.gen = g := by
  unfold findTask at h
  exact ⟨List.mem_of_find?_eq_some h, by simpa using List.find?_some h⟩

theorem setTask_ident (ts : List Task) (g : Gen) (f : Task → Task) (hf : ∀ t, (f t).gen = t.gen ∧ (f t).id = t.id) :
    ∀ t ∈ setTask ts g f, ∃ t0 ∈ ts, t0.gen = t.gen ∧ t0.id = t.id := by
  intro t ht
  obtain ⟨t0, h0, rfl⟩ := List.mem_map.mp ht
  refine ⟨t0, h0, ?_⟩
  split
  · exact ⟨(hf t0).1.symm, (hf t0).2.symm⟩
  · exact ⟨rfl, rfl⟩

theorem gens_writerStep {s : Sys} (hb : Book s) (hf : Fifo s) (h : Gens s) (pick : WPick) : Gens (writerStep s pick) := by
  have wire1 : ∀ f q, s.outgoing = f :: q → ∀ g, (Out.wire f).gen? = some g → g < s.nextGen := by
    intro f q ho g hg
    have := fifo_outgoing_sub hf f (by rw [ho]; simp)
    exact h.1 _ (mem_enqOf.mp this) g hg
  have keep : ∀ s' : Sys, s'.log = s.log → s'.nextGen = s.nextGen → s'.reader = s.reader → s'.tasks = s.tasks → Gens s' :=
    fun s' a b c d => gens_same_log h a (by rw [b]; exact Nat.le_refl _) (by rw [c]; exact fun _ x => x) d
  have one : ∀ (s' : Sys) (o : Out), s'.log = s.log ++ [o] → (∀ g, o.gen? = some g → g < s.nextGen) →
      (∀ g id k, o ≠ .started g id k) → s'.nextGen = s.nextGen → s'.reader = s.reader → s'.tasks = s.tasks → Gens s' := by
    intro s' o hl hg hs hn hr ht
    refine gens_quiet h hl (by rw [hn]; exact Nat.le_refl _) ?_ ?_ (by rw [hr]; exact fun _ x => x) (fun t h' => ⟨t, ht ▸ h', rfl, rfl⟩)
    · intro o' ho' g hg'; simp at ho'; subst ho'; rw [hn]; exact hg g hg'
    · intro o' ho' g id k; simp at ho'; subst ho'; exact hs g id k
  unfold writerStep
  split
  · cases pick <;> simp only []
    · split
      · exact h
      · rename_i f q ho
        split
        · exact one _ (.wire f) rfl (wire1 f q ho) (by intro g id k he; cases he) rfl rfl rfl
        · exact keep _ rfl rfl rfl rfl
    · split
      · exact h
      · exact keep _ rfl rfl rfl rfl
    · split
      · split
        · exact one _ (.closeFrame 1000) rfl (by intro g hg; cases hg) (by intro g id k he; cases he) rfl rfl rfl
        · exact keep _ rfl rfl rfl rfl
      · exact h
  · split
    · rename_i f q ho
      split
      · exact one _ (.wire f) rfl (wire1 f q ho) (by intro g id k he; cases he) rfl rfl rfl
      · exact keep _ rfl rfl rfl rfl
    · split
      · exact one _ (.closeFrame _) rfl (by intro g hg; cases hg) (by intro g id k he; cases he) rfl rfl rfl
      · exact keep _ rfl rfl rfl rfl
  · exact keep _ rfl rfl rfl rfl
  · split
    · obtain ⟨i1, i2⟩ := gens_finishClosing hb h
      exact gens_same_log i1 rfl (Nat.le_refl _) (fun _ x => x) rfl
    · exact h
  · exact h

theorem gens_subTaskStep {cfg : Cfg} {s : Sys} (hb : Book s) (h : Gens s) (g : Gen) : Gens (subTaskStep cfg s g) := by
  unfold subTaskStep
  split
  · exact h
  · rename_i t hft
    obtain ⟨htm, htg⟩ := findTask_some hft
    have hlt : t.gen < s.nextGen := book_taskLt hb t htm
    have send : ∀ (f : SFrame), f.gen? = some t.gen → ∀ pc : TaskPc,
        Gens (trySend cfg s f).1 ∧ Gens { (trySend cfg s f).1 with tasks := setTask (trySend cfg s f).1.tasks g (fun t => { t with pc := pc }) } := by
      intro f hfg pc
      rcases trySend_spec cfg s f with ⟨_, h2, _⟩ | ⟨_, h2, _⟩ | ⟨_, h2, _⟩ <;> rw [h2]
      · have base : Gens (emit { s with outgoing := s.outgoing ++ [f] } (.queued f)) := by
          refine gens_quiet h (ext := [.queued f]) rfl (Nat.le_refl _) ?_ ?_ (fun _ x => x) (fun t h' => ⟨t, h', rfl, rfl⟩)
          · intro o ho g' hg'; simp at ho; subst ho; simp [Out.gen?, hfg] at hg'; subst hg'; exact hlt
          · intro o ho g' id k he; simp at ho; subst ho; cases he
        refine ⟨base, ?_⟩
        exact gens_quiet base (ext := []) (by simp) (Nat.le_refl _) (by simp) (by simp) (fun _ x => x)
          (setTask_ident _ _ _ (fun _ => ⟨rfl, rfl⟩))
      · exact ⟨h, gens_quiet h (ext := []) (by simp) (Nat.le_refl _) (by simp) (by simp) (fun _ x => x)
          (setTask_ident _ _ _ (fun _ => ⟨rfl, rfl⟩))⟩
      · exact ⟨h, gens_quiet h (ext := []) (by simp) (Nat.le_refl _) (by simp) (by simp) (fun _ x => x)
          (setTask_ident _ _ _ (fun _ => ⟨rfl, rfl⟩))⟩
    split
    · split
      · refine gens_quiet h (ext := [.returned g]) rfl (Nat.le_refl _) ?_ ?_ (fun _ x => x) (setTask_ident _ _ _ (fun _ => ⟨rfl, rfl⟩))
        · intro o ho g' hg'; simp at ho; subst ho; simp [Out.gen?] at hg'; subst hg'; rw [← htg]; exact hlt
        · intro o ho g' id k he; simp at ho; subst ho; cases he
      · exact h
    · rename_i ev _
      have := send (.result t.id t.gen ev) rfl .select
      split
      · rename_i s' heq; have h1 := congrArg Prod.fst heq; simp at h1; rw [← h1]; exact this.1
      · rename_i s' r _ heq; have h1 := congrArg Prod.fst heq; simp at h1; rw [← h1]; exact this.2
    · have := send (.complete t.id t.gen) rfl .done
      split
      · rename_i s' heq; have h1 := congrArg Prod.fst heq; simp at h1; rw [← h1]; exact this.1
      · rename_i s' r _ heq; have h1 := congrArg Prod.fst heq; simp at h1; rw [← h1]; exact this.2
    · exact h

theorem gens_sourceStep {s : Sys} (hb : Book s) (h : Gens s) (g : Gen) (e : SrcEv) : Gens (sourceStep s g e) := by
  unfold sourceStep
  split
  · exact gens_quiet h (ext := []) (by simp) (Nat.le_refl _) (by simp) (by simp) (fun _ x => x)
      (setTask_ident _ _ _ (fun _ => ⟨rfl, rfl⟩))
  · split
    · exact h
    · rename_i n _ t hft
      obtain ⟨htm, htg⟩ := findTask_some hft
      split
      · refine gens_quiet h (ext := [.consumed g n]) rfl (Nat.le_refl _) ?_ ?_ (fun _ x => x) (setTask_ident _ _ _ (fun _ => ⟨rfl, rfl⟩))
        · intro o ho g' hg'; simp at ho; subst ho; simp [Out.gen?] at hg'; subst hg'; rw [← htg]; exact book_taskLt hb t htm
        · intro o ho g' id k he; simp at ho; subst ho; cases he
      · exact h

theorem gens_step {cfg : Cfg} {s : Sys} (hb : Book s) (hf : Fifo s) (h : Gens s) (e : Ev) : Gens (stepS cfg s e) := by
  unfold stepS
  cases e with
  | client f =>
    simp only []
    split
    · rename_i hx; simp at hx; exact gens_handle hb h hx.1 f
    · exact h
  | source g e => exact gens_sourceStep hb h g e
  | readerStep =>
    simp only []
    split
    · split
      · unfold readerExit
        have b := beginClosing_same s 1011
        refine gens_same_log h b.1 ?_ (fun f hf => by cases hf) b.2.2.2.1
        show _ ≤ (beginClosing s 1011).nextGen; rw [b.2.2.2.2.2.2.2.1]; exact Nat.le_refl _
      · exact h
    · rename_i p fc tc hr
      have : GensP s p := by have := h; unfold Gens at this; rw [hr] at this; exact this
      exact gens_pump this fc tc
    · exact h
  | writerStep pick => exact gens_writerStep hb hf h pick
  | subTaskStep g => exact gens_subTaskStep hb h g
  | netDrop => exact gens_same_log h rfl (Nat.le_refl _) (fun _ x => x) rfl
  | serverClose =>
    simp only []
    split
    · have h1 : Gens (if s.registered = true then emit { s with registered := false } Out.deregistered else s) := by
        split
        · refine gens_quiet h (ext := [.deregistered]) rfl (Nat.le_refl _) ?_ ?_ (fun _ x => x) (fun t h' => ⟨t, h', rfl, rfl⟩)
          · intro o ho g hg; simp at ho; subst ho; cases hg
          · intro o ho g id k he; simp at ho; subst ho; cases he
        · exact h
      exact gens_same_log (gens_beginClosing h1 1000) rfl (Nat.le_refl _) (fun _ x => x) rfl
    · split
      · obtain ⟨i1, i2⟩ := gens_finishClosing hb h
        exact gens_same_log i1 rfl (Nat.le_refl _) (fun _ x => x) rfl
      · exact h
    · exact h

end ApiFu.C08
