/-
  C08 — helper lemmas: what the send primitives (trySend, pump) append; logs only grow; only the write loop writes.
-/
import ApiFu.C08.Lemmas
namespace ApiFu.C08

/-! ### G3b: what the send primitives append -/

def pendingOf : ReaderPc → List SFrame
  | .sending p _ _ => p
  | _ => []

theorem beginClosing_same (s : Sys) (c : Nat) :
    (beginClosing s c).log = s.log ∧ (beginClosing s c).reader = s.reader ∧ (beginClosing s c).connOpen = s.connOpen ∧
    (beginClosing s c).tasks = s.tasks ∧ (beginClosing s c).didInit = s.didInit ∧ (beginClosing s c).writer = s.writer ∧
    (beginClosing s c).outgoing = s.outgoing ∧ (beginClosing s c).nextGen = s.nextGen ∧ (beginClosing s c).subs = s.subs := by
  unfold beginClosing; split <;> simp

theorem doneSending_same (s : Sys) (tc : Option Nat) :
    (doneSending s tc).log = s.log ∧ (doneSending s tc).reader = .reading ∧ (doneSending s tc).connOpen = s.connOpen ∧
    (doneSending s tc).tasks = s.tasks ∧ (doneSending s tc).didInit = s.didInit ∧ (doneSending s tc).writer = s.writer ∧
    (doneSending s tc).outgoing = s.outgoing ∧ (doneSending s tc).nextGen = s.nextGen ∧ (doneSending s tc).subs = s.subs := by
  unfold doneSending; split
  · have := beginClosing_same { s with reader := .reading } ‹_›
    simp_all
  · simp

/-- The outcome of a `trySend`. -/
theorem trySend_spec (cfg : Cfg) (s : Sys) (f : SFrame) :
    ((trySend cfg s f).2 = .ok ∧ (trySend cfg s f).1 = emit { s with outgoing := s.outgoing ++ [f] } (.queued f) ∧
        (cfg.sendFix && writerGone s) = false) ∨
    ((trySend cfg s f).2 = .failed ∧ (trySend cfg s f).1 = s ∧ cfg.sendFix = true ∧ writerGone s = true) ∨
    ((trySend cfg s f).2 = .blocked ∧ (trySend cfg s f).1 = s ∧ (cfg.sendFix && writerGone s) = false) := by
  unfold trySend
  split
  · rename_i h; simp at h; right; left; simp [h]
  · rename_i h; simp at h
    split
    · left; simp; simpa using h
    · right; right; simp; simpa using h

/-- What `pump` does with the list of messages it was given: a prefix `a` is queued (in order), and
    then either everything was sent, or the rest `b` stays pending in a blocked reader, or the rest
    was given up because the writer is gone. Nothing else is logged; handler fields are untouched. -/
theorem pump_spec (cfg : Cfg) (p : List SFrame) (fc : Bool) (tc : Option Nat) : ∀ s : Sys,
    ∃ a b, p = a ++ b ∧ (pump cfg s p fc tc).log = s.log ++ a.map Out.queued ∧
      (pump cfg s p fc tc).tasks = s.tasks ∧ (pump cfg s p fc tc).didInit = s.didInit ∧
      (pump cfg s p fc tc).connOpen = s.connOpen ∧ (pump cfg s p fc tc).nextGen = s.nextGen ∧
      (pump cfg s p fc tc).writer = s.writer ∧ (pump cfg s p fc tc).subs = s.subs ∧
      (((pump cfg s p fc tc).reader = .sending b fc tc ∧ b ≠ [] ∧ (cfg.sendFix && writerGone s) = false) ∨
       ((pump cfg s p fc tc).reader = .reading ∧ (b = [] ∨ (cfg.sendFix = true ∧ writerGone s = true)))) := by
  induction p with
  | nil =>
    intro s
    refine ⟨[], [], rfl, ?_⟩
    unfold pump
    have := doneSending_same s tc
    simp [this]
  | cons f rest ih =>
    intro s
    unfold pump
    rcases trySend_spec cfg s f with ⟨h1, h2, h3⟩ | ⟨h1, h2, h3, h4⟩ | ⟨h1, h2, h3⟩
    · have hp : trySend cfg s f = (emit { s with outgoing := s.outgoing ++ [f] } (.queued f), .ok) := by
        rw [← h2, ← h1]
      rw [hp]; simp only []
      obtain ⟨a, b, e1, e2, e3, e4, e5, e6, e7, e8, e9⟩ := ih (emit { s with outgoing := s.outgoing ++ [f] } (.queued f))
      refine ⟨f :: a, b, by rw [e1]; rfl, ?_, e3, e4, e5, e6, e7, e8, ?_⟩
      · rw [e2]; simp [emit]
      · have hg : writerGone (emit { s with outgoing := s.outgoing ++ [f] } (.queued f)) = writerGone s := rfl
        rw [hg] at e9; exact e9
    · have hp : trySend cfg s f = (s, .failed) := Prod.ext h2 h1
      rw [hp]; simp only []
      refine ⟨[], f :: rest, rfl, ?_⟩
      have d := doneSending_same (if fc = true then beginClosing s 1011 else s) tc
      have b := beginClosing_same s 1011
      cases fc <;> simp_all
    · have hp : trySend cfg s f = (s, .blocked) := Prod.ext h2 h1
      rw [hp]; simp only []
      refine ⟨[], f :: rest, rfl, ?_⟩
      simp [h3]


/-! ### Logs only grow; `didInit` is never reset; only the write loop writes -/

def Out.notWire : Out → Bool
  | .wire _ => false
  | _ => true

/-- `s'` extends `s`: the log grew, `didInit` was not reset. -/
def Ext (s s' : Sys) : Prop := (∃ ext, s'.log = s.log ++ ext) ∧ (s.didInit = true → s'.didInit = true)

/-- … and nothing was written to the socket. -/
def ExtNW (s s' : Sys) : Prop :=
  (∃ ext, s'.log = s.log ++ ext ∧ ∀ o ∈ ext, o.notWire = true) ∧ (s.didInit = true → s'.didInit = true)

theorem ExtNW.ext {s s' : Sys} (h : ExtNW s s') : Ext s s' := by
  obtain ⟨⟨e, h1, _⟩, h2⟩ := h; exact ⟨⟨e, h1⟩, h2⟩

theorem Ext.refl (s : Sys) : Ext s s := ⟨⟨[], by simp⟩, fun h => h⟩
theorem Ext.trans {a b c : Sys} (h1 : Ext a b) (h2 : Ext b c) : Ext a c := by
  obtain ⟨⟨e1, h1⟩, d1⟩ := h1
  obtain ⟨⟨e2, h2⟩, d2⟩ := h2
  exact ⟨⟨e1 ++ e2, by rw [h2, h1]; simp⟩, fun h => d2 (d1 h)⟩

theorem ExtNW.refl (s : Sys) : ExtNW s s := ⟨⟨[], by simp, by simp⟩, fun h => h⟩
theorem ExtNW.trans {a b c : Sys} (h1 : ExtNW a b) (h2 : ExtNW b c) : ExtNW a c := by
  obtain ⟨⟨e1, h1, n1⟩, d1⟩ := h1
  obtain ⟨⟨e2, h2, n2⟩, d2⟩ := h2
  refine ⟨⟨e1 ++ e2, by rw [h2, h1]; simp, ?_⟩, fun h => d2 (d1 h)⟩
  intro o ho; rcases List.mem_append.mp ho with ho | ho
  · exact n1 o ho
  · exact n2 o ho

theorem ext_of_eq {s s' : Sys} (h1 : s'.log = s.log) (h2 : s'.didInit = s.didInit) : ExtNW s s' :=
  ⟨⟨[], by simp [h1], by simp⟩, fun h => by rw [h2]; exact h⟩

theorem ext_emit (s : Sys) (o : Out) (hn : o.notWire = true := by rfl) : ExtNW s (emit s o) :=
  ⟨⟨[o], rfl, by intro o' ho'; simp at ho'; subst ho'; exact hn⟩, fun h => h⟩

theorem ext_beginClosing (s : Sys) (c : Nat) : ExtNW s (beginClosing s c) :=
  ext_of_eq (beginClosing_same s c).1 (beginClosing_same s c).2.2.2.2.1

theorem ext_pump (cfg : Cfg) (s : Sys) (p : List SFrame) (fc : Bool) (tc : Option Nat) : ExtNW s (pump cfg s p fc tc) := by
  obtain ⟨a, b, _, h2, _, h4, _⟩ := pump_spec cfg p fc tc s
  refine ⟨⟨_, h2, ?_⟩, fun h => by rw [h4]; exact h⟩
  intro o ho; obtain ⟨f, _, rfl⟩ := List.mem_map.mp ho; rfl

theorem ext_trySend (cfg : Cfg) (s : Sys) (f : SFrame) : ExtNW s (trySend cfg s f).1 := by
  rcases trySend_spec cfg s f with ⟨_, h2, _⟩ | ⟨_, h2, _⟩ | ⟨_, h2, _⟩ <;> rw [h2]
  · exact ext_emit _ _
  · exact ExtNW.refl s
  · exact ExtNW.refl s

theorem ext_callStop (s : Sys) (g : Gen) : ExtNW s (callStop s g) :=
  ⟨⟨[.stop g], rfl, by simp [Out.notWire]⟩, fun h => h⟩

theorem ext_stopAll (l : List (Id × Gen)) : ∀ s : Sys, ExtNW s (stopAll s l) := by
  induction l with
  | nil => intro s; exact ExtNW.refl s
  | cons p rest ih => intro s; unfold stopAll; exact (ext_callStop s p.2).trans (ih _)

theorem ext_handleClose (s : Sys) : ExtNW s (handleClose s) := by
  unfold handleClose
  simp only []
  have h := ext_stopAll s.subs s
  split
  · exact (h.trans (ext_of_eq rfl rfl)).trans (ext_emit _ _)
  · exact h.trans (ext_of_eq rfl rfl)

theorem ext_finishClosing (s : Sys) : ExtNW s (finishClosing s) := by
  unfold finishClosing; split
  · exact ExtNW.refl s
  · exact (ext_of_eq (s' := { s with finishOnce := true }) rfl rfl).trans (ext_handleClose _)

theorem ext_admitSub {cfg : Cfg} {s s' : Sys} {id : Id} (h : admitSub cfg s id = some s') : ExtNW s s' := by
  unfold admitSub at h
  split at h
  · cases h; exact ExtNW.refl s
  · split at h
    · cases h; exact (ext_of_eq (s' := { s with subs := eraseSub s.subs id }) rfl rfl).trans (ext_callStop _ _)
    · cases h

theorem ext_startSync (s : Sys) (g : Gen) (id : Id) (k : OpKind) (e : Bool) : ExtNW s (startSync s g id k e).1 := by
  unfold startSync; cases e
  · exact ext_emit _ _
  · exact (ext_emit _ _).trans (ext_emit _ _)

theorem ext_handleStart (cfg : Cfg) (s : Sys) (g : Gen) (id : Id) (k : OpKind) : ExtNW s (handleStart cfg s g id k).1 := by
  unfold handleStart
  cases k <;> simp only []
  · exact ext_startSync _ _ _ _ _
  · exact ext_startSync _ _ _ _ _
  · split
    · exact ExtNW.refl s
    · rename_i s' ha
      apply (ext_admitSub ha).trans
      unfold startSub
      exact ((ext_emit _ _).trans (ext_emit _ _)).trans (ext_of_eq rfl rfl)
  · split
    · exact ExtNW.refl s
    · rename_i s' ha; exact (ext_admitSub ha).trans (ext_startSync _ _ _ _ _)
  · exact ext_startSync _ _ _ _ _

theorem ext_handleStop (s : Sys) (id : Id) : ExtNW s (handleStop s id) := by
  unfold handleStop; split
  · exact ExtNW.refl s
  · exact (ext_of_eq (s' := { s with subs := eraseSub s.subs id }) rfl rfl).trans (ext_callStop _ _)

theorem ext_readerExit (s : Sys) : ExtNW s (readerExit s) := by
  unfold readerExit
  exact (ext_beginClosing s 1011).trans (ext_of_eq rfl rfl)

theorem ext_handle (cfg : Cfg) (s : Sys) (f : CFrame) : ExtNW s (handle cfg s f) := by
  have he := ext_emit s (.recv f s.didInit)
  apply he.trans
  unfold handle
  cases f with
  | close => exact (ext_of_eq (s' := { emit s _ with closeRecv := true }) rfl rfl).trans (ext_readerExit _)
  | malformed => simp only []; split; exact ExtNW.refl _; exact ext_beginClosing _ _
  | init ok =>
    cases ok <;> simp only [] <;> split
    · exact ext_pump _ _ _ _ _
    · exact ext_beginClosing _ _
    · exact (show ExtNW (emit s _) { emit s _ with didInit := true } from ⟨⟨[], by simp, by simp⟩, fun _ => rfl⟩).trans (ext_pump _ _ _ _ _)
    · exact (show ExtNW (emit s _) { emit s _ with didInit := true } from ⟨⟨[], by simp, by simp⟩, fun _ => rfl⟩).trans (ext_pump _ _ _ _ _)
  | start id k =>
    simp only []
    split
    · exact ext_of_eq rfl rfl
    · exact ((ext_of_eq (s' := { emit s _ with nextGen := s.nextGen + 1 }) rfl rfl).trans (ext_handleStart _ _ _ _ _)).trans (ext_pump _ _ _ _ _)
  | startBad id => simp only []; split; exact ExtNW.refl _; split; exact ExtNW.refl _; exact ext_beginClosing _ _
  | stop id => simp only []; split; exact ExtNW.refl _; exact ext_handleStop _ _
  | ping =>
    simp only []; split; exact ExtNW.refl _
    split
    · split; exact ExtNW.refl _; exact ext_pump _ _ _ _ _
    · exact ext_beginClosing _ _
  | pong => exact ExtNW.refl _
  | terminate => simp only []; split <;> exact ext_beginClosing _ _
  | unknown => simp only []; split; exact ExtNW.refl _; exact ext_beginClosing _ _

theorem ext_emit' (s : Sys) (o : Out) : Ext s (emit s o) := ⟨⟨[o], rfl⟩, fun h => h⟩

theorem ext_writerStep (s : Sys) (pick : WPick) : Ext s (writerStep s pick) := by
  unfold writerStep
  split
  · cases pick <;> simp only []
    · split
      · exact Ext.refl s
      · split
        · exact (ext_of_eq (s' := { s with outgoing := _ }) rfl rfl).ext.trans (ext_emit' _ _)
        · exact (ext_of_eq rfl rfl).ext
    · split <;> first | exact Ext.refl s | exact (ext_of_eq rfl rfl).ext
    · split
      · split
        · exact (ext_emit' _ _).trans (ext_of_eq rfl rfl).ext
        · exact (ext_of_eq rfl rfl).ext
      · exact Ext.refl s
  · split
    · split
      · exact (ext_of_eq (s' := { s with outgoing := _ }) rfl rfl).ext.trans (ext_emit' _ _)
      · exact (ext_of_eq rfl rfl).ext
    · split
      · exact (ext_emit' _ _).trans (ext_of_eq rfl rfl).ext
      · exact (ext_of_eq rfl rfl).ext
  · exact (ext_of_eq rfl rfl).ext
  · split
    · exact ((ext_finishClosing s).trans (ext_of_eq rfl rfl)).ext
    · exact Ext.refl s
  · exact Ext.refl s

theorem ext_subTaskStep (cfg : Cfg) (s : Sys) (g : Gen) : ExtNW s (subTaskStep cfg s g) := by
  unfold subTaskStep
  split
  · exact ExtNW.refl s
  · split
    · split
      · exact (ext_of_eq (s' := { s with tasks := _ }) rfl rfl).trans (ext_emit _ _)
      · exact ExtNW.refl s
    · split
      · rename_i s' heq; have h1 := congrArg Prod.fst heq; simp at h1; rw [← h1]; exact ext_trySend _ _ _
      · rename_i s' r _ heq; have h1 := congrArg Prod.fst heq; simp at h1
        exact (h1 ▸ ext_trySend cfg s _).trans (ext_of_eq rfl rfl)
    · split
      · rename_i s' heq; have h1 := congrArg Prod.fst heq; simp at h1; rw [← h1]; exact ext_trySend _ _ _
      · rename_i s' r _ heq; have h1 := congrArg Prod.fst heq; simp at h1
        exact (h1 ▸ ext_trySend cfg s _).trans (ext_of_eq rfl rfl)
    · exact ExtNW.refl s

theorem ext_sourceStep (s : Sys) (g : Gen) (e : SrcEv) : ExtNW s (sourceStep s g e) := by
  unfold sourceStep
  split
  · exact ext_of_eq rfl rfl
  · split
    · exact ExtNW.refl s
    · split
      · exact (ext_of_eq (s' := { s with tasks := _ }) rfl rfl).trans (ext_emit _ _)
      · exact ExtNW.refl s

/-- Only the write loop writes: every other step leaves the wire alone. -/
theorem extNW_step (cfg : Cfg) (s : Sys) (e : Ev) (hw : ∀ pick, e ≠ .writerStep pick) : ExtNW s (stepS cfg s e) := by
  unfold stepS
  cases e with
  | client f => simp only []; split; exact ext_handle _ _ _; exact ExtNW.refl s
  | source g e => exact ext_sourceStep _ _ _
  | readerStep =>
    simp only []
    split
    · split
      · exact ext_readerExit s
      · exact ExtNW.refl s
    · exact ext_pump _ _ _ _ _
    · exact ExtNW.refl s
  | writerStep pick => exact absurd rfl (hw pick)
  | subTaskStep g => exact ext_subTaskStep _ _ _
  | netDrop => exact ext_of_eq rfl rfl
  | serverClose =>
    simp only []
    split
    · have h1 : ExtNW s (if s.registered = true then emit { s with registered := false } Out.deregistered else s) := by
        split
        · exact (ext_of_eq (s' := { s with registered := false }) rfl rfl).trans (ext_emit _ _)
        · exact ExtNW.refl s
      exact (h1.trans (ext_beginClosing _ _)).trans (ext_of_eq rfl rfl)
    · split
      · exact (ext_finishClosing s).trans (ext_of_eq rfl rfl)
      · exact ExtNW.refl s
    · exact ExtNW.refl s

theorem ext_step (cfg : Cfg) (s : Sys) (e : Ev) : Ext s (stepS cfg s e) := by
  cases e with
  | writerStep pick => exact ext_writerStep s pick
  | client f => exact (extNW_step cfg s _ (by intro p h; cases h)).ext
  | source g e => exact (extNW_step cfg s _ (by intro p h; cases h)).ext
  | readerStep => exact (extNW_step cfg s _ (by intro p h; cases h)).ext
  | subTaskStep g => exact (extNW_step cfg s _ (by intro p h; cases h)).ext
  | netDrop => exact (extNW_step cfg s _ (by intro p h; cases h)).ext
  | serverClose => exact (extNW_step cfg s _ (by intro p h; cases h)).ext

theorem ext_run (cfg : Cfg) (evs : List Ev) : ∀ s, Ext s (run cfg s evs) := by
  induction evs with
  | nil => intro s; exact Ext.refl s
  | cons e es ih => intro s; exact (ext_step cfg s e).trans (ih _)

end ApiFu.C08
