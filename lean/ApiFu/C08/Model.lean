/-
  C08 — executable model of a GraphQL WebSocket session of api-fu, as an interleaving transition
  system. Core Lean only (linked into the driver `c08model`).

  What is transliterated (Go files of the pinned tree with the four C08 fix patches applied):

  * graphql/transport/graphqlws/connection.go and graphql/transport/graphqltransportws/connection.go
      - `handleMessage` dispatch of both sub-protocols (message type → action, the `didInit` gates,
        what is sent for an init, the close codes 1000/1011/4400/4403)                 → `handle`
      - `sendMessage` (a channel send on the bounded `outgoing` buffer; after fix 03 it also
        selects on `writeLoopDone`)                                                     → `trySend`, `pump`
      - `readLoop` (read error / close frame → deferred `beginClosing(1011)`, `close(readLoopDone)`) → `readerExit`
      - `writeLoop` (main select: outgoing | closeMessage | closeReceived; the drain-then-close
        handshake; wait for the echo; deferred `conn.Close()`, `close(writeLoopDone)`,
        `finishClosing()`)                                                              → `writerStep`
      - `beginClosing` / `finishClosing` with their `sync.Once` guards, `Close()`        → `beginClosing`, `finishClosing`
  * graphqlws.go: `HandleStart` / `HandleStop` / `HandleClose`, the `subscriptions` map, the
    per-subscription goroutine, the registry, `CloseHijackedConnections`                → `handleStart`, `handleStop`, `handleClose`, `Ev.serverClose`
  * subscription.go: the `Run` select loop (ctx cancelled | event | channel closed)     → `subTaskStep`, `Ev.source`

  Granularity: every Go statement sequence that runs between two channel operations of one
  goroutine is one atomic step. The schedule (which goroutine moves, which ready `select` branch is
  taken) is the event list, so `stepS` is a function and "for every schedule" is "for every
  `List Ev`". An event that is not enabled in the current state is a stutter step.

  Not modelled: the 15 s keep-alive ticker (no harness session lasts that long; a ticker frame is a
  connection-level `ka`/`pong` that is not tied to any operation), JSON encoding, the GraphQL
  executor (an operation is its kind), TCP (a write on a dropped connection fails at once; in the
  implementation it may succeed a few more times into the kernel buffer — unobservable by the peer),
  Go's map iteration order in `HandleClose` (the model stops subscriptions in list order; only
  per-source counts are observable), logging.

  Three of the four defects fixed by /verif/repo-patches/C08 are switchable (`Cfg.pingFix`,
  `reuseFix`, `sendFix`, all `true` by default): the theorems hold for every `Cfg` unless they name a
  switch, the pre-fix behaviour is kept to state the negation witnesses. Fix 04 (registration and
  `Serve` under one lock) is what makes the model's initial state — registered *and* serving — the
  first state any other goroutine can see.
-/
namespace ApiFu.C08

inductive Proto where
  | ws        -- "graphql-ws" (legacy, subscriptions-transport-ws)
  | tws       -- "graphql-transport-ws"
  deriving DecidableEq, Repr, Inhabited

abbrev Id := Nat     -- operation id chosen by the client (a string in Go; the harness numbers them)
abbrev Gen := Nat    -- ghost: serial number of the `start`/`subscribe` frame (0,1,2,… in reading order)

inductive OpKind where
  | query | mutation
  | subscription        -- `graphql.Subscribe` succeeds: a source stream is created
  | subFail             -- a subscription whose `Subscribe` returns errors (answered like a query)
  | invalid             -- the document fails ParseAndValidate (answered with an error result)
  deriving DecidableEq, Repr, Inhabited

/-- Client frames. `start`/`stop` are the protocol's own names for them (`start`/`stop` in
    graphql-ws, `subscribe`/`complete` in graphql-transport-ws). -/
inductive CFrame where
  | init (ok : Bool)                 -- connection_init; `ok = false`: HandleGraphQLWSInit returns an error
  | start (id : Id) (k : OpKind)     -- with a decodable payload
  | startBad (id : Id)               -- start/subscribe whose payload does not decode
  | stop (id : Id)
  | ping | pong
  | terminate                        -- connection_terminate (a graphql-ws message type)
  | unknown                          -- any other message type
  | malformed                        -- not a JSON message object
  | close                            -- WebSocket close control frame
  deriving DecidableEq, Repr, Inhabited

/-- Server messages (what is put on `outgoing`). `gen` is ghost. -/
inductive SFrame where
  | connError | ack | ka | pong
  | result (id : Id) (gen : Gen) (ev : Nat)     -- data / next; `ev = 0` for a query result, else the source event
  | complete (id : Id) (gen : Gen)
  deriving DecidableEq, Repr, Inhabited

/-- Which ready branch the writer's main `select` takes. -/
inductive WPick where
  | outgoing | closeMsg | closeRecv
  deriving DecidableEq, Repr, Inhabited

inductive SrcEv where
  | event (n : Nat)      -- the harness offers event `n` on the source's channel
  | ended                -- the harness closes the source's channel
  deriving DecidableEq, Repr, Inhabited

inductive Ev where
  | client (f : CFrame)            -- the reader goroutine reads (and handles) the next client frame
  | source (g : Gen) (e : SrcEv)
  | readerStep                     -- the reader retries a blocked send / notices a closed connection
  | writerStep (pick : WPick)
  | subTaskStep (g : Gen)
  | netDrop                        -- the TCP connection dies
  | serverClose                    -- API.CloseHijackedConnections (first occurrence: begin; later: its finishClosing)
  deriving DecidableEq, Repr, Inhabited

/-- Outputs. `wire`, `closeFrame`, `exec`, `stop`, `deregistered` are observable by the harness;
    `recv`, `queued`, `started`, `consumed`, `returned` are ghost marks used to state the theorems. -/
inductive Out where
  | wire (f : SFrame)                         -- message written to the socket
  | closeFrame (code : Nat)                   -- close control frame written
  | exec (g : Gen) (k : OpKind)               -- the executor / Subscribe ran for operation g
  | stop (g : Gen)                            -- Stop() called on the source stream of subscription g
  | deregistered                              -- the connection left API.graphqlWSConnections
  | recv (f : CFrame) (inited : Bool)         -- ghost: the reader handled this frame; `didInit` at that moment
  | queued (f : SFrame)                       -- ghost: accepted by the `outgoing` buffer
  | started (g : Gen) (id : Id) (k : OpKind)  -- ghost: HandleStart accepted the operation
  | consumed (g : Gen) (n : Nat)              -- ghost: the sub-task received source event n
  | returned (g : Gen)                        -- ghost: `Run` of subscription g returned (its `ended` channel is closed)
  deriving DecidableEq, Repr, Inhabited

structure Cfg where
  proto : Proto
  /-- `connectionSendBufferSize` -/
  cap : Nat := 100
  /-- fix 01 (F-08a): graphql-transport-ws answers `ping` with `pong` (after init) instead of closing 4400 -/
  pingFix : Bool := true
  /-- fix 02 (F-08b): a start whose id belongs to a subscription that already ran to completion replaces it -/
  reuseFix : Bool := true
  /-- fix 03 (F-08c): `sendMessage` also selects on `writeLoopDone` -/
  sendFix : Bool := true
  deriving Repr

inductive TaskPc where
  | select                   -- blocked in `reflect.Select` (ctx.Done | event channel)
  | sendData (ev : Nat)      -- inside onEvent → SendData (channel send on `outgoing`)
  | sendComplete             -- `Run` returned (the `ended` channel is closed); inside SendComplete
  | done
  deriving DecidableEq, Repr, Inhabited

structure Task where
  gen : Gen
  id : Id
  pc : TaskPc := .select
  cancelled : Bool := false      -- the subscription's context is cancelled (its Stop wrapper ran)
  chanClosed : Bool := false     -- the source's event channel is closed
  deriving DecidableEq, Repr, Inhabited

inductive ReaderPc where
  | reading
  /-- blocked inside handleMessage in a `sendMessage`: frames still to send; whether a failed send
      calls `beginClosing(1011)` (ack / keep-alive); the `beginClosing` that follows the sends. -/
  | sending (pending : List SFrame) (failClose : Bool) (thenClose : Option Nat)
  | done                     -- readLoop returned, `readLoopDone` closed
  deriving DecidableEq, Repr, Inhabited

inductive WriterPc where
  | loop                     -- main select
  | draining (code : Nat)    -- took `closeMessage`; in the drain loop
  | closeWait                -- close frame written (or failed); waiting for closeReceived | readLoopDone | 1 s
  | exited                   -- returned: conn.Close(), close(writeLoopDone); in finishClosing waiting for readLoopDone
  | finished
  deriving DecidableEq, Repr, Inhabited

inductive CloserPc where
  | idle | waiting | done
  deriving DecidableEq, Repr, Inhabited

structure Sys where
  didInit : Bool := false
  beginOnce : Bool := false          -- beginClosingOnce has fired
  closeMsg : Option Nat := none      -- content of the `closeMessage` channel (capacity 1)
  closeRecv : Bool := false          -- `closeReceived` is closed
  outgoing : List SFrame := []       -- head = oldest
  reader : ReaderPc := .reading
  writer : WriterPc := .loop
  connOpen : Bool := true            -- the net.Conn is usable
  finishOnce : Bool := false         -- finishClosingOnce has fired
  closer : CloserPc := .idle         -- the goroutine inside CloseHijackedConnections → Close()
  ctxCancelled : Bool := false       -- Handler.Cancel() ran
  subs : List (Id × Gen) := []       -- graphqlWSHandler.subscriptions
  tasks : List Task := []            -- one per subscription goroutine ever started (ghost once `done`)
  handlerClosed : Bool := false      -- HandleClose ran
  registered : Bool := true          -- connection ∈ API.graphqlWSConnections
  nextGen : Gen := 0
  /-- a Go statement that would block forever / panic was reached although the code assumes it
      cannot (second send on `closeMessage`). Proved unreachable (`no_fault`). -/
  fault : Bool := false
  log : List Out := []
  deriving Repr, Inhabited

def init : Sys := {}

def emit (s : Sys) (o : Out) : Sys := { s with log := s.log ++ [o] }

def writerGone (s : Sys) : Bool :=
  match s.writer with
  | .exited | .finished => true
  | _ => false

/-- connection.go `beginClosing`: once { closeMessage <- …; close(c.close); Handler.Cancel() }. -/
def beginClosing (s : Sys) (code : Nat) : Sys :=
  if s.beginOnce then s
  else { s with beginOnce := true, closeMsg := some code, ctxCancelled := true,
                fault := s.fault || s.closeMsg.isSome }

inductive SendRes where
  | ok | failed | blocked
  deriving DecidableEq, Repr

/-- connection.go `sendMessage` with `context.Background()`: a select on `outgoing <-` and (fix 03)
    `<-writeLoopDone`. Once the writer has returned nothing observes the buffer any more, so the
    model lets the `writeLoopDone` branch win. -/
def trySend (cfg : Cfg) (s : Sys) (f : SFrame) : Sys × SendRes :=
  if cfg.sendFix && writerGone s then (s, .failed)
  else if s.outgoing.length < cfg.cap then
    (emit { s with outgoing := s.outgoing ++ [f] } (.queued f), .ok)
  else (s, .blocked)

/-- All sends of one handleMessage call are through (or were given up): back to `ReadMessage`, after
    the `beginClosing` that follows them in the Go code, if any. -/
def doneSending (s : Sys) (thenClose : Option Nat) : Sys :=
  match thenClose with
  | some c => beginClosing { s with reader := .reading } c
  | none => { s with reader := .reading }

/-- The reader goroutine works through the sends of one handleMessage call. A failed send is logged
    by the Go code (for the ack / keep-alive it also calls `beginClosing(1011)`) and the following
    sends fail the same way (the writer stays gone). -/
def pump (cfg : Cfg) (s : Sys) : List SFrame → Bool → Option Nat → Sys
  | [], _, thenClose => doneSending s thenClose
  | f :: rest, failClose, thenClose =>
    match trySend cfg s f with
    | (s', .ok) => pump cfg s' rest failClose thenClose
    | (s', .failed) => doneSending (if failClose then beginClosing s' 1011 else s') thenClose
    | (s', .blocked) => { s' with reader := .sending (f :: rest) failClose thenClose }

def findSub (subs : List (Id × Gen)) (id : Id) : Option Gen :=
  match subs.find? (fun p => p.1 == id) with
  | some p => some p.2
  | none => none

def setTask (tasks : List Task) (g : Gen) (f : Task → Task) : List Task :=
  tasks.map (fun t => if t.gen == g then f t else t)

def findTask (tasks : List Task) (g : Gen) : Option Task := tasks.find? (fun t => t.gen == g)

/-- `ended` is closed: `Run` has returned. -/
def taskEnded (s : Sys) (g : Gen) : Bool :=
  match findTask s.tasks g with
  | some t => t.pc == .sendComplete || t.pc == .done
  | none => false

/-- The `Stop` wrapper of graphqlws.go: the application's Stop(), then cancel(). -/
def callStop (s : Sys) (g : Gen) : Sys :=
  emit { s with tasks := setTask s.tasks g (fun t => { t with cancelled := true }) } (.stop g)

def eraseSub (subs : List (Id × Gen)) (id : Id) : List (Id × Gen) := subs.filter (fun p => p.1 != id)

/-- The duplicate-id check of `HandleStart` for subscription operations. `none`: "if the
    subscription already exists, ignore this message". Otherwise the state to continue from: the
    unchanged one, or (fix 02) the one in which the ended subscription holding the id was released
    (its Stop() called, its map entry deleted). -/
def admitSub (cfg : Cfg) (s : Sys) (id : Id) : Option Sys :=
  match findSub s.subs id with
  | none => some s
  | some g' =>
    if cfg.reuseFix && taskEnded s g' then some (callStop { s with subs := eraseSub s.subs id } g')
    else none

/-- An operation that is answered on the read loop: SendData then SendComplete. `exec`: whether a
    resolver runs for it. -/
def startSync (s : Sys) (g : Gen) (id : Id) (k : OpKind) (exec : Bool) : Sys × List SFrame :=
  let s := emit s (.started g id k)
  (if exec then emit s (.exec g k) else s, [.result id g 0, .complete id g])

/-- `graphql.Subscribe` succeeded: the map entry and the subscription goroutine. -/
def startSub (s : Sys) (g : Gen) (id : Id) : Sys :=
  let s := emit (emit s (.started g id .subscription)) (.exec g .subscription)
  { s with subs := (id, g) :: s.subs, tasks := s.tasks ++ [{ gen := g, id := id }] }

/-- graphqlws.go `HandleStart` for operation `g`. Returns the state and the messages to send. -/
def handleStart (cfg : Cfg) (s : Sys) (g : Gen) (id : Id) (k : OpKind) : Sys × List SFrame :=
  match k with
  | .invalid => startSync s g id k false
  | .query | .mutation =>
    -- the executor refuses to call resolvers once the connection's context is cancelled
    -- (executor.go executeField: `e.Context.Err()`); the operation is answered with that error
    startSync s g id k (!s.ctxCancelled)
  | .subFail =>
    match admitSub cfg s id with
    | none => (s, [])
    | some s => startSync s g id k true
  | .subscription =>
    match admitSub cfg s id with
    | none => (s, [])
    | some s => (startSub s g id, [])

def handleStop (s : Sys) (id : Id) : Sys :=
  match findSub s.subs id with
  | none => s
  | some g => callStop { s with subs := eraseSub s.subs id } g

def stopAll (s : Sys) : List (Id × Gen) → Sys
  | [] => s
  | p :: rest => stopAll (callStop s p.2) rest

def handleClose (s : Sys) : Sys :=
  let s := stopAll s s.subs
  let s := { s with subs := [], handlerClosed := true }
  if s.registered then emit { s with registered := false } .deregistered else s

/-- connection.go `finishClosing` once both loops are done. -/
def finishClosing (s : Sys) : Sys :=
  if s.finishOnce then s else handleClose { s with finishOnce := true }

/-- writeLoop returns: deferred conn.Close(), close(writeLoopDone). -/
def writerExit (s : Sys) : Sys := { s with writer := .exited, connOpen := false }

/-- readLoop returns: deferred beginClosing(1011, "read error"), close(readLoopDone). -/
def readerExit (s : Sys) : Sys := { beginClosing s 1011 with reader := .done }

/-- `handleMessage` (reader in `reading`, connection readable). -/
def handle (cfg : Cfg) (s : Sys) (f : CFrame) : Sys :=
  let s := emit s (.recv f s.didInit)
  match f with
  | .close => readerExit { s with closeRecv := true }
  | .malformed =>
    match cfg.proto with
    | .ws => s
    | .tws => beginClosing s 4400
  | .init true =>
    let s := { s with didInit := true }
    match cfg.proto with
    | .ws => pump cfg s [.ack, .ka] true none
    | .tws => pump cfg s [.ack] true none
  | .init false =>
    match cfg.proto with
    | .ws => pump cfg s [.connError] false (some 1011)
    | .tws => beginClosing s 4403
  | .start id k =>
    let g := s.nextGen
    let s := { s with nextGen := s.nextGen + 1 }
    if !s.didInit then s
    else
      let (s, sends) := handleStart cfg s g id k
      pump cfg s sends false none
  | .startBad _ =>
    match cfg.proto with
    | .ws => s
    | .tws => if !s.didInit then s else beginClosing s 4400
  | .stop id => if !s.didInit then s else handleStop s id
  | .ping =>
    match cfg.proto with
    | .ws => s
    | .tws =>
      if cfg.pingFix then (if !s.didInit then s else pump cfg s [.pong] false none)
      else beginClosing s 4400
  | .pong => s
  | .terminate =>
    match cfg.proto with
    | .ws => beginClosing s 1000
    | .tws => beginClosing s 4400
  | .unknown =>
    match cfg.proto with
    | .ws => s
    | .tws => beginClosing s 4400

def writerStep (s : Sys) (pick : WPick) : Sys :=
  match s.writer with
  | .loop =>
    match pick with
    | .outgoing =>
      match s.outgoing with
      | [] => s
      | f :: q =>
        if s.connOpen then emit { s with outgoing := q } (.wire f)
        else writerExit { s with outgoing := q }            -- write error → return
    | .closeMsg =>
      match s.closeMsg with
      | none => s
      | some c => { s with closeMsg := none, writer := .draining c }
    | .closeRecv =>
      if s.closeRecv then
        writerExit (if s.connOpen then emit s (.closeFrame 1000) else s)
      else s
  | .draining c =>
    match s.outgoing with
    | f :: q =>
      if s.connOpen then emit { s with outgoing := q } (.wire f)
      else { s with outgoing := q, writer := .closeWait }   -- write error: done = true, the close write fails too
    | [] => { (if s.connOpen then emit s (.closeFrame c) else s) with writer := .closeWait }
  | .closeWait => writerExit s
  | .exited => if s.reader == .done then { finishClosing s with writer := .finished } else s
  | .finished => s

def subTaskStep (cfg : Cfg) (s : Sys) (g : Gen) : Sys :=
  match findTask s.tasks g with
  | none => s
  | some t =>
    match t.pc with
    | .select =>
      if t.cancelled || t.chanClosed then
        emit { s with tasks := setTask s.tasks g (fun t => { t with pc := .sendComplete }) } (.returned g)
      else s
    | .sendData ev =>
      match trySend cfg s (.result t.id t.gen ev) with
      | (s', .blocked) => s'
      | (s', _) => { s' with tasks := setTask s'.tasks g (fun t => { t with pc := .select }) }
    | .sendComplete =>
      match trySend cfg s (.complete t.id t.gen) with
      | (s', .blocked) => s'
      | (s', _) => { s' with tasks := setTask s'.tasks g (fun t => { t with pc := .done }) }
    | .done => s

def sourceStep (s : Sys) (g : Gen) (e : SrcEv) : Sys :=
  match e with
  | .ended => { s with tasks := setTask s.tasks g (fun t => { t with chanClosed := true }) }
  | .event n =>
    match findTask s.tasks g with
    | none => s
    | some t =>
      -- the channel send succeeds only while the goroutine sits in reflect.Select (a cancelled
      -- context does not prevent it: Select picks among the ready cases at random)
      if t.pc == .select && !t.chanClosed then
        emit { s with tasks := setTask s.tasks g (fun t => { t with pc := .sendData n }) } (.consumed g n)
      else s

/-- One step of the system on its state (outputs are appended to `log`). -/
def stepS (cfg : Cfg) (s : Sys) : Ev → Sys
  | .client f => if s.reader == .reading && s.connOpen then handle cfg s f else s
  | .readerStep =>
    match s.reader with
    | .reading => if !s.connOpen then readerExit s else s
    | .sending p fc tc => pump cfg s p fc tc
    | .done => s
  | .writerStep pick => writerStep s pick
  | .subTaskStep g => subTaskStep cfg s g
  | .source g e => sourceStep s g e
  | .netDrop => { s with connOpen := false }
  | .serverClose =>
    match s.closer with
    | .idle =>
      -- CloseHijackedConnections swaps the registry for an empty map, then Close(): beginClosing
      let s := if s.registered then emit { s with registered := false } .deregistered else s
      { beginClosing s 1000 with closer := .waiting }
    | .waiting =>
      if s.reader == .done && writerGone s then { finishClosing s with closer := .done } else s
    | .done => s

/-- The transition function in the shape of the design: new state and the outputs of this step. -/
def step (cfg : Cfg) (s : Sys) (e : Ev) : Sys × List Out :=
  let s' := stepS cfg s e
  (s', s'.log.drop s.log.length)

def run (cfg : Cfg) (s : Sys) (evs : List Ev) : Sys := evs.foldl (stepS cfg) s

/-! ### Projections of the log -/

def wireOf (log : List Out) : List SFrame :=
  log.filterMap fun | .wire f => some f | _ => none

def enqOf (log : List Out) : List SFrame :=
  log.filterMap fun | .queued f => some f | _ => none

def SFrame.gen? : SFrame → Option Gen
  | .result _ g _ => some g
  | .complete _ g => some g
  | _ => none

def projGen (g : Gen) (l : List SFrame) : List SFrame := l.filter (fun f => f.gen? == some g)

def stopCount (g : Gen) (log : List Out) : Nat := (log.filter (· == .stop g)).length

end ApiFu.C08
