/-
  C08 — progress of the tear-down (property theorems).

  Safety (`close_stops_each_once`) says what holds IF the connection reaches Closed. These theorems
  say that it CAN always be brought there: from every reachable state — after any finite history,
  whatever is in flight: a full buffer behind a client that does not read, the read loop blocked in
  `sendMessage`, any number of live subscriptions mid-send — closing followed by letting the enabled
  internal steps run (`drainEvs`, a deterministic scheduler; the ranking function `mu` decreases with
  each of its steps) reaches the final state within `closeBound s` steps, an explicit function of the
  state at the moment of closing (buffer content + 3 per subscription goroutine + 7).

  `cfg.sendFix` (fix 03, F-08c) is necessary: without it `blocked_sender_forever` exhibits a
  reachable state from which no schedule reaches Closed.
-/
import ApiFu.C08.LemmasProgress
namespace ApiFu.C08

/-- **closing_progress** — from every reachable state in which closing has begun (`beginClosing` has
    fired: client close frame, connection_terminate, protocol error, failed init, read error after a
    network drop, CloseHijackedConnections — any trigger), the explicit schedule `drainEvs` of at
    most `closeBound s` internal steps reaches the final state: both loops returned, HandleClose
    has run, the subscriptions map is empty, the connection is deregistered, the goroutine inside
    CloseHijackedConnections (if any) has returned, and every subscription goroutine has ended.
    No assumption on the history before it or on what is in flight. Needs fix 03. -/
theorem closing_progress (cfg : Cfg) (hf : cfg.sendFix = true) (evs : List Ev)
    (hb : (run cfg init evs).beginOnce = true) :
    (drainEvs cfg (closeBound (run cfg init evs)) (run cfg init evs)).length ≤ closeBound (run cfg init evs) ∧
    Final (run cfg (run cfg init evs) (drainEvs cfg (closeBound (run cfg init evs)) (run cfg init evs))) := by
  obtain ⟨hc, hbk⟩ := inv12_reachable cfg evs
  have hcl : Closing (run cfg init evs) := ⟨hc, ctl2_reachable cfg evs, hbk, fun _ => hb⟩
  obtain ⟨h1, h2⟩ := drain_final cfg hf _ _ hcl (mu_le_bound _)
  exact ⟨Nat.le_trans h2 (mu_le_bound _), h1⟩

/-- **close_progress** — every connection can always be closed: from EVERY reachable state,
    `API.CloseHijackedConnections` followed by at most `closeBound` internal steps reaches the final
    state (registry empty, all goroutines gone). -/
theorem close_progress (cfg : Cfg) (hf : cfg.sendFix = true) (evs : List Ev) :
    let s := run cfg init (evs ++ [.serverClose])
    (drainEvs cfg (closeBound s) s).length ≤ closeBound s ∧ Final (run cfg s (drainEvs cfg (closeBound s) s)) :=
  closing_progress cfg hf (evs ++ [.serverClose]) (serverClose_begun cfg evs)

/-- **close_progress_cleanup** — … and in that final state Stop() has been called exactly once on
    every source that was started on the connection, never on anything else (the final state is a
    reachable state, so `close_stops_each_once` applies to it). -/
theorem close_progress_cleanup (cfg : Cfg) (hf : cfg.sendFix = true) (evs : List Ev) :
    let s := run cfg init (evs ++ [.serverClose])
    let fin := run cfg s (drainEvs cfg (closeBound s) s)
    (∀ g, Out.exec g .subscription ∈ fin.log → stopCount g fin.log = 1) ∧
    (∀ g, Out.exec g .subscription ∉ fin.log → stopCount g fin.log = 0) ∧
    fin.subs = [] ∧ fin.registered = false ∧ (∀ t ∈ fin.tasks, t.pc = .done) := by
  intro s fin
  have hfin := (close_progress cfg hf evs).2
  have hreach : fin = run cfg init ((evs ++ [.serverClose]) ++ drainEvs cfg (closeBound s) s) := by
    rw [run_append]
  have hcl : fin.handlerClosed = true := hfin.2.2.2.2.1
  rw [hreach] at hcl
  obtain ⟨a, b, c, d, _⟩ := close_stops_each_once cfg _ hcl
  rw [← hreach] at a b c d
  exact ⟨a, b, c, d, hfin.2.2.2.1⟩

/-- Non-vacuity: a connection with a live subscription whose goroutine is in the middle of sending
    a result, behind a 2-slot buffer that is full (nobody has written the ack yet): server close,
    then the drain — 11 steps, within the bound 2 + 3·1 + 7 = 12 — ends in the final state, with the
    source stopped exactly once. -/
example :
    let cfg : Cfg := { proto := .ws, cap := 2 }
    let s := run cfg init [.client (.init true), .client (.start 1 .subscription), .source 0 (.event 5), .subTaskStep 0,
                           .serverClose]
    let sched := drainEvs cfg (closeBound s) s
    (s.outgoing.length = 2 ∧ s.handlerClosed = false ∧ closeBound s = 12) ∧ sched.length = 11 ∧
    ((run cfg s sched).writer = .finished ∧ (run cfg s sched).reader = .done ∧ (run cfg s sched).closer = .done ∧
      (run cfg s sched).tasks.all (fun t => t.pc == .done) = true ∧ (run cfg s sched).subs = [] ∧
      (run cfg s sched).registered = false ∧ stopCount 0 (run cfg s sched).log = 1) := by
  decide

end ApiFu.C08
