/-
  C08 model driver. One request per line, one reply per line (S-expressions).

    (session <proto> <ending> (in <input>*) (wire <oframe>*) (close <code>|none)
             (execs (<gen> <kind>)*) (stops (<gen> <count>)*) (dereg true|false))
      proto   := ws | tws
      ending  := await | cclose | drop | sclose
      input   := (f init ok|rej) | (f start <id> <kind>) | (f startbad <id>) | (f stop <id>)
               | (f ping) | (f pong) | (f terminate) | (f unknown) | (f malformed) | (f close)
               | (ev <gen> <n>) | (end <gen>) | (sync <gen>*) | (syncid <id>) | (drop) | (sclose)
      kind    := query | mutation | subscription | subfail | invalid
      oframe  := ack | ka | pong | connerr | (res <id> <gen> <ev>) | (comp <id>) | (other "<type>")
    → (accept|reject "<reason>" (wire <sframe>*) (execs (<gen> <kind>)*) (codes <n>*))
        the model's own observables under the canonical schedule follow the verdict

    (run <proto> <cap> <pingFix> <reuseFix> <sendFix> (<ev>*))      -- raw transition system, for replays
      ev := (c <frame…>) | (src <gen> ev <n>) | (src <gen> end) | r | (w out|msg|recv) | (t <gen>) | drop | sclose
    → (state … (log …))
-/
import ApiFu.Common.Sexp
import ApiFu.Common.Loop
import ApiFu.C08.Model
import ApiFu.C08.Accept

open ApiFu ApiFu.C08

def parseKind : String → Option OpKind
  | "query" => some .query | "mutation" => some .mutation | "subscription" => some .subscription
  | "subfail" => some .subFail | "invalid" => some .invalid | _ => none

def kindStr : OpKind → String
  | .query => "query" | .mutation => "mutation" | .subscription => "subscription"
  | .subFail => "subfail" | .invalid => "invalid"

def parseFrame : List Sexp → Option CFrame
  | [.atom "init", .atom "ok"] => some (.init true)
  | [.atom "init", .atom "rej"] => some (.init false)
  | [.atom "start", id, .atom k] => do some (.start (← id.nat?) (← parseKind k))
  | [.atom "startbad", id] => do some (.startBad (← id.nat?))
  | [.atom "stop", id] => do some (.stop (← id.nat?))
  | [.atom "ping"] => some .ping
  | [.atom "pong"] => some .pong
  | [.atom "terminate"] => some .terminate
  | [.atom "unknown"] => some .unknown
  | [.atom "malformed"] => some .malformed
  | [.atom "close"] => some .close
  | _ => none

def parseInput (x : Sexp) : Option Input :=
  match x with
  | .list (.atom "f" :: rest) => (parseFrame rest).map .frame
  | .list [.atom "ev", g, n] => do some (.ev (← g.nat?) (← n.nat?))
  | .list [.atom "end", g] => do some (.ended (← g.nat?))
  | .list (.atom "sync" :: gs) => do some (.sync (← gs.mapM Sexp.nat?))
  | .list [.atom "syncid", id] => do some (.syncId (← id.nat?))
  | .list [.atom "drop"] => some .drop
  | .list [.atom "sclose"] => some .sclose
  | _ => none

def parseOFrame (x : Sexp) : Option OFrame :=
  match x with
  | .atom "ack" => some .ack
  | .atom "ka" => some .ka
  | .atom "pong" => some .pong
  | .atom "connerr" => some .connError
  | .list [.atom "res", id, g, ev] => do some (.res (← id.nat?) (← g.int?) (← ev.nat?))
  | .list [.atom "comp", id] => do some (.comp (← id.nat?))
  | .list [.atom "other", .atom t] => some (.other t)
  | _ => none

def parseProto : String → Option Proto
  | "ws" => some .ws | "tws" => some .tws | _ => none

def parseEnding : String → Option Ending
  | "await" => some .await | "cclose" => some .cclose | "drop" => some .drop | "sclose" => some .sclose
  | _ => none

def sframeSexp : SFrame → Sexp
  | .connError => .atom "connerr" | .ack => .atom "ack" | .ka => .atom "ka" | .pong => .atom "pong"
  | .result id g ev => Sexp.node "res" [Sexp.ofNat id, Sexp.ofNat g, Sexp.ofNat ev]
  | .complete id g => Sexp.node "comp" [Sexp.ofNat id, Sexp.ofNat g]

def parseSession (args : List Sexp) : Option (Cfg × Ending × List Input × Obs) :=
  match args with
  | [.atom p, .atom e, .list (.atom "in" :: ins), .list (.atom "wire" :: ws), .list [.atom "close", cc],
     .list (.atom "execs" :: es), .list (.atom "stops" :: ss), .list [.atom "dereg", .atom d]] => do
    let proto ← parseProto p
    let ending ← parseEnding e
    let inputs ← ins.mapM parseInput
    let wire ← ws.mapM parseOFrame
    let closeCode ← match cc with
      | .atom "none" => some none
      | x => (x.nat?).map some
    let execs ← es.mapM fun
      | .list [g, .atom k] => do some ((← g.nat?), (← parseKind k))
      | _ => none
    let stops ← ss.mapM fun
      | .list [g, n] => do some ((← g.nat?), (← n.nat?))
      | _ => none
    some ({ proto := proto }, ending, inputs, { wire, closeCode, execs, stops, dereg := d == "true" })
  | _ => none

def parseEv (x : Sexp) : Option Ev :=
  match x with
  | .list (.atom "c" :: rest) => (parseFrame rest).map .client
  | .list [.atom "src", g, .atom "ev", n] => do some (.source (← g.nat?) (.event (← n.nat?)))
  | .list [.atom "src", g, .atom "end"] => do some (.source (← g.nat?) .ended)
  | .atom "r" => some .readerStep
  | .list [.atom "w", .atom "out"] => some (.writerStep .outgoing)
  | .list [.atom "w", .atom "msg"] => some (.writerStep .closeMsg)
  | .list [.atom "w", .atom "recv"] => some (.writerStep .closeRecv)
  | .list [.atom "t", g] => do some (.subTaskStep (← g.nat?))
  | .atom "drop" => some .netDrop
  | .atom "sclose" => some .serverClose
  | _ => none

def outSexp : Out → Sexp
  | .wire f => Sexp.node "wire" [sframeSexp f]
  | .closeFrame c => Sexp.node "closeframe" [Sexp.ofNat c]
  | .exec g k => Sexp.node "exec" [Sexp.ofNat g, .atom (kindStr k)]
  | .stop g => Sexp.node "stop" [Sexp.ofNat g]
  | .deregistered => .atom "deregistered"
  | .recv _ _ => .atom "recv"
  | .queued f => Sexp.node "queued" [sframeSexp f]
  | .started g id k => Sexp.node "started" [Sexp.ofNat g, Sexp.ofNat id, .atom (kindStr k)]
  | .consumed g n => Sexp.node "consumed" [Sexp.ofNat g, Sexp.ofNat n]
  | .returned g => Sexp.node "returned" [Sexp.ofNat g]

def handleLine (line : String) : String :=
  match Sexp.parse line with
  | some (.list (.atom "session" :: args)) =>
    match parseSession args with
    | none => "bad-op"
    | some (cfg, ending, inputs, obs) =>
      let v := accept cfg inputs ending obs
      let head := if v.ok then [Sexp.atom "accept"] else [Sexp.atom "reject", Sexp.str v.reason]
      toString (Sexp.list (head ++ [
        Sexp.node "wire" (v.expWire.map sframeSexp),
        Sexp.node "execs" (v.expExecs.map fun p => Sexp.list [Sexp.ofNat p.1, .atom (kindStr p.2)]),
        Sexp.node "codes" (v.codes.map Sexp.ofNat)]))
  | some (.list [.atom "run", .atom p, cap, .atom pf, .atom rf, .atom sf, .list evs]) =>
    match parseProto p, cap.nat?, evs.mapM parseEv with
    | some proto, some cap, some evs =>
      let cfg : Cfg := { proto, cap, pingFix := pf == "true", reuseFix := rf == "true", sendFix := sf == "true" }
      let s := run cfg init evs
      toString (Sexp.node "state" [
        Sexp.node "closed" [Sexp.ofBool s.handlerClosed],
        Sexp.node "registered" [Sexp.ofBool s.registered],
        Sexp.node "fault" [Sexp.ofBool s.fault],
        Sexp.node "outgoing" [Sexp.ofNat s.outgoing.length],
        Sexp.node "reader" [.atom (match s.reader with | .reading => "reading" | .sending .. => "sending" | .done => "done")],
        Sexp.node "writer" [.atom (match s.writer with | .loop => "loop" | .draining _ => "draining" | .closeWait => "closeWait" | .exited => "exited" | .finished => "finished")],
        Sexp.node "log" (s.log.map outSexp)])
    | _, _, _ => "bad-op"
  | _ => "bad-op"

def main : IO Unit := lineLoopPure handleLine
