/-
  C08 — property theorems. Every theorem is about `run cfg init evs` for *every* finite event list
  `evs`, i.e. every schedule of the reader, the writer, the subscription goroutines, the sources,
  the network and the server-side closer, and every client frame sequence (both sub-protocols: `cfg.proto`).
-/
import ApiFu.C08.Lemmas

namespace ApiFu.C08

/-- **no_fault** — the second send on the one-slot `closeMessage` channel (which would block its
    goroutine forever) is unreachable: `beginClosing`'s once-guard is the only sender. -/
theorem no_fault (cfg : Cfg) (evs : List Ev) : (run cfg init evs).fault = false :=
  (inv12_reachable cfg evs).1.2.2.1

/-- **handle_close_once** — HandleClose runs only after both loops are done, and the
    `finishClosing` once-guard has fired exactly when it ran (two goroutines call finishClosing on a
    server-initiated close). -/
theorem handle_close_once (cfg : Cfg) (evs : List Ev) :
    let s := run cfg init evs
    (s.handlerClosed = true → s.reader = .done ∧ writerGone s = true) ∧ (s.finishOnce = true ↔ s.handlerClosed = true) := by
  have h := (inv12_reachable cfg evs).1
  exact ⟨h.2.2.2.1, h.2.2.2.2.1⟩

/-- **stop_at_most_once** — at every moment of every schedule, Stop() has been called at most once
    on any source, and only on sources that were started (a subscription whose `Subscribe` ran). -/
theorem stop_at_most_once (cfg : Cfg) (evs : List Ev) (g : Gen) :
    let s := run cfg init evs
    stopCount g s.log ≤ 1 ∧ (stopCount g s.log = 1 → Out.exec g .subscription ∈ s.log) := by
  intro s
  obtain ⟨_, _, _, _, _, b6, _, b8, _, b10, _⟩ := (inv12_reachable cfg evs).2
  by_cases hg : g ∈ (absBook s).tasks.map (·.1)
  · obtain ⟨t, ht, rfl⟩ := List.mem_map.mp hg
    have := b6 t ht
    rw [stopCount_eq]
    show List.count t.1 (absBook s).stops ≤ 1 ∧ _
    rw [this]
    constructor
    · split <;> omega
    · intro _; exact (mem_execSubsOf _ _).mp ((b10 t.1).mpr hg)
  · have := b8 g hg
    rw [stopCount_eq]
    show List.count g (absBook s).stops ≤ 1 ∧ (List.count g (absBook s).stops = 1 → _)
    rw [this]; simp

/-- **close_stops_each_once** — on every path to Closed (HandleClose has run: client close frame,
    terminate, protocol error, network drop, CloseHijackedConnections — whatever the schedule):
    Stop() has been called exactly once on every source started on the connection and never on
    anything else, the subscriptions map is empty, the connection is deregistered, and every
    subscription goroutine has its context cancelled (so none can wait for events any more; see
    `closed_tasks_finish` for their termination). -/
theorem close_stops_each_once (cfg : Cfg) (evs : List Ev) :
    let s := run cfg init evs
    s.handlerClosed = true →
      (∀ g, Out.exec g .subscription ∈ s.log → stopCount g s.log = 1) ∧
      (∀ g, Out.exec g .subscription ∉ s.log → stopCount g s.log = 0) ∧
      s.subs = [] ∧ s.registered = false ∧ (∀ t ∈ s.tasks, t.cancelled = true) := by
  intro s hc
  obtain ⟨_, _, _, _, _, b6, b7, b8, b9, b10, _⟩ := (inv12_reachable cfg evs).2
  have hs : s.subs = [] := (b9 hc).1
  have hs' : (absBook s).subs = [] := hs
  refine ⟨?_, ?_, hs, (b9 hc).2, ?_⟩
  · intro g hg
    have := (b10 g).mp ((mem_execSubsOf _ _).mpr hg)
    obtain ⟨t, ht, rfl⟩ := List.mem_map.mp this
    have h6 := b6 t ht
    rw [hs'] at h6
    rw [stopCount_eq]
    simp only [List.map_nil, List.not_mem_nil, ite_false] at h6
    exact h6
  · intro g hg
    rw [stopCount_eq]
    apply b8
    intro hm; exact hg ((mem_execSubsOf _ _).mp ((b10 g).mpr hm))
  · intro t ht
    have := (b7 (t.gen, t.id, t.cancelled) (List.mem_map.mpr ⟨t, ht, rfl⟩)).mpr
    rw [hs'] at this
    exact this (by simp)

/-- Non-vacuity: a schedule that reaches Closed with one live subscription (network drop while
    subscribed): its source is stopped exactly once, by HandleClose. -/
example :
    let s := run { proto := .tws } init
      [.client (.init true), .client (.start 1 .subscription), .netDrop, .readerStep, .writerStep .closeMsg,
       .writerStep .outgoing, .writerStep .outgoing, .writerStep .outgoing, .writerStep .outgoing]
    s.handlerClosed = true ∧ stopCount 0 s.log = 1 ∧ Out.exec 0 .subscription ∈ s.log := by
  decide

/-- **closed_tasks_finish** — "no sub-task stays enabled": once the connection is Closed, every
    subscription goroutine reaches its end within three of its own steps (give up the pending
    SendData, notice the cancelled context, give up SendComplete) whatever else happens before or in
    between is irrelevant to it — and a finished goroutine never moves again. This needs fix 03
    (`cfg.sendFix`): before it the sends block forever on a full buffer (`blocked_sender_forever`). -/
theorem closed_tasks_finish (cfg : Cfg) (hf : cfg.sendFix = true) (evs : List Ev) :
    let s := run cfg init evs
    s.handlerClosed = true → ∀ t ∈ s.tasks,
      (∃ t', findTask (run cfg s [.subTaskStep t.gen, .subTaskStep t.gen, .subTaskStep t.gen]).tasks t.gen = some t' ∧ t'.pc = .done) := by
  intro s hc t ht
  obtain ⟨hctl, hbook⟩ := inv12_reachable cfg evs
  have hg : writerGone s = true := (hctl.2.2.2.1 hc).2
  have hcanc := (close_stops_each_once cfg evs hc).2.2.2.2 t ht
  have hn : (s.tasks.map (·.gen)).Nodup := by
    have := hbook.2.2.1
    simpa [absBook, List.map_map, Function.comp_def] using this
  exact three_steps_done hf hg (findTask_of_mem hn ht) hcanc

/-- A goroutine that has finished takes no further step. -/
theorem done_task_stutters (cfg : Cfg) (s : Sys) (g : Gen) (t : Task) (h : findTask s.tasks g = some t) (hd : t.pc = .done) :
    subTaskStep cfg s g = s := by
  unfold subTaskStep; rw [h]; simp [hd]

/-- **wire_is_prefix_of_queue** — FIFO: at every moment the messages written to the socket are a
    prefix of the messages accepted by the `outgoing` buffer, and while the write loop is in its
    main or drain loop the two differ exactly by the buffer's content. Every per-operation
    statement about the queue order therefore holds for the wire (cut off at some point). -/
theorem wire_is_prefix_of_queue (cfg : Cfg) (evs : List Ev) :
    wireOf (run cfg init evs).log <+: enqOf (run cfg init evs).log ∧
    (writerLive (run cfg init evs).writer = true →
      enqOf (run cfg init evs).log = wireOf (run cfg init evs).log ++ (run cfg init evs).outgoing) :=
  wire_prefix cfg evs

end ApiFu.C08
