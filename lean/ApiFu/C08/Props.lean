/-
  C08 — property theorems. Every theorem is about `run cfg init evs` for *every* finite event list
  `evs`, i.e. every schedule of the reader, the writer, the subscription goroutines, the sources,
  the network and the server-side closer, and every client frame sequence (both sub-protocols: `cfg.proto`).
-/
import ApiFu.C08.LemmasFlags
import ApiFu.C08.LemmasStuck

namespace ApiFu.C08

/-- **no_fault** — the second send on the one-slot `closeMessage` channel (which would block its
    goroutine forever) is unreachable: `beginClosing`'s once-guard is the only sender. -/
theorem no_fault (cfg : Cfg) (evs : List Ev) : (run cfg init evs).fault = false :=
  (inv12_reachable cfg evs).1.2.2.1

/-- **handle_close_once** — HandleClose runs only after both loops are done, and the
    `finishClosing` once-guard has fired exactly when it ran (two goroutines call finishClosing on a
    server-initiated close). -/
theorem handle_close_once (cfg : Cfg) (evs : List Ev) :
    let s := run cfg init evs
    (s.handlerClosed = true → s.reader = .done ∧ writerGone s = true) ∧ (s.finishOnce = true ↔ s.handlerClosed = true) := by
  have h := (inv12_reachable cfg evs).1
  exact ⟨h.2.2.2.1, h.2.2.2.2.1⟩

/-- **stop_at_most_once** — at every moment of every schedule, Stop() has been called at most once
    on any source, and only on sources that were started (a subscription whose `Subscribe` ran). -/
theorem stop_at_most_once (cfg : Cfg) (evs : List Ev) (g : Gen) :
    let s := run cfg init evs
    stopCount g s.log ≤ 1 ∧ (stopCount g s.log = 1 → Out.exec g .subscription ∈ s.log) := by
  intro s
  obtain ⟨_, _, _, _, _, b6, _, b8, _, b10, _⟩ := (inv12_reachable cfg evs).2
  by_cases hg : g ∈ (absBook s).tasks.map (·.1)
  · obtain ⟨t, ht, rfl⟩ := List.mem_map.mp hg
    have := b6 t ht
    rw [stopCount_eq]
    show List.count t.1 (absBook s).stops ≤ 1 ∧ _
    rw [this]
    constructor
    · split <;> omega
    · intro _; exact (mem_execSubsOf _ _).mp ((b10 t.1).mpr hg)
  · have := b8 g hg
    rw [stopCount_eq]
    show List.count g (absBook s).stops ≤ 1 ∧ (List.count g (absBook s).stops = 1 → _)
    rw [this]; simp

/-- **close_stops_each_once** — on every path to Closed (HandleClose has run: client close frame,
    terminate, protocol error, network drop, CloseHijackedConnections — whatever the schedule):
    Stop() has been called exactly once on every source started on the connection and never on
    anything else, the subscriptions map is empty, the connection is deregistered, and every
    subscription goroutine has its context cancelled (so none can wait for events any more; see
    `closed_tasks_finish` for their termination). -/
theorem close_stops_each_once (cfg : Cfg) (evs : List Ev) :
    let s := run cfg init evs
    s.handlerClosed = true →
      (∀ g, Out.exec g .subscription ∈ s.log → stopCount g s.log = 1) ∧
      (∀ g, Out.exec g .subscription ∉ s.log → stopCount g s.log = 0) ∧
      s.subs = [] ∧ s.registered = false ∧ (∀ t ∈ s.tasks, t.cancelled = true) := by
  intro s hc
  obtain ⟨_, _, _, _, _, b6, b7, b8, b9, b10, _⟩ := (inv12_reachable cfg evs).2
  have hs : s.subs = [] := (b9 hc).1
  have hs' : (absBook s).subs = [] := hs
  refine ⟨?_, ?_, hs, (b9 hc).2, ?_⟩
  · intro g hg
    have := (b10 g).mp ((mem_execSubsOf _ _).mpr hg)
    obtain ⟨t, ht, rfl⟩ := List.mem_map.mp this
    have h6 := b6 t ht
    rw [hs'] at h6
    rw [stopCount_eq]
    simp only [List.map_nil, List.not_mem_nil, ite_false] at h6
    exact h6
  · intro g hg
    rw [stopCount_eq]
    apply b8
    intro hm; exact hg ((mem_execSubsOf _ _).mp ((b10 g).mpr hm))
  · intro t ht
    have := (b7 (t.gen, t.id, t.cancelled) (List.mem_map.mpr ⟨t, ht, rfl⟩)).mpr
    rw [hs'] at this
    exact this (by simp)

/-- Non-vacuity: a schedule that reaches Closed with one live subscription (network drop while
    subscribed): its source is stopped exactly once, by HandleClose. -/
example :
    let s := run { proto := .tws } init
      [.client (.init true), .client (.start 1 .subscription), .netDrop, .readerStep, .writerStep .closeMsg,
       .writerStep .outgoing, .writerStep .outgoing, .writerStep .outgoing, .writerStep .outgoing]
    s.handlerClosed = true ∧ stopCount 0 s.log = 1 ∧ Out.exec 0 .subscription ∈ s.log := by
  decide

/-- **closed_tasks_finish** — "no sub-task stays enabled": once the connection is Closed, every
    subscription goroutine reaches its end within three of its own steps (give up the pending
    SendData, notice the cancelled context, give up SendComplete) whatever else happens before or in
    between is irrelevant to it — and a finished goroutine never moves again. This needs fix 03
    (`cfg.sendFix`): before it the sends block forever on a full buffer (`blocked_sender_forever`). -/
theorem closed_tasks_finish (cfg : Cfg) (hf : cfg.sendFix = true) (evs : List Ev) :
    let s := run cfg init evs
    s.handlerClosed = true → ∀ t ∈ s.tasks,
      (∃ t', findTask (run cfg s [.subTaskStep t.gen, .subTaskStep t.gen, .subTaskStep t.gen]).tasks t.gen = some t' ∧ t'.pc = .done) := by
  intro s hc t ht
  obtain ⟨hctl, hbook⟩ := inv12_reachable cfg evs
  have hg : writerGone s = true := (hctl.2.2.2.1 hc).2
  have hcanc := (close_stops_each_once cfg evs hc).2.2.2.2 t ht
  have hn : (s.tasks.map (·.gen)).Nodup := by
    have := hbook.2.2.1
    simpa [absBook, List.map_map, Function.comp_def] using this
  exact three_steps_done hf hg (findTask_of_mem hn ht) hcanc

/-- A goroutine that has finished takes no further step. -/
theorem done_task_stutters (cfg : Cfg) (s : Sys) (g : Gen) (t : Task) (h : findTask s.tasks g = some t) (hd : t.pc = .done) :
    subTaskStep cfg s g = s := by
  unfold subTaskStep; rw [h]; simp [hd]

/-- **wire_is_prefix_of_queue** — FIFO: at every moment the messages written to the socket are a
    prefix of the messages accepted by the `outgoing` buffer, and while the write loop is in its
    main or drain loop the two differ exactly by the buffer's content. Every per-operation
    statement about the queue order therefore holds for the wire (cut off at some point). -/
theorem wire_is_prefix_of_queue (cfg : Cfg) (evs : List Ev) :
    wireOf (run cfg init evs).log <+: enqOf (run cfg init evs).log ∧
    (writerLive (run cfg init evs).writer = true →
      enqOf (run cfg init evs).log = wireOf (run cfg init evs).log ++ (run cfg init evs).outgoing) :=
  wire_prefix cfg evs


/-- **wire_final_after_writer_exit** — only the write loop writes: once it has returned, no step of
    any goroutine, under any schedule, adds a message to the wire. -/
theorem wire_final_after_writer_exit (cfg : Cfg) (s : Sys) (hg : writerGone s = true) (evs : List Ev) :
    wireOf (run cfg s evs).log = wireOf s.log := by
  induction evs generalizing s with
  | nil => rfl
  | cons e es ih =>
    have hg' := gone_mono cfg s e hg
    rw [run_cons, ih _ hg', wire_frozen cfg s e hg']

/-- **pre_ack_silence** — for every schedule and every client frame sequence, on both
    sub-protocols: (1) every message on the wire that is not preceded by a `connection_ack` is a
    connection error; (2) as long as the ack of a successful init has not been queued, the log holds
    no `exec`, `started`, `stop`, `consumed` or `returned` entry — no operation was executed or
    started, no source created or stopped — and only connection errors were queued or written.
    Since every prefix of a schedule is a schedule, (2) says that operations the server handles
    before it acknowledges an init are never executed. -/
theorem pre_ack_silence (cfg : Cfg) (evs : List Ev) :
    let s := run cfg init evs
    (∀ f ∈ (wireOf s.log).takeWhile (· != .ack), f = .connError) ∧
    (SFrame.ack ∉ enqOf s.log → ∀ o ∈ s.log, o.preAckOk = true) := by
  intro s
  obtain ⟨_, _, hf, ha⟩ := inv_all_reachable cfg evs
  constructor
  · exact preOk_prefix (fifo_wire_prefix hf) ha.2.2.1
  · intro hn; exact (ha.2.2.2 hn).2.1

/-- The ack is queued only after `didInit` was set, i.e. by a successful init. -/
theorem ack_only_after_init (cfg : Cfg) (evs : List Ev) :
    SFrame.ack ∈ enqOf (run cfg init evs).log → (run cfg init evs).didInit = true :=
  (inv_all_reachable cfg evs).2.2.2.1

/-- **query_once** (safety, every schedule) — for every operation that was started and is answered
    on the read loop (query, mutation, failing subscription, invalid document): what the wire
    carries for it is a prefix of [its result, its complete]: never two results, never two
    completes, never a complete before the result, nothing else — also while the connection is
    being torn down, whichever way it ends. -/
theorem query_once (cfg : Cfg) (evs : List Ev) (g : Gen) (id : Id) (k : OpKind)
    (hs : Out.started g id k ∈ (run cfg init evs).log) (hk : k ≠ .subscription) :
    projGen g (wireOf (run cfg init evs).log) <+: [.result id g 0, .complete id g] :=
  (safe_reachable cfg evs).2.1 g id k hs hk

/-- **subscription_shape** (safety, every schedule) — for every subscription whose source was
    created: what the wire carries for it is results* followed by at most one complete, and
    nothing after the complete. -/
theorem subscription_shape (cfg : Cfg) (evs : List Ev) (g : Gen)
    (hs : Out.exec g .subscription ∈ (run cfg init evs).log) :
    ∃ id, Out.started g id .subscription ∈ (run cfg init evs).log ∧
      SubShape id g (projGen g (wireOf (run cfg init evs).log)) :=
  (safe_reachable cfg evs).2.2 g hs

/-- **query_once** (while the connection stays open) — at every quiescent point of every schedule,
    each started query / mutation / failing subscription / invalid document has received exactly
    one result followed by exactly one complete. -/
theorem query_once_quiescent (cfg : Cfg) (evs : List Ev) (hq : Quiescent (run cfg init evs))
    (g : Gen) (id : Id) (k : OpKind) (hs : Out.started g id k ∈ (run cfg init evs).log) (hk : k ≠ .subscription) :
    projGen g (wireOf (run cfg init evs).log) = [.result id g 0, .complete id g] := by
  obtain ⟨ha, hw, hp⟩ := quiescent_facts hq
  have := ha.1 g id k (mem_marks_started.mpr hs) hk
  rw [hp, List.append_nil] at this
  rw [hw]; exact this

/-- **subscription_shape** (while the connection stays open) — at every quiescent point of every
    schedule, each subscription has received exactly one result per source event its goroutine took
    from the channel, in order, followed by exactly one complete if it has been stopped
    (`cancelled`: its Stop() ran, see `cancelled_iff_stopped`) or its source has ended
    (`chanClosed`), and by nothing otherwise. -/
theorem subscription_quiescent (cfg : Cfg) (evs : List Ev) (hq : Quiescent (run cfg init evs))
    (t : Task) (ht : t ∈ (run cfg init evs).tasks) :
    projGen t.gen (wireOf (run cfg init evs).log) =
      (consumedOf t.gen (run cfg init evs).log).map (.result t.id t.gen) ++
      (if t.cancelled || t.chanClosed then [.complete t.id t.gen] else []) := by
  obtain ⟨ha, hw, _⟩ := quiescent_facts hq
  have hidle := hq.2.2.2 t ht
  have h2 := ha.2.1 _ (mem_absA_tasks ht)
  have h3 := ha.2.2.1 _ (mem_absA_tasks ht)
  have hfl := flags_reachable cfg evs t ht
  simp only [] at h2 h3
  have hpend : pendOf t.id t.gen t.pc = [] := by
    rcases hidle with h | ⟨h, _, _⟩ <;> rw [h] <;> rfl
  rw [hpend, List.append_nil] at h2
  have hret : returnedIn t.gen (absA (run cfg init evs)).marks = (t.cancelled || t.chanClosed) := by
    rw [h3]
    rcases hidle with h | ⟨h, hc, hcc⟩
    · simp [Task.flagsOk, h] at hfl
      rw [h]
      rcases hfl with hx | hx <;> simp [hx]
    · rw [h, hc, hcc]; rfl
  rw [hw]
  show projGen t.gen (absA (run cfg init evs)).enq = _
  rw [h2, hret]
  show List.map _ (consumedOf t.gen ((run cfg init evs).log.filter Out.isMark)) ++ _ = _
  rw [consumedOf_filter]

/-- A subscription goroutine's context is cancelled exactly when Stop() has run on its source. -/
theorem cancelled_iff_stopped (cfg : Cfg) (evs : List Ev) (t : Task) (ht : t ∈ (run cfg init evs).tasks) :
    t.cancelled = true ↔ stopCount t.gen (run cfg init evs).log = 1 := by
  obtain ⟨_, _, _, _, _, b6, b7, _⟩ := (inv12_reachable cfg evs).2
  have hm : (t.gen, t.id, t.cancelled) ∈ (absBook (run cfg init evs)).tasks := List.mem_map.mpr ⟨t, ht, rfl⟩
  have h6 := b6 _ hm
  have h7 := b7 _ hm
  simp only [] at h6 h7
  rw [stopCount_eq]
  show _ ↔ List.count t.gen (absBook (run cfg init evs)).stops = 1
  rw [h6, h7]
  split <;> simp_all

/-- **ping_pong** (graphql-transport-ws, fix 01) — at every quiescent point of every schedule the
    wire carries exactly one pong per ping the server received after a successful init. (Under
    graphql-ws, where ping is not a message type, and for pings before the init, the wire carries
    no pong at all: the count on the right is what is due.) -/
theorem ping_pong (cfg : Cfg) (evs : List Ev) (hq : Quiescent (run cfg init evs)) :
    (wireOf (run cfg init evs).log).count .pong =
      if cfg.proto == .tws && cfg.pingFix then (run cfg init evs).log.count (.recv .ping true) else 0 := by
  obtain ⟨ha, hw, hp⟩ := quiescent_facts hq
  have h4 := ha.2.2.2
  rw [hp, List.append_nil] at h4
  rw [hw]
  show List.count SFrame.pong (absA (run cfg init evs)).enq = _
  rw [h4]
  unfold pongDue pingCount
  split
  · show List.count _ ((run cfg init evs).log.filter Out.isMark) = _
    rw [List.count_filter rfl]
  · rfl

/-- **ping_never_dropped** (the queue-full case of `ping_pong` made explicit) — on
    graphql-transport-ws (fix 01) a ping handled after init while the write loop is alive is never
    dropped, whatever the state of the 100-slot buffer: either its pong is accepted by the buffer at
    once, or — the buffer is full, e.g. behind a client that is not reading — the read loop blocks in
    `sendMessage` with exactly that pong pending (back-pressure, like every other send of the read
    loop). A non-blocking "send or forget" would violate this. -/
theorem ping_never_dropped (cfg : Cfg) (s : Sys) (hp : cfg.proto = .tws) (hf : cfg.pingFix = true)
    (hd : s.didInit = true) (hr : s.reader = .reading) (ho : s.connOpen = true)
    (hg : (cfg.sendFix && writerGone s) = false) :
    (enqOf (stepS cfg s (.client .ping)).log = enqOf s.log ++ [.pong] ∧ (stepS cfg s (.client .ping)).reader = .reading) ∨
    (enqOf (stepS cfg s (.client .ping)).log = enqOf s.log ∧
      (stepS cfg s (.client .ping)).reader = .sending [.pong] false none ∧ cfg.cap ≤ s.outgoing.length) := by
  have hstep : stepS cfg s (.client .ping) = pump cfg (emit s (.recv .ping s.didInit)) [.pong] false none := by
    show (if s.reader == .reading && s.connOpen then handle cfg s .ping else s) = _
    simp [hr, ho, handle, hp, hf, emit, hd]
  rw [hstep]
  have hg' : (cfg.sendFix && writerGone (emit s (.recv .ping s.didInit))) = false := hg
  unfold pump trySend
  simp only [hg', Bool.false_eq_true, ite_false]
  by_cases hroom : (emit s (.recv .ping s.didInit)).outgoing.length < cfg.cap
  · left
    simp only [hroom, ite_true]
    unfold pump doneSending
    simp [emit, enqOf]
  · right
    simp only [hroom, ite_false]
    refine ⟨by simp [emit, enqOf], by simp, ?_⟩
    exact Nat.le_of_not_lt hroom

/-- … and the blocked pong goes out as soon as the write loop has freed a slot. -/
theorem blocked_pong_is_sent (cfg : Cfg) (s : Sys) (hr : s.reader = .sending [.pong] false none)
    (hroom : s.outgoing.length < cfg.cap) (hg : (cfg.sendFix && writerGone s) = false) :
    enqOf (stepS cfg s .readerStep).log = enqOf s.log ++ [.pong] ∧ (stepS cfg s .readerStep).reader = .reading := by
  have hstep : stepS cfg s .readerStep = pump cfg s [.pong] false none := by
    show (match s.reader with
      | .reading => if !s.connOpen then readerExit s else s
      | .sending p fc tc => pump cfg s p fc tc
      | .done => s) = _
    rw [hr]
  rw [hstep]
  unfold pump trySend
  simp only [hg, Bool.false_eq_true, ite_false, hroom, ite_true]
  unfold pump doneSending
  simp [emit, enqOf]

/-- A ping that meets a full buffer (2 slots instead of 100): ack and a subscription result fill the
    buffer, the ping blocks the read loop, the write loop frees a slot, the pong is queued and written. -/
example :
    let cfg : Cfg := { proto := .tws, cap := 2 }
    let s1 := run cfg init [.client (.init true), .client (.start 1 .subscription), .source 0 (.event 5), .subTaskStep 0,
                            .client .ping]
    let s2 := run cfg s1 [.writerStep .outgoing, .readerStep, .writerStep .outgoing, .writerStep .outgoing]
    (s1.outgoing.length = 2 ∧ s1.reader = .sending [.pong] false none) ∧
    (wireOf s2.log = [.ack, .result 1 0 5, .pong] ∧ s2.reader = .reading) := by
  decide

/-- **blocked_sender_forever** (F-08c, the code before fix 03) — from a state in which the read
    loop is blocked in `sendMessage` on the full buffer after the write loop has returned, no
    schedule ever reaches Closed: HandleClose never runs (no source is stopped, the connection
    stays registered), the read loop and the goroutine waiting in `finishClosing` remain forever.
    With fix 03 the same send returns an error (`closed_tasks_finish`, `trySend_gone`). -/
theorem blocked_sender_forever (cfg : Cfg) (s : Sys) (h : StuckReader cfg s) (evs : List Ev) :
    StuckReader cfg (run cfg s evs) ∧ (run cfg s evs).handlerClosed = false :=
  ⟨stuck_run h evs, (stuck_run h evs).2.2.2.1⟩

/-- The blocking state is reachable (shown for a buffer of 2 instead of 100 slots): init (ack and
    keep-alive fill the buffer), a query (the reader blocks on its result), the network drops, the
    write fails and the write loop returns, the reader gets the result into the freed slot and
    blocks for good on the complete. -/
example :
    let cfg : Cfg := { proto := .ws, cap := 2, sendFix := false }
    StuckReader cfg (run cfg init [.client (.init true), .client (.start 1 .query), .netDrop, .writerStep .outgoing, .readerStep]) := by
  refine ⟨rfl, by decide, by decide, by decide, .complete 1 0, [], false, none, by decide⟩

/-- Negation witness F-08a (before fix 01): on graphql-transport-ws a ping after init closes the
    connection with 4400 and no pong is ever written; with the fix the pong is written. -/
example :
    let evs := [Ev.client (.init true), .writerStep .outgoing, .client .ping, .writerStep .closeMsg, .writerStep .outgoing,
                .writerStep .outgoing]
    (Out.closeFrame 4400 ∈ (run { proto := .tws, pingFix := false } init evs).log ∧
      SFrame.pong ∉ wireOf (run { proto := .tws, pingFix := false } init evs).log) ∧
    SFrame.pong ∈ wireOf (run { proto := .tws } init evs).log := by
  decide

/-- Negation witness F-08b (before fix 02): after a subscription's source has ended, a new
    subscription with the same id is never started; with the fix it is, and the ended source is
    stopped then. -/
example :
    let evs := [Ev.client (.init true), .client (.start 1 .subscription), .source 0 .ended, .subTaskStep 0, .subTaskStep 0,
                .client (.start 1 .subscription)]
    Out.started 1 1 .subscription ∉ (run { proto := .ws, reuseFix := false } init evs).log ∧
    (Out.started 1 1 .subscription ∈ (run { proto := .ws } init evs).log ∧ stopCount 0 (run { proto := .ws } init evs).log = 1) := by
  decide

/-- Non-vacuity of the quiescent theorems: a session with a query, a subscription with two events,
    a stop and a ping reaches a quiescent state in which the wire is exactly what is due. -/
example :
    let evs := [Ev.client (.init true), .writerStep .outgoing, .client (.start 1 .query), .client (.start 2 .subscription),
                .source 1 (.event 7), .subTaskStep 1, .source 1 (.event 8), .subTaskStep 1, .client .ping, .client (.stop 2),
                .subTaskStep 1, .subTaskStep 1,
                .writerStep .outgoing, .writerStep .outgoing, .writerStep .outgoing, .writerStep .outgoing, .writerStep .outgoing,
                .writerStep .outgoing]
    let s := run { proto := .tws } init evs
    (s.writer = .loop ∧ s.outgoing = [] ∧ s.reader = .reading) ∧
    wireOf s.log = [.ack, .result 1 0 0, .complete 1 0, .result 2 1 7, .result 2 1 8, .pong, .complete 2 1] := by
  decide

end ApiFu.C08
