/-
  C08 — helper lemmas: once the write loop is gone the wire is final and no operation starts; the per-operation shape of the wire for every schedule.
-/
import ApiFu.C08.LemmasAcct
namespace ApiFu.C08

/-! ### G3f: once the write loop is gone the wire is final and no operation starts -/

theorem wireOf_nil_of {ext : List Out} (h : ∀ o ∈ ext, o.notWire = true) : wireOf ext = [] := by
  unfold wireOf
  apply List.filterMap_eq_nil_iff.mpr
  intro o ho
  have := h o ho
  cases o <;> simp_all [Out.notWire]

/-- A step of the write loop either writes nothing, or writes one message and stays in its loops. -/
theorem writerStep_wire (s : Sys) (pick : WPick) :
    wireOf (writerStep s pick).log = wireOf s.log ∨
    (writerLive (writerStep s pick).writer = true ∧ ∃ f, wireOf (writerStep s pick).log = wireOf s.log ++ [f]) := by
  have hfin : wireOf (finishClosing s).log = wireOf s.log := by
    obtain ⟨⟨ext, h1, h2⟩, _⟩ := ext_finishClosing s
    rw [h1, wireOf_append, wireOf_nil_of h2]; simp
  unfold writerStep
  split
  · rename_i hw
    cases pick <;> simp only []
    · split
      · left; rfl
      · rename_i f q _
        split
        · right; exact ⟨by simp [emit, hw, writerLive], f, by simp [emit, wireOf]⟩
        · left; rfl
    · split
      · left; rfl
      · left; rfl
    · split
      · left
        split
        · simp [writerExit, emit, wireOf]
        · rfl
      · left; rfl
  · rename_i c hw
    split
    · rename_i f q _
      split
      · right; exact ⟨by simp [emit, hw, writerLive], f, by simp [emit, wireOf]⟩
      · left; rfl
    · left
      split
      · simp [emit, wireOf]
      · rfl
  · left; rfl
  · split
    · left; exact hfin
    · left; rfl
  · left; rfl

/-- Only the write loop writes, and the step in which it leaves writes nothing. -/
theorem wire_frozen (cfg : Cfg) (s : Sys) (e : Ev) (hg : writerGone (stepS cfg s e) = true) :
    wireOf (stepS cfg s e).log = wireOf s.log := by
  by_cases hw : ∃ pick, e = .writerStep pick
  · obtain ⟨pick, rfl⟩ := hw
    change writerGone (writerStep s pick) = true at hg
    show wireOf (writerStep s pick).log = _
    rcases writerStep_wire s pick with h | ⟨h, _⟩
    · exact h
    · unfold writerGone at hg; unfold writerLive at h
      cases hx : (writerStep s pick).writer <;> simp [hx] at hg h
  · have hw' : ∀ pick, e ≠ .writerStep pick := fun pick he => hw ⟨pick, he⟩
    obtain ⟨⟨ext, h1, h2⟩, _⟩ := extNW_step cfg s e hw'
    rw [h1, wireOf_append, wireOf_nil_of h2]; simp


/-! No operation starts except when the reader handles a client frame. -/

def Out.noStart : Out → Bool
  | .started _ _ _ => false
  | .exec _ _ => false
  | _ => true

def ExtNS (s s' : Sys) : Prop := ∃ ext, s'.log = s.log ++ ext ∧ ∀ o ∈ ext, o.noStart = true

theorem ExtNS.refl (s : Sys) : ExtNS s s := ⟨[], by simp, by simp⟩
theorem ExtNS.trans {a b c : Sys} (h1 : ExtNS a b) (h2 : ExtNS b c) : ExtNS a c := by
  obtain ⟨e1, h1, n1⟩ := h1
  obtain ⟨e2, h2, n2⟩ := h2
  refine ⟨e1 ++ e2, by rw [h2, h1]; simp, ?_⟩
  intro o ho; rcases List.mem_append.mp ho with ho | ho
  · exact n1 o ho
  · exact n2 o ho

theorem ns_of_eq {s s' : Sys} (h1 : s'.log = s.log) (h2 : s'.didInit = s.didInit) : ExtNS s s' :=
  ⟨[], by simp [h1], by simp⟩

theorem ns_emit (s : Sys) (o : Out) (hn : o.noStart = true := by rfl) : ExtNS s (emit s o) :=
  ⟨[o], rfl, by intro o' ho'; simp at ho'; subst ho'; exact hn⟩

theorem ns_beginClosing (s : Sys) (c : Nat) : ExtNS s (beginClosing s c) :=
  ns_of_eq (beginClosing_same s c).1 (beginClosing_same s c).2.2.2.2.1

theorem ns_pump (cfg : Cfg) (s : Sys) (p : List SFrame) (fc : Bool) (tc : Option Nat) : ExtNS s (pump cfg s p fc tc) := by
  obtain ⟨a, b, _, h2, _⟩ := pump_spec cfg p fc tc s
  refine ⟨_, h2, ?_⟩
  intro o ho; obtain ⟨f, _, rfl⟩ := List.mem_map.mp ho; rfl

theorem ns_trySend (cfg : Cfg) (s : Sys) (f : SFrame) : ExtNS s (trySend cfg s f).1 := by
  rcases trySend_spec cfg s f with ⟨_, h2, _⟩ | ⟨_, h2, _⟩ | ⟨_, h2, _⟩ <;> rw [h2]
  · exact ns_emit _ _
  · exact ExtNS.refl s
  · exact ExtNS.refl s

theorem ns_callStop (s : Sys) (g : Gen) : ExtNS s (callStop s g) :=
  ⟨[.stop g], rfl, by simp [Out.noStart]⟩

theorem ns_stopAll (l : List (Id × Gen)) : ∀ s : Sys, ExtNS s (stopAll s l) := by
  induction l with
  | nil => intro s; exact ExtNS.refl s
  | cons p rest ih => intro s; unfold stopAll; exact (ns_callStop s p.2).trans (ih _)

theorem ns_handleClose (s : Sys) : ExtNS s (handleClose s) := by
  unfold handleClose
  simp only []
  have h := ns_stopAll s.subs s
  split
  · exact (h.trans (ns_of_eq rfl rfl)).trans (ns_emit _ _)
  · exact h.trans (ns_of_eq rfl rfl)

theorem ns_finishClosing (s : Sys) : ExtNS s (finishClosing s) := by
  unfold finishClosing; split
  · exact ExtNS.refl s
  · exact (ns_of_eq (s' := { s with finishOnce := true }) rfl rfl).trans (ns_handleClose _)

theorem ns_readerExit (s : Sys) : ExtNS s (readerExit s) := by
  unfold readerExit
  exact (ns_beginClosing s 1011).trans (ns_of_eq rfl rfl)

theorem ns_subTaskStep (cfg : Cfg) (s : Sys) (g : Gen) : ExtNS s (subTaskStep cfg s g) := by
  unfold subTaskStep
  split
  · exact ExtNS.refl s
  · split
    · split
      · exact (ns_of_eq (s' := { s with tasks := _ }) rfl rfl).trans (ns_emit _ _)
      · exact ExtNS.refl s
    · split
      · rename_i s' heq; have h1 := congrArg Prod.fst heq; simp at h1; rw [← h1]; exact ns_trySend _ _ _
      · rename_i s' r _ heq; have h1 := congrArg Prod.fst heq; simp at h1
        exact (h1 ▸ ns_trySend cfg s _).trans (ns_of_eq rfl rfl)
    · split
      · rename_i s' heq; have h1 := congrArg Prod.fst heq; simp at h1; rw [← h1]; exact ns_trySend _ _ _
      · rename_i s' r _ heq; have h1 := congrArg Prod.fst heq; simp at h1
        exact (h1 ▸ ns_trySend cfg s _).trans (ns_of_eq rfl rfl)
    · exact ExtNS.refl s

theorem ns_sourceStep (s : Sys) (g : Gen) (e : SrcEv) : ExtNS s (sourceStep s g e) := by
  unfold sourceStep
  split
  · exact ns_of_eq rfl rfl
  · split
    · exact ExtNS.refl s
    · split
      · exact (ns_of_eq (s' := { s with tasks := _ }) rfl rfl).trans (ns_emit _ _)
      · exact ExtNS.refl s

/-- Only the write loop writes: every other step leaves the wire alone. -/

theorem ns_writerStep (s : Sys) (pick : WPick) : ExtNS s (writerStep s pick) := by
  unfold writerStep
  split
  · cases pick <;> simp only []
    · split
      · exact ExtNS.refl s
      · split
        · exact (ns_of_eq (s' := { s with outgoing := _ }) rfl rfl).trans (ns_emit _ _)
        · exact ns_of_eq rfl rfl
    · split <;> first | exact ExtNS.refl s | exact ns_of_eq rfl rfl
    · split
      · split
        · exact (ns_emit _ _).trans (ns_of_eq rfl rfl)
        · exact ns_of_eq rfl rfl
      · exact ExtNS.refl s
  · split
    · split
      · exact (ns_of_eq (s' := { s with outgoing := _ }) rfl rfl).trans (ns_emit _ _)
      · exact ns_of_eq rfl rfl
    · split
      · exact (ns_emit _ _).trans (ns_of_eq rfl rfl)
      · exact ns_of_eq rfl rfl
  · exact ns_of_eq rfl rfl
  · split
    · exact (ns_finishClosing s).trans (ns_of_eq rfl rfl)
    · exact ExtNS.refl s
  · exact ExtNS.refl s

/-- Every step other than the handling of a client frame logs no `started` and no `exec`. -/
theorem ns_step (cfg : Cfg) (s : Sys) (e : Ev) (hc : ∀ f, e ≠ .client f) : ExtNS s (stepS cfg s e) := by
  unfold stepS
  cases e with
  | client f => exact absurd rfl (hc f)
  | source g e => exact ns_sourceStep _ _ _
  | readerStep =>
    simp only []
    split
    · split
      · exact ns_readerExit s
      · exact ExtNS.refl s
    · exact ns_pump _ _ _ _ _
    · exact ExtNS.refl s
  | writerStep pick => exact ns_writerStep _ _
  | subTaskStep g => exact ns_subTaskStep _ _ _
  | netDrop => exact ns_of_eq rfl rfl
  | serverClose =>
    simp only []
    split
    · have h1 : ExtNS s (if s.registered = true then emit { s with registered := false } Out.deregistered else s) := by
        split
        · exact (ns_of_eq (s' := { s with registered := false }) rfl rfl).trans (ns_emit _ _)
        · exact ExtNS.refl s
      exact (h1.trans (ns_beginClosing _ _)).trans (ns_of_eq rfl rfl)
    · split
      · exact (ns_finishClosing s).trans (ns_of_eq rfl rfl)
      · exact ExtNS.refl s
    · exact ExtNS.refl s

/-- Once the write loop is gone no operation starts any more: the connection is closed to the
    reader (`writerGone → ¬connOpen`), and nothing but the reader's handling of a frame starts one. -/
theorem gone_no_start (cfg : Cfg) (s : Sys) (e : Ev) (hc : Ctl s) (hg : writerGone (stepS cfg s e) = true)
    (o : Out) (ho : o.noStart = false) (hm : o ∈ (stepS cfg s e).log) : o ∈ s.log := by
  by_cases hcl : ∃ f, e = .client f
  · obtain ⟨f, rfl⟩ := hcl
    have hstep : stepS cfg s (.client f) = if s.reader == .reading && s.connOpen then handle cfg s f else s := rfl
    by_cases hx : (s.reader == .reading && s.connOpen) = true
    · rw [hstep, if_pos hx] at hg
      have hw : writerGone s = true := by
        unfold writerGone at hg ⊢; rw [handle_writer] at hg; exact hg
      have := hc.1 hw
      simp [this] at hx
    · rw [hstep, if_neg hx] at hm; exact hm
  · obtain ⟨ext, h1, h2⟩ := ns_step cfg s e (fun f he => hcl ⟨f, he⟩)
    rw [h1] at hm
    rcases List.mem_append.mp hm with hm | hm
    · exact hm
    · rw [h2 o hm] at ho; cases ho


/-! ### The per-operation shape of the wire, for every schedule -/

/-- results* then at most one complete -/
def SubShape (id : Id) (g : Gen) (l : List SFrame) : Prop :=
  ∃ (evs : List Nat) (c : List SFrame), l = evs.map (SFrame.result id g) ++ c ∧ (c = [] ∨ c = [.complete id g])

theorem prefix_append_cases {α : Type} : ∀ {l a b : List α}, l <+: a ++ b → l <+: a ∨ ∃ t, l = a ++ t ∧ t <+: b := by
  intro l a
  induction a generalizing l with
  | nil => intro b h; right; exact ⟨l, rfl, by simpa using h⟩
  | cons x xs ih =>
    intro b h
    cases l with
    | nil => left; exact List.nil_prefix
    | cons y ys =>
      rw [List.cons_append, List.cons_prefix_cons] at h
      obtain ⟨rfl, h⟩ := h
      rcases ih h with h1 | ⟨t, rfl, ht⟩
      · left; exact List.cons_prefix_cons.mpr ⟨rfl, h1⟩
      · right; exact ⟨t, rfl, ht⟩

theorem prefix_map_result {id : Id} {g : Gen} {l : List SFrame} {evs : List Nat}
    (h : l <+: evs.map (SFrame.result id g)) : ∃ evs' : List Nat, l = evs'.map (SFrame.result id g) := by
  obtain ⟨r, hr⟩ := h
  refine ⟨evs.take l.length, ?_⟩
  have := congrArg (List.take l.length) hr
  rw [List.take_left' rfl] at this
  rw [List.map_take]; exact this

theorem subShape_of_prefix {id : Id} {g : Gen} {l : List SFrame} {evs : List Nat} {c : List SFrame}
    (hc : c = [] ∨ c = [.complete id g]) (h : l <+: evs.map (SFrame.result id g) ++ c) : SubShape id g l := by
  rcases prefix_append_cases h with hp | ⟨t, rfl, ht⟩
  · obtain ⟨evs', rfl⟩ := prefix_map_result hp
    exact ⟨evs', [], by simp, Or.inl rfl⟩
  · rcases hc with rfl | rfl
    · have : t = [] := List.prefix_nil.mp ht
      exact ⟨evs, [], by simp [this], Or.inl rfl⟩
    · cases t with
      | nil => exact ⟨evs, [], by simp, Or.inl rfl⟩
      | cons y ys =>
        rw [List.cons_prefix_cons] at ht
        obtain ⟨rfl, ht'⟩ := ht
        have : ys = [] := List.prefix_nil.mp ht'
        subst this
        exact ⟨evs, [.complete id g], rfl, Or.inr rfl⟩

def AllInv (cfg : Cfg) (s : Sys) : Prop := Ctl s ∧ Book s ∧ Fifo s ∧ Gens s ∧ Acct cfg s

theorem allInv_init (cfg : Cfg) : AllInv cfg init := ⟨ctl_init, book_init, fifo_init, gens_init, acct_init cfg⟩

theorem allInv_step {cfg : Cfg} {s : Sys} (h : AllInv cfg s) (e : Ev) : AllInv cfg (stepS cfg s e) :=
  ⟨ctl_step cfg h.1 e, book_step h.1 h.2.1 e, fifo_step h.2.2.1 e, gens_step h.2.1 h.2.2.1 h.2.2.2.1 e,
   acct_step h.2.1 h.2.2.2.1 h.2.2.2.2 e⟩

def WireSafe (s : Sys) : Prop :=
  (∀ g id k, Out.started g id k ∈ s.log → k ≠ .subscription →
      projGen g (wireOf s.log) <+: [.result id g 0, .complete id g]) ∧
  (∀ g, Out.exec g .subscription ∈ s.log →
      ∃ id, Out.started g id .subscription ∈ s.log ∧ SubShape id g (projGen g (wireOf s.log)))

theorem projGen_prefix {g : Gen} {a b : List SFrame} (h : a <+: b) : projGen g a <+: projGen g b := by
  obtain ⟨t, rfl⟩ := h
  exact ⟨projGen g t, by simp⟩

theorem fifo_wire_prefix {s : Sys} (hf : Fifo s) : wireOf s.log <+: enqOf s.log := by
  obtain ⟨d, h1, _⟩ := hf
  simp only [absF] at h1
  exact ⟨d ++ s.outgoing, by rw [h1]; simp⟩

theorem mem_marks_started {g : Gen} {id : Id} {k : OpKind} {log : List Out} :
    Out.started g id k ∈ log.filter Out.isMark ↔ Out.started g id k ∈ log := by
  simp [List.mem_filter, Out.isMark]

theorem wireSafe_of_noFail {cfg : Cfg} {s : Sys} (h : AllInv cfg s) (hnf : noFail cfg s = true) : WireSafe s := by
  obtain ⟨_, hb, hf, hg, ha⟩ := h
  obtain ⟨a1, a2, _, _⟩ := ha hnf
  have hw := fifo_wire_prefix hf
  constructor
  · intro g id k hm hk
    have h1 := a1 g id k (mem_marks_started.mpr hm) hk
    have : projGen g (wireOf s.log) <+: projGen g ((absA s).enq ++ (absA s).pend) :=
      projGen_prefix (hw.trans ⟨(absA s).pend, rfl⟩)
    rw [h1] at this; exact this
  · intro g hm
    have hgt : g ∈ (absBook s).tasks.map (·.1) := (hb.2.2.2.2.2.2.2.2.2.1 g).mp ((mem_execSubsOf g s.log).mpr hm)
    obtain ⟨tb, htb, rfl⟩ := List.mem_map.mp hgt
    obtain ⟨t, ht, rfl⟩ := List.mem_map.mp htb
    refine ⟨t.id, hg.2.2.2 t ht, ?_⟩
    have h2 := a2 _ (mem_absA_tasks ht)
    simp only [] at h2
    have hp : projGen t.gen (wireOf s.log) <+: (consumedOf t.gen (absA s).marks).map (.result t.id t.gen) ++
        (if returnedIn t.gen (absA s).marks then [.complete t.id t.gen] else []) := by
      rw [← h2]
      exact (projGen_prefix hw).trans ⟨_, rfl⟩
    apply subShape_of_prefix _ hp
    split
    · exact Or.inr rfl
    · exact Or.inl rfl

theorem wireSafe_step {cfg : Cfg} {s : Sys} (h : AllInv cfg s) (hs : WireSafe s) (e : Ev) : WireSafe (stepS cfg s e) := by
  have h' := allInv_step h e
  by_cases hnf : noFail cfg (stepS cfg s e) = true
  · exact wireSafe_of_noFail h' hnf
  · have hg : writerGone (stepS cfg s e) = true := by
      unfold noFail at hnf
      cases hx : writerGone (stepS cfg s e) with
      | true => rfl
      | false => simp [hx] at hnf
    have hw := wire_frozen cfg s e hg
    have hsub : ∀ o ∈ s.log, o ∈ (stepS cfg s e).log := by
      obtain ⟨⟨ext, h1⟩, _⟩ := ext_step cfg s e
      intro o ho; rw [h1]; exact List.mem_append_left _ ho
    constructor
    · intro g id k hm hk
      rw [hw]
      exact hs.1 g id k (gone_no_start cfg s e h.1 hg _ rfl hm) hk
    · intro g hm
      rw [hw]
      obtain ⟨id, h1, h2⟩ := hs.2 g (gone_no_start cfg s e h.1 hg _ rfl hm)
      exact ⟨id, hsub _ h1, h2⟩

theorem wireSafe_init : WireSafe init := by
  constructor <;> simp [init]

theorem safe_reachable (cfg : Cfg) (evs : List Ev) : AllInv cfg (run cfg init evs) ∧ WireSafe (run cfg init evs) :=
  run_induction cfg (fun s => AllInv cfg s ∧ WireSafe s) init ⟨allInv_init cfg, wireSafe_init⟩
    (fun _ e h => ⟨allInv_step h.1 e, wireSafe_step h.1 h.2 e⟩) evs

end ApiFu.C08
