/-
  C08 — schedule independence, helper lemmas.

  The *skeleton* of a state (`skelOf`) is what the read loop's decisions depend on and what the
  harness observes of the bookkeeping: `didInit`, the serial-number counter, the subscriptions map,
  which sources exist and which of them have been closed by the application, the `started` marks,
  the Stop() calls. Program counters of all goroutines, the `outgoing` buffer, the
  writer, the closer and the rest of the log are erased.

  `Skel.input` is a *sequential* reference machine on skeletons: it consumes the harness's inputs
  only (client frames, "source closed"); every other event — every step of
  the scheduler, and every source event — is the identity on it. `skel_step` shows that one step of
  the interleaving model, taken under the harness discipline (`EffAt`, `DiscAt`), is one step of the
  reference machine on the skeleton; hence the skeleton reached by a schedule is a function of its
  input subsequence alone (`skel_refines`, `skelRun_filter`).
-/
import ApiFu.C08.Props
namespace ApiFu.C08

def startedOf (log : List Out) : List (Gen × Id × OpKind) :=
  log.filterMap fun | .started g id k => some (g, id, k) | _ => none

structure Skel where
  didInit : Bool
  nextGen : Gen
  subs : List (Id × Gen)
  /-- one entry per source ever created on the connection: has the application closed its channel -/
  srcs : List (Gen × Bool)
  started : List (Gen × Id × OpKind)
  stops : List Gen
  deriving DecidableEq, Repr

def skelOf (s : Sys) : Skel :=
  { didInit := s.didInit, nextGen := s.nextGen, subs := s.subs,
    srcs := s.tasks.map (fun t => (t.gen, t.chanClosed)),
    started := startedOf s.log, stops := stopsOf s.log }

/-! ### The sequential reference machine -/

def Skel.srcEnded (k : Skel) (g : Gen) : Bool :=
  match k.srcs.find? (fun p => p.1 == g) with
  | some p => p.2
  | none => false

def Skel.stop (k : Skel) (id : Id) (g : Gen) : Skel :=
  { k with subs := eraseSub k.subs id, stops := k.stops ++ [g] }

/-- The duplicate-id rule of HandleStart, read off the property/fix 02: an id held by a subscription
    whose source has ended is released (its Stop() runs), an id held by a live one is refused. -/
def Skel.admitId (cfg : Cfg) (k : Skel) (id : Id) : Option Skel :=
  match findSub k.subs id with
  | none => some k
  | some g' => if cfg.reuseFix && k.srcEnded g' then some (k.stop id g') else none

/-- HandleStart for the operation with serial number `g`. -/
def Skel.start (cfg : Cfg) (k : Skel) (g : Gen) (id : Id) : OpKind → Skel
  | .invalid => { k with started := k.started ++ [(g, id, .invalid)] }
  | .query => { k with started := k.started ++ [(g, id, .query)] }
  | .mutation => { k with started := k.started ++ [(g, id, .mutation)] }
  | .subFail =>
    match k.admitId cfg id with
    | none => k
    | some k => { k with started := k.started ++ [(g, id, .subFail)] }
  | .subscription =>
    match k.admitId cfg id with
    | none => k
    | some k => { k with started := k.started ++ [(g, id, .subscription)], subs := (id, g) :: k.subs,
                         srcs := k.srcs ++ [(g, false)] }

def Skel.frame (cfg : Cfg) (k : Skel) : CFrame → Skel
  | .init true => { k with didInit := true }
  | .start id kind =>
    let k' := { k with nextGen := k.nextGen + 1 }
    if !k.didInit then k' else k'.start cfg k.nextGen id kind
  | .stop id =>
    if !k.didInit then k else
    match findSub k.subs id with
    | none => k
    | some g => k.stop id g
  | _ => k

def Skel.input (cfg : Cfg) (k : Skel) : Ev → Skel
  | .client f => k.frame cfg f
  | .source g .ended => { k with srcs := k.srcs.map (fun p => if p.1 == g then (p.1, true) else p) }
  | _ => k

def skelRun (cfg : Cfg) (k : Skel) (evs : List Ev) : Skel := evs.foldl (Skel.input cfg) k

/-- The events the reference machine looks at: client frames, "the application closed the source". -/
def Ev.isCtlInput : Ev → Bool
  | .client _ => true
  | .source _ .ended => true
  | _ => false

theorem skel_input_other (cfg : Cfg) (k : Skel) (e : Ev) (h : e.isCtlInput = false) : k.input cfg e = k := by
  cases e with
  | source g se => cases se <;> simp_all [Ev.isCtlInput, Skel.input]
  | _ => simp_all [Ev.isCtlInput, Skel.input]

/-- Scheduler steps, source events and the network drop are invisible to the reference machine. -/
theorem skelRun_filter (cfg : Cfg) (k : Skel) (evs : List Ev) :
    skelRun cfg k evs = skelRun cfg k (evs.filter Ev.isCtlInput) := by
  induction evs generalizing k with
  | nil => rfl
  | cons e es ih =>
    by_cases h : e.isCtlInput = true
    · rw [List.filter_cons_of_pos h]; exact ih _
    · rw [List.filter_cons_of_neg h]
      show skelRun cfg (k.input cfg e) es = _
      rw [skel_input_other cfg k e (by simpa using h)]; exact ih _

theorem skelRun_append (cfg : Cfg) (k : Skel) (a b : List Ev) :
    skelRun cfg k (a ++ b) = skelRun cfg (skelRun cfg k a) b := by
  simp [skelRun, List.foldl_append]

/-! ### The harness discipline, as a predicate on one step -/

/-- *Effective* inputs: the harness only counts a frame as sent when the read loop will read it
    (the model's `client f` is "the read loop reads f": the loop must be waiting for a frame on an
    open connection), and only counts a source event that the goroutine took from the channel (the
    harness's unbuffered send returned). -/
def EffAt (s : Sys) : Ev → Prop
  | .client _ => s.reader = .reading ∧ s.connOpen = true
  | .source g (.event _) => ∃ t, findTask s.tasks g = some t ∧ t.pc = .select ∧ t.chanClosed = false
  | _ => True

/-- *Discipline*: a subscription start re-uses the id of an entry of the subscriptions map only when
    nothing is outstanding for that entry's goroutine (it is idle: finished, or waiting in `Run`
    with an open source and no Stop). -/
def DiscAt (s : Sys) : Ev → Prop
  | .client (.start id k) =>
    (k = .subscription ∨ k = .subFail) →
      ∀ g' t, findSub s.subs id = some g' → findTask s.tasks g' = some t → t.idle
  | _ => True

/-- The schedule respects the discipline at every step of its run from `s`. -/
def Harnessed (cfg : Cfg) : Sys → List Ev → Prop
  | _, [] => True
  | s, e :: es => EffAt s e ∧ DiscAt s e ∧ Harnessed cfg (stepS cfg s e) es

/-! ### skelOf through the helper functions -/

theorem startedOf_append (a b : List Out) : startedOf (a ++ b) = startedOf a ++ startedOf b := by
  simp [startedOf]

def Out.ctlQuiet : Out → Bool
  | .started _ _ _ => false
  | .stop _ => false
  | _ => true

theorem skelOf_emit (s : Sys) (o : Out) (h : o.ctlQuiet = true) : skelOf (emit s o) = skelOf s := by
  unfold skelOf emit
  simp only [startedOf_append, stopsOf_append]
  cases o <;> simp_all [Out.ctlQuiet, startedOf, stopsOf]

theorem skelOf_beginClosing (s : Sys) (c : Nat) : skelOf (beginClosing s c) = skelOf s := by
  unfold beginClosing; split <;> rfl

theorem skelOf_trySend (cfg : Cfg) (s : Sys) (f : SFrame) : skelOf (trySend cfg s f).1 = skelOf s := by
  unfold trySend
  split
  · rfl
  · split
    · exact skelOf_emit _ _ rfl
    · rfl

theorem skelOf_doneSending (s : Sys) (tc : Option Nat) : skelOf (doneSending s tc) = skelOf s := by
  unfold doneSending
  split
  · rw [skelOf_beginClosing]; rfl
  · rfl

theorem skelOf_pump (cfg : Cfg) (s : Sys) (p : List SFrame) (fc : Bool) (tc : Option Nat) :
    skelOf (pump cfg s p fc tc) = skelOf s := by
  induction p generalizing s with
  | nil => unfold pump; exact skelOf_doneSending s tc
  | cons f rest ih =>
    unfold pump
    have h1 := skelOf_trySend cfg s f
    split
    · rename_i s' heq; rw [heq] at h1; rw [ih]; exact h1
    · rename_i s' heq; rw [heq] at h1
      rw [skelOf_doneSending]
      split
      · rw [skelOf_beginClosing]; exact h1
      · exact h1
    · rename_i s' heq; rw [heq] at h1
      exact h1

theorem skelOf_readerExit (s : Sys) : skelOf (readerExit s) = skelOf s := by
  unfold readerExit
  show skelOf (beginClosing s 1011) = _
  exact skelOf_beginClosing s 1011

theorem srcs_setTask (ts : List Task) (g : Gen) (f : Task → Task)
    (hf : ∀ t, (f t).gen = t.gen ∧ (f t).chanClosed = t.chanClosed) :
    (setTask ts g f).map (fun t => (t.gen, t.chanClosed)) = ts.map (fun t => (t.gen, t.chanClosed)) := by
  unfold setTask
  rw [List.map_map]
  apply List.map_congr_left
  intro t _
  simp only [Function.comp]
  split
  · rw [(hf t).1, (hf t).2]
  · rfl

theorem skelOf_callStop (s : Sys) (subs' : List (Id × Gen)) (id : Id) (g : Gen) (h : subs' = eraseSub s.subs id) :
    skelOf (callStop { s with subs := subs' } g) = (skelOf s).stop id g := by
  unfold callStop emit skelOf Skel.stop
  simp only [startedOf_append, stopsOf_append, h]
  rw [srcs_setTask s.tasks g (fun t => { t with cancelled := true }) (fun t => ⟨rfl, rfl⟩)]
  simp [startedOf, stopsOf]

theorem skelOf_handleStop (s : Sys) (id : Id) :
    skelOf (handleStop s id) =
      match findSub s.subs id with
      | none => skelOf s
      | some g => (skelOf s).stop id g := by
  unfold handleStop
  cases h : findSub s.subs id with
  | none => rfl
  | some g => exact skelOf_callStop s _ id g rfl

theorem srcEnded_skelOf (s : Sys) (g : Gen) :
    (skelOf s).srcEnded g = match findTask s.tasks g with | some t => t.chanClosed | none => false := by
  unfold Skel.srcEnded skelOf findTask
  simp only [List.find?_map]
  cases h : List.find? ((fun p : Gen × Bool => p.1 == g) ∘ fun t : Task => (t.gen, t.chanClosed)) s.tasks with
  | none =>
    have : List.find? (fun t : Task => t.gen == g) s.tasks = none := h
    rw [this]; rfl
  | some t =>
    have : List.find? (fun t : Task => t.gen == g) s.tasks = some t := h
    rw [this]; rfl


/-- What the discipline gives at a duplicate start: "the goroutine has returned" (what the code
    tests, `taskEnded`: its `ended` channel is closed) and "the application has closed the source"
    (what the reference machine tests) coincide. -/
theorem ended_of_idle {s : Sys} (hb : Book s) (hfl : Flags s) {id : Id} {g' : Gen} (hf : findSub s.subs id = some g')
    (hidle : ∀ t, findTask s.tasks g' = some t → t.idle) : taskEnded s g' = (skelOf s).srcEnded g' := by
  rw [srcEnded_skelOf]
  unfold taskEnded
  cases ht : findTask s.tasks g' with
  | none => rfl
  | some t =>
    simp only []
    obtain ⟨hmem, hgen⟩ := findTask_some ht
    rcases hidle t ht with hd | ⟨hs, _, hcc⟩
    · have hfo := hfl t hmem
      have hm : (t.gen, t.id, t.cancelled) ∈ (absBook s).tasks := List.mem_map.mpr ⟨t, hmem, rfl⟩
      have h7 := hb.2.2.2.2.2.2.1 _ hm
      simp only [] at h7
      have hin : t.gen ∈ (absBook s).subs.map (·.2) := by
        rw [hgen]; exact List.mem_map.mpr ⟨(id, g'), findSub_mem hf, rfl⟩
      have hnc : t.cancelled = false := by
        cases hc : t.cancelled with
        | false => rfl
        | true => exact absurd hin (h7.mp hc)
      simp [Task.flagsOk, hd, hnc] at hfo
      simp [hd, hfo]
    · simp [hs, hcc]

theorem skel_admitSub (cfg : Cfg) (s : Sys) (id : Id)
    (hE : ∀ g', findSub s.subs id = some g' → taskEnded s g' = (skelOf s).srcEnded g') :
    (skelOf s).admitId cfg id = (admitSub cfg s id).map skelOf := by
  unfold Skel.admitId admitSub
  show (match findSub s.subs id with | none => _ | some g' => _) = _
  cases h : findSub s.subs id with
  | none => rfl
  | some g' =>
    simp only [hE g' h]
    split
    · simp only [Option.map_some]
      rw [skelOf_callStop s _ id g' rfl]
    · rfl

theorem skelOf_startSync (s : Sys) (g : Gen) (id : Id) (k : OpKind) (e : Bool) :
    skelOf (startSync s g id k e).1 = { skelOf s with started := (skelOf s).started ++ [(g, id, k)] } := by
  unfold startSync
  cases e
  · simp only [Bool.false_eq_true, ite_false]
    unfold skelOf emit; simp [startedOf, stopsOf]
  · simp only [ite_true]
    rw [skelOf_emit _ _ rfl]
    unfold skelOf emit; simp [startedOf, stopsOf]

theorem skelOf_startSub (s : Sys) (g : Gen) (id : Id) :
    skelOf (startSub s g id) =
      { skelOf s with started := (skelOf s).started ++ [(g, id, .subscription)], subs := (id, g) :: (skelOf s).subs,
                      srcs := (skelOf s).srcs ++ [(g, false)] } := by
  unfold startSub skelOf emit; simp [startedOf, stopsOf]

theorem skel_handleStart (cfg : Cfg) (s : Sys) (g : Gen) (id : Id) (k : OpKind)
    (hE : (k = .subscription ∨ k = .subFail) →
      ∀ g', findSub s.subs id = some g' → taskEnded s g' = (skelOf s).srcEnded g') :
    skelOf (handleStart cfg s g id k).1 = (skelOf s).start cfg g id k := by
  unfold handleStart Skel.start
  cases k with
  | invalid => exact skelOf_startSync ..
  | query => exact skelOf_startSync ..
  | mutation => exact skelOf_startSync ..
  | subFail =>
    simp only []
    rw [skel_admitSub cfg s id (hE (Or.inr rfl))]
    cases admitSub cfg s id with
    | none => rfl
    | some s' => simp only [Option.map_some]; exact skelOf_startSync ..
  | subscription =>
    simp only []
    rw [skel_admitSub cfg s id (hE (Or.inl rfl))]
    cases admitSub cfg s id with
    | none => rfl
    | some s' => simp only [Option.map_some]; exact skelOf_startSub ..


theorem skelOf_emit_gen (s : Sys) (o : Out) (n : Gen) (h : o.ctlQuiet = true) :
    skelOf { emit s o with nextGen := n } = { skelOf s with nextGen := n } := by
  have := skelOf_emit s o h
  unfold skelOf emit at *
  simp only [Skel.mk.injEq] at this ⊢
  simp [this.2.2.2.2.1, this.2.2.2.2.2]

/-- One client frame handled by the read loop is one step of the reference machine. -/
theorem skel_handle (cfg : Cfg) (s : Sys) (f : CFrame) (hb : Book s) (hfl : Flags s) (hd : DiscAt s (.client f)) :
    skelOf (handle cfg s f) = (skelOf s).frame cfg f := by
  unfold handle
  cases f with
  | close =>
    simp only []
    rw [skelOf_readerExit]
    exact skelOf_emit s _ rfl
  | malformed =>
    simp only []
    cases cfg.proto <;> simp only [skelOf_beginClosing] <;> exact skelOf_emit s _ rfl
  | init ok =>
    cases ok with
    | true =>
      simp only []
      cases cfg.proto <;> simp only [skelOf_pump] <;>
        (show skelOf { emit s _ with didInit := true } = _
         have := skelOf_emit s (.recv (.init true) s.didInit) rfl
         unfold skelOf emit Skel.frame at *
         simp only [Skel.mk.injEq] at this ⊢
         simp [this.2.2.2.2.1, this.2.2.2.2.2])
    | false =>
      simp only []
      cases cfg.proto <;> simp only [skelOf_pump, skelOf_beginClosing] <;> exact skelOf_emit s _ rfl
  | start id k =>
    simp only []
    unfold Skel.frame
    show skelOf (if (!s.didInit) = true then _ else _) = (if (!s.didInit) = true then _ else _)
    by_cases hi : (!s.didInit) = true
    · rw [if_pos hi, if_pos hi]
      exact skelOf_emit_gen s _ _ rfl
    · rw [if_neg hi, if_neg hi]
      show skelOf (pump cfg (handleStart cfg _ s.nextGen id k).1 (handleStart cfg _ s.nextGen id k).2 false none) = _
      rw [skelOf_pump, skel_handleStart, skelOf_emit_gen s _ _ rfl]
      · rfl
      · intro hk g' hf
        have hf' : findSub s.subs id = some g' := hf
        exact ended_of_idle hb hfl hf' (fun t ht => hd hk g' t hf' ht)
  | startBad id =>
    simp only []
    cases cfg.proto
    · exact skelOf_emit s _ rfl
    · simp only []
      split
      · exact skelOf_emit s _ rfl
      · rw [skelOf_beginClosing]; exact skelOf_emit s _ rfl
  | stop id =>
    simp only []
    unfold Skel.frame
    show skelOf (if (!s.didInit) = true then _ else _) = (if (!s.didInit) = true then _ else _)
    by_cases hi : (!s.didInit) = true
    · rw [if_pos hi, if_pos hi]; exact skelOf_emit s _ rfl
    · rw [if_neg hi, if_neg hi]
      rw [skelOf_handleStop]
      show (match findSub s.subs id with | none => skelOf (emit s _) | some g => (skelOf (emit s _)).stop id g) = _
      rw [skelOf_emit s _ rfl]
      rfl
  | ping =>
    simp only []
    cases cfg.proto
    · exact skelOf_emit s _ rfl
    · simp only []
      split
      · split
        · exact skelOf_emit s _ rfl
        · rw [skelOf_pump]; exact skelOf_emit s _ rfl
      · rw [skelOf_beginClosing]; exact skelOf_emit s _ rfl
  | pong => exact skelOf_emit s _ rfl
  | terminate =>
    simp only []
    cases cfg.proto <;> simp only [skelOf_beginClosing] <;> exact skelOf_emit s _ rfl
  | unknown =>
    simp only []
    cases cfg.proto <;> simp only [skelOf_beginClosing] <;> exact skelOf_emit s _ rfl


theorem handleClose_closed (s : Sys) : (handleClose s).handlerClosed = true := by
  unfold handleClose; simp only []; split <;> rfl

theorem skelOf_writerStep (s : Sys) (pick : WPick) (hopen : (writerStep s pick).handlerClosed = false) :
    skelOf (writerStep s pick) = skelOf s := by
  unfold writerStep at hopen ⊢
  cases hw : s.writer with
  | loop =>
    simp only [hw] at hopen ⊢
    cases pick with
    | outgoing =>
      simp only []
      split
      · rfl
      · split
        · exact skelOf_emit _ _ rfl
        · rfl
    | closeMsg =>
      simp only []
      split <;> rfl
    | closeRecv =>
      simp only []
      split
      · split
        · show skelOf (emit s _) = _; exact skelOf_emit _ _ rfl
        · rfl
      · rfl
  | draining c =>
    simp only [hw] at hopen ⊢
    split
    · split
      · exact skelOf_emit _ _ rfl
      · rfl
    · split
      · show skelOf (emit s _) = _; exact skelOf_emit _ _ rfl
      · rfl
  | closeWait => simp only [hw]; rfl
  | exited =>
    simp only [hw] at hopen ⊢
    split
    · rename_i hr
      rw [if_pos hr] at hopen
      unfold finishClosing at hopen ⊢
      split
      · rfl
      · rename_i hfo
        rw [if_neg hfo] at hopen
        have := handleClose_closed { s with finishOnce := true }
        simp only [] at hopen
        rw [this] at hopen; cases hopen
    · rfl
  | finished => simp only [hw]

theorem srcs_setPc (ts : List Task) (g : Gen) (pc : TaskPc) :
    (setTask ts g (fun t => { t with pc := pc })).map (fun t => (t.gen, t.chanClosed)) = ts.map (fun t => (t.gen, t.chanClosed)) :=
  srcs_setTask ts g _ (fun _ => ⟨rfl, rfl⟩)

theorem skelOf_subTaskStep (cfg : Cfg) (s : Sys) (g : Gen) : skelOf (subTaskStep cfg s g) = skelOf s := by
  unfold subTaskStep
  split
  · rfl
  · rename_i t ht
    split
    · split
      · unfold skelOf emit
        simp only [startedOf_append, stopsOf_append]
        rw [srcs_setPc]
        simp [startedOf, stopsOf]
      · rfl
    · rename_i ev hpc
      have h1 := skelOf_trySend cfg s (.result t.id t.gen ev)
      split
      · rename_i s' heq; rw [heq] at h1; exact h1
      · rename_i s' r hne heq; rw [heq] at h1
        rw [← h1]
        unfold skelOf
        simp only []
        rw [srcs_setPc]
    · have h1 := skelOf_trySend cfg s (.complete t.id t.gen)
      split
      · rename_i s' heq; rw [heq] at h1; exact h1
      · rename_i s' r hne heq; rw [heq] at h1
        rw [← h1]
        unfold skelOf
        simp only []
        rw [srcs_setPc]
    · rfl

theorem skelOf_sourceStep (cfg : Cfg) (s : Sys) (g : Gen) (e : SrcEv) :
    skelOf (sourceStep s g e) = (skelOf s).input cfg (.source g e) := by
  unfold sourceStep
  cases e with
  | ended =>
    simp only [Skel.input]
    unfold skelOf setTask
    simp only [List.map_map, Skel.mk.injEq, true_and, and_true]
    apply List.map_congr_left
    intro t _
    simp only [Function.comp]
    by_cases h : (t.gen == g) = true <;> simp [h]
  | event n =>
    simp only [Skel.input]
    split
    · rfl
    · split
      · unfold skelOf emit
        simp only [startedOf_append, stopsOf_append]
        rw [srcs_setPc]
        simp [startedOf, stopsOf]
      · rfl

/-- **One step of the model is one step of the reference machine on the skeleton** (as long as
    HandleClose has not run): scheduler steps, source events, the network drop and
    CloseHijackedConnections leave the skeleton alone; a client frame, read under the discipline,
    and "source closed" act on it as `Skel.input` says. -/
theorem skel_step (cfg : Cfg) {s : Sys} (hb : Book s) (hfl : Flags s) (e : Ev) (heff : EffAt s e) (hd : DiscAt s e)
    (hopen : (stepS cfg s e).handlerClosed = false) : skelOf (stepS cfg s e) = (skelOf s).input cfg e := by
  cases e with
  | client f =>
    obtain ⟨hr, ho⟩ := heff
    show skelOf (if s.reader == .reading && s.connOpen then handle cfg s f else s) = _
    simp only [hr, ho, beq_self_eq_true, Bool.and_self, ite_true]
    exact skel_handle cfg s f hb hfl hd
  | readerStep =>
    show skelOf (match s.reader with
      | .reading => if !s.connOpen then readerExit s else s
      | .sending p fc tc => pump cfg s p fc tc
      | .done => s) = skelOf s
    split
    · split
      · exact skelOf_readerExit s
      · rfl
    · exact skelOf_pump ..
    · rfl
  | writerStep pick => exact skelOf_writerStep s pick hopen
  | subTaskStep g => exact skelOf_subTaskStep cfg s g
  | source g se => exact skelOf_sourceStep cfg s g se
  | netDrop => rfl
  | serverClose =>
    unfold stepS at hopen ⊢
    simp only [] at hopen ⊢
    cases hcl : s.closer with
    | idle =>
      simp only [hcl] at hopen ⊢
      show skelOf (beginClosing _ 1000) = _
      rw [skelOf_beginClosing]
      split
      · exact skelOf_emit _ _ rfl
      · rfl
    | waiting =>
      simp only [hcl] at hopen ⊢
      split
      · rename_i hr
        rw [if_pos hr] at hopen
        unfold finishClosing at hopen ⊢
        split
        · rfl
        · rename_i hfo
          rw [if_neg hfo] at hopen
          have := handleClose_closed { s with finishOnce := true }
          simp only [] at hopen
          rw [this] at hopen; cases hopen
      · rfl
    | done => simp only [hcl]; rfl

theorem trySend_closed (cfg : Cfg) (s : Sys) (f : SFrame) : (trySend cfg s f).1.handlerClosed = s.handlerClosed := by
  unfold trySend emit; split
  · rfl
  · split <;> rfl

theorem beginClosing_closed (s : Sys) (c : Nat) : (beginClosing s c).handlerClosed = s.handlerClosed := by
  unfold beginClosing; split <;> rfl

theorem finishClosing_closed (s : Sys) (h : s.handlerClosed = true) : (finishClosing s).handlerClosed = true := by
  unfold finishClosing; split
  · exact h
  · exact handleClose_closed _

theorem subTaskStep_closed (cfg : Cfg) (s : Sys) (g : Gen) : (subTaskStep cfg s g).handlerClosed = s.handlerClosed := by
  unfold subTaskStep
  split
  · rfl
  · rename_i t ht
    split
    · split <;> rfl
    · rename_i ev hpc
      have h1 := trySend_closed cfg s (.result t.id t.gen ev)
      split
      · rename_i s' heq; rw [heq] at h1; exact h1
      · rename_i s' r hne heq; rw [heq] at h1; exact h1
    · have h1 := trySend_closed cfg s (.complete t.id t.gen)
      split
      · rename_i s' heq; rw [heq] at h1; exact h1
      · rename_i s' r hne heq; rw [heq] at h1; exact h1
    · rfl

theorem sourceStep_closed (s : Sys) (g : Gen) (e : SrcEv) : (sourceStep s g e).handlerClosed = s.handlerClosed := by
  unfold sourceStep
  cases e with
  | ended => rfl
  | event n =>
    simp only []
    split
    · rfl
    · split <;> rfl

/-- HandleClose is final: once it has run, the handler stays closed. -/
theorem closed_stays (cfg : Cfg) {s : Sys} (hc : Ctl s) (h : s.handlerClosed = true) (e : Ev) :
    (stepS cfg s e).handlerClosed = true := by
  obtain ⟨hr, hw⟩ := hc.2.2.2.1 h
  unfold stepS
  cases e with
  | client f => simp only [hr]; exact h
  | readerStep => simp only [hr]; exact h
  | writerStep pick =>
    simp only []
    unfold writerStep
    unfold writerGone at hw
    cases hwr : s.writer with
    | loop => rw [hwr] at hw; cases hw
    | draining c => rw [hwr] at hw; cases hw
    | closeWait => rw [hwr] at hw; cases hw
    | exited =>
      simp only []
      split
      · exact finishClosing_closed s h
      · exact h
    | finished => exact h
  | subTaskStep g => simp only []; rw [subTaskStep_closed]; exact h
  | source g se => simp only []; rw [sourceStep_closed]; exact h
  | netDrop => exact h
  | serverClose =>
    simp only []
    cases hcl : s.closer with
    | idle =>
      simp only []
      show (beginClosing _ 1000).handlerClosed = true
      rw [beginClosing_closed]
      split <;> exact h
    | waiting =>
      simp only []
      split
      · exact finishClosing_closed s h
      · exact h
    | done => exact h

theorem doneSending_closed (s : Sys) (tc : Option Nat) : (doneSending s tc).handlerClosed = s.handlerClosed := by
  unfold doneSending; split
  · rw [beginClosing_closed]
  · rfl

theorem pump_closed (cfg : Cfg) (s : Sys) (p : List SFrame) (fc : Bool) (tc : Option Nat) :
    (pump cfg s p fc tc).handlerClosed = s.handlerClosed := by
  induction p generalizing s with
  | nil => unfold pump; exact doneSending_closed s tc
  | cons f rest ih =>
    unfold pump
    have h1 := trySend_closed cfg s f
    split
    · rename_i s' heq; rw [heq] at h1; rw [ih]; exact h1
    · rename_i s' heq; rw [heq] at h1
      rw [doneSending_closed]
      split
      · rw [beginClosing_closed]; exact h1
      · exact h1
    · rename_i s' heq; rw [heq] at h1
      exact h1

theorem handleStart_closed (cfg : Cfg) (s : Sys) (g : Gen) (id : Id) (k : OpKind) :
    (handleStart cfg s g id k).1.handlerClosed = s.handlerClosed := by
  have := ctlFields_handleStart cfg s g id k
  unfold ctlFields at this
  simp only [Prod.mk.injEq] at this
  exact this.2.2.2.2.2.1

theorem handleStop_closed (s : Sys) (id : Id) : (handleStop s id).handlerClosed = s.handlerClosed := by
  have := ctlFields_handleStop s id
  unfold ctlFields at this
  simp only [Prod.mk.injEq] at this
  exact this.2.2.2.2.2.1

theorem handle_closed (cfg : Cfg) (s : Sys) (f : CFrame) : (handle cfg s f).handlerClosed = s.handlerClosed := by
  unfold handle
  cases f with
  | close => simp only []; unfold readerExit; show (beginClosing _ 1011).handlerClosed = _; rw [beginClosing_closed]; rfl
  | malformed => simp only []; cases cfg.proto <;> simp only [beginClosing_closed] <;> rfl
  | init ok =>
    cases ok <;> simp only [] <;> cases cfg.proto <;> simp only [pump_closed, beginClosing_closed] <;> rfl
  | start id k =>
    simp only []
    split
    · rfl
    · show (pump cfg (handleStart cfg _ s.nextGen id k).1 (handleStart cfg _ s.nextGen id k).2 false none).handlerClosed = _
      rw [pump_closed, handleStart_closed]; rfl
  | startBad id =>
    simp only []
    cases cfg.proto
    · rfl
    · simp only []; split
      · rfl
      · rw [beginClosing_closed]; rfl
  | stop id =>
    simp only []
    split
    · rfl
    · rw [handleStop_closed]; rfl
  | ping =>
    simp only []
    cases cfg.proto
    · rfl
    · simp only []
      split
      · split
        · rfl
        · rw [pump_closed]; rfl
      · rw [beginClosing_closed]; rfl
  | pong => rfl
  | terminate => simp only []; cases cfg.proto <;> simp only [beginClosing_closed] <;> rfl
  | unknown => simp only []; cases cfg.proto <;> simp only [beginClosing_closed] <;> rfl

theorem startedOf_nil_of {ext : List Out} (h : ∀ o ∈ ext, o.noStart = true) : startedOf ext = [] := by
  induction ext with
  | nil => rfl
  | cons o rest ih =>
    have ho := h o (by simp)
    have := ih (fun o' ho' => h o' (by simp [ho']))
    cases o <;> simp_all [startedOf, Out.noStart]

theorem startedOf_step (cfg : Cfg) (s : Sys) (e : Ev) (hc : ∀ f, e ≠ .client f) :
    startedOf (stepS cfg s e).log = startedOf s.log := by
  obtain ⟨ext, hl, hns⟩ := ns_step cfg s e hc
  rw [hl, startedOf_append, startedOf_nil_of hns, List.append_nil]

theorem skel_input_started (cfg : Cfg) (k : Skel) (e : Ev) (hc : ∀ f, e ≠ .client f) : (k.input cfg e).started = k.started := by
  cases e with
  | client f => exact absurd rfl (hc f)
  | source g se => cases se <;> rfl
  | _ => rfl

/-- **Refinement** — along every schedule that respects the discipline, from any state satisfying
    the invariants: as long as HandleClose has not run the skeleton of the model's state is the
    reference machine's state, and the `started` marks agree for ever. -/
theorem skel_refines_from (cfg : Cfg) : ∀ (evs : List Ev) (s : Sys) (k : Skel), Ctl s → Book s → Flags s →
    Harnessed cfg s evs → (s.handlerClosed = false → skelOf s = k) → startedOf s.log = k.started →
    ((run cfg s evs).handlerClosed = false → skelOf (run cfg s evs) = skelRun cfg k evs) ∧
      startedOf (run cfg s evs).log = (skelRun cfg k evs).started := by
  intro evs
  induction evs with
  | nil => intro s k _ _ _ _ h1 h2; exact ⟨h1, h2⟩
  | cons e es ih =>
    intro s k hc hb hfl hh h1 h2
    obtain ⟨heff, hd, hrest⟩ := hh
    have hc' := ctl_step cfg hc e
    have hb' := book_step (cfg := cfg) hc hb e
    have hfl' := flags_step (cfg := cfg) hb hfl e
    have p1 : (stepS cfg s e).handlerClosed = false → skelOf (stepS cfg s e) = k.input cfg e := by
      intro hopen
      have hs : s.handlerClosed = false := by
        cases hcl : s.handlerClosed with
        | false => rfl
        | true => rw [closed_stays cfg hc hcl e] at hopen; cases hopen
      rw [skel_step cfg hb hfl e heff hd hopen, h1 hs]
    have p2 : startedOf (stepS cfg s e).log = (k.input cfg e).started := by
      cases hopen : (stepS cfg s e).handlerClosed with
      | false => rw [← p1 hopen]; rfl
      | true =>
        have hnc : ∀ f, e ≠ .client f := by
          intro f hf; subst hf
          obtain ⟨hr, ho⟩ := heff
          have hst : stepS cfg s (.client f) = handle cfg s f := by
            show (if s.reader == .reading && s.connOpen then handle cfg s f else s) = _
            simp [hr, ho]
          rw [hst, handle_closed] at hopen
          have := (hc.2.2.2.1 hopen).1
          rw [hr] at this; cases this
        rw [startedOf_step cfg s e hnc, skel_input_started cfg k e hnc]; exact h2
    exact ih (stepS cfg s e) (k.input cfg e) hc' hb' hfl' hrest p1 p2


theorem mem_startedOf {g : Gen} {id : Id} {k : OpKind} {log : List Out} :
    (g, id, k) ∈ startedOf log ↔ Out.started g id k ∈ log := by
  unfold startedOf
  rw [List.mem_filterMap]
  constructor
  · rintro ⟨o, ho, he⟩
    cases o <;> simp at he
    obtain ⟨rfl, rfl, rfl⟩ := he; exact ho
  · intro h; exact ⟨_, h, rfl⟩

/-! ### Decidable form of the discipline (for the non-vacuity examples) -/

def Task.idleB (t : Task) : Bool := t.pc == .done || (t.pc == .select && !t.cancelled && !t.chanClosed)

theorem Task.idle_of_idleB {t : Task} (h : t.idleB = true) : t.idle := by
  unfold Task.idleB at h
  unfold Task.idle
  simp only [Bool.or_eq_true, Bool.and_eq_true, beq_iff_eq, Bool.not_eq_true'] at h
  rcases h with h | ⟨⟨h1, h2⟩, h3⟩
  · exact Or.inl h
  · exact Or.inr ⟨h1, h2, h3⟩

def effAtB (s : Sys) : Ev → Bool
  | .client _ => s.reader == .reading && s.connOpen
  | .source g (.event _) =>
    match findTask s.tasks g with
    | some t => t.pc == .select && !t.chanClosed
    | none => false
  | _ => true

def discAtB (s : Sys) : Ev → Bool
  | .client (.start id _) =>
    match findSub s.subs id with
    | none => true
    | some g' =>
      match findTask s.tasks g' with
      | none => true
      | some t => t.idleB
  | _ => true

def harnessedB (cfg : Cfg) : Sys → List Ev → Bool
  | _, [] => true
  | s, e :: es => effAtB s e && discAtB s e && harnessedB cfg (stepS cfg s e) es

theorem effAt_of_B {s : Sys} {e : Ev} (h : effAtB s e = true) : EffAt s e := by
  cases e with
  | client f => simpa [effAtB, EffAt] using h
  | source g se =>
    cases se with
    | ended => trivial
    | event n =>
      have h' : (match findTask s.tasks g with
        | some t => t.pc == .select && !t.chanClosed
        | none => false) = true := h
      show ∃ t, findTask s.tasks g = some t ∧ t.pc = .select ∧ t.chanClosed = false
      cases ht : findTask s.tasks g with
      | none => rw [ht] at h'; cases h'
      | some t =>
        rw [ht] at h'
        simp only [Bool.and_eq_true, beq_iff_eq, Bool.not_eq_true'] at h'
        exact ⟨t, rfl, h'.1, h'.2⟩
  | _ => trivial

theorem discAt_of_B {s : Sys} {e : Ev} (h : discAtB s e = true) : DiscAt s e := by
  cases e with
  | client f =>
    cases f with
    | start id k =>
      have h' : (match findSub s.subs id with
        | none => true
        | some g' =>
          match findTask s.tasks g' with
          | none => true
          | some t => t.idleB) = true := h
      intro _ g' t hf ht
      rw [hf] at h'
      simp only [ht] at h'
      exact Task.idle_of_idleB h'
    | _ => trivial
  | _ => trivial

theorem harnessed_of_B (cfg : Cfg) : ∀ (evs : List Ev) (s : Sys), harnessedB cfg s evs = true → Harnessed cfg s evs := by
  intro evs
  induction evs with
  | nil => intro _ _; trivial
  | cons e es ih =>
    intro s h
    unfold harnessedB at h
    simp only [Bool.and_eq_true] at h
    exact ⟨effAt_of_B h.1.1, discAt_of_B h.1.2, ih _ h.2⟩

/-! ### Only an (effective) source event logs a `consumed` mark -/

def Out.notCons : Out → Bool
  | .consumed _ _ => false
  | _ => true

def ExtNC (s s' : Sys) : Prop := ∃ ext, s'.log = s.log ++ ext ∧ ∀ o ∈ ext, o.notCons = true

theorem ExtNC.refl (s : Sys) : ExtNC s s := ⟨[], by simp, by simp⟩
theorem ExtNC.trans {a b c : Sys} (h1 : ExtNC a b) (h2 : ExtNC b c) : ExtNC a c := by
  obtain ⟨e1, h1, n1⟩ := h1
  obtain ⟨e2, h2, n2⟩ := h2
  refine ⟨e1 ++ e2, by rw [h2, h1]; simp, ?_⟩
  intro o ho; rcases List.mem_append.mp ho with ho | ho
  · exact n1 o ho
  · exact n2 o ho

theorem nc_of_eq {s s' : Sys} (h1 : s'.log = s.log) : ExtNC s s' := ⟨[], by simp [h1], by simp⟩

theorem nc_emit (s : Sys) (o : Out) (hn : o.notCons = true := by rfl) : ExtNC s (emit s o) :=
  ⟨[o], rfl, by intro o' ho'; simp at ho'; subst ho'; exact hn⟩

theorem nc_beginClosing (s : Sys) (c : Nat) : ExtNC s (beginClosing s c) := nc_of_eq (beginClosing_same s c).1

theorem nc_pump (cfg : Cfg) (s : Sys) (p : List SFrame) (fc : Bool) (tc : Option Nat) : ExtNC s (pump cfg s p fc tc) := by
  obtain ⟨a, b, _, h2, _⟩ := pump_spec cfg p fc tc s
  refine ⟨_, h2, ?_⟩
  intro o ho; obtain ⟨f, _, rfl⟩ := List.mem_map.mp ho; rfl

theorem nc_trySend (cfg : Cfg) (s : Sys) (f : SFrame) : ExtNC s (trySend cfg s f).1 := by
  rcases trySend_spec cfg s f with ⟨_, h2, _⟩ | ⟨_, h2, _⟩ | ⟨_, h2, _⟩ <;> rw [h2]
  · exact nc_emit _ _
  · exact ExtNC.refl s
  · exact ExtNC.refl s

theorem nc_callStop (s : Sys) (g : Gen) : ExtNC s (callStop s g) := ⟨[.stop g], rfl, by simp [Out.notCons]⟩

theorem nc_stopAll (l : List (Id × Gen)) : ∀ s : Sys, ExtNC s (stopAll s l) := by
  induction l with
  | nil => intro s; exact ExtNC.refl s
  | cons p rest ih => intro s; unfold stopAll; exact (nc_callStop s p.2).trans (ih _)

theorem nc_handleClose (s : Sys) : ExtNC s (handleClose s) := by
  unfold handleClose
  simp only []
  have h := nc_stopAll s.subs s
  split
  · exact (h.trans (nc_of_eq rfl)).trans (nc_emit _ _)
  · exact h.trans (nc_of_eq rfl)

theorem nc_finishClosing (s : Sys) : ExtNC s (finishClosing s) := by
  unfold finishClosing; split
  · exact ExtNC.refl s
  · exact (nc_of_eq (s' := { s with finishOnce := true }) rfl).trans (nc_handleClose _)

theorem nc_readerExit (s : Sys) : ExtNC s (readerExit s) := by
  unfold readerExit
  exact (nc_beginClosing s 1011).trans (nc_of_eq rfl)

theorem nc_subTaskStep (cfg : Cfg) (s : Sys) (g : Gen) : ExtNC s (subTaskStep cfg s g) := by
  unfold subTaskStep
  split
  · exact ExtNC.refl s
  · split
    · split
      · exact (nc_of_eq (s' := { s with tasks := _ }) rfl).trans (nc_emit _ _)
      · exact ExtNC.refl s
    · split
      · rename_i s' heq; have h1 := congrArg Prod.fst heq; simp at h1; rw [← h1]; exact nc_trySend _ _ _
      · rename_i s' r _ heq; have h1 := congrArg Prod.fst heq; simp at h1
        exact (h1 ▸ nc_trySend cfg s _).trans (nc_of_eq rfl)
    · split
      · rename_i s' heq; have h1 := congrArg Prod.fst heq; simp at h1; rw [← h1]; exact nc_trySend _ _ _
      · rename_i s' r _ heq; have h1 := congrArg Prod.fst heq; simp at h1
        exact (h1 ▸ nc_trySend cfg s _).trans (nc_of_eq rfl)
    · exact ExtNC.refl s

theorem nc_writerStep (s : Sys) (pick : WPick) : ExtNC s (writerStep s pick) := by
  unfold writerStep
  split
  · cases pick <;> simp only []
    · split
      · exact ExtNC.refl s
      · split
        · exact (nc_of_eq (s' := { s with outgoing := _ }) rfl).trans (nc_emit _ _)
        · exact nc_of_eq rfl
    · split
      · exact ExtNC.refl s
      · exact nc_of_eq rfl
    · split
      · split
        · exact (nc_emit _ _).trans (nc_of_eq rfl)
        · exact nc_of_eq rfl
      · exact ExtNC.refl s
  · split
    · split
      · exact (nc_of_eq (s' := { s with outgoing := _ }) rfl).trans (nc_emit _ _)
      · exact nc_of_eq rfl
    · split
      · exact (nc_emit _ _).trans (nc_of_eq rfl)
      · exact nc_of_eq rfl
  · exact nc_of_eq rfl
  · split
    · exact (nc_finishClosing s).trans (nc_of_eq rfl)
    · exact ExtNC.refl s
  · exact ExtNC.refl s

theorem nc_admitSub (cfg : Cfg) (s s' : Sys) (id : Id) (h : admitSub cfg s id = some s') : ExtNC s s' := by
  unfold admitSub at h
  split at h
  · cases h; exact ExtNC.refl s
  · split at h
    · cases h; exact (nc_of_eq (s' := { s with subs := _ }) rfl).trans (nc_callStop _ _)
    · cases h

theorem nc_startSync (s : Sys) (g : Gen) (id : Id) (k : OpKind) (e : Bool) : ExtNC s (startSync s g id k e).1 := by
  unfold startSync
  cases e
  · exact nc_emit _ _
  · exact (nc_emit _ _).trans (nc_emit _ _)

theorem nc_startSub (s : Sys) (g : Gen) (id : Id) : ExtNC s (startSub s g id) := by
  unfold startSub
  exact ((nc_emit _ _).trans (nc_emit _ _)).trans (nc_of_eq rfl)

theorem nc_handleStart (cfg : Cfg) (s : Sys) (g : Gen) (id : Id) (k : OpKind) : ExtNC s (handleStart cfg s g id k).1 := by
  unfold handleStart
  cases k with
  | invalid => exact nc_startSync ..
  | query => exact nc_startSync ..
  | mutation => exact nc_startSync ..
  | subFail =>
    simp only []
    cases h : admitSub cfg s id with
    | none => exact ExtNC.refl s
    | some s' => exact (nc_admitSub cfg s s' id h).trans (nc_startSync ..)
  | subscription =>
    simp only []
    cases h : admitSub cfg s id with
    | none => exact ExtNC.refl s
    | some s' => exact (nc_admitSub cfg s s' id h).trans (nc_startSub ..)

theorem nc_handleStop (s : Sys) (id : Id) : ExtNC s (handleStop s id) := by
  unfold handleStop
  split
  · exact ExtNC.refl s
  · exact (nc_of_eq (s' := { s with subs := _ }) rfl).trans (nc_callStop _ _)

theorem nc_handle (cfg : Cfg) (s : Sys) (f : CFrame) : ExtNC s (handle cfg s f) := by
  unfold handle
  have h0 : ExtNC s (emit s (.recv f s.didInit)) := nc_emit _ _
  cases f with
  | close => exact (h0.trans (nc_of_eq (s' := { emit s _ with closeRecv := true }) rfl)).trans (nc_readerExit _)
  | malformed =>
    simp only []
    cases cfg.proto
    · exact h0
    · exact h0.trans (nc_beginClosing _ _)
  | init ok =>
    cases ok <;> simp only [] <;> cases cfg.proto <;> simp only []
    · exact h0.trans (nc_pump ..)
    · exact h0.trans (nc_beginClosing _ _)
    · exact (h0.trans (nc_of_eq (s' := { emit s _ with didInit := true }) rfl)).trans (nc_pump ..)
    · exact (h0.trans (nc_of_eq (s' := { emit s _ with didInit := true }) rfl)).trans (nc_pump ..)
  | start id k =>
    simp only []
    have h1 : ExtNC s { emit s (.recv (.start id k) s.didInit) with nextGen := s.nextGen + 1 } := h0.trans (nc_of_eq rfl)
    split
    · exact h1
    · show ExtNC s (pump cfg (handleStart cfg _ s.nextGen id k).1 (handleStart cfg _ s.nextGen id k).2 false none)
      exact (h1.trans (nc_handleStart ..)).trans (nc_pump ..)
  | startBad id =>
    simp only []
    cases cfg.proto
    · exact h0
    · simp only []
      split
      · exact h0
      · exact h0.trans (nc_beginClosing _ _)
  | stop id =>
    simp only []
    split
    · exact h0
    · exact h0.trans (nc_handleStop _ _)
  | ping =>
    simp only []
    cases cfg.proto
    · exact h0
    · simp only []
      split
      · split
        · exact h0
        · exact h0.trans (nc_pump ..)
      · exact h0.trans (nc_beginClosing _ _)
  | pong => exact h0
  | terminate => simp only []; cases cfg.proto <;> exact h0.trans (nc_beginClosing _ _)
  | unknown =>
    simp only []
    cases cfg.proto
    · exact h0
    · exact h0.trans (nc_beginClosing _ _)

/-- Every step other than a source event logs no `consumed` mark. -/
theorem nc_step (cfg : Cfg) (s : Sys) (e : Ev) (hc : ∀ g n, e ≠ .source g (.event n)) : ExtNC s (stepS cfg s e) := by
  unfold stepS
  cases e with
  | client f =>
    simp only []
    split
    · exact nc_handle cfg s f
    · exact ExtNC.refl s
  | source g se =>
    cases se with
    | event n => exact absurd rfl (hc g n)
    | ended => exact nc_of_eq rfl
  | readerStep =>
    simp only []
    split
    · split
      · exact nc_readerExit s
      · exact ExtNC.refl s
    · exact nc_pump _ _ _ _ _
    · exact ExtNC.refl s
  | writerStep pick => exact nc_writerStep _ _
  | subTaskStep g => exact nc_subTaskStep _ _ _
  | netDrop => exact nc_of_eq rfl
  | serverClose =>
    simp only []
    split
    · have h1 : ExtNC s (if s.registered = true then emit { s with registered := false } Out.deregistered else s) := by
        split
        · exact (nc_of_eq (s' := { s with registered := false }) rfl).trans (nc_emit _ _)
        · exact ExtNC.refl s
      exact (h1.trans (nc_beginClosing _ _)).trans (nc_of_eq rfl)
    · split
      · exact (nc_finishClosing s).trans (nc_of_eq rfl)
      · exact ExtNC.refl s
    · exact ExtNC.refl s

theorem consumedOf_nil_of (g : Gen) {ext : List Out} (h : ∀ o ∈ ext, o.notCons = true) : consumedOf g ext = [] := by
  induction ext with
  | nil => rfl
  | cons o rest ih =>
    have ho := h o (by simp)
    have := ih (fun o' ho' => h o' (by simp [ho']))
    show consumedOf g ([o] ++ rest) = []
    rw [consumedOf_append, this]
    cases o <;> simp_all [consumedOf, Out.notCons]

/-- The events the harness fed to source `g` in this schedule. -/
def srcEvents (g : Gen) (evs : List Ev) : List Nat :=
  evs.filterMap fun | .source g' (.event n) => if g' == g then some n else none | _ => none

theorem consumedOf_step (cfg : Cfg) (s : Sys) (e : Ev) (heff : EffAt s e) (g : Gen) :
    consumedOf g (stepS cfg s e).log = consumedOf g s.log ++ srcEvents g [e] := by
  by_cases hc : ∀ g' n, e ≠ .source g' (.event n)
  · obtain ⟨ext, hl, hn⟩ := nc_step cfg s e hc
    rw [hl, consumedOf_append, consumedOf_nil_of g hn]
    have : srcEvents g [e] = [] := by
      cases e with
      | source g' se =>
        cases se with
        | event n => exact absurd rfl (hc g' n)
        | ended => rfl
      | _ => rfl
    rw [this]
  · simp only [not_forall, not_not] at hc
    obtain ⟨g', n, rfl⟩ := hc
    obtain ⟨t, ht, hpc, hcc⟩ := heff
    have hst : stepS cfg s (.source g' (.event n)) =
        emit { s with tasks := setTask s.tasks g' (fun t => { t with pc := .sendData n }) } (.consumed g' n) := by
      show sourceStep s g' (.event n) = _
      unfold sourceStep
      simp only [ht, hpc, hcc]
      rfl
    rw [hst]
    show consumedOf g (s.log ++ [Out.consumed g' n]) = _
    rw [consumedOf_append]
    rfl

/-- Under the discipline the `consumed` marks of source g are exactly the events the schedule fed
    to it. -/
theorem consumedOf_run (cfg : Cfg) (g : Gen) : ∀ (evs : List Ev) (s : Sys), Harnessed cfg s evs →
    consumedOf g (run cfg s evs).log = consumedOf g s.log ++ srcEvents g evs := by
  intro evs
  induction evs with
  | nil => intro s _; simp [run, srcEvents]
  | cons e es ih =>
    intro s hh
    rw [run_cons, ih _ hh.2.2, consumedOf_step cfg s e hh.1 g, List.append_assoc]
    congr 1
    show srcEvents g [e] ++ srcEvents g es = srcEvents g ([e] ++ es)
    simp [srcEvents, List.filterMap_append]

/-! ### Independent control inputs: the diamond lemma and its lifting over swaps -/

def CFrame.isSubStart : CFrame → Bool
  | .start _ .subscription => true
  | .start _ .subFail => true
  | _ => false

/-- Independent control inputs: "the application closed source g" commutes with every client frame
    that is not the start of a subscription (the only frames whose handling looks at a source), and
    with the closing of any other source. Client frames are never independent of each other (one
    TCP stream). -/
def CtlIndep : Ev → Ev → Prop
  | .source _ .ended, .client f => f.isSubStart = false
  | .client f, .source _ .ended => f.isSubStart = false
  | .source _ .ended, .source _ .ended => True
  | _, _ => False

/-- Control-input sequences that differ by adjacent swaps of independent inputs. -/
inductive CtlEquiv : List Ev → List Ev → Prop
  | refl (l : List Ev) : CtlEquiv l l
  | swap (l r : List Ev) (a b : Ev) : CtlIndep a b → CtlEquiv (l ++ a :: b :: r) (l ++ b :: a :: r)
  | trans {a b c : List Ev} : CtlEquiv a b → CtlEquiv b c → CtlEquiv a c

theorem skel_ended_frame (cfg : Cfg) (k : Skel) (g : Gen) (f : CFrame) (h : f.isSubStart = false) :
    (k.input cfg (.source g .ended)).input cfg (.client f) = (k.input cfg (.client f)).input cfg (.source g .ended) := by
  cases f with
  | start id kind =>
    cases kind <;> simp [CFrame.isSubStart] at h <;>
      (simp only [Skel.input, Skel.frame]
       by_cases hd : (!k.didInit) = true <;> simp [hd, Skel.start])
  | stop id =>
    simp only [Skel.input, Skel.frame]
    by_cases hd : (!k.didInit) = true
    · simp [hd]
    · simp only [hd]
      cases findSub k.subs id <;> simp [Skel.stop]
  | init ok => cases ok <;> rfl
  | _ => rfl

theorem skel_ended_ended (cfg : Cfg) (k : Skel) (g g' : Gen) :
    (k.input cfg (.source g .ended)).input cfg (.source g' .ended) =
      (k.input cfg (.source g' .ended)).input cfg (.source g .ended) := by
  simp only [Skel.input, List.map_map, Skel.mk.injEq, true_and, and_true]
  apply List.map_congr_left
  intro p _
  simp only [Function.comp]
  by_cases h1 : (p.1 == g) = true <;> by_cases h2 : (p.1 == g') = true <;> simp [h1, h2]

theorem skel_input_comm (cfg : Cfg) (k : Skel) (a b : Ev) (h : CtlIndep a b) :
    (k.input cfg a).input cfg b = (k.input cfg b).input cfg a := by
  cases a with
  | client f =>
    cases b with
    | source g se =>
      cases se with
      | ended => exact (skel_ended_frame cfg k g f h).symm
      | event n => exact absurd h (by simp [CtlIndep])
    | _ => exact absurd h (by simp [CtlIndep])
  | source g se =>
    cases se with
    | event n => exact absurd h (by simp [CtlIndep])
    | ended =>
      cases b with
      | client f => exact skel_ended_frame cfg k g f h
      | source g' se' =>
        cases se' with
        | ended => exact skel_ended_ended cfg k g g'
        | event n => exact absurd h (by simp [CtlIndep])
      | _ => exact absurd h (by simp [CtlIndep])
  | _ => exact absurd h (by simp [CtlIndep])

/-- The reference machine does not distinguish control-input sequences that differ by swaps of
    independent inputs (diamond lemma `skel_input_comm`, lifted over the swaps). -/
theorem skelRun_equiv (cfg : Cfg) {a b : List Ev} (h : CtlEquiv a b) : ∀ k, skelRun cfg k a = skelRun cfg k b := by
  induction h with
  | refl l => intro k; rfl
  | swap l r x y hi =>
    intro k
    rw [skelRun_append, skelRun_append]
    show skelRun cfg (((skelRun cfg k l).input cfg x).input cfg y) r = skelRun cfg (((skelRun cfg k l).input cfg y).input cfg x) r
    rw [skel_input_comm cfg _ x y hi]
  | trans _ _ ih1 ih2 => intro k; rw [ih1, ih2]

/-! ### Every queued message belongs to a started operation -/

def StartedIn (log : List Out) (g : Gen) : Prop := ∃ id k, Out.started g id k ∈ log

theorem StartedIn.mono {log ext : List Out} {g : Gen} (h : StartedIn log g) : StartedIn (log ++ ext) g := by
  obtain ⟨id, k, hm⟩ := h; exact ⟨id, k, List.mem_append_left _ hm⟩

/-- Every message accepted by the `outgoing` buffer so far carries the serial number of an
    operation that was started. -/
def Own (s : Sys) : Prop := ∀ f ∈ enqOf s.log, ∀ g, f.gen? = some g → StartedIn s.log g

/-- `s'` extends the log of `s`, and every message queued in the extension belongs to an operation
    started by then. -/
def OwnExt (s s' : Sys) : Prop :=
  ∃ ext, s'.log = s.log ++ ext ∧ ∀ f, Out.queued f ∈ ext → ∀ g, f.gen? = some g → StartedIn s'.log g

theorem OwnExt.refl (s : Sys) : OwnExt s s := ⟨[], by simp, by simp⟩

theorem OwnExt.trans {a b c : Sys} (h1 : OwnExt a b) (h2 : OwnExt b c) : OwnExt a c := by
  obtain ⟨e1, l1, n1⟩ := h1
  obtain ⟨e2, l2, n2⟩ := h2
  refine ⟨e1 ++ e2, by rw [l2, l1]; simp, ?_⟩
  intro f hf g hg
  rcases List.mem_append.mp hf with hf | hf
  · rw [l2]; exact (n1 f hf g hg).mono
  · exact n2 f hf g hg

theorem own_of_ext {s s' : Sys} (h : Own s) (he : OwnExt s s') : Own s' := by
  obtain ⟨ext, hl, hn⟩ := he
  intro f hf g hg
  rw [hl] at hf
  have : Out.queued f ∈ s.log ++ ext := mem_enqOf.mp hf
  rcases List.mem_append.mp this with hm | hm
  · rw [hl]; exact (h f (mem_enqOf.mpr hm) g hg).mono
  · exact hn f hm g hg

/-- An extension without `queued` entries. -/
theorem ownExt_of_nc {s s' : Sys} {ext : List Out} (hl : s'.log = s.log ++ ext) (hq : ∀ f, Out.queued f ∉ ext) : OwnExt s s' :=
  ⟨ext, hl, fun f hf => absurd hf (hq f)⟩

theorem oe_of_eq {s s' : Sys} (h1 : s'.log = s.log) : OwnExt s s' := ⟨[], by simp [h1], by simp⟩

theorem oe_emit (s : Sys) (o : Out) (hn : ∀ f, o ≠ .queued f) : OwnExt s (emit s o) :=
  ownExt_of_nc (ext := [o]) rfl (by intro f hf; simp at hf; exact hn f hf.symm)

theorem oe_beginClosing (s : Sys) (c : Nat) : OwnExt s (beginClosing s c) := oe_of_eq (beginClosing_same s c).1

theorem oe_pump (cfg : Cfg) (s : Sys) (p : List SFrame) (fc : Bool) (tc : Option Nat)
    (hp : ∀ f ∈ p, ∀ g, f.gen? = some g → StartedIn s.log g) : OwnExt s (pump cfg s p fc tc) := by
  obtain ⟨a, b, hab, h2, _⟩ := pump_spec cfg p fc tc s
  refine ⟨_, h2, ?_⟩
  intro f hf g hg
  obtain ⟨f', hf', he⟩ := List.mem_map.mp hf
  cases he
  rw [h2]
  exact (hp f (by rw [hab]; exact List.mem_append_left _ hf') g hg).mono

theorem oe_trySend (cfg : Cfg) (s : Sys) (f : SFrame) (hp : ∀ g, f.gen? = some g → StartedIn s.log g) :
    OwnExt s (trySend cfg s f).1 := by
  rcases trySend_spec cfg s f with ⟨_, h2, _⟩ | ⟨_, h2, _⟩ | ⟨_, h2, _⟩ <;> rw [h2]
  · refine ⟨[.queued f], rfl, ?_⟩
    intro f' hf' g hg
    simp at hf'; subst hf'
    exact (hp g hg).mono
  · exact OwnExt.refl s
  · exact OwnExt.refl s

theorem oe_callStop (s : Sys) (g : Gen) : OwnExt s (callStop s g) :=
  ownExt_of_nc (ext := [.stop g]) rfl (by intro f hf; simp at hf)

theorem oe_stopAll (l : List (Id × Gen)) : ∀ s : Sys, OwnExt s (stopAll s l) := by
  induction l with
  | nil => intro s; exact OwnExt.refl s
  | cons p rest ih => intro s; unfold stopAll; exact (oe_callStop s p.2).trans (ih _)

theorem oe_handleClose (s : Sys) : OwnExt s (handleClose s) := by
  unfold handleClose
  simp only []
  have h := oe_stopAll s.subs s
  split
  · exact (h.trans (oe_of_eq rfl)).trans (oe_emit _ _ (by intro f hf; cases hf))
  · exact h.trans (oe_of_eq rfl)

theorem oe_finishClosing (s : Sys) : OwnExt s (finishClosing s) := by
  unfold finishClosing; split
  · exact OwnExt.refl s
  · exact (oe_of_eq (s' := { s with finishOnce := true }) rfl).trans (oe_handleClose _)

theorem oe_readerExit (s : Sys) : OwnExt s (readerExit s) := by
  unfold readerExit
  exact (oe_beginClosing s 1011).trans (oe_of_eq rfl)

theorem oe_subTaskStep (cfg : Cfg) (s : Sys) (hg : Gens s) (g : Gen) : OwnExt s (subTaskStep cfg s g) := by
  unfold subTaskStep
  split
  · exact OwnExt.refl s
  · rename_i t ht
    have hst : StartedIn s.log t.gen := ⟨t.id, .subscription, hg.2.2.2 t (findTask_some ht).1⟩
    split
    · split
      · exact (oe_of_eq (s' := { s with tasks := _ }) rfl).trans (oe_emit _ _ (by intro f hf; cases hf))
      · exact OwnExt.refl s
    · rename_i ev _
      have h0 := oe_trySend cfg s (.result t.id t.gen ev) (by intro g' hg'; simp [SFrame.gen?] at hg'; subst hg'; exact hst)
      split
      · rename_i s' heq; have h1 := congrArg Prod.fst heq; simp at h1; rw [← h1]; exact h0
      · rename_i s' r _ heq; have h1 := congrArg Prod.fst heq; simp at h1
        exact (h1 ▸ h0).trans (oe_of_eq rfl)
    · have h0 := oe_trySend cfg s (.complete t.id t.gen) (by intro g' hg'; simp [SFrame.gen?] at hg'; subst hg'; exact hst)
      split
      · rename_i s' heq; have h1 := congrArg Prod.fst heq; simp at h1; rw [← h1]; exact h0
      · rename_i s' r _ heq; have h1 := congrArg Prod.fst heq; simp at h1
        exact (h1 ▸ h0).trans (oe_of_eq rfl)
    · exact OwnExt.refl s

theorem oe_sourceStep (s : Sys) (g : Gen) (e : SrcEv) : OwnExt s (sourceStep s g e) := by
  unfold sourceStep
  split
  · exact oe_of_eq rfl
  · split
    · exact OwnExt.refl s
    · split
      · exact (oe_of_eq (s' := { s with tasks := _ }) rfl).trans (oe_emit _ _ (by intro f hf; cases hf))
      · exact OwnExt.refl s

theorem oe_writerStep (s : Sys) (pick : WPick) : OwnExt s (writerStep s pick) := by
  have nq : ∀ (s : Sys) (o : Out), (∀ f, o ≠ .queued f) → OwnExt s (emit s o) := oe_emit
  unfold writerStep
  split
  · cases pick <;> simp only []
    · split
      · exact OwnExt.refl s
      · split
        · exact (oe_of_eq (s' := { s with outgoing := _ }) rfl).trans (nq _ _ (by intro f hf; cases hf))
        · exact oe_of_eq rfl
    · split
      · exact OwnExt.refl s
      · exact oe_of_eq rfl
    · split
      · split
        · exact (nq _ _ (by intro f hf; cases hf)).trans (oe_of_eq rfl)
        · exact oe_of_eq rfl
      · exact OwnExt.refl s
  · split
    · split
      · exact (oe_of_eq (s' := { s with outgoing := _ }) rfl).trans (nq _ _ (by intro f hf; cases hf))
      · exact oe_of_eq rfl
    · split
      · exact (nq _ _ (by intro f hf; cases hf)).trans (oe_of_eq rfl)
      · exact oe_of_eq rfl
  · exact oe_of_eq rfl
  · split
    · exact (oe_finishClosing s).trans (oe_of_eq rfl)
    · exact OwnExt.refl s
  · exact OwnExt.refl s

theorem oe_admitSub (cfg : Cfg) (s s' : Sys) (id : Id) (h : admitSub cfg s id = some s') : OwnExt s s' := by
  unfold admitSub at h
  split at h
  · cases h; exact OwnExt.refl s
  · split at h
    · cases h; exact (oe_of_eq (s' := { s with subs := _ }) rfl).trans (oe_callStop _ _)
    · cases h

/-- HandleStart queues nothing itself, and what it hands to the read loop for sending belongs to the
    operation it has just started. -/
theorem oe_handleStart (cfg : Cfg) (s : Sys) (g : Gen) (id : Id) (k : OpKind) :
    OwnExt s (handleStart cfg s g id k).1 ∧
    ∀ f ∈ (handleStart cfg s g id k).2, ∀ g', f.gen? = some g' → StartedIn (handleStart cfg s g id k).1.log g' := by
  have sync : ∀ (s0 : Sys) (e : Bool), OwnExt s0 (startSync s0 g id k e).1 ∧
      ∀ f ∈ (startSync s0 g id k e).2, ∀ g', f.gen? = some g' → StartedIn (startSync s0 g id k e).1.log g' := by
    intro s0 e
    have hst : StartedIn (startSync s0 g id k e).1.log g := by
      refine ⟨id, k, ?_⟩
      unfold startSync; cases e <;> simp [emit]
    constructor
    · unfold startSync
      cases e
      · exact oe_emit _ _ (by intro f hf; cases hf)
      · exact (oe_emit _ _ (by intro f hf; cases hf)).trans (oe_emit _ _ (by intro f hf; cases hf))
    · intro f hf g' hg'
      have : (startSync s0 g id k e).2 = [.result id g 0, .complete id g] := by unfold startSync; rfl
      rw [this] at hf
      simp at hf
      rcases hf with rfl | rfl <;> (simp [SFrame.gen?] at hg'; subst hg'; exact hst)
  unfold handleStart
  cases k with
  | invalid => exact sync s false
  | query => exact sync s _
  | mutation => exact sync s _
  | subFail =>
    simp only []
    cases h : admitSub cfg s id with
    | none => exact ⟨OwnExt.refl s, by intro f hf; cases hf⟩
    | some s' =>
      simp only []
      exact ⟨(oe_admitSub cfg s s' id h).trans (sync s' true).1, (sync s' true).2⟩
  | subscription =>
    simp only []
    cases h : admitSub cfg s id with
    | none => exact ⟨OwnExt.refl s, by intro f hf; cases hf⟩
    | some s' =>
      simp only []
      refine ⟨(oe_admitSub cfg s s' id h).trans ?_, by intro f hf; cases hf⟩
      unfold startSub
      exact ((oe_emit _ _ (by intro f hf; cases hf)).trans (oe_emit _ _ (by intro f hf; cases hf))).trans (oe_of_eq rfl)

theorem oe_handleStop (s : Sys) (id : Id) : OwnExt s (handleStop s id) := by
  unfold handleStop
  split
  · exact OwnExt.refl s
  · exact (oe_of_eq (s' := { s with subs := _ }) rfl).trans (oe_callStop _ _)

theorem oe_handle (cfg : Cfg) (s : Sys) (f : CFrame) : OwnExt s (handle cfg s f) := by
  unfold handle
  have h0 : OwnExt s (emit s (.recv f s.didInit)) := oe_emit _ _ (by intro f' hf'; cases hf')
  have plain : ∀ (s1 : Sys) (p : List SFrame), (∀ f ∈ p, f.gen? = none) →
      ∀ f ∈ p, ∀ g, f.gen? = some g → StartedIn s1.log g := by
    intro s1 p hp f hf g hg; rw [hp f hf] at hg; cases hg
  cases f with
  | close => exact (h0.trans (oe_of_eq (s' := { emit s _ with closeRecv := true }) rfl)).trans (oe_readerExit _)
  | malformed =>
    simp only []
    cases cfg.proto
    · exact h0
    · exact h0.trans (oe_beginClosing _ _)
  | init ok =>
    cases ok <;> simp only [] <;> cases cfg.proto <;> simp only []
    · exact h0.trans (oe_pump _ _ _ _ _ (plain _ _ (by simp [SFrame.gen?])))
    · exact h0.trans (oe_beginClosing _ _)
    · exact (h0.trans (oe_of_eq (s' := { emit s _ with didInit := true }) rfl)).trans (oe_pump _ _ _ _ _ (plain _ _ (by simp [SFrame.gen?])))
    · exact (h0.trans (oe_of_eq (s' := { emit s _ with didInit := true }) rfl)).trans (oe_pump _ _ _ _ _ (plain _ _ (by simp [SFrame.gen?])))
  | start id k =>
    simp only []
    have h1 : OwnExt s { emit s (.recv (.start id k) s.didInit) with nextGen := s.nextGen + 1 } := h0.trans (oe_of_eq rfl)
    split
    · exact h1
    · show OwnExt s (pump cfg (handleStart cfg _ s.nextGen id k).1 (handleStart cfg _ s.nextGen id k).2 false none)
      have hs := oe_handleStart cfg { emit s (.recv (.start id k) s.didInit) with nextGen := s.nextGen + 1 } s.nextGen id k
      exact (h1.trans hs.1).trans (oe_pump _ _ _ _ _ hs.2)
  | startBad id =>
    simp only []
    cases cfg.proto
    · exact h0
    · simp only []
      split
      · exact h0
      · exact h0.trans (oe_beginClosing _ _)
  | stop id =>
    simp only []
    split
    · exact h0
    · exact h0.trans (oe_handleStop _ _)
  | ping =>
    simp only []
    cases cfg.proto
    · exact h0
    · simp only []
      split
      · split
        · exact h0
        · exact h0.trans (oe_pump _ _ _ _ _ (plain _ _ (by simp [SFrame.gen?])))
      · exact h0.trans (oe_beginClosing _ _)
  | pong => exact h0
  | terminate => simp only []; cases cfg.proto <;> exact h0.trans (oe_beginClosing _ _)
  | unknown =>
    simp only []
    cases cfg.proto
    · exact h0
    · exact h0.trans (oe_beginClosing _ _)

theorem oe_step (cfg : Cfg) (s : Sys) (hg : Gens s) (e : Ev) : OwnExt s (stepS cfg s e) := by
  unfold stepS
  cases e with
  | client f =>
    simp only []
    split
    · exact oe_handle cfg s f
    · exact OwnExt.refl s
  | source g se => exact oe_sourceStep _ _ _
  | readerStep =>
    simp only []
    split
    · split
      · exact oe_readerExit s
      · exact OwnExt.refl s
    · rename_i p fc tc hr
      apply oe_pump
      intro f hf g hgen
      have := hg.2.1 f (by rw [hr]; exact hf) g hgen
      obtain ⟨id, k, hm, _⟩ := this
      exact ⟨id, k, hm⟩
    · exact OwnExt.refl s
  | writerStep pick => exact oe_writerStep _ _
  | subTaskStep g => exact oe_subTaskStep _ _ hg _
  | netDrop => exact oe_of_eq rfl
  | serverClose =>
    simp only []
    split
    · have h1 : OwnExt s (if s.registered = true then emit { s with registered := false } Out.deregistered else s) := by
        split
        · exact (oe_of_eq (s' := { s with registered := false }) rfl).trans (oe_emit _ _ (by intro f hf; cases hf))
        · exact OwnExt.refl s
      exact (h1.trans (oe_beginClosing _ _)).trans (oe_of_eq rfl)
    · split
      · exact (oe_finishClosing s).trans (oe_of_eq rfl)
      · exact OwnExt.refl s
    · exact OwnExt.refl s

theorem own_reachable (cfg : Cfg) (evs : List Ev) : Own (run cfg init evs) := by
  have : ∀ evs, AllInv cfg (run cfg init evs) ∧ Own (run cfg init evs) := by
    intro evs
    exact run_induction cfg (fun s => AllInv cfg s ∧ Own s) init
      ⟨allInv_init cfg, by intro f hf; simp [init, enqOf] at hf⟩
      (fun s e h => ⟨allInv_step h.1 e, own_of_ext h.2 (oe_step cfg s h.1.2.2.2.1 e)⟩) evs
  exact (this evs).2

/-- The wire carries nothing for an operation that was never started. -/
theorem projGen_nil_of_not_started (cfg : Cfg) (evs : List Ev) (g : Gen)
    (h : ¬ StartedIn (run cfg init evs).log g) : projGen g (wireOf (run cfg init evs).log) = [] := by
  apply projGen_nil_of
  intro f hf hgen
  have hpre := (wire_is_prefix_of_queue cfg evs).1
  have hq : f ∈ enqOf (run cfg init evs).log := hpre.subset hf
  exact h (own_reachable cfg evs f hq g hgen)

/-- In the reference machine every started subscription has its source. -/
def Skel.SubSrc (k : Skel) : Prop := ∀ g id, (g, id, OpKind.subscription) ∈ k.started → g ∈ k.srcs.map (·.1)

theorem subSrc_admit {cfg : Cfg} {k k' : Skel} {id : Id} (h : k.SubSrc) (ha : k.admitId cfg id = some k') :
    k'.SubSrc ∧ k'.started = k.started ∧ k'.srcs = k.srcs := by
  unfold Skel.admitId at ha
  split at ha
  · cases ha; exact ⟨h, rfl, rfl⟩
  · split at ha
    · cases ha; exact ⟨h, rfl, rfl⟩
    · cases ha

theorem subSrc_input (cfg : Cfg) {k : Skel} (h : k.SubSrc) (e : Ev) : (k.input cfg e).SubSrc := by
  cases e with
  | client f =>
    show (k.frame cfg f).SubSrc
    cases f with
    | init ok => cases ok <;> exact h
    | start id kind =>
      unfold Skel.frame
      simp only []
      split
      · exact h
      · have h' : ({ k with nextGen := k.nextGen + 1 } : Skel).SubSrc := h
        unfold Skel.start
        cases kind with
        | invalid =>
          intro g id' hm; simp only [List.mem_append, List.mem_singleton, Prod.mk.injEq] at hm
          rcases hm with hm | ⟨_, _, hk⟩
          · exact h g id' hm
          · cases hk
        | query =>
          intro g id' hm; simp only [List.mem_append, List.mem_singleton, Prod.mk.injEq] at hm
          rcases hm with hm | ⟨_, _, hk⟩
          · exact h g id' hm
          · cases hk
        | mutation =>
          intro g id' hm; simp only [List.mem_append, List.mem_singleton, Prod.mk.injEq] at hm
          rcases hm with hm | ⟨_, _, hk⟩
          · exact h g id' hm
          · cases hk
        | subFail =>
          simp only []
          cases ha : Skel.admitId cfg { k with nextGen := k.nextGen + 1 } id with
          | none => exact h'
          | some k' =>
            obtain ⟨hs, e1, e2⟩ := subSrc_admit h' ha
            intro g id' hm; simp only [List.mem_append, List.mem_singleton, Prod.mk.injEq] at hm
            rcases hm with hm | ⟨_, _, hk⟩
            · exact hs g id' hm
            · cases hk
        | subscription =>
          simp only []
          cases ha : Skel.admitId cfg { k with nextGen := k.nextGen + 1 } id with
          | none => exact h'
          | some k' =>
            obtain ⟨hs, e1, e2⟩ := subSrc_admit h' ha
            intro g id' hm
            simp only [List.mem_append, List.mem_singleton, Prod.mk.injEq] at hm
            simp only [List.map_append, List.mem_append, List.map_cons, List.map_nil, List.mem_singleton]
            rcases hm with hm | ⟨hg, _, _⟩
            · exact Or.inl (hs g id' hm)
            · exact Or.inr hg
    | stop id =>
      unfold Skel.frame
      simp only []
      split
      · exact h
      · split
        · exact h
        · exact h
    | _ => exact h
  | source g se =>
    cases se with
    | event n => exact h
    | ended =>
      intro g' id hm
      have := h g' id hm
      simp only [Skel.input, List.map_map]
      obtain ⟨p, hp, rfl⟩ := List.mem_map.mp this
      refine List.mem_map.mpr ⟨p, hp, ?_⟩
      simp only [Function.comp]
      split <;> rfl
  | _ => exact h

theorem subSrc_run (cfg : Cfg) (evs : List Ev) : ∀ k : Skel, k.SubSrc → (skelRun cfg k evs).SubSrc := by
  induction evs with
  | nil => intro k h; exact h
  | cons e es ih => intro k h; exact ih _ (subSrc_input cfg h e)

theorem subSrc_init : (skelOf init).SubSrc := by
  intro g id hm; simp [skelOf, init, startedOf] at hm

end ApiFu.C08
