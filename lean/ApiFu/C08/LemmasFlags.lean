/-
  C08 — helper lemmas: Flags: `Run` only returns because of a cancelled context or a closed channel.
-/
import ApiFu.C08.LemmasWire
namespace ApiFu.C08

/-! ### G3g: `Run` only returns because of a cancelled context or a closed channel -/

def Task.flagsOk (t : Task) : Bool := !(t.pc == .sendComplete || t.pc == .done) || t.cancelled || t.chanClosed

def Flags (s : Sys) : Prop := ∀ t ∈ s.tasks, t.flagsOk = true

theorem flags_init : Flags init := by simp [Flags, init]

theorem flags_setTask {ts : List Task} (h : ∀ t ∈ ts, t.flagsOk = true) (g : Gen) (f : Task → Task)
    (hf : ∀ t ∈ ts, t.gen = g → (f t).flagsOk = true) : ∀ t ∈ setTask ts g f, t.flagsOk = true := by
  intro t ht
  obtain ⟨t0, h0, rfl⟩ := List.mem_map.mp ht
  by_cases hg : t0.gen = g
  · simp [hg]; exact hf t0 h0 hg
  · have : (t0.gen == g) = false := by simpa using hg
    simp [this]; exact h t0 h0

theorem flags_of_tasks {s s' : Sys} (h : Flags s) (ht : s'.tasks = s.tasks) : Flags s' := by
  unfold Flags; rw [ht]; exact h

theorem flags_callStop {s : Sys} (h : Flags s) (g : Gen) (subs' : List (Id × Gen)) : Flags (callStop { s with subs := subs' } g) := by
  unfold callStop
  apply flags_setTask h
  intro t _ _; simp [Task.flagsOk]

theorem flags_stopAll (l : List (Id × Gen)) : ∀ s : Sys, Flags s → Flags (stopAll s l) := by
  induction l with
  | nil => intro s h; exact h
  | cons p rest ih => intro s h; unfold stopAll; exact ih _ (flags_callStop (subs' := s.subs) h p.2)

theorem flags_finishClosing {s : Sys} (h : Flags s) : Flags (finishClosing s) := by
  unfold finishClosing
  split
  · exact h
  · unfold handleClose
    simp only []
    have := flags_stopAll s.subs { s with finishOnce := true } h
    split <;> exact this

theorem flags_handle {cfg : Cfg} {s : Sys} (h : Flags s) (f : CFrame) : Flags (handle cfg s f) := by
  have pumpT : ∀ (s1 : Sys) p fc tc, Flags s1 → Flags (pump cfg s1 p fc tc) := by
    intro s1 p fc tc h1
    obtain ⟨_, _, _, _, e3, _⟩ := pump_spec cfg p fc tc s1
    exact flags_of_tasks h1 e3
  have bc : ∀ (s1 : Sys) c, Flags s1 → Flags (beginClosing s1 c) :=
    fun s1 c h1 => flags_of_tasks h1 (beginClosing_same s1 c).2.2.2.1
  have admitOk : ∀ (s1 s' : Sys) id, admitSub cfg s1 id = some s' → Flags s1 → Flags s' := by
    intro s1 s' id ha h1
    unfold admitSub at ha
    split at ha
    · cases ha; exact h1
    · split at ha
      · cases ha; exact flags_callStop h1 _ _
      · cases ha
  have syncT : ∀ (s1 : Sys) g id k e, Flags s1 → Flags (startSync s1 g id k e).1 :=
    fun s1 g id k e h1 => flags_of_tasks h1 (startSync_tasks s1 g id k e).1
  unfold handle
  cases f with
  | close => simp only []; unfold readerExit; exact bc _ _ h
  | malformed => simp only []; split; exact h; exact bc _ _ h
  | init ok =>
    cases ok <;> simp only [] <;> split
    · exact pumpT _ _ _ _ h
    · exact bc _ _ h
    · exact pumpT _ _ _ _ h
    · exact pumpT _ _ _ _ h
  | start id k =>
    simp only []
    split
    · exact h
    · apply pumpT
      unfold handleStart
      cases k <;> simp only []
      · exact syncT _ _ _ _ _ h
      · exact syncT _ _ _ _ _ h
      · split
        · exact h
        · rename_i s' ha
          have h' := admitOk _ s' id ha h
          unfold startSub
          intro t ht
          simp only [emit] at ht
          rcases List.mem_append.mp ht with ht | ht
          · exact h' t ht
          · simp at ht; subst ht; rfl
      · split
        · exact h
        · rename_i s' ha; exact syncT _ _ _ _ _ (admitOk _ s' id ha h)
      · exact syncT _ _ _ _ _ h
  | startBad id => simp only []; split; exact h; split; exact h; exact bc _ _ h
  | stop id =>
    simp only []; split; exact h
    unfold handleStop; split; exact h
    exact flags_callStop (s := emit s (.recv (CFrame.stop id) s.didInit)) h _ (eraseSub s.subs id)
  | ping =>
    simp only []; split; exact h
    split
    · split; exact h; exact pumpT _ _ _ _ h
    · exact bc _ _ h
  | pong => exact h
  | terminate => simp only []; split <;> exact bc _ _ h
  | unknown => simp only []; split; exact h; exact bc _ _ h

theorem flags_step {cfg : Cfg} {s : Sys} (hb : Book s) (h : Flags s) (e : Ev) : Flags (stepS cfg s e) := by
  have hn : (s.tasks.map (·.gen)).Nodup := by
    have := hb.2.2.1
    simpa [absBook, List.map_map, Function.comp_def] using this
  unfold stepS
  cases e with
  | client f => simp only []; split; exact flags_handle h f; exact h
  | source g e =>
    show Flags (sourceStep s g e)
    unfold sourceStep
    split
    · apply flags_setTask h
      intro t ht _; have := h t ht; simp [Task.flagsOk] at this ⊢
    · split
      · exact h
      · split
        · rename_i hc
          apply flags_setTask h
          intro t _ _; simp [Task.flagsOk]
        · exact h
  | readerStep =>
    simp only []
    split
    · split
      · unfold readerExit; exact flags_of_tasks h (beginClosing_same s 1011).2.2.2.1
      · exact h
    · rename_i p fc tc _
      obtain ⟨_, _, _, _, e3, _⟩ := pump_spec cfg p fc tc s
      exact flags_of_tasks h e3
    · exact h
  | writerStep pick =>
    show Flags (writerStep s pick)
    unfold writerStep
    split
    · cases pick <;> simp only []
      · split
        · exact h
        · split <;> exact h
      · split <;> exact h
      · split
        · split <;> exact h
        · exact h
    · split
      · split <;> exact h
      · split <;> exact h
    · exact h
    · split
      · exact flags_finishClosing h
      · exact h
    · exact h
  | subTaskStep g =>
    show Flags (subTaskStep cfg s g)
    unfold subTaskStep
    split
    · exact h
    · rename_i t hft
      obtain ⟨htm, htg⟩ := findTask_some hft
      have uniq : ∀ t0 ∈ s.tasks, t0.gen = g → t0 = t := by
        intro t0 h0 hg0
        exact List.inj_on_of_nodup_map hn h0 htm (hg0.trans htg.symm)
      have tsend : ∀ f, (trySend cfg s f).1.tasks = s.tasks := by
        intro f
        rcases trySend_spec cfg s f with ⟨_, h2, _⟩ | ⟨_, h2, _⟩ | ⟨_, h2, _⟩ <;> rw [h2] <;> rfl
      split
      · rename_i hpc
        split
        · rename_i hc
          apply flags_setTask h
          intro t0 h0 hg0
          have := uniq t0 h0 hg0; subst this
          simp [Task.flagsOk] at hc ⊢; tauto
        · exact h
      · rename_i ev hpc
        split
        · rename_i s' heq; have h1 := congrArg Prod.fst heq; simp at h1; rw [← h1]; exact flags_of_tasks h (tsend _)
        · rename_i s' r _ heq; have h1 := congrArg Prod.fst heq; simp at h1
          have : s'.tasks = s.tasks := by rw [← h1]; exact tsend _
          show ∀ t' ∈ setTask s'.tasks g _, _
          rw [this]
          apply flags_setTask h
          intro t0 _ _; simp [Task.flagsOk]
      · rename_i hpc
        split
        · rename_i s' heq; have h1 := congrArg Prod.fst heq; simp at h1; rw [← h1]; exact flags_of_tasks h (tsend _)
        · rename_i s' r _ heq; have h1 := congrArg Prod.fst heq; simp at h1
          have : s'.tasks = s.tasks := by rw [← h1]; exact tsend _
          show ∀ t' ∈ setTask s'.tasks g _, _
          rw [this]
          apply flags_setTask h
          intro t0 h0 hg0
          have := uniq t0 h0 hg0; subst this
          have := h t0 h0
          simp [Task.flagsOk, hpc] at this ⊢; exact this
      · exact h
  | netDrop => exact h
  | serverClose =>
    simp only []
    split
    · apply flags_of_tasks h
      show (beginClosing _ 1000).tasks = _
      rw [(beginClosing_same _ 1000).2.2.2.1]; split <;> rfl
    · split
      · exact flags_finishClosing h
      · exact h
    · exact h

theorem flags_reachable (cfg : Cfg) (evs : List Ev) : Flags (run cfg init evs) := by
  have := run_induction cfg (fun s => Book s ∧ Ctl s ∧ Flags s) init ⟨book_init, ctl_init, flags_init⟩
    (fun _ e h => ⟨book_step h.2.1 h.1 e, ctl_step cfg h.2.1 e, flags_step h.1 h.2.2 e⟩) evs
  exact this.2.2


/-! ### Quiescent states -/

/-- A goroutine that cannot move: finished, or waiting in `Run` with nothing to wake it. -/
def Task.idle (t : Task) : Prop := t.pc = .done ∨ (t.pc = .select ∧ t.cancelled = false ∧ t.chanClosed = false)

/-- The connection is open and nothing is in flight: the write loop waits in its main select with an
    empty buffer, the read loop waits for a frame, no subscription goroutine can move. -/
def Quiescent (s : Sys) : Prop :=
  s.writer = .loop ∧ s.outgoing = [] ∧ s.reader = .reading ∧ ∀ t ∈ s.tasks, t.idle

theorem quiescent_facts {cfg : Cfg} {evs : List Ev} (hq : Quiescent (run cfg init evs)) :
    AcctA cfg (absA (run cfg init evs)) ∧ wireOf (run cfg init evs).log = enqOf (run cfg init evs).log ∧
    (absA (run cfg init evs)).pend = [] := by
  obtain ⟨hw, ho, hr, _⟩ := hq
  obtain ⟨⟨_, _, hf, _, ha⟩, _⟩ := safe_reachable cfg evs
  have hnf : noFail cfg (run cfg init evs) = true := by simp [noFail, writerGone, hw]
  refine ⟨ha hnf, ?_, ?_⟩
  · obtain ⟨d, h1, h2⟩ := hf
    simp only [absF] at h1 h2
    have : d = [] := by
      cases d with
      | nil => rfl
      | cons x xs => have := h2 (by simp); rw [hw] at this; cases this
    rw [h1, this, ho]; simp
  · show pendingOf (run cfg init evs).reader = []; rw [hr]; rfl

theorem consumedOf_filter (g : Gen) (log : List Out) : consumedOf g (log.filter Out.isMark) = consumedOf g log := by
  induction log with
  | nil => rfl
  | cons o rest ih =>
    by_cases hm : o.isMark = true
    · rw [List.filter_cons_of_pos hm]
      show consumedOf g ([o] ++ _) = consumedOf g ([o] ++ rest)
      rw [consumedOf_append, consumedOf_append, ih]
    · rw [List.filter_cons_of_neg hm, ih]
      show _ = consumedOf g ([o] ++ rest)
      rw [consumedOf_append]
      have : consumedOf g [o] = [] := by
        cases o <;> simp_all [consumedOf, Out.isMark]
      rw [this]; rfl

end ApiFu.C08
