/-
  C08 — progress of the tear-down, helper lemmas.

  `Ctl2`: once closing has begun the write loop has its close message (or has left its main loop);
  a closer that has started has begun the closing. `nextEv`/`drainEvs`: a deterministic scheduler
  for the tear-down; `mu`: its ranking function.
-/
import ApiFu.C08.Props
namespace ApiFu.C08

/-! ### G1b: one more control invariant -/

def Ctl2 (s : Sys) : Prop :=
  (s.beginOnce = true → s.writer = .loop → s.closeMsg.isSome = true) ∧
  (s.closer ≠ .idle → s.beginOnce = true)

theorem ctl2_init : Ctl2 init := by simp [Ctl2, init]

theorem ctl2_of_fields {s s' : Sys} (he : ctlFields s' = ctlFields s) (h : Ctl2 s) : Ctl2 s' := by
  unfold ctlFields at he
  unfold Ctl2 at *
  grind

theorem ctl2_emit {s : Sys} (h : Ctl2 s) (o : Out) : Ctl2 (emit s o) := h

theorem ctl2_beginClosing {s : Sys} (h : Ctl2 s) (c : Nat) : Ctl2 (beginClosing s c) := by
  unfold beginClosing Ctl2 at *; grind

theorem beginClosing_begun (s : Sys) (c : Nat) : (beginClosing s c).beginOnce = true := by
  unfold beginClosing; grind

theorem ctl2_trySend {s : Sys} (cfg : Cfg) (h : Ctl2 s) (f : SFrame) : Ctl2 (trySend cfg s f).1 := by
  unfold trySend Ctl2 emit at *; grind

theorem ctl2_doneSending {s : Sys} (h : Ctl2 s) (tc : Option Nat) : Ctl2 (doneSending s tc) := by
  unfold doneSending
  split
  · apply ctl2_beginClosing; unfold Ctl2 at *; grind
  · unfold Ctl2 at *; grind

theorem ctl2_pump {s : Sys} (cfg : Cfg) (h : Ctl2 s) (p : List SFrame) (fc : Bool) (tc : Option Nat) :
    Ctl2 (pump cfg s p fc tc) := by
  induction p generalizing s with
  | nil => unfold pump; exact ctl2_doneSending h tc
  | cons f rest ih =>
    unfold pump
    have h1 := ctl2_trySend cfg h f
    split
    · rename_i s' heq; rw [heq] at h1; exact ih h1
    · rename_i s' heq; rw [heq] at h1
      apply ctl2_doneSending
      split
      · exact ctl2_beginClosing h1 _
      · exact h1
    · rename_i s' heq; rw [heq] at h1
      unfold Ctl2 at *; grind

theorem ctl2_handleClose {s : Sys} (h : Ctl2 s) : Ctl2 (handleClose { s with finishOnce := true }) := by
  unfold handleClose
  have e := ctlFields_stopAll { s with finishOnce := true } s.subs
  unfold ctlFields at e
  unfold Ctl2 emit at *
  simp only []
  split <;> grind

theorem ctl2_finishClosing {s : Sys} (h : Ctl2 s) : Ctl2 (finishClosing s) := by
  unfold finishClosing
  split
  · exact h
  · exact ctl2_handleClose h

theorem finishClosing_begun (s : Sys) : (finishClosing s).beginOnce = s.beginOnce := by
  unfold finishClosing
  split
  · rfl
  · unfold handleClose
    have e := ctlFields_stopAll { s with finishOnce := true } s.subs
    unfold ctlFields at e
    simp only [Prod.mk.injEq] at e
    simp only []
    split <;> exact e.2.2.2.1

theorem ctl2_writerExit {s : Sys} (h : Ctl2 s) : Ctl2 (writerExit s) := by
  unfold writerExit Ctl2 at *; grind

theorem ctl2_readerExit {s : Sys} (h : Ctl2 s) : Ctl2 (readerExit s) := by
  have h1 := ctl2_beginClosing h 1011
  unfold readerExit
  unfold Ctl2 at *; grind

theorem ctl2_handle {s : Sys} (cfg : Cfg) (h : Ctl2 s) (f : CFrame) : Ctl2 (handle cfg s f) := by
  have hstart : ∀ g id k, Ctl2 (handleStart cfg { emit s (.recv f s.didInit) with nextGen := s.nextGen + 1 } g id k).1 := by
    intro g id k
    have e := ctlFields_handleStart cfg { emit s (.recv f s.didInit) with nextGen := s.nextGen + 1 } g id k
    exact ctl2_of_fields (e.trans rfl) h
  unfold handle
  cases f with
  | close => simp only []; apply ctl2_readerExit; exact h
  | malformed => simp only []; split; exact h; exact ctl2_beginClosing (ctl2_emit h _) _
  | init ok =>
    cases ok <;> simp only [] <;> split
    · exact ctl2_pump cfg (ctl2_emit h _) _ _ _
    · exact ctl2_beginClosing (ctl2_emit h _) _
    · exact ctl2_pump cfg (s := { emit s _ with didInit := true }) h _ _ _
    · exact ctl2_pump cfg (s := { emit s _ with didInit := true }) h _ _ _
  | start id k =>
    simp only []
    split
    · exact h
    · exact ctl2_pump cfg (hstart _ id k) _ _ _
  | startBad id => simp only []; split; exact h; split; exact h; exact ctl2_beginClosing (ctl2_emit h _) _
  | stop id =>
    simp only []; split; exact h
    exact ctl2_of_fields (ctlFields_handleStop _ id) (ctl2_emit h _)
  | ping =>
    simp only []; split; exact h
    split
    · split; exact h; exact ctl2_pump cfg (ctl2_emit h _) _ _ _
    · exact ctl2_beginClosing (ctl2_emit h _) _
  | pong => exact h
  | terminate => simp only []; split <;> exact ctl2_beginClosing (ctl2_emit h _) _
  | unknown => simp only []; split; exact h; exact ctl2_beginClosing (ctl2_emit h _) _

theorem ctl2_writerStep {s : Sys} (h : Ctl2 s) (pick : WPick) : Ctl2 (writerStep s pick) := by
  unfold writerStep
  split
  · cases pick <;> simp only []
    · split
      · exact h
      · split
        · unfold Ctl2 emit at *; grind
        · exact ctl2_writerExit (s := { s with outgoing := _ }) h
    · split
      · exact h
      · unfold Ctl2 at *; grind
    · split
      · apply ctl2_writerExit
        split
        · exact ctl2_emit h _
        · exact h
      · exact h
  · split
    · split
      · unfold Ctl2 emit at *; grind
      · unfold Ctl2 at *; grind
    · split
      · unfold Ctl2 emit at *; grind
      · unfold Ctl2 at *; grind
  · exact ctl2_writerExit h
  · split
    · have := ctl2_finishClosing h
      unfold Ctl2 at *
      simp only []
      grind
    · exact h
  · exact h

theorem ctl2_subTaskStep {s : Sys} (cfg : Cfg) (h : Ctl2 s) (g : Gen) : Ctl2 (subTaskStep cfg s g) := by
  unfold subTaskStep
  split
  · exact h
  · split
    · split
      · exact h
      · exact h
    · split
      · rename_i s' heq; have h1 := congrArg Prod.fst heq; simp at h1; rw [← h1]; exact ctl2_trySend cfg h _
      · rename_i s' r _ heq; have h1 := congrArg Prod.fst heq; simp at h1; rw [← h1]
        exact ctl2_of_fields (ctlFields_setTask _ _) (ctl2_trySend cfg h _)
    · split
      · rename_i s' heq; have h1 := congrArg Prod.fst heq; simp at h1; rw [← h1]; exact ctl2_trySend cfg h _
      · rename_i s' r _ heq; have h1 := congrArg Prod.fst heq; simp at h1; rw [← h1]
        exact ctl2_of_fields (ctlFields_setTask _ _) (ctl2_trySend cfg h _)
    · exact h

theorem ctl2_sourceStep {s : Sys} (h : Ctl2 s) (g : Gen) (e : SrcEv) : Ctl2 (sourceStep s g e) := by
  unfold sourceStep
  split
  · exact h
  · split
    · exact h
    · split <;> exact h

theorem ctl2_step {s : Sys} (cfg : Cfg) (h : Ctl2 s) (e : Ev) : Ctl2 (stepS cfg s e) := by
  unfold stepS
  cases e with
  | client f =>
    simp only []
    split
    · exact ctl2_handle cfg h f
    · exact h
  | source g e => exact ctl2_sourceStep h g e
  | readerStep =>
    simp only []
    split
    · split
      · exact ctl2_readerExit h
      · exact h
    · exact ctl2_pump cfg h _ _ _
    · exact h
  | writerStep pick => exact ctl2_writerStep h pick
  | subTaskStep g => exact ctl2_subTaskStep cfg h g
  | netDrop => unfold Ctl2 at *; grind
  | serverClose =>
    simp only []
    split
    · have : Ctl2 (if s.registered = true then emit { s with registered := false } Out.deregistered else s) := by
        split
        · exact h
        · exact h
      have h2 := ctl2_beginClosing this 1000
      have h3 := beginClosing_begun (if s.registered = true then emit { s with registered := false } Out.deregistered else s) 1000
      unfold Ctl2 at *; grind
    · split
      · have := ctl2_finishClosing h
        have hb := finishClosing_begun s
        unfold Ctl2 at *; grind
      · exact h
    · exact h

theorem ctl2_reachable (cfg : Cfg) (evs : List Ev) : Ctl2 (run cfg init evs) :=
  run_induction cfg Ctl2 init ctl2_init (fun _ e h => ctl2_step cfg h e) evs

/-! ### The tear-down scheduler and its ranking function -/

def taskRank (ts : List Task) : Nat := (ts.map (fun t => t.pc.rank)).sum

def wRank (s : Sys) : Nat :=
  match s.writer with
  | .loop => s.outgoing.length + 4
  | .draining _ => s.outgoing.length + 3
  | .closeWait => 2
  | .exited => 1
  | .finished => 0

def rRank : ReaderPc → Nat
  | .sending .. => 2
  | .reading => 1
  | .done => 0

def cRank : CloserPc → Nat
  | .waiting => 1
  | _ => 0

/-- Ranking function of the tear-down. -/
def mu (s : Sys) : Nat := wRank s + rRank s.reader + cRank s.closer + taskRank s.tasks

/-- The next enabled internal step of the tear-down: the write loop first (close message, drain,
    close frame, return), then the read loop (its pending send fails, its read fails, it returns),
    then `finishClosing` (HandleClose), then the goroutine inside CloseHijackedConnections, then
    the subscription goroutines. -/
def nextEv (s : Sys) : Option Ev :=
  match s.writer with
  | .loop => some (.writerStep .closeMsg)
  | .draining _ => some (.writerStep .outgoing)
  | .closeWait => some (.writerStep .outgoing)
  | .exited => if s.reader == .done then some (.writerStep .outgoing) else some .readerStep
  | .finished =>
    if s.closer == .waiting then some .serverClose
    else
      match s.tasks.find? (fun t => t.pc != .done) with
      | some t => some (.subTaskStep t.gen)
      | none => none

def drainEvs (cfg : Cfg) : Nat → Sys → List Ev
  | 0, _ => []
  | n + 1, s =>
    match nextEv s with
    | none => []
    | some e => e :: drainEvs cfg n (stepS cfg s e)

/-- What the drain keeps: the invariants, and "the write loop has its close message while it is
    still in its main select". -/
def Closing (s : Sys) : Prop := Ctl s ∧ Ctl2 s ∧ Book s ∧ (s.writer = .loop → s.beginOnce = true)

/-- The connection is gone: both loops have returned, HandleClose has run, CloseHijackedConnections
    (if it was called) has returned, every subscription goroutine has ended. -/
def Final (s : Sys) : Prop :=
  s.writer = .finished ∧ s.reader = .done ∧ s.closer ≠ .waiting ∧ (∀ t ∈ s.tasks, t.pc = .done) ∧
  s.handlerClosed = true ∧ s.subs = [] ∧ s.registered = false

theorem closed_all_cancelled {s : Sys} (hb : Book s) (hc : s.handlerClosed = true) : ∀ t ∈ s.tasks, t.cancelled = true := by
  intro t ht
  obtain ⟨_, _, _, _, _, _, b7, _, b9, _⟩ := hb
  have hs : (absBook s).subs = [] := (b9 hc).1
  have := (b7 (t.gen, t.id, t.cancelled) (List.mem_map.mpr ⟨t, ht, rfl⟩)).mpr
  rw [hs] at this
  exact this (by simp)

theorem taskRank_zero {ts : List Task} (h : taskRank ts = 0) : ∀ t ∈ ts, t.pc = .done := by
  induction ts with
  | nil => intro t ht; cases ht
  | cons a rest ih =>
    unfold taskRank at h
    simp only [List.map_cons, List.sum_cons] at h
    intro t ht
    rcases List.mem_cons.mp ht with rfl | hr
    · have : t.pc.rank = 0 := by omega
      cases hp : t.pc <;> simp [hp, TaskPc.rank] at this ⊢
    · exact ih (by unfold taskRank; omega) t hr

theorem find_none_done {ts : List Task} (h : ts.find? (fun t => t.pc != .done) = none) : ∀ t ∈ ts, t.pc = .done := by
  intro t ht
  have := List.find?_eq_none.mp h t ht
  simpa using this

theorem final_of_none {s : Sys} (h : Closing s) (hn : nextEv s = none) : Final s := by
  obtain ⟨hc, _, hb, _⟩ := h
  unfold nextEv at hn
  cases hw : s.writer with
  | loop => rw [hw] at hn; cases hn
  | draining c => rw [hw] at hn; cases hn
  | closeWait => rw [hw] at hn; cases hn
  | exited => rw [hw] at hn; simp only [] at hn; split at hn <;> cases hn
  | finished =>
    rw [hw] at hn
    simp only [] at hn
    have hcl : s.handlerClosed = true := hc.2.2.2.2.2.1 hw
    have hr := (hc.2.2.2.1 hcl).1
    have hb9 := hb.2.2.2.2.2.2.2.2.1 hcl
    split at hn
    · cases hn
    · rename_i hcw
      split at hn
      · cases hn
      · rename_i hf
        refine ⟨hw, hr, ?_, find_none_done hf, hcl, hb9.1, hb9.2⟩
        intro h; rw [h] at hcw; exact hcw rfl

theorem sum_map_setTask_lt {ts : List Task} (hn : (ts.map (·.gen)).Nodup) {t : Task} (ht : t ∈ ts) (f : Task → Task)
    (hf : (f t).pc.rank < t.pc.rank) : taskRank (setTask ts t.gen f) < taskRank ts := by
  unfold taskRank setTask
  induction ts with
  | nil => cases ht
  | cons a rest ih =>
    rw [List.map_cons, List.nodup_cons] at hn
    simp only [List.map_cons, List.sum_cons]
    rcases List.mem_cons.mp ht with rfl | hr
    · simp only [beq_self_eq_true, ite_true]
      have hrest : List.map (fun x => if (x.gen == t.gen) = true then f x else x) rest = rest := by
        conv => rhs; rw [← List.map_id rest]
        apply List.map_congr_left
        intro x hx
        have hne : x.gen ≠ t.gen := fun he => hn.1 (he ▸ List.mem_map.mpr ⟨x, hx, rfl⟩)
        have : (x.gen == t.gen) = false := by simpa using hne
        simp [this]
      rw [hrest]; omega
    · have hne : a.gen ≠ t.gen := fun he => hn.1 (he ▸ List.mem_map.mpr ⟨t, hr, rfl⟩)
      have : (a.gen == t.gen) = false := by simpa using hne
      simp only [this, Bool.false_eq_true, ite_false]
      have := ih hn.2 hr
      omega

theorem closing_of {cfg : Cfg} {s : Sys} (h : Closing s) (e : Ev) (hw : (stepS cfg s e).writer ≠ .loop) :
    Closing (stepS cfg s e) :=
  ⟨ctl_step cfg h.1 e, ctl2_step cfg h.2.1 e, book_step h.1 h.2.2.1 e, fun hl => absurd hl hw⟩

/-- write loop in its main select, closing begun: it takes the close message. -/
theorem drain_loop (cfg : Cfg) {s : Sys} (h : Closing s) (hw : s.writer = .loop) :
    Closing (stepS cfg s (.writerStep .closeMsg)) ∧ mu (stepS cfg s (.writerStep .closeMsg)) < mu s := by
  have hcm := h.2.1.1 (h.2.2.2 hw) hw
  obtain ⟨c, hc⟩ := Option.isSome_iff_exists.mp hcm
  have hst : stepS cfg s (.writerStep .closeMsg) = { s with closeMsg := none, writer := .draining c } := by
    show writerStep s .closeMsg = _
    unfold writerStep
    simp only [hw, hc]
  constructor
  · apply closing_of h; rw [hst]; simp
  · rw [hst]; unfold mu wRank; simp only [hw]; omega

theorem drain_draining (cfg : Cfg) {s : Sys} (h : Closing s) {c : Nat} (hw : s.writer = .draining c) :
    Closing (stepS cfg s (.writerStep .outgoing)) ∧ mu (stepS cfg s (.writerStep .outgoing)) < mu s := by
  have hst : stepS cfg s (.writerStep .outgoing) = writerStep s .outgoing := rfl
  cases ho : s.outgoing with
  | nil =>
    have : writerStep s .outgoing = { (if s.connOpen then emit s (.closeFrame c) else s) with writer := .closeWait } := by
      unfold writerStep; simp only [hw, ho]
    rw [hst, ← hst]
    constructor
    · apply closing_of h; rw [hst, this]; simp
    · rw [hst, this]; unfold mu wRank; simp only [hw, ho]
      split <;> simp [emit]
  | cons f q =>
    by_cases hco : s.connOpen = true
    · have : writerStep s .outgoing = emit { s with outgoing := q } (.wire f) := by
        unfold writerStep; simp only [hw, ho, hco, ite_true]
      constructor
      · apply closing_of h; rw [hst, this]; simp [emit, hw]
      · rw [hst, this]; unfold mu wRank; simp [emit, hw, ho]
    · have : writerStep s .outgoing = { s with outgoing := q, writer := .closeWait } := by
        unfold writerStep; simp only [hw, ho, hco]; simp
      constructor
      · apply closing_of h; rw [hst, this]; simp
      · rw [hst, this]; unfold mu wRank; simp [hw, ho]

theorem drain_closeWait (cfg : Cfg) {s : Sys} (h : Closing s) (hw : s.writer = .closeWait) :
    Closing (stepS cfg s (.writerStep .outgoing)) ∧ mu (stepS cfg s (.writerStep .outgoing)) < mu s := by
  have hst : stepS cfg s (.writerStep .outgoing) = writerExit s := by
    show writerStep s .outgoing = _
    unfold writerStep; simp only [hw]
  constructor
  · apply closing_of h; rw [hst]; simp [writerExit]
  · rw [hst]; unfold mu wRank writerExit; simp [hw]


theorem beginClosing_fields (s : Sys) (c : Nat) :
    (beginClosing s c).writer = s.writer ∧ (beginClosing s c).closer = s.closer ∧ (beginClosing s c).tasks = s.tasks ∧
    (beginClosing s c).reader = s.reader ∧ (beginClosing s c).outgoing = s.outgoing := by
  unfold beginClosing; split <;> simp

theorem doneSending_fields (s : Sys) (tc : Option Nat) :
    (doneSending s tc).writer = s.writer ∧ (doneSending s tc).closer = s.closer ∧ (doneSending s tc).tasks = s.tasks ∧
    (doneSending s tc).reader = .reading ∧ (doneSending s tc).outgoing = s.outgoing := by
  unfold doneSending
  split
  · obtain ⟨a, b, c, d, e⟩ := beginClosing_fields { s with reader := .reading } ‹_›
    exact ⟨a, b, c, d, e⟩
  · simp

/-- With the write loop gone (fix 03) the read loop's pending sends fail at once. -/
theorem pump_gone {cfg : Cfg} {s : Sys} (hf : cfg.sendFix = true) (hg : writerGone s = true) (p : List SFrame) (fc : Bool)
    (tc : Option Nat) :
    (pump cfg s p fc tc).writer = s.writer ∧ (pump cfg s p fc tc).closer = s.closer ∧ (pump cfg s p fc tc).tasks = s.tasks ∧
    (pump cfg s p fc tc).reader = .reading ∧ (pump cfg s p fc tc).outgoing = s.outgoing := by
  cases p with
  | nil => unfold pump; exact doneSending_fields s tc
  | cons f rest =>
    unfold pump
    rw [trySend_gone hf hg]
    simp only []
    split
    · obtain ⟨a, b, c, d, e⟩ := doneSending_fields (beginClosing s 1011) tc
      obtain ⟨a', b', c', _, e'⟩ := beginClosing_fields s 1011
      exact ⟨a.trans a', b.trans b', c.trans c', d, e.trans e'⟩
    · exact doneSending_fields s tc

theorem drain_reader (cfg : Cfg) (hf : cfg.sendFix = true) {s : Sys} (h : Closing s) (hw : s.writer = .exited)
    (hr : s.reader ≠ .done) : Closing (stepS cfg s .readerStep) ∧ mu (stepS cfg s .readerStep) < mu s := by
  have hg : writerGone s = true := by unfold writerGone; rw [hw]
  have hco : s.connOpen = false := h.1.1 hg
  cases hrd : s.reader with
  | done => exact absurd hrd hr
  | reading =>
    have hst : stepS cfg s .readerStep = readerExit s := by
      show (match s.reader with
        | .reading => if !s.connOpen then readerExit s else s
        | .sending p fc tc => pump cfg s p fc tc
        | .done => s) = _
      rw [hrd]; simp [hco]
    obtain ⟨a, b, c, _, e⟩ := beginClosing_fields s 1011
    constructor
    · apply closing_of h; rw [hst]; unfold readerExit; simp only []; rw [a, hw]; simp
    · rw [hst]; unfold mu wRank readerExit; simp only []
      rw [a, b, c, e, hw, hrd]; simp [rRank]
  | sending p fc tc =>
    have hst : stepS cfg s .readerStep = pump cfg s p fc tc := by
      show (match s.reader with
        | .reading => if !s.connOpen then readerExit s else s
        | .sending p fc tc => pump cfg s p fc tc
        | .done => s) = _
      rw [hrd]
    obtain ⟨a, b, c, d, e⟩ := pump_gone hf hg p fc tc
    constructor
    · apply closing_of h; rw [hst, a, hw]; simp
    · rw [hst]; unfold mu wRank
      rw [a, b, c, d, e, hw, hrd]; simp [rRank]


theorem taskRank_setTask_same (ts : List Task) (g : Gen) (f : Task → Task) (hf : ∀ t, (f t).pc = t.pc) :
    taskRank (setTask ts g f) = taskRank ts := by
  unfold taskRank setTask
  rw [List.map_map]
  congr 1
  apply List.map_congr_left
  intro t _
  simp only [Function.comp]
  split
  · rw [hf]
  · rfl

theorem stopAll_fields (l : List (Id × Gen)) : ∀ s : Sys,
    (stopAll s l).writer = s.writer ∧ (stopAll s l).reader = s.reader ∧ (stopAll s l).closer = s.closer ∧
    taskRank (stopAll s l).tasks = taskRank s.tasks := by
  induction l with
  | nil => intro s; exact ⟨rfl, rfl, rfl, rfl⟩
  | cons p rest ih =>
    intro s
    unfold stopAll
    obtain ⟨a, b, c, d⟩ := ih (callStop s p.2)
    refine ⟨a, b, c, d.trans ?_⟩
    exact taskRank_setTask_same s.tasks p.2 _ (fun _ => rfl)

theorem finishClosing_fields (s : Sys) :
    (finishClosing s).writer = s.writer ∧ (finishClosing s).reader = s.reader ∧ (finishClosing s).closer = s.closer ∧
    taskRank (finishClosing s).tasks = taskRank s.tasks := by
  unfold finishClosing
  split
  · exact ⟨rfl, rfl, rfl, rfl⟩
  · unfold handleClose
    obtain ⟨a, b, c, d⟩ := stopAll_fields s.subs { s with finishOnce := true }
    simp only []
    split <;> exact ⟨a, b, c, d⟩

theorem drain_finish (cfg : Cfg) {s : Sys} (h : Closing s) (hw : s.writer = .exited) (hr : s.reader = .done) :
    Closing (stepS cfg s (.writerStep .outgoing)) ∧ mu (stepS cfg s (.writerStep .outgoing)) < mu s := by
  have hst : stepS cfg s (.writerStep .outgoing) = { finishClosing s with writer := .finished } := by
    show writerStep s .outgoing = _
    unfold writerStep; simp only [hw, hr]; simp
  obtain ⟨a, b, c, d⟩ := finishClosing_fields s
  constructor
  · apply closing_of h; rw [hst]; simp
  · rw [hst]; unfold mu wRank; simp only []
    rw [b, c, d, hw]; simp only []; omega

theorem drain_closer (cfg : Cfg) {s : Sys} (h : Closing s) (hw : s.writer = .finished) (hc : s.closer = .waiting) :
    Closing (stepS cfg s .serverClose) ∧ mu (stepS cfg s .serverClose) < mu s := by
  have hcl : s.handlerClosed = true := h.1.2.2.2.2.2.1 hw
  obtain ⟨hr, hg⟩ := h.1.2.2.2.1 hcl
  have hst : stepS cfg s .serverClose = { finishClosing s with closer := .done } := by
    unfold stepS; simp only [hc, hr, hg]; simp
  obtain ⟨a, b, c, d⟩ := finishClosing_fields s
  constructor
  · apply closing_of h; rw [hst]; simp only []; rw [a, hw]; simp
  · rw [hst]; unfold mu wRank; simp only []
    rw [a, b, d, hw, hc]; simp [cRank]

/-- With the write loop gone (fix 03) a cancelled goroutine's step only advances its own pc. -/
theorem subTaskStep_gone_fields {cfg : Cfg} {s : Sys} (hf : cfg.sendFix = true) (hg : writerGone s = true)
    {g : Gen} {t : Task} (ht : findTask s.tasks g = some t) (hc : t.cancelled = true) (hnd : t.pc ≠ .done) :
    (subTaskStep cfg s g).writer = s.writer ∧ (subTaskStep cfg s g).reader = s.reader ∧
    (subTaskStep cfg s g).closer = s.closer ∧
    (subTaskStep cfg s g).tasks = setTask s.tasks g (fun t' => { t' with pc := t.pc.next }) := by
  unfold subTaskStep
  rw [ht]
  simp only []
  cases hp : t.pc with
  | select => simp [hc, TaskPc.next, emit]
  | sendData ev => simp [trySend_gone hf hg, TaskPc.next]
  | sendComplete => simp [trySend_gone hf hg, TaskPc.next]
  | done => exact absurd hp hnd

theorem drain_task (cfg : Cfg) (hf : cfg.sendFix = true) {s : Sys} (h : Closing s) (hw : s.writer = .finished)
    {t : Task} (hfind : s.tasks.find? (fun t => t.pc != .done) = some t) :
    Closing (stepS cfg s (.subTaskStep t.gen)) ∧ mu (stepS cfg s (.subTaskStep t.gen)) < mu s := by
  have hcl : s.handlerClosed = true := h.1.2.2.2.2.2.1 hw
  obtain ⟨_, hg⟩ := h.1.2.2.2.1 hcl
  have hmem : t ∈ s.tasks := List.mem_of_find?_eq_some hfind
  have hnd : t.pc ≠ .done := by simpa using List.find?_some hfind
  have hn : (s.tasks.map (·.gen)).Nodup := by
    have := h.2.2.1.2.2.1
    simpa [absBook, List.map_map, Function.comp_def] using this
  have hft := findTask_of_mem hn hmem
  have hcanc := closed_all_cancelled h.2.2.1 hcl t hmem
  obtain ⟨a, b, c, d⟩ := subTaskStep_gone_fields hf hg hft hcanc hnd
  have hst : stepS cfg s (.subTaskStep t.gen) = subTaskStep cfg s t.gen := rfl
  constructor
  · apply closing_of h; rw [hst, a, hw]; simp
  · rw [hst]; unfold mu wRank
    rw [a, b, c, d, hw]
    have := sum_map_setTask_lt hn hmem (fun t' => { t' with pc := t.pc.next })
      (by simp only []; rw [rank_next]; cases hp : t.pc <;> simp_all [TaskPc.rank])
    simp only []
    omega

/-- One step of the tear-down scheduler keeps the invariants and decreases the rank. -/
theorem drain_step (cfg : Cfg) (hf : cfg.sendFix = true) {s : Sys} (h : Closing s) {e : Ev} (hn : nextEv s = some e) :
    Closing (stepS cfg s e) ∧ mu (stepS cfg s e) < mu s := by
  unfold nextEv at hn
  cases hw : s.writer with
  | loop => rw [hw] at hn; cases hn; exact drain_loop cfg h hw
  | draining c => rw [hw] at hn; cases hn; exact drain_draining cfg h hw
  | closeWait => rw [hw] at hn; cases hn; exact drain_closeWait cfg h hw
  | exited =>
    rw [hw] at hn
    simp only [] at hn
    split at hn
    · rename_i hr; cases hn; exact drain_finish cfg h hw (by simpa using hr)
    · rename_i hr; cases hn; exact drain_reader cfg hf h hw (by simpa using hr)
  | finished =>
    rw [hw] at hn
    simp only [] at hn
    split at hn
    · rename_i hc; cases hn; exact drain_closer cfg h hw (by simpa using hc)
    · split at hn
      · rename_i t hfind; cases hn; exact drain_task cfg hf h hw hfind
      · cases hn

theorem mu_zero_none {s : Sys} (h : mu s = 0) : nextEv s = none := by
  unfold mu at h
  have hw : wRank s = 0 := by omega
  have hc : cRank s.closer = 0 := by omega
  have ht : taskRank s.tasks = 0 := by omega
  unfold nextEv
  unfold wRank at hw
  cases hwr : s.writer <;> rw [hwr] at hw <;> simp at hw
  simp only []
  have : (s.closer == .waiting) = false := by
    cases hcl : s.closer <;> simp_all [cRank]
  rw [this]
  simp only [Bool.false_eq_true, ite_false]
  have hall := taskRank_zero ht
  have : s.tasks.find? (fun t => t.pc != .done) = none := by
    apply List.find?_eq_none.mpr
    intro t ht'; simp [hall t ht']
  rw [this]

/-- The drain reaches a final state within `mu s` steps. -/
theorem drain_final (cfg : Cfg) (hf : cfg.sendFix = true) : ∀ (n : Nat) (s : Sys), Closing s → mu s ≤ n →
    Final (run cfg s (drainEvs cfg n s)) ∧ (drainEvs cfg n s).length ≤ mu s := by
  intro n
  induction n with
  | zero =>
    intro s h hm
    have := mu_zero_none (by omega : mu s = 0)
    exact ⟨final_of_none h this, by simp [drainEvs]⟩
  | succ n ih =>
    intro s h hm
    unfold drainEvs
    cases hn : nextEv s with
    | none => exact ⟨final_of_none h hn, by simp⟩
    | some e =>
      obtain ⟨hc', hlt⟩ := drain_step cfg hf h hn
      obtain ⟨hfin, hlen⟩ := ih (stepS cfg s e) hc' (by omega)
      simp only []
      exact ⟨hfin, by simp only [List.length_cons]; omega⟩

/-- Explicit bound on the number of steps of the tear-down from state `s`: one per buffered message
    the write loop still drains, three per subscription goroutine, seven for the two loops,
    `finishClosing` and the closer. -/
def closeBound (s : Sys) : Nat := s.outgoing.length + 3 * s.tasks.length + 7

theorem taskRank_le (ts : List Task) : taskRank ts ≤ 3 * ts.length := by
  induction ts with
  | nil => simp [taskRank]
  | cons a rest ih =>
    unfold taskRank at *
    simp only [List.map_cons, List.sum_cons, List.length_cons]
    have : a.pc.rank ≤ 3 := by cases a.pc <;> simp [TaskPc.rank]
    omega

theorem mu_le_bound (s : Sys) : mu s ≤ closeBound s := by
  unfold mu closeBound
  have h1 : wRank s ≤ s.outgoing.length + 4 := by unfold wRank; split <;> omega
  have h2 : rRank s.reader ≤ 2 := by unfold rRank; split <;> omega
  have h3 : cRank s.closer ≤ 1 := by unfold cRank; split <;> omega
  have h4 := taskRank_le s.tasks
  omega

theorem serverClose_begun (cfg : Cfg) (evs : List Ev) : (run cfg init (evs ++ [.serverClose])).beginOnce = true := by
  have h2 := ctl2_reachable cfg (evs ++ [.serverClose])
  apply h2.2
  rw [run_append]
  show (stepS cfg (run cfg init evs) .serverClose).closer ≠ .idle
  unfold stepS
  simp only []
  cases hcl : (run cfg init evs).closer with
  | idle => simp
  | waiting => simp only []; split <;> simp [hcl]
  | done => simp [hcl]

end ApiFu.C08
