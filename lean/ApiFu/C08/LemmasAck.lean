/-
  C08 — helper lemmas: AckInv: nothing but connection errors before the ack of a successful init (queue order, log, pending sends).
-/
import ApiFu.C08.LemmasSend
namespace ApiFu.C08

/-! ### G3c: nothing but connection errors before the ack -/

/-- Every element before the first `ack` is a connection error. -/
def PreOk (l : List SFrame) : Prop := ∀ f ∈ l.takeWhile (· != .ack), f = .connError

theorem takeWhile_append_mem {l x : List SFrame} (h : SFrame.ack ∈ l) :
    (l ++ x).takeWhile (· != .ack) = l.takeWhile (· != .ack) := by
  induction l with
  | nil => cases h
  | cons a rest ih =>
    by_cases ha : a = .ack
    · subst ha; simp
    · have : SFrame.ack ∈ rest := by
        rcases List.mem_cons.mp h with h | h
        · exact absurd h.symm ha
        · exact h
      have hne : (a != SFrame.ack) = true := by simpa using ha
      simp [List.takeWhile_cons, hne, ih this]

theorem takeWhile_append_notMem {l x : List SFrame} (h : SFrame.ack ∉ l) :
    (l ++ x).takeWhile (· != .ack) = l ++ x.takeWhile (· != .ack) := by
  induction l with
  | nil => rfl
  | cons a rest ih =>
    have ha : a ≠ .ack := fun he => h (he ▸ List.mem_cons_self)
    have hr : SFrame.ack ∉ rest := fun hm => h (List.mem_cons_of_mem _ hm)
    have hne : (a != SFrame.ack) = true := by simpa using ha
    simp [List.takeWhile_cons, hne, ih hr]

theorem takeWhile_notMem {l : List SFrame} (h : SFrame.ack ∉ l) : l.takeWhile (· != .ack) = l := by
  have := takeWhile_append_notMem (x := []) h
  simpa using this

theorem mem_of_mem_takeWhile {l : List SFrame} {f : SFrame} (h : f ∈ l.takeWhile (· != .ack)) : f ∈ l :=
  (List.takeWhile_sublist _).subset h

theorem preOk_append_mem {l x : List SFrame} (h : SFrame.ack ∈ l) (hp : PreOk l) : PreOk (l ++ x) := by
  unfold PreOk; rw [takeWhile_append_mem h]; exact hp

theorem preOk_append_notMem {l x : List SFrame} (h : SFrame.ack ∉ l) (hp : PreOk l) (hx : PreOk x) : PreOk (l ++ x) := by
  unfold PreOk at *; rw [takeWhile_append_notMem h]
  rw [takeWhile_notMem h] at hp
  intro f hf
  rcases List.mem_append.mp hf with hf | hf
  · exact hp f (by simpa using hf)
  · exact hx f hf

theorem preOk_all {l : List SFrame} (h : SFrame.ack ∉ l) (hp : PreOk l) : ∀ f ∈ l, f = .connError := by
  unfold PreOk at hp
  rw [takeWhile_notMem h] at hp
  exact hp

theorem preOk_of_all {l : List SFrame} (h : ∀ f ∈ l, f = .connError) : PreOk l := by
  intro f hf; exact h f (mem_of_mem_takeWhile hf)

theorem preOk_prefix {a b : List SFrame} (h : a <+: b) (hp : PreOk b) : PreOk a := by
  obtain ⟨t, rfl⟩ := h
  by_cases ha : SFrame.ack ∈ a
  · unfold PreOk at *; rw [takeWhile_append_mem ha] at hp; exact hp
  · unfold PreOk at *; rw [takeWhile_append_notMem ha] at hp
    intro f hf; exact hp f (List.mem_append_left _ (mem_of_mem_takeWhile hf))

theorem preOk_split {a b : List SFrame} (h : PreOk (a ++ b)) (ha : SFrame.ack ∉ a) : (∀ f ∈ a, f = .connError) ∧ PreOk b := by
  unfold PreOk at *
  rw [takeWhile_append_notMem ha] at h
  exact ⟨fun f hf => h f (List.mem_append_left _ hf), fun f hf => h f (List.mem_append_right _ hf)⟩

def Out.preAckOk : Out → Bool
  | .wire f => f == .connError
  | .queued f => f == .connError
  | .exec _ _ => false
  | .stop _ => false
  | .started _ _ _ => false
  | .consumed _ _ => false
  | .returned _ => false
  | _ => true

/-- The regime before the ack of a successful init has been queued. -/
def Quiet (s : Sys) : Prop :=
  s.tasks = [] ∧ (∀ o ∈ s.log, o.preAckOk = true) ∧ PreOk (pendingOf s.reader) ∧
  (s.didInit = true → s.connOpen = false ∨ SFrame.ack ∈ pendingOf s.reader)

def AckInv (s : Sys) : Prop :=
  (SFrame.ack ∈ enqOf s.log → s.didInit = true) ∧
  (SFrame.ack ∈ pendingOf s.reader → s.didInit = true) ∧
  PreOk (enqOf s.log) ∧
  (SFrame.ack ∉ enqOf s.log → Quiet s)

theorem ackInv_init : AckInv init := by
  simp [AckInv, Quiet, init, enqOf, pendingOf, PreOk]

theorem enqOf_map_queued (a : List SFrame) : enqOf (a.map Out.queued) = a := by
  induction a with
  | nil => rfl
  | cons x xs ih => simp [enqOf] at ih ⊢

theorem mem_enq_of_ext {s s' : Sys} (h : Ext s s') {f : SFrame} (hf : f ∈ enqOf s.log) : f ∈ enqOf s'.log := by
  obtain ⟨⟨e, he⟩, _⟩ := h
  rw [he, enqOf_append]; exact List.mem_append_left _ hf

/-- Once the ack is queued the invariant is kept by anything that only appends to the log, keeps
    `didInit`, and whose reader can only have an ack pending after an init. -/
theorem ackInv_after {s s' : Sys} (h : AckInv s) (hack : SFrame.ack ∈ enqOf s.log) (he : Ext s s') : AckInv s' := by
  obtain ⟨a0, a1, a2, a3⟩ := h
  have hd : s'.didInit = true := he.2 (a0 hack)
  obtain ⟨⟨e, hl⟩, _⟩ := he
  refine ⟨fun _ => hd, fun _ => hd, ?_, ?_⟩
  · rw [hl, enqOf_append]; exact preOk_append_mem hack a2
  · intro hn; exact absurd (by rw [hl, enqOf_append]; exact List.mem_append_left _ hack) hn


theorem quiet_idle' {s s' : Sys} (h : AckInv s) (hn : SFrame.ack ∉ enqOf s.log)
    (hlog : ∃ ext, s'.log = s.log ++ ext ∧ enqOf ext = [] ∧ ∀ o ∈ ext, o.preAckOk = true)
    (ht : s'.tasks = []) (hp : pendingOf s'.reader = []) (hd : s'.didInit = true → s'.connOpen = false) : AckInv s' := by
  obtain ⟨a0, a1, a2, a3⟩ := h
  obtain ⟨_, q2, _, _⟩ := a3 hn
  obtain ⟨ext, hl, he, ho⟩ := hlog
  have henq : enqOf s'.log = enqOf s.log := by rw [hl, enqOf_append, he]; simp
  refine ⟨?_, ?_, ?_, ?_⟩
  · rw [henq]; intro hm; exact absurd hm hn
  · rw [hp]; intro hm; cases hm
  · rw [henq]; exact a2
  · intro _
    refine ⟨ht, ?_, ?_, ?_⟩
    · intro o hm; rw [hl] at hm
      rcases List.mem_append.mp hm with hm | hm
      · exact q2 o hm
      · exact ho o hm
    · rw [hp]; intro f hf; cases hf
    · intro hd'; exact Or.inl (hd hd')

theorem quiet_idle {s s' : Sys} (h : AckInv s) (hn : SFrame.ack ∉ enqOf s.log)
    (hlog : ∃ ext, s'.log = s.log ++ ext ∧ enqOf ext = [] ∧ ∀ o ∈ ext, o.preAckOk = true)
    (ht : s'.tasks = []) (hp : pendingOf s'.reader = []) (hd : s'.didInit = false) : AckInv s' :=
  quiet_idle' h hn hlog ht hp (fun h => by rw [hd] at h; cases h)

theorem quiet_same_reader {s s' : Sys} (h : AckInv s) (hn : SFrame.ack ∉ enqOf s.log)
    (hlog : ∃ ext, s'.log = s.log ++ ext ∧ enqOf ext = [] ∧ ∀ o ∈ ext, o.preAckOk = true)
    (ht : s'.tasks = []) (hr : s'.reader = s.reader) (hd : s'.didInit = s.didInit)
    (hc : s.connOpen = false → s'.connOpen = false) : AckInv s' := by
  obtain ⟨a0, a1, a2, a3⟩ := h
  obtain ⟨_, q2, q3, q4⟩ := a3 hn
  obtain ⟨ext, hl, he, ho⟩ := hlog
  have henq : enqOf s'.log = enqOf s.log := by rw [hl, enqOf_append, he]; simp
  refine ⟨?_, ?_, ?_, ?_⟩
  · rw [henq]; intro hm; exact absurd hm hn
  · rw [hr, hd]; exact a1
  · rw [henq]; exact a2
  · intro _
    refine ⟨ht, ?_, ?_, ?_⟩
    · intro o hm; rw [hl] at hm
      rcases List.mem_append.mp hm with hm | hm
      · exact q2 o hm
      · exact ho o hm
    · rw [hr]; exact q3
    · rw [hr, hd]; intro hd'
      rcases q4 hd' with h1 | h1
      · exact Or.inl (hc h1)
      · exact Or.inr h1

/-- The reader works off a list of messages in the quiet regime. -/
theorem quiet_pump {cfg : Cfg} {s : Sys} (hc : Ctl s) (hn : SFrame.ack ∉ enqOf s.log) (h2 : PreOk (enqOf s.log))
    (ht : s.tasks = []) (hl : ∀ o ∈ s.log, o.preAckOk = true)
    (p : List SFrame) (fc : Bool) (tc : Option Nat) (hp : PreOk p) (hpa : SFrame.ack ∈ p → s.didInit = true)
    (h4 : s.didInit = true → s.connOpen = false ∨ SFrame.ack ∈ p) : AckInv (pump cfg s p fc tc) := by
  obtain ⟨a, b, e1, e2, e3, e4, e5, _, _, _, e9⟩ := pump_spec cfg p fc tc s
  have henq : enqOf (pump cfg s p fc tc).log = enqOf s.log ++ a := by rw [e2, enqOf_append, enqOf_map_queued]
  have hpend : ∀ f, f ∈ pendingOf (pump cfg s p fc tc).reader → f ∈ b := by
    intro f hf
    rcases e9 with ⟨r, _, _⟩ | ⟨r, _⟩ <;> rw [r] at hf
    · exact hf
    · cases hf
  have hpa' : SFrame.ack ∈ pendingOf (pump cfg s p fc tc).reader → (pump cfg s p fc tc).didInit = true := by
    intro hm; rw [e4]; apply hpa; rw [e1]; exact List.mem_append_right _ (hpend _ hm)
  have hA2 : PreOk (enqOf (pump cfg s p fc tc).log) := by
    rw [henq]; exact preOk_append_notMem hn h2 (preOk_prefix ⟨b, e1.symm⟩ hp)
  by_cases ha : SFrame.ack ∈ a
  · refine ⟨fun _ => ?_, hpa', hA2, ?_⟩
    · rw [e4]; apply hpa; rw [e1]; exact List.mem_append_left _ ha
    · intro hnn; rw [henq] at hnn; exact absurd (List.mem_append_right _ ha) hnn
  · have hsplit := preOk_split (e1 ▸ hp) ha
    refine ⟨?_, hpa', hA2, ?_⟩
    · intro hm; rw [henq] at hm
      rcases List.mem_append.mp hm with hm | hm
      · exact absurd hm hn
      · exact absurd hm ha
    · intro _
      refine ⟨by rw [e3]; exact ht, ?_, ?_, ?_⟩
      · intro o hm; rw [e2] at hm
        rcases List.mem_append.mp hm with hm | hm
        · exact hl o hm
        · obtain ⟨f, hf, rfl⟩ := List.mem_map.mp hm
          simp [Out.preAckOk, hsplit.1 f hf]
      · rcases e9 with ⟨r, _, _⟩ | ⟨r, _⟩ <;> rw [r]
        · exact hsplit.2
        · intro f hf; cases hf
      · intro hd; rw [e4] at hd; rw [e5]
        rcases h4 hd with h | h
        · exact Or.inl h
        · have hb : SFrame.ack ∈ b := by
            rw [e1] at h
            rcases List.mem_append.mp h with h | h
            · exact absurd h ha
            · exact h
          rcases e9 with ⟨r, _, _⟩ | ⟨r, hb' | ⟨_, hg⟩⟩
          · right; rw [r]; exact hb
          · rw [hb'] at hb; cases hb
          · left; exact hc.1 hg


theorem handleClose_noSubs (s : Sys) (hs : s.subs = []) :
    ∃ ext, (handleClose s).log = s.log ++ ext ∧ enqOf ext = [] ∧ (∀ o ∈ ext, o.preAckOk = true) ∧
      (handleClose s).tasks = s.tasks ∧ (handleClose s).reader = s.reader ∧ (handleClose s).didInit = s.didInit ∧
      (handleClose s).connOpen = s.connOpen := by
  unfold handleClose
  rw [hs]
  simp only [stopAll]
  by_cases hr : s.registered = true
  · simp only [hr, ite_true]
    exact ⟨[.deregistered], rfl, rfl, by simp [Out.preAckOk], rfl, rfl, rfl, rfl⟩
  · simp only [hr]
    exact ⟨[], by simp, rfl, by simp, rfl, rfl, rfl, rfl⟩

theorem finishClosing_noSubs (s : Sys) (hs : s.subs = []) :
    ∃ ext, (finishClosing s).log = s.log ++ ext ∧ enqOf ext = [] ∧ (∀ o ∈ ext, o.preAckOk = true) ∧
      (finishClosing s).tasks = s.tasks ∧ (finishClosing s).reader = s.reader ∧ (finishClosing s).didInit = s.didInit ∧
      (finishClosing s).connOpen = s.connOpen := by
  unfold finishClosing
  split
  · exact ⟨[], by simp, rfl, by simp, rfl, rfl, rfl, rfl⟩
  · exact handleClose_noSubs { s with finishOnce := true } hs

theorem book_noTasks_noSubs {s : Sys} (hb : Book s) (ht : s.tasks = []) : s.subs = [] := by
  have h5 := hb.2.2.2.2.1
  cases hs : s.subs with
  | nil => rfl
  | cons p rest =>
    have := h5 p (by show p ∈ s.subs; rw [hs]; simp)
    simp [absBook, ht] at this

theorem fifo_outgoing_sub {s : Sys} (hf : Fifo s) : ∀ f ∈ s.outgoing, f ∈ enqOf s.log := by
  obtain ⟨d, h1, _⟩ := hf
  simp only [absF] at h1
  intro f hm; rw [h1]; exact List.mem_append_right _ hm

theorem ackInv_handle_quiet {cfg : Cfg} {s : Sys} (hc : Ctl s) (h : AckInv s) (hn : SFrame.ack ∉ enqOf s.log)
    (hr : s.reader = .reading) (ho : s.connOpen = true) (f : CFrame) : AckInv (handle cfg s f) := by
  obtain ⟨q1, q2, q3, q4⟩ := h.2.2.2 hn
  have hd : s.didInit = false := by
    cases hd : s.didInit with
    | false => rfl
    | true =>
      rcases q4 hd with h1 | h1
      · rw [ho] at h1; cases h1
      · rw [hr] at h1; cases h1
  -- the state after logging the receipt
  have idle : ∀ s' : Sys, s'.log = s.log ++ [.recv f s.didInit] → s'.tasks = [] → pendingOf s'.reader = [] →
      s'.didInit = false → AckInv s' := by
    intro s' hl ht hp hd'
    exact quiet_idle h hn ⟨[.recv f s.didInit], hl, rfl, by simp [Out.preAckOk]⟩ ht hp hd'
  have bc : ∀ c, AckInv (beginClosing (emit s (.recv f s.didInit)) c) := by
    intro c
    have b := beginClosing_same (emit s (.recv f s.didInit)) c
    exact idle _ b.1 (by rw [b.2.2.2.1]; exact q1) (by rw [b.2.1]; show pendingOf s.reader = []; rw [hr]; rfl) (by rw [b.2.2.2.2.1]; exact hd)
  have hs1 : AckInv (emit s (.recv f s.didInit)) := idle _ rfl q1 (by show pendingOf s.reader = []; rw [hr]; rfl) hd
  have pumpq : ∀ (s1 : Sys) (p : List SFrame) (fc : Bool) (tc : Option Nat), s1.log = s.log ++ [.recv f s.didInit] →
      s1.tasks = [] → Ctl s1 → PreOk p → (SFrame.ack ∈ p → s1.didInit = true) →
      (s1.didInit = true → s1.connOpen = false ∨ SFrame.ack ∈ p) → AckInv (pump cfg s1 p fc tc) := by
    intro s1 p fc tc hl ht hc1 hp hpa h4
    have henq : enqOf s1.log = enqOf s.log := by rw [hl, enqOf_append]; simp [enqOf]
    apply quiet_pump hc1 (by rw [henq]; exact hn) (by rw [henq]; exact h.2.2.1) ht _ p fc tc hp hpa h4
    intro o hm; rw [hl] at hm
    rcases List.mem_append.mp hm with hm | hm
    · exact q2 o hm
    · simp at hm; subst hm; rfl
  unfold handle
  cases f with
  | close =>
    simp only []; unfold readerExit
    have b := beginClosing_same { emit s (.recv CFrame.close s.didInit) with closeRecv := true } 1011
    exact idle _ b.1 (by show (beginClosing _ 1011).tasks = []; rw [b.2.2.2.1]; exact q1) rfl (by show (beginClosing _ 1011).didInit = false; rw [b.2.2.2.2.1]; exact hd)
  | malformed => simp only []; split; exact hs1; exact bc _
  | init ok =>
    cases ok <;> simp only [] <;> split
    · exact pumpq _ _ _ _ rfl q1 (ctl_emit hc _) (preOk_of_all (by simp)) (by simp) (by intro h; rw [show (emit s _).didInit = s.didInit from rfl, hd] at h; cases h)
    · exact bc _
    · apply pumpq { emit s _ with didInit := true } _ _ _ rfl q1 (ctl_of_fields rfl hc) _ (fun _ => rfl) (fun _ => Or.inr (by simp))
      intro f hf; simp [List.takeWhile] at hf
    · apply pumpq { emit s _ with didInit := true } _ _ _ rfl q1 (ctl_of_fields rfl hc) _ (fun _ => rfl) (fun _ => Or.inr (by simp))
      intro f hf; simp [List.takeWhile] at hf
  | start id k =>
    simp only []
    split
    · exact idle _ rfl q1 (by show pendingOf s.reader = []; rw [hr]; rfl) hd
    · rename_i hx; simp [emit, hd] at hx
  | startBad id =>
    simp only []
    split; exact hs1
    split; exact hs1
    rename_i hx; simp [emit, hd] at hx
  | stop id =>
    simp only []
    split; exact hs1
    rename_i hx; simp [emit, hd] at hx
  | ping =>
    simp only []
    split; exact hs1
    split
    · split; exact hs1
      rename_i hx; simp [emit, hd] at hx
    · exact bc _
  | pong => exact hs1
  | terminate => simp only []; split <;> exact bc _
  | unknown => simp only []; split; exact hs1; exact bc _


theorem findTask_nil (g : Gen) : findTask [] g = none := rfl

theorem ackInv_step {cfg : Cfg} {s : Sys} (hc : Ctl s) (hb : Book s) (hf : Fifo s) (h : AckInv s) (e : Ev) :
    AckInv (stepS cfg s e) := by
  by_cases hack : SFrame.ack ∈ enqOf s.log
  · exact ackInv_after h hack (ext_step cfg s e)
  · obtain ⟨q1, q2, q3, q4⟩ := h.2.2.2 hack
    have hsubs : s.subs = [] := book_noTasks_noSubs hb q1
    have hall : ∀ f ∈ enqOf s.log, f = .connError := preOk_all hack h.2.2.1
    have same : ∀ s' : Sys, (∃ ext, s'.log = s.log ++ ext ∧ enqOf ext = [] ∧ ∀ o ∈ ext, o.preAckOk = true) →
        s'.tasks = [] → s'.reader = s.reader → s'.didInit = s.didInit → (s.connOpen = false → s'.connOpen = false) →
        AckInv s' := fun s' a b c d e => quiet_same_reader h hack a b c d e
    have wire1 : ∀ f q, s.outgoing = f :: q → (Out.wire f).preAckOk = true := by
      intro f q ho
      have := hall f (fifo_outgoing_sub hf f (by rw [ho]; simp))
      simp [Out.preAckOk, this]
    unfold stepS
    cases e with
    | client f =>
      simp only []
      split
      · rename_i hx; simp at hx; exact ackInv_handle_quiet hc h hack hx.1 hx.2 f
      · exact h
    | source g ev =>
      show AckInv (sourceStep s g ev)
      unfold sourceStep
      cases ev with
      | ended => simp only [q1, setTask, List.map_nil]; exact same _ ⟨[], by simp, rfl, by simp⟩ rfl rfl rfl (fun x => x)
      | event n => simp only [q1, findTask_nil]; exact h
    | readerStep =>
      simp only []
      split
      · rename_i hr
        split
        · rename_i hco
          unfold readerExit
          have b := beginClosing_same s 1011
          apply quiet_idle' h hack ⟨[], by simp [b.1], rfl, by simp⟩
          · show (beginClosing s 1011).tasks = []; rw [b.2.2.2.1]; exact q1
          · rfl
          · intro _; show (beginClosing s 1011).connOpen = false; rw [b.2.2.1]; simpa using hco
        · exact h
      · rename_i p fc tc hr
        rw [hr] at q3 q4
        have a1 := h.2.1; rw [hr] at a1
        exact quiet_pump hc hack h.2.2.1 q1 q2 p fc tc q3 a1 q4
      · exact h
    | writerStep pick =>
      show AckInv (writerStep s pick)
      unfold writerStep
      split
      · cases pick <;> simp only []
        · split
          · exact h
          · rename_i f q ho
            split
            · exact same _ ⟨[.wire f], rfl, rfl, by simp [wire1 f q ho]⟩ q1 rfl rfl (fun x => x)
            · exact same _ ⟨[], by simp [writerExit], rfl, by simp⟩ q1 rfl rfl (fun _ => rfl)
        · split
          · exact h
          · exact same _ ⟨[], by simp, rfl, by simp⟩ q1 rfl rfl (fun x => x)
        · split
          · split
            · exact same _ ⟨[.closeFrame 1000], rfl, rfl, by simp [Out.preAckOk]⟩ q1 rfl rfl (fun _ => rfl)
            · exact same _ ⟨[], by simp [writerExit], rfl, by simp⟩ q1 rfl rfl (fun _ => rfl)
          · exact h
      · split
        · rename_i f q ho
          split
          · exact same _ ⟨[.wire f], rfl, rfl, by simp [wire1 f q ho]⟩ q1 rfl rfl (fun x => x)
          · exact same _ ⟨[], by simp, rfl, by simp⟩ q1 rfl rfl (fun x => x)
        · split
          · exact same _ ⟨[.closeFrame _], rfl, rfl, by simp [Out.preAckOk]⟩ q1 rfl rfl (fun x => x)
          · exact same _ ⟨[], by simp, rfl, by simp⟩ q1 rfl rfl (fun x => x)
      · exact same _ ⟨[], by simp [writerExit], rfl, by simp⟩ q1 rfl rfl (fun _ => rfl)
      · split
        · obtain ⟨ext, e1, e2, e3, e4, e5, e6, e7⟩ := finishClosing_noSubs s hsubs
          exact same _ ⟨ext, e1, e2, e3⟩ (e4.trans q1) e5 e6 (fun x => by show (finishClosing s).connOpen = false; rw [e7]; exact x)
        · exact h
      · exact h
    | subTaskStep g =>
      show AckInv (subTaskStep cfg s g)
      unfold subTaskStep
      simp only [q1, findTask_nil]; exact h
    | netDrop =>
      show AckInv { s with connOpen := false }
      exact same _ ⟨[], by simp, rfl, by simp⟩ q1 rfl rfl (fun _ => rfl)
    | serverClose =>
      simp only []
      split
      · by_cases hr : s.registered = true
        · rw [if_pos hr]
          have b := beginClosing_same (emit { s with registered := false } Out.deregistered) 1000
          refine same _ ⟨[.deregistered], ?_, rfl, by simp [Out.preAckOk]⟩ ?_ ?_ ?_ ?_
          · show (beginClosing _ 1000).log = _; rw [b.1]; rfl
          · show (beginClosing _ 1000).tasks = _; rw [b.2.2.2.1]; exact q1
          · show (beginClosing _ 1000).reader = _; rw [b.2.1]; rfl
          · show (beginClosing _ 1000).didInit = _; rw [b.2.2.2.2.1]; rfl
          · intro x; show (beginClosing _ 1000).connOpen = _; rw [b.2.2.1]; exact x
        · rw [if_neg hr]
          have b := beginClosing_same s 1000
          refine same _ ⟨[], ?_, rfl, by simp⟩ ?_ ?_ ?_ ?_
          · show (beginClosing _ 1000).log = _; rw [b.1]; simp
          · show (beginClosing _ 1000).tasks = _; rw [b.2.2.2.1]; exact q1
          · show (beginClosing _ 1000).reader = _; rw [b.2.1]
          · show (beginClosing _ 1000).didInit = _; rw [b.2.2.2.2.1]
          · intro x; show (beginClosing _ 1000).connOpen = _; rw [b.2.2.1]; exact x
      · split
        · obtain ⟨ext, e1, e2, e3, e4, e5, e6, e7⟩ := finishClosing_noSubs s hsubs
          exact same _ ⟨ext, e1, e2, e3⟩ (e4.trans q1) e5 e6 (fun x => by show (finishClosing s).connOpen = false; rw [e7]; exact x)
        · exact h
      · exact h

theorem inv_all_reachable (cfg : Cfg) (evs : List Ev) :
    Ctl (run cfg init evs) ∧ Book (run cfg init evs) ∧ Fifo (run cfg init evs) ∧ AckInv (run cfg init evs) :=
  run_induction cfg (fun s => Ctl s ∧ Book s ∧ Fifo s ∧ AckInv s) init ⟨ctl_init, book_init, fifo_init, ackInv_init⟩
    (fun _ e h => ⟨ctl_step cfg h.1 e, book_step h.1 h.2.1 e, fifo_step h.2.2.1 e, ackInv_step h.1 h.2.1 h.2.2.1 h.2.2.2 e⟩) evs

end ApiFu.C08
