/-
  C08 — helper lemmas: F-08c before fix 03: a sender blocked on the full buffer of a dead write loop stays blocked.
-/
import ApiFu.C08.LemmasSend
namespace ApiFu.C08

/-! ### F-08c before fix 03: a sender blocked on the full buffer of a dead write loop stays blocked -/

/-- The read loop sits in `sendMessage` on a full buffer, the write loop has returned, and
    `sendMessage` does not select on `writeLoopDone` (the code before fix 03). -/
def StuckReader (cfg : Cfg) (s : Sys) : Prop :=
  cfg.sendFix = false ∧ writerGone s = true ∧ cfg.cap ≤ s.outgoing.length ∧ s.handlerClosed = false ∧
  ∃ f rest fc tc, s.reader = .sending (f :: rest) fc tc

theorem trySend_full {cfg : Cfg} {s : Sys} (hf : cfg.sendFix = false) (hc : cfg.cap ≤ s.outgoing.length) (f : SFrame) :
    trySend cfg s f = (s, .blocked) := by
  unfold trySend
  simp [hf, Nat.not_lt.mpr hc]

theorem stuck_step {cfg : Cfg} {s : Sys} (h : StuckReader cfg s) (e : Ev) : StuckReader cfg (stepS cfg s e) := by
  obtain ⟨hf, hg, hc, hcl, f, rest, fc, tc, hr⟩ := h
  have keep : ∀ s' : Sys, s'.writer = s.writer → s'.outgoing = s.outgoing → s'.handlerClosed = s.handlerClosed →
      s'.reader = s.reader → StuckReader cfg s' := by
    intro s' h1 h2 h3 h4
    refine ⟨hf, ?_, by rw [h2]; exact hc, by rw [h3]; exact hcl, f, rest, fc, tc, by rw [h4]; exact hr⟩
    unfold writerGone at *; rw [h1]; exact hg
  have self : StuckReader cfg s := ⟨hf, hg, hc, hcl, f, rest, fc, tc, hr⟩
  unfold stepS
  cases e with
  | client f' => simp [hr]; exact self
  | source g e =>
    show StuckReader cfg (sourceStep s g e)
    unfold sourceStep
    split
    · exact keep _ rfl rfl rfl rfl
    · split
      · exact self
      · split
        · exact keep _ rfl rfl rfl rfl
        · exact self
  | readerStep =>
    simp only [hr]
    unfold pump
    rw [trySend_full hf hc]
    exact keep _ rfl rfl rfl hr.symm
  | writerStep pick =>
    show StuckReader cfg (writerStep s pick)
    unfold writerStep
    unfold writerGone at hg
    cases hw : s.writer with
    | loop => rw [hw] at hg; cases hg
    | draining c => rw [hw] at hg; cases hg
    | closeWait => rw [hw] at hg; cases hg
    | exited => simp only [hr]; simp; exact self
    | finished => exact self
  | subTaskStep g =>
    show StuckReader cfg (subTaskStep cfg s g)
    unfold subTaskStep
    split
    · exact self
    · split
      · split
        · exact keep _ rfl rfl rfl rfl
        · exact self
      · rw [trySend_full hf hc]; exact self
      · rw [trySend_full hf hc]; exact self
      · exact self
  | netDrop => exact keep _ rfl rfl rfl rfl
  | serverClose =>
    simp only []
    split
    · have b := beginClosing_same (if s.registered = true then emit { s with registered := false } Out.deregistered else s) 1000
      apply keep
      · show (beginClosing _ 1000).writer = _; rw [b.2.2.2.2.2.1]; split <;> rfl
      · show (beginClosing _ 1000).outgoing = _; rw [b.2.2.2.2.2.2.1]; split <;> rfl
      · show (beginClosing _ 1000).handlerClosed = _
        unfold beginClosing; split <;> (split <;> rfl)
      · show (beginClosing _ 1000).reader = _; rw [b.2.1]; split <;> rfl
    · simp [hr]; exact self
    · exact self

/-- **blocked_sender_forever** (F-08c, the code before fix 03): from a state in which the read loop
    is blocked in `sendMessage` on a full buffer after the write loop has returned, no schedule
    ever reaches Closed: HandleClose never runs, so no source is stopped and the connection stays
    registered; the read loop and the goroutine waiting in `finishClosing` remain. -/
theorem stuck_run {cfg : Cfg} {s : Sys} (h : StuckReader cfg s) (evs : List Ev) : StuckReader cfg (run cfg s evs) := by
  induction evs generalizing s with
  | nil => exact h
  | cons e es ih => exact ih (stuck_step h e)

end ApiFu.C08
