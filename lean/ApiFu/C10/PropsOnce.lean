/-
  C10 — "appears exactly once": the clause of the property statement about the MEMBERS of a type
  and of a directive. `describe_exact` (Props.lean) says the result is the comprehension over the
  visible schema and `describe_types_names_perm` that every visible type is listed once; here: within
  every listed type each field, each argument of a field, each input field, each enum value, each
  interface and each possible type is listed once, and so is every directive and each of its
  arguments — for every accepted schema and every request feature set.
-/
import ApiFu.C10.Props

namespace ApiFu.C10

theorem namedRef_injective {ι : Type} (d : SchemaDef ι) : Function.Injective (namedRef d) := by
  intro a b h
  simp only [namedRef, refData, RefD.named.injEq] at h
  exact h.2

theorem nodup_map_of_injective {α β : Type} {f : α → β} (hinj : Function.Injective f) :
    ∀ {l : List α}, l.Nodup → (l.map f).Nodup := by
  intro l
  induction l with
  | nil => intro _; exact List.nodup_nil
  | cons a as ih =>
    intro h
    rw [List.nodup_cons] at h
    simp only [List.map_cons, List.nodup_cons, List.mem_map, not_exists, not_and]
    refine ⟨?_, ih h.2⟩
    intro b hb hab
    exact h.1 (hinj hab ▸ hb)

theorem map_name_fieldData {ι : Type} (d : SchemaDef ι) (fs : List (FieldDef ι)) :
    (fs.map (fieldData d)).map (·.name) = fs.map (·.name) := by
  simp [List.map_map, Function.comp_def, fieldData]

theorem map_name_inputValueData {ι : Type} (d : SchemaDef ι) (ivs : List (InputValueDef ι)) :
    (ivs.map (inputValueData d)).map (·.name) = ivs.map (·.name) := by
  simp [List.map_map, Function.comp_def, inputValueData]

theorem map_name_inputValueData0 {ι : Type} (d : SchemaDef ι) (ivs : List (InputValueDef0 ι)) :
    (ivs.map (inputValueData0 d)).map (·.name) = ivs.map (·.name) := by
  simp [List.map_map, Function.comp_def, inputValueData0]

theorem map_name_enumValueData {ι : Type} (vs : List (EnumValueDef ι)) :
    (vs.map enumValueData).map (·.name) = vs.map (·.name) := by
  simp [List.map_map, Function.comp_def, enumValueData]

/-- Each member list of one listed type has no name twice. -/
structure MembersOnce (t : TypeD) : Prop where
  fields : ∀ fs, t.fields = some fs → (fs.map (·.name)).Nodup
  args : ∀ fs, t.fields = some fs → ∀ f ∈ fs, (f.args.map (·.name)).Nodup
  inputFields : ∀ ivs, t.inputFields = some ivs → (ivs.map (·.name)).Nodup
  enumValues : ∀ vs, t.enumValues = some vs → (vs.map (·.name)).Nodup
  interfaces : ∀ is, t.interfaces = some is → is.Nodup
  possibleTypes : ∀ ps, t.possibleTypes = some ps → ps.Nodup

/-- **introspect_members_once** — in the introspection result of an accepted schema, for every
    request feature set: within each listed type every field name, every argument name of a field,
    every input-field name, every enum-value name, every interface and every possible type occurs
    once. (With `describe_exact`, which gives the contents, and `describe_types_names_perm`, which
    gives the types: "each type, field, argument, input field, enum value, interface and union
    membership … appears exactly once with the configured contents".) -/
theorem introspect_members_once {S : Schema} (h : Accepted S) (F : List String) :
    ∀ t ∈ (introspect S F).types, MembersOnce t := by
  have hf := facts_of_accepted h
  rw [describe_exact h F]
  intro td htd
  simp only [describe] at htd
  rw [mem_sortTypes] at htd
  obtain ⟨t, ht, rfl⟩ := List.mem_map.mp htd
  simp only [visible, List.mem_map, List.mem_filter] at ht
  obtain ⟨t0, ⟨ht0, _⟩, rfl⟩ := ht
  have hfields : ((restrict S F t0).fields.map (·.name)).Nodup := by
    simp only [restrict]
    exact (hf.fieldsNodup t0 ht0).sublist ((List.filter_sublist).map _)
  have hifaces : (restrict S F t0).ifaces.Nodup := by
    simp only [restrict]
    exact (hf.ifacesNodup t0 ht0).sublist List.filter_sublist
  refine ⟨?_, ?_, ?_, ?_, ?_, ?_⟩
  · intro fs hfs
    simp only [describeType] at hfs
    split at hfs
    · cases hfs; rw [map_name_fieldData]; exact hfields
    · cases hfs
  · intro fs hfs f hfm
    simp only [describeType] at hfs
    split at hfs
    · cases hfs
      obtain ⟨f0, hf0, rfl⟩ := List.mem_map.mp hfm
      simp only [fieldData]
      rw [map_name_inputValueData]
      have hf0' : f0 ∈ t0.fields := by
        simp only [restrict] at hf0
        exact (List.mem_filter.mp hf0).1
      exact hf.argsNodup t0 ht0 f0 hf0'
    · cases hfs
  · intro ivs hivs
    simp only [describeType] at hivs
    split at hivs
    · cases hivs; rw [map_name_inputValueData]; exact hf.inputsNodup t0 ht0
    · cases hivs
  · intro vs hvs
    simp only [describeType] at hvs
    split at hvs
    · cases hvs; rw [map_name_enumValueData]; exact hf.valuesNodup t0 ht0
    · cases hvs
  · intro is his
    simp only [describeType] at his
    split at his
    · cases his; exact nodup_map_of_injective (namedRef_injective _) hifaces
    · cases his
  · intro ps hps
    simp only [describeType] at hps
    split at hps
    · cases hps
      exact nodup_map_of_injective (namedRef_injective _) ((sortNames_perm _).nodup_iff.mpr (implementers_nodup hf F _))
    · split at hps
      · cases hps
        exact nodup_map_of_injective (namedRef_injective _) (hf.membersNodup t0 ht0)
      · cases hps

/-- **introspect_directives_once** — every directive is listed once, and within a directive every
    argument once. -/
theorem introspect_directives_once {S : Schema} (h : Accepted S) (F : List String) :
    ((introspect S F).directives.map (·.name)).Nodup ∧
      ∀ d ∈ (introspect S F).directives, (d.args.map (·.name)).Nodup := by
  have hf := facts_of_accepted h
  rw [describe_exact h F]
  simp only [describe, visible, List.map_map]
  constructor
  · have : (S.defn.directives.map ((fun x : DirectiveD => x.name) ∘ directiveData S.defn ∘ visibleDirective S.defn F))
        = S.defn.directives.map (·.name) := by
      apply List.map_congr_left
      intro dd _
      rfl
    rw [this]
    exact hf.dirsNodup
  · intro d hd
    obtain ⟨dd, hdd, rfl⟩ := List.mem_map.mp hd
    simp only [Function.comp, directiveData, visibleDirective]
    rw [map_name_inputValueData0]
    exact (hf.dirArgsNodup dd hdd).sublist ((List.filter_sublist).map _)

/-- Non-vacuity: the witness schema of Props.lean is accepted, so both theorems apply to it. -/
example : ∀ t ∈ (introspect witnessOk ["x"]).types, MembersOnce t :=
  introspect_members_once (by unfold Accepted; decide) ["x"]

end ApiFu.C10
