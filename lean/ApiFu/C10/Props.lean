/-
  C10 — property theorems (placeholder while the driver is brought up).
-/
import ApiFu.C10.Model

namespace ApiFu.C10

end ApiFu.C10
