/-
  C10 — property theorems.

  Reading guide. `S : Schema` is what the real `schema.New` returned, abstracted: the definition
  (named types by name in a table) and the two registries. `Accepted S` is the invariant of
  `schema.New`'s result the resolvers rely on (Model.lean `accepted`; the harness evaluates it on
  every real schema). `F` is the request's feature set. `introspect S F` is the model of the
  standard introspection query (Model.lean), `visible S F` / `describe` the specification
  (Spec.lean).
-/
import ApiFu.C10.Lemmas
import ApiFu.C10.LiteralLemmas

namespace ApiFu.C10

/-! ## Introspection describes the visible schema completely and exactly -/

/-- **describe_exact** — for every accepted schema and every request feature set, what the
    introspection resolvers return (types listed from the registry and filtered by the request's
    features, fields filtered by features, interfaces and possible types filtered by features,
    `possibleTypes` of an interface read from the implementation registry) is exactly the
    description of the visible schema: each visible type once, each of its visible fields,
    arguments, input fields, enum values, interfaces and members once with the configured contents,
    `possibleTypes` of an interface = the visible object types that declare it. -/
theorem describe_exact {S : Schema} (h : Accepted S) (F : List String) :
    introspect S F = describe S.defn (visible S F) := by
  have hf := facts_of_accepted h
  unfold introspect describe
  have htypes :
      sortTypes ((((S.namedTypes.filterMap S.defn.lookup).filter (fun t => subsetOf t.feat.keys F))).map (typeData S F))
        = sortTypes ((visible S F).types.map (describeType S.defn (visible S F))) := by
    have hperm := (listed_perm hf F).map (typeData S F)
    have hpoint : (S.defn.types.filter (fun t => visibleName S F t.name)).map (typeData S F)
        = (visible S F).types.map (describeType S.defn (visible S F)) := by
      simp only [visible, List.map_map]
      apply List.map_congr_left
      intro t ht
      have ht' := List.mem_filter.mp ht
      exact typeData_eq_describeType hf F ht'.1 ht'.2
    rw [← hpoint]
    apply sortTypes_eq_of_perm hperm
    have hnames : (((S.namedTypes.filterMap S.defn.lookup).filter (fun t => subsetOf t.feat.keys F)).map (typeData S F)).map (·.name)
        = ((S.namedTypes.filterMap S.defn.lookup).filter (fun t => subsetOf t.feat.keys F)).map (·.name) := by
      simp [List.map_map, Function.comp_def, typeData_name]
    rw [hnames]
    have hp2 := (listed_perm hf F).map (·.name)
    rw [hp2.nodup_iff]
    exact hf.tableNodup.sublist ((List.filter_sublist).map _)
  show ({ queryType := S.defn.query, mutationType := visibleRoot S.defn F S.defn.mutation,
          subscriptionType := visibleRoot S.defn F S.defn.subscription,
          types := sortTypes ((((S.namedTypes.filterMap S.defn.lookup).filter (fun t => subsetOf t.feat.keys F))).map (typeData S F)),
          directives := S.defn.directives.map (fun dd => directiveData S.defn (visibleDirective S.defn F dd)) } : IntroData) = _
  rw [htypes]
  have hdirs : (visible S F).directives.map (directiveData S.defn)
      = S.defn.directives.map (fun dd => directiveData S.defn (visibleDirective S.defn F dd)) := by
    simp [visible, List.map_map, Function.comp_def]
  rw [hdirs]
  rfl


/-- **visible_closed** — the schema visible to a request is closed under references: the type of
    every visible field, argument and input field, every listed interface, every union member and
    every visible directive argument type is itself visible. This is where the feature constraints of
    `shallowValidate`, fix patch 04 (interfaces / possible types filtered) and fix C13/05 (a directive
    argument of a gated type is hidden) are needed; `prefix_listing_not_closed_gated_directive_argument`
    below shows that the unfiltered directive listing of the code before C13/05 was not closed (F-10g). -/
theorem visible_closed {S : Schema} (h : Accepted S) (F : List String) :
    ClosedV (visible S F) :=
  visible_closed' h F

/-- **describe_types_once** — the description lists exactly the types of the visible schema, each
    once (a permutation of the visible schema's type names). -/
theorem describe_types_names_perm (D V : SchemaDef Unit) :
    ((describe D V).types.map (·.name)).Perm (V.types.map (·.name)) := by
  unfold describe
  have := (sortTypes_perm (V.types.map (describeType D V))).map (·.name)
  simpa [List.map_map, Function.comp_def, describeType_name] using this


/-- **describe_refs_resolve** — in the description of a closed visible schema every type reference
    (field types, argument and input-field types, interfaces, possible types, directive argument
    types; at any wrapper depth the query reaches) names a listed type. -/
theorem describe_refs_resolve {D V : SchemaDef Unit} (hc : ClosedV V) {r : RefD}
    (hr : r ∈ (describe D V).refs) {n : String} (hn : r.leaf? = some n) :
    n ∈ (describe D V).types.map (·.name) := by
  rw [(describe_types_names_perm D V).mem_iff]
  simp only [IntroData.refs, List.mem_append, List.mem_flatMap] at hr
  rcases hr with ⟨x, hx, hr⟩ | ⟨dd, hdd, hr⟩
  · simp only [describe] at hx
    have hx' := mem_sortTypes.mp hx
    simp only [List.mem_map] at hx'
    obtain ⟨t, ht, rfl⟩ := hx'
    exact describeType_refs hc ht hr hn
  · simp only [describe, List.mem_map] at hdd
    obtain ⟨d0, hd0, rfl⟩ := hdd
    simp only [DirectiveD.refs, directiveData, List.mem_flatMap, List.mem_map] at hr
    obtain ⟨ivd, ⟨a, ha, rfl⟩, hr⟩ := hr
    simp only [InputValueD.refs, inputValueData0, List.mem_singleton] at hr
    subst hr
    rw [refData_leaf _ _ _ hn]
    exact hc.2 d0 hd0 a ha


/-! ### F-10g: the witness -/

def noDirs : DirList Unit := { id := (), items := [] }
def noFeat : Feat Unit := { id := (), keys := [] }

def mkType (k : Kind) (n : String) (feat : List String) (fields : List (FieldDef Unit))
    (values : List (EnumValueDef Unit)) : TypeDef Unit :=
  { kind := k, name := n, description := "", self := (), feat := { id := (), keys := feat }, dirs := noDirs,
    fieldsId := (), fields := fields, ifacesId := (), ifaces := [], membersId := (), members := [],
    valuesId := (), values := values, inputsId := (), inputs := [] }

def mkField (n : String) (t : TRef) : FieldDef Unit :=
  { name := n, description := "", self := (), type := { wid := (), ref := t }, argsId := (), args := [],
    deprecation := "", feat := noFeat, dirs := noDirs }

/-- `enum E @features(x) { A }`, `type Query { b: Int }`, `directive @tag(e: E) on FIELD`. -/
def witnessG : Schema :=
  { defn :=
      { types := [mkType .enum "E" ["x"] [] [{ name := "A", description := "", self := (), deprecation := "", dirs := noDirs }],
                  mkType .scalar "Int" [] [] [],
                  mkType .object "Query" [] [mkField "b" (.named "Int")] []],
        query := some "Query", mutation := none, subscription := none, additionalId := (), additional := [],
        directivesId := (),
        directives := [{ name := "tag", description := "", self := (), locsId := (), locs := ["FIELD"], argsId := (),
                         args := [{ name := "e", description := "", self := (), type := { wid := (), ref := .named "E" }, default := none }] }] },
    namedTypes := ["E", "Query", "Int"],
    impls := [] }

/-- The witness schema is accepted (it satisfies everything `schema.New` establishes). -/
theorem witnessG_accepted : Accepted witnessG := by
  unfold Accepted
  decide

example : (registries witnessG.defn).names = ["E", "Query", "Int"] := by decide

/-- What a request saw before fix C13/05: the visible schema with the directives listed with all
    their arguments. -/
def visiblePrefix (S : Schema) (F : List String) : SchemaDef Unit :=
  { visible S F with directives := S.defn.directives }

/-- **F-10g witness (pre-fix listing)** — with the directive arguments listed unfiltered, as before
    fix C13/05, the visible schema is not closed: for the request without feature `x` the directive
    `@tag(e: E)` names `E`, which is not visible. With the fix (`visible`) it is closed
    (`visible_closed`), and `@tag` is listed without that argument. -/
theorem prefix_listing_not_closed_gated_directive_argument : ¬ ClosedV (visiblePrefix witnessG []) := by
  intro hc
  have := hc.2 _ (List.mem_cons_self) _ (List.mem_cons_self)
  revert this
  decide

example : (visible witnessG []).directives.map (fun dd => dd.args.map (·.name)) = [[]]
    ∧ (visible witnessG ["x"]).directives.map (fun dd => dd.args.map (·.name)) = [["e"]] := by decide

/-- Non-vacuity of `describe_exact` / `visible_closed`: the same schema without the directive
    satisfies both hypotheses (and its enum `E` is hidden from the request without feature `x`). -/
def witnessOk : Schema := { witnessG with defn := { witnessG.defn with directives := [] } }

example : Accepted witnessOk
    ∧ (visible witnessOk []).types.map (·.name) = ["Int", "Query"]
    ∧ (visible witnessOk ["x"]).types.map (·.name) = ["E", "Int", "Query"] := by
  unfold Accepted
  decide

/-! ## Clone -/

/-- The schema `schema.New` builds from a Go definition `d` (heap model): the registries of the
    definition with identities erased (the model's `registries`, tied to the real `schema.New` by
    the harness on every case). -/
def newSchema (d : GDef) : Schema :=
  { defn := d.erase, namedTypes := (registries d.erase).names, impls := (registries d.erase).impls }

/-- **clone_preserves_contents** — `Clone` changes identities only: with identities erased the
    clone *is* the original (no description, default value, deprecation reason, feature, location,
    applied directive, wrapper or member is lost or altered). -/
theorem clone_preserves_contents (b : Nat) (d : GDef) : (cloneDef b d).erase = d.erase :=
  erase_cloneDef b d

/-- **clone_same_introspection** — a cloned definition introspects identically to its original,
    for every request feature set. -/
theorem clone_same_introspection (b : Nat) (d : GDef) (F : List String) :
    introspect (newSchema (cloneDef b d)) F = introspect (newSchema d) F := by
  unfold newSchema
  rw [erase_cloneDef]

/-- The same for whatever registries are observed (they are functions of the erased definition). -/
theorem clone_same_introspection_any (b : Nat) (d : GDef) (reg : List String) (impls : List (String × List String))
    (F : List String) :
    introspect { defn := (cloneDef b d).erase, namedTypes := reg, impls := impls } F
      = introspect { defn := d.erase, namedTypes := reg, impls := impls } F := by
  rw [erase_cloneDef]

/-- **clone_fresh** — every mutable container of the clone (every pointed-to struct, map and slice;
    the built-in scalar singletons exempt) was allocated by `Clone`: its identity is at or above the
    allocation base. Needs that `Inspect` reaches every named type of the table (`InspectClosed`). -/
theorem clone_fresh {b : Nat} {d : GDef} (hc : InspectClosed d) : ∀ n ∈ (cloneDef b d).ids, b ≤ n :=
  ids_cloneDef hc

/-- **clone_disjoint** — the clone shares no mutable container with its original: when the
    allocation base lies above every identity of the original (allocation returns fresh memory),
    no identity of the clone is an identity of the original. (Before fix patch 01 this was false:
    `RequiredFeatures` maps, `Locations`, applied-directive `Arguments` and enum-value `Directives`
    kept their identities.) -/
theorem clone_disjoint {b : Nat} {d : GDef} (hb : ∀ i ∈ d.ids, i < b) (hc : InspectClosed d) :
    ∀ n ∈ (cloneDef b d).ids, n ∉ d.ids := by
  intro n hn hmem
  have h1 := ids_cloneDef hc n hn
  have h2 := hb n hmem
  omega

/-! ## Rebuilding a schema from the introspection result -/

/-- **rebuild_introspect** (`rebuild_same_verdicts_partial`, see below) — for an accepted schema
    whose wrapper chains have at most seven wrappers
    (what query.go selects), whose directive locations are the specification's and whose root types
    the request can see (`RebuildGuards`): `GetSchemaDefinition` applied to the introspection result
    succeeds and returns **exactly** `forgetDef (visible S F)` — the visible schema with its types in
    name order and with nothing changed except what `forgetDef` (Spec.lean) removes: default values
    (F-10a), required features, applied directives, callbacks / enum Go values (not modelled), and
    `AdditionalTypes` (now: the objects that implement interfaces). Names, kinds, descriptions,
    fields, arguments, input fields, wrapper chains, enum values, deprecation reasons, interfaces,
    union members, directives with locations and arguments all survive. -/
theorem rebuild_introspect {S : Schema} (h : Accepted S) {F : List String}
    (hg : RebuildGuards S F) : rebuild (introspect S F) = .ok (forgetDef (visible S F)) := by
  rw [describe_exact h F]
  exact rebuild_describe _ _ (rebuildOk_visible h hg)

/-- **rebuild_same_verdicts_partial**. Full statement (not proved, and false on the unchanged code
    because of F-10a): `∀ D, validate (New (rebuild (introspect S ⊤))) D = [] ↔ validate S D = []`.
    It needs a model of the validator (property C04) on top of this one. What is proved is the
    definition-level half: with every feature enabled nothing of the schema is hidden
    (`visible S F` keeps every registered type and field) and the rebuilt definition is that schema
    minus exactly the attributes `forgetDef` names; so a verdict can only differ through a forgotten
    attribute, and of those only default values are read by the validator (required arguments /
    input fields, nullable variable in a defaulted non-null position): the harness's F-10a
    classifier checks precisely this on every differing verdict. -/
theorem rebuild_same_verdicts_partial {S : Schema} (h : Accepted S) {F : List String}
    (hg : RebuildGuards S F)
    (hall : ∀ t ∈ S.defn.types, subsetOf t.feat.keys F = true ∧ ∀ f ∈ t.fields, subsetOf f.feat.keys F = true) :
    rebuild (introspect S F) = .ok (forgetDef (visible S F))
    ∧ (visible S F).types.map (·.name) = (S.defn.types.filter (fun t => S.namedTypes.contains t.name)).map (·.name)
    ∧ ∀ t ∈ S.defn.types, (restrict S F t).fields = t.fields := by
  have hf := facts_of_accepted h
  refine ⟨rebuild_introspect h hg, ?_, ?_⟩
  · rw [visible_types_names]
    congr 1
    apply List.filter_congr
    intro t ht
    simp [visibleName, featuresOf_of_mem hf.tableNodup ht, (hall t ht).1]
  · intro t ht
    simp only [restrict]
    rw [List.filter_eq_self]
    intro f hfm
    exact (hall t ht).2 f hfm

/-- **type_reference_survives** — a wrapper chain of at most `k` wrappers over a listed type, as
    selected by a `TypeRef` fragment with `k` nested `ofType`, is read back by `TypeData.getType`
    as exactly the same chain (list / non-null order included). -/
theorem type_reference_survives {ι : Type} (d : SchemaDef ι) (types : List (String × Kind)) (r : TRef) (k : Nat)
    (hd : r.depth ≤ k) (hl : types.any (fun p => p.1 == r.leaf) = true) :
    getType types (refData d k r) = .ok r :=
  getType_refData d types r k hd hl

/-- **type_reference_truncated** — the guard is sharp: with more wrappers than the query selects
    (more than seven for the standard query) the reference comes back cut off and the rebuild fails
    ("null ofType for list type"); query.go documents this. -/
theorem type_reference_truncated {ι : Type} (d : SchemaDef ι) (types : List (String × Kind)) (r : TRef) (k : Nat)
    (hd : k < r.depth) : ∃ e, getType types (refData d k r) = .error e :=
  getType_truncated d types r k hd

/-- Non-vacuity of `rebuild_introspect`: the witness schema meets the guards (for the request with
    feature `x`, and for the one without). -/
example : RebuildGuards witnessOk ["x"] ∧ RebuildGuards witnessOk [] :=
  ⟨⟨by decide, by decide, by decide, by decide, by decide⟩, ⟨by decide, by decide, by decide, by decide, by decide⟩⟩

/-! ## Default values

  The parse/coerce side is the specification in Literal.lean (a literal parser and `CoerceLiteral`
  written from the June-2018 grammar and coercion rules for this purpose); the harness discharges
  the same round trip against the real `parser.ParseValue` + `schema.CoerceLiteral` on every printed
  default. Covered value classes (`covered`, `nf`): null, Int (32-bit), ID (int or string), String
  (every code point up to U+FFFF), Boolean, enum values, lists and input objects of these, in
  coercion normal form. Not covered: Float (its text is a parameter of the model), custom scalars
  (application callbacks), strings with code points above U+FFFF (finding F-10b, witness below). -/

/-- **string_roundtrip** — the text `marshalValue` prints for a string (Go's JSON escaping: `\"`,
    `\\`, `\n`, `\r`, `\t`, `\b`, `\f`, `\u00XX` for other control characters, `\u003c` `\u003e`
    `\u0026` `\u2028` `\u2029`, everything else raw) lexes, as a GraphQL quoted string followed by
    anything, back to exactly the string — for every string whose code points are at most U+FFFF
    (`Char.ofNat 34` is the closing quote). -/
theorem string_roundtrip (s : String) (h : ∀ c ∈ s.toList, c.toNat ≤ 0xFFFF) (rest : List Char) :
    lexString (jsonEscape s.toList ++ Char.ofNat 34 :: rest) [] = some (s.toList, rest) := by
  have := lexString_jsonEscape s.toList h rest []
  simpa using this

/-- **F-10b negation witness** — a default string containing U+1F600 is printed raw and that text
    is not a literal (U+1F600 is not a June-2018 SourceCharacter), whatever the fuel. -/
theorem astral_default_not_a_literal (fuel : Nat) :
    parseLit fuel (jsonString (String.ofList [Char.ofNat 0x1F600])).toList = none := by
  cases fuel <;> rfl

/-- **default_parses** — for every value of the covered classes, the text `marshalValue` prints is
    a literal: it parses (with any sufficient fuel, followed by any terminator) to the literal that
    denotes the value, consuming exactly the printed text. -/
theorem default_parses {ι : Type} (d : SchemaDef ι) (hn : NamesOk d) (t : TRef) (v : Value) (s : String)
    (hc : covered v = true) (hm : marshalValue d t v = some s) (fuel : Nat) (hf : need v ≤ fuel)
    (rest : List Char) (hr : Term rest) :
    parseLit fuel (s.toList ++ rest) = some (litOf v, rest) :=
  parse_marshal d hn v t s fuel rest hc hm hf hr

/-- **default_roundtrip** — each printed default value is a valid GraphQL literal that coerces back
    to the configured default: if `v` is a value of type `t` in coercion normal form (what
    `CoerceLiteral` can produce; `nf`) of the covered classes and `marshalValue` prints `s` for it,
    then `s` parses as one literal (nothing left over) and that literal coerces to `v` at type `t`. -/
theorem default_roundtrip {ι : Type} (d : SchemaDef ι) (hn : NamesOk d) (t : TRef) (v : Value) (s : String)
    (hc : covered v = true) (hnf : nf d t v = true) (hm : marshalValue d t v = some s)
    (fuel : Nat) (hf : need v ≤ fuel) :
    ∃ lit, parseLit fuel s.toList = some (lit, []) ∧ coerceLit d t lit = some v := by
  refine ⟨litOf v, ?_, coerce_litOf d v t hnf⟩
  have := parse_marshal d hn v t s fuel [] hc hm hf (by intro c hc; simp at hc)
  simpa using this

/-- **default_value_complete** — for an argument / input field / directive argument whose
    configured default `v` is of the covered classes and in coercion normal form (nulls anywhere a
    nullable position allows — fix patch 03 —, nested lists and input objects): the `defaultValue`
    resolver does not fail, it prints a text, and that text is a literal that coerces back to `v`.
    (`BuiltinsPresent`: Int, ID, String, Boolean are in the type table as scalars.) -/
theorem default_value_complete {ι : Type} (d : SchemaDef ι) (hn : NamesOk d) (hb : BuiltinsPresent d)
    (t : TRef) (v : Value) (hc : covered v = true) (hnf : nf d t v = true) :
    ∃ s, defaultData d t (some v) = .text s
      ∧ ∀ fuel, need v ≤ fuel → ∃ lit, parseLit fuel s.toList = some (lit, []) ∧ coerceLit d t lit = some v := by
  obtain ⟨s, hs⟩ := marshal_defined d hb v t hnf
  refine ⟨s, by simp [defaultData, hs], ?_⟩
  intro fuel hf
  exact default_roundtrip d hn t v s hc hnf hs fuel hf

/-- Non-vacuity of `default_roundtrip`: `[null, "a\"b\n<"]` at type `[String]` over the witness
    schema extended with `String`. -/
example :
    let d : SchemaDef Unit := { witnessOk.defn with types := mkType .scalar "String" [] [] [] :: witnessOk.defn.types }
    let v : Value := .list [.null, .str "a\"b\n<"]
    namesOk d = true ∧ covered v = true ∧ nf d (.list (.named "String")) v = true
      ∧ marshalValue d (.list (.named "String")) v = some "[null, \"a\\\"b\\n\\u003c\"]" := by
  decide

end ApiFu.C10
