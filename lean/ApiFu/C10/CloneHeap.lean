/-
  C10, Clone clause over an explicit heap: `SchemaDefinition.Clone` (graphql/schema/deep_copy.go) as a
  copy of a pointer graph.

  `Model.lean` describes a definition as a tree of records whose containers carry identities, and
  `cloneDef` renumbers the identities. That model cannot express a definition in which two pointers
  lead to one struct, a cycle, or a struct of the clone that points back into the original. This
  file models the definition as what it is in Go: a HEAP (addresses → nodes), every pointer, map and
  slice being an address, with arbitrary sharing and cycles.

  Nodes. `named n l kids`: one of the six named-type structs (`*ObjectType`, …, `*ScalarType`) with
  `TypeName() = n`; `inner l kids`: every other pointed-to struct, map or slice of a definition
  (`*SchemaDefinition`, `map[string]*FieldDefinition`, `*FieldDefinition`, `*ListType`, `*NonNullType`,
  `map[string]*InputValueDefinition`, `*InputValueDefinition`, `[]*Directive`, `*Directive`,
  `*DirectiveDefinition`, `[]*Argument`, `*Argument`, `[]DirectiveLocation`, `FeatureSet`,
  `[]*ObjectType`, `[]*InterfaceType`, `[]NamedType`, `map[string]*EnumValueDefinition`,
  `*EnumValueDefinition`). `l` stands for everything in the node that is not a pointer (names, keys,
  descriptions, deprecation reasons, locations, feature names, and the opaque values and function
  values, which a clone shares by design); `kids` are the pointers it holds, nil pointers left out.

  deep_copy.go in these terms.
  * Pass 1 (`Inspect` + `newNamedTypes[name] = &copy`): a list `L` of (name, address) — the named
    types the traversal collected. The address of the copy of the i-th entry is `base + i`
    (`tblOf`). Which types `Inspect` reaches is a parameter here: the theorems hold for EVERY `L`, so
    also for a traversal that misses types (finding F-10i, seeded change C10-24) — what is missed
    shows up as `Kept` below. Built-in scalars are not in `L` (`fixTypePointer` tests `BuiltInTypes`
    before the table).
  * `fixTypePointer` / `fixNamedTypePointers` (`fixPtr`): a pointer to a named type is looked up by
    NAME in the table — found: the copy; not found (built-in, or not collected by pass 1): the
    original pointer is kept; a pointer to anything else is followed, the node is re-allocated
    (`make`, `newValue := *v`, `NewListType`, …) with its pointers fixed in the same way. Each PATH to
    an inner node gets an allocation of its own (a `*DirectiveDefinition` applied in three places is
    copied three times): the inner part is unfolded, only named types are memoised.
  * Pass 2 (`pass2`): for each collected type, the copy gets the fixed pointers of the original.
  * The `*SchemaDefinition` itself is an inner node (`ret := &SchemaDefinition{}` + fixed members).
  The recursion of `fixNamedTypePointers` does not terminate on an inner cycle (a directive
  definition one of whose arguments carries a directive with that same definition: Go overflows its
  stack); `fuel` bounds the depth and every theorem is about runs that return (`= some …`).

  Core Lean only.
-/

namespace ApiFu.C10.CloneHeap

/-- Pointwise relation of two lists of equal length. -/
inductive All2 {α β : Type} (R : α → β → Prop) : List α → List β → Prop
  | nil : All2 R [] []
  | cons {a b as bs} : R a b → All2 R as bs → All2 R (a :: as) (b :: bs)

theorem All2.map_eq {α β γ : Type} {R : α → β → Prop} {f : α → γ} {g : β → γ}
    (hR : ∀ a b, R a b → g b = f a) : ∀ {as bs}, All2 R as bs → bs.map g = as.map f := by
  intro as bs h
  induction h with
  | nil => rfl
  | cons h1 _ ih => simp [hR _ _ h1, ih]

theorem All2.mono {α β : Type} {R S : α → β → Prop} (hRS : ∀ a b, R a b → S a b) :
    ∀ {as bs}, All2 R as bs → All2 S as bs := by
  intro as bs h
  induction h with
  | nil => exact .nil
  | cons h1 _ ih => exact .cons (hRS _ _ h1) ih

inductive Node where
  | named (name : String) (lbl : String) (kids : List Nat)
  | inner (lbl : String) (kids : List Nat)
  deriving Repr, DecidableEq

def Node.kids : Node → List Nat
  | .named _ _ ks => ks
  | .inner _ ks => ks

/-- Addresses → nodes (`none`: nothing allocated there). -/
abbrev Heap := Nat → Option Node

/-- Allocator state: the heap and the next free address. -/
structure St where
  heap : Heap
  next : Nat

/-- `new(T)` / `make(...)`: the node is stored at the next free address. -/
def St.alloc (s : St) (n : Node) : Nat × St :=
  (s.next, { heap := fun a => if a = s.next then some n else s.heap a, next := s.next + 1 })

/-- Thread the allocator through a list of pointers. -/
def mapSt (f : Nat → St → Option (Nat × St)) : List Nat → St → Option (List Nat × St)
  | [], s => some ([], s)
  | a :: as, s =>
    match f a s with
    | none => none
    | some (a', s') =>
      match mapSt f as s' with
      | none => none
      | some (as', s'') => some (a' :: as', s'')

/-- `fixTypePointer` / `fixNamedTypePointers` on one pointer `a` of the original heap `src`. -/
def fixPtr (src : Heap) (tbl : String → Option Nat) : Nat → Nat → St → Option (Nat × St)
  | 0, _, _ => none
  | fuel + 1, a, s =>
    match src a with
    | none => none
    | some (.named n _ _) => some ((tbl n).getD a, s)
    | some (.inner l ks) =>
      match mapSt (fixPtr src tbl fuel) ks s with
      | none => none
      | some (ks', s') => some (s'.alloc (.inner l ks'))

/-- `newNamedTypes`: the copy of the i-th collected type lives at `b + i` (first entry of a name). -/
def tblOf : List (String × Nat) → Nat → String → Option Nat
  | [], _, _ => none
  | (m, _) :: rest, b, n => if m = n then some b else tblOf rest (b + 1) n

/-- Pass 2: the contents of the copies, in the order of `L`. -/
def pass2 (src : Heap) (tbl : String → Option Nat) (fuel : Nat) : List (String × Nat) → St → Option (List Node × St)
  | [], s => some ([], s)
  | (_, a) :: rest, s =>
    match src a with
    | some (.named n l ks) =>
      match mapSt (fixPtr src tbl fuel) ks s with
      | none => none
      | some (ks', s') =>
        match pass2 src tbl fuel rest s' with
        | none => none
        | some (nodes, s'') => some (.named n l ks' :: nodes, s'')
    | _ => none

/-- Store `nodes` at the addresses `b, b+1, …`. -/
def overlay : Nat → List Node → Heap → Heap
  | _, [], H => H
  | b, nd :: rest, H => fun x => if x = b then some nd else overlay (b + 1) rest H x

/-- `deepCopySchemaDefinition`: `h` the heap, `L` what pass 1 collected, `root` the
    `*SchemaDefinition`, `base` an address above everything allocated. Result: the address of the
    clone and the heap after the call. -/
def clone (fuel : Nat) (h : Heap) (L : List (String × Nat)) (root base : Nat) : Option (Nat × Heap) :=
  let tbl := tblOf L base
  match pass2 h tbl fuel L { heap := h, next := base + L.length } with
  | none => none
  | some (nodes, s1) =>
    match fixPtr h tbl fuel root s1 with
    | none => none
    | some (r', s2) => some (r', overlay base nodes s2.heap)

/-! ## Observations -/

/-- What can be seen from an address by following pointers and reading contents, to depth `k`
    (addresses themselves are not observable). Every function of a definition that is computed by
    following pointers — `schema.New`, the introspection resolvers — factors through `unfold`. -/
inductive Tree where
  | node (isNamed : Bool) (name lbl : String) (kids : List Tree)
  | cut
  | dangling
  deriving Repr

def unfold (H : Heap) : Nat → Nat → Tree
  | 0, _ => .cut
  | k + 1, a =>
    match H a with
    | none => .dangling
    | some (.named n l ks) => .node true n l (ks.map (unfold H k))
    | some (.inner l ks) => .node false "" l (ks.map (unfold H k))

/-- `x` is reachable from `r` by following pointers in `H`. -/
inductive Reach (H : Heap) (r : Nat) : Nat → Prop
  | refl : Reach H r r
  | step {x y n} : Reach H r x → H x = some n → y ∈ n.kids → Reach H r y

/-- `H2` has everything `H1` has, unchanged. -/
def Ext (H1 H2 : Heap) : Prop := ∀ x n, H1 x = some n → H2 x = some n

theorem Ext.refl (H : Heap) : Ext H H := fun _ _ h => h
theorem Ext.trans {H1 H2 H3 : Heap} (a : Ext H1 H2) (b : Ext H2 H3) : Ext H1 H3 := fun x n h => b x n (a x n h)

/-- A named type of the original that the table does not know (a built-in scalar singleton, or a
    type pass 1 did not collect): `fixTypePointer` returns the original pointer. -/
def Kept (h : Heap) (tbl : String → Option Nat) (e : Nat) : Prop :=
  ∃ n l ks, h e = some (.named n l ks) ∧ tbl n = none

/-- `a'` (in `H`) is the copy of `a` (in `h`). -/
inductive Sim (h : Heap) (tbl : String → Option Nat) (H : Heap) : Nat → Nat → Prop
  | named {a n l ks c} : h a = some (.named n l ks) → tbl n = some c → Sim h tbl H a c
  | kept {a n l ks} : h a = some (.named n l ks) → tbl n = none → Sim h tbl H a a
  | inner {a a' l ks ks'} : h a = some (.inner l ks) → H a' = some (.inner l ks') →
      All2 (Sim h tbl H) ks ks' → Sim h tbl H a a'

section Spec
variable (h : Heap) (tbl : String → Option Nat) (base len : Nat)

/-- An address a new node may hold: a new address, or a kept named type. -/
def OKAddr (y : Nat) : Prop := base ≤ y ∨ Kept h tbl y

/-- Invariant of the allocator state while the clone is built. -/
structure WF (s : St) : Prop where
  lo : base + len ≤ s.next
  fresh : ∀ x, s.next ≤ x → s.heap x = none
  reserved : ∀ x, base ≤ x → x < base + len → s.heap x = none
  old : ∀ x, x < base → s.heap x = h x
  newOK : ∀ x n, base ≤ x → s.heap x = some n → ∀ y ∈ n.kids, OKAddr h tbl base y

/-- What a step of the copy guarantees about its result. -/
def Good (a : Nat) (s : St) (a' : Nat) (s' : St) : Prop :=
  WF h tbl base len s' ∧ Ext s.heap s'.heap ∧ OKAddr h tbl base a' ∧ (∀ H, Ext s'.heap H → Sim h tbl H a a')

def GoodL (ks : List Nat) (s : St) (ks' : List Nat) (s' : St) : Prop :=
  WF h tbl base len s' ∧ Ext s.heap s'.heap ∧ (∀ y ∈ ks', OKAddr h tbl base y) ∧
    (∀ H, Ext s'.heap H → All2 (Sim h tbl H) ks ks')

theorem mapSt_spec {f : Nat → St → Option (Nat × St)}
    (hf : ∀ a s a' s', WF h tbl base len s → f a s = some (a', s') → Good h tbl base len a s a' s') :
    ∀ ks s ks' s', WF h tbl base len s → mapSt f ks s = some (ks', s') → GoodL h tbl base len ks s ks' s' := by
  intro ks
  induction ks with
  | nil =>
    intro s ks' s' hw he
    simp [mapSt] at he
    obtain ⟨rfl, rfl⟩ := he
    exact ⟨hw, Ext.refl _, by simp, fun _ _ => .nil⟩
  | cons a as ih =>
    intro s ks' s' hw he
    simp only [mapSt] at he
    cases hfa : f a s with
    | none => simp [hfa] at he
    | some p =>
      obtain ⟨a1, s1⟩ := p
      simp only [hfa] at he
      cases hm : mapSt f as s1 with
      | none => simp [hm] at he
      | some q =>
        obtain ⟨as1, s2⟩ := q
        simp only [hm, Option.some.injEq, Prod.mk.injEq] at he
        obtain ⟨rfl, rfl⟩ := he
        obtain ⟨hw1, he1, hok1, hs1⟩ := hf a s a1 s1 hw hfa
        obtain ⟨hw2, he2, hok2, hs2⟩ := ih s1 as1 s2 hw1 hm
        refine ⟨hw2, he1.trans he2, ?_, ?_⟩
        · intro y hy
          cases hy with
          | head => exact hok1
          | tail _ hy => exact hok2 y hy
        · intro H hH
          exact .cons (hs1 H (he2.trans hH)) (hs2 H hH)

theorem alloc_spec {s : St} (hw : WF h tbl base len s) (n : Node)
    (hk : ∀ y ∈ n.kids, OKAddr h tbl base y) :
    WF h tbl base len (s.alloc n).2 ∧ Ext s.heap (s.alloc n).2.heap ∧ base ≤ (s.alloc n).1 ∧
      (s.alloc n).2.heap (s.alloc n).1 = some n := by
  have hlo := hw.lo
  refine ⟨⟨?_, ?_, ?_, ?_, ?_⟩, ?_, ?_, ?_⟩
  · simp [St.alloc]; omega
  · intro x hx
    simp only [St.alloc] at hx ⊢
    have : x ≠ s.next := by omega
    simp [this]; exact hw.fresh x (by omega)
  · intro x h1 h2
    simp only [St.alloc]
    have : x ≠ s.next := by omega
    simp [this]; exact hw.reserved x h1 h2
  · intro x hx
    simp only [St.alloc]
    have : x ≠ s.next := by omega
    simp [this]; exact hw.old x hx
  · intro x m hx hm y hy
    simp only [St.alloc] at hm
    by_cases hxn : x = s.next
    · simp [hxn] at hm; subst hm; exact hk y hy
    · simp [hxn] at hm; exact hw.newOK x m hx hm y hy
  · intro x m hm
    simp only [St.alloc]
    by_cases hxn : x = s.next
    · rw [hxn, hw.fresh s.next (Nat.le_refl _)] at hm; cases hm
    · simp [hxn, hm]
  · simp [St.alloc]; omega
  · simp [St.alloc]

theorem fixPtr_spec (htbl : ∀ n c, tbl n = some c → base ≤ c) :
    ∀ fuel a s a' s', WF h tbl base len s → fixPtr h tbl fuel a s = some (a', s') →
      Good h tbl base len a s a' s' := by
  intro fuel
  induction fuel with
  | zero => intro a s a' s' _ he; simp [fixPtr] at he
  | succ fuel ih =>
    intro a s a' s' hw he
    simp only [fixPtr] at he
    cases hsa : h a with
    | none => simp [hsa] at he
    | some nd =>
      cases nd with
      | named n l ks =>
        simp only [hsa, Option.some.injEq, Prod.mk.injEq] at he
        obtain ⟨rfl, rfl⟩ := he
        cases ht : tbl n with
        | none =>
          simp only [Option.getD_none]
          exact ⟨hw, Ext.refl _, .inr ⟨n, l, ks, hsa, ht⟩, fun _ _ => .kept hsa ht⟩
        | some c =>
          simp only [Option.getD_some]
          exact ⟨hw, Ext.refl _, .inl (htbl n c ht), fun _ _ => .named hsa ht⟩
      | inner l ks =>
        simp only [hsa] at he
        cases hm : mapSt (fixPtr h tbl fuel) ks s with
        | none => simp [hm] at he
        | some q =>
          obtain ⟨ks1, s1⟩ := q
          simp only [hm, Option.some.injEq] at he
          obtain ⟨hw1, he1, hok1, hs1⟩ := mapSt_spec h tbl base len ih ks s ks1 s1 hw hm
          obtain ⟨hw2, he2, hb, hat⟩ := alloc_spec h tbl base len hw1 (.inner l ks1) hok1
          rw [he] at hw2 he2 hb hat
          simp only at hw2 he2 hb hat
          refine ⟨hw2, he1.trans he2, .inl hb, ?_⟩
          intro H hH
          exact .inner hsa (hH _ _ hat) (hs1 H (he2.trans hH))

/-- What pass 2 computed for one collected type. -/
def Filled (sEnd : St) (p : String × Nat) (nd : Node) : Prop :=
  ∃ n l ks ks', h p.2 = some (.named n l ks) ∧ nd = .named n l ks' ∧
    (∀ y ∈ ks', OKAddr h tbl base y) ∧ (∀ H, Ext sEnd.heap H → All2 (Sim h tbl H) ks ks')

theorem Filled.mono {s1 s2 : St} (he : Ext s1.heap s2.heap) {p nd} (hf : Filled h tbl base s1 p nd) :
    Filled h tbl base s2 p nd := by
  obtain ⟨n, l, ks, ks', h1, h2, h3, h4⟩ := hf
  exact ⟨n, l, ks, ks', h1, h2, h3, fun H hH => h4 H (he.trans hH)⟩

theorem pass2_spec (htbl : ∀ n c, tbl n = some c → base ≤ c) (fuel : Nat) :
    ∀ L s nodes s', WF h tbl base len s → pass2 h tbl fuel L s = some (nodes, s') →
      WF h tbl base len s' ∧ Ext s.heap s'.heap ∧ All2 (Filled h tbl base s') L nodes := by
  intro L
  induction L with
  | nil =>
    intro s nodes s' hw he
    simp [pass2] at he
    obtain ⟨rfl, rfl⟩ := he
    exact ⟨hw, Ext.refl _, .nil⟩
  | cons p rest ih =>
    intro s nodes s' hw he
    obtain ⟨m, a⟩ := p
    simp only [pass2] at he
    cases hsa : h a with
    | none => simp [hsa] at he
    | some nd =>
      cases nd with
      | inner l ks => simp [hsa] at he
      | named n l ks =>
        simp only [hsa] at he
        cases hm : mapSt (fixPtr h tbl fuel) ks s with
        | none => simp [hm] at he
        | some q =>
          obtain ⟨ks1, s1⟩ := q
          simp only [hm] at he
          cases hp : pass2 h tbl fuel rest s1 with
          | none => simp [hp] at he
          | some q2 =>
            obtain ⟨nodes2, s2⟩ := q2
            simp only [hp, Option.some.injEq, Prod.mk.injEq] at he
            obtain ⟨rfl, rfl⟩ := he
            obtain ⟨hw1, he1, hok1, hs1⟩ :=
              mapSt_spec h tbl base len (fixPtr_spec h tbl base len htbl fuel) ks s ks1 s1 hw hm
            obtain ⟨hw2, he2, hall⟩ := ih s1 nodes2 s2 hw1 hp
            refine ⟨hw2, he1.trans he2, .cons ?_ hall⟩
            exact ⟨n, l, ks, ks1, hsa, rfl, hok1, fun H hH => hs1 H (he2.trans hH)⟩

end Spec

/-! ## The table and the overlay -/

theorem tblOf_ge : ∀ (L : List (String × Nat)) (b : Nat) (n : String) (c : Nat), tblOf L b n = some c → b ≤ c ∧ c < b + L.length := by
  intro L
  induction L with
  | nil => intro b n c he; simp [tblOf] at he
  | cons p rest ih =>
    intro b n c he
    obtain ⟨m, a⟩ := p
    simp only [tblOf] at he
    by_cases hmn : m = n
    · simp [hmn] at he; subst he; simp
    · simp only [hmn, if_false] at he
      have := ih (b + 1) n c he
      simp only [List.length_cons]; omega

theorem overlay_out : ∀ (nodes : List Node) (b : Nat) (H : Heap) (x : Nat), (x < b ∨ b + nodes.length ≤ x) → overlay b nodes H x = H x := by
  intro nodes
  induction nodes with
  | nil => intro b H x _; rfl
  | cons nd rest ih =>
    intro b H x hx
    simp only [overlay]
    have hne : x ≠ b := by
      simp only [List.length_cons] at hx; omega
    simp only [hne, if_false]
    apply ih
    simp only [List.length_cons] at hx; omega

/-- The entry of a name in the table is the address at which the overlay stores what pass 2
    computed for the first collected type of that name. -/
theorem overlay_tbl {Q : String × Nat → Node → Prop} :
    ∀ (L : List (String × Nat)) (nodes : List Node), All2 Q L nodes → ∀ (b : Nat) (H : Heap) (n : String) (c : Nat),
      tblOf L b n = some c → ∃ p nd, p ∈ L ∧ p.1 = n ∧ Q p nd ∧ overlay b nodes H c = some nd := by
  intro L nodes hall
  induction hall with
  | nil => intro b H n c he; simp [tblOf] at he
  | @cons p nd rest nodes' hq _ ih =>
    intro b H n c he
    obtain ⟨m, a⟩ := p
    simp only [tblOf] at he
    by_cases hmn : m = n
    · simp [hmn] at he
      subst he
      exact ⟨(m, a), nd, by simp, hmn, hq, by simp [overlay]⟩
    · simp only [hmn, if_false] at he
      obtain ⟨p, nd', hp, hn, hq', ho⟩ := ih (b + 1) H n c he
      have hc := (tblOf_ge rest (b + 1) n c he).1
      refine ⟨p, nd', by simp [hp], hn, hq', ?_⟩
      simp only [overlay]
      have : c ≠ b := by omega
      simp [this, ho]

theorem overlay_in {Q : String × Nat → Node → Prop} :
    ∀ (L : List (String × Nat)) (nodes : List Node), All2 Q L nodes → ∀ (b : Nat) (H : Heap) (x : Nat) (nd : Node),
      b ≤ x → x < b + nodes.length → overlay b nodes H x = some nd → ∃ p, p ∈ L ∧ Q p nd := by
  intro L nodes hall
  induction hall with
  | nil => intro b H x nd h1 h2 _; simp at h2; omega
  | @cons p nd0 rest nodes' hq _ ih =>
    intro b H x nd h1 h2 ho
    simp only [overlay] at ho
    by_cases hx : x = b
    · simp [hx] at ho; subst ho; exact ⟨p, by simp, hq⟩
    · simp only [hx, if_false] at ho
      simp only [List.length_cons] at h2
      obtain ⟨p', hp', hq'⟩ := ih (b + 1) H x nd (by omega) (by omega) ho
      exact ⟨p', by simp [hp'], hq'⟩

theorem All2.length_eq {α β : Type} {R : α → β → Prop} : ∀ {as : List α} {bs : List β}, All2 R as bs → as.length = bs.length := by
  intro as bs h
  induction h with
  | nil => rfl
  | cons _ _ ih => simp [ih]

/-! ## The result of a clone run, as facts about the final heap -/

/-- Everything the theorems of `PropsCloneHeap.lean` need to know about a run of `clone` that
    returned `(r', H)`. -/
structure CloneFacts (h : Heap) (L : List (String × Nat)) (root base r' : Nat) (H : Heap) : Prop where
  /-- nothing that existed before the call was written -/
  frame : Ext h H
  /-- the clone's root is a copy of the definition -/
  root : Sim h (tblOf L base) H root r'
  rootOK : OKAddr h (tblOf L base) base r'
  /-- a node the call allocated only points at nodes the call allocated or at kept named types -/
  newOK : ∀ x n, base ≤ x → H x = some n → ∀ y ∈ n.kids, OKAddr h (tblOf L base) base y
  /-- the table entry of a name holds the copy of the first collected type of that name -/
  filled : ∀ n c, tblOf L base n = some c → ∃ a l ks ks', (n, a) ∈ L ∧ h a = some (.named n l ks) ∧
    H c = some (.named n l ks') ∧ All2 (Sim h (tblOf L base) H) ks ks'

theorem clone_facts {fuel : Nat} {h : Heap} {L : List (String × Nat)} {root base r' : Nat} {H : Heap}
    (hdom : ∀ x n, h x = some n → x < base)
    (hL : ∀ p ∈ L, ∃ l ks, h p.2 = some (.named p.1 l ks))
    (he : clone fuel h L root base = some (r', H)) : CloneFacts h L root base r' H := by
  have htbl : ∀ n c, tblOf L base n = some c → base ≤ c := fun n c hc => (tblOf_ge L base n c hc).1
  have hw0 : WF h (tblOf L base) base L.length { heap := h, next := base + L.length } := by
    refine ⟨Nat.le_refl _, ?_, ?_, fun _ _ => rfl, ?_⟩
    · intro x hx
      cases hx' : h x with
      | none => exact hx'
      | some n => have := hdom x n hx'; simp only at hx; omega
    · intro x h1 _
      cases hx' : h x with
      | none => exact hx'
      | some n => have := hdom x n hx'; omega
    · intro x n hx hn
      have := hdom x n hn; omega
  simp only [clone] at he
  cases hp : pass2 h (tblOf L base) fuel L { heap := h, next := base + L.length } with
  | none => simp [hp] at he
  | some q =>
    obtain ⟨nodes, s1⟩ := q
    simp only [hp] at he
    cases hr : fixPtr h (tblOf L base) fuel root s1 with
    | none => simp [hr] at he
    | some q2 =>
      obtain ⟨r1, s2⟩ := q2
      simp only [hr, Option.some.injEq, Prod.mk.injEq] at he
      obtain ⟨rfl, rfl⟩ := he
      obtain ⟨hw1, he1, hall⟩ := pass2_spec h (tblOf L base) base L.length htbl fuel L _ nodes s1 hw0 hp
      obtain ⟨hw2, he2, hok, hsim⟩ := fixPtr_spec h (tblOf L base) base L.length htbl fuel root s1 r1 s2 hw1 hr
      have hlen : L.length = nodes.length := hall.length_eq
      have hall2 : All2 (Filled h (tblOf L base) base s2) L nodes :=
        All2.mono (fun p nd hf => Filled.mono h (tblOf L base) base he2 hf) hall
      -- the overlay only fills reserved addresses, which are empty in s2.heap
      have hext : Ext s2.heap (overlay base nodes s2.heap) := by
        intro x n hx
        by_cases hin : base ≤ x ∧ x < base + nodes.length
        · have := hw2.reserved x hin.1 (by omega)
          rw [this] at hx; cases hx
        · rw [overlay_out nodes base s2.heap x (by omega)]; exact hx
      have hframe : Ext h (overlay base nodes s2.heap) := by
        intro x n hx
        have hlt := hdom x n hx
        apply hext
        rw [hw2.old x hlt]; exact hx
      refine ⟨hframe, hsim _ hext, hok, ?_, ?_⟩
      · intro x n hx hn y hy
        by_cases hin : x < base + nodes.length
        · obtain ⟨p, _, ⟨n', l, ks, ks', _, rfl, hk, _⟩⟩ :=
            overlay_in L nodes hall2 base s2.heap x n hx hin hn
          exact hk y hy
        · rw [overlay_out nodes base s2.heap x (by omega)] at hn
          exact hw2.newOK x n hx hn y hy
      · intro n c hc
        obtain ⟨p, nd, hpL, hpn, ⟨n', l, ks, ks', hh, rfl, _, hs⟩, ho⟩ :=
          overlay_tbl L nodes hall2 base s2.heap n c hc
        obtain ⟨l0, ks0, hh0⟩ := hL p hpL
        rw [hh0] at hh
        simp only [Option.some.injEq, Node.named.injEq] at hh
        obtain ⟨hn', rfl, rfl⟩ := hh
        refine ⟨p.2, l0, ks0, ks', ?_, ?_, ?_, hs _ hext⟩
        · rw [← hpn]; exact hpL
        · rw [← hpn]; exact hh0
        · rw [ho, ← hn', hpn]

end ApiFu.C10.CloneHeap
