/-
  C10 — the independent specification.

  `visible S F`   what a request with feature set `F` may see of schema `S`: the registered types
                  whose required features are enabled, each with the fields whose required features
                  are enabled and the interfaces that are themselves visible; a mutation / subscription root
                  type only if its required features are enabled (fix C13/04); of a directive the arguments
                  whose type's required features are enabled (fix C13/05).
  `describe D V`  the description the property statement asks for, computed from a visible schema
                  `V` as a plain comprehension over its type table: each type, field, argument,
                  input field, enum value, interface and union membership and directive exactly
                  once, `possibleTypes` of an interface = the object types of `V` that declare it.
                  `D` (the full definition) is only the context in which one element is rendered
                  (the kind of a referenced type, the text of a default value); *which* elements are
                  listed is decided by `V` alone — no registry, no feature test.
  Core Lean only (the driver does not need this file, the theorems do).
-/
import ApiFu.C10.Model

namespace ApiFu.C10

/-- A named type is visible to a request: `schema.New` registered it and the request's features
    include the type's required features. -/
def visibleName (S : Schema) (F : List String) (n : String) : Bool :=
  S.namedTypes.contains n && subsetOf (S.defn.featuresOf n) F

/-- The visible part of one type definition. -/
def restrict (S : Schema) (F : List String) (t : TypeDef Unit) : TypeDef Unit :=
  { t with fields := t.fields.filter (fun f => subsetOf f.feat.keys F),
           ifaces := t.ifaces.filter (visibleName S F) }

/-- The schema visible to a request with features `F`. -/
def visible (S : Schema) (F : List String) : SchemaDef Unit :=
  { S.defn with types := (S.defn.types.filter (fun t => visibleName S F t.name)).map (restrict S F),
                mutation := visibleRoot S.defn F S.defn.mutation,
                subscription := visibleRoot S.defn F S.defn.subscription,
                directives := S.defn.directives.map (visibleDirective S.defn F) }

/-- The object types of `V` that declare interface `i`. -/
def implementers (V : SchemaDef Unit) (i : String) : List String :=
  (V.types.filter (fun o => o.kind == .object && o.ifaces.contains i)).map (·.name)

/-- One type of the visible schema, described. -/
def describeType (D V : SchemaDef Unit) (t : TypeDef Unit) : TypeD :=
  { kind := kindName t.kind, name := t.name, description := nullableString t.description,
    fields := if t.kind == .object || t.kind == .interface then some (t.fields.map (fieldData D)) else none,
    inputFields := if t.kind == .inputObject then some (t.inputs.map (inputValueData D)) else none,
    interfaces := if t.kind == .object then some (t.ifaces.map (namedRef D)) else none,
    enumValues := if t.kind == .enum then some (t.values.map enumValueData) else none,
    possibleTypes :=
      if t.kind == .interface then some ((sortNames (implementers V t.name)).map (namedRef D))
      else if t.kind == .union then some (t.members.map (namedRef D))
      else none }

/-- **describe**: the complete and exact description of a visible schema. -/
def describe (D V : SchemaDef Unit) : IntroData :=
  { queryType := V.query, mutationType := V.mutation, subscriptionType := V.subscription,
    types := sortTypes (V.types.map (describeType D V)),
    directives := V.directives.map (directiveData D) }

/-! ### What "every type reference resolves to a listed type" means on introspection data -/

/-- The named type a reference leads to (`none` when the query cut the chain off). -/
def RefD.leaf? : RefD → Option String
  | .named _ n => some n
  | .wrap _ r => r.leaf?
  | .cut _ => none

def InputValueD.refs (a : InputValueD) : List RefD := [a.type]
def FieldD.refs (f : FieldD) : List RefD := f.type :: f.args.flatMap (·.refs)
def TypeD.refs (t : TypeD) : List RefD :=
  (t.fields.getD []).flatMap (·.refs) ++ (t.inputFields.getD []).flatMap (·.refs)
    ++ t.interfaces.getD [] ++ t.possibleTypes.getD []
def DirectiveD.refs (d : DirectiveD) : List RefD := d.args.flatMap (·.refs)

/-- Every type reference of a type or directive entry of the result. -/
def IntroData.refs (x : IntroData) : List RefD :=
  x.types.flatMap (·.refs) ++ x.directives.flatMap (·.refs)

/-- A visible schema is closed: what its types and directives refer to is one of its types. -/
def ClosedV (V : SchemaDef Unit) : Prop :=
  (∀ t ∈ V.types, ∀ n ∈ t.refNames, n ∈ V.types.map (·.name))
  ∧ (∀ dd ∈ V.directives, ∀ a ∈ dd.args, a.type.ref.leaf ∈ V.types.map (·.name))

end ApiFu.C10

namespace ApiFu.C10

/-! ### What a definition rebuilt from introspection data carries

  `forgetDef V` is the visible schema `V` with everything introspection data (as decoded into
  `introspection.SchemaData`) cannot carry removed:
    * default values of arguments, input fields and directive arguments (`InputValueData` has no
      `defaultValue` member — finding F-10a);
    * required features (of types and fields) and applied directives;
    * the Go values of enum values, all callbacks (not represented in the model at all);
    * the original `AdditionalTypes` (replaced by: the objects that implement an interface);
    * built-in scalars are the package singletons again.
  Identities: every allocated container is `some 0`, nil containers are `none`, as
  `GetSchemaDefinition` allocates them. -/

/-- `keep`: with fix patch 06 the `defaultValue` text is carried (pending, see `pendingDefault`);
    `D` is the definition in whose context the text was printed. -/
def forgetIV (keep : Bool) (D : SchemaDef Unit) (a : InputValueDef Unit) : InputValueDef Id :=
  { name := a.name, description := a.description, self := alloc, type := typeAtOf a.type.ref,
    default := pendingDefault keep (defaultData D a.type.ref a.default), dirs := nilDirs }

def forgetIV0 (keep : Bool) (D : SchemaDef Unit) (a : InputValueDef0 Unit) : InputValueDef0 Id :=
  { name := a.name, description := a.description, self := alloc, type := typeAtOf a.type.ref,
    default := pendingDefault keep (defaultData D a.type.ref a.default) }

def forgetField (keep : Bool) (D : SchemaDef Unit) (f : FieldDef Unit) : FieldDef Id :=
  { name := f.name, description := f.description, self := alloc, type := typeAtOf f.type.ref,
    argsId := alloc, args := f.args.map (forgetIV keep D), deprecation := f.deprecation, feat := nilFeat, dirs := nilDirs }

def forgetEnumValue (v : EnumValueDef Unit) : EnumValueDef Id :=
  { name := v.name, description := v.description, self := alloc, deprecation := v.deprecation, dirs := nilDirs }

/-- The shell every rebuilt type starts from (all containers nil). -/
def shellType (t : TypeDef Unit) : TypeDef Id := { (builtinType t.name) with description := t.description }

def forgetObject (keep : Bool) (D : SchemaDef Unit) (t : TypeDef Unit) : TypeDef Id :=
  { (shellType t) with kind := Kind.object, fieldsId := alloc, fields := t.fields.map (forgetField keep D),
                       ifacesId := (if t.ifaces.isEmpty then none else alloc), ifaces := t.ifaces }

def forgetInterface (keep : Bool) (D : SchemaDef Unit) (t : TypeDef Unit) : TypeDef Id :=
  { (shellType t) with kind := Kind.interface, fieldsId := alloc, fields := t.fields.map (forgetField keep D) }

def forgetUnion (t : TypeDef Unit) : TypeDef Id :=
  { (shellType t) with kind := Kind.union, membersId := (if t.members.isEmpty then none else alloc), members := t.members }

def forgetEnum (t : TypeDef Unit) : TypeDef Id :=
  { (shellType t) with kind := Kind.enum, valuesId := alloc, values := t.values.map forgetEnumValue }

def forgetInput (keep : Bool) (D : SchemaDef Unit) (t : TypeDef Unit) : TypeDef Id :=
  { (shellType t) with kind := Kind.inputObject, inputsId := alloc, inputs := t.inputs.map (forgetIV keep D) }

def forgetType (keep : Bool) (D : SchemaDef Unit) (t : TypeDef Unit) : TypeDef Id :=
  if isBuiltin t.name then builtinType t.name else
  match t.kind with
  | .scalar => shellType t
  | .object => forgetObject keep D t
  | .interface => forgetInterface keep D t
  | .union => forgetUnion t
  | .enum => forgetEnum t
  | .inputObject => forgetInput keep D t

def forgetDirective (keep : Bool) (D : SchemaDef Unit) (x : DirectiveDef Unit) : DirectiveDef Id :=
  { name := x.name, description := x.description, self := alloc,
    locsId := (if x.locs.isEmpty then none else alloc), locs := x.locs, argsId := alloc, args := x.args.map (forgetIV0 keep D) }

def sortDefs (l : List (TypeDef Unit)) : List (TypeDef Unit) := l.mergeSort (fun a b => decide (a.name ≤ b.name))

/-- The rebuilt definition before `setDefaultValues` (`keep = true`: default texts pending). -/
def forgetDefP (keep : Bool) (D V : SchemaDef Unit) : GDef :=
  let ts := (sortDefs V.types).map (forgetType keep D)
  let additional := (ts.filter (fun t => t.kind == .object && !t.ifaces.isEmpty)).map (·.name)
  { types := ts, query := V.query, mutation := V.mutation, subscription := V.subscription,
    additionalId := (if additional.isEmpty then none else alloc), additional := additional,
    directivesId := alloc, directives := V.directives.map (forgetDirective keep D) }

/-- Without fix patch 06: no defaults at all. -/
def forgetDef (V : SchemaDef Unit) : GDef := forgetDefP false V V

end ApiFu.C10

namespace ApiFu.C10

/-! ### With fix patch 06: the rebuilt definition keeps the default values

  `forgetDefKeep V` is `forgetDef V` with the default value of every argument, input field and
  directive argument kept as configured (for defaults of the covered classes in coercion normal
  form — `DefaultsCovered` — this is what `GetSchemaDefinition` returns: `rebuildKeep_introspect`). -/

def keepIV (a : InputValueDef Unit) : InputValueDef Id :=
  { name := a.name, description := a.description, self := alloc, type := typeAtOf a.type.ref,
    default := a.default, dirs := nilDirs }

def keepIV0 (a : InputValueDef0 Unit) : InputValueDef0 Id :=
  { name := a.name, description := a.description, self := alloc, type := typeAtOf a.type.ref, default := a.default }

def keepField (f : FieldDef Unit) : FieldDef Id :=
  { name := f.name, description := f.description, self := alloc, type := typeAtOf f.type.ref,
    argsId := alloc, args := f.args.map keepIV, deprecation := f.deprecation, feat := nilFeat, dirs := nilDirs }

def keepObject (t : TypeDef Unit) : TypeDef Id :=
  { (shellType t) with kind := Kind.object, fieldsId := alloc, fields := t.fields.map keepField,
                       ifacesId := (if t.ifaces.isEmpty then none else alloc), ifaces := t.ifaces }

def keepInterface (t : TypeDef Unit) : TypeDef Id :=
  { (shellType t) with kind := Kind.interface, fieldsId := alloc, fields := t.fields.map keepField }

def keepInput (t : TypeDef Unit) : TypeDef Id :=
  { (shellType t) with kind := Kind.inputObject, inputsId := alloc, inputs := t.inputs.map keepIV }

def keepType (t : TypeDef Unit) : TypeDef Id :=
  if isBuiltin t.name then builtinType t.name else
  match t.kind with
  | .scalar => shellType t
  | .object => keepObject t
  | .interface => keepInterface t
  | .union => forgetUnion t
  | .enum => forgetEnum t
  | .inputObject => keepInput t

def keepDirective (x : DirectiveDef Unit) : DirectiveDef Id :=
  { name := x.name, description := x.description, self := alloc,
    locsId := (if x.locs.isEmpty then none else alloc), locs := x.locs, argsId := alloc, args := x.args.map keepIV0 }

def forgetDefKeep (V : SchemaDef Unit) : GDef :=
  let ts := (sortDefs V.types).map keepType
  let additional := (ts.filter (fun t => t.kind == .object && !t.ifaces.isEmpty)).map (·.name)
  { types := ts, query := V.query, mutation := V.mutation, subscription := V.subscription,
    additionalId := (if additional.isEmpty then none else alloc), additional := additional,
    directivesId := alloc, directives := V.directives.map keepDirective }

end ApiFu.C10
