/-
  C10 model driver. One S-expression per line in, one per line out.

    (def DEF)                                                                → ok      -- remembers DEF; later requests may write `cur` for it
    (introspect DEF (registry "n"…) (impls ("I" "o"…)…) (features "f"…))   → (intro …) | (error "…")
    (accepted   DEF (registry "n"…) (impls ("I" "o"…)…))                    → (accepted wf closed implsExact kindsOk featuresOk namesOk)  (six booleans)
    (new DEF)                                                                → (reg (registry "n"…) (impls ("I" "o"…)…))
    (clone BASE DEF)                                                         → DEF'   (the model's clone; identities ≥ BASE are new)
    (rebuild DEF (registry …) (impls …) (features …) keep|drop)              → DEF' | (error "…")   (rebuildKeep / rebuild of introspect S F — with / without fix patch 06 —,
                                                                               table restricted to what Inspect reaches; a default `(float "text")` in the
                                                                               answer = not determined by the model)
    (marshal DEF TYPE VAL)                                                   → (some "text") | none
    (heapclone FUEL BASE ROOT (tbl ("name" ADDR)…) (heap NODE…))             → (cloned ROOT' NEXT NODE…) | (error "…")   (HeapDriver.lean: Clone over the explicit heap)
    (roundtrip DEF TYPE VAL "text")                                          → (rt covered nf parses coerces)   (four booleans: the value is of the
                                                                               classes default_roundtrip covers; it is in coercion normal form; the
                                                                               specification parser reads "text" as exactly the literal denoting VAL;
                                                                               that literal coerces back to VAL)

  DEF  := (def (types T…) (query O) (mutation O) (subscription O) (additional ID "n"…) (directives ID DD…))
  O    := none | (some "name")                 ID := none | <nat>
  T    := (type KIND "name" "desc" (self ID) FEAT DIRS (fields ID F…) (ifaces ID "n"…) (members ID "n"…) (values ID EV…) (inputs ID IV…))
  KIND := scalar | object | interface | union | enum | input
  FEAT := (feat ID "k"…)                        DIRS := (dirs ID AD…)
  F    := (field "name" "desc" (self ID) TYPE (args ID IV…) "deprecation" FEAT DIRS)
  IV   := (iv "name" "desc" (self ID) TYPE (default none|VAL) DIRS)
  EV   := (ev "name" "desc" (self ID) "deprecation" DIRS)
  AD   := (adir (self ID) DD (args ID (arg (self ID) "name" VAL)…))
  DD   := (ddef "name" "desc" (self ID) (locs ID "LOC"…) (args ID IV…))       -- IVs of a DD must have (dirs none)
  TYPE := (t ID "LN…" "name")                   -- wrappers outermost first
  VAL  := null | (int n) | (float "text") | (str "s") | (bool true|false) | (enum "N") | (list VAL…) | (obj ("k" VAL)…)
-/
import ApiFu.Common.Sexp
import ApiFu.Common.Loop
import ApiFu.C10.Model
import ApiFu.C10.Literal
import ApiFu.C10.RebuildKeep
import ApiFu.C10.HeapDriver

open ApiFu ApiFu.C10

namespace C10Driver

def pId : Sexp → Option Id
  | .atom "none" => some none
  | x => x.nat?.map some

def pStrs (xs : List Sexp) : Option (List String) := xs.mapM Sexp.atom?

partial def pVal : Sexp → Option Value
  | .atom "null" => some .null
  | .list [.atom "int", n] => n.int?.map .int
  | .list [.atom "float", .atom t] => some (.float t)
  | .list [.atom "str", .atom s] => some (.str s)
  | .list [.atom "bool", .atom b] => some (.bool (b == "true"))
  | .list [.atom "enum", .atom n] => some (.enum n)
  | .list (.atom "list" :: vs) => (vs.mapM pVal).map .list
  | .list (.atom "obj" :: fs) =>
    (fs.mapM fun (f : Sexp) => match f with
      | Sexp.list [Sexp.atom k, v] => (pVal v).map (fun v => (k, v))
      | _ => none).map Value.obj
  | _ => none

def pTRef (w n : String) : TRef :=
  w.toList.foldr (fun c t => if c == 'L' then .list t else .nonNull t) (.named n)

def pType : Sexp → Option (TypeAt Id)
  | .list [.atom "t", i, .atom w, .atom n] => (pId i).map fun i => { wid := i, ref := pTRef w n }
  | _ => none

def pSelf : Sexp → Option Id
  | .list [.atom "self", i] => pId i
  | _ => none

def pFeat : Sexp → Option (Feat Id)
  | .list (.atom "feat" :: i :: ks) => do
    let i ← pId i
    let ks ← pStrs ks
    pure { id := i, keys := ks }
  | _ => none

def pDefault : Sexp → Option (Option Value)
  | .list [.atom "default", .atom "none"] => some none
  | .list [.atom "default", v] => (pVal v).map some
  | _ => none

def pIV0 : Sexp → Option (InputValueDef0 Id)
  | .list [.atom "iv", .atom n, .atom d, s, t, dv, .list [.atom "dirs", .atom "none"]] => do
    let s ← pSelf s
    let t ← pType t
    let dv ← pDefault dv
    pure { name := n, description := d, self := s, type := t, default := dv }
  | _ => none

def pDD : Sexp → Option (DirectiveDef Id)
  | .list [.atom "ddef", .atom n, .atom d, s, .list (.atom "locs" :: li :: ls), .list (.atom "args" :: ai :: as)] => do
    let s ← pSelf s
    let li ← pId li
    let ls ← pStrs ls
    let ai ← pId ai
    let as ← as.mapM pIV0
    pure { name := n, description := d, self := s, locsId := li, locs := ls, argsId := ai, args := as }
  | _ => none

def pArg : Sexp → Option (Arg Id)
  | .list [.atom "arg", s, .atom n, v] => do
    let s ← pSelf s
    let v ← pVal v
    pure { self := s, name := n, value := v }
  | _ => none

def pApplied : Sexp → Option (Applied Id)
  | .list [.atom "adir", s, dd, .list (.atom "args" :: ai :: as)] => do
    let s ← pSelf s
    let dd ← pDD dd
    let ai ← pId ai
    let as ← as.mapM pArg
    pure { self := s, defn := dd, argsId := ai, args := as }
  | _ => none

def pDirs : Sexp → Option (DirList Id)
  | .list (.atom "dirs" :: i :: ds) => do
    let i ← pId i
    let ds ← ds.mapM pApplied
    pure { id := i, items := ds }
  | _ => none

def pIV : Sexp → Option (InputValueDef Id)
  | .list [.atom "iv", .atom n, .atom d, s, t, dv, dirs] => do
    let s ← pSelf s
    let t ← pType t
    let dv ← pDefault dv
    let dirs ← pDirs dirs
    pure { name := n, description := d, self := s, type := t, default := dv, dirs := dirs }
  | _ => none

def pField : Sexp → Option (FieldDef Id)
  | .list [.atom "field", .atom n, .atom d, s, t, .list (.atom "args" :: ai :: as), .atom depr, feat, dirs] => do
    let s ← pSelf s
    let t ← pType t
    let ai ← pId ai
    let as ← as.mapM pIV
    let feat ← pFeat feat
    let dirs ← pDirs dirs
    pure { name := n, description := d, self := s, type := t, argsId := ai, args := as,
           deprecation := depr, feat := feat, dirs := dirs }
  | _ => none

def pEV : Sexp → Option (EnumValueDef Id)
  | .list [.atom "ev", .atom n, .atom d, s, .atom depr, dirs] => do
    let s ← pSelf s
    let dirs ← pDirs dirs
    pure { name := n, description := d, self := s, deprecation := depr, dirs := dirs }
  | _ => none

def pKind : String → Option Kind
  | "scalar" => some .scalar
  | "object" => some .object
  | "interface" => some .interface
  | "union" => some .union
  | "enum" => some .enum
  | "input" => some .inputObject
  | _ => none

def pTypeDef : Sexp → Option (TypeDef Id)
  | .list [.atom "type", .atom k, .atom n, .atom d, s, feat, dirs,
           .list (.atom "fields" :: fi :: fs), .list (.atom "ifaces" :: ii :: is),
           .list (.atom "members" :: mi :: ms), .list (.atom "values" :: vi :: vs),
           .list (.atom "inputs" :: ni :: ns)] => do
    let k ← pKind k
    let s ← pSelf s
    let feat ← pFeat feat
    let dirs ← pDirs dirs
    let fi ← pId fi
    let fs ← fs.mapM pField
    let ii ← pId ii
    let is ← pStrs is
    let mi ← pId mi
    let ms ← pStrs ms
    let vi ← pId vi
    let vs ← vs.mapM pEV
    let ni ← pId ni
    let ns ← ns.mapM pIV
    pure { kind := k, name := n, description := d, self := s, feat := feat, dirs := dirs,
           fieldsId := fi, fields := fs, ifacesId := ii, ifaces := is, membersId := mi, members := ms,
           valuesId := vi, values := vs, inputsId := ni, inputs := ns }
  | _ => none

def pOptName : Sexp → Option (Option String)
  | .list [_, .atom "none"] => some none
  | .list [_, .list [.atom "some", .atom n]] => some (some n)
  | _ => none

def pDef : Sexp → Option GDef
  | .list [.atom "def", .list (.atom "types" :: ts), q, m, s,
           .list (.atom "additional" :: ai :: as), .list (.atom "directives" :: di :: ds)] => do
    let ts ← ts.mapM pTypeDef
    let q ← pOptName q
    let m ← pOptName m
    let s ← pOptName s
    let ai ← pId ai
    let as ← pStrs as
    let di ← pId di
    let ds ← ds.mapM pDD
    pure { types := ts, query := q, mutation := m, subscription := s, additionalId := ai,
           additional := as, directivesId := di, directives := ds }
  | _ => none

def pRegistry : Sexp → Option (List String)
  | .list (.atom "registry" :: ns) => pStrs ns
  | _ => none

def pImpls : Sexp → Option (List (String × List String))
  | .list (.atom "impls" :: xs) => xs.mapM fun (x : Sexp) => match x with
    | Sexp.list (Sexp.atom i :: os) => (pStrs os).map (fun os => (i, os))
    | _ => none
  | _ => none

def pFeatures : Sexp → Option (List String)
  | .list (.atom "features" :: fs) => pStrs fs
  | _ => none

/-! ### printing -/

def sId : Id → Sexp
  | none => .atom "none"
  | some n => Sexp.ofNat n

partial def sVal : Value → Sexp
  | .null => .atom "null"
  | .int i => Sexp.node "int" [Sexp.ofInt i]
  | .float t => Sexp.node "float" [.atom t]
  | .str s => Sexp.node "str" [.atom s]
  | .bool b => Sexp.node "bool" [Sexp.ofBool b]
  | .enum n => Sexp.node "enum" [.atom n]
  | .list vs => Sexp.node "list" (vs.map sVal)
  | .obj fs => Sexp.node "obj" (fs.map fun (k, v) => Sexp.list [.atom k, sVal v])

def wrapperString : TRef → String
  | .named _ => ""
  | .list t => "L" ++ wrapperString t
  | .nonNull t => "N" ++ wrapperString t

def sType (t : TypeAt Id) : Sexp :=
  Sexp.node "t" [sId t.wid, .atom (wrapperString t.ref), .atom t.ref.leaf]

def sSelf (i : Id) : Sexp := Sexp.node "self" [sId i]
def sFeat (f : Feat Id) : Sexp := Sexp.node "feat" (sId f.id :: f.keys.map Sexp.atom)
def sDefault : Option Value → Sexp
  | none => Sexp.node "default" [.atom "none"]
  | some v => Sexp.node "default" [sVal v]

def sIV0 (a : InputValueDef0 Id) : Sexp :=
  Sexp.node "iv" [.atom a.name, .atom a.description, sSelf a.self, sType a.type, sDefault a.default,
                  Sexp.node "dirs" [.atom "none"]]

def sDD (d : DirectiveDef Id) : Sexp :=
  Sexp.node "ddef" [.atom d.name, .atom d.description, sSelf d.self,
    Sexp.node "locs" (sId d.locsId :: d.locs.map Sexp.atom), Sexp.node "args" (sId d.argsId :: d.args.map sIV0)]

def sApplied (a : Applied Id) : Sexp :=
  Sexp.node "adir" [sSelf a.self, sDD a.defn,
    Sexp.node "args" (sId a.argsId :: a.args.map fun x => Sexp.node "arg" [sSelf x.self, .atom x.name, sVal x.value])]

def sDirs (d : DirList Id) : Sexp := Sexp.node "dirs" (sId d.id :: d.items.map sApplied)

def sIV (a : InputValueDef Id) : Sexp :=
  Sexp.node "iv" [.atom a.name, .atom a.description, sSelf a.self, sType a.type, sDefault a.default, sDirs a.dirs]

def sField (f : FieldDef Id) : Sexp :=
  Sexp.node "field" [.atom f.name, .atom f.description, sSelf f.self, sType f.type,
    Sexp.node "args" (sId f.argsId :: f.args.map sIV), .atom f.deprecation, sFeat f.feat, sDirs f.dirs]

def sEV (v : EnumValueDef Id) : Sexp :=
  Sexp.node "ev" [.atom v.name, .atom v.description, sSelf v.self, .atom v.deprecation, sDirs v.dirs]

def sKind : Kind → String
  | .scalar => "scalar"
  | .object => "object"
  | .interface => "interface"
  | .union => "union"
  | .enum => "enum"
  | .inputObject => "input"

def sTypeDef (t : TypeDef Id) : Sexp :=
  Sexp.node "type" [.atom (sKind t.kind), .atom t.name, .atom t.description, sSelf t.self, sFeat t.feat, sDirs t.dirs,
    Sexp.node "fields" (sId t.fieldsId :: t.fields.map sField),
    Sexp.node "ifaces" (sId t.ifacesId :: t.ifaces.map Sexp.atom),
    Sexp.node "members" (sId t.membersId :: t.members.map Sexp.atom),
    Sexp.node "values" (sId t.valuesId :: t.values.map sEV),
    Sexp.node "inputs" (sId t.inputsId :: t.inputs.map sIV)]

def sOptName (tag : String) : Option String → Sexp
  | none => Sexp.node tag [.atom "none"]
  | some n => Sexp.node tag [Sexp.node "some" [.atom n]]

def sDef (d : GDef) : Sexp :=
  Sexp.node "def" [Sexp.node "types" (d.types.map sTypeDef), sOptName "query" d.query,
    sOptName "mutation" d.mutation, sOptName "subscription" d.subscription,
    Sexp.node "additional" (sId d.additionalId :: d.additional.map Sexp.atom),
    Sexp.node "directives" (sId d.directivesId :: d.directives.map sDD)]

def sOptStr : Option String → Sexp
  | none => .atom "none"
  | some s => Sexp.node "some" [.atom s]

def sRef : RefD → Sexp
  | .named k n => Sexp.node "named" [.atom k, .atom n]
  | .wrap k r => Sexp.node "wrap" [.atom k, sRef r]
  | .cut k => Sexp.node "cut" [.atom k]

def sDefaultD : DefaultD → Sexp
  | .none => .atom "none"
  | .text s => Sexp.node "some" [.atom s]
  | .error => .atom "error"

def sIVD (a : InputValueD) : Sexp :=
  Sexp.node "iv" [.atom a.name, sOptStr a.description, sRef a.type, sDefaultD a.defaultValue]

def sOptList {α : Type} (f : α → Sexp) : Option (List α) → Sexp
  | none => .atom "none"
  | some xs => Sexp.node "some" (xs.map f)

def sFieldD (f : FieldD) : Sexp :=
  Sexp.node "field" [.atom f.name, sOptStr f.description, Sexp.node "args" (f.args.map sIVD), sRef f.type,
    Sexp.ofBool f.isDeprecated, sOptStr f.deprecationReason]

def sEVD (v : EnumValueD) : Sexp :=
  Sexp.node "ev" [.atom v.name, sOptStr v.description, Sexp.ofBool v.isDeprecated, sOptStr v.deprecationReason]

def sTypeD (t : TypeD) : Sexp :=
  Sexp.node "type" [.atom t.kind, .atom t.name, sOptStr t.description, sOptList sFieldD t.fields,
    sOptList sIVD t.inputFields, sOptList sRef t.interfaces, sOptList sEVD t.enumValues, sOptList sRef t.possibleTypes]

def sDirectiveD (d : DirectiveD) : Sexp :=
  Sexp.node "directive" [.atom d.name, sOptStr d.description, Sexp.node "locations" (d.locations.map Sexp.atom),
    Sexp.node "args" (d.args.map sIVD)]

def sIntro (x : IntroData) : Sexp :=
  Sexp.node "intro" [sOptStr x.queryType, sOptStr x.mutationType, sOptStr x.subscriptionType,
    Sexp.node "types" (x.types.map sTypeD), Sexp.node "directives" (x.directives.map sDirectiveD)]

partial def sLit : Lit → Sexp
  | .null => .atom "null"
  | .int i => Sexp.node "int" [Sexp.ofInt i]
  | .str cs => Sexp.node "str" [.atom (String.ofList cs)]
  | .bool b => Sexp.node "bool" [Sexp.ofBool b]
  | .enum n => Sexp.node "enum" [.atom (String.ofList n)]
  | .list xs => Sexp.node "list" (xs.map sLit)
  | .obj fs => Sexp.node "obj" (fs.map fun (k, v) => Sexp.list [.atom (String.ofList k), sLit v])

def err (msg : String) : String := toString (Sexp.node "error" [.atom msg])

def mkSchema (d : GDef) (reg : List String) (impls : List (String × List String)) : Schema :=
  { defn := d.erase, namedTypes := reg, impls := impls }

def handleWith (cur : Option GDef) (line : String) : String :=
  let pDef := fun (x : Sexp) => match x with
    | Sexp.atom "cur" => cur
    | _ => pDef x
  match Sexp.parse line with
  | some (.list [.atom "introspect", d, reg, impls, feats]) =>
    match pDef d, pRegistry reg, pImpls impls, pFeatures feats with
    | some d, some reg, some impls, some F => toString (sIntro (introspect (mkSchema d reg impls) F))
    | _, _, _, _ => err "bad-arguments"
  | some (.list [.atom "accepted", d, reg, impls]) =>
    match pDef d, pRegistry reg, pImpls impls with
    | some d, some reg, some impls =>
      let S := mkSchema d reg impls
      toString (Sexp.node "accepted" [Sexp.ofBool (wf S.defn), Sexp.ofBool (closed S), Sexp.ofBool (implsExact S),
        Sexp.ofBool (kindsOk S.defn), Sexp.ofBool (featuresOk S), Sexp.ofBool (namesOk S.defn)])
    | _, _, _ => err "bad-arguments"
  | some (.list [.atom "new", d]) =>
    match pDef d with
    | some d =>
      let r := registries d
      toString (Sexp.node "reg" [Sexp.node "registry" (r.names.map Sexp.atom),
        Sexp.node "impls" (r.impls.map fun p => Sexp.list (.atom p.1 :: p.2.map Sexp.atom))])
    | none => err "bad-arguments"
  | some (.list [.atom "clone", b, d]) =>
    match b.nat?, pDef d with
    | some b, some d => toString (sDef (cloneDef b d))
    | _, _ => err "bad-arguments"
  | some (.list [.atom "rebuild", d, reg, impls, feats, .atom keep]) =>
    match pDef d, pRegistry reg, pImpls impls, pFeatures feats with
    | some d, some reg, some impls, some F =>
      match (if keep == "keep" then rebuildKeep else rebuild) (introspect (mkSchema d reg impls) F) with
      | .ok g =>
        -- the harness sees only what is pointer-reachable from the rebuilt definition
        let reach := (registries g).names
        toString (sDef { g with types := g.types.filter (fun t => reach.contains t.name) })
      | .error e => err e
    | _, _, _, _ => err "bad-arguments"
  | some (.list [.atom "marshal", d, t, v]) =>
    match pDef d, pType t, pVal v with
    | some d, some t, some v => toString (sOptStr (marshalValue d t.ref v))
    | _, _, _ => err "bad-arguments"
  | some (.list [.atom "roundtrip", d, t, v, .atom text]) =>
    match pDef d, pType t, pVal v with
    | some d, some t, some v =>
      let parses := match parseLit (2 * text.length + 4) text.toList with
        | some (lit, []) => toString (sLit lit) == toString (sLit (litOf v))
        | _ => false
      let coerces := match coerceLit d t.ref (litOf v) with
        | some v' => toString (sVal v') == toString (sVal v)
        | none => false
      toString (Sexp.node "rt" [Sexp.ofBool (covered v), Sexp.ofBool (nf d t.ref v), Sexp.ofBool parses, Sexp.ofBool coerces])
    | _, _, _ => err "bad-arguments"
  | some (.list [.atom "heapclone", fuel, base, root, .list (.atom "tbl" :: tbl), .list (.atom "heap" :: heap)]) =>
    C10HeapDriver.op fuel base root tbl heap
  | _ => "bad-op"

end C10Driver

def main : IO Unit :=
  ApiFu.lineLoop (fun (cur : Option ApiFu.C10.GDef) line =>
    match ApiFu.Sexp.parse line with
    | some (.list [.atom "def", d]) =>
      match C10Driver.pDef d with
      | some g => (some g, "ok")
      | none => (cur, C10Driver.err "bad-arguments")
    | _ => (cur, C10Driver.handleWith cur line)) none
