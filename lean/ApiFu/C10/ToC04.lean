/-
  C10 → C04: the description of a schema the validation specification of C04 works on
  (`ApiFu.C04.Schema`: named types with fields, arguments, input fields, enum values, interfaces,
  union members; directives; of a default value only whether it is absent, `null` or a value),
  produced from a C10 schema definition. Core Lean only.

  The introspection types and the two meta fields of the query root are the same for every schema;
  they are parameters (`intro`, `metas`) of the translation (C04's harness supplies them over the
  wire). Types are listed in name order (the specification looks types up by name).
-/
import ApiFu.C10.Model
import ApiFu.C04.Spec

namespace ApiFu.C10

def toTRef : TRef → C04.TRef
  | .named n => .named n
  | .list t => .list (toTRef t)
  | .nonNull t => .nonNull (toTRef t)

/-- `InputValueDefinition.DefaultValue`: nil, `schema.Null`, or a value. -/
def dfltOf : Option Value → C04.Dflt
  | none => .none
  | some .null => .null
  | some _ => .value

/-- The built-in scalars by name (`schema.New`: a type with a built-in's name *is* the built-in);
    any other scalar is a custom scalar, about whose literal coercion nothing is known here. -/
def scalarSpec (n : String) : C04.ScalarSpec :=
  if n = "Int" then .int else if n = "Float" then .float else if n = "String" then .string
  else if n = "Boolean" then .boolean else if n = "ID" then .id else .custom []

section
variable {ι : Type}

def toInput (a : InputValueDef ι) : C04.InputDef :=
  { name := a.name, type := toTRef a.type.ref, dflt := dfltOf a.default }

def toInput0 (a : InputValueDef0 ι) : C04.InputDef :=
  { name := a.name, type := toTRef a.type.ref, dflt := dfltOf a.default }

def toField (f : FieldDef ι) : C04.FieldDef :=
  { name := f.name, type := toTRef f.type.ref, args := f.args.map toInput }

def toKind (t : TypeDef ι) : C04.TypeKind :=
  match t.kind with
  | .scalar => .scalar (scalarSpec t.name)
  | .object => .object (t.fields.map toField) t.ifaces
  | .interface => .interface (t.fields.map toField)
  | .union => .union t.members
  | .enum => .enum (t.values.map (·.name))
  | .inputObject => .input (t.inputs.map toInput)

def toType (t : TypeDef ι) : C04.TypeDef := { name := t.name, kind := toKind t }

def toDir (d : DirectiveDef ι) : C04.DirDef := { name := d.name, locs := d.locs, args := d.args.map toInput0 }

/-- Types in name order. -/
def sortG (l : List (TypeDef ι)) : List (TypeDef ι) := l.mergeSort (fun a b => decide (a.name ≤ b.name))

/-- **toC04** — a definition as the validation specification sees it. -/
def toC04 (intro : List C04.TypeDef) (metas : List C04.FieldDef) (d : SchemaDef ι) : C04.Schema :=
  { types := (sortG d.types).map toType ++ intro,
    query := d.query.getD "", mutation := d.mutation, subscription := d.subscription,
    directives := d.directives.map toDir, metaFields := metas }

end

end ApiFu.C10
