/-
  C10 — executable model of api-fu's schema introspection, default-value printing, schema
  rebuilding from introspection data, and `SchemaDefinition.Clone`.

  Go sources modelled (as written, after the C10 fix patches 01–04):
    graphql/schema/introspection/introspection.go   resolvers of __Schema/__Type/__Field/__InputValue/
                                                     __EnumValue/__Directive, as driven by query.go
    graphql/schema/introspection/marshal_value.go   `marshalValue`
    graphql/schema/introspection/schema_data.go     `SchemaData.GetSchemaDefinition`
    graphql/schema/schema.go:51-114, inspect.go     the registries `schema.New` builds with `Inspect`
    graphql/schema/deep_copy.go                     `deepCopySchemaDefinition`

  Representation. Go's definition graph is a pointer graph; here named types are referred to *by
  name* and live in a table (`SchemaDef.types`, every named type that is pointer-reachable from the
  definition, built-in scalars included). Go maps are association lists (key uniqueness is part of
  `WF`). Every map, slice and pointed-to struct carries an identity of type `ι`; the introspection
  side uses `ι = Unit` (identities erased), the heap model of `Clone` uses `ι = Option Nat`
  (`none` = nil). Application callbacks (resolvers, coercion functions) are not represented.
  Core Lean only: this file is linked into the driver `c10model`.
-/
namespace ApiFu.C10

/-! ## Type expressions and values -/

/-- A type expression: a named type under list / non-null wrappers. -/
inductive TRef where
  | named (n : String)
  | list (t : TRef)
  | nonNull (t : TRef)
  deriving Repr, DecidableEq, Inhabited

/-- The named type at the bottom of the wrapper chain (`schema.UnwrappedType`). -/
def TRef.leaf : TRef → String
  | .named n => n
  | .list t => t.leaf
  | .nonNull t => t.leaf

/-- Number of wrappers. -/
def TRef.depth : TRef → Nat
  | .named _ => 0
  | .list t => t.depth + 1
  | .nonNull t => t.depth + 1

/-- Application values that can be configured as defaults, abstractly. `float` carries the text
    Go's `encoding/json` prints for the float64 (a parameter: float formatting is not modelled);
    `enum name` is the Go value of the enum value `name` of the enum type at that position. -/
inductive Value where
  | null
  | int (i : Int)
  | float (text : String)
  | str (s : String)
  | bool (b : Bool)
  | enum (name : String)
  | list (vs : List Value)
  | obj (fs : List (String × Value))
  deriving Repr, Inhabited

/-! ## Schema definitions (parametric in the type `ι` of container identities) -/

inductive Kind where
  | scalar | object | interface | union | enum | inputObject
  deriving Repr, DecidableEq, Inhabited

/-- A `FeatureSet` (a Go map). -/
structure Feat (ι : Type) where
  id : ι
  keys : List String
  deriving Repr

/-- A field of Go type `schema.Type`: the expression and the identity of its outermost wrapper
    struct (the wrappers of one chain are allocated together by `fixTypePointer`). -/
structure TypeAt (ι : Type) where
  wid : ι
  ref : TRef
  deriving Repr

/-- `InputValueDefinition` of a directive definition (no applied directives of its own: the
    recursion Directive → Definition → Arguments → Directives is cut here; the harness's
    definitions satisfy this). -/
structure InputValueDef0 (ι : Type) where
  name : String
  description : String
  self : ι
  type : TypeAt ι
  default : Option Value
  deriving Repr

/-- `DirectiveDefinition`. `name` is its key in `SchemaDefinition.Directives` ("" when reached
    through an applied directive). -/
structure DirectiveDef (ι : Type) where
  name : String
  description : String
  self : ι
  locsId : ι
  locs : List String
  argsId : ι
  args : List (InputValueDef0 ι)
  deriving Repr

/-- `schema.Argument` of an applied directive. -/
structure Arg (ι : Type) where
  self : ι
  name : String
  value : Value
  deriving Repr

/-- `schema.Directive` (a directive applied to a definition). -/
structure Applied (ι : Type) where
  self : ι
  defn : DirectiveDef ι
  argsId : ι
  args : List (Arg ι)
  deriving Repr

/-- A `Directives []*Directive` field. -/
structure DirList (ι : Type) where
  id : ι
  items : List (Applied ι)
  deriving Repr

structure InputValueDef (ι : Type) where
  name : String
  description : String
  self : ι
  type : TypeAt ι
  default : Option Value
  dirs : DirList ι
  deriving Repr

structure FieldDef (ι : Type) where
  name : String
  description : String
  self : ι
  type : TypeAt ι
  argsId : ι
  args : List (InputValueDef ι)
  deprecation : String
  feat : Feat ι
  dirs : DirList ι
  deriving Repr

structure EnumValueDef (ι : Type) where
  name : String
  description : String
  self : ι
  deprecation : String
  dirs : DirList ι
  deriving Repr

/-- A named type (one record for the six Go struct types; unused parts are empty). -/
structure TypeDef (ι : Type) where
  kind : Kind
  name : String
  description : String
  self : ι
  feat : Feat ι
  dirs : DirList ι
  fieldsId : ι
  fields : List (FieldDef ι)
  ifacesId : ι
  ifaces : List String
  membersId : ι
  members : List String
  valuesId : ι
  values : List (EnumValueDef ι)
  inputsId : ι
  inputs : List (InputValueDef ι)
  deriving Repr

structure SchemaDef (ι : Type) where
  types : List (TypeDef ι)
  query : Option String
  mutation : Option String
  subscription : Option String
  additionalId : ι
  additional : List String
  directivesId : ι
  directives : List (DirectiveDef ι)
  deriving Repr

def builtinScalars : List String := ["Int", "Float", "String", "Boolean", "ID"]

def isBuiltin (n : String) : Bool := builtinScalars.contains n

def SchemaDef.lookup {ι : Type} (d : SchemaDef ι) (n : String) : Option (TypeDef ι) :=
  d.types.find? (fun t => t.name == n)

/-- `t.TypeRequiredFeatures()` of the named type `n` (wrappers forward to their leaf). -/
def SchemaDef.featuresOf {ι : Type} (d : SchemaDef ι) (n : String) : List String :=
  match d.lookup n with
  | some t => t.feat.keys
  | none => []

/-- `FeatureSet.IsSubsetOf`. -/
def subsetOf (a b : List String) : Bool := a.all (fun x => b.contains x)

/-! ## What `schema.New` builds: the registries -/

/-- A `*schema.Schema`: the definition plus the two registries built by `schema.New`
    (`namedTypes` keys; `interfaceImplementations`). -/
structure Schema where
  defn : SchemaDef Unit
  namedTypes : List String
  impls : List (String × List String)
  deriving Repr

def Schema.implsOf (S : Schema) (iface : String) : List String :=
  match S.impls.find? (fun p => p.1 == iface) with
  | some p => p.2
  | none => []

/-- Registry state while `Inspect` runs. -/
structure Reg where
  names : List String
  impls : List (String × List String)
  deriving Repr

def Reg.addImpl (r : Reg) (iface obj : String) : Reg :=
  if r.impls.any (fun p => p.1 == iface) then
    { r with impls := r.impls.map (fun p => if p.1 == iface then (p.1, p.2 ++ [obj]) else p) }
  else
    { r with impls := r.impls ++ [(iface, [obj])] }

/-- `Inspect` with `schema.New`'s callback, from a named type: an unvisited type is registered (an
    object is appended to the implementation list of each of its interfaces) and its references are
    visited in the order of inspect.go. `fuel` bounds the nesting depth (one level per newly
    registered type, so `types.length + 1` suffices). -/
def visit {ι : Type} (d : SchemaDef ι) : Nat → Reg → String → Reg
  | 0, r, _ => r
  | fuel + 1, r, n =>
    if r.names.contains n then r else
    match d.lookup n with
    | none => r
    | some t =>
      let r := { r with names := r.names ++ [n] }
      let r := if t.kind == .object then t.ifaces.foldl (fun r i => r.addImpl i n) r else r
      let visitIV0 := fun (r : Reg) (a : InputValueDef0 ι) => visit d fuel r a.type.ref.leaf
      let visitIV := fun (r : Reg) (a : InputValueDef ι) => visit d fuel r a.type.ref.leaf
      let visitField := fun (r : Reg) (f : FieldDef ι) =>
        f.args.foldl visitIV (visit d fuel r f.type.ref.leaf)
      let visitApplied := fun (r : Reg) (a : Applied ι) => a.defn.args.foldl visitIV0 r
      match t.kind with
      | .union => t.members.foldl (visit d fuel) r
      | .interface => t.fields.foldl visitField r
      | .inputObject => t.inputs.foldl visitIV r
      | .object => t.ifaces.foldl (visit d fuel) (t.fields.foldl visitField r)
      | .enum => t.dirs.items.foldl visitApplied r
      | .scalar => t.dirs.items.foldl visitApplied r

def visitOpt {ι : Type} (d : SchemaDef ι) (fuel : Nat) (r : Reg) : Option String → Reg
  | some n => visit d fuel r n
  | none => r

/-- The registries `schema.New` builds for a definition it accepts (the acceptance checks are
    `accepted` below). -/
def registries {ι : Type} (d : SchemaDef ι) : Reg :=
  let fuel := d.types.length + 1
  let r : Reg := { names := [], impls := [] }
  let r := d.directives.foldl (fun r dd => dd.args.foldl (fun r a => visit d fuel r a.type.ref.leaf) r) r
  let r := visitOpt d fuel r d.query
  let r := visitOpt d fuel r d.mutation
  let r := visitOpt d fuel r d.subscription
  d.additional.foldl (visit d fuel) r

/-! ## Introspection data (what the standard query returns) -/

/-- A type reference as selected by the `TypeRef` fragment. `cut k` is a wrapper whose `ofType`
    the query no longer asks for (query.go: eight levels). -/
inductive RefD where
  | named (kind : String) (name : String)
  | wrap (kind : String) (ofType : RefD)
  | cut (kind : String)
  deriving Repr, DecidableEq, Inhabited

inductive DefaultD where
  | none
  | text (s : String)
  | error            -- the `defaultValue` resolver returns an error
  deriving Repr, DecidableEq, Inhabited

structure InputValueD where
  name : String
  description : Option String
  type : RefD
  defaultValue : DefaultD
  deriving Repr, DecidableEq

structure FieldD where
  name : String
  description : Option String
  args : List InputValueD
  type : RefD
  isDeprecated : Bool
  deprecationReason : Option String
  deriving Repr, DecidableEq

structure EnumValueD where
  name : String
  description : Option String
  isDeprecated : Bool
  deprecationReason : Option String
  deriving Repr, DecidableEq

structure TypeD where
  kind : String
  name : String
  description : Option String
  fields : Option (List FieldD)
  inputFields : Option (List InputValueD)
  interfaces : Option (List RefD)
  enumValues : Option (List EnumValueD)
  possibleTypes : Option (List RefD)
  deriving Repr, DecidableEq

structure DirectiveD where
  name : String
  description : Option String
  locations : List String
  args : List InputValueD
  deriving Repr, DecidableEq

structure IntroData where
  queryType : Option String
  mutationType : Option String
  subscriptionType : Option String
  types : List TypeD
  directives : List DirectiveD
  deriving Repr, DecidableEq

/-! ## marshalValue (marshal_value.go:13-60) -/

/-- Lower-case hexadecimal digit (Go: `"0123456789abcdef"[n]`). -/
def hexDigit (n : Nat) : Char := Nat.digitChar n

/-- `\u00XX` / `\uXXXX` with four lower-case hex digits. -/
def uEscape (n : Nat) : List Char :=
  ['\\', 'u', hexDigit (n / 4096 % 16), hexDigit (n / 256 % 16), hexDigit (n / 16 % 16), hexDigit (n % 16)]

/-- Go's `encoding/json` string escaping as used by `json.Marshal` (HTML escaping on), per code
    point (Go 1.22+: `\b` and `\f` have short forms). -/
def jsonEscapeChar (c : Char) : List Char :=
  if c.toNat = 34 then ['\\', '\x22']                       -- "
  else if c.toNat = 92 then ['\\', '\\']                  -- \
  else if c.toNat = 10 then ['\\', 'n']
  else if c.toNat = 13 then ['\\', 'r']
  else if c.toNat = 9 then ['\\', 't']
  else if c.toNat = 8 then ['\\', 'b']
  else if c.toNat = 12 then ['\\', 'f']
  else if c.toNat < 32 then uEscape c.toNat
  else if c.toNat = 60 ∨ c.toNat = 62 ∨ c.toNat = 38 then uEscape c.toNat     -- < > &
  else if c.toNat = 0x2028 ∨ c.toNat = 0x2029 then uEscape c.toNat
  else [c]

def jsonEscape (cs : List Char) : List Char := cs.flatMap jsonEscapeChar

def jsonString (s : String) : String :=
  String.ofList ('\x22' :: jsonEscape s.toList ++ ['\x22'])

/-- `marshalValue(t.Type, v)` for `*NonNullType` recurses with the same value. -/
def stripNonNull : TRef → TRef
  | .nonNull t => stripNonNull t
  | t => t

def joinWith (sep : String) : List String → String
  | [] => ""
  | [x] => x
  | x :: xs => x ++ sep ++ joinWith sep xs

mutual
  /-- `none` = the Go function returns an error (or panics on a field that does not exist). -/
  def marshalValue {ι : Type} (d : SchemaDef ι) (t : TRef) : Value → Option String
    | .null => some "null"
    | .int i =>
      match stripNonNull t with
      | .named n => match d.lookup n with
        | some td => if td.kind == .scalar then some (toString i) else none
        | none => none
      | _ => none
    | .float text =>
      match stripNonNull t with
      | .named n => match d.lookup n with
        | some td => if td.kind == .scalar then some text else none
        | none => none
      | _ => none
    | .str s =>
      match stripNonNull t with
      | .named n => match d.lookup n with
        | some td => if td.kind == .scalar then some (jsonString s) else none
        | none => none
      | _ => none
    | .bool b =>
      match stripNonNull t with
      | .named n => match d.lookup n with
        | some td => if td.kind == .scalar then some (if b then "true" else "false") else none
        | none => none
      | _ => none
    | .enum name =>
      match stripNonNull t with
      | .named n => match d.lookup n with
        | some td =>
          if td.kind == .enum then
            (if td.values.any (fun v => v.name == name) then some name else none)
          else none
        | none => none
      | _ => none
    | .list vs =>
      match stripNonNull t with
      | .list item => (marshalList d item vs).map (fun parts => "[" ++ joinWith ", " parts ++ "]")
      | _ => none
    | .obj fs =>
      match stripNonNull t with
      | .named n => match d.lookup n with
        | some td =>
          if td.kind == .inputObject then
            (marshalFields d td.inputs fs).map (fun parts => "{" ++ joinWith ", " parts ++ "}")
          else none
        | none => none
      | _ => none
  def marshalList {ι : Type} (d : SchemaDef ι) (item : TRef) : List Value → Option (List String)
    | [] => some []
    | v :: vs =>
      match marshalValue d item v, marshalList d item vs with
      | some s, some rest => some (s :: rest)
      | _, _ => none
  def marshalFields {ι : Type} (d : SchemaDef ι) (inputs : List (InputValueDef ι)) :
      List (String × Value) → Option (List String)
    | [] => some []
    | (k, v) :: fs =>
      match inputs.find? (fun f => f.name == k) with
      | none => none
      | some f =>
        match marshalValue d f.type.ref v, marshalFields d inputs fs with
        | some s, some rest => some ((k ++ ": " ++ s) :: rest)
        | _, _ => none
end

/-! ## The resolvers (introspection.go), as driven by the standard query -/

/-- `nullableString`. -/
def nullableString (s : String) : Option String := if s = "" then none else some s

def kindName : Kind → String
  | .scalar => "SCALAR"
  | .object => "OBJECT"
  | .interface => "INTERFACE"
  | .union => "UNION"
  | .enum => "ENUM"
  | .inputObject => "INPUT_OBJECT"

/-- `kind` of the named type `n` (every Go type pointer has a kind; a name that is not in the
    table — excluded by `WF` — gets "?"). -/
def SchemaDef.kindNameOf {ι : Type} (d : SchemaDef ι) (n : String) : String :=
  match d.lookup n with
  | some t => kindName t.kind
  | none => "?"

/-- The `TypeRef` fragment applied to a type: `levels` more `ofType` selections are available. -/
def refData {ι : Type} (d : SchemaDef ι) : Nat → TRef → RefD
  | _, .named n => .named (d.kindNameOf n) n
  | 0, .list _ => .cut "LIST"
  | 0, .nonNull _ => .cut "NON_NULL"
  | k + 1, .list t => .wrap "LIST" (refData d k t)
  | k + 1, .nonNull t => .wrap "NON_NULL" (refData d k t)

/-- query.go: `TypeRef` selects kind/name and seven nested `ofType`. -/
def typeRefLevels : Nat := 7

def namedRef {ι : Type} (d : SchemaDef ι) (n : String) : RefD := refData d typeRefLevels (.named n)

def defaultData {ι : Type} (d : SchemaDef ι) (t : TRef) : Option Value → DefaultD
  | none => .none
  | some v => match marshalValue d t v with
    | some s => .text s
    | none => .error

def inputValueData {ι : Type} (d : SchemaDef ι) (a : InputValueDef ι) : InputValueD :=
  { name := a.name, description := nullableString a.description,
    type := refData d typeRefLevels a.type.ref, defaultValue := defaultData d a.type.ref a.default }

def inputValueData0 {ι : Type} (d : SchemaDef ι) (a : InputValueDef0 ι) : InputValueD :=
  { name := a.name, description := nullableString a.description,
    type := refData d typeRefLevels a.type.ref, defaultValue := defaultData d a.type.ref a.default }

def fieldData {ι : Type} (d : SchemaDef ι) (f : FieldDef ι) : FieldD :=
  { name := f.name, description := nullableString f.description,
    args := f.args.map (inputValueData d), type := refData d typeRefLevels f.type.ref,
    isDeprecated := f.deprecation != "", deprecationReason := nullableString f.deprecation }

def enumValueData {ι : Type} (v : EnumValueDef ι) : EnumValueD :=
  { name := v.name, description := nullableString v.description,
    isDeprecated := v.deprecation != "", deprecationReason := nullableString v.deprecation }

/-- Insertion of the normalisation "sort by name" (the lists come out of Go maps / registries whose
    order is unspecified). -/
def sortNames (l : List String) : List String := l.mergeSort (fun a b => decide (a ≤ b))

def sortTypes (l : List TypeD) : List TypeD := l.mergeSort (fun a b => decide (a.name ≤ b.name))

/-- The `__Type` resolvers for a named type, with `includeDeprecated: true` as in the query. -/
def typeData (S : Schema) (F : List String) (t : TypeDef Unit) : TypeD :=
  let d := S.defn
  { kind := kindName t.kind, name := t.name, description := nullableString t.description,
    fields :=
      if t.kind == .object || t.kind == .interface then
        some ((t.fields.filter (fun f => subsetOf f.feat.keys F)).map (fieldData d))
      else none,
    inputFields := if t.kind == .inputObject then some (t.inputs.map (inputValueData d)) else none,
    interfaces :=
      if t.kind == .object then
        some ((t.ifaces.filter (fun i => subsetOf (d.featuresOf i) F)).map (namedRef d))
      else none,
    enumValues := if t.kind == .enum then some (t.values.map enumValueData) else none,
    possibleTypes :=
      if t.kind == .interface then
        some ((sortNames ((S.implsOf t.name).filter (fun o => subsetOf (d.featuresOf o) F))).map (namedRef d))
      else if t.kind == .union then some (t.members.map (namedRef d))
      else none }

def directiveData {ι : Type} (d : SchemaDef ι) (dd : DirectiveDef ι) : DirectiveD :=
  { name := dd.name, description := nullableString dd.description, locations := dd.locs,
    args := dd.args.map (inputValueData0 d) }

/-- `mutationType` / `subscriptionType` (after fix C13/04): a root type whose required features the
    request does not have is treated as absent (`queryType` is returned as is). -/
def visibleRoot {ι : Type} (d : SchemaDef ι) (F : List String) : Option String → Option String
  | some n => if subsetOf (d.featuresOf n) F then some n else none
  | none => none

/-- `DirectiveDefinition.VisibleArguments(features)` (fix C13/05): a directive argument whose
    type's required features are not all enabled is treated as undefined. -/
def visibleDirective {ι : Type} (d : SchemaDef ι) (F : List String) (dd : DirectiveDef ι) : DirectiveDef ι :=
  { dd with args := dd.args.filter (fun a => subsetOf (d.featuresOf a.type.ref.leaf) F) }

/-- **The model of the standard introspection query**: `__schema { queryType mutationType
    subscriptionType types directives }` for a request with feature set `F`, list order normalised
    where the Go side has none (the `types` list and `possibleTypes` of interfaces are sorted by
    name; all other lists keep the order of the definition's association lists). -/
def introspect (S : Schema) (F : List String) : IntroData :=
  let d := S.defn
  { queryType := d.query, mutationType := visibleRoot d F d.mutation,
    subscriptionType := visibleRoot d F d.subscription,
    types := sortTypes (((S.namedTypes.filterMap d.lookup).filter (fun t => subsetOf t.feat.keys F)).map (typeData S F)),
    directives := d.directives.map (fun dd => directiveData d (visibleDirective d F dd)) }

/-! ## Acceptance: the invariant of `schema.New`'s result that introspection relies on -/

def nodupNames (l : List String) : Bool :=
  match l with
  | [] => true
  | x :: xs => !xs.contains x && nodupNames xs

def TypeDef.refNames {ι : Type} (t : TypeDef ι) : List String :=
  t.fields.flatMap (fun f => f.type.ref.leaf :: f.args.map (fun a => a.type.ref.leaf))
    ++ t.inputs.map (fun a => a.type.ref.leaf) ++ t.ifaces ++ t.members

def optList : Option String → List String
  | some n => [n]
  | none => []

/-- Go-map key uniqueness and by-name soundness of the table; union members are unique
    (union_type.go `shallowValidate`); `ImplementedInterfaces` lists no interface twice (not checked
    by `schema.New`: a guard of the model — a duplicate would be listed as often as configured). -/
def wf {ι : Type} (d : SchemaDef ι) : Bool :=
  nodupNames (d.types.map (·.name))
  && nodupNames (d.directives.map (·.name))
  && d.directives.all (fun dd => nodupNames (dd.args.map (·.name)))
  && d.types.all (fun t =>
      nodupNames (t.fields.map (·.name)) && nodupNames (t.inputs.map (·.name))
      && nodupNames (t.values.map (·.name))
      && t.fields.all (fun f => nodupNames (f.args.map (·.name)))
      && nodupNames t.ifaces && nodupNames t.members)

/-- Registry closure (what `Inspect` + the registration in `schema.New` establish). -/
def closed (S : Schema) : Bool :=
  let d := S.defn
  let reg := fun n => S.namedTypes.contains n
  nodupNames S.namedTypes
  && S.namedTypes.all (fun n => (d.lookup n).isSome)
  && (optList d.query ++ optList d.mutation ++ optList d.subscription ++ d.additional).all reg
  && d.directives.all (fun dd => dd.args.all (fun a => reg a.type.ref.leaf))
  && d.types.all (fun t => !reg t.name || t.refNames.all reg)

/-- `interfaceImplementations[i]` lists exactly the registered objects that declare `i`, once. -/
def implsExact (S : Schema) : Bool :=
  let d := S.defn
  nodupNames (S.impls.map (·.1))
  && d.types.all (fun i => i.kind != .interface ||
      (nodupNames (S.implsOf i.name)
       && (S.implsOf i.name).all (fun o => S.namedTypes.contains o
            && (match d.lookup o with
                | some ot => ot.kind == .object && ot.ifaces.contains i.name
                | none => false))
       && d.types.all (fun ot => !(ot.kind == .object && S.namedTypes.contains ot.name && ot.ifaces.contains i.name)
            || (S.implsOf i.name).contains ot.name)))

/-- References have the kinds the Go types force (`ImplementedInterfaces []*InterfaceType`,
    `MemberTypes []*ObjectType`, root operation types `*ObjectType`). -/
def SchemaDef.kindIs {ι : Type} (d : SchemaDef ι) (n : String) (k : Kind) : Bool :=
  match d.lookup n with
  | some t => t.kind == k
  | none => false

def kindsOk {ι : Type} (d : SchemaDef ι) : Bool :=
  d.types.all (fun t => t.ifaces.all (fun i => d.kindIs i .interface) && t.members.all (fun m => d.kindIs m .object))
  && (optList d.query ++ optList d.mutation ++ optList d.subscription).all (fun n => d.kindIs n .object)
  -- "schemas must define the query operation"; "… builtin may not be overridden"
  && d.query.isSome
  && d.types.all (fun t => !isBuiltin t.name || t.kind == .scalar)
  -- one record stands for six Go struct types: the parts a kind does not have are empty
  && d.types.all (fun t =>
      (t.kind == .object || t.kind == .interface || t.fields.isEmpty)
      && (t.kind == .object || t.ifaces.isEmpty)
      && (t.kind == .union || t.members.isEmpty)
      && (t.kind == .enum || t.values.isEmpty)
      && (t.kind == .inputObject || t.inputs.isEmpty))

/-- The feature constraints `shallowValidate` enforces (object_type.go, interface_type.go,
    union_type.go, input_object_type.go). -/
def featuresOk (S : Schema) : Bool :=
  let d := S.defn
  d.types.all (fun t => !S.namedTypes.contains t.name ||
    ((t.kind != .object && t.kind != .interface ||
        t.fields.all (fun f =>
          subsetOf (d.featuresOf f.type.ref.leaf) (f.feat.keys ++ t.feat.keys)
          && f.args.all (fun a => subsetOf (d.featuresOf a.type.ref.leaf) (f.feat.keys ++ t.feat.keys))))
     && (t.kind != .union || t.members.all (fun m => subsetOf (d.featuresOf m) t.feat.keys))
     && (t.kind != .inputObject || t.inputs.all (fun a => subsetOf (d.featuresOf a.type.ref.leaf) t.feat.keys))))

/-- No directive argument has a type that requires features. `schema.New` does not enforce this;
    before fix C13/05 (`VisibleArguments`) such an argument was listed for every request (finding
    F-10g, witness in Props.lean). No theorem needs this predicate any more. -/
def dirArgsUngated {ι : Type} (d : SchemaDef ι) : Bool :=
  d.directives.all (fun dd => dd.args.all (fun a => d.featuresOf a.type.ref.leaf == []))

/-- `Accepted S`: everything the theorems assume about a schema that `schema.New` returned. The
    harness evaluates this predicate on the registries of every real schema it builds. -/
def accepted (S : Schema) : Bool :=
  wf S.defn && closed S && implsExact S && kindsOk S.defn && featuresOk S

/-! ## Identities: erasing, collecting, cloning -/

section Ids
variable {ι κ : Type}

def Feat.mapI (f : ι → κ) (x : Feat ι) : Feat κ := { id := f x.id, keys := x.keys }
def TypeAt.mapI (f : ι → κ) (x : TypeAt ι) : TypeAt κ := { wid := f x.wid, ref := x.ref }
def InputValueDef0.mapI (f : ι → κ) (x : InputValueDef0 ι) : InputValueDef0 κ :=
  { name := x.name, description := x.description, self := f x.self, type := x.type.mapI f, default := x.default }
def DirectiveDef.mapI (f : ι → κ) (x : DirectiveDef ι) : DirectiveDef κ :=
  { name := x.name, description := x.description, self := f x.self, locsId := f x.locsId, locs := x.locs,
    argsId := f x.argsId, args := x.args.map (·.mapI f) }
def Arg.mapI (f : ι → κ) (x : Arg ι) : Arg κ := { self := f x.self, name := x.name, value := x.value }
def Applied.mapI (f : ι → κ) (x : Applied ι) : Applied κ :=
  { self := f x.self, defn := x.defn.mapI f, argsId := f x.argsId, args := x.args.map (·.mapI f) }
def DirList.mapI (f : ι → κ) (x : DirList ι) : DirList κ := { id := f x.id, items := x.items.map (·.mapI f) }
def InputValueDef.mapI (f : ι → κ) (x : InputValueDef ι) : InputValueDef κ :=
  { name := x.name, description := x.description, self := f x.self, type := x.type.mapI f,
    default := x.default, dirs := x.dirs.mapI f }
def FieldDef.mapI (f : ι → κ) (x : FieldDef ι) : FieldDef κ :=
  { name := x.name, description := x.description, self := f x.self, type := x.type.mapI f,
    argsId := f x.argsId, args := x.args.map (·.mapI f), deprecation := x.deprecation,
    feat := x.feat.mapI f, dirs := x.dirs.mapI f }
def EnumValueDef.mapI (f : ι → κ) (x : EnumValueDef ι) : EnumValueDef κ :=
  { name := x.name, description := x.description, self := f x.self, deprecation := x.deprecation, dirs := x.dirs.mapI f }
def TypeDef.mapI (f : ι → κ) (x : TypeDef ι) : TypeDef κ :=
  { kind := x.kind, name := x.name, description := x.description, self := f x.self, feat := x.feat.mapI f,
    dirs := x.dirs.mapI f, fieldsId := f x.fieldsId, fields := x.fields.map (·.mapI f),
    ifacesId := f x.ifacesId, ifaces := x.ifaces, membersId := f x.membersId, members := x.members,
    valuesId := f x.valuesId, values := x.values.map (·.mapI f), inputsId := f x.inputsId,
    inputs := x.inputs.map (·.mapI f) }
def SchemaDef.mapI (f : ι → κ) (x : SchemaDef ι) : SchemaDef κ :=
  { types := x.types.map (·.mapI f), query := x.query, mutation := x.mutation, subscription := x.subscription,
    additionalId := f x.additionalId, additional := x.additional, directivesId := f x.directivesId,
    directives := x.directives.map (·.mapI f) }

/-- Forget every identity: the content of a definition. -/
def SchemaDef.erase (x : SchemaDef ι) : SchemaDef Unit := x.mapI (fun _ => ())

end Ids

/-- The heap model: identities are `Option Nat`, `none` = nil (no container). -/
abbrev Id := Option Nat
abbrev GDef := SchemaDef Id

def idList (i : Id) : List Nat := match i with
  | some n => [n]
  | none => []

def Feat.ids (x : Feat Id) : List Nat := idList x.id
def TypeAt.ids (x : TypeAt Id) : List Nat := idList x.wid
def InputValueDef0.ids (x : InputValueDef0 Id) : List Nat := idList x.self ++ x.type.ids
def DirectiveDef.ids (x : DirectiveDef Id) : List Nat :=
  idList x.self ++ idList x.locsId ++ idList x.argsId ++ x.args.flatMap (·.ids)
def Arg.ids (x : Arg Id) : List Nat := idList x.self
def Applied.ids (x : Applied Id) : List Nat :=
  idList x.self ++ x.defn.ids ++ idList x.argsId ++ x.args.flatMap (·.ids)
def DirList.ids (x : DirList Id) : List Nat := idList x.id ++ x.items.flatMap (·.ids)
def InputValueDef.ids (x : InputValueDef Id) : List Nat := idList x.self ++ x.type.ids ++ x.dirs.ids
def FieldDef.ids (x : FieldDef Id) : List Nat :=
  idList x.self ++ x.type.ids ++ idList x.argsId ++ x.args.flatMap (·.ids) ++ x.feat.ids ++ x.dirs.ids
def EnumValueDef.ids (x : EnumValueDef Id) : List Nat := idList x.self ++ x.dirs.ids
def TypeDef.ids (x : TypeDef Id) : List Nat :=
  idList x.self ++ x.feat.ids ++ x.dirs.ids ++ idList x.fieldsId ++ x.fields.flatMap (·.ids)
    ++ idList x.ifacesId ++ idList x.membersId ++ idList x.valuesId ++ x.values.flatMap (·.ids)
    ++ idList x.inputsId ++ x.inputs.flatMap (·.ids)

/-- Identities of the mutable containers of a definition. The built-in scalar singletons are
    exempt: `schema.New` insists on their pointer identity, a clone has to share them. -/
def GDef.ids (d : GDef) : List Nat :=
  (d.types.filter (fun t => !isBuiltin t.name)).flatMap (·.ids)
    ++ idList d.additionalId ++ idList d.directivesId ++ d.directives.flatMap (·.ids)

/-! ### `deepCopySchemaDefinition` (deep_copy.go, with fix patches 01 and 02)

  `fresh b i`: the identity of the new container allocated as the copy of the one with identity
  `i` (`make`, `copy := *t`, `NewListType`, …): nil stays nil, otherwise a new identity `b + i`.
  `b` is chosen above every identity of the original (hypothesis of `clone_disjoint`). -/

def fresh (b : Nat) : Id → Id
  | some i => some (b + i)
  | none => none

/-- `deepCopyFeatureSet`. -/
def cloneFeat (b : Nat) (x : Feat Id) : Feat Id := { id := fresh b x.id, keys := x.keys }

/-- `fixTypePointer`: wrappers are re-allocated (`NewListType` / `NewNonNullType`), the named leaf
    is looked up by name (the by-name reference stays the same name). -/
def cloneTypeAt (b : Nat) (x : TypeAt Id) : TypeAt Id := { wid := fresh b x.wid, ref := x.ref }

/-- `newField := *v; fixNamedTypePointers(&newField, …)` for an `*InputValueDefinition` of a
    directive definition. -/
def cloneIV0 (b : Nat) (x : InputValueDef0 Id) : InputValueDef0 Id :=
  { x with self := fresh b x.self, type := cloneTypeAt b x.type }

/-- `case *DirectiveDefinition` (after `newValue := *v`): Locations and Arguments are copied. -/
def cloneDirectiveDef (b : Nat) (x : DirectiveDef Id) : DirectiveDef Id :=
  { x with self := fresh b x.self, locsId := fresh b x.locsId, argsId := fresh b x.argsId,
           args := x.args.map (cloneIV0 b) }

def cloneArg (b : Nat) (x : Arg Id) : Arg Id := { x with self := fresh b x.self }

/-- `newValue := *v; fixNamedTypePointers(&newValue, …)` for a `*Directive`. -/
def cloneApplied (b : Nat) (x : Applied Id) : Applied Id :=
  { self := fresh b x.self, defn := cloneDirectiveDef b x.defn, argsId := fresh b x.argsId,
    args := x.args.map (cloneArg b) }

/-- The `if n.Directives != nil { … }` block. -/
def cloneDirList (b : Nat) (x : DirList Id) : DirList Id :=
  { id := fresh b x.id, items := x.items.map (cloneApplied b) }

def cloneIV (b : Nat) (x : InputValueDef Id) : InputValueDef Id :=
  { x with self := fresh b x.self, type := cloneTypeAt b x.type, dirs := cloneDirList b x.dirs }

def cloneField (b : Nat) (x : FieldDef Id) : FieldDef Id :=
  { x with self := fresh b x.self, type := cloneTypeAt b x.type, argsId := fresh b x.argsId,
           args := x.args.map (cloneIV b), feat := cloneFeat b x.feat, dirs := cloneDirList b x.dirs }

def cloneEnumValue (b : Nat) (x : EnumValueDef Id) : EnumValueDef Id :=
  { x with self := fresh b x.self, dirs := cloneDirList b x.dirs }

/-- `copy := *t` followed by `fixNamedTypePointers(copy, newNamedTypes)`. -/
def cloneType (b : Nat) (x : TypeDef Id) : TypeDef Id :=
  { x with self := fresh b x.self, feat := cloneFeat b x.feat, dirs := cloneDirList b x.dirs,
           fieldsId := fresh b x.fieldsId, fields := x.fields.map (cloneField b),
           ifacesId := fresh b x.ifacesId, membersId := fresh b x.membersId,
           valuesId := fresh b x.valuesId, values := x.values.map (cloneEnumValue b),
           inputsId := fresh b x.inputsId, inputs := x.inputs.map (cloneIV b) }

/-- `deepCopySchemaDefinition`: the named types `Inspect` reaches are copied (`newNamedTypes`);
    built-in scalars and named types `Inspect` does not reach keep their original struct
    (`fixTypePointer` returns `t`). -/
def cloneDef (b : Nat) (d : GDef) : GDef :=
  let copied := (registries d).names
  { types := d.types.map (fun t => if !isBuiltin t.name && copied.contains t.name then cloneType b t else t),
    query := d.query, mutation := d.mutation, subscription := d.subscription,
    additionalId := fresh b d.additionalId, additional := d.additional,
    directivesId := fresh b d.directivesId, directives := d.directives.map (cloneDirectiveDef b) }

/-! ## `SchemaData.GetSchemaDefinition` (schema_data.go) -/

def kindOfName : String → Option Kind
  | "SCALAR" => some .scalar
  | "OBJECT" => some .object
  | "INTERFACE" => some .interface
  | "UNION" => some .union
  | "ENUM" => some .enum
  | "INPUT_OBJECT" => some .inputObject
  | _ => none

/-- Non-nil containers of a rebuilt definition all get the identity `some 0` (the rebuilt
    definition is only compared with identities erased). -/
def alloc : Id := some 0

/-- `TypeData.getType`: `types` is the name → shell-kind table. -/
def getType (types : List (String × Kind)) : RefD → Except String TRef
  | .wrap "LIST" r => (getType types r).map .list
  | .wrap "NON_NULL" r => (getType types r).map .nonNull
  | .cut "LIST" => .error "null ofType for list type"
  | .cut "NON_NULL" => .error "null ofType for non-null type"
  | .wrap _ _ => .error "type not found: "
  | .cut _ => .error "type not found: "
  | .named _ n => if types.any (fun p => p.1 == n) then .ok (.named n) else .error ("type not found: " ++ n)

def typeAtOf (t : TRef) : TypeAt Id :=
  { wid := match t with
      | .named _ => none
      | _ => alloc,
    ref := t }

def mapExcept {α β : Type} (f : α → Except String β) : List α → Except String (List β)
  | [] => .ok []
  | x :: xs => match f x, mapExcept f xs with
    | .ok y, .ok ys => .ok (y :: ys)
    | .error e, _ => .error e
    | _, .error e => .error e

/-- Go map assignment `m[k] = v` over a list of entries: a later entry with the same key replaces
    the earlier one (at the earlier position; positions are not observable). -/
def mapInsert {α : Type} (key : α → String) (m : List α) (x : α) : List α :=
  if m.any (fun y => key y == key x) then m.map (fun y => if key y == key x then x else y) else m ++ [x]

def nilDirs : DirList Id := { id := none, items := [] }
def nilFeat : Feat Id := { id := none, keys := [] }

/-- What `getInputValueDefinition` records of the `defaultValue` member. Before fix patch 06
    (`keep = false`) nothing: `InputValueData` had no such member (finding F-10a). With patch 06
    (`keep = true`) the literal text is decoded; it is turned into a value only once all types are
    complete (`setDefaultValues`, RebuildKeep.lean) — until then the text is carried as
    `Value.float text` ("a literal the model has not read yet"). -/
def pendingDefault (keep : Bool) : DefaultD → Option Value
  | .text s => if keep then some (.float s) else none
  | _ => none

/-- `InputValueData.getInputValueDefinition`. -/
def rebuildIV (keep : Bool) (types : List (String × Kind)) (a : InputValueD) : Except String (InputValueDef Id) :=
  (getType types a.type).map fun t =>
    { name := a.name, description := a.description.getD "", self := alloc, type := typeAtOf t,
      default := pendingDefault keep a.defaultValue, dirs := nilDirs }

def rebuildIV0 (keep : Bool) (types : List (String × Kind)) (a : InputValueD) : Except String (InputValueDef0 Id) :=
  (getType types a.type).map fun t =>
    { name := a.name, description := a.description.getD "", self := alloc, type := typeAtOf t,
      default := pendingDefault keep a.defaultValue }

/-- `FieldData.getFieldDefinition`. -/
def rebuildField (keep : Bool) (types : List (String × Kind)) (f : FieldD) : Except String (FieldDef Id) :=
  match getType types f.type, mapExcept (rebuildIV keep types) f.args with
  | .ok t, .ok args =>
    .ok { name := f.name, description := f.description.getD "", self := alloc, type := typeAtOf t,
          argsId := alloc, args := args.foldl (mapInsert (·.name)) [],
          deprecation := f.deprecationReason.getD "", feat := nilFeat, dirs := nilDirs }
  | .error e, _ => .error e
  | _, .error e => .error e

def kindIn (types : List (String × Kind)) (n : String) : Option Kind :=
  (types.find? (fun p => p.1 == n)).map (·.2)

/-- A named reference that must be of kind `k` (`getType` + the type assertion). -/
def namedOfKind (types : List (String × Kind)) (k : Kind) (what : String) (r : RefD) : Except String String :=
  match getType types r with
  | .ok (.named n) => if kindIn types n == some k then .ok n else .error (what ++ n)
  | .ok _ => .error what
  | .error e => .error e

def builtinType (n : String) : TypeDef Id :=
  { kind := .scalar, name := n, description := "", self := alloc, feat := nilFeat, dirs := nilDirs,
    fieldsId := none, fields := [], ifacesId := none, ifaces := [], membersId := none, members := [],
    valuesId := none, values := [], inputsId := none, inputs := [] }

/-- The second loop of `GetSchemaDefinition` for one entry of `Types`. -/
def rebuildType (keep : Bool) (types : List (String × Kind)) (t : TypeD) : Except String (TypeDef Id) :=
  if isBuiltin t.name then .ok (builtinType t.name) else
  let base : TypeDef Id :=
    { (builtinType t.name) with description := t.description.getD "" }
  match kindOfName t.kind with
  | none => .error ("unsupported type kind in types list: " ++ t.kind)
  | some .scalar => .ok base
  | some .object =>
    match mapExcept (rebuildField keep types) (t.fields.getD []),
          mapExcept (namedOfKind types .interface "type is not an interface: ") (t.interfaces.getD []) with
    | .ok fs, .ok is =>
      .ok { base with kind := .object, fieldsId := alloc, fields := fs.foldl (mapInsert (·.name)) [],
                      ifacesId := if is.isEmpty then none else alloc, ifaces := is }
    | .error e, _ => .error e
    | _, .error e => .error e
  | some .interface =>
    match mapExcept (rebuildField keep types) (t.fields.getD []) with
    | .ok fs => .ok { base with kind := .interface, fieldsId := alloc, fields := fs.foldl (mapInsert (·.name)) [] }
    | .error e => .error e
  | some .union =>
    match mapExcept (namedOfKind types .object "type is not an object: ") (t.possibleTypes.getD []) with
    | .ok ms => .ok { base with kind := .union, membersId := if ms.isEmpty then none else alloc, members := ms }
    | .error e => .error e
  | some .enum =>
    let vs : List (EnumValueDef Id) := (t.enumValues.getD []).map fun v =>
      { name := v.name, description := v.description.getD "", self := alloc,
        deprecation := v.deprecationReason.getD "", dirs := nilDirs }
    .ok { base with kind := .enum, valuesId := alloc, values := vs.foldl (mapInsert (·.name)) [] }
  | some .inputObject =>
    match mapExcept (rebuildIV keep types) (t.inputFields.getD []) with
    | .ok fs => .ok { base with kind := .inputObject, inputsId := alloc, inputs := fs.foldl (mapInsert (·.name)) [] }
    | .error e => .error e

def knownLocations : List String :=
  ["QUERY", "MUTATION", "SUBSCRIPTION", "FIELD", "FRAGMENT_DEFINITION", "FRAGMENT_SPREAD", "INLINE_FRAGMENT",
   "SCHEMA", "SCALAR", "OBJECT", "FIELD_DEFINITION", "ARGUMENT_DEFINITION", "INTERFACE", "UNION", "ENUM",
   "ENUM_VALUE", "INPUT_OBJECT", "INPUT_FIELD_DEFINITION"]

/-- `DirectiveData.getDirectiveDefinition`. -/
def rebuildDirective (keep : Bool) (types : List (String × Kind)) (x : DirectiveD) : Except String (DirectiveDef Id) :=
  match x.locations.find? (fun l => !knownLocations.contains l) with
  | some l => .error ("unsupported directive location: " ++ l)
  | none =>
    match mapExcept (rebuildIV0 keep types) x.args with
    | .ok args =>
      .ok { name := x.name, description := x.description.getD "", self := alloc,
            locsId := if x.locations.isEmpty then none else alloc, locs := x.locations,
            argsId := alloc, args := args.foldl (mapInsert (·.name)) [] }
    | .error e => .error e

/-- A root operation type name must be a listed object type. -/
def rootOf (types : List (String × Kind)) (what : String) (n : String) : Except String String :=
  match kindIn types n with
  | none => .error ("type not found: " ++ n)
  | some .object => .ok n
  | some _ => .error (what ++ " type is not an object")

/-- The first loop of `GetSchemaDefinition`: the shell (kind) registered for a listed type. -/
def tableEntry (t : TypeD) : Except String (String × Kind) :=
  if isBuiltin t.name then .ok (t.name, Kind.scalar) else
  match kindOfName t.kind with
  | some k => .ok (t.name, k)
  | none => .error ("unsupported type kind in types list: " ++ t.kind)

/-- `MutationType` / `SubscriptionType` (optional roots). -/
def optRoot (types : List (String × Kind)) (what : String) : Option String → Except String (Option String)
  | some n => (rootOf types what n).map some
  | none => .ok none

/-- The rest of `GetSchemaDefinition` once the shells exist and the query root is named. -/
def rebuildWith (keep : Bool) (types : List (String × Kind)) (x : IntroData) (q : String) : Except String GDef :=
  match rootOf types "query" q, optRoot types "mutation" x.mutationType,
        optRoot types "subcription" x.subscriptionType,
        mapExcept (rebuildType keep types) x.types, mapExcept (rebuildDirective keep types) x.directives with
  | .ok q, .ok m, .ok s, .ok ts, .ok ds =>
    let additional := (ts.filter (fun t => t.kind == .object && !t.ifaces.isEmpty)).map (·.name)
    .ok { types := ts, query := some q, mutation := m, subscription := s,
          additionalId := if additional.isEmpty then none else alloc, additional := additional,
          directivesId := alloc, directives := ds.foldl (mapInsert (·.name)) [] }
  | .error e, _, _, _, _ => .error e
  | _, .error e, _, _, _ => .error e
  | _, _, .error e, _, _ => .error e
  | _, _, _, .error e, _ => .error e
  | _, _, _, _, .error e => .error e

/-- `GetSchemaDefinition` up to (not including) `setDefaultValues`. The model declines duplicate
    type names in the `types` list (the Go code then lets the later shell win and fills it twice; no
    introspection result of an accepted schema has duplicates — `describe_types_once`). The result's
    table holds every listed type; `AdditionalTypes` are the objects with at least one interface. -/
def rebuildRaw (keep : Bool) (x : IntroData) : Except String GDef :=
  if !nodupNames (x.types.map (·.name)) then .error "duplicate type name in the types list (outside the model)" else
  match mapExcept tableEntry x.types with
  | .error e => .error e
  | .ok types =>
    match x.queryType with
    | none => .error "type not found: "
    | some q => rebuildWith keep types x q

/-- **`GetSchemaDefinition` before fix patch 06**: defaults are not carried (F-10a). -/
def rebuild (x : IntroData) : Except String GDef := rebuildRaw false x

end ApiFu.C10
