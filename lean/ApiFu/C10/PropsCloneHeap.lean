/-
  C10, Clone clause — theorems over the heap model of `deepCopySchemaDefinition` (CloneHeap.lean):
  for EVERY definition graph (cycles through named types, shared sub-structures, applied directives
  whose definitions are or are not listed, any number of paths to one struct) and EVERY outcome of
  pass 1 (the list `L` of collected named types), a run of `clone` that returns

  * writes nothing that existed before                           (`heap_clone_frame`),
  * yields a definition with the same observations as the original, to every depth
                                                                  (`heap_clone_same_observations`),
  * and everything reachable from the clone was allocated by the call — except what hangs below a
    named type the table does not know, reached through that type's ORIGINAL struct
                                                                  (`heap_clone_disjoint`);
    when pass 1 collected every named type but the built-in scalars this leaves the built-in
    singletons only                                               (`heap_clone_disjoint_collected`),
  * so whatever is afterwards written to addresses the call allocated, the original still
    unfolds as before                                             (`heap_clone_write_invisible`).

  The negative side is a theorem as well: a named type that pass 1 missed is reachable from the
  clone at its original address (`heap_clone_missed_type_is_shared`: the shape of finding F-10i and
  of seeded change C10-24), and a cycle through inner nodes has no clone for any fuel
  (`heap_clone_inner_cycle_no_result`: finding F-10j, Go's stack overflow).
-/
import ApiFu.C10.CloneHeap

namespace ApiFu.C10.CloneHeap

/-- What is assumed about the heap before the call and about pass 1. -/
structure HeapOK (h : Heap) (L : List (String × Nat)) (base : Nat) : Prop where
  /-- `base` is above every allocated address -/
  dom : ∀ x n, h x = some n → x < base
  /-- no dangling pointers (nil pointers are not in `kids`) -/
  closed : ∀ x n, h x = some n → ∀ y ∈ n.kids, ∃ m, h y = some m
  /-- pass 1 collected named types, each under its own name -/
  collected : ∀ p ∈ L, ∃ l ks, h p.2 = some (.named p.1 l ks)

/-- One struct per type name (what `schema.New` enforces: "multiple definitions for named type"). -/
def NamesUnique (h : Heap) : Prop :=
  ∀ a b n l ks l' ks', h a = some (.named n l ks) → h b = some (.named n l' ks') → a = b

theorem old_unfold {h H : Heap} (hext : Ext h H)
    (hclosed : ∀ x n, h x = some n → ∀ y ∈ n.kids, ∃ m, h y = some m) :
    ∀ k x n, h x = some n → unfold H k x = unfold h k x := by
  intro k
  induction k with
  | zero => intro x n _; rfl
  | succ k ih =>
    intro x n hx
    have hH := hext x n hx
    cases n with
    | named nm l ks =>
      simp only [unfold, hH, hx]
      congr 1
      apply List.map_congr_left
      intro y hy
      obtain ⟨m, hm⟩ := hclosed x _ hx y hy
      exact ih y m hm
    | inner l ks =>
      simp only [unfold, hH, hx]
      congr 1
      apply List.map_congr_left
      intro y hy
      obtain ⟨m, hm⟩ := hclosed x _ hx y hy
      exact ih y m hm

theorem sim_unfold {h : Heap} {L : List (String × Nat)} {root base r' : Nat} {H : Heap}
    (ok : HeapOK h L base) (hu : NamesUnique h) (cf : CloneFacts h L root base r' H) :
    ∀ k a a', Sim h (tblOf L base) H a a' → unfold H k a' = unfold h k a := by
  intro k
  induction k with
  | zero => intro a a' _; rfl
  | succ k ih =>
    intro a a' hs
    cases hs with
    | named ha ht =>
      obtain ⟨a0, l0, ks0, ks', _, ha0, hc, hall⟩ := cf.filled _ _ ht
      have haa : a = a0 := hu _ _ _ _ _ _ _ ha ha0
      subst haa
      rw [ha] at ha0
      simp only [Option.some.injEq, Node.named.injEq, true_and] at ha0
      obtain ⟨rfl, rfl⟩ := ha0
      simp only [unfold, hc, ha]
      congr 1
      exact All2.map_eq (fun x y hxy => ih x y hxy) hall
    | kept ha _ =>
      exact old_unfold cf.frame ok.closed (k + 1) a _ ha
    | inner ha hH hall =>
      simp only [unfold, hH, ha]
      congr 1
      exact All2.map_eq (fun x y hxy => ih x y hxy) hall

/-- **The call writes nothing that existed before**: every node of the heap before the call is
    there, unchanged, after it. -/
theorem heap_clone_frame {fuel : Nat} {h : Heap} {L : List (String × Nat)} {root base r' : Nat} {H : Heap}
    (ok : HeapOK h L base) (he : clone fuel h L root base = some (r', H)) :
    ∀ x n, h x = some n → H x = some n :=
  (clone_facts ok.dom ok.collected he).frame

/-- **The clone has the observations of its original** (it "introspects identically"): for every
    definition graph with one struct per type name — cyclic, with shared structs, with applied
    directives — and every depth `k`, unfolding the heap after the call from the clone's root gives
    the tree that unfolding the heap before the call from the original's root gives. Holds for
    EVERY pass-1 outcome `L` (a missed type is shared, which does not change what is observed). -/
theorem heap_clone_same_observations {fuel : Nat} {h : Heap} {L : List (String × Nat)} {root base r' : Nat} {H : Heap}
    (ok : HeapOK h L base) (hu : NamesUnique h) (he : clone fuel h L root base = some (r', H)) :
    ∀ k, unfold H k r' = unfold h k root := by
  intro k
  have cf := clone_facts ok.dom ok.collected he
  exact sim_unfold ok hu cf k root r' cf.root

theorem reach_exists {h : Heap} (hclosed : ∀ x n, h x = some n → ∀ y ∈ n.kids, ∃ m, h y = some m)
    {e x : Nat} (he : ∃ m, h e = some m) (hr : Reach h e x) : ∃ m, h x = some m := by
  induction hr with
  | refl => exact he
  | step _ hx hy _ => exact hclosed _ _ hx _ hy

/-- **The clone shares nothing with the original except below kept named types**: every address
    reachable from the clone's root after the call either was allocated by the call (it is not an
    address of the heap before the call), or is reachable, in the ORIGINAL heap, from a named type
    that the table does not know (`Kept`: a built-in scalar singleton, or a type pass 1 missed). -/
theorem heap_clone_disjoint {fuel : Nat} {h : Heap} {L : List (String × Nat)} {root base r' : Nat} {H : Heap}
    (ok : HeapOK h L base) (he : clone fuel h L root base = some (r', H)) :
    ∀ x, Reach H r' x → (base ≤ x ∧ h x = none) ∨ ∃ e, Kept h (tblOf L base) e ∧ Reach h e x := by
  have cf := clone_facts ok.dom ok.collected he
  have hnone : ∀ x, base ≤ x → h x = none := by
    intro x hx
    cases hh : h x with
    | none => rfl
    | some n => have := ok.dom x n hh; omega
  have hok : ∀ y, OKAddr h (tblOf L base) base y → (base ≤ y ∧ h y = none) ∨ ∃ e, Kept h (tblOf L base) e ∧ Reach h e y := by
    intro y hy
    cases hy with
    | inl hb => exact .inl ⟨hb, hnone y hb⟩
    | inr hk => exact .inr ⟨y, hk, .refl⟩
  intro x hr
  induction hr with
  | refl => exact hok r' cf.rootOK
  | @step x y n _ hx hy ih =>
    cases ih with
    | inl hb => exact hok y (cf.newOK x n hb.1 hx y hy)
    | inr hk =>
      obtain ⟨e, hke, hre⟩ := hk
      obtain ⟨m, hm⟩ := reach_exists ok.closed (by obtain ⟨n0, l0, ks0, h0, _⟩ := hke; exact ⟨_, h0⟩) hre
      have hHm := cf.frame x m hm
      rw [hx] at hHm
      cases hHm
      exact .inr ⟨e, hke, .step hre hm hy⟩

/-- The built-in scalar singletons (`schema.BuiltInTypes`): `schema.New` insists on their pointer
    identity, a clone has to share them. -/
def builtinNames : List String := ["Int", "Float", "String", "Boolean", "ID"]

/-- Pass 1 collected every named type of the heap but the built-in scalars (`InspectClosed` of
    Props.lean in heap terms). -/
def CollectedAll (h : Heap) (L : List (String × Nat)) (base : Nat) : Prop :=
  ∀ a n l ks, h a = some (.named n l ks) → tblOf L base n = none → n ∈ builtinNames

/-- **When pass 1 collected every type, only the built-in singletons are shared.** -/
theorem heap_clone_disjoint_collected {fuel : Nat} {h : Heap} {L : List (String × Nat)} {root base r' : Nat} {H : Heap}
    (ok : HeapOK h L base) (hall : CollectedAll h L base) (he : clone fuel h L root base = some (r', H)) :
    ∀ x, Reach H r' x → h x = none ∨
      ∃ e n l ks, h e = some (.named n l ks) ∧ n ∈ builtinNames ∧ Reach h e x := by
  intro x hr
  cases heap_clone_disjoint ok he x hr with
  | inl hb => exact .inl hb.2
  | inr hk =>
    obtain ⟨e, ⟨n, l, ks, hn, ht⟩, hre⟩ := hk
    exact .inr ⟨e, n, l, ks, hn, hall e n l ks hn ht, hre⟩

/-- **Mutating the clone leaves the original unchanged**: let `H'` be ANY heap that agrees with the
    heap after the call on the addresses that existed before the call (i.e. arbitrary writes,
    deletions and allocations at addresses the call allocated — by `heap_clone_disjoint_collected`
    that is all of the clone but the built-in singletons). Then every node of the original
    definition unfolds in `H'` exactly as it did before the call. -/
theorem heap_clone_write_invisible {fuel : Nat} {h : Heap} {L : List (String × Nat)} {root base r' : Nat} {H H' : Heap}
    (ok : HeapOK h L base) (he : clone fuel h L root base = some (r', H))
    (hsame : ∀ x, x < base → H' x = H x) :
    ∀ k a n, h a = some n → unfold H' k a = unfold h k a := by
  have hf := heap_clone_frame ok he
  have hext : Ext h H' := by
    intro x n hx
    rw [hsame x (ok.dom x n hx)]
    exact hf x n hx
  intro k a n ha
  exact old_unfold hext ok.closed k a n ha

theorem all2_kept_mem {h : Heap} {tbl : String → Option Nat} {H : Heap} {t : Nat} {n lt : String} {kt : List Nat}
    (hnamed : h t = some (.named n lt kt)) (hmiss : tbl n = none) :
    ∀ {ks ks' : List Nat}, All2 (Sim h tbl H) ks ks' → t ∈ ks → t ∈ ks' := by
  intro ks ks' hall
  induction hall with
  | nil => intro ht; cases ht
  | @cons a b as bs hab _ ih =>
    intro ht
    cases ht with
    | head =>
      cases hab with
      | named ha hc => rw [hnamed] at ha; cases ha; rw [hmiss] at hc; cases hc
      | kept _ _ => exact .head _
      | inner ha _ _ => rw [hnamed] at ha; cases ha
    | tail _ ht' => exact .tail _ (ih ht')

/-- **A missed type is shared** (finding F-10i; seeded change C10-24): if the definition's root
    struct points at a named type that is not in the table (and is no built-in), the clone's root
    struct points at the very same address. -/
theorem heap_clone_missed_type_is_shared {fuel : Nat} {h : Heap} {L : List (String × Nat)} {root base r' : Nat} {H : Heap}
    (ok : HeapOK h L base) (he : clone fuel h L root base = some (r', H))
    {l : String} {ks : List Nat} (hroot : h root = some (.inner l ks))
    {t : Nat} (ht : t ∈ ks) {n lt : String} {kt : List Nat} (hnamed : h t = some (.named n lt kt))
    (hmiss : tblOf L base n = none) :
    ∃ ks', H r' = some (.inner l ks') ∧ t ∈ ks' ∧ H t = h t := by
  have cf := clone_facts ok.dom ok.collected he
  have hrs := cf.root
  cases hrs with
  | named ha _ => rw [hroot] at ha; cases ha
  | kept ha _ => rw [hroot] at ha; cases ha
  | @inner _ _ l' ks0 ks' ha hH hall =>
    rw [hroot] at ha
    simp only [Option.some.injEq, Node.inner.injEq] at ha
    obtain ⟨rfl, rfl⟩ := ha
    refine ⟨ks', hH, all2_kept_mem hnamed hmiss hall ht, ?_⟩
    · rw [cf.frame t _ hnamed, hnamed]

/-! ## Non-vacuity: a cyclic definition with shared structs and applied directives

  Addresses: 0 `*SchemaDefinition` → [1 directives map, 3 Query]; 1 map → [2 `@tag` definition];
  2 definition → [7 argument map]; 7 → [8 `*InputValueDefinition`]; 8 → [9 `*NonNullType`]; 9 → [5 enum E];
  3 Query → [4 fields map, 6 FeatureSet]; 4 → [10 field `self`, 11 field `e`]; 10 → [3] (Query again: a
  cycle); 11 → [5, 6] (the enum, and the SAME FeatureSet map as the type's); 5 enum E → [12 directives
  slice]; 12 → [13 `*Directive`]; 13 → [2] (applied `@tag`: the listed definition, a second path to
  it); 14 the built-in `String`, which field `self`'s argument map 15 → 16 → 14 refers to. -/

def exHeap : Heap
  | 0 => some (.inner "def" [1, 3])
  | 1 => some (.inner "directives{tag}" [2])
  | 2 => some (.inner "ddef[ENUM]" [7])
  | 3 => some (.named "Query" "object" [4, 6])
  | 4 => some (.inner "fields{self,e}" [10, 11])
  | 5 => some (.named "E" "enum{A,B}" [12])
  | 6 => some (.inner "features{x}" [])
  | 7 => some (.inner "args{k}" [8])
  | 8 => some (.inner "iv" [9])
  | 9 => some (.inner "nonnull" [5])
  | 10 => some (.inner "field" [3, 15])
  | 11 => some (.inner "field" [5, 6])
  | 12 => some (.inner "[]*Directive" [13])
  | 13 => some (.inner "directive" [2])
  | 14 => some (.named "String" "scalar" [])
  | 15 => some (.inner "args{s}" [16])
  | 16 => some (.inner "iv" [14])
  | _ => none

def exL : List (String × Nat) := [("E", 5), ("Query", 3)]

/-- The run returns, and the clone's root struct has the shape of the original's with new addresses. -/
example : (clone 8 exHeap exL 0 100).bind (fun p => p.2 p.1) = some (.inner "def" [119, 101]) := by decide +kernel

/-- The copy of `Query` points at its own copy (the cycle is closed in the clone) … -/
example : (clone 8 exHeap exL 0 100).bind (fun p => p.2 101) = some (.named "Query" "object" [113, 114]) := by decide +kernel
example : (clone 8 exHeap exL 0 100).bind (fun p => p.2 110) = some (.inner "field" [101, 109]) := by decide +kernel
/-- … the built-in singleton keeps its address … -/
example : (clone 8 exHeap exL 0 100).bind (fun p => p.2 108) = some (.inner "iv" [14]) := by decide +kernel
/-- … and with a pass 1 that misses `E` (the applied-directive path not followed), the clone's
    structures point at the ORIGINAL `E` (address 5). -/
example : (clone 8 exHeap [("Query", 3)] 0 100).bind (fun p => p.2 105) = some (.inner "field" [5, 104]) := by decide +kernel
/-- The definition of `@tag` is reached on two paths (listed, and applied to `E`): the clone has two
    copies of it (105 and 118), as deep_copy.go makes one per path; likewise the FeatureSet map that
    the type `Query` and its field `e` share (111 and 114). The observations are the same. -/
example : (clone 8 exHeap exL 0 100).bind (fun p => p.2 105) = some (.inner "ddef[ENUM]" [104]) := by decide +kernel
example : (clone 8 exHeap exL 0 100).bind (fun p => p.2 118) = some (.inner "ddef[ENUM]" [117]) := by decide +kernel

theorem exHeap_ok : HeapOK exHeap exL 100 := by
  refine ⟨?_, ?_, ?_⟩
  · intro x n hx
    by_cases h : x < 17
    · omega
    · have : exHeap x = none := by
        unfold exHeap
        split <;> first | omega | rfl
      rw [this] at hx; cases hx
  · intro x n hx y hy
    have hlt : x < 17 := by
      by_cases h : x < 17
      · exact h
      · have : exHeap x = none := by
          unfold exHeap
          split <;> first | omega | rfl
        rw [this] at hx; cases hx
    have hall : ∀ x, x < 17 → ∀ n, exHeap x = some n → ∀ y ∈ n.kids, y < 17 := by decide +kernel
    have hy17 := hall x hlt n hx y hy
    have hex : ∀ y, y < 17 → (exHeap y).isSome = true := by decide +kernel
    exact Option.isSome_iff_exists.mp (hex y hy17)
  · intro p hp
    simp only [exL, List.mem_cons, List.not_mem_nil, or_false] at hp
    rcases hp with rfl | rfl
    · exact ⟨_, _, rfl⟩
    · exact ⟨_, _, rfl⟩

def nameOf : Option Node → Option String
  | some (.named n _ _) => some n
  | _ => none

theorem exHeap_unique : NamesUnique exHeap := by
  have hlt : ∀ x n, exHeap x = some n → x < 17 := by
    intro x n hx
    by_cases h : x < 17
    · exact h
    · have : exHeap x = none := by
        unfold exHeap
        split <;> first | omega | rfl
      rw [this] at hx; cases hx
  have hd : ∀ a, a < 17 → ∀ b, b < 17 → nameOf (exHeap a) ≠ none → nameOf (exHeap a) = nameOf (exHeap b) → a = b := by
    decide +kernel
  intro a b n l ks l' ks' ha hb
  exact hd a (hlt a _ ha) b (hlt b _ hb) (by simp [ha, nameOf]) (by simp [ha, hb, nameOf])

/-- The theorems apply to the example (hypotheses satisfiable, the run returns). -/
example : ∃ r' H, clone 8 exHeap exL 0 100 = some (r', H) ∧ (∀ k, unfold H k r' = unfold exHeap k 0)
    ∧ ∀ x, Reach H r' x → exHeap x = none ∨ ∃ e n l ks, exHeap e = some (.named n l ks) ∧ n ∈ builtinNames ∧ Reach exHeap e x := by
  have hsome : (clone 8 exHeap exL 0 100).isSome = true := by decide +kernel
  obtain ⟨⟨r', H⟩, hc⟩ := Option.isSome_iff_exists.mp hsome
  refine ⟨r', H, hc, heap_clone_same_observations exHeap_ok exHeap_unique hc, ?_⟩
  apply heap_clone_disjoint_collected exHeap_ok ?_ hc
  intro a n l ks ha ht
  have hlt : a < 17 := by
    by_cases h : a < 17
    · exact h
    · have : exHeap a = none := by
        unfold exHeap
        split <;> first | omega | rfl
      rw [this] at ha; cases ha
  have hd : ∀ a, a < 17 → ∀ n, nameOf (exHeap a) = some n → tblOf exL 100 n = none → n ∈ builtinNames := by
    decide +kernel
  exact hd a hlt n (by simp [ha, nameOf]) ht

/-! ## Inner cycles (finding F-10j) -/

theorem mapSt_none {f : Nat → St → Option (Nat × St)} {k : Nat} (hk : ∀ s, f k s = none) :
    ∀ (ks : List Nat), k ∈ ks → ∀ s, mapSt f ks s = none := by
  intro ks
  induction ks with
  | nil => intro h; cases h
  | cons a as ih =>
    intro hmem s
    simp only [mapSt]
    cases hfa : f a s with
    | none => rfl
    | some p =>
      obtain ⟨a1, s1⟩ := p
      cases hmem with
      | head => rw [hk s] at hfa; cases hfa
      | tail _ hm => simp only [ih hm s1]

/-- **An inner cycle has no clone** (finding F-10j): if from `a` one can go on forever through
    inner nodes — a set `C` of inner nodes each of which points at a member of `C`, e.g.
    `*DirectiveDefinition` → Arguments map → `*InputValueDefinition` → `[]*Directive` → `*Directive` →
    the same `*DirectiveDefinition` — then `fixPtr` returns for no amount of fuel: the Go recursion
    does not terminate (stack overflow). -/
theorem heap_clone_inner_cycle_no_result {h : Heap} {tbl : String → Option Nat} {C : Nat → Prop}
    (hC : ∀ a, C a → ∃ l ks, h a = some (.inner l ks) ∧ ∃ k, k ∈ ks ∧ C k) :
    ∀ fuel a s, C a → fixPtr h tbl fuel a s = none := by
  intro fuel
  induction fuel with
  | zero => intro a s _; rfl
  | succ fuel ih =>
    intro a s ha
    obtain ⟨l, ks, hh, k, hk, hCk⟩ := hC a ha
    simp only [fixPtr, hh]
    rw [mapSt_none (fun s => ih k s hCk) ks hk s]

/-- `directive @d(a: Int @d)`: 0 definition → 1 argument map → 2 input value → [5 `Int`, 3 directives
    slice] → 4 directive → 0. -/
def exCycle : Heap
  | 0 => some (.inner "ddef" [1])
  | 1 => some (.inner "args{a}" [2])
  | 2 => some (.inner "iv" [5, 3])
  | 3 => some (.inner "[]*Directive" [4])
  | 4 => some (.inner "directive" [0])
  | 5 => some (.named "Int" "scalar" [])
  | _ => none

example : ∀ fuel s, fixPtr exCycle (fun _ => none) fuel 0 s = none := by
  intro fuel s
  apply heap_clone_inner_cycle_no_result (C := fun a => a < 5) _ fuel 0 s (by decide)
  intro a ha
  have : a = 0 ∨ a = 1 ∨ a = 2 ∨ a = 3 ∨ a = 4 := by omega
  rcases this with rfl | rfl | rfl | rfl | rfl
  · exact ⟨_, _, rfl, 1, by simp, by decide⟩
  · exact ⟨_, _, rfl, 2, by simp, by decide⟩
  · exact ⟨_, _, rfl, 3, by simp, by decide⟩
  · exact ⟨_, _, rfl, 4, by simp, by decide⟩
  · exact ⟨_, _, rfl, 0, by simp, by decide⟩

end ApiFu.C10.CloneHeap
