/-
  C10 — property theorems for `GetSchemaDefinition` with fix patch 06 (defaults are kept), and the
  verdict-level `rebuild_same_verdicts` over the validation specification of C04.
-/
import ApiFu.C10.Props
import ApiFu.C10.RebuildKeepLemmas
import ApiFu.C10.ToC04

namespace ApiFu.C10

theorem shapeOk_visible {S : Schema} (hf : Facts S) (F : List String) : ShapeOk (visible S F) := by
  refine ⟨visible_types_nodup hf F, ?_, ?_, ?_⟩
  · intro u hu hb
    simp only [visible, List.mem_map, List.mem_filter] at hu
    obtain ⟨t, ⟨ht, _⟩, rfl⟩ := hu
    exact hf.builtinScalar t ht hb
  · intro u hu hk
    simp only [visible, List.mem_map, List.mem_filter] at hu
    obtain ⟨t, ⟨ht, _⟩, rfl⟩ := hu
    exact hf.shapeValues t ht hk
  · intro u hu hk
    simp only [visible, List.mem_map, List.mem_filter] at hu
    obtain ⟨t, ⟨ht, _⟩, rfl⟩ := hu
    exact hf.shapeInputs t ht hk

/-- **rebuildKeep_introspect** (the stronger `rebuild_introspect`, with fix patch 06) — for an
    accepted schema under the guards of `rebuild_introspect`, whose enum value and input field names
    are names (`NamesOk`, enforced by `schema.New`) and whose visible default values are of the
    covered classes, in coercion normal form and printed (`DefaultsCovered`): `GetSchemaDefinition`
    applied to the introspection result returns exactly `forgetDefKeep (visible S F)` — the visible
    schema with **every default value as configured**, minus only required features, applied
    directives, callbacks and `AdditionalTypes`. -/
theorem rebuildKeep_introspect {S : Schema} (h : Accepted S) {F : List String}
    (hg : RebuildGuards S F) (hn : NamesOk S.defn) (hc : DefaultsCovered S.defn (visible S F)) :
    rebuildKeep (introspect S F) = .ok (forgetDefKeep (visible S F)) := by
  have hf := facts_of_accepted h
  unfold rebuildKeep
  rw [describe_exact h F, rebuildRaw_describe true _ _ (rebuildOk_visible h hg)]
  simp only [Except.map]
  rw [resolveDefaults_forgetDefP (shapeOk_visible hf F) hc hn]

/-! ## Verdicts: the validation specification cannot tell the rebuilt schema from the original -/

theorem sortG_sorted_id (L : List (TypeDef Unit)) (g : TypeDef Unit → TypeDef Id) (hg : ∀ x, (g x).name = x.name) :
    sortG ((sortDefs L).map g) = (sortDefs L).map g := by
  unfold sortG
  apply List.mergeSort_of_pairwise
  have tr : ∀ (x y z : TypeDef Unit), decide (x.name ≤ y.name) = true → decide (y.name ≤ z.name) = true →
      decide (x.name ≤ z.name) = true := by
    intro x y z h₁ h₂
    simp only [decide_eq_true_eq] at *
    exact String.le_trans h₁ h₂
  have tot : ∀ (x y : TypeDef Unit), (decide (x.name ≤ y.name) || decide (y.name ≤ x.name)) = true := by
    intro x y
    rcases String.le_total x.name y.name with h | h <;> simp [h]
  have hp : (sortDefs L).Pairwise (fun a b => decide (a.name ≤ b.name) = true) :=
    List.pairwise_mergeSort tr tot L
  rw [List.pairwise_map]
  exact hp.imp (fun {a b} h => by simpa [hg] using h)

theorem toInput_keepIV (a : InputValueDef Unit) : toInput (keepIV a) = toInput a := by
  simp only [toInput, keepIV]
  have : (typeAtOf a.type.ref).ref = a.type.ref := rfl
  rw [this]

theorem toInput0_keepIV0 (a : InputValueDef0 Unit) : toInput0 (keepIV0 a) = toInput0 a := by
  simp only [toInput0, keepIV0]
  have : (typeAtOf a.type.ref).ref = a.type.ref := rfl
  rw [this]

theorem toField_keepField (f : FieldDef Unit) : toField (keepField f) = toField f := by
  simp only [toField, keepField]
  have : (typeAtOf f.type.ref).ref = f.type.ref := rfl
  rw [this, map_map_congr (h := toInput) (fun a _ => toInput_keepIV a)]

theorem toType_keepType {V : SchemaDef Unit} (hs : ShapeOk V) {u : TypeDef Unit} (hu : u ∈ V.types) :
    toType (keepType u) = toType u := by
  have hfs : (u.fields.map keepField).map toField = u.fields.map toField :=
    map_map_congr (h := toField) (fun f _ => toField_keepField f)
  have his : (u.inputs.map keepIV).map toInput = u.inputs.map toInput :=
    map_map_congr (h := toInput) (fun a _ => toInput_keepIV a)
  unfold keepType
  by_cases hb : isBuiltin u.name = true
  · have hk := hs.builtinScalar u hu hb
    simp [hb, toType, toKind, builtinType, hk]
  · simp only [hb, Bool.false_eq_true, if_false]
    cases hk : u.kind with
    | scalar => simp [toType, toKind, shellType, builtinType, hk]
    | object => simp [toType, toKind, keepObject, shellType, builtinType, hk, hfs]
    | interface => simp [toType, toKind, keepInterface, shellType, builtinType, hk, hfs]
    | union => simp [toType, toKind, forgetUnion, shellType, builtinType, hk]
    | «enum» => simp [toType, toKind, forgetEnum, shellType, builtinType, hk, List.map_map, Function.comp_def, forgetEnumValue]
    | inputObject => simp [toType, toKind, keepInput, shellType, builtinType, hk, his]

theorem keepType_name (u : TypeDef Unit) : (keepType u).name = u.name := by
  unfold keepType
  split
  · rfl
  · cases u.kind <;> rfl

/-- The rebuilt definition (defaults kept) and the visible schema are the same schema for the
    validation specification. -/
theorem toC04_forgetDefKeep (intro : List C04.TypeDef) (metas : List C04.FieldDef) {V : SchemaDef Unit}
    (hs : ShapeOk V) : toC04 intro metas (forgetDefKeep V) = toC04 intro metas V := by
  have hts : (sortG ((sortDefs V.types).map keepType)).map toType = (sortG V.types).map toType := by
    rw [sortG_sorted_id V.types keepType keepType_name]
    exact map_map_congr (h := toType) (fun u hu => toType_keepType hs (mem_sortDefs.mp hu))
  have hds : (V.directives.map keepDirective).map toDir = V.directives.map toDir :=
    map_map_congr (h := toDir) (fun dd _ => by
      simp only [toDir, keepDirective]
      rw [map_map_congr (h := toInput0) (fun a _ => toInput0_keepIV0 a)])
  simp only [toC04, forgetDefKeep, hts, hds]

/-- **rebuild_same_verdicts** — verdict level, over the validation specification of property C04
    (`ApiFu.C04.Spec.valid`, the June-2018 validation rules): for an accepted schema under the
    hypotheses of `rebuildKeep_introspect`, `GetSchemaDefinition` (with fix patch 06) applied to the
    introspection result succeeds, and **every document gets the same verdict** on the rebuilt
    definition as on the schema visible to the request — for whatever introspection types and meta
    fields (`intro`, `metas`) the specification is given. With every feature enabled the visible
    schema is the whole registered schema (`rebuild_same_verdicts_partial`, third conjunct), i.e.
    `verdict(D, S) = verdict(D, rebuild(introspect(S)))`. The validation specification reads of a
    default only whether it is absent, `null` or a value (`dfltOf`), of a scalar only its name
    (`scalarSpec`: a non-built-in scalar is a custom scalar with unknown literal coercion — the
    statement is about schemas as the specification sees them; the harness's verdict oracle on the
    real `graphql.ParseAndValidate` is restricted to built-in scalars). -/
theorem rebuild_same_verdicts {S : Schema} (h : Accepted S) {F : List String}
    (hg : RebuildGuards S F) (hn : NamesOk S.defn) (hc : DefaultsCovered S.defn (visible S F))
    (intro : List C04.TypeDef) (metas : List C04.FieldDef) :
    ∃ g, rebuildKeep (introspect S F) = .ok g
      ∧ toC04 intro metas g = toC04 intro metas (visible S F)
      ∧ ∀ D : C04.Document, C04.Spec.valid (toC04 intro metas g) D = C04.Spec.valid (toC04 intro metas (visible S F)) D := by
  have hf := facts_of_accepted h
  refine ⟨forgetDefKeep (visible S F), rebuildKeep_introspect h hg hn hc, ?_, ?_⟩
  · exact toC04_forgetDefKeep intro metas (shapeOk_visible hf F)
  · intro D
    rw [toC04_forgetDefKeep intro metas (shapeOk_visible hf F)]

/-! ### Non-vacuity -/

/-- Executable form of `DefaultsCovered`. -/
def defaultOkB (D V : SchemaDef Unit) (t : TRef) : Option Value → Bool
  | none => true
  | some v => covered v && nf V t v && (marshalValue D t v).isSome

def defaultsCoveredB (D V : SchemaDef Unit) : Bool :=
  V.types.all (fun u => u.fields.all (fun f => f.args.all (fun a => defaultOkB D V a.type.ref a.default))
    && u.inputs.all (fun a => defaultOkB D V a.type.ref a.default))
  && V.directives.all (fun dd => dd.args.all (fun a => defaultOkB D V a.type.ref a.default))

theorem defaultOk_of_B {D V : SchemaDef Unit} {t : TRef} {o : Option Value} (h : defaultOkB D V t o = true) :
    DefaultOk D V t o := by
  intro v hv
  subst hv
  simp only [defaultOkB, Bool.and_eq_true] at h
  refine ⟨h.1.1, h.1.2, ?_⟩
  cases hm : marshalValue D t v with
  | none => simp [hm] at h
  | some s => exact ⟨s, rfl⟩

theorem defaultsCovered_of_B {D V : SchemaDef Unit} (h : defaultsCoveredB D V = true) : DefaultsCovered D V := by
  simp only [defaultsCoveredB, Bool.and_eq_true, List.all_eq_true] at h
  exact ⟨fun u hu f hf a ha => defaultOk_of_B ((h.1 u hu).1 f hf a ha),
         fun u hu a ha => defaultOk_of_B ((h.1 u hu).2 a ha),
         fun dd hdd a ha => defaultOk_of_B (h.2 dd hdd a ha)⟩

/-- `type Query { b(e: E = A, l: [E] = [null, A], n: Int! = 1): Int }` with `enum E { A }`. -/
def witnessD : Schema :=
  { witnessOk with defn := { witnessOk.defn with types :=
      [mkType .enum "E" [] [] [{ name := "A", description := "", self := (), deprecation := "", dirs := noDirs }],
       mkType .scalar "Int" [] [] [],
       mkType .object "Query" []
         [{ (mkField "b" (.named "Int")) with args :=
             [{ name := "e", description := "", self := (), type := { wid := (), ref := .named "E" }, default := some (.enum "A"), dirs := noDirs },
              { name := "l", description := "", self := (), type := { wid := (), ref := .list (.named "E") }, default := some (.list [.null, .enum "A"]), dirs := noDirs },
              { name := "n", description := "", self := (), type := { wid := (), ref := .nonNull (.named "Int") }, default := some (.int 1), dirs := noDirs }] }] []] } }

/-- The hypotheses of `rebuildKeep_introspect` / `rebuild_same_verdicts` are satisfiable by a schema
    with defaulted arguments (a required one among them: the F-10a situation). -/
example : Accepted witnessD ∧ RebuildGuards witnessD [] ∧ NamesOk witnessD.defn
    ∧ DefaultsCovered witnessD.defn (visible witnessD []) :=
  ⟨by unfold Accepted; decide,
    ⟨by decide, by decide, by decide, by decide, by decide⟩, by unfold NamesOk; decide,
    defaultsCovered_of_B (by decide)⟩

end ApiFu.C10
