/-
  C10 — lemmas for `rebuildKeep` (GetSchemaDefinition with fix patch 06). Core Lean only.
-/
import ApiFu.C10.Lemmas
import ApiFu.C10.LiteralLemmas
import ApiFu.C10.RebuildKeep

namespace ApiFu.C10

/-! ### The fuel `resolveDefault` uses suffices: `need v ≤ 2 * |printed v|` -/

theorem joinWith_length_cons (s : String) (ps : List String) :
    (joinWith ", " (s :: ps)).length = s.length + (match ps with | [] => 0 | _ :: _ => 2 + (joinWith ", " ps).length) := by
  cases ps with
  | nil => simp [joinWith]
  | cons p ps' =>
    simp only [joinWith, String.length_append]
    have : (", " : String).length = 2 := by decide
    omega

theorem toString_int_length_pos (i : Int) : 1 ≤ (toString i).length := by
  rw [← String.length_toList]
  cases i with
  | ofNat n =>
    have hs : (toString (Int.ofNat n)).toList = Nat.toDigits 10 n := toString_nat_toList n
    rw [hs]
    cases h : Nat.toDigits 10 n with
    | nil => exact absurd h Nat.toDigits_ne_nil
    | cons c cs => simp
  | negSucc m =>
    have : (toString (Int.negSucc m)) = "-" ++ toString (m + 1) := rfl
    rw [this, String.toList_append]
    simp

mutual
  theorem need_le {ι : Type} (d : SchemaDef ι) (hn : NamesOk d) :
      ∀ (v : Value) (t : TRef) (s : String), covered v = true → marshalValue d t v = some s →
        need v ≤ 2 * s.length ∧ 1 ≤ s.length
    | .null, t, s, _, h => by rw [marshal_null d t s h]; simp [need]; decide
    | .int i, t, s, _, h => by
      rw [marshal_int d t i s h]
      have := toString_int_length_pos i
      refine ⟨?_, this⟩
      simp only [need]; omega
    | .float x, t, s, hc, _ => by simp [covered] at hc
    | .str x, t, s, _, h => by
      rw [marshal_str d t x s h]
      have : 2 ≤ (jsonString x).length := by
        rw [← String.length_toList, jsonString_toList]
        simp
      simp [need]; omega
    | .bool b, t, s, _, h => by
      rw [marshal_bool d t b s h]
      cases b <;> simp [need] <;> decide
    | .enum n, t, s, _, h => by
      obtain ⟨hs, td, htd, ev, hev, hname⟩ := marshal_enum d t n s h
      have hok := (namesOk_enum hn htd hev).1
      rw [hname] at hok
      obtain ⟨c, cs, hcs, _⟩ := validName_head hok
      have : 1 ≤ n.length := by rw [← String.length_toList, hcs]; simp
      rw [hs]
      simp [need]; omega
    | .list vs, t, s, hc, h => by
      obtain ⟨item, parts, hp, hs⟩ := marshal_list d t vs s h
      have hcl : coveredList vs = true := by simpa [covered] using hc
      have := needList_le d hn vs item parts hcl hp
      rw [hs]
      simp only [need, String.length_append]
      have h1 : ("[" : String).length = 1 := by decide
      have h2 : ("]" : String).length = 1 := by decide
      omega
    | .obj fs, t, s, hc, h => by
      obtain ⟨td, htd, parts, hp, hs⟩ := marshal_obj d t fs s h
      have hcl : coveredFields fs = true := by simpa [covered] using hc
      have := needFields_le d hn td.inputs fs parts hcl hp
      rw [hs]
      simp only [need, String.length_append]
      have h1 : ("{" : String).length = 1 := by decide
      have h2 : ("}" : String).length = 1 := by decide
      omega
  theorem needList_le {ι : Type} (d : SchemaDef ι) (hn : NamesOk d) :
      ∀ (vs : List Value) (item : TRef) (parts : List String), coveredList vs = true →
        marshalList d item vs = some parts → needList vs ≤ 2 * (joinWith ", " parts).length + 1
    | [], item, parts, _, h => by rw [marshalList_nil d item parts h]; simp [needList]
    | v :: vs, item, parts, hc, h => by
      obtain ⟨s, ps, hs, hps, rfl⟩ := marshalList_cons d item v vs parts h
      have hcv : covered v = true ∧ coveredList vs = true := by simpa [coveredList] using hc
      have h1 := need_le d hn v item s hcv.1 hs
      have h2 := needList_le d hn vs item ps hcv.2 hps
      rw [joinWith_length_cons]
      simp only [needList]
      cases ps with
      | nil =>
        have : vs = [] := by
          cases vs with
          | nil => rfl
          | cons w ws =>
            obtain ⟨_, _, _, _, hh⟩ := marshalList_cons d item w ws [] hps
            cases hh
        subst this
        simp [needList] at h2 ⊢
        omega
      | cons p ps' => simp only; omega
  theorem needFields_le {ι : Type} (d : SchemaDef ι) (hn : NamesOk d) (inputs : List (InputValueDef ι)) :
      ∀ (fs : List (String × Value)) (parts : List String), coveredFields fs = true →
        marshalFields d inputs fs = some parts → needFields fs ≤ 2 * (joinWith ", " parts).length + 1
    | [], parts, _, h => by rw [marshalFields_nil d inputs parts h]; simp [needFields]
    | (k, v) :: fs, parts, hc, h => by
      obtain ⟨fd, _, _, s, ps, hs, hps, rfl⟩ := marshalFields_cons d inputs k v fs parts h
      have hcv : covered v = true ∧ coveredFields fs = true := by simpa [coveredFields] using hc
      have h1 := need_le d hn v fd.type.ref s hcv.1 hs
      have h2 := needFields_le d hn inputs fs ps hcv.2 hps
      rw [joinWith_length_cons]
      simp only [needFields, String.length_append]
      cases ps with
      | nil =>
        have : fs = [] := by
          cases fs with
          | nil => rfl
          | cons w ws =>
            obtain ⟨wk, wv⟩ := w
            obtain ⟨_, _, _, _, _, _, _, hh⟩ := marshalFields_cons d inputs wk wv ws [] hps
            cases hh
        subst this
        simp [needFields] at h2 ⊢
        omega
      | cons p ps' => simp only; omega
end

theorem need_le_fuel {ι : Type} (d : SchemaDef ι) (hn : NamesOk d) (v : Value) (t : TRef) (s : String)
    (hc : covered v = true) (h : marshalValue d t v = some s) : need v ≤ literalFuel s := by
  have := (need_le d hn v t s hc h).1
  unfold literalFuel
  omega

/-! ### Coercion against a definition that answers lookups alike -/

/-- What literal coercion reads of an input value definition. -/
def ivView {ι : Type} (a : InputValueDef ι) : String × TRef × Bool := (a.name, a.type.ref, a.default.isSome)

/-- `d'` answers the lookups literal coercion makes like `d`: same kind, same enum value names,
    same input fields up to name, type and *presence* of a default. -/
def Agree {ι κ : Type} (d : SchemaDef ι) (d' : SchemaDef κ) : Prop :=
  ∀ n td, d.lookup n = some td → ∃ td', d'.lookup n = some td' ∧ td'.kind = td.kind
    ∧ td'.values.map (·.name) = td.values.map (·.name) ∧ td'.inputs.map ivView = td.inputs.map ivView

theorem find?_view {ι κ : Type} : ∀ (as : List (InputValueDef ι)) (bs : List (InputValueDef κ)) (k : String)
    (a : InputValueDef ι), bs.map ivView = as.map ivView → as.find? (fun x => x.name == k) = some a →
    ∃ b, bs.find? (fun x => x.name == k) = some b ∧ b.type.ref = a.type.ref
  | [], _, _, _, _, h => by simp at h
  | a0 :: as, [], _, _, hm, _ => by simp at hm
  | a0 :: as, b0 :: bs, k, a, hm, h => by
    simp only [List.map_cons, List.cons.injEq] at hm
    obtain ⟨h0, hrest⟩ := hm
    have hname : b0.name = a0.name := by
      have := congrArg (·.1) h0
      simpa [ivView] using this
    have href : b0.type.ref = a0.type.ref := by
      have := congrArg (·.2.1) h0
      simpa [ivView] using this
    by_cases hk : (a0.name == k) = true
    · have ha : a = a0 := by simpa [List.find?_cons, hk] using h.symm
      subst ha
      exact ⟨b0, by simp [hname, hk], href⟩
    · have hk' : (a0.name == k) = false := by simpa using hk
      have h' : as.find? (fun x => x.name == k) = some a := by simpa [List.find?_cons, hk'] using h
      obtain ⟨b, hb, hbr⟩ := find?_view as bs k a hrest h'
      exact ⟨b, by simp [hname, hk', hb], hbr⟩

theorem all_view {ι κ : Type} (as : List (InputValueDef ι)) (bs : List (InputValueDef κ))
    (hm : bs.map ivView = as.map ivView) (q : String × TRef × Bool → Bool) :
    bs.all (fun b => q (ivView b)) = as.all (fun a => q (ivView a)) := by
  have h1 : bs.all (fun b => q (ivView b)) = (bs.map ivView).all q := by simp [List.all_map, Function.comp_def]
  have h2 : as.all (fun a => q (ivView a)) = (as.map ivView).all q := by simp [List.all_map, Function.comp_def]
  rw [h1, h2, hm]

mutual
  theorem coerce_litOf2 {ι κ : Type} (d : SchemaDef ι) (d' : SchemaDef κ) (hag : Agree d d') :
      ∀ (v : Value) (t : TRef), nf d t v = true → coerceLit d' t (litOf v) = some v
    | .null, t, h => by
      simp only [nf, Bool.not_eq_true'] at h
      simp [litOf, coerceLit, h]
    | .int i, t, h => by
      unfold nf at h
      simp only [litOf, coerceLit]
      split at h
      · rename_i n hs
        simp only [Bool.or_eq_true, Bool.and_eq_true, beq_iff_eq] at h
        rcases h with ⟨rfl, h⟩ | ⟨rfl, h⟩
        · simp [h]
        · simp [h]
      · simp at h
    | .float x, t, h => by simp [nf] at h
    | .str x, t, h => by
      unfold nf at h
      simp only [litOf, coerceLit]
      split at h
      · rename_i n hs
        simp only [Bool.or_eq_true, beq_iff_eq] at h
        simp [h, String.ofList_toList]
      · simp at h
    | .bool b, t, h => by
      unfold nf at h
      simp only [litOf, coerceLit]
      split at h
      · rename_i n hs
        simp only [beq_iff_eq] at h
        simp [h]
      · simp at h
    | .enum name, t, h => by
      unfold nf at h
      simp only [litOf, coerceLit]
      split at h
      · rename_i n hs
        split at h
        · rename_i td hl
          obtain ⟨td', hl', hk, hv, _⟩ := hag n td hl
          simp only [Bool.and_eq_true] at h
          have hany : td'.values.any (fun v => v.name == name) = true := by
            have h1 : td'.values.any (fun v => v.name == name) = (td'.values.map (·.name)).any (· == name) := by
              simp [List.any_map, Function.comp_def]
            have h2 : td.values.any (fun v => v.name == name) = (td.values.map (·.name)).any (· == name) := by
              simp [List.any_map, Function.comp_def]
            rw [h1, hv, ← h2]; exact h.2
          simp only [hl', String.ofList_toList, hk]
          simp [h.1, hany]
        · simp at h
      · simp at h
    | .list vs, t, h => by
      unfold nf at h
      simp only [litOf, coerceLit]
      split at h
      · rename_i item hs
        simp [coerce_litOfList2 d d' hag vs item h]
      · simp at h
    | .obj fs, t, h => by
      unfold nf at h
      simp only [litOf, coerceLit]
      split at h
      · rename_i n hs
        split at h
        · rename_i td hl
          obtain ⟨td', hl', hk', _, hin⟩ := hag n td hl
          simp only [Bool.and_eq_true] at h
          obtain ⟨⟨⟨hk, hnd⟩, hnf⟩, hall⟩ := h
          have hgiven := coerce_litOfFields2 d d' hag td.inputs td'.inputs hin fs hnf
          simp only [hl', hk']
          rw [litOfFields_keys, hk, hnd, hgiven]
          simp only [Bool.and_self, if_true]
          -- the conditions on the declared fields, read through `ivView`
          have hall' : td'.inputs.all (fun a => fs.any (fun g => g.1 == a.name) || (a.default.isNone && !isNonNull a.type.ref)) = true := by
            have := all_view td.inputs td'.inputs hin
              (fun p => fs.any (fun g => g.1 == p.1) || (!p.2.2 && !isNonNull p.2.1))
            simp only [ivView] at this
            have e1 : ∀ (o : Option Value), (!o.isSome) = o.isNone := by intro o; cases o <;> rfl
            simp only [e1] at this
            rw [this]; exact hall
          have hcond : (td'.inputs.all fun a =>
              fs.any (fun g => g.1 == a.name) || a.default.isSome || !isNonNull a.type.ref) = true := by
            rw [List.all_eq_true] at hall' ⊢
            intro a ha
            have := hall' a ha
            simp only [Bool.or_eq_true, Bool.and_eq_true] at this ⊢
            rcases this with h1 | h2
            · exact Or.inl (Or.inl h1)
            · exact Or.inr h2.2
          rw [hcond]
          simp only [if_true]
          have hnone : ((td'.inputs.filter (fun a => !fs.any (fun g => g.1 == a.name))).filterMap
              (fun a => a.default.map (fun v => (a.name, v)))) = [] := by
            apply filterMap_eq_nil_of
            intro a ha
            rw [List.mem_filter] at ha
            rw [List.all_eq_true] at hall'
            have := hall' a ha.1
            simp only [Bool.or_eq_true, Bool.and_eq_true] at this
            rcases this with h1 | h2
            · simp [h1] at ha
            · have : a.default = none := by simpa using h2.1
              simp [this]
          rw [hnone]
          simp
        · simp at h
      · simp at h
  theorem coerce_litOfList2 {ι κ : Type} (d : SchemaDef ι) (d' : SchemaDef κ) (hag : Agree d d') :
      ∀ (vs : List Value) (item : TRef), nfList d item vs = true → coerceItems d' item (litOfList vs) = some vs
    | [], item, _ => by simp [litOfList, coerceItems]
    | v :: vs, item, h => by
      simp only [nfList, Bool.and_eq_true] at h
      simp [litOfList, coerceItems, coerce_litOf2 d d' hag v item h.1, coerce_litOfList2 d d' hag vs item h.2]
  theorem coerce_litOfFields2 {ι κ : Type} (d : SchemaDef ι) (d' : SchemaDef κ) (hag : Agree d d')
      (inputs : List (InputValueDef ι)) (inputs' : List (InputValueDef κ)) (hin : inputs'.map ivView = inputs.map ivView) :
      ∀ (fs : List (String × Value)), nfFields d inputs fs = true → coerceFields d' inputs' (litOfFields fs) = some fs
    | [], _ => by simp [litOfFields, coerceFields]
    | (k, v) :: fs, h => by
      simp only [nfFields, Bool.and_eq_true] at h
      obtain ⟨h1, h2⟩ := h
      split at h1
      · rename_i a ha
        obtain ⟨b, hb, hbr⟩ := find?_view inputs inputs' k a hin ha
        simp [litOfFields, coerceFields, String.ofList_toList, hb, hbr, coerce_litOf2 d d' hag v a.type.ref h1,
          coerce_litOfFields2 d d' hag inputs inputs' hin fs h2]
      · simp at h1
end

/-! ### Resolving the pending defaults -/

/-- A configured default the theorems speak about: of the covered classes, in coercion normal form
    with respect to the visible schema, and printed by `marshalValue` (no resolver error). -/
def DefaultOk (D V : SchemaDef Unit) (t : TRef) (o : Option Value) : Prop :=
  ∀ v, o = some v → covered v = true ∧ nf V t v = true ∧ ∃ s, marshalValue D t v = some s

structure DefaultsCovered (D V : SchemaDef Unit) : Prop where
  args : ∀ u ∈ V.types, ∀ f ∈ u.fields, ∀ a ∈ f.args, DefaultOk D V a.type.ref a.default
  inputs : ∀ u ∈ V.types, ∀ a ∈ u.inputs, DefaultOk D V a.type.ref a.default
  dirs : ∀ dd ∈ V.directives, ∀ a ∈ dd.args, DefaultOk D V a.type.ref a.default

theorem pending_isSome {D V : SchemaDef Unit} {t : TRef} {o : Option Value} (h : DefaultOk D V t o) :
    (pendingDefault true (defaultData D t o)).isSome = o.isSome := by
  cases o with
  | none => rfl
  | some v =>
    obtain ⟨_, _, s, hs⟩ := h v rfl
    simp [defaultData, hs, pendingDefault]

theorem resolve_pending {D V : SchemaDef Unit} {g : GDef} (hag : Agree V g) (hn : NamesOk D) {t : TRef}
    {o : Option Value} (h : DefaultOk D V t o) :
    (pendingDefault true (defaultData D t o)).bind (resolveDefault g t) = o := by
  cases o with
  | none => rfl
  | some v =>
    obtain ⟨hc, hnf, s, hs⟩ := h v rfl
    have hparse : parseLit (literalFuel s) s.toList = some (litOf v, []) := by
      have := parse_marshal D hn v t s (literalFuel s) [] hc hs (need_le_fuel D hn v t s hc hs)
        (by intro c hc'; simp at hc')
      simpa using this
    have hco := coerce_litOf2 V g hag v t hnf
    simp only [defaultData, hs, pendingDefault, if_true, Option.bind_some, resolveDefault, hparse]
    cases v with
    | null =>
      have : isNonNull t = false := by simpa [nf] using hnf
      simp [litOf, this]
    | float x => simp [covered] at hc
    | int i => simp only [litOf] at hco ⊢; simp [hco]
    | str x => simp only [litOf] at hco ⊢; simp [hco]
    | bool b => simp only [litOf] at hco ⊢; simp [hco]
    | «enum» n => simp only [litOf] at hco ⊢; simp [hco]
    | list vs => simp only [litOf] at hco ⊢; simp [hco]
    | obj fs => simp only [litOf] at hco ⊢; simp [hco]

/-! ### The pending rebuilt definition answers lookups like the visible schema -/

theorem forgetType_name (keep : Bool) (D : SchemaDef Unit) (u : TypeDef Unit) : (forgetType keep D u).name = u.name := by
  unfold forgetType
  split
  · rfl
  · cases u.kind <;> rfl

theorem find?_map_of_nodup {α : Type} {M : List (TypeDef Unit)} (hn : (M.map (·.name)).Nodup) {u : TypeDef Unit}
    (hu : u ∈ M) (g : TypeDef Unit → TypeDef α) (hg : ∀ x, (g x).name = x.name) :
    (M.map g).find? (fun x => x.name == u.name) = some (g u) := by
  induction M with
  | nil => cases hu
  | cons x xs ih =>
    simp only [List.map_cons, List.nodup_cons] at hn
    rcases List.mem_cons.mp hu with rfl | hu
    · simp [hg]
    · have hne : x.name ≠ u.name := by
        intro h
        exact hn.1 (h ▸ List.mem_map_of_mem (f := fun (y : TypeDef Unit) => y.name) hu)
      have : ((g x).name == u.name) = false := by rw [hg]; simpa using hne
      simp [this, ih hn.2 hu]

theorem lookup_forgetDefP (keep : Bool) (D V : SchemaDef Unit) (hn : (V.types.map (·.name)).Nodup)
    {n : String} {u : TypeDef Unit} (h : V.lookup n = some u) :
    (forgetDefP keep D V).lookup n = some (forgetType keep D u) := by
  obtain ⟨hu, hname⟩ := lookup_some h
  have hn' : ((sortDefs V.types).map (·.name)).Nodup := (sortDefs_names_perm V.types).nodup_iff.mpr hn
  have := find?_map_of_nodup hn' (mem_sortDefs.mpr hu) (forgetType keep D) (forgetType_name keep D)
  rw [hname] at this
  exact this

/-- Facts about the types of a (visible) schema the agreement needs. -/
structure ShapeOk (V : SchemaDef Unit) : Prop where
  namesNodup : (V.types.map (·.name)).Nodup
  builtinScalar : ∀ u ∈ V.types, isBuiltin u.name = true → u.kind = .scalar
  values : ∀ u ∈ V.types, u.kind ≠ .enum → u.values = []
  inputs : ∀ u ∈ V.types, u.kind ≠ .inputObject → u.inputs = []

theorem agree_forgetDefP {D V : SchemaDef Unit} (hs : ShapeOk V) (hd : DefaultsCovered D V) :
    Agree V (forgetDefP true D V) := by
  intro n u hl
  obtain ⟨hu, _⟩ := lookup_some hl
  refine ⟨forgetType true D u, lookup_forgetDefP true D V hs.namesNodup hl, ?_⟩
  have hview : (u.inputs.map (forgetIV true D)).map ivView = u.inputs.map ivView := by
    rw [List.map_map]
    apply List.map_congr_left
    intro a ha
    simp only [Function.comp, ivView, forgetIV, typeAtOf]
    have := pending_isSome (hd.inputs u hu a ha)
    rw [this]
  unfold forgetType
  by_cases hb : isBuiltin u.name = true
  · have hk := hs.builtinScalar u hu hb
    have hv := hs.values u hu (by rw [hk]; decide)
    have hi := hs.inputs u hu (by rw [hk]; decide)
    simp [hb, builtinType, hk, hv, hi]
  · simp only [hb, Bool.false_eq_true, if_false]
    cases hk : u.kind with
    | scalar =>
      have hv := hs.values u hu (by rw [hk]; decide)
      have hi := hs.inputs u hu (by rw [hk]; decide)
      simp [shellType, builtinType, hv, hi]
    | object =>
      have hv := hs.values u hu (by rw [hk]; decide)
      have hi := hs.inputs u hu (by rw [hk]; decide)
      simp [forgetObject, shellType, builtinType, hv, hi]
    | interface =>
      have hv := hs.values u hu (by rw [hk]; decide)
      have hi := hs.inputs u hu (by rw [hk]; decide)
      simp [forgetInterface, shellType, builtinType, hv, hi]
    | union =>
      have hv := hs.values u hu (by rw [hk]; decide)
      have hi := hs.inputs u hu (by rw [hk]; decide)
      simp [forgetUnion, shellType, builtinType, hv, hi]
    | «enum» =>
      have hi := hs.inputs u hu (by rw [hk]; decide)
      simp [forgetEnum, shellType, builtinType, hi, List.map_map, Function.comp_def, forgetEnumValue]
    | inputObject =>
      have hv := hs.values u hu (by rw [hk]; decide)
      simp [forgetInput, shellType, builtinType, hv, hview]

/-! ### `setDefaultValues` restores the configured defaults -/

theorem resolveDefaults_forgetDefP {D V : SchemaDef Unit} (hs : ShapeOk V) (hd : DefaultsCovered D V) (hn : NamesOk D) :
    resolveDefaults (forgetDefP true D V) = forgetDefKeep V := by
  have hag := agree_forgetDefP hs hd
  have hiv : ∀ (a : InputValueDef Unit), DefaultOk D V a.type.ref a.default →
      resolveIV (forgetDefP true D V) (forgetIV true D a) = keepIV a := by
    intro a hok
    have := resolve_pending hag hn hok
    have href : (typeAtOf a.type.ref).ref = a.type.ref := rfl
    simp only [resolveIV, forgetIV, keepIV, href, this]
  have hiv0 : ∀ (a : InputValueDef0 Unit), DefaultOk D V a.type.ref a.default →
      resolveIV0 (forgetDefP true D V) (forgetIV0 true D a) = keepIV0 a := by
    intro a hok
    have := resolve_pending hag hn hok
    have href : (typeAtOf a.type.ref).ref = a.type.ref := rfl
    simp only [resolveIV0, forgetIV0, keepIV0, href, this]
  have hfield : ∀ u ∈ V.types, ∀ f ∈ u.fields,
      resolveField (forgetDefP true D V) (forgetField true D f) = keepField f := by
    intro u hu f hf
    simp only [resolveField, forgetField, keepField]
    rw [map_map_congr (h := keepIV) (fun a ha => hiv a (hd.args u hu f hf a ha))]
  have htype : ∀ u ∈ V.types, resolveType (forgetDefP true D V) (forgetType true D u) = keepType u := by
    intro u hu
    have hfs : (u.fields.map (forgetField true D)).map (resolveField (forgetDefP true D V)) = u.fields.map keepField :=
      map_map_congr (h := keepField) (fun f hf => hfield u hu f hf)
    have his : (u.inputs.map (forgetIV true D)).map (resolveIV (forgetDefP true D V)) = u.inputs.map keepIV :=
      map_map_congr (h := keepIV) (fun a ha => hiv a (hd.inputs u hu a ha))
    unfold forgetType keepType
    by_cases hb : isBuiltin u.name = true
    · simp [hb, resolveType, builtinType]
    · simp only [hb, Bool.false_eq_true, if_false]
      cases hk : u.kind with
      | scalar => simp [resolveType, shellType, builtinType]
      | object => simp [resolveType, forgetObject, keepObject, shellType, builtinType, hfs]
      | interface => simp [resolveType, forgetInterface, keepInterface, shellType, builtinType, hfs]
      | union => simp [resolveType, forgetUnion, shellType, builtinType]
      | «enum» => simp [resolveType, forgetEnum, shellType, builtinType]
      | inputObject => simp [resolveType, forgetInput, keepInput, shellType, builtinType, his]
  have hdir : ∀ dd ∈ V.directives, resolveDirective (forgetDefP true D V) (forgetDirective true D dd) = keepDirective dd := by
    intro dd hdd
    simp only [resolveDirective, forgetDirective, keepDirective]
    rw [map_map_congr (h := keepIV0) (fun a ha => hiv0 a (hd.dirs dd hdd a ha))]
  have hts : ((sortDefs V.types).map (forgetType true D)).map (resolveType (forgetDefP true D V))
      = (sortDefs V.types).map keepType :=
    map_map_congr (h := keepType) (fun u hu => htype u (mem_sortDefs.mp hu))
  have hds : (V.directives.map (forgetDirective true D)).map (resolveDirective (forgetDefP true D V))
      = V.directives.map keepDirective :=
    map_map_congr (h := keepDirective) (fun dd hdd => hdir dd hdd)
  -- kinds / interfaces (what AdditionalTypes is computed from) are the same before and after
  have hadd : ∀ u, ((forgetType true D u).kind == Kind.object && !(forgetType true D u).ifaces.isEmpty)
      = ((keepType u).kind == Kind.object && !(keepType u).ifaces.isEmpty) := by
    intro u
    unfold forgetType keepType
    by_cases hb : isBuiltin u.name = true
    · simp [hb]
    · simp only [hb, Bool.false_eq_true, if_false]
      cases u.kind <;> rfl
  have hnames : ∀ u, (forgetType true D u).name = (keepType u).name := by
    intro u
    rw [forgetType_name]
    unfold keepType
    split
    · rfl
    · cases u.kind <;> rfl
  unfold resolveDefaults
  simp only [forgetDefP] at hts hds ⊢
  rw [hts, hds]
  simp only [forgetDefKeep]
  have hadditional : (List.filter (fun t => t.kind == Kind.object && !t.ifaces.isEmpty) ((sortDefs V.types).map (forgetType true D))).map (·.name)
      = (List.filter (fun t => t.kind == Kind.object && !t.ifaces.isEmpty) ((sortDefs V.types).map keepType)).map (·.name) := by
    simp only [List.filter_map, List.map_map, Function.comp_def, hadd, hnames]
  simp only [hadditional]

end ApiFu.C10
