/-
  Driver operation for the heap model of Clone (CloneHeap.lean):

    (heapclone FUEL BASE ROOT (tbl ("name" ADDR)…) (heap NODE…))  →  (cloned ROOT' NEXT NODE…) | (error "…")
    NODE := (ADDR n "name" "label" KID…) | (ADDR i "label" KID…)

  The answer lists the nodes the call allocated (addresses BASE … NEXT-1); the heap below BASE is
  unchanged (`heap_clone_frame`).
-/
import ApiFu.Common.Sexp
import ApiFu.C10.CloneHeap

open ApiFu ApiFu.C10.CloneHeap

namespace C10HeapDriver

/-- `clone`, also returning the allocator's final `next`. -/
def cloneWithNext (fuel : Nat) (h : Heap) (L : List (String × Nat)) (root base : Nat) : Option (Nat × Nat × Heap) :=
  let tbl := tblOf L base
  match pass2 h tbl fuel L { heap := h, next := base + L.length } with
  | none => none
  | some (nodes, s1) =>
    match fixPtr h tbl fuel root s1 with
    | none => none
    | some (r', s2) => some (r', s2.next, overlay base nodes s2.heap)

/-- The driver runs the function the theorems are about. -/
theorem cloneWithNext_eq (fuel : Nat) (h : Heap) (L : List (String × Nat)) (root base : Nat) :
    (cloneWithNext fuel h L root base).map (fun p => (p.1, p.2.2)) = clone fuel h L root base := by
  simp only [cloneWithNext, clone]
  cases pass2 h (tblOf L base) fuel L { heap := h, next := base + L.length } with
  | none => rfl
  | some q =>
    obtain ⟨nodes, s1⟩ := q
    simp only
    cases fixPtr h (tblOf L base) fuel root s1 with
    | none => rfl
    | some q2 => rfl

def pNode : Sexp → Option (Nat × Node)
  | .list (a :: .atom "n" :: .atom name :: .atom lbl :: ks) =>
    match a.nat?, ks.mapM Sexp.nat? with
    | some a, some ks => some (a, .named name lbl ks)
    | _, _ => none
  | .list (a :: .atom "i" :: .atom lbl :: ks) =>
    match a.nat?, ks.mapM Sexp.nat? with
    | some a, some ks => some (a, .inner lbl ks)
    | _, _ => none
  | _ => none

def pEntry : Sexp → Option (String × Nat)
  | .list [.atom n, a] => a.nat?.map (fun a => (n, a))
  | _ => none

def sNode (a : Nat) : Node → Sexp
  | .named n l ks => .list (.atom (toString a) :: .atom "n" :: .atom n :: .atom l :: ks.map (fun k => .atom (toString k)))
  | .inner l ks => .list (.atom (toString a) :: .atom "i" :: .atom l :: ks.map (fun k => .atom (toString k)))

def heapOfList (nodes : Array (Option Node)) : Heap := fun a => (nodes[a]?).join

def op (fuel base root : Sexp) (tbl heap : List Sexp) : String :=
  match fuel.nat?, base.nat?, root.nat?, tbl.mapM pEntry, heap.mapM pNode with
  | some fuel, some base, some root, some L, some ns =>
    let size := ns.foldl (fun m p => max m (p.1 + 1)) 0
    let arr : Array (Option Node) := ns.foldl (fun arr p => arr.set! p.1 (some p.2)) (Array.replicate size none)
    if size > base then toString (Sexp.node "error" [.atom "base-below-heap"]) else
    match cloneWithNext fuel (heapOfList arr) L root base with
    | none => toString (Sexp.node "error" [.atom "no-result"])
    | some (r', next, H) =>
      let out := (List.range (next - base)).filterMap (fun i => (H (base + i)).map (sNode (base + i)))
      toString (Sexp.node "cloned" (.atom (toString r') :: .atom (toString next) :: out))
  | _, _, _, _, _ => toString (Sexp.node "error" [.atom "bad-arguments"])

end C10HeapDriver
