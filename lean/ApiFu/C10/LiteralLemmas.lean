/-
  C10 — lemmas about the literal syntax specification (Literal.lean) and `marshalValue`:
  the printed form of a value parses back to the literal that denotes it. Core Lean only.
-/
import ApiFu.C10.Literal

namespace ApiFu.C10

theorem hexVal_digitChar : ∀ (k : Nat), k < 16 → hexVal (Nat.digitChar k) = some k
  | 0, _ => by decide
  | 1, _ => by decide
  | 2, _ => by decide
  | 3, _ => by decide
  | 4, _ => by decide
  | 5, _ => by decide
  | 6, _ => by decide
  | 7, _ => by decide
  | 8, _ => by decide
  | 9, _ => by decide
  | 10, _ => by decide
  | 11, _ => by decide
  | 12, _ => by decide
  | 13, _ => by decide
  | 14, _ => by decide
  | 15, _ => by decide
  | k + 16, h => by omega

theorem lexString_uEscape (n : Nat) (hn : n < 65536) (rest acc : List Char) :
    lexString (uEscape n ++ rest) acc = lexString rest (Char.ofNat n :: acc) := by
  have h3 := hexVal_digitChar (n / 4096 % 16) (by omega)
  have h2 := hexVal_digitChar (n / 256 % 16) (by omega)
  have h1 := hexVal_digitChar (n / 16 % 16) (by omega)
  have h0 := hexVal_digitChar (n % 16) (by omega)
  have hv : (((n / 4096 % 16) * 16 + n / 256 % 16) * 16 + n / 16 % 16) * 16 + n % 16 = n := by omega
  simp only [uEscape, hexDigit, List.cons_append, List.nil_append]
  rw [lexString.eq_def]
  simp only [show ('\\' : Char).toNat = 92 from rfl, show ('u' : Char).toNat = 117 from rfl]
  simp [h3, h2, h1, h0, hv]


theorem lexString_escapeChar (c : Char) (hc : c.toNat ≤ 0xFFFF) (rest acc : List Char) :
    lexString (jsonEscapeChar c ++ rest) acc = lexString rest (c :: acc) := by
  have hof : Char.ofNat c.toNat = c := Char.ofNat_toNat c
  unfold jsonEscapeChar
  by_cases h34 : c.toNat = 34
  · have : c = '\x22' := by rw [← hof, h34]
    subst this
    rw [lexString.eq_def]
    simp
  by_cases h92 : c.toNat = 92
  · have : c = '\\' := by rw [← hof, h92]
    subst this
    rw [lexString.eq_def]
    simp
  by_cases h10 : c.toNat = 10
  · have : c = '\n' := by rw [← hof, h10]
    subst this
    rw [lexString.eq_def]
    simp
  by_cases h13 : c.toNat = 13
  · have : c = '\r' := by rw [← hof, h13]
    subst this
    rw [lexString.eq_def]
    simp
  by_cases h9 : c.toNat = 9
  · have : c = '\t' := by rw [← hof, h9]
    subst this
    rw [lexString.eq_def]
    simp
  by_cases h8 : c.toNat = 8
  · have : c = Char.ofNat 8 := by rw [← hof, h8]
    subst this
    rw [lexString.eq_def]
    simp
  by_cases h12 : c.toNat = 12
  · have : c = Char.ofNat 12 := by rw [← hof, h12]
    subst this
    rw [lexString.eq_def]
    simp
  simp only [h34, h92, h10, h13, h9, h8, h12, if_false]
  by_cases hlt : c.toNat < 32
  · simp only [hlt, if_true]
    rw [lexString_uEscape _ (by omega), hof]
  simp only [hlt, if_false]
  by_cases hhtml : c.toNat = 60 ∨ c.toNat = 62 ∨ c.toNat = 38
  · simp only [hhtml, if_true]
    rw [lexString_uEscape _ (by omega), hof]
  simp only [hhtml, if_false]
  by_cases hsep : c.toNat = 0x2028 ∨ c.toNat = 0x2029
  · simp only [hsep, if_true]
    rw [lexString_uEscape _ (by omega), hof]
  simp only [hsep, if_false]
  rw [List.singleton_append, lexString.eq_def]
  have hsrc : isSourceChar c = true := by
    simp [isSourceChar]
    right
    omega
  simp [h34, h92, h10, h13, hsrc]

/-- The quoted form of a string lexes back to the string (all code points up to U+FFFF). -/
theorem lexString_jsonEscape (cs : List Char) (h : ∀ c ∈ cs, c.toNat ≤ 0xFFFF) (rest acc : List Char) :
    lexString (jsonEscape cs ++ '\x22' :: rest) acc = some (acc.reverse ++ cs, rest) := by
  induction cs generalizing acc with
  | nil => rw [lexString.eq_def]; simp [jsonEscape]
  | cons c cs ih =>
    have hc := h c List.mem_cons_self
    have hcs : ∀ c' ∈ cs, c'.toNat ≤ 0xFFFF := fun c' hc' => h c' (List.mem_cons_of_mem _ hc')
    have : jsonEscape (c :: cs) = jsonEscapeChar c ++ jsonEscape cs := by simp [jsonEscape]
    rw [this, List.append_assoc, lexString_escapeChar c hc, ih hcs]
    simp

/-- F-10b witness: the raw code point U+1F600 is not a SourceCharacter. -/
example : lexString (jsonEscape [Char.ofNat 0x1F600] ++ ['\x22']) [] = none := by decide


/-! ### Integers -/

theorem isDigit_digitChar : ∀ (k : Nat), k < 10 → isDigit (Nat.digitChar k) = true ∧ (Nat.digitChar k).toNat - 48 = k
  | 0, _ => by decide
  | 1, _ => by decide
  | 2, _ => by decide
  | 3, _ => by decide
  | 4, _ => by decide
  | 5, _ => by decide
  | 6, _ => by decide
  | 7, _ => by decide
  | 8, _ => by decide
  | 9, _ => by decide
  | k + 10, h => by omega

theorem toDigits_step (n : Nat) :
    Nat.toDigits 10 n = if n < 10 then [n.digitChar] else Nat.toDigits 10 (n / 10) ++ [(n % 10).digitChar] :=
  Nat.toDigits_eq_if (by decide)

theorem toDigits_all_digits (n : Nat) : ∀ c ∈ Nat.toDigits 10 n, isDigit c = true := by
  induction n using Nat.strongRecOn with
  | _ n ih =>
    rw [toDigits_step]
    split
    · intro c hc
      simp only [List.mem_singleton] at hc
      subst hc
      exact (isDigit_digitChar n (by omega)).1
    · intro c hc
      rcases List.mem_append.mp hc with h | h
      · exact ih (n / 10) (by omega) c h
      · simp only [List.mem_singleton] at h
        subst h
        exact (isDigit_digitChar (n % 10) (by omega)).1

theorem digitsVal_append (a : List Char) (c : Char) : digitsVal (a ++ [c]) = digitsVal a * 10 + (c.toNat - 48) := by
  simp [digitsVal, List.foldl_append]

theorem digitsVal_toDigits (n : Nat) : digitsVal (Nat.toDigits 10 n) = n := by
  induction n using Nat.strongRecOn with
  | _ n ih =>
    rw [toDigits_step]
    split
    · have := (isDigit_digitChar n (by omega)).2
      simp [digitsVal, this]
    · rw [digitsVal_append, ih (n / 10) (by omega), (isDigit_digitChar (n % 10) (by omega)).2]
      omega

/-- No leading zero: the decimal form starts with `0` only for 0 itself. -/
theorem toDigits_head (n : Nat) : ∃ d ds, Nat.toDigits 10 n = d :: ds ∧ (d.toNat = 48 → ds = []) := by
  induction n using Nat.strongRecOn with
  | _ n ih =>
    rw [toDigits_step]
    split
    · exact ⟨_, [], rfl, fun _ => rfl⟩
    · rename_i hge
      obtain ⟨d, ds, hd, hz⟩ := ih (n / 10) (by omega)
      refine ⟨d, ds ++ [(n % 10).digitChar], by rw [hd]; rfl, ?_⟩
      intro h0
      have hds := hz h0
      subst hds
      -- then n / 10 printed as "0", i.e. n / 10 = 0: contradiction with n ≥ 10
      have hv := digitsVal_toDigits (n / 10)
      rw [hd] at hv
      simp [digitsVal, h0] at hv
      omega

theorem spanDigits_append (ds rest : List Char) (hds : ∀ c ∈ ds, isDigit c = true)
    (hrest : ∀ c, rest.head? = some c → isDigit c = false) : spanDigits (ds ++ rest) = (ds, rest) := by
  induction ds with
  | nil =>
    cases rest with
    | nil => rfl
    | cons c cs => simp [spanDigits, hrest c rfl]
  | cons d ds ih =>
    have hd := hds d List.mem_cons_self
    have := ih (fun c hc => hds c (List.mem_cons_of_mem _ hc))
    simp [spanDigits, hd, this]

/-- What may follow a printed value: nothing, or a character that is neither a digit, a name
    character, `.` nor `"` (in the printed form: `,`, `]`, `}`). -/
def Term (rest : List Char) : Prop :=
  ∀ c, rest.head? = some c → isNameCont c = false ∧ c.toNat ≠ 46 ∧ c.toNat ≠ 34

theorem Term.not_digit {rest : List Char} (h : Term rest) : ∀ c, rest.head? = some c → isDigit c = false := by
  intro c hc
  have := (h c hc).1
  simp [isNameCont] at this
  exact this.2

theorem lexInt_toDigits (neg : Bool) (n : Nat) (rest : List Char) (hr : Term rest) :
    lexInt neg (Nat.toDigits 10 n ++ rest)
      = some (if neg then - (Int.ofNat n) else Int.ofNat n, rest) := by
  obtain ⟨d, ds, hd, hz⟩ := toDigits_head n
  unfold lexInt
  rw [spanDigits_append _ _ (toDigits_all_digits n) hr.not_digit, hd]
  simp only
  have hlead : (d.toNat = 48 && !ds.isEmpty) = false := by
    by_cases h0 : d.toNat = 48
    · simp [hz h0]
    · simp [h0]
  rw [hlead]
  simp only [Bool.false_eq_true, if_false]
  rw [← hd, digitsVal_toDigits]
  cases rest with
  | nil => rfl
  | cons c cs =>
    have := hr c rfl
    have hns : isNameStart c = false := by
      have h1 := this.1
      simp [isNameCont] at h1
      exact h1.1
    simp [this.2.1, hns]


/-! ### Names -/

theorem spanName_append (n rest : List Char) (hn : ∀ c ∈ n, isNameCont c = true)
    (hrest : ∀ c, rest.head? = some c → isNameCont c = false) : spanName (n ++ rest) = (n, rest) := by
  induction n with
  | nil =>
    cases rest with
    | nil => rfl
    | cons c cs => simp [spanName, hrest c rfl]
  | cons d ds ih =>
    have hd := hn d List.mem_cons_self
    have := ih (fun c hc => hn c (List.mem_cons_of_mem _ hc))
    simp [spanName, hd, this]

theorem not_ignored_of_nameStart {c : Char} (h : isNameStart c = true) : isIgnored c = false := by
  simp [isNameStart, isLetter, isIgnored] at *
  omega

theorem not_ignored_of_digit {c : Char} (h : isDigit c = true) : isIgnored c = false := by
  simp [isDigit, isIgnored] at *
  omega

theorem skipIgnored_cons_of_not {c : Char} {cs : List Char} (h : isIgnored c = false) :
    skipIgnored (c :: cs) = c :: cs := by
  simp [skipIgnored, h]

/-- A name followed by a terminator parses as `true` / `false` / `null` / an enum value. -/
theorem parseLit_name (fuel : Nat) (n rest : List Char) (hv : validName n = true) (hr : Term rest) :
    parseLit (fuel + 1) (n ++ rest) =
      some (if n = "true".toList then Lit.bool true
            else if n = "false".toList then Lit.bool false
            else if n = "null".toList then Lit.null
            else Lit.enum n, rest) := by
  cases n with
  | nil => simp [validName] at hv
  | cons c cs =>
    simp only [validName, Bool.and_eq_true, List.all_eq_true] at hv
    obtain ⟨hc, hcs⟩ := hv
    have hall : ∀ x ∈ c :: cs, isNameCont x = true := by
      intro x hx
      rcases List.mem_cons.mp hx with rfl | hx
      · simp [isNameCont, hc]
      · exact hcs x hx
    have hspan := spanName_append (c :: cs) rest hall (fun x hx => (hr x hx).1)
    have hnd : isDigit c = false := by
      simp [isNameStart, isLetter, isDigit] at *
      omega
    have h91 : c.toNat ≠ 91 ∧ c.toNat ≠ 123 ∧ c.toNat ≠ 34 ∧ c.toNat ≠ 45 := by
      simp [isNameStart, isLetter] at hc
      omega
    rw [parseLit]
    rw [List.cons_append, skipIgnored_cons_of_not (not_ignored_of_nameStart hc)]
    simp only [h91.1, h91.2.1, h91.2.2.1, h91.2.2.2, if_false, hnd, hc, if_true, Bool.false_eq_true]
    rw [← List.cons_append, hspan]
    simp only
    repeat' split
    all_goals rfl


/-! ### Scalars -/

theorem toString_nat_toList (n : Nat) : (toString n).toList = Nat.toDigits 10 n := by
  simp [toString, Nat.repr]

theorem parseLit_int (fuel : Nat) (i : Int) (rest : List Char) (hr : Term rest) :
    parseLit (fuel + 1) ((toString i).toList ++ rest) = some (Lit.int i, rest) := by
  cases i with
  | ofNat n =>
    have hs : (toString (Int.ofNat n)).toList = Nat.toDigits 10 n := toString_nat_toList n
    rw [hs]
    obtain ⟨d, ds, hd, _⟩ := toDigits_head n
    have hdig : isDigit d = true := toDigits_all_digits n d (by rw [hd]; exact List.mem_cons_self)
    have h91 : d.toNat ≠ 91 ∧ d.toNat ≠ 123 ∧ d.toNat ≠ 34 ∧ d.toNat ≠ 45 := by
      simp [isDigit] at hdig
      omega
    rw [parseLit, hd, List.cons_append, skipIgnored_cons_of_not (not_ignored_of_digit hdig)]
    simp only [h91.1, h91.2.1, h91.2.2.1, h91.2.2.2, if_false, hdig, if_true]
    rw [← List.cons_append, ← hd, lexInt_toDigits false n rest hr]
    rfl
  | negSucc m =>
    have hs : (toString (Int.negSucc m)).toList = '-' :: Nat.toDigits 10 (m + 1) := by
      show ("-" ++ toString (m + 1)).toList = _
      rw [String.toList_append, toString_nat_toList]
      rfl
    rw [hs, parseLit, List.cons_append, skipIgnored_cons_of_not (by decide)]
    simp only [show ('-' : Char).toNat = 45 from rfl]
    simp only [show (45 : Nat) ≠ 91 from by decide, show (45 : Nat) ≠ 123 from by decide,
      show (45 : Nat) ≠ 34 from by decide, if_false, if_true]
    rw [lexInt_toDigits true (m + 1) rest hr]
    rfl

theorem jsonString_toList (s : String) : (jsonString s).toList = '\x22' :: (jsonEscape s.toList ++ ['\x22']) := by
  simp [jsonString]

/-- The escaped body never starts with a quote. -/
theorem jsonEscape_head (cs : List Char) : ∀ q tl, jsonEscape cs = q :: tl → q.toNat ≠ 34 := by
  intro q tl h
  cases cs with
  | nil => simp [jsonEscape] at h
  | cons c cs =>
    have : jsonEscape (c :: cs) = jsonEscapeChar c ++ jsonEscape cs := by simp [jsonEscape]
    rw [this] at h
    unfold jsonEscapeChar uEscape at h
    repeat' split at h
    all_goals simp at h
    all_goals (try (obtain ⟨rfl, _⟩ := h; first | decide | assumption))

theorem parseLit_str (fuel : Nat) (s : String) (rest : List Char) (hr : Term rest)
    (hs : ∀ c ∈ s.toList, c.toNat ≤ 0xFFFF) :
    parseLit (fuel + 1) ((jsonString s).toList ++ rest) = some (Lit.str s.toList, rest) := by
  rw [jsonString_toList, parseLit, List.cons_append, skipIgnored_cons_of_not (by decide)]
  simp only [show ('\x22' : Char).toNat = 34 from rfl, show (34 : Nat) ≠ 91 from by decide,
    show (34 : Nat) ≠ 123 from by decide, if_false, if_true]
  have hlex := lexString_jsonEscape s.toList hs rest []
  have heq : jsonEscape s.toList ++ ['\x22'] ++ rest = jsonEscape s.toList ++ '\x22' :: rest := by simp
  simp only [heq]
  -- not a block string
  cases hbody : jsonEscape s.toList ++ '\x22' :: rest with
  | nil => simp at hbody
  | cons q1 tl =>
    cases tl with
    | nil => simp only; rw [← hbody, hlex]; rfl
    | cons q2 tl2 =>
      have hnb : (q1.toNat = 34 && q2.toNat = 34) = false := by
        cases hj : jsonEscape s.toList with
        | nil =>
          rw [hj] at hbody
          simp at hbody
          obtain ⟨rfl, hrest⟩ := hbody
          have := (hr q2 (by rw [hrest]; rfl)).2.2
          simp [this]
        | cons j jt =>
          rw [hj] at hbody
          simp at hbody
          have := jsonEscape_head s.toList j jt hj
          rw [hbody.1] at this
          simp [this]
      simp only [hnb, Bool.false_eq_true, if_false]
      rw [← hbody, hlex]
      rfl


/-! ### Inversion of `marshalValue` -/

section Inv
variable {ι : Type} (d : SchemaDef ι)

theorem marshal_null (t : TRef) (s : String) (h : marshalValue d t .null = some s) : s = "null" := by
  simp [marshalValue] at h; exact h.symm

theorem marshal_int (t : TRef) (i : Int) (s : String) (h : marshalValue d t (.int i) = some s) : s = toString i := by
  unfold marshalValue at h
  repeat' split at h
  all_goals simp at h
  all_goals (try exact h.symm)

theorem marshal_str (t : TRef) (x : String) (s : String) (h : marshalValue d t (.str x) = some s) : s = jsonString x := by
  unfold marshalValue at h
  repeat' split at h
  all_goals simp at h
  all_goals (try exact h.symm)

theorem marshal_bool (t : TRef) (b : Bool) (s : String) (h : marshalValue d t (.bool b) = some s) :
    s = (if b then "true" else "false") := by
  unfold marshalValue at h
  repeat' split at h
  all_goals simp at h
  all_goals (try (subst h; simp_all))

theorem marshal_float (t : TRef) (x : String) (s : String) (h : marshalValue d t (.float x) = some s) : s = x := by
  unfold marshalValue at h
  repeat' split at h
  all_goals simp at h
  all_goals (try exact h.symm)

theorem marshal_enum (t : TRef) (n : String) (s : String) (h : marshalValue d t (.enum n) = some s) :
    s = n ∧ ∃ td ∈ d.types, ∃ v ∈ td.values, v.name = n := by
  unfold marshalValue at h
  split at h
  · rename_i m _
    split at h
    · rename_i td hl
      split at h
      · split at h
        · rename_i hany
          simp at h
          refine ⟨h.symm, td, (lookup_some' hl), ?_⟩
          simp only [List.any_eq_true, beq_iff_eq] at hany
          exact hany
        · simp at h
      · simp at h
    · simp at h
  · simp at h
where
  lookup_some' {n : String} {t : TypeDef ι} (h : d.lookup n = some t) : t ∈ d.types := by
    unfold SchemaDef.lookup at h
    exact List.mem_of_find?_eq_some h

theorem marshal_list (t : TRef) (vs : List Value) (s : String) (h : marshalValue d t (.list vs) = some s) :
    ∃ item parts, marshalList d item vs = some parts ∧ s = "[" ++ joinWith ", " parts ++ "]" := by
  unfold marshalValue at h
  split at h
  · rename_i item _
    cases hp : marshalList d item vs with
    | none => simp [hp] at h
    | some parts => simp [hp] at h; exact ⟨item, parts, hp, h.symm⟩
  · simp at h

theorem marshal_obj (t : TRef) (fs : List (String × Value)) (s : String) (h : marshalValue d t (.obj fs) = some s) :
    ∃ td ∈ d.types, ∃ parts, marshalFields d td.inputs fs = some parts ∧ s = "{" ++ joinWith ", " parts ++ "}" := by
  unfold marshalValue at h
  split at h
  · rename_i m _
    split at h
    · rename_i td hl
      split at h
      · cases hp : marshalFields d td.inputs fs with
        | none => simp [hp] at h
        | some parts =>
          simp [hp] at h
          exact ⟨td, List.mem_of_find?_eq_some hl, parts, hp, h.symm⟩
      · simp at h
    · simp at h
  · simp at h

theorem marshalList_cons (item : TRef) (v : Value) (vs : List Value) (parts : List String)
    (h : marshalList d item (v :: vs) = some parts) :
    ∃ s ps, marshalValue d item v = some s ∧ marshalList d item vs = some ps ∧ parts = s :: ps := by
  unfold marshalList at h
  split at h
  · rename_i s ps hs hps
    simp at h
    exact ⟨s, ps, hs, hps, h.symm⟩
  · simp at h

theorem marshalList_nil (item : TRef) (parts : List String) (h : marshalList d item [] = some parts) : parts = [] := by
  simp [marshalList] at h; exact h

theorem marshalFields_nil (inputs : List (InputValueDef ι)) (parts : List String)
    (h : marshalFields d inputs [] = some parts) : parts = [] := by
  simp [marshalFields] at h; exact h

theorem marshalFields_cons (inputs : List (InputValueDef ι)) (k : String) (v : Value) (fs : List (String × Value))
    (parts : List String) (h : marshalFields d inputs ((k, v) :: fs) = some parts) :
    ∃ f ∈ inputs, f.name = k ∧ ∃ s ps, marshalValue d f.type.ref v = some s ∧ marshalFields d inputs fs = some ps
      ∧ parts = (k ++ ": " ++ s) :: ps := by
  unfold marshalFields at h
  split at h
  · simp at h
  · rename_i f hf
    split at h
    · rename_i s ps hs hps
      simp at h
      have hmem := List.mem_of_find?_eq_some hf
      have hname := List.find?_some hf
      simp at hname
      exact ⟨f, hmem, hname, s, ps, hs, hps, h.symm⟩
    · simp at h

end Inv


/-! ### Where a printed value starts -/

def StartOk (c : Char) : Prop := isIgnored c = false ∧ c.toNat ≠ 93 ∧ c.toNat ≠ 125

instance (c : Char) : Decidable (StartOk c) := by unfold StartOk; infer_instance

theorem startOk_nameStart {c : Char} (h : isNameStart c = true) : StartOk c := by
  refine ⟨not_ignored_of_nameStart h, ?_, ?_⟩ <;>
  · simp [isNameStart, isLetter] at h
    omega

theorem startOk_digit {c : Char} (h : isDigit c = true) : StartOk c := by
  refine ⟨not_ignored_of_digit h, ?_, ?_⟩ <;>
  · simp [isDigit] at h
    omega

def NamesOk {ι : Type} (d : SchemaDef ι) : Prop := namesOk d = true

theorem namesOk_enum {ι : Type} {d : SchemaDef ι} (h : NamesOk d) {td : TypeDef ι} (htd : td ∈ d.types)
    {v : EnumValueDef ι} (hv : v ∈ td.values) :
    validName v.name.toList = true ∧ v.name ≠ "true" ∧ v.name ≠ "false" ∧ v.name ≠ "null" := by
  unfold NamesOk namesOk at h
  simp only [List.all_eq_true, Bool.and_eq_true, bne_iff_ne, ne_eq] at h
  have := (h td htd).1 v hv
  exact ⟨this.1.1.1, this.1.1.2, this.1.2, this.2⟩

theorem namesOk_input {ι : Type} {d : SchemaDef ι} (h : NamesOk d) {td : TypeDef ι} (htd : td ∈ d.types)
    {a : InputValueDef ι} (ha : a ∈ td.inputs) : validName a.name.toList = true := by
  unfold NamesOk namesOk at h
  simp only [List.all_eq_true, Bool.and_eq_true] at h
  exact (h td htd).2 a ha

theorem validName_head {n : List Char} (h : validName n = true) : ∃ c cs, n = c :: cs ∧ isNameStart c = true := by
  cases n with
  | nil => simp [validName] at h
  | cons c cs =>
    simp only [validName, Bool.and_eq_true] at h
    exact ⟨c, cs, rfl, h.1⟩

theorem marshal_head {ι : Type} (d : SchemaDef ι) (hn : NamesOk d) (t : TRef) (v : Value) (s : String)
    (hc : covered v = true) (h : marshalValue d t v = some s) :
    ∃ c cs, s.toList = c :: cs ∧ StartOk c := by
  cases v with
  | null => rw [marshal_null d t s h]; exact ⟨'n', _, rfl, by decide⟩
  | int i =>
    rw [marshal_int d t i s h]
    cases i with
    | ofNat n =>
      have hs : (toString (Int.ofNat n)).toList = Nat.toDigits 10 n := toString_nat_toList n
      obtain ⟨dd, ds, hd, _⟩ := toDigits_head n
      refine ⟨dd, ds, by rw [hs, hd], startOk_digit (toDigits_all_digits n dd (by rw [hd]; exact List.mem_cons_self))⟩
    | negSucc m =>
      refine ⟨'-', (toString (m + 1)).toList, ?_, by decide⟩
      show ("-" ++ toString (m + 1)).toList = _
      rw [String.toList_append]; rfl
  | float x => simp [covered] at hc
  | str x => rw [marshal_str d t x s h, jsonString_toList]; exact ⟨'\x22', _, rfl, by decide⟩
  | bool b =>
    rw [marshal_bool d t b s h]
    cases b
    · exact ⟨'f', _, rfl, by decide⟩
    · exact ⟨'t', _, rfl, by decide⟩
  | «enum» n =>
    obtain ⟨hs, td, htd, ev, hev, hname⟩ := marshal_enum d t n s h
    have := (namesOk_enum hn htd hev).1
    rw [hname] at this
    obtain ⟨c, cs, hcs, hstart⟩ := validName_head this
    exact ⟨c, cs, by rw [hs, hcs], startOk_nameStart hstart⟩
  | list vs =>
    obtain ⟨item, parts, _, hs⟩ := marshal_list d t vs s h
    refine ⟨'[', (joinWith ", " parts ++ "]").toList, ?_, by decide⟩
    rw [hs, String.append_assoc, String.toList_append]; rfl
  | obj fs =>
    obtain ⟨td, _, parts, _, hs⟩ := marshal_obj d t fs s h
    refine ⟨'{', (joinWith ", " parts ++ "}").toList, ?_, by decide⟩
    rw [hs, String.append_assoc, String.toList_append]; rfl


/-! ### Separators -/

/-- What follows the first of the printed parts: the end marker, or `", "` and the remaining parts. -/
def sepTail (ps : List String) (X : List Char) : List Char :=
  match ps with
  | [] => X
  | _ :: _ => ',' :: ' ' :: ((joinWith ", " ps).toList ++ X)

theorem joinWith_cons_toList (s : String) (ps : List String) (X : List Char) :
    (joinWith ", " (s :: ps)).toList ++ X = s.toList ++ sepTail ps X := by
  cases ps with
  | nil => simp [joinWith, sepTail]
  | cons p ps' =>
    simp only [joinWith, sepTail, String.toList_append, List.append_assoc]
    rfl

theorem term_cons {c : Char} {r : List Char} (h : isNameCont c = false ∧ c.toNat ≠ 46 ∧ c.toNat ≠ 34) : Term (c :: r) := by
  intro x hx
  simp at hx
  subst hx
  exact h

theorem term_sepTail (ps : List String) (c : Char) (r : List Char)
    (h : isNameCont c = false ∧ c.toNat ≠ 46 ∧ c.toNat ≠ 34) : Term (sepTail ps (c :: r)) := by
  cases ps with
  | nil => exact term_cons h
  | cons p ps' => exact term_cons (by decide)

theorem parseLit_skip1 (f : Nat) (X : List Char) : parseLit f (' ' :: X) = parseLit f X := by
  cases f with
  | zero => simp [parseLit]
  | succ f =>
    rw [parseLit, parseLit]
    have : skipIgnored (' ' :: X) = skipIgnored X := by simp [skipIgnored, isIgnored]
    rw [this]

theorem parseItems_skip2 (f : Nat) (X : List Char) (acc : List Lit) :
    parseItems f (',' :: ' ' :: X) acc = parseItems f X acc := by
  cases f with
  | zero => simp [parseItems]
  | succ f =>
    rw [parseItems, parseItems]
    have : skipIgnored (',' :: ' ' :: X) = skipIgnored X := by simp [skipIgnored, isIgnored]
    rw [this]

theorem parseFields_skip2 (f : Nat) (X : List Char) (acc : List (List Char × Lit)) :
    parseFields f (',' :: ' ' :: X) acc = parseFields f X acc := by
  cases f with
  | zero => simp [parseFields]
  | succ f =>
    rw [parseFields, parseFields]
    have : skipIgnored (',' :: ' ' :: X) = skipIgnored X := by simp [skipIgnored, isIgnored]
    rw [this]

theorem parseItems_sepTail (f : Nat) (ps : List String) (X : List Char) (acc : List Lit) :
    parseItems f (sepTail ps X) acc = parseItems f ((joinWith ", " ps).toList ++ X) acc := by
  cases ps with
  | nil => simp [sepTail, joinWith]
  | cons p ps' => simp only [sepTail]; rw [parseItems_skip2]

theorem parseFields_sepTail (f : Nat) (ps : List String) (X : List Char) (acc : List (List Char × Lit)) :
    parseFields f (sepTail ps X) acc = parseFields f ((joinWith ", " ps).toList ++ X) acc := by
  cases ps with
  | nil => simp [sepTail, joinWith]
  | cons p ps' => simp only [sepTail]; rw [parseFields_skip2]


/-! ### The printed form parses back -/

theorem string_toList_ne {a b : String} (h : a ≠ b) : a.toList ≠ b.toList := by
  intro he
  exact h (String.ext he)

mutual
  theorem parse_marshal {ι : Type} (d : SchemaDef ι) (hn : NamesOk d) :
      ∀ (v : Value) (t : TRef) (s : String) (fuel : Nat) (rest : List Char),
        covered v = true → marshalValue d t v = some s → need v ≤ fuel → Term rest →
        parseLit fuel (s.toList ++ rest) = some (litOf v, rest)
    | .null, t, s, fuel, rest, _, hm, hf, hr => by
      obtain ⟨f, rfl⟩ : ∃ f, fuel = f + 1 := ⟨fuel - 1, by simp [need] at hf; omega⟩
      rw [marshal_null d t s hm, parseLit_name f "null".toList rest (by decide) hr]
      rfl
    | .int i, t, s, fuel, rest, _, hm, hf, hr => by
      obtain ⟨f, rfl⟩ : ∃ f, fuel = f + 1 := ⟨fuel - 1, by simp [need] at hf; omega⟩
      rw [marshal_int d t i s hm, parseLit_int f i rest hr]
      rfl
    | .float x, t, s, fuel, rest, hc, _, _, _ => by simp [covered] at hc
    | .str x, t, s, fuel, rest, hc, hm, hf, hr => by
      obtain ⟨f, rfl⟩ : ∃ f, fuel = f + 1 := ⟨fuel - 1, by simp [need] at hf; omega⟩
      have hx : ∀ c ∈ x.toList, c.toNat ≤ 0xFFFF := by
        simpa [covered, List.all_eq_true] using hc
      rw [marshal_str d t x s hm, parseLit_str f x rest hr hx]
      rfl
    | .bool b, t, s, fuel, rest, _, hm, hf, hr => by
      obtain ⟨f, rfl⟩ : ∃ f, fuel = f + 1 := ⟨fuel - 1, by simp [need] at hf; omega⟩
      rw [marshal_bool d t b s hm]
      cases b
      · rw [show (if false = true then "true" else "false") = "false" from rfl,
            parseLit_name f "false".toList rest (by decide) hr]
        rfl
      · rw [show (if true = true then "true" else "false") = "true" from rfl,
            parseLit_name f "true".toList rest (by decide) hr]
        rfl
    | .enum n, t, s, fuel, rest, _, hm, hf, hr => by
      obtain ⟨f, rfl⟩ : ∃ f, fuel = f + 1 := ⟨fuel - 1, by simp [need] at hf; omega⟩
      obtain ⟨hs, td, htd, ev, hev, hname⟩ := marshal_enum d t n s hm
      have hok := namesOk_enum hn htd hev
      rw [hname] at hok
      rw [hs, parseLit_name f n.toList rest hok.1 hr]
      have h1 : n.toList ≠ "true".toList := string_toList_ne hok.2.1
      have h2 : n.toList ≠ "false".toList := string_toList_ne hok.2.2.1
      have h3 : n.toList ≠ "null".toList := string_toList_ne hok.2.2.2
      rw [if_neg h1, if_neg h2, if_neg h3]
      rfl
    | .list vs, t, s, fuel, rest, hc, hm, hf, hr => by
      obtain ⟨f, rfl⟩ : ∃ f, fuel = f + 1 := ⟨fuel - 1, by simp [need] at hf; omega⟩
      obtain ⟨item, parts, hp, hs⟩ := marshal_list d t vs s hm
      have hcl : coveredList vs = true := by simpa [covered] using hc
      have hfl : needList vs ≤ f := by simp [need] at hf; omega
      have := parse_marshalList d hn vs item parts f [] rest hcl hp hfl
      rw [hs, parseLit]
      have htxt : ("[" ++ joinWith ", " parts ++ "]").toList ++ rest
          = '[' :: ((joinWith ", " parts).toList ++ ']' :: rest) := by
        simp only [String.toList_append, List.append_assoc]
        rfl
      rw [htxt, skipIgnored_cons_of_not (by decide)]
      simp only [show ('[' : Char).toNat = 91 from rfl, if_true]
      rw [this]
      simp [litOf]
    | .obj fs, t, s, fuel, rest, hc, hm, hf, hr => by
      obtain ⟨f, rfl⟩ : ∃ f, fuel = f + 1 := ⟨fuel - 1, by simp [need] at hf; omega⟩
      obtain ⟨td, htd, parts, hp, hs⟩ := marshal_obj d t fs s hm
      have hcl : coveredFields fs = true := by simpa [covered] using hc
      have hfl : needFields fs ≤ f := by simp [need] at hf; omega
      have hin : ∀ a ∈ td.inputs, validName a.name.toList = true := fun a ha => namesOk_input hn htd ha
      have := parse_marshalFields d hn td.inputs hin fs parts f [] rest hcl hp hfl
      rw [hs, parseLit]
      have htxt : ("{" ++ joinWith ", " parts ++ "}").toList ++ rest
          = '{' :: ((joinWith ", " parts).toList ++ '}' :: rest) := by
        simp only [String.toList_append, List.append_assoc]
        rfl
      rw [htxt, skipIgnored_cons_of_not (by decide)]
      simp only [show ('{' : Char).toNat = 123 from rfl, show (123 : Nat) ≠ 91 from by decide, if_false, if_true]
      rw [this]
      simp [litOf]
  theorem parse_marshalList {ι : Type} (d : SchemaDef ι) (hn : NamesOk d) :
      ∀ (vs : List Value) (item : TRef) (parts : List String) (fuel : Nat) (acc : List Lit) (rest : List Char),
        coveredList vs = true → marshalList d item vs = some parts → needList vs ≤ fuel →
        parseItems fuel ((joinWith ", " parts).toList ++ ']' :: rest) acc
          = some (Lit.list (acc.reverse ++ litOfList vs), rest)
    | [], item, parts, fuel, acc, rest, _, hm, hf => by
      obtain ⟨f, rfl⟩ : ∃ f, fuel = f + 1 := ⟨fuel - 1, by simp [needList] at hf; omega⟩
      rw [marshalList_nil d item parts hm, parseItems]
      simp [joinWith, skipIgnored, isIgnored, litOfList]
    | v :: vs, item, parts, fuel, acc, rest, hc, hm, hf => by
      obtain ⟨f, rfl⟩ : ∃ f, fuel = f + 1 := ⟨fuel - 1, by simp [needList] at hf; omega⟩
      obtain ⟨s, ps, hs, hps, rfl⟩ := marshalList_cons d item v vs parts hm
      have hcv : covered v = true ∧ coveredList vs = true := by simpa [coveredList] using hc
      have hfv : need v ≤ f ∧ needList vs ≤ f := by simp [needList] at hf; omega
      obtain ⟨c, cs, hcs, hstart⟩ := marshal_head d hn item v s hcv.1 hs
      have hterm : Term (sepTail ps (']' :: rest)) := term_sepTail ps ']' rest (by decide)
      have hv := parse_marshal d hn v item s f (sepTail ps (']' :: rest)) hcv.1 hs hfv.1 hterm
      have hrest := parse_marshalList d hn vs item ps f (litOf v :: acc) rest hcv.2 hps hfv.2
      rw [joinWith_cons_toList, parseItems, hcs, List.cons_append, skipIgnored_cons_of_not hstart.1]
      simp only [hstart.2.1, if_false]
      rw [← List.cons_append, ← hcs, hv]
      simp only
      rw [parseItems_sepTail, hrest]
      simp [litOfList]
  theorem parse_marshalFields {ι : Type} (d : SchemaDef ι) (hn : NamesOk d) (inputs : List (InputValueDef ι))
      (hin : ∀ a ∈ inputs, validName a.name.toList = true) :
      ∀ (fs : List (String × Value)) (parts : List String) (fuel : Nat) (acc : List (List Char × Lit)) (rest : List Char),
        coveredFields fs = true → marshalFields d inputs fs = some parts → needFields fs ≤ fuel →
        parseFields fuel ((joinWith ", " parts).toList ++ '}' :: rest) acc
          = some (Lit.obj (acc.reverse ++ litOfFields fs), rest)
    | [], parts, fuel, acc, rest, _, hm, hf => by
      obtain ⟨f, rfl⟩ : ∃ f, fuel = f + 1 := ⟨fuel - 1, by simp [needFields] at hf; omega⟩
      rw [marshalFields_nil d inputs parts hm, parseFields]
      simp [joinWith, skipIgnored, isIgnored, litOfFields]
    | (k, v) :: fs, parts, fuel, acc, rest, hc, hm, hf => by
      obtain ⟨f, rfl⟩ : ∃ f, fuel = f + 1 := ⟨fuel - 1, by simp [needFields] at hf; omega⟩
      obtain ⟨fd, hfd, hname, s, ps, hs, hps, rfl⟩ := marshalFields_cons d inputs k v fs parts hm
      have hcv : covered v = true ∧ coveredFields fs = true := by simpa [coveredFields] using hc
      have hfv : need v ≤ f ∧ needFields fs ≤ f := by simp [needFields] at hf; omega
      have hk : validName k.toList = true := by rw [← hname]; exact hin fd hfd
      obtain ⟨c, cs, hkc, hstart⟩ := validName_head hk
      have hterm : Term (sepTail ps ('}' :: rest)) := term_sepTail ps '}' rest (by decide)
      have hv := parse_marshal d hn v fd.type.ref s f (sepTail ps ('}' :: rest)) hcv.1 hs hfv.1 hterm
      have hrest := parse_marshalFields d hn inputs hin fs ps f ((k.toList, litOf v) :: acc) rest hcv.2 hps hfv.2
      -- the text: k ": " s tail
      have htxt : (joinWith ", " ((k ++ ": " ++ s) :: ps)).toList ++ '}' :: rest
          = k.toList ++ (':' :: ' ' :: (s.toList ++ sepTail ps ('}' :: rest))) := by
        rw [joinWith_cons_toList]
        simp only [String.toList_append, List.append_assoc]
        rfl
      have hall : ∀ x ∈ k.toList, isNameCont x = true := by
        rw [hkc] at hk ⊢
        simp only [validName, Bool.and_eq_true, List.all_eq_true] at hk
        intro x hx
        rcases List.mem_cons.mp hx with rfl | hx
        · simp [isNameCont, hk.1]
        · exact hk.2 x hx
      have hspan := spanName_append k.toList (':' :: ' ' :: (s.toList ++ sepTail ps ('}' :: rest))) hall
        (by intro x hx; simp at hx; subst hx; decide)
      have hso := startOk_nameStart hstart
      rw [htxt, parseFields, hkc, List.cons_append, skipIgnored_cons_of_not hso.1]
      simp only [hso.2.2, if_false, hstart, if_true]
      rw [← List.cons_append, ← hkc, hspan]
      simp only
      rw [skipIgnored_cons_of_not (by decide)]
      simp only [show (':' : Char).toNat = 58 from rfl, if_true]
      rw [parseLit_skip1, hv]
      simp only
      rw [parseFields_sepTail, hrest]
      simp [litOfFields]
end


/-! ### The denoted literal coerces back -/

theorem litOfFields_keys (fs : List (String × Value)) :
    (litOfFields fs).map (fun f => String.ofList f.1) = fs.map (·.1) := by
  induction fs with
  | nil => rfl
  | cons p fs ih =>
    obtain ⟨k, v⟩ := p
    simp [litOfFields, ih]

theorem filterMap_eq_nil_of {α β : Type} {f : α → Option β} {l : List α} (h : ∀ a ∈ l, f a = none) :
    l.filterMap f = [] := by
  induction l with
  | nil => rfl
  | cons a l ih =>
    simp [h a List.mem_cons_self, ih (fun b hb => h b (List.mem_cons_of_mem _ hb))]

mutual
  theorem coerce_litOf {ι : Type} (d : SchemaDef ι) :
      ∀ (v : Value) (t : TRef), nf d t v = true → coerceLit d t (litOf v) = some v
    | .null, t, h => by
      simp only [nf, Bool.not_eq_true'] at h
      simp [litOf, coerceLit, h]
    | .int i, t, h => by
      unfold nf at h
      simp only [litOf, coerceLit]
      split at h
      · rename_i n hs
        simp only [Bool.or_eq_true, Bool.and_eq_true, beq_iff_eq] at h
        rcases h with ⟨rfl, h⟩ | ⟨rfl, h⟩
        · simp [h]
        · simp [h]
      · simp at h
    | .float x, t, h => by simp [nf] at h
    | .str x, t, h => by
      unfold nf at h
      simp only [litOf, coerceLit]
      split at h
      · rename_i n hs
        simp only [Bool.or_eq_true, beq_iff_eq] at h
        simp [h, String.ofList_toList]
      · simp at h
    | .bool b, t, h => by
      unfold nf at h
      simp only [litOf, coerceLit]
      split at h
      · rename_i n hs
        simp only [beq_iff_eq] at h
        simp [h]
      · simp at h
    | .enum name, t, h => by
      unfold nf at h
      simp only [litOf, coerceLit]
      split at h
      · rename_i n hs
        split at h
        · rename_i td hl
          simp only [String.ofList_toList]
          simp [h]
        · simp at h
      · simp at h
    | .list vs, t, h => by
      unfold nf at h
      simp only [litOf, coerceLit]
      split at h
      · rename_i item hs
        simp [coerce_litOfList d vs item h]
      · simp at h
    | .obj fs, t, h => by
      unfold nf at h
      simp only [litOf, coerceLit]
      split at h
      · rename_i n hs
        split at h
        · rename_i td hl
          simp only [Bool.and_eq_true] at h
          obtain ⟨⟨⟨hk, hnd⟩, hnf⟩, hall⟩ := h
          have hgiven := coerce_litOfFields d td.inputs fs hnf
          rw [litOfFields_keys, hk, hnd, hgiven]
          simp only [Bool.and_self, if_true]
          have hcond : (td.inputs.all fun a =>
              fs.any (fun g => g.1 == a.name) || a.default.isSome || !isNonNull a.type.ref) = true := by
            rw [List.all_eq_true] at hall ⊢
            intro a ha
            have := hall a ha
            simp only [Bool.or_eq_true, Bool.and_eq_true] at this ⊢
            rcases this with h1 | h2
            · exact Or.inl (Or.inl h1)
            · exact Or.inr h2.2
          rw [hcond]
          simp only [if_true]
          have hnone : ((td.inputs.filter (fun a => !fs.any (fun g => g.1 == a.name))).filterMap
              (fun a => a.default.map (fun v => (a.name, v)))) = [] := by
            apply filterMap_eq_nil_of
            intro a ha
            rw [List.mem_filter] at ha
            rw [List.all_eq_true] at hall
            have := hall a ha.1
            simp only [Bool.or_eq_true, Bool.and_eq_true] at this
            rcases this with h1 | h2
            · simp [h1] at ha
            · have : a.default = none := by simpa using h2.1
              simp [this]
          rw [hnone]
          simp
        · simp at h
      · simp at h
  theorem coerce_litOfList {ι : Type} (d : SchemaDef ι) :
      ∀ (vs : List Value) (item : TRef), nfList d item vs = true → coerceItems d item (litOfList vs) = some vs
    | [], item, _ => by simp [litOfList, coerceItems]
    | v :: vs, item, h => by
      simp only [nfList, Bool.and_eq_true] at h
      simp [litOfList, coerceItems, coerce_litOf d v item h.1, coerce_litOfList d vs item h.2]
  theorem coerce_litOfFields {ι : Type} (d : SchemaDef ι) (inputs : List (InputValueDef ι)) :
      ∀ (fs : List (String × Value)), nfFields d inputs fs = true → coerceFields d inputs (litOfFields fs) = some fs
    | [], _ => by simp [litOfFields, coerceFields]
    | (k, v) :: fs, h => by
      simp only [nfFields, Bool.and_eq_true] at h
      obtain ⟨h1, h2⟩ := h
      split at h1
      · rename_i a ha
        simp [litOfFields, coerceFields, String.ofList_toList, ha, coerce_litOf d v a.type.ref h1,
          coerce_litOfFields d inputs fs h2]
      · simp at h1
end


/-! ### Every value in normal form is printed -/

/-- The built-in scalars the covered classes use are in the table, as scalars. -/
def BuiltinsPresent {ι : Type} (d : SchemaDef ι) : Prop :=
  ∀ n, n = "Int" ∨ n = "ID" ∨ n = "String" ∨ n = "Boolean" → ∃ td, d.lookup n = some td ∧ td.kind = .scalar

mutual
  theorem marshal_defined {ι : Type} (d : SchemaDef ι) (hb : BuiltinsPresent d) :
      ∀ (v : Value) (t : TRef), nf d t v = true → ∃ s, marshalValue d t v = some s
    | .null, t, _ => ⟨"null", by simp [marshalValue]⟩
    | .int i, t, h => by
      unfold nf at h
      split at h
      · rename_i n hs
        simp only [Bool.or_eq_true, Bool.and_eq_true, beq_iff_eq] at h
        have hn : n = "Int" ∨ n = "ID" ∨ n = "String" ∨ n = "Boolean" := by
          rcases h with ⟨h, _⟩ | ⟨h, _⟩
          · exact Or.inl h
          · exact Or.inr (Or.inl h)
        obtain ⟨td, hl, hk⟩ := hb n hn
        exact ⟨toString i, by simp [marshalValue, hs, hl, hk]⟩
      · simp at h
    | .float x, t, h => by simp [nf] at h
    | .str x, t, h => by
      unfold nf at h
      split at h
      · rename_i n hs
        simp only [Bool.or_eq_true, beq_iff_eq] at h
        have hn : n = "Int" ∨ n = "ID" ∨ n = "String" ∨ n = "Boolean" := by
          rcases h with h | h
          · exact Or.inr (Or.inr (Or.inl h))
          · exact Or.inr (Or.inl h)
        obtain ⟨td, hl, hk⟩ := hb n hn
        exact ⟨jsonString x, by simp [marshalValue, hs, hl, hk]⟩
      · simp at h
    | .bool b, t, h => by
      unfold nf at h
      split at h
      · rename_i n hs
        simp only [beq_iff_eq] at h
        obtain ⟨td, hl, hk⟩ := hb n (Or.inr (Or.inr (Or.inr h)))
        exact ⟨if b then "true" else "false", by simp [marshalValue, hs, hl, hk]⟩
      · simp at h
    | .enum name, t, h => by
      unfold nf at h
      split at h
      · rename_i n hs
        split at h
        · rename_i td hl
          simp only [Bool.and_eq_true] at h
          exact ⟨name, by simp [marshalValue, hs, hl, h.1, h.2]⟩
        · simp at h
      · simp at h
    | .list vs, t, h => by
      unfold nf at h
      split at h
      · rename_i item hs
        obtain ⟨parts, hp⟩ := marshalList_defined d hb vs item h
        exact ⟨"[" ++ joinWith ", " parts ++ "]", by simp [marshalValue, hs, hp]⟩
      · simp at h
    | .obj fs, t, h => by
      unfold nf at h
      split at h
      · rename_i n hs
        split at h
        · rename_i td hl
          simp only [Bool.and_eq_true] at h
          obtain ⟨parts, hp⟩ := marshalFields_defined d hb td.inputs fs h.1.2
          exact ⟨"{" ++ joinWith ", " parts ++ "}", by simp [marshalValue, hs, hl, h.1.1.1, hp]⟩
        · simp at h
      · simp at h
  theorem marshalList_defined {ι : Type} (d : SchemaDef ι) (hb : BuiltinsPresent d) :
      ∀ (vs : List Value) (item : TRef), nfList d item vs = true → ∃ parts, marshalList d item vs = some parts
    | [], _, _ => ⟨[], by simp [marshalList]⟩
    | v :: vs, item, h => by
      simp only [nfList, Bool.and_eq_true] at h
      obtain ⟨s, hs⟩ := marshal_defined d hb v item h.1
      obtain ⟨ps, hps⟩ := marshalList_defined d hb vs item h.2
      exact ⟨s :: ps, by simp [marshalList, hs, hps]⟩
  theorem marshalFields_defined {ι : Type} (d : SchemaDef ι) (hb : BuiltinsPresent d) (inputs : List (InputValueDef ι)) :
      ∀ (fs : List (String × Value)), nfFields d inputs fs = true → ∃ parts, marshalFields d inputs fs = some parts
    | [], _ => ⟨[], by simp [marshalFields]⟩
    | (k, v) :: fs, h => by
      simp only [nfFields, Bool.and_eq_true] at h
      obtain ⟨h1, h2⟩ := h
      split at h1
      · rename_i a ha
        obtain ⟨s, hs⟩ := marshal_defined d hb v a.type.ref h1
        obtain ⟨ps, hps⟩ := marshalFields_defined d hb inputs fs h2
        exact ⟨(k ++ ": " ++ s) :: ps, by simp [marshalFields, ha, hs, hps]⟩
      · simp at h1
end


end ApiFu.C10
