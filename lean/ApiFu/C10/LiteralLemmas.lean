/-
  C10 — lemmas about the literal syntax specification (Literal.lean) and `marshalValue`:
  the printed form of a value parses back to the literal that denotes it. Core Lean only.
-/
import ApiFu.C10.Literal

namespace ApiFu.C10

theorem hexVal_digitChar : ∀ (k : Nat), k < 16 → hexVal (Nat.digitChar k) = some k
  | 0, _ => by decide
  | 1, _ => by decide
  | 2, _ => by decide
  | 3, _ => by decide
  | 4, _ => by decide
  | 5, _ => by decide
  | 6, _ => by decide
  | 7, _ => by decide
  | 8, _ => by decide
  | 9, _ => by decide
  | 10, _ => by decide
  | 11, _ => by decide
  | 12, _ => by decide
  | 13, _ => by decide
  | 14, _ => by decide
  | 15, _ => by decide
  | k + 16, h => by omega

theorem lexString_uEscape (n : Nat) (hn : n < 65536) (rest acc : List Char) :
    lexString (uEscape n ++ rest) acc = lexString rest (Char.ofNat n :: acc) := by
  have h3 := hexVal_digitChar (n / 4096 % 16) (by omega)
  have h2 := hexVal_digitChar (n / 256 % 16) (by omega)
  have h1 := hexVal_digitChar (n / 16 % 16) (by omega)
  have h0 := hexVal_digitChar (n % 16) (by omega)
  have hv : (((n / 4096 % 16) * 16 + n / 256 % 16) * 16 + n / 16 % 16) * 16 + n % 16 = n := by omega
  simp only [uEscape, hexDigit, List.cons_append, List.nil_append]
  rw [lexString.eq_def]
  simp only [show ('\\' : Char).toNat = 92 from rfl, show ('u' : Char).toNat = 117 from rfl]
  simp [h3, h2, h1, h0, hv]


theorem lexString_escapeChar (c : Char) (hc : c.toNat ≤ 0xFFFF) (rest acc : List Char) :
    lexString (jsonEscapeChar c ++ rest) acc = lexString rest (c :: acc) := by
  have hof : Char.ofNat c.toNat = c := Char.ofNat_toNat c
  unfold jsonEscapeChar
  by_cases h34 : c.toNat = 34
  · have : c = '"' := by rw [← hof, h34]
    subst this
    rw [lexString.eq_def]
    simp
  by_cases h92 : c.toNat = 92
  · have : c = '\\' := by rw [← hof, h92]
    subst this
    rw [lexString.eq_def]
    simp
  by_cases h10 : c.toNat = 10
  · have : c = '\n' := by rw [← hof, h10]
    subst this
    rw [lexString.eq_def]
    simp
  by_cases h13 : c.toNat = 13
  · have : c = '\r' := by rw [← hof, h13]
    subst this
    rw [lexString.eq_def]
    simp
  by_cases h9 : c.toNat = 9
  · have : c = '\t' := by rw [← hof, h9]
    subst this
    rw [lexString.eq_def]
    simp
  by_cases h8 : c.toNat = 8
  · have : c = Char.ofNat 8 := by rw [← hof, h8]
    subst this
    rw [lexString.eq_def]
    simp
  by_cases h12 : c.toNat = 12
  · have : c = Char.ofNat 12 := by rw [← hof, h12]
    subst this
    rw [lexString.eq_def]
    simp
  simp only [h34, h92, h10, h13, h9, h8, h12, if_false]
  by_cases hlt : c.toNat < 32
  · simp only [hlt, if_true]
    rw [lexString_uEscape _ (by omega), hof]
  simp only [hlt, if_false]
  by_cases hhtml : c.toNat = 60 ∨ c.toNat = 62 ∨ c.toNat = 38
  · simp only [hhtml, if_true]
    rw [lexString_uEscape _ (by omega), hof]
  simp only [hhtml, if_false]
  by_cases hsep : c.toNat = 0x2028 ∨ c.toNat = 0x2029
  · simp only [hsep, if_true]
    rw [lexString_uEscape _ (by omega), hof]
  simp only [hsep, if_false]
  rw [List.singleton_append, lexString.eq_def]
  have hsrc : isSourceChar c = true := by
    simp [isSourceChar]
    right
    omega
  simp [h34, h92, h10, h13, hsrc]

/-- The quoted form of a string lexes back to the string (all code points up to U+FFFF). -/
theorem lexString_jsonEscape (cs : List Char) (h : ∀ c ∈ cs, c.toNat ≤ 0xFFFF) (rest acc : List Char) :
    lexString (jsonEscape cs ++ '"' :: rest) acc = some (acc.reverse ++ cs, rest) := by
  induction cs generalizing acc with
  | nil => rw [lexString.eq_def]; simp [jsonEscape]
  | cons c cs ih =>
    have hc := h c List.mem_cons_self
    have hcs : ∀ c' ∈ cs, c'.toNat ≤ 0xFFFF := fun c' hc' => h c' (List.mem_cons_of_mem _ hc')
    have : jsonEscape (c :: cs) = jsonEscapeChar c ++ jsonEscape cs := by simp [jsonEscape]
    rw [this, List.append_assoc, lexString_escapeChar c hc, ih hcs]
    simp

/-- F-10b witness: the raw code point U+1F600 is not a SourceCharacter. -/
example : lexString (jsonEscape [Char.ofNat 0x1F600] ++ ['"']) [] = none := by decide


/-! ### Integers -/

theorem isDigit_digitChar : ∀ (k : Nat), k < 10 → isDigit (Nat.digitChar k) = true ∧ (Nat.digitChar k).toNat - 48 = k
  | 0, _ => by decide
  | 1, _ => by decide
  | 2, _ => by decide
  | 3, _ => by decide
  | 4, _ => by decide
  | 5, _ => by decide
  | 6, _ => by decide
  | 7, _ => by decide
  | 8, _ => by decide
  | 9, _ => by decide
  | k + 10, h => by omega

theorem toDigits_step (n : Nat) :
    Nat.toDigits 10 n = if n < 10 then [n.digitChar] else Nat.toDigits 10 (n / 10) ++ [(n % 10).digitChar] :=
  Nat.toDigits_eq_if (by decide)

theorem toDigits_all_digits (n : Nat) : ∀ c ∈ Nat.toDigits 10 n, isDigit c = true := by
  induction n using Nat.strongRecOn with
  | _ n ih =>
    rw [toDigits_step]
    split
    · intro c hc
      simp only [List.mem_singleton] at hc
      subst hc
      exact (isDigit_digitChar n (by omega)).1
    · intro c hc
      rcases List.mem_append.mp hc with h | h
      · exact ih (n / 10) (by omega) c h
      · simp only [List.mem_singleton] at h
        subst h
        exact (isDigit_digitChar (n % 10) (by omega)).1

theorem digitsVal_append (a : List Char) (c : Char) : digitsVal (a ++ [c]) = digitsVal a * 10 + (c.toNat - 48) := by
  simp [digitsVal, List.foldl_append]

theorem digitsVal_toDigits (n : Nat) : digitsVal (Nat.toDigits 10 n) = n := by
  induction n using Nat.strongRecOn with
  | _ n ih =>
    rw [toDigits_step]
    split
    · have := (isDigit_digitChar n (by omega)).2
      simp [digitsVal, this]
    · rw [digitsVal_append, ih (n / 10) (by omega), (isDigit_digitChar (n % 10) (by omega)).2]
      omega

/-- No leading zero: the decimal form starts with `0` only for 0 itself. -/
theorem toDigits_head (n : Nat) : ∃ d ds, Nat.toDigits 10 n = d :: ds ∧ (d.toNat = 48 → ds = []) := by
  induction n using Nat.strongRecOn with
  | _ n ih =>
    rw [toDigits_step]
    split
    · exact ⟨_, [], rfl, fun _ => rfl⟩
    · rename_i hge
      obtain ⟨d, ds, hd, hz⟩ := ih (n / 10) (by omega)
      refine ⟨d, ds ++ [(n % 10).digitChar], by rw [hd]; rfl, ?_⟩
      intro h0
      have hds := hz h0
      subst hds
      -- then n / 10 printed as "0", i.e. n / 10 = 0: contradiction with n ≥ 10
      have hv := digitsVal_toDigits (n / 10)
      rw [hd] at hv
      simp [digitsVal, h0] at hv
      omega

theorem spanDigits_append (ds rest : List Char) (hds : ∀ c ∈ ds, isDigit c = true)
    (hrest : ∀ c, rest.head? = some c → isDigit c = false) : spanDigits (ds ++ rest) = (ds, rest) := by
  induction ds with
  | nil =>
    cases rest with
    | nil => rfl
    | cons c cs => simp [spanDigits, hrest c rfl]
  | cons d ds ih =>
    have hd := hds d List.mem_cons_self
    have := ih (fun c hc => hds c (List.mem_cons_of_mem _ hc))
    simp [spanDigits, hd, this]

/-- What may follow a printed value: nothing, or a character that is neither a digit, a name
    character, `.` nor `"` (in the printed form: `,`, `]`, `}`). -/
def Term (rest : List Char) : Prop :=
  ∀ c, rest.head? = some c → isNameCont c = false ∧ c.toNat ≠ 46 ∧ c.toNat ≠ 34

theorem Term.not_digit {rest : List Char} (h : Term rest) : ∀ c, rest.head? = some c → isDigit c = false := by
  intro c hc
  have := (h c hc).1
  simp [isNameCont] at this
  exact this.2

theorem lexInt_toDigits (neg : Bool) (n : Nat) (rest : List Char) (hr : Term rest) :
    lexInt neg (Nat.toDigits 10 n ++ rest)
      = some (if neg then - (Int.ofNat n) else Int.ofNat n, rest) := by
  obtain ⟨d, ds, hd, hz⟩ := toDigits_head n
  unfold lexInt
  rw [spanDigits_append _ _ (toDigits_all_digits n) hr.not_digit, hd]
  simp only
  have hlead : (d.toNat = 48 && !ds.isEmpty) = false := by
    by_cases h0 : d.toNat = 48
    · simp [hz h0]
    · simp [h0]
  rw [hlead]
  simp only [Bool.false_eq_true, if_false]
  rw [← hd, digitsVal_toDigits]
  cases rest with
  | nil => rfl
  | cons c cs =>
    have := hr c rfl
    have hns : isNameStart c = false := by
      have h1 := this.1
      simp [isNameCont] at h1
      exact h1.1
    simp [this.2.1, hns]


/-! ### Names -/

theorem spanName_append (n rest : List Char) (hn : ∀ c ∈ n, isNameCont c = true)
    (hrest : ∀ c, rest.head? = some c → isNameCont c = false) : spanName (n ++ rest) = (n, rest) := by
  induction n with
  | nil =>
    cases rest with
    | nil => rfl
    | cons c cs => simp [spanName, hrest c rfl]
  | cons d ds ih =>
    have hd := hn d List.mem_cons_self
    have := ih (fun c hc => hn c (List.mem_cons_of_mem _ hc))
    simp [spanName, hd, this]

theorem not_ignored_of_nameStart {c : Char} (h : isNameStart c = true) : isIgnored c = false := by
  simp [isNameStart, isLetter, isIgnored] at *
  omega

theorem not_ignored_of_digit {c : Char} (h : isDigit c = true) : isIgnored c = false := by
  simp [isDigit, isIgnored] at *
  omega

theorem skipIgnored_cons_of_not {c : Char} {cs : List Char} (h : isIgnored c = false) :
    skipIgnored (c :: cs) = c :: cs := by
  simp [skipIgnored, h]

/-- A name followed by a terminator parses as `true` / `false` / `null` / an enum value. -/
theorem parseLit_name (fuel : Nat) (n rest : List Char) (hv : validName n = true) (hr : Term rest) :
    parseLit (fuel + 1) (n ++ rest) =
      some (if n = "true".toList then Lit.bool true
            else if n = "false".toList then Lit.bool false
            else if n = "null".toList then Lit.null
            else Lit.enum n, rest) := by
  cases n with
  | nil => simp [validName] at hv
  | cons c cs =>
    simp only [validName, Bool.and_eq_true, List.all_eq_true] at hv
    obtain ⟨hc, hcs⟩ := hv
    have hall : ∀ x ∈ c :: cs, isNameCont x = true := by
      intro x hx
      rcases List.mem_cons.mp hx with rfl | hx
      · simp [isNameCont, hc]
      · exact hcs x hx
    have hspan := spanName_append (c :: cs) rest hall (fun x hx => (hr x hx).1)
    have hnd : isDigit c = false := by
      simp [isNameStart, isLetter, isDigit] at *
      omega
    have h91 : c.toNat ≠ 91 ∧ c.toNat ≠ 123 ∧ c.toNat ≠ 34 ∧ c.toNat ≠ 45 := by
      simp [isNameStart, isLetter] at hc
      omega
    rw [parseLit]
    rw [List.cons_append, skipIgnored_cons_of_not (not_ignored_of_nameStart hc)]
    simp only [h91.1, h91.2.1, h91.2.2.1, h91.2.2.2, if_false, hnd, hc, if_true, Bool.false_eq_true]
    rw [← List.cons_append, hspan]
    simp only
    repeat' split
    all_goals rfl


/-! ### Scalars -/

theorem toString_nat_toList (n : Nat) : (toString n).toList = Nat.toDigits 10 n := by
  simp [toString, Nat.repr]

theorem parseLit_int (fuel : Nat) (i : Int) (rest : List Char) (hr : Term rest) :
    parseLit (fuel + 1) ((toString i).toList ++ rest) = some (Lit.int i, rest) := by
  cases i with
  | ofNat n =>
    have hs : (toString (Int.ofNat n)).toList = Nat.toDigits 10 n := toString_nat_toList n
    rw [hs]
    obtain ⟨d, ds, hd, _⟩ := toDigits_head n
    have hdig : isDigit d = true := toDigits_all_digits n d (by rw [hd]; exact List.mem_cons_self)
    have h91 : d.toNat ≠ 91 ∧ d.toNat ≠ 123 ∧ d.toNat ≠ 34 ∧ d.toNat ≠ 45 := by
      simp [isDigit] at hdig
      omega
    rw [parseLit, hd, List.cons_append, skipIgnored_cons_of_not (not_ignored_of_digit hdig)]
    simp only [h91.1, h91.2.1, h91.2.2.1, h91.2.2.2, if_false, hdig, if_true]
    rw [← List.cons_append, ← hd, lexInt_toDigits false n rest hr]
    rfl
  | negSucc m =>
    have hs : (toString (Int.negSucc m)).toList = '-' :: Nat.toDigits 10 (m + 1) := by
      show ("-" ++ toString (m + 1)).toList = _
      rw [String.toList_append, toString_nat_toList]
      rfl
    rw [hs, parseLit, List.cons_append, skipIgnored_cons_of_not (by decide)]
    simp only [show ('-' : Char).toNat = 45 from rfl]
    simp only [show (45 : Nat) ≠ 91 from by decide, show (45 : Nat) ≠ 123 from by decide,
      show (45 : Nat) ≠ 34 from by decide, if_false, if_true]
    rw [lexInt_toDigits true (m + 1) rest hr]
    rfl

theorem jsonString_toList (s : String) : (jsonString s).toList = '"' :: (jsonEscape s.toList ++ ['"']) := by
  simp [jsonString]

/-- The escaped body never starts with a quote. -/
theorem jsonEscape_head (cs : List Char) : ∀ q tl, jsonEscape cs = q :: tl → q.toNat ≠ 34 := by
  intro q tl h
  cases cs with
  | nil => simp [jsonEscape] at h
  | cons c cs =>
    have : jsonEscape (c :: cs) = jsonEscapeChar c ++ jsonEscape cs := by simp [jsonEscape]
    rw [this] at h
    unfold jsonEscapeChar uEscape at h
    repeat' split at h
    all_goals simp at h
    all_goals (try (obtain ⟨rfl, _⟩ := h; first | decide | assumption))

theorem parseLit_str (fuel : Nat) (s : String) (rest : List Char) (hr : Term rest)
    (hs : ∀ c ∈ s.toList, c.toNat ≤ 0xFFFF) :
    parseLit (fuel + 1) ((jsonString s).toList ++ rest) = some (Lit.str s.toList, rest) := by
  rw [jsonString_toList, parseLit, List.cons_append, skipIgnored_cons_of_not (by decide)]
  simp only [show ('"' : Char).toNat = 34 from rfl, show (34 : Nat) ≠ 91 from by decide,
    show (34 : Nat) ≠ 123 from by decide, if_false, if_true]
  have hlex := lexString_jsonEscape s.toList hs rest []
  have heq : jsonEscape s.toList ++ ['"'] ++ rest = jsonEscape s.toList ++ '"' :: rest := by simp
  simp only [heq]
  -- not a block string
  cases hbody : jsonEscape s.toList ++ '"' :: rest with
  | nil => simp at hbody
  | cons q1 tl =>
    cases tl with
    | nil => simp only; rw [← hbody, hlex]; rfl
    | cons q2 tl2 =>
      have hnb : (q1.toNat = 34 && q2.toNat = 34) = false := by
        cases hj : jsonEscape s.toList with
        | nil =>
          rw [hj] at hbody
          simp at hbody
          obtain ⟨rfl, hrest⟩ := hbody
          have := (hr q2 (by rw [hrest]; rfl)).2.2
          simp [this]
        | cons j jt =>
          rw [hj] at hbody
          simp at hbody
          have := jsonEscape_head s.toList j jt hj
          rw [hbody.1] at this
          simp [this]
      simp only [hnb, Bool.false_eq_true, if_false]
      rw [← hbody, hlex]
      rfl


end ApiFu.C10
