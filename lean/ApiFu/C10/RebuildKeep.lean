/-
  C10 — `SchemaData.GetSchemaDefinition` with fix patch 06: the `defaultValue` literals of arguments,
  input fields and directive arguments are turned back into default values
  (schema_data.go `setDefaultValues`: `parser.ParseValue` + `schema.CoerceLiteral` against the
  rebuilt type, once all types are complete). Core Lean only (linked into the driver).

  What the model determines. The literal is read with the literal specification of Literal.lean
  (`parseLit`, `coerceLit`), which covers null, Int, ID, String, Boolean, enum values, lists and
  input objects. Where that specification does not decide (Float literals, custom scalars,
  item-to-list coercion, a text that does not parse, a literal that does not coerce — the Go code
  keeps a value in the first three cases and skips the default in the last two) the model leaves
  the pending text `Value.float text` in place: "not determined by the model". The harness treats
  that as a wildcard; the theorems are about defaults of the covered classes in coercion normal
  form, where the result is fully determined (`default_roundtrip`).

  Order. The Go code resolves the field defaults of an input object before coercing a literal of
  that type, because the coerced value of an input object includes the defaults of omitted fields.
  The model coerces against the definition whose input-field defaults are still pending: for a
  literal in normal form no field is omitted, so the two agree; for a literal that omits a defaulted
  field the filled-in entry is a pending text, i.e. again "not determined".
-/
import ApiFu.C10.Literal

namespace ApiFu.C10

/-- Fuel for reading a literal text: `need v ≤ 2 * |text| + 4` for every printed value
    (`need_le_length`). -/
def literalFuel (text : String) : Nat := 2 * text.length + 4

/-- `resolve` of `setDefaultValues` for one pending default of type `t`; `none` = the default is
    skipped (`null` for a non-null type). -/
def resolveDefault (g : GDef) (t : TRef) : Value → Option Value
  | .float text =>
    match parseLit (literalFuel text) text.toList with
    | some (.null, []) => if isNonNull t then none else some .null
    | some (lit, []) =>
      match coerceLit g t lit with
      | some v => some v
      | none => some (.float text)
    | _ => some (.float text)
  | v => some v

def resolveIV (g : GDef) (a : InputValueDef Id) : InputValueDef Id :=
  { a with default := a.default.bind (resolveDefault g a.type.ref) }

def resolveIV0 (g : GDef) (a : InputValueDef0 Id) : InputValueDef0 Id :=
  { a with default := a.default.bind (resolveDefault g a.type.ref) }

def resolveField (g : GDef) (f : FieldDef Id) : FieldDef Id := { f with args := f.args.map (resolveIV g) }

def resolveType (g : GDef) (t : TypeDef Id) : TypeDef Id :=
  { t with fields := t.fields.map (resolveField g), inputs := t.inputs.map (resolveIV g) }

def resolveDirective (g : GDef) (d : DirectiveDef Id) : DirectiveDef Id :=
  { d with args := d.args.map (resolveIV0 g) }

/-- `setDefaultValues`. -/
def resolveDefaults (g : GDef) : GDef :=
  { g with types := g.types.map (resolveType g), directives := g.directives.map (resolveDirective g) }

/-- **`GetSchemaDefinition` with fix patch 06**. -/
def rebuildKeep (x : IntroData) : Except String GDef := (rebuildRaw true x).map resolveDefaults

end ApiFu.C10
