/-
  C10 — helper lemmas (core Lean only).
-/
import ApiFu.C10.Spec

namespace ApiFu.C10

/-! ### Boolean predicates of the model as propositions -/

theorem nodupNames_iff (l : List String) : nodupNames l = true ↔ l.Nodup := by
  induction l with
  | nil => simp [nodupNames]
  | cons x xs ih => simp [nodupNames, ih, List.nodup_cons]

theorem subsetOf_iff (a b : List String) : subsetOf a b = true ↔ ∀ x ∈ a, x ∈ b := by
  simp [subsetOf, List.all_eq_true]

theorem subsetOf_trans {a b c : List String} (h₁ : subsetOf a b = true) (h₂ : subsetOf b c = true) :
    subsetOf a c = true := by
  rw [subsetOf_iff] at *
  exact fun x hx => h₂ x (h₁ x hx)

theorem subsetOf_append {a b c : List String} (h₁ : subsetOf a c = true) (h₂ : subsetOf b c = true) :
    subsetOf (a ++ b) c = true := by
  rw [subsetOf_iff] at *
  intro x hx
  rcases List.mem_append.mp hx with h | h
  · exact h₁ x h
  · exact h₂ x h

/-! ### The type table -/

section Table
variable {ι : Type}

theorem lookup_some {d : SchemaDef ι} {n : String} {t : TypeDef ι} (h : d.lookup n = some t) :
    t ∈ d.types ∧ t.name = n := by
  unfold SchemaDef.lookup at h
  refine ⟨List.mem_of_find?_eq_some h, ?_⟩
  have := List.find?_some h
  simpa using this

theorem find?_name_of_nodup {l : List (TypeDef ι)} (hn : (l.map (·.name)).Nodup) {t : TypeDef ι}
    (ht : t ∈ l) : l.find? (fun u => u.name == t.name) = some t := by
  induction l with
  | nil => cases ht
  | cons u us ih =>
    simp only [List.map_cons, List.nodup_cons] at hn
    rcases List.mem_cons.mp ht with rfl | ht
    · simp
    · have hne : u.name ≠ t.name := by
        intro h
        exact hn.1 (h ▸ List.mem_map_of_mem (f := (·.name)) ht)
      have : (u.name == t.name) = false := by simpa using hne
      simp [this, ih hn.2 ht]

theorem lookup_of_mem {d : SchemaDef ι} (hn : (d.types.map (·.name)).Nodup) {t : TypeDef ι}
    (ht : t ∈ d.types) : d.lookup t.name = some t :=
  find?_name_of_nodup hn ht

theorem featuresOf_of_mem {d : SchemaDef ι} (hn : (d.types.map (·.name)).Nodup) {t : TypeDef ι}
    (ht : t ∈ d.types) : d.featuresOf t.name = t.feat.keys := by
  simp [SchemaDef.featuresOf, lookup_of_mem hn ht]

/-- With unique names, selecting table entries by a predicate on names is the same as selecting
    the names and looking them up. -/
theorem filter_eq_filterMap_lookup {d : SchemaDef ι} (hn : (d.types.map (·.name)).Nodup) (p : String → Bool) :
    d.types.filter (fun t => p t.name) = ((d.types.map (·.name)).filter p).filterMap d.lookup := by
  have key : ∀ (l : List (TypeDef ι)), (∀ t ∈ l, d.lookup t.name = some t) →
      l.filter (fun t => p t.name) = ((l.map (·.name)).filter p).filterMap d.lookup := by
    intro l
    induction l with
    | nil => intro _; rfl
    | cons u us ih =>
      intro h
      have hu := h u List.mem_cons_self
      have ih' := ih (fun t ht => h t (List.mem_cons_of_mem _ ht))
      by_cases hp : p u.name = true
      · simp [hp, hu, ih']
      · have hp' : p u.name = false := by simpa using hp
        simp [hp', ih']
  exact key d.types (fun t ht => lookup_of_mem hn ht)

end Table

/-! ### Sorting: a permutation of a list with distinct keys sorts to the same list -/

theorem sortNames_eq_of_perm {a b : List String} (h : a.Perm b) : sortNames a = sortNames b := by
  unfold sortNames
  have tr : ∀ (x y z : String), decide (x ≤ y) = true → decide (y ≤ z) = true → decide (x ≤ z) = true := by
    intro x y z h₁ h₂
    simp only [decide_eq_true_eq] at *
    exact String.le_trans h₁ h₂
  have tot : ∀ (x y : String), (decide (x ≤ y) || decide (y ≤ x)) = true := by
    intro x y
    rcases String.le_total x y with h | h <;> simp [h]
  apply List.Perm.eq_of_pairwise (le := fun x y => decide (x ≤ y) = true)
  · intro x y _ _ h₁ h₂
    simp only [decide_eq_true_eq] at h₁ h₂
    exact String.le_antisymm h₁ h₂
  · exact List.pairwise_mergeSort tr tot a
  · exact List.pairwise_mergeSort tr tot b
  · exact (List.mergeSort_perm a _).trans (h.trans (List.mergeSort_perm b _).symm)

theorem sortNames_perm (a : List String) : (sortNames a).Perm a := List.mergeSort_perm a _

theorem mem_sortNames {a : List String} {x : String} : x ∈ sortNames a ↔ x ∈ a :=
  (sortNames_perm a).mem_iff

theorem sortTypes_perm (a : List TypeD) : (sortTypes a).Perm a := List.mergeSort_perm a _

theorem mem_sortTypes {a : List TypeD} {x : TypeD} : x ∈ sortTypes a ↔ x ∈ a :=
  (sortTypes_perm a).mem_iff

/-- In a list whose names are pairwise distinct, an element is determined by its name. -/
theorem eq_of_name_eq {l : List TypeD} (hn : (l.map (·.name)).Nodup) {x y : TypeD}
    (hx : x ∈ l) (hy : y ∈ l) (h : x.name = y.name) : x = y := by
  induction l with
  | nil => cases hx
  | cons u us ih =>
    simp only [List.map_cons, List.nodup_cons] at hn
    rcases List.mem_cons.mp hx with hxu | hxs
    · rcases List.mem_cons.mp hy with hyu | hys
      · rw [hxu, hyu]
      · exfalso
        apply hn.1
        have : y.name ∈ us.map (·.name) := List.mem_map_of_mem (f := (·.name)) hys
        rw [← hxu, h]
        exact this
    · rcases List.mem_cons.mp hy with hyu | hys
      · exfalso
        apply hn.1
        have : x.name ∈ us.map (·.name) := List.mem_map_of_mem (f := (·.name)) hxs
        rw [← hyu, ← h]
        exact this
      · exact ih hn.2 hxs hys

theorem sortTypes_eq_of_perm {a b : List TypeD} (h : a.Perm b) (hn : (a.map (·.name)).Nodup) :
    sortTypes a = sortTypes b := by
  unfold sortTypes
  have tr : ∀ (x y z : TypeD), decide (x.name ≤ y.name) = true → decide (y.name ≤ z.name) = true →
      decide (x.name ≤ z.name) = true := by
    intro x y z h₁ h₂
    simp only [decide_eq_true_eq] at *
    exact String.le_trans h₁ h₂
  have tot : ∀ (x y : TypeD), (decide (x.name ≤ y.name) || decide (y.name ≤ x.name)) = true := by
    intro x y
    rcases String.le_total x.name y.name with h | h <;> simp [h]
  apply List.Perm.eq_of_pairwise (le := fun x y => decide (x.name ≤ y.name) = true)
  · intro x y hx hy h₁ h₂
    simp only [decide_eq_true_eq] at h₁ h₂
    have hx' : x ∈ a := (List.mergeSort_perm a _).mem_iff.mp hx
    have hy' : y ∈ a := h.mem_iff.mpr ((List.mergeSort_perm b _).mem_iff.mp hy)
    exact eq_of_name_eq hn hx' hy' (String.le_antisymm h₁ h₂)
  · exact List.pairwise_mergeSort tr tot a
  · exact List.pairwise_mergeSort tr tot b
  · exact (List.mergeSort_perm a _).trans (h.trans (List.mergeSort_perm b _).symm)

/-! ### `Accepted`: the hypothesis of the theorems, and what it gives -/

/-- No directive argument type requires features (not enforced by `schema.New`: finding F-10g). -/
def DirArgsUngated (S : Schema) : Prop := dirArgsUngated S.defn = true

theorem dirArgFeat_of {S : Schema} (h : DirArgsUngated S) :
    ∀ dd ∈ S.defn.directives, ∀ a ∈ dd.args, S.defn.featuresOf a.type.ref.leaf = [] := by
  unfold DirArgsUngated dirArgsUngated at h
  simp only [List.all_eq_true, beq_iff_eq] at h
  exact h


/-- **Accepted S**: the model's acceptance predicate holds (evaluated by the harness on the
    registries of every schema the real `schema.New` returns). -/
def Accepted (S : Schema) : Prop := accepted S = true

structure Facts (S : Schema) : Prop where
  tableNodup : (S.defn.types.map (·.name)).Nodup
  dirsNodup : (S.defn.directives.map (·.name)).Nodup
  dirArgsNodup : ∀ dd ∈ S.defn.directives, (dd.args.map (·.name)).Nodup
  fieldsNodup : ∀ t ∈ S.defn.types, (t.fields.map (·.name)).Nodup
  inputsNodup : ∀ t ∈ S.defn.types, (t.inputs.map (·.name)).Nodup
  valuesNodup : ∀ t ∈ S.defn.types, (t.values.map (·.name)).Nodup
  argsNodup : ∀ t ∈ S.defn.types, ∀ f ∈ t.fields, (f.args.map (·.name)).Nodup
  ifacesNodup : ∀ t ∈ S.defn.types, t.ifaces.Nodup
  membersNodup : ∀ t ∈ S.defn.types, t.members.Nodup
  regNodup : S.namedTypes.Nodup
  regLookup : ∀ n ∈ S.namedTypes, (S.defn.lookup n).isSome = true
  rootsReg : ∀ n ∈ optList S.defn.query ++ optList S.defn.mutation ++ optList S.defn.subscription ++ S.defn.additional, n ∈ S.namedTypes
  refsReg : ∀ t ∈ S.defn.types, t.name ∈ S.namedTypes → ∀ n ∈ t.refNames, n ∈ S.namedTypes
  dirArgsReg : ∀ dd ∈ S.defn.directives, ∀ a ∈ dd.args, a.type.ref.leaf ∈ S.namedTypes
  implsNodup : ∀ i ∈ S.defn.types, i.kind = .interface → (S.implsOf i.name).Nodup
  implsSound : ∀ i ∈ S.defn.types, i.kind = .interface → ∀ o ∈ S.implsOf i.name,
    o ∈ S.namedTypes ∧ ∃ ot, S.defn.lookup o = some ot ∧ ot.kind = .object ∧ i.name ∈ ot.ifaces
  implsComplete : ∀ i ∈ S.defn.types, i.kind = .interface → ∀ ot ∈ S.defn.types,
    ot.kind = .object → ot.name ∈ S.namedTypes → i.name ∈ ot.ifaces → ot.name ∈ S.implsOf i.name
  ifaceKind : ∀ t ∈ S.defn.types, ∀ i ∈ t.ifaces, ∃ ti, S.defn.lookup i = some ti ∧ ti.kind = .interface
  memberKind : ∀ t ∈ S.defn.types, ∀ m ∈ t.members, ∃ tm, S.defn.lookup m = some tm ∧ tm.kind = .object
  rootKind : ∀ n ∈ optList S.defn.query ++ optList S.defn.mutation ++ optList S.defn.subscription,
    ∃ tn, S.defn.lookup n = some tn ∧ tn.kind = .object
  querySome : S.defn.query.isSome = true
  builtinScalar : ∀ t ∈ S.defn.types, isBuiltin t.name = true → t.kind = .scalar
  shapeFields : ∀ t ∈ S.defn.types, t.kind ≠ .object → t.kind ≠ .interface → t.fields = []
  shapeIfaces : ∀ t ∈ S.defn.types, t.kind ≠ .object → t.ifaces = []
  shapeMembers : ∀ t ∈ S.defn.types, t.kind ≠ .union → t.members = []
  shapeValues : ∀ t ∈ S.defn.types, t.kind ≠ .enum → t.values = []
  shapeInputs : ∀ t ∈ S.defn.types, t.kind ≠ .inputObject → t.inputs = []
  fieldFeat : ∀ t ∈ S.defn.types, t.name ∈ S.namedTypes → (t.kind = .object ∨ t.kind = .interface) →
    ∀ f ∈ t.fields, subsetOf (S.defn.featuresOf f.type.ref.leaf) (f.feat.keys ++ t.feat.keys) = true
      ∧ ∀ a ∈ f.args, subsetOf (S.defn.featuresOf a.type.ref.leaf) (f.feat.keys ++ t.feat.keys) = true
  memberFeat : ∀ t ∈ S.defn.types, t.name ∈ S.namedTypes → t.kind = .union →
    ∀ m ∈ t.members, subsetOf (S.defn.featuresOf m) t.feat.keys = true
  inputFeat : ∀ t ∈ S.defn.types, t.name ∈ S.namedTypes → t.kind = .inputObject →
    ∀ a ∈ t.inputs, subsetOf (S.defn.featuresOf a.type.ref.leaf) t.feat.keys = true

theorem facts_of_accepted {S : Schema} (h : Accepted S) : Facts S := by
  unfold Accepted accepted at h
  simp only [Bool.and_eq_true] at h
  obtain ⟨⟨⟨⟨hwf, hcl⟩, himp⟩, hk⟩, hf⟩ := h
  unfold wf at hwf
  unfold closed at hcl
  unfold implsExact at himp
  unfold featuresOk at hf
  unfold kindsOk at hk
  simp only [Bool.and_eq_true, List.all_eq_true, nodupNames_iff, Bool.or_eq_true,
    bne_iff_ne, ne_eq, beq_iff_eq, Bool.not_eq_eq_eq_not, Bool.not_true, Bool.and_eq_false_imp,
    List.contains_eq_mem, decide_eq_true_eq, decide_eq_false_iff_not, List.isEmpty_iff] at hwf hcl himp hf hk
  obtain ⟨⟨⟨⟨h1, h2⟩, h3⟩, h4⟩, h5⟩ := hcl
  obtain ⟨hi0, hi⟩ := himp
  have hf1 := hf
  obtain ⟨⟨hw1, hw2⟩, hw3⟩ := hwf.1
  have hw4 := hwf.2
  obtain ⟨⟨⟨⟨hkinds, hroots⟩, hq⟩, hbs⟩, hshape⟩ := hk
  have kindIs_of : ∀ (n : String) (k : Kind), S.defn.kindIs n k = true →
      ∃ tn, S.defn.lookup n = some tn ∧ tn.kind = k := by
    intro n k h
    unfold SchemaDef.kindIs at h
    cases hl : S.defn.lookup n with
    | none => simp [hl] at h
    | some tn => simp [hl] at h; exact ⟨tn, rfl, h⟩
  refine ⟨hw1, hw2, hw3, fun t ht => (hw4 t ht).1.1.1.1.1, fun t ht => (hw4 t ht).1.1.1.1.2,
    fun t ht => (hw4 t ht).1.1.1.2, fun t ht => (hw4 t ht).1.1.2, fun t ht => (hw4 t ht).1.2,
    fun t ht => (hw4 t ht).2, h1, h2, h3, ?_, h4, ?_, ?_, ?_,
    fun t ht i hi => kindIs_of i .interface ((hkinds t ht).1 i hi),
    fun t ht m hm => kindIs_of m .object ((hkinds t ht).2 m hm),
    fun n hn => kindIs_of n .object (hroots n hn), hq, ?_, ?_, ?_, ?_, ?_, ?_, ?_, ?_, ?_⟩
  · intro t ht hreg n hn
    rcases h5 t ht with h | h
    · exact absurd hreg h
    · exact h n hn
  · intro i hi' hk'
    rcases hi i hi' with h | h
    · exact absurd hk' h
    · exact h.1.1
  · intro i hi' hk' o ho
    rcases hi i hi' with h | h
    · exact absurd hk' h
    · have := h.1.2 o ho
      refine ⟨this.1, ?_⟩
      cases hl : S.defn.lookup o with
      | none => simp [hl] at this
      | some ot => simp [hl] at this; exact ⟨ot, rfl, this.2.1, this.2.2⟩
  · intro i hi' hk' ot hot hko hro hio
    rcases hi i hi' with h | h
    · exact absurd hk' h
    · rcases h.2 ot hot with h' | h'
      · exact absurd hio (h' ⟨hko, hro⟩)
      · exact h'
  · intro t ht hb
    rcases hbs t ht with h | h
    · rw [hb] at h; simp at h
    · exact h
  · intro t ht h1 h2
    rcases (hshape t ht).1.1.1.1 with (h | h) | h
    · exact absurd h h1
    · exact absurd h h2
    · exact h
  · intro t ht h1
    rcases (hshape t ht).1.1.1.2 with h | h
    · exact absurd h h1
    · exact h
  · intro t ht h1
    rcases (hshape t ht).1.1.2 with h | h
    · exact absurd h h1
    · exact h
  · intro t ht h1
    rcases (hshape t ht).1.2 with h | h
    · exact absurd h h1
    · exact h
  · intro t ht h1
    rcases (hshape t ht).2 with h | h
    · exact absurd h h1
    · exact h
  · intro t ht hreg hkind f hf
    rcases hf1 t ht with h | h
    · exact absurd hreg h
    · rcases h.1.1 with h' | h'
      · rcases hkind with hk' | hk'
        · exact absurd hk' h'.1
        · exact absurd hk' h'.2
      · exact h' f hf
  · intro t ht hreg hkind m hm
    rcases hf1 t ht with h | h
    · exact absurd hreg h
    · rcases h.1.2 with h' | h'
      · exact absurd hkind h'
      · exact h' m hm
  · intro t ht hreg hkind a ha
    rcases hf1 t ht with h | h
    · exact absurd hreg h
    · rcases h.2 with h' | h'
      · exact absurd hkind h'
      · exact h' a ha

/-! ### describe_exact -/

theorem typeData_name (S : Schema) (F : List String) (t : TypeDef Unit) : (typeData S F t).name = t.name := rfl

theorem filterMap_congr' {α β : Type} {f g : α → Option β} {l : List α} (h : ∀ a ∈ l, f a = g a) :
    l.filterMap f = l.filterMap g := by
  induction l with
  | nil => rfl
  | cons a l ih =>
    have h1 := h a List.mem_cons_self
    have h2 := ih (fun b hb => h b (List.mem_cons_of_mem _ hb))
    simp [List.filterMap_cons, h1, h2]

/-- The listed types, as a selection of names from the registry, looked up. -/
theorem listed_eq {S : Schema} (F : List String) :
    (S.namedTypes.filterMap S.defn.lookup).filter (fun t => subsetOf t.feat.keys F)
      = (S.namedTypes.filter (visibleName S F)).filterMap S.defn.lookup := by
  rw [List.filter_filterMap, List.filterMap_filter]
  apply filterMap_congr'
  intro n hn
  cases hl : S.defn.lookup n with
  | none => simp
  | some t =>
    have hfe : S.defn.featuresOf n = t.feat.keys := by simp [SchemaDef.featuresOf, hl]
    simp [visibleName, hn, hfe, Option.filter]

theorem visible_names_perm {S : Schema} (hf : Facts S) (F : List String) :
    (S.namedTypes.filter (visibleName S F)).Perm ((S.defn.types.map (·.name)).filter (visibleName S F)) := by
  rw [List.perm_ext_iff_of_nodup (hf.regNodup.filter _) (hf.tableNodup.filter _)]
  intro n
  simp only [List.mem_filter]
  constructor
  · rintro ⟨hn, hv⟩
    refine ⟨?_, hv⟩
    have := hf.regLookup n hn
    cases hl : S.defn.lookup n with
    | none => simp [hl] at this
    | some t =>
      have := lookup_some hl
      exact this.2 ▸ List.mem_map_of_mem (f := (·.name)) this.1
  · rintro ⟨_, hv⟩
    refine ⟨?_, hv⟩
    simp [visibleName] at hv
    exact hv.1

/-- Registry order versus table order: the same types. -/
theorem listed_perm {S : Schema} (hf : Facts S) (F : List String) :
    ((S.namedTypes.filterMap S.defn.lookup).filter (fun t => subsetOf t.feat.keys F)).Perm
      (S.defn.types.filter (fun t => visibleName S F t.name)) := by
  rw [listed_eq, filter_eq_filterMap_lookup hf.tableNodup (visibleName S F)]
  exact (visible_names_perm hf F).filterMap _


theorem restrict_name (S : Schema) (F : List String) (t : TypeDef Unit) : (restrict S F t).name = t.name := rfl
theorem restrict_kind (S : Schema) (F : List String) (t : TypeDef Unit) : (restrict S F t).kind = t.kind := rfl

theorem visible_types_names (S : Schema) (F : List String) :
    (visible S F).types.map (·.name) = (S.defn.types.filter (fun t => visibleName S F t.name)).map (·.name) := by
  simp [visible, List.map_map, Function.comp_def, restrict_name]

theorem visible_types_nodup {S : Schema} (hf : Facts S) (F : List String) :
    ((visible S F).types.map (·.name)).Nodup := by
  rw [visible_types_names]
  exact hf.tableNodup.sublist ((List.filter_sublist).map _)

theorem reg_of_visibleName {S : Schema} {F : List String} {n : String} (h : visibleName S F n = true) :
    n ∈ S.namedTypes := by
  simp [visibleName] at h
  exact h.1

theorem ifaces_filter_eq {S : Schema} (hf : Facts S) (F : List String) {t : TypeDef Unit}
    (ht : t ∈ S.defn.types) (hreg : t.name ∈ S.namedTypes) :
    t.ifaces.filter (fun i => subsetOf (S.defn.featuresOf i) F) = t.ifaces.filter (visibleName S F) := by
  apply List.filter_congr
  intro i hi
  have : i ∈ S.namedTypes := hf.refsReg t ht hreg i (by simp [TypeDef.refNames, hi])
  simp [visibleName, this]

theorem implementers_nodup {S : Schema} (hf : Facts S) (F : List String) (i : String) :
    (implementers (visible S F) i).Nodup := by
  unfold implementers
  exact (visible_types_nodup hf F).sublist ((List.filter_sublist).map _)

theorem mem_implementers {S : Schema} (F : List String) (i o : String) :
    o ∈ implementers (visible S F) i ↔
      ∃ t' ∈ S.defn.types, visibleName S F t'.name = true ∧ t'.kind = .object ∧
        (i ∈ t'.ifaces ∧ visibleName S F i = true) ∧ t'.name = o := by
  simp only [implementers, visible, List.mem_map, List.mem_filter, Bool.and_eq_true, beq_iff_eq,
    List.contains_eq_mem, decide_eq_true_eq]
  constructor
  · rintro ⟨u, ⟨⟨t', ⟨ht', hv⟩, rfl⟩, hk, hi⟩, rfl⟩
    refine ⟨t', ht', hv, hk, ?_, rfl⟩
    simpa [restrict, List.mem_filter] using hi
  · rintro ⟨t', ht', hv, hk, hi, rfl⟩
    refine ⟨restrict S F t', ⟨⟨t', ⟨ht', hv⟩, rfl⟩, hk, ?_⟩, rfl⟩
    simpa [restrict, List.mem_filter] using hi

theorem impls_eq {S : Schema} (hf : Facts S) (F : List String) {t : TypeDef Unit}
    (ht : t ∈ S.defn.types) (hk : t.kind = .interface) (hv : visibleName S F t.name = true) :
    sortNames ((S.implsOf t.name).filter (fun o => subsetOf (S.defn.featuresOf o) F))
      = sortNames (implementers (visible S F) t.name) := by
  apply sortNames_eq_of_perm
  rw [List.perm_ext_iff_of_nodup ((hf.implsNodup t ht hk).filter _) (implementers_nodup hf F _)]
  intro o
  rw [mem_implementers, List.mem_filter]
  constructor
  · rintro ⟨ho, hfe⟩
    obtain ⟨hro, ot, hl, hko, hio⟩ := hf.implsSound t ht hk o ho
    obtain ⟨hot, hname⟩ := lookup_some hl
    refine ⟨ot, hot, ?_, hko, ⟨hio, hv⟩, hname⟩
    simp [visibleName, hname, hro, hfe]
  · rintro ⟨t', ht', hv', hk', ⟨hi, _⟩, rfl⟩
    have hr := reg_of_visibleName hv'
    refine ⟨hf.implsComplete t ht hk t' ht' hk' hr hi, ?_⟩
    simp [visibleName] at hv'
    exact hv'.2

theorem typeData_eq_describeType {S : Schema} (hf : Facts S) (F : List String) {t : TypeDef Unit}
    (ht : t ∈ S.defn.types) (hv : visibleName S F t.name = true) :
    typeData S F t = describeType S.defn (visible S F) (restrict S F t) := by
  have hreg := reg_of_visibleName hv
  unfold typeData describeType
  simp only [restrict_name, restrict_kind]
  by_cases hk : t.kind = .interface
  · simp [hk, impls_eq hf F ht hk hv, restrict]
  · simp [hk, ifaces_filter_eq hf F ht hreg, restrict]



/-! ### Closure of the visible schema, references of a description -/

theorem mem_visible_directives {S : Schema} {F : List String} {dd : DirectiveDef Unit} :
    dd ∈ (visible S F).directives ↔ ∃ d0 ∈ S.defn.directives, visibleDirective S.defn F d0 = dd := by
  simp [visible, List.mem_map]

theorem visibleDirective_name {ι : Type} (d : SchemaDef ι) (F : List String) (dd : DirectiveDef ι) :
    (visibleDirective d F dd).name = dd.name := rfl

theorem visible_directives_names (S : Schema) (F : List String) :
    (visible S F).directives.map (·.name) = S.defn.directives.map (·.name) := by
  simp [visible, List.map_map, Function.comp_def, visibleDirective_name]

theorem mem_visible_names {S : Schema} (hf : Facts S) {F : List String} {n : String}
    (h : visibleName S F n = true) : n ∈ (visible S F).types.map (·.name) := by
  rw [visible_types_names]
  have hr := reg_of_visibleName h
  have := hf.regLookup n hr
  cases hl : S.defn.lookup n with
  | none => simp [hl] at this
  | some t =>
    obtain ⟨ht, hname⟩ := lookup_some hl
    rw [← hname]
    have hmem : t ∈ S.defn.types.filter (fun t => visibleName S F t.name) := by
      rw [List.mem_filter]
      exact ⟨ht, by rw [hname]; exact h⟩
    exact List.mem_map_of_mem (f := fun (x : TypeDef Unit) => x.name) hmem

theorem visibleName_of {S : Schema} {F : List String} {n : String} (hr : n ∈ S.namedTypes)
    (hfe : subsetOf (S.defn.featuresOf n) F = true) : visibleName S F n = true := by
  simp [visibleName, hr, hfe]

theorem visible_feat {S : Schema} (hf : Facts S) {F : List String} {t : TypeDef Unit}
    (ht : t ∈ S.defn.types) (hv : visibleName S F t.name = true) : subsetOf t.feat.keys F = true := by
  simp [visibleName, featuresOf_of_mem hf.tableNodup ht] at hv
  exact hv.2

theorem mem_refNames_field {ι : Type} {t : TypeDef ι} {f : FieldDef ι} (hf : f ∈ t.fields) :
    f.type.ref.leaf ∈ t.refNames := by
  simp only [TypeDef.refNames, List.mem_append, List.mem_flatMap]
  exact Or.inl (Or.inl (Or.inl ⟨f, hf, List.mem_cons_self⟩))

theorem mem_refNames_arg {ι : Type} {t : TypeDef ι} {f : FieldDef ι} {a : InputValueDef ι}
    (hf : f ∈ t.fields) (ha : a ∈ f.args) : a.type.ref.leaf ∈ t.refNames := by
  simp only [TypeDef.refNames, List.mem_append, List.mem_flatMap]
  exact Or.inl (Or.inl (Or.inl ⟨f, hf, List.mem_cons_of_mem _ (List.mem_map_of_mem (f := fun a => a.type.ref.leaf) ha)⟩))

theorem mem_refNames_input {ι : Type} {t : TypeDef ι} {a : InputValueDef ι} (ha : a ∈ t.inputs) :
    a.type.ref.leaf ∈ t.refNames := by
  simp only [TypeDef.refNames, List.mem_append]
  exact Or.inl (Or.inl (Or.inr (List.mem_map_of_mem (f := fun a => a.type.ref.leaf) ha)))

theorem mem_refNames_iface {ι : Type} {t : TypeDef ι} {i : String} (hi : i ∈ t.ifaces) : i ∈ t.refNames := by
  simp only [TypeDef.refNames, List.mem_append]
  exact Or.inl (Or.inr hi)

theorem mem_refNames_member {ι : Type} {t : TypeDef ι} {m : String} (hm : m ∈ t.members) : m ∈ t.refNames := by
  simp only [TypeDef.refNames, List.mem_append]
  exact Or.inr hm

theorem mem_refNames {ι : Type} {t : TypeDef ι} {n : String} (h : n ∈ t.refNames) :
    (∃ f ∈ t.fields, n = f.type.ref.leaf ∨ ∃ a ∈ f.args, n = a.type.ref.leaf)
    ∨ (∃ a ∈ t.inputs, n = a.type.ref.leaf) ∨ n ∈ t.ifaces ∨ n ∈ t.members := by
  simp only [TypeDef.refNames, List.mem_append, List.mem_flatMap, List.mem_cons, List.mem_map] at h
  rcases h with ((⟨f, hf, h⟩ | ⟨a, ha, h⟩) | h) | h
  · left
    refine ⟨f, hf, ?_⟩
    rcases h with h | ⟨a, ha, h⟩
    · exact Or.inl h
    · exact Or.inr ⟨a, ha, h.symm⟩
  · right; left; exact ⟨a, ha, h.symm⟩
  · right; right; left; exact h
  · right; right; right; exact h

theorem refData_leaf {ι : Type} (D : SchemaDef ι) (k : Nat) (r : TRef) {n : String}
    (h : (refData D k r).leaf? = some n) : n = r.leaf := by
  induction r generalizing k with
  | named m => simp [refData, RefD.leaf?] at h; exact h.symm
  | list t ih =>
    cases k with
    | zero => simp [refData, RefD.leaf?] at h
    | succ k => simp only [refData, RefD.leaf?] at h; simpa [TRef.leaf] using ih k h
  | nonNull t ih =>
    cases k with
    | zero => simp [refData, RefD.leaf?] at h
    | succ k => simp only [refData, RefD.leaf?] at h; simpa [TRef.leaf] using ih k h

theorem describeType_name (D V : SchemaDef Unit) (t : TypeDef Unit) : (describeType D V t).name = t.name := rfl

/-- Every reference inside the description of one type of a closed visible schema leads to a type
    of that schema. -/
theorem describeType_refs {D V : SchemaDef Unit} (hc : ClosedV V) {t : TypeDef Unit} (ht : t ∈ V.types)
    {r : RefD} (hr : r ∈ (describeType D V t).refs) {n : String} (hn : r.leaf? = some n) :
    n ∈ V.types.map (·.name) := by
  have hcl := hc.1 t ht
  simp only [TypeD.refs, List.mem_append, List.mem_flatMap] at hr
  rcases hr with ((⟨fd, hfd, hr⟩ | ⟨iv, hiv, hr⟩) | hr) | hr
  · -- field type / argument type
    simp only [describeType] at hfd
    split at hfd
    · simp only [Option.getD_some, List.mem_map] at hfd
      obtain ⟨f, hf, rfl⟩ := hfd
      simp only [FieldD.refs, fieldData, List.mem_cons, List.mem_flatMap, List.mem_map] at hr
      rcases hr with rfl | ⟨ivd, ⟨a, ha, rfl⟩, hr⟩
      · rw [refData_leaf _ _ _ hn]; exact hcl _ (mem_refNames_field hf)
      · simp only [InputValueD.refs, inputValueData, List.mem_singleton] at hr
        subst hr
        rw [refData_leaf _ _ _ hn]; exact hcl _ (mem_refNames_arg hf ha)
    · simp at hfd
  · simp only [describeType] at hiv
    split at hiv
    · simp only [Option.getD_some, List.mem_map] at hiv
      obtain ⟨a, ha, rfl⟩ := hiv
      simp only [InputValueD.refs, inputValueData, List.mem_singleton] at hr
      subst hr
      rw [refData_leaf _ _ _ hn]; exact hcl _ (mem_refNames_input ha)
    · simp at hiv
  · simp only [describeType] at hr
    split at hr
    · simp only [Option.getD_some, List.mem_map] at hr
      obtain ⟨i, hi, rfl⟩ := hr
      have := refData_leaf _ _ _ hn
      simp only [TRef.leaf] at this
      rw [this]; exact hcl _ (mem_refNames_iface hi)
    · simp at hr
  · simp only [describeType] at hr
    split at hr
    · simp only [Option.getD_some, List.mem_map] at hr
      obtain ⟨o, ho, rfl⟩ := hr
      have := refData_leaf _ _ _ hn
      simp only [TRef.leaf] at this
      rw [this]
      have ho' := mem_sortNames.mp ho
      simp only [implementers, List.mem_map, List.mem_filter] at ho'
      obtain ⟨u, ⟨hu, _⟩, rfl⟩ := ho'
      exact List.mem_map_of_mem (f := fun (x : TypeDef Unit) => x.name) hu
    · split at hr
      · simp only [Option.getD_some, List.mem_map] at hr
        obtain ⟨m, hm, rfl⟩ := hr
        have := refData_leaf _ _ _ hn
        simp only [TRef.leaf] at this
        rw [this]; exact hcl _ (mem_refNames_member hm)
      · simp at hr


/-! ### Clone: contents -/

abbrev er {ι : Type} : ι → Unit := fun _ => ()

theorem map_map_congr {α β γ : Type} {f : α → β} {g : β → γ} {h : α → γ} {l : List α}
    (H : ∀ a ∈ l, g (f a) = h a) : (l.map f).map g = l.map h := by
  rw [List.map_map]
  exact List.map_congr_left (fun a ha => by simpa using H a ha)

theorem erase_cloneIV0 (b : Nat) (x : InputValueDef0 Id) : (cloneIV0 b x).mapI er = x.mapI er := rfl

theorem erase_cloneDirectiveDef (b : Nat) (x : DirectiveDef Id) : (cloneDirectiveDef b x).mapI er = x.mapI er := by
  simp only [cloneDirectiveDef, DirectiveDef.mapI]
  rw [map_map_congr (h := fun a => a.mapI er) (fun a _ => erase_cloneIV0 b a)]

theorem erase_cloneArg (b : Nat) (x : Arg Id) : (cloneArg b x).mapI er = x.mapI er := rfl

theorem erase_cloneApplied (b : Nat) (x : Applied Id) : (cloneApplied b x).mapI er = x.mapI er := by
  simp only [cloneApplied, Applied.mapI, erase_cloneDirectiveDef]
  rw [map_map_congr (h := fun a => a.mapI er) (fun a _ => erase_cloneArg b a)]

theorem erase_cloneDirList (b : Nat) (x : DirList Id) : (cloneDirList b x).mapI er = x.mapI er := by
  simp only [cloneDirList, DirList.mapI]
  rw [map_map_congr (h := fun a => a.mapI er) (fun a _ => erase_cloneApplied b a)]

theorem erase_cloneIV (b : Nat) (x : InputValueDef Id) : (cloneIV b x).mapI er = x.mapI er := by
  simp only [cloneIV, InputValueDef.mapI, erase_cloneDirList]
  rfl

theorem erase_cloneField (b : Nat) (x : FieldDef Id) : (cloneField b x).mapI er = x.mapI er := by
  simp only [cloneField, FieldDef.mapI, erase_cloneDirList]
  rw [map_map_congr (h := fun a => a.mapI er) (fun a _ => erase_cloneIV b a)]
  rfl

theorem erase_cloneEnumValue (b : Nat) (x : EnumValueDef Id) : (cloneEnumValue b x).mapI er = x.mapI er := by
  simp only [cloneEnumValue, EnumValueDef.mapI, erase_cloneDirList]

theorem erase_cloneType (b : Nat) (x : TypeDef Id) : (cloneType b x).mapI er = x.mapI er := by
  simp only [cloneType, TypeDef.mapI, erase_cloneDirList]
  rw [map_map_congr (h := fun a => a.mapI er) (fun a _ => erase_cloneField b a),
      map_map_congr (h := fun a => a.mapI er) (fun a _ => erase_cloneEnumValue b a),
      map_map_congr (h := fun a => a.mapI er) (fun a _ => erase_cloneIV b a)]
  rfl

theorem erase_cloneDef (b : Nat) (d : GDef) : (cloneDef b d).erase = d.erase := by
  simp only [cloneDef, SchemaDef.erase, SchemaDef.mapI]
  rw [map_map_congr (h := fun a => a.mapI er) (fun a _ => erase_cloneDirectiveDef b a),
      map_map_congr (h := fun (t : TypeDef Id) => t.mapI er)
        (fun t _ => by split <;> simp [erase_cloneType])]


/-! ### Clone: identities -/

theorem fresh_ge {b : Nat} {i : Id} {n : Nat} (h : n ∈ idList (fresh b i)) : b ≤ n := by
  cases i with
  | none => simp [fresh, idList] at h
  | some k => simp [fresh, idList] at h; omega

theorem flatMap_ge {α : Type} {b : Nat} {l : List α} {f : α → List Nat}
    (H : ∀ a ∈ l, ∀ n ∈ f a, b ≤ n) {n : Nat} (h : n ∈ l.flatMap f) : b ≤ n := by
  obtain ⟨a, ha, hn⟩ := List.mem_flatMap.mp h
  exact H a ha n hn

theorem flatMap_map_ge {α : Type} {b : Nat} {l : List α} {c : α → α} {f : α → List Nat}
    (H : ∀ a, ∀ n ∈ f (c a), b ≤ n) {n : Nat} (h : n ∈ (l.map c).flatMap f) : b ≤ n := by
  obtain ⟨a, ha, hn⟩ := List.mem_flatMap.mp h
  obtain ⟨a0, _, rfl⟩ := List.mem_map.mp ha
  exact H a0 n hn

theorem ids_cloneTypeAt {b : Nat} (x : TypeAt Id) : ∀ n ∈ (cloneTypeAt b x).ids, b ≤ n := by
  intro n h; exact fresh_ge h

theorem ids_cloneFeat {b : Nat} (x : Feat Id) : ∀ n ∈ (cloneFeat b x).ids, b ≤ n := by
  intro n h; exact fresh_ge h

theorem ids_cloneIV0 {b : Nat} (x : InputValueDef0 Id) : ∀ n ∈ (cloneIV0 b x).ids, b ≤ n := by
  intro n h
  simp only [InputValueDef0.ids, cloneIV0, List.mem_append] at h
  rcases h with h | h
  · exact fresh_ge h
  · exact ids_cloneTypeAt _ n h

theorem ids_cloneDirectiveDef {b : Nat} (x : DirectiveDef Id) : ∀ n ∈ (cloneDirectiveDef b x).ids, b ≤ n := by
  intro n h
  simp only [DirectiveDef.ids, cloneDirectiveDef, List.mem_append] at h
  rcases h with ((h | h) | h) | h
  · exact fresh_ge h
  · exact fresh_ge h
  · exact fresh_ge h
  · exact flatMap_map_ge (fun a => ids_cloneIV0 a) h

theorem ids_cloneArg {b : Nat} (x : Arg Id) : ∀ n ∈ (cloneArg b x).ids, b ≤ n := by
  intro n h; exact fresh_ge h

theorem ids_cloneApplied {b : Nat} (x : Applied Id) : ∀ n ∈ (cloneApplied b x).ids, b ≤ n := by
  intro n h
  simp only [Applied.ids, cloneApplied, List.mem_append] at h
  rcases h with ((h | h) | h) | h
  · exact fresh_ge h
  · exact ids_cloneDirectiveDef _ n h
  · exact fresh_ge h
  · exact flatMap_map_ge (fun a => ids_cloneArg a) h

theorem ids_cloneDirList {b : Nat} (x : DirList Id) : ∀ n ∈ (cloneDirList b x).ids, b ≤ n := by
  intro n h
  simp only [DirList.ids, cloneDirList, List.mem_append] at h
  rcases h with h | h
  · exact fresh_ge h
  · exact flatMap_map_ge (fun a => ids_cloneApplied a) h

theorem ids_cloneIV {b : Nat} (x : InputValueDef Id) : ∀ n ∈ (cloneIV b x).ids, b ≤ n := by
  intro n h
  simp only [InputValueDef.ids, cloneIV, List.mem_append] at h
  rcases h with (h | h) | h
  · exact fresh_ge h
  · exact ids_cloneTypeAt _ n h
  · exact ids_cloneDirList _ n h

theorem ids_cloneField {b : Nat} (x : FieldDef Id) : ∀ n ∈ (cloneField b x).ids, b ≤ n := by
  intro n h
  simp only [FieldDef.ids, cloneField, List.mem_append] at h
  rcases h with ((((h | h) | h) | h) | h) | h
  · exact fresh_ge h
  · exact ids_cloneTypeAt _ n h
  · exact fresh_ge h
  · exact flatMap_map_ge (fun a => ids_cloneIV a) h
  · exact ids_cloneFeat _ n h
  · exact ids_cloneDirList _ n h

theorem ids_cloneEnumValue {b : Nat} (x : EnumValueDef Id) : ∀ n ∈ (cloneEnumValue b x).ids, b ≤ n := by
  intro n h
  simp only [EnumValueDef.ids, cloneEnumValue, List.mem_append] at h
  rcases h with h | h
  · exact fresh_ge h
  · exact ids_cloneDirList _ n h

theorem ids_cloneType {b : Nat} (x : TypeDef Id) : ∀ n ∈ (cloneType b x).ids, b ≤ n := by
  intro n h
  simp only [TypeDef.ids, cloneType, List.mem_append] at h
  rcases h with (((((((((h | h) | h) | h) | h) | h) | h) | h) | h) | h) | h
  · exact fresh_ge h
  · exact ids_cloneFeat _ n h
  · exact ids_cloneDirList _ n h
  · exact fresh_ge h
  · exact flatMap_map_ge (fun a => ids_cloneField a) h
  · exact fresh_ge h
  · exact fresh_ge h
  · exact fresh_ge h
  · exact flatMap_map_ge (fun a => ids_cloneEnumValue a) h
  · exact fresh_ge h
  · exact flatMap_map_ge (fun a => ids_cloneIV a) h

/-- Every named type of the table other than the built-in scalars is reached by `Inspect` (and
    therefore copied by `Clone`). False only for a type that is referenced solely from the
    definition of a directive applied to an object / interface / union / input-object type, field,
    argument or enum value — `Inspect` does not look there; the harness's definitions satisfy it. -/
def InspectClosed (d : GDef) : Prop :=
  ∀ t ∈ d.types, isBuiltin t.name = false → t.name ∈ (registries d).names

theorem cloneType_name (b : Nat) (t : TypeDef Id) : (cloneType b t).name = t.name := rfl

theorem ids_cloneDef {b : Nat} {d : GDef} (hc : InspectClosed d) : ∀ n ∈ (cloneDef b d).ids, b ≤ n := by
  intro n h
  simp only [GDef.ids, cloneDef, List.mem_append, List.mem_flatMap, List.mem_filter, List.mem_map] at h
  rcases h with ((⟨t', ⟨⟨t, ht, rfl⟩, hnb⟩, hn⟩ | h) | h) | ⟨dd, ⟨d0, _, rfl⟩, hn⟩
  · have hname : (if (!isBuiltin t.name && (registries d).names.contains t.name) = true then cloneType b t else t).name = t.name := by
      split <;> rfl
    rw [hname] at hnb
    have hnb' : isBuiltin t.name = false := by simpa using hnb
    have hreach := hc t ht hnb'
    have hcond : (!isBuiltin t.name && (registries d).names.contains t.name) = true := by
      simp [hnb', hreach]
    rw [if_pos hcond] at hn
    exact ids_cloneType _ n hn
  · exact fresh_ge h
  · exact fresh_ge h
  · exact ids_cloneDirectiveDef _ n hn


theorem visible_closed' {S : Schema} (h : Accepted S) (F : List String) :
    ClosedV (visible S F) := by
  have hf := facts_of_accepted h
  constructor
  · intro u hu n hn
    simp only [visible, List.mem_map, List.mem_filter] at hu
    obtain ⟨t, ⟨ht, hv⟩, rfl⟩ := hu
    have hreg := reg_of_visibleName hv
    have htF := visible_feat hf ht hv
    apply mem_visible_names hf
    rcases mem_refNames hn with ⟨f, hfm, hcase⟩ | ⟨a, ha, rfl⟩ | hi | hm
    · -- a visible field of `t`, or one of its arguments
      simp only [restrict, List.mem_filter] at hfm
      obtain ⟨hfm, hfF⟩ := hfm
      have hkind : t.kind = .object ∨ t.kind = .interface := by
        by_cases h1 : t.kind = .object
        · exact Or.inl h1
        · by_cases h2 : t.kind = .interface
          · exact Or.inr h2
          · have := hf.shapeFields t ht h1 h2
            rw [this] at hfm
            cases hfm
      have hff := hf.fieldFeat t ht hreg hkind f hfm
      have hsub : subsetOf (f.feat.keys ++ t.feat.keys) F = true := subsetOf_append hfF htF
      rcases hcase with rfl | ⟨a, ha, rfl⟩
      · exact visibleName_of (hf.refsReg t ht hreg _ (mem_refNames_field hfm)) (subsetOf_trans hff.1 hsub)
      · exact visibleName_of (hf.refsReg t ht hreg _ (mem_refNames_arg hfm ha)) (subsetOf_trans (hff.2 a ha) hsub)
    · -- an input field
      have ha' : a ∈ t.inputs := ha
      have hkind : t.kind = .inputObject := by
        by_cases h1 : t.kind = .inputObject
        · exact h1
        · have := hf.shapeInputs t ht h1
          rw [this] at ha'
          cases ha'
      exact visibleName_of (hf.refsReg t ht hreg _ (mem_refNames_input ha'))
        (subsetOf_trans (hf.inputFeat t ht hreg hkind a ha') htF)
    · -- a visible interface
      simp only [restrict, List.mem_filter] at hi
      exact hi.2
    · -- a union member
      have hm' : n ∈ t.members := hm
      have hkind : t.kind = .union := by
        by_cases h1 : t.kind = .union
        · exact h1
        · have := hf.shapeMembers t ht h1
          rw [this] at hm'
          cases hm'
      exact visibleName_of (hf.refsReg t ht hreg _ (mem_refNames_member hm'))
        (subsetOf_trans (hf.memberFeat t ht hreg hkind n hm') htF)
  · intro dd hdd a ha
    apply mem_visible_names hf
    obtain ⟨d0, hd0, rfl⟩ := mem_visible_directives.mp hdd
    have ha' := List.mem_filter.mp ha
    exact visibleName_of (hf.dirArgsReg d0 hd0 a ha'.1) ha'.2




/-! ### Rebuild: what survives the round trip through introspection data -/

theorem nullableString_getD (s : String) : (nullableString s).getD "" = s := by
  unfold nullableString
  split
  · rename_i h; simp [h]
  · simp

/-- A wrapper chain within the depth the query selects, over a listed type, is read back exactly. -/
theorem getType_refData {ι : Type} (d : SchemaDef ι) (types : List (String × Kind)) (r : TRef) (k : Nat)
    (hd : r.depth ≤ k) (hl : types.any (fun p => p.1 == r.leaf) = true) :
    getType types (refData d k r) = .ok r := by
  induction r generalizing k with
  | named n =>
    simp only [TRef.leaf] at hl
    simp [refData, getType, hl]
  | list t ih =>
    cases k with
    | zero => simp [TRef.depth] at hd
    | succ k =>
      have := ih k (by simp [TRef.depth] at hd; omega) (by simpa [TRef.leaf] using hl)
      simp [refData, getType, this, Except.map]
  | nonNull t ih =>
    cases k with
    | zero => simp [TRef.depth] at hd
    | succ k =>
      have := ih k (by simp [TRef.depth] at hd; omega) (by simpa [TRef.leaf] using hl)
      simp [refData, getType, this, Except.map]

/-- The documented truncation (query.go): a chain with more wrappers than the query selects comes
    back with a missing `ofType`, which `getType` refuses. -/
theorem getType_truncated {ι : Type} (d : SchemaDef ι) (types : List (String × Kind)) (r : TRef) (k : Nat)
    (hd : k < r.depth) : ∃ e, getType types (refData d k r) = .error e := by
  induction r generalizing k with
  | named n => simp [TRef.depth] at hd
  | list t ih =>
    cases k with
    | zero => exact ⟨_, by simp only [refData, getType]; rfl⟩
    | succ k =>
      obtain ⟨e, he⟩ := ih k (by simp [TRef.depth] at hd; omega)
      exact ⟨e, by simp [refData, getType, he, Except.map]⟩
  | nonNull t ih =>
    cases k with
    | zero => exact ⟨_, by simp only [refData, getType]; rfl⟩
    | succ k =>
      obtain ⟨e, he⟩ := ih k (by simp [TRef.depth] at hd; omega)
      exact ⟨e, by simp [refData, getType, he, Except.map]⟩


theorem mapExcept_map_ok {α β γ : Type} {f : α → Except String β} {g : γ → α} {h : γ → β} {l : List γ}
    (H : ∀ x ∈ l, f (g x) = .ok (h x)) : mapExcept f (l.map g) = .ok (l.map h) := by
  induction l with
  | nil => rfl
  | cons x xs ih =>
    have h1 := H x List.mem_cons_self
    have h2 := ih (fun y hy => H y (List.mem_cons_of_mem _ hy))
    simp [mapExcept, h1, h2]

theorem foldl_mapInsert_append {α : Type} (key : α → String) (l acc : List α)
    (hn : ((acc ++ l).map key).Nodup) : l.foldl (mapInsert key) acc = acc ++ l := by
  induction l generalizing acc with
  | nil => simp
  | cons x xs ih =>
    have hx : (acc.any fun y => key y == key x) = false := by
      rw [Bool.eq_false_iff]
      intro h
      simp only [List.any_eq_true, beq_iff_eq] at h
      obtain ⟨y, hy, hk⟩ := h
      simp only [List.map_append, List.map_cons, List.nodup_append, List.mem_map, List.mem_cons] at hn
      exact hn.2.2 (key y) ⟨y, hy, rfl⟩ (key x) (Or.inl rfl) hk
    have hstep : mapInsert key acc x = acc ++ [x] := by simp [mapInsert, hx]
    rw [List.foldl_cons, hstep, ih (acc ++ [x]) (by simpa using hn)]
    simp

theorem foldl_mapInsert_nodup {α : Type} (key : α → String) (l : List α) (hn : (l.map key).Nodup) :
    l.foldl (mapInsert key) [] = l := by
  simpa using foldl_mapInsert_append key l [] (by simpa using hn)

def Listed (types : List (String × Kind)) (n : String) : Prop := types.any (fun p => p.1 == n) = true

theorem rebuildIV_ok (keep : Bool) (D : SchemaDef Unit) (types : List (String × Kind)) (a : InputValueDef Unit)
    (hd : a.type.ref.depth ≤ typeRefLevels) (hl : Listed types a.type.ref.leaf) :
    rebuildIV keep types (inputValueData D a) = .ok (forgetIV keep D a) := by
  simp [rebuildIV, inputValueData, getType_refData D types a.type.ref typeRefLevels hd hl, Except.map,
    forgetIV, nullableString_getD]

theorem rebuildIV0_ok (keep : Bool) (D : SchemaDef Unit) (types : List (String × Kind)) (a : InputValueDef0 Unit)
    (hd : a.type.ref.depth ≤ typeRefLevels) (hl : Listed types a.type.ref.leaf) :
    rebuildIV0 keep types (inputValueData0 D a) = .ok (forgetIV0 keep D a) := by
  simp [rebuildIV0, inputValueData0, getType_refData D types a.type.ref typeRefLevels hd hl, Except.map,
    forgetIV0, nullableString_getD]

theorem forgetIV_name (keep : Bool) (D : SchemaDef Unit) (a : InputValueDef Unit) : (forgetIV keep D a).name = a.name := rfl
theorem forgetField_name (keep : Bool) (D : SchemaDef Unit) (f : FieldDef Unit) : (forgetField keep D f).name = f.name := rfl

theorem rebuildField_ok (keep : Bool) (D : SchemaDef Unit) (types : List (String × Kind)) (f : FieldDef Unit)
    (hd : f.type.ref.depth ≤ typeRefLevels) (hl : Listed types f.type.ref.leaf)
    (hargs : ∀ a ∈ f.args, a.type.ref.depth ≤ typeRefLevels ∧ Listed types a.type.ref.leaf)
    (hn : (f.args.map (·.name)).Nodup) :
    rebuildField keep types (fieldData D f) = .ok (forgetField keep D f) := by
  have h1 := getType_refData D types f.type.ref typeRefLevels hd hl
  have h2 : mapExcept (rebuildIV keep types) (f.args.map (inputValueData D)) = .ok (f.args.map (forgetIV keep D)) :=
    mapExcept_map_ok (fun a ha => rebuildIV_ok keep D types a (hargs a ha).1 (hargs a ha).2)
  have h3 : (f.args.map (forgetIV keep D)).foldl (mapInsert (·.name)) [] = f.args.map (forgetIV keep D) :=
    foldl_mapInsert_nodup _ _ (by simpa [List.map_map, Function.comp_def, forgetIV_name] using hn)
  simp [rebuildField, fieldData, h1, h2, h3, forgetField, nullableString_getD]


theorem kindOfName_kindName (k : Kind) : kindOfName (kindName k) = some k := by cases k <;> rfl

/-- What the rebuild needs to know about one type of the visible schema, relative to the
    name → kind table of the listed types. -/
structure TypeOk (types : List (String × Kind)) (t : TypeDef Unit) : Prop where
  fields : ∀ f ∈ t.fields, f.type.ref.depth ≤ typeRefLevels ∧ Listed types f.type.ref.leaf
    ∧ (∀ a ∈ f.args, a.type.ref.depth ≤ typeRefLevels ∧ Listed types a.type.ref.leaf)
    ∧ (f.args.map (·.name)).Nodup
  fieldsNodup : (t.fields.map (·.name)).Nodup
  inputs : ∀ a ∈ t.inputs, a.type.ref.depth ≤ typeRefLevels ∧ Listed types a.type.ref.leaf
  inputsNodup : (t.inputs.map (·.name)).Nodup
  valuesNodup : (t.values.map (·.name)).Nodup
  ifaces : ∀ i ∈ t.ifaces, kindIn types i = some .interface
  members : ∀ m ∈ t.members, kindIn types m = some .object

theorem listed_of_kindIn {types : List (String × Kind)} {n : String} {k : Kind} (h : kindIn types n = some k) :
    Listed types n := by
  unfold kindIn at h
  unfold Listed
  cases hf : types.find? (fun p => p.1 == n) with
  | none => simp [hf] at h
  | some p =>
    have h1 := List.mem_of_find?_eq_some hf
    have h2 := List.find?_some hf
    simp only [List.any_eq_true]
    exact ⟨p, h1, h2⟩

theorem namedOfKind_ok (D : SchemaDef Unit) (types : List (String × Kind)) (k : Kind) (msg n : String)
    (h : kindIn types n = some k) : namedOfKind types k msg (namedRef D n) = .ok n := by
  have hl : Listed types n := listed_of_kindIn h
  have hg : getType types (namedRef D n) = .ok (.named n) :=
    getType_refData D types (.named n) typeRefLevels (by simp [TRef.depth]) hl
  simp [namedOfKind, hg, h]

theorem rebuildType_ok (keep : Bool) (D V : SchemaDef Unit) (types : List (String × Kind)) (t : TypeDef Unit)
    (hok : TypeOk types t) : rebuildType keep types (describeType D V t) = .ok (forgetType keep D t) := by
  unfold rebuildType forgetType
  simp only [describeType_name]
  by_cases hb : isBuiltin t.name = true
  · simp [hb]
  · simp only [hb, Bool.false_eq_true, if_false]
    have hk : kindOfName (describeType D V t).kind = some t.kind := kindOfName_kindName t.kind
    rw [hk]
    have hfields : mapExcept (rebuildField keep types) (t.fields.map (fieldData D)) = .ok (t.fields.map (forgetField keep D)) :=
      mapExcept_map_ok (fun f hf => by
        obtain ⟨h1, h2, h3, h4⟩ := hok.fields f hf
        exact rebuildField_ok keep D types f h1 h2 h3 h4)
    have hfold : (t.fields.map (forgetField keep D)).foldl (mapInsert (·.name)) [] = t.fields.map (forgetField keep D) :=
      foldl_mapInsert_nodup _ _ (by simpa [List.map_map, Function.comp_def, forgetField_name] using hok.fieldsNodup)
    cases hkind : t.kind with
    | scalar => simp [shellType, describeType, nullableString_getD]
    | object =>
      have hif : mapExcept (namedOfKind types .interface "type is not an interface: ") (t.ifaces.map (namedRef D))
          = .ok (t.ifaces.map id) :=
        mapExcept_map_ok (fun i hi => namedOfKind_ok D types .interface _ i (hok.ifaces i hi))
      simp [describeType, hkind, hfields, hif, hfold, forgetObject, shellType, nullableString_getD]
    | interface =>
      simp [describeType, hkind, hfields, hfold, forgetInterface, shellType, nullableString_getD]
    | union =>
      have hm : mapExcept (namedOfKind types .object "type is not an object: ") (t.members.map (namedRef D))
          = .ok (t.members.map id) :=
        mapExcept_map_ok (fun m hm => namedOfKind_ok D types .object _ m (hok.members m hm))
      simp [describeType, hkind, hm, forgetUnion, shellType, nullableString_getD]
    | «enum» =>
      have hvals : ((t.values.map enumValueData).map fun v =>
          ({ name := v.name, description := v.description.getD "", self := alloc,
             deprecation := v.deprecationReason.getD "", dirs := nilDirs } : EnumValueDef Id))
          = t.values.map forgetEnumValue := by
        simp [List.map_map, Function.comp_def, enumValueData, forgetEnumValue, nullableString_getD]
      have hvf : (t.values.map forgetEnumValue).foldl (mapInsert (·.name)) [] = t.values.map forgetEnumValue :=
        foldl_mapInsert_nodup _ _ (by
          simpa [List.map_map, Function.comp_def, forgetEnumValue] using hok.valuesNodup)
      simp [describeType, hkind, hvals, hvf, forgetEnum, shellType, nullableString_getD]
    | inputObject =>
      have hin : mapExcept (rebuildIV keep types) (t.inputs.map (inputValueData D)) = .ok (t.inputs.map (forgetIV keep D)) :=
        mapExcept_map_ok (fun a ha => rebuildIV_ok keep D types a (hok.inputs a ha).1 (hok.inputs a ha).2)
      have hinf : (t.inputs.map (forgetIV keep D)).foldl (mapInsert (·.name)) [] = t.inputs.map (forgetIV keep D) :=
        foldl_mapInsert_nodup _ _ (by simpa [List.map_map, Function.comp_def, forgetIV_name] using hok.inputsNodup)
      simp [describeType, hkind, hin, hinf, forgetInput, shellType, nullableString_getD]


theorem forgetIV0_name (keep : Bool) (D : SchemaDef Unit) (a : InputValueDef0 Unit) : (forgetIV0 keep D a).name = a.name := rfl

theorem rebuildDirective_ok (keep : Bool) (D : SchemaDef Unit) (types : List (String × Kind)) (dd : DirectiveDef Unit)
    (hlocs : ∀ l ∈ dd.locs, l ∈ knownLocations)
    (hargs : ∀ a ∈ dd.args, a.type.ref.depth ≤ typeRefLevels ∧ Listed types a.type.ref.leaf)
    (hn : (dd.args.map (·.name)).Nodup) :
    rebuildDirective keep types (directiveData D dd) = .ok (forgetDirective keep D dd) := by
  have hfind : dd.locs.find? (fun l => !knownLocations.contains l) = none := by
    rw [List.find?_eq_none]
    intro l hl
    simp [hlocs l hl]
  have hmap : mapExcept (rebuildIV0 keep types) (dd.args.map (inputValueData0 D)) = .ok (dd.args.map (forgetIV0 keep D)) :=
    mapExcept_map_ok (fun a ha => rebuildIV0_ok keep D types a (hargs a ha).1 (hargs a ha).2)
  have hfold : (dd.args.map (forgetIV0 keep D)).foldl (mapInsert (·.name)) [] = dd.args.map (forgetIV0 keep D) :=
    foldl_mapInsert_nodup _ _ (by simpa [List.map_map, Function.comp_def, forgetIV0_name] using hn)
  unfold rebuildDirective
  simp only [directiveData]
  rw [hfind]
  simp [hmap, hfold, forgetDirective, nullableString_getD]

/-- The name → kind table `GetSchemaDefinition` builds from the listed types. -/
def kindTable (L : List (TypeDef Unit)) : List (String × Kind) :=
  L.map (fun t => (t.name, if isBuiltin t.name then Kind.scalar else t.kind))

theorem describe_types_eq (D V : SchemaDef Unit) :
    (describe D V).types = (sortDefs V.types).map (describeType D V) := by
  unfold describe sortTypes sortDefs
  simp only
  rw [List.map_mergeSort (s := fun (a b : TypeD) => decide (a.name ≤ b.name))]
  intro a _ b _
  rfl

theorem forgetDirective_name (keep : Bool) (D : SchemaDef Unit) (x : DirectiveDef Unit) : (forgetDirective keep D x).name = x.name := rfl

/-- Everything `rebuild (describe D V)` needs, stated about the visible schema. -/
structure RebuildOk (V : SchemaDef Unit) : Prop where
  namesNodup : (V.types.map (·.name)).Nodup
  typesOk : ∀ t ∈ V.types, TypeOk (kindTable (sortDefs V.types)) t
  query : ∃ q, V.query = some q ∧ kindIn (kindTable (sortDefs V.types)) q = some .object
  mutation : ∀ m, V.mutation = some m → kindIn (kindTable (sortDefs V.types)) m = some .object
  subscription : ∀ s, V.subscription = some s → kindIn (kindTable (sortDefs V.types)) s = some .object
  dirsNodup : (V.directives.map (·.name)).Nodup
  dirs : ∀ dd ∈ V.directives, (∀ l ∈ dd.locs, l ∈ knownLocations)
    ∧ (∀ a ∈ dd.args, a.type.ref.depth ≤ typeRefLevels ∧ Listed (kindTable (sortDefs V.types)) a.type.ref.leaf)
    ∧ (dd.args.map (·.name)).Nodup

theorem mem_sortDefs {l : List (TypeDef Unit)} {t : TypeDef Unit} : t ∈ sortDefs l ↔ t ∈ l :=
  (List.mergeSort_perm l _).mem_iff

theorem rebuildRaw_describe (keep : Bool) (D V : SchemaDef Unit) (h : RebuildOk V) :
    rebuildRaw keep (describe D V) = .ok (forgetDefP keep D V) := by
  have htypes := describe_types_eq D V
  have hnd : nodupNames ((describe D V).types.map (·.name)) = true := by
    rw [nodupNames_iff, htypes]
    have hp : ((sortDefs V.types).map (describeType D V)).map (·.name) = (sortDefs V.types).map (·.name) := by
      simp [List.map_map, Function.comp_def, describeType]
    rw [hp]
    have hperm : ((sortDefs V.types).map (·.name)).Perm (V.types.map (·.name)) :=
      (List.mergeSort_perm V.types _).map _
    rw [hperm.nodup_iff]
    exact h.namesNodup
  have htable : mapExcept tableEntry (describe D V).types = .ok (kindTable (sortDefs V.types)) := by
    rw [htypes]
    unfold kindTable
    apply mapExcept_map_ok
    intro t _
    unfold tableEntry
    simp only [describeType_name]
    by_cases hb : isBuiltin t.name = true
    · simp [hb]
    · have : kindOfName (describeType D V t).kind = some t.kind := kindOfName_kindName t.kind
      simp [hb, this]
  have hts : mapExcept (rebuildType keep (kindTable (sortDefs V.types))) (describe D V).types
      = .ok ((sortDefs V.types).map (forgetType keep D)) := by
    rw [htypes]
    exact mapExcept_map_ok (fun t ht => rebuildType_ok keep D V _ t (h.typesOk t (mem_sortDefs.mp ht)))
  have hds : mapExcept (rebuildDirective keep (kindTable (sortDefs V.types))) (describe D V).directives
      = .ok (V.directives.map (forgetDirective keep D)) := by
    show mapExcept _ (V.directives.map (directiveData D)) = _
    exact mapExcept_map_ok (fun dd hdd => rebuildDirective_ok keep D _ dd (h.dirs dd hdd).1 (h.dirs dd hdd).2.1 (h.dirs dd hdd).2.2)
  have hdfold : (V.directives.map (forgetDirective keep D)).foldl (mapInsert (·.name)) [] = V.directives.map (forgetDirective keep D) :=
    foldl_mapInsert_nodup _ _ (by simpa [List.map_map, Function.comp_def, forgetDirective_name] using h.dirsNodup)
  obtain ⟨q, hq, hqk⟩ := h.query
  have hroot : rootOf (kindTable (sortDefs V.types)) "query" q = .ok q := by simp [rootOf, hqk]
  have hmut : optRoot (kindTable (sortDefs V.types)) "mutation" (describe D V).mutationType = .ok V.mutation := by
    show optRoot _ _ V.mutation = _
    cases hm : V.mutation with
    | none => rfl
    | some m => simp [optRoot, rootOf, h.mutation m hm, Except.map]
  have hsub : optRoot (kindTable (sortDefs V.types)) "subcription" (describe D V).subscriptionType = .ok V.subscription := by
    show optRoot _ _ V.subscription = _
    cases hs : V.subscription with
    | none => rfl
    | some s => simp [optRoot, rootOf, h.subscription s hs, Except.map]
  have hqt : (describe D V).queryType = some q := hq
  unfold rebuildRaw
  rw [hnd]
  simp only [Bool.not_true, Bool.false_eq_true, if_false]
  rw [htable]
  simp only
  rw [hqt]
  simp only
  unfold rebuildWith
  rw [hroot, hmut, hsub, hts, hds]
  simp only [hdfold]
  simp [forgetDefP, hq]


theorem pendingDefault_false (x : DefaultD) : pendingDefault false x = none := by
  cases x <;> rfl

theorem forgetIV_false (D D' : SchemaDef Unit) : forgetIV false D = forgetIV false D' := by
  funext a; simp [forgetIV, pendingDefault_false]

theorem forgetIV0_false (D D' : SchemaDef Unit) : forgetIV0 false D = forgetIV0 false D' := by
  funext a; simp [forgetIV0, pendingDefault_false]

theorem forgetField_false (D D' : SchemaDef Unit) : forgetField false D = forgetField false D' := by
  funext f; simp [forgetField, forgetIV_false D D']

theorem forgetType_false (D D' : SchemaDef Unit) : forgetType false D = forgetType false D' := by
  funext t
  simp [forgetType, forgetObject, forgetInterface, forgetInput, forgetField_false D D', forgetIV_false D D']

theorem forgetDirective_false (D D' : SchemaDef Unit) : forgetDirective false D = forgetDirective false D' := by
  funext x; simp [forgetDirective, forgetIV0_false D D']

/-- Without defaults the rebuilt definition does not depend on the printing context. -/
theorem forgetDefP_false (D D' V : SchemaDef Unit) : forgetDefP false D V = forgetDefP false D' V := by
  simp [forgetDefP, forgetType_false D D', forgetDirective_false D D']

theorem rebuild_describe (D V : SchemaDef Unit) (h : RebuildOk V) :
    rebuild (describe D V) = .ok (forgetDef V) := by
  unfold rebuild forgetDef
  rw [rebuildRaw_describe false D V h, forgetDefP_false D V V]

theorem find?_entry_of_nodup {M : List (TypeDef Unit)} (hn : (M.map (·.name)).Nodup) {t : TypeDef Unit} (ht : t ∈ M)
    (entry : TypeDef Unit → String × Kind) (he : ∀ u, (entry u).1 = u.name) :
    (M.map entry).find? (fun p => p.1 == t.name) = some (entry t) := by
  induction M with
  | nil => cases ht
  | cons u us ih =>
    simp only [List.map_cons, List.nodup_cons] at hn
    rcases List.mem_cons.mp ht with rfl | ht
    · simp [he]
    · have hne : u.name ≠ t.name := by
        intro h
        exact hn.1 (h ▸ List.mem_map_of_mem (f := fun (x : TypeDef Unit) => x.name) ht)
      have : ((entry u).1 == t.name) = false := by rw [he]; simpa using hne
      simp [this, ih hn.2 ht]

theorem sortDefs_names_perm (L : List (TypeDef Unit)) : ((sortDefs L).map (·.name)).Perm (L.map (·.name)) :=
  (List.mergeSort_perm L _).map _

theorem kindIn_kindTable {L : List (TypeDef Unit)} (hn : (L.map (·.name)).Nodup) {t : TypeDef Unit} (ht : t ∈ L) :
    kindIn (kindTable (sortDefs L)) t.name = some (if isBuiltin t.name then Kind.scalar else t.kind) := by
  unfold kindIn kindTable
  have hn' : ((sortDefs L).map (·.name)).Nodup := (sortDefs_names_perm L).nodup_iff.mpr hn
  rw [find?_entry_of_nodup hn' (mem_sortDefs.mpr ht) _ (fun _ => rfl)]
  rfl

theorem listed_kindTable {L : List (TypeDef Unit)} {n : String} (h : n ∈ L.map (·.name)) :
    Listed (kindTable (sortDefs L)) n := by
  unfold Listed kindTable
  simp only [List.any_eq_true, List.mem_map, beq_iff_eq]
  obtain ⟨t, ht, rfl⟩ := List.mem_map.mp h
  exact ⟨_, ⟨t, mem_sortDefs.mpr ht, rfl⟩, rfl⟩

/-- Guards of the rebuild round trip that `schema.New` does not establish. -/
structure RebuildGuards (S : Schema) (F : List String) : Prop where
  /-- wrapper chains stay within what the query selects (query.go) -/
  fieldDepth : ∀ t ∈ S.defn.types, ∀ f ∈ t.fields, f.type.ref.depth ≤ typeRefLevels
    ∧ ∀ a ∈ f.args, a.type.ref.depth ≤ typeRefLevels
  inputDepth : ∀ t ∈ S.defn.types, ∀ a ∈ t.inputs, a.type.ref.depth ≤ typeRefLevels
  dirDepth : ∀ dd ∈ S.defn.directives, ∀ a ∈ dd.args, a.type.ref.depth ≤ typeRefLevels
  /-- directive locations are among the eighteen of the specification -/
  locs : ∀ dd ∈ S.defn.directives, ∀ l ∈ dd.locs, l ∈ knownLocations
  /-- the query root type is visible to the request (a mutation / subscription root that is not
      is introspected as absent since fix C13/04) -/
  queryRoot : ∀ q, S.defn.query = some q → subsetOf (S.defn.featuresOf q) F = true

/-- A registered, visible name has its (restricted) definition in the visible schema. -/
theorem visible_entry {S : Schema} (hf : Facts S) {F : List String} {n : String} {tn : TypeDef Unit}
    (hl : S.defn.lookup n = some tn) (hv : visibleName S F n = true) :
    restrict S F tn ∈ (visible S F).types ∧ (restrict S F tn).name = n ∧ (restrict S F tn).kind = tn.kind := by
  obtain ⟨hmem, hname⟩ := lookup_some hl
  refine ⟨?_, hname, rfl⟩
  simp only [visible, List.mem_map, List.mem_filter]
  exact ⟨tn, ⟨hmem, by rw [hname]; exact hv⟩, rfl⟩

theorem kindIn_visible {S : Schema} (hf : Facts S) {F : List String} {n : String} {tn : TypeDef Unit}
    (hl : S.defn.lookup n = some tn) (hv : visibleName S F n = true) (hk : tn.kind ≠ .scalar) :
    kindIn (kindTable (sortDefs (visible S F).types)) n = some tn.kind := by
  obtain ⟨hmem, hname, hkind⟩ := visible_entry hf hl hv
  have := kindIn_kindTable (visible_types_nodup hf F) hmem
  rw [hname, hkind] at this
  rw [this]
  have hnb : isBuiltin n = false := by
    rw [Bool.eq_false_iff]
    intro hb
    obtain ⟨hm, hn⟩ := lookup_some hl
    exact hk (hf.builtinScalar tn hm (by rw [hn]; exact hb))
  simp [hnb]

theorem rebuildOk_visible {S : Schema} (h : Accepted S) {F : List String}
    (hg : RebuildGuards S F) : RebuildOk (visible S F) := by
  have hf := facts_of_accepted h
  have hc := visible_closed' h F
  have hlisted : ∀ n, n ∈ (visible S F).types.map (·.name) → Listed (kindTable (sortDefs (visible S F).types)) n :=
    fun n hn => listed_kindTable hn
  have hrootk : ∀ n ∈ optList S.defn.query ++ optList S.defn.mutation ++ optList S.defn.subscription,
      subsetOf (S.defn.featuresOf n) F = true →
      kindIn (kindTable (sortDefs (visible S F).types)) n = some .object := by
    intro n hn hfe
    obtain ⟨tn, hl, hk⟩ := hf.rootKind n hn
    have hreg : n ∈ S.namedTypes := hf.rootsReg n (by simp only [List.mem_append] at hn ⊢; exact Or.inl hn)
    have := kindIn_visible hf hl (visibleName_of hreg hfe) (by rw [hk]; decide)
    rw [this, hk]
  have hvr : ∀ (o : Option String) (m : String), visibleRoot S.defn F o = some m →
      o = some m ∧ subsetOf (S.defn.featuresOf m) F = true := by
    intro o m h
    cases o with
    | none => simp [visibleRoot] at h
    | some n =>
      simp only [visibleRoot] at h
      split at h
      · rename_i hfe
        simp at h; subst h; exact ⟨rfl, hfe⟩
      · simp at h
  refine ⟨visible_types_nodup hf F, ?_, ?_, ?_, ?_, by rw [visible_directives_names]; exact hf.dirsNodup, ?_⟩
  · intro u hu
    have hu' := hu
    simp only [visible, List.mem_map, List.mem_filter] at hu'
    obtain ⟨t, ⟨ht, hv⟩, rfl⟩ := hu'
    have hreg := reg_of_visibleName hv
    have hcl := hc.1 _ hu
    refine ⟨?_, ?_, ?_, hf.inputsNodup t ht, hf.valuesNodup t ht, ?_, ?_⟩
    · intro f hfm
      have hfm0 : f ∈ t.fields := (List.mem_filter.mp hfm).1
      refine ⟨(hg.fieldDepth t ht f hfm0).1, hlisted _ (hcl _ (mem_refNames_field hfm)), ?_, hf.argsNodup t ht f hfm0⟩
      intro a ha
      exact ⟨(hg.fieldDepth t ht f hfm0).2 a ha, hlisted _ (hcl _ (mem_refNames_arg hfm ha))⟩
    · exact (hf.fieldsNodup t ht).sublist ((List.filter_sublist).map _)
    · intro a ha
      exact ⟨hg.inputDepth t ht a ha, hlisted _ (hcl _ (mem_refNames_input ha))⟩
    · intro i hi
      have hi0 : i ∈ t.ifaces ∧ visibleName S F i = true := by
        simpa [restrict, List.mem_filter] using hi
      obtain ⟨ti, hl, hk⟩ := hf.ifaceKind t ht i hi0.1
      have := kindIn_visible hf hl hi0.2 (by rw [hk]; decide)
      rw [this, hk]
    · intro m hm
      have hm0 : m ∈ t.members := hm
      obtain ⟨tm, hl, hk⟩ := hf.memberKind t ht m hm0
      have hvm : visibleName S F m = true := by
        have hmem := hcl m (mem_refNames_member hm)
        rw [visible_types_names] at hmem
        obtain ⟨tv, htv, hname⟩ := List.mem_map.mp hmem
        have := (List.mem_filter.mp htv).2
        rw [hname] at this
        exact this
      have := kindIn_visible hf hl hvm (by rw [hk]; decide)
      rw [this, hk]
  · have hq := hf.querySome
    cases hqq : S.defn.query with
    | none => simp [hqq] at hq
    | some q =>
      refine ⟨q, hqq, hrootk q ?_ (hg.queryRoot q hqq)⟩
      simp [optList, hqq]
  · intro m hm
    obtain ⟨hm', hfe⟩ := hvr S.defn.mutation m hm
    exact hrootk m (by simp [optList, hm']) hfe
  · intro s hs
    obtain ⟨hs', hfe⟩ := hvr S.defn.subscription s hs
    exact hrootk s (by simp [optList, hs']) hfe
  · intro dd hdd
    obtain ⟨d0, hd0, hdd0⟩ := mem_visible_directives.mp hdd
    subst hdd0
    refine ⟨hg.locs d0 hd0, ?_, (hf.dirArgsNodup d0 hd0).sublist ((List.filter_sublist).map _)⟩
    intro a ha
    exact ⟨hg.dirDepth d0 hd0 a (List.mem_filter.mp ha).1, hlisted _ (hc.2 _ hdd a ha)⟩


end ApiFu.C10
