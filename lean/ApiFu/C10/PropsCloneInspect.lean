/-
  C10, Clone clause — pass 1 of `deepCopySchemaDefinition` over the heap model: the `Inspect`
  traversal that collects the named types to copy, and what it means for sharing.

  `Inspect(def, f)` visits a node, asks the callback, and descends into SOME of the node's pointers
  (inspect.go: e.g. the directives applied to enum and scalar types, but not those applied to
  objects, fields, arguments …). `ins a` stands for the pointers of node `a` that Inspect follows —
  a parameter, so the theorems cover the traversal as it is, the one of seeded change C10-24 (which
  follows fewer) and a repaired one (which follows all). The callback of pass 1 registers a named
  type under its name and stops at a name it already has.

  * `inspect_collects` — every named type that can be reached from the root along pointers Inspect
    follows is registered when the traversal returns.
  * `heap_clone_shares_only_uninspected` — with the table pass 1 built (built-ins left out, as
    `fixTypePointer` does), everything reachable from the clone was allocated by the call, or hangs
    below a built-in singleton, or hangs (in the original heap) below a named type that Inspect
    CANNOT reach from the root: the sharing of finding F-10i is exactly the gap between "reachable by
    pointer" and "reachable by Inspect".
-/
import ApiFu.C10.PropsCloneHeap

namespace ApiFu.C10.CloneHeap

def hasName (acc : List (String × Nat)) (n : String) : Bool := acc.any (fun p => p.1 == n)

/-- `Inspect` with the callback of pass 1, as a depth-first traversal with an explicit stack (the
    order of the recursive Go function); `fuel` bounds the number of visits. -/
def inspect (h : Heap) (ins : Nat → List Nat) : Nat → List Nat → List (String × Nat) → Option (List (String × Nat))
  | 0, _, _ => none
  | _ + 1, [], acc => some acc
  | f + 1, a :: rest, acc =>
    match h a with
    | none => inspect h ins f rest acc
    | some (.named n _ _) =>
      if hasName acc n then inspect h ins f rest acc
      else inspect h ins f (ins a ++ rest) (acc ++ [(n, a)])
    | some (.inner _ _) => inspect h ins f (ins a ++ rest) acc

theorem hasName_append (acc : List (String × Nat)) (n : String) (a : Nat) (m : String) :
    hasName (acc ++ [(n, a)]) m = (hasName acc m || n == m) := by
  simp [hasName, List.any_append]

section Traversal
variable (h : Heap) (ins : Nat → List Nat)

/-- The traversal stops at `a`: a named type whose name is registered. -/
def Blocked (acc : List (String × Nat)) (a : Nat) : Prop :=
  ∃ n l ks, h a = some (.named n l ks) ∧ hasName acc n = true

/-- `x` can be reached from `s` along pointers Inspect follows without passing (before `x`) a node
    at which the traversal stops. -/
inductive RA (acc : List (String × Nat)) : Nat → Nat → Prop
  | refl {x} : RA acc x x
  | step {s k x} : ¬ Blocked h acc s → (∃ m, h s = some m) → k ∈ ins s → RA acc k x → RA acc s x

/-- Every named type at `x` is registered in `L`. -/
def Registered (L : List (String × Nat)) (x : Nat) : Prop :=
  ∀ n l ks, h x = some (.named n l ks) → hasName L n = true

theorem blocked_append {acc : List (String × Nat)} {n : String} {a s : Nat} :
    Blocked h (acc ++ [(n, a)]) s ↔ Blocked h acc s ∨ ∃ l ks, h s = some (.named n l ks) := by
  constructor
  · rintro ⟨m, l, ks, hs, hn⟩
    rw [hasName_append, Bool.or_eq_true] at hn
    cases hn with
    | inl hn => exact .inl ⟨m, l, ks, hs, hn⟩
    | inr hn =>
      have : n = m := by simpa using hn
      subst this
      exact .inr ⟨l, ks, hs⟩
  · rintro (⟨m, l, ks, hs, hn⟩ | ⟨l, ks, hs⟩)
    · exact ⟨m, l, ks, hs, by rw [hasName_append, hn]; rfl⟩
    · exact ⟨n, l, ks, hs, by rw [hasName_append]; simp⟩

/-- A path that avoids `acc` either avoids `acc ++ [(n, a)]` as well, or runs through a node named
    `n`; after the last such node it avoids the longer list. -/
theorem ra_split {acc : List (String × Nat)} (n : String) (a : Nat) {s x : Nat} (hr : RA h ins acc s x) :
    RA h ins (acc ++ [(n, a)]) s x ∨
      ∃ b l ks, h b = some (.named n l ks) ∧ (x = b ∨ ∃ k, k ∈ ins b ∧ RA h ins (acc ++ [(n, a)]) k x) := by
  induction hr with
  | @refl x =>
    exact .inl .refl
  | @step s k x hnb hex hk _ ih =>
    cases ih with
    | inr hb => exact .inr hb
    | inl hra =>
      by_cases hs : ∃ l ks, h s = some (.named n l ks)
      · obtain ⟨l, ks, hs⟩ := hs
        exact .inr ⟨s, l, ks, hs, .inr ⟨k, hk, hra⟩⟩
      · refine .inl (.step ?_ hex hk hra)
        intro hb
        rcases (blocked_append h).mp hb with hb | hb
        · exact hnb hb
        · exact hs hb

theorem inspect_spec (hu : NamesUnique h) :
    ∀ fuel stack acc L, inspect h ins fuel stack acc = some L →
      (∀ m, hasName acc m = true → hasName L m = true) ∧
      (∀ s ∈ stack, ∀ x, RA h ins acc s x → Registered h L x) := by
  intro fuel
  induction fuel with
  | zero => intro stack acc L he; simp [inspect] at he
  | succ f ih =>
    intro stack acc L he
    cases stack with
    | nil =>
      simp only [inspect, Option.some.injEq] at he
      subst he
      exact ⟨fun _ hm => hm, fun s hs => by cases hs⟩
    | cons a rest =>
      simp only [inspect] at he
      cases ha : h a with
      | none =>
        simp only [ha] at he
        obtain ⟨hsub, hreg⟩ := ih rest acc L he
        refine ⟨hsub, ?_⟩
        intro s hs x hr
        cases hs with
        | tail _ hs => exact hreg s hs x hr
        | head =>
          cases hr with
          | refl => intro n l ks hx; rw [ha] at hx; cases hx
          | step _ hex _ _ => obtain ⟨m, hm⟩ := hex; rw [ha] at hm; cases hm
      | some nd =>
        cases nd with
        | inner l ks =>
          simp only [ha] at he
          obtain ⟨hsub, hreg⟩ := ih (ins a ++ rest) acc L he
          refine ⟨hsub, ?_⟩
          intro s hs x hr
          cases hs with
          | tail _ hs => exact hreg s (List.mem_append_right _ hs) x hr
          | head =>
            cases hr with
            | refl => intro n l' ks' hx; rw [ha] at hx; cases hx
            | step _ _ hk hr' => exact hreg _ (List.mem_append_left _ hk) x hr'
        | named n l ks =>
          simp only [ha] at he
          by_cases hn : hasName acc n = true
          · simp only [hn, if_true] at he
            obtain ⟨hsub, hreg⟩ := ih rest acc L he
            refine ⟨hsub, ?_⟩
            intro s hs x hr
            cases hs with
            | tail _ hs => exact hreg s hs x hr
            | head =>
              cases hr with
              | refl =>
                intro n' l' ks' hx
                rw [ha] at hx
                simp only [Option.some.injEq, Node.named.injEq] at hx
                obtain ⟨rfl, _, _⟩ := hx
                exact hsub _ hn
              | step hnb _ _ _ => exact absurd ⟨n, l, ks, ha, hn⟩ hnb
          · simp only [hn] at he
            obtain ⟨hsub, hreg⟩ := ih (ins a ++ rest) (acc ++ [(n, a)]) L he
            have hnL : hasName L n = true := hsub n (by rw [hasName_append]; simp)
            have hregA : Registered h L a := by
              intro n' l' ks' hx
              rw [ha] at hx
              simp only [Option.some.injEq, Node.named.injEq] at hx
              obtain ⟨rfl, _, _⟩ := hx
              exact hnL
            refine ⟨fun m hm => hsub m (by rw [hasName_append, hm]; rfl), ?_⟩
            intro s hs x hr
            rcases ra_split h ins n a hr with hr' | ⟨b, lb, kb, hb, hx⟩
            · cases hs with
              | tail _ hs => exact hreg s (List.mem_append_right _ hs) x hr'
              | head =>
                cases hr' with
                | refl => exact hregA
                | step hnb _ _ _ =>
                  exact absurd ((blocked_append h).mpr (.inr ⟨l, ks, ha⟩)) hnb
            · have hba : b = a := hu b a n lb kb l ks hb ha
              subst hba
              rcases hx with rfl | ⟨k, hk, hrk⟩
              · exact hregA
              · exact hreg k (List.mem_append_left _ hk) x hrk

end Traversal

/-- `x` can be reached from `r` along pointers Inspect follows (through nodes that exist). -/
def InsReach (h : Heap) (ins : Nat → List Nat) (r x : Nat) : Prop := RA h ins [] r x

/-- **Pass 1 collects every named type Inspect can reach**: when the traversal from the root
    returns `L`, every named type reachable from the root along pointers Inspect follows is
    registered in `L` under its name. -/
theorem inspect_collects {h : Heap} {ins : Nat → List Nat} (hu : NamesUnique h) {fuel root : Nat}
    {L : List (String × Nat)} (he : inspect h ins fuel [root] [] = some L) :
    ∀ x, InsReach h ins root x → ∀ n l ks, h x = some (.named n l ks) → hasName L n = true :=
  fun x hx => (inspect_spec h ins hu fuel [root] [] L he).2 root (List.mem_singleton.mpr rfl) x hx

/-- The table without the built-in scalars (`fixTypePointer` tests `BuiltInTypes` first). -/
def withoutBuiltins (L : List (String × Nat)) : List (String × Nat) :=
  L.filter (fun p => !builtinNames.contains p.1)

theorem tblOf_none_iff (L : List (String × Nat)) : ∀ (b : Nat) (n : String), tblOf L b n = none ↔ hasName L n = false := by
  induction L with
  | nil => intro b n; simp [tblOf, hasName]
  | cons p rest ih =>
    intro b n
    obtain ⟨m, a⟩ := p
    simp only [tblOf, hasName, List.any_cons]
    by_cases hmn : m = n
    · simp [hmn]
    · have : (m == n) = false := by simpa using hmn
      simp only [hmn, if_false, this, Bool.false_or]
      exact ih (b + 1) n

theorem hasName_filter (B : String → Bool) (L : List (String × Nat)) (n : String) :
    hasName (L.filter (fun p => !B p.1)) n = (hasName L n && !B n) := by
  induction L with
  | nil => simp [hasName]
  | cons p rest ih =>
    obtain ⟨m, a⟩ := p
    simp only [hasName] at ih ⊢
    cases hb : B m with
    | true =>
      simp only [List.filter_cons, hb, Bool.not_true, Bool.false_eq_true, if_false, List.any_cons, ih]
      by_cases hmn : m = n
      · subst hmn; simp [hb]
      · have : (m == n) = false := by simpa using hmn
        simp [this]
    | false =>
      simp only [List.filter_cons, hb, Bool.not_false, if_true, List.any_cons, ih]
      by_cases hmn : m = n
      · subst hmn; simp [hb]
      · have : (m == n) = false := by simpa using hmn
        simp [this]

theorem hasName_withoutBuiltins (L : List (String × Nat)) (n : String) :
    hasName (withoutBuiltins L) n = (hasName L n && !builtinNames.contains n) :=
  hasName_filter (fun m => builtinNames.contains m) L n

/-- **The clone shares exactly what Inspect cannot reach** (and the built-in singletons): let `L`
    be what pass 1 collects from the root with an Inspect that follows the pointers `ins`, and let
    the clone be built with that table. Then every address reachable from the clone either was
    allocated by the call, or is reachable in the original heap from a built-in scalar singleton, or
    is reachable in the original heap from a named type that Inspect does NOT reach from the root.
    With the traversal of inspect.go the third case is finding F-10i; with a traversal that follows
    every pointer of every node it is empty for every type reachable from the root. -/
theorem heap_clone_shares_only_uninspected {h : Heap} {ins : Nat → List Nat} {fuel fuel' root base r' : Nat}
    {L : List (String × Nat)} {H : Heap}
    (ok : HeapOK h (withoutBuiltins L) base) (hu : NamesUnique h)
    (hp1 : inspect h ins fuel' [root] [] = some L)
    (he : clone fuel h (withoutBuiltins L) root base = some (r', H)) :
    ∀ x, Reach H r' x → h x = none ∨
      ∃ e n l ks, h e = some (.named n l ks) ∧ (n ∈ builtinNames ∨ ¬ InsReach h ins root e) ∧ Reach h e x := by
  intro x hr
  rcases heap_clone_disjoint ok he x hr with hb | ⟨e, ⟨n, l, ks, hn, ht⟩, hre⟩
  · exact .inl hb.2
  · refine .inr ⟨e, n, l, ks, hn, ?_, hre⟩
    have hnone := (tblOf_none_iff (withoutBuiltins L) base n).mp ht
    rw [hasName_withoutBuiltins] at hnone
    cases hbi : builtinNames.contains n with
    | true => exact .inl (List.contains_iff_mem.mp hbi)
    | false =>
      right
      intro hreach
      have := inspect_collects hu hp1 e hreach n l ks hn
      rw [this, hbi] at hnone
      cases hnone

/-- Non-vacuity on the example heap of PropsCloneHeap.lean: an Inspect that follows every pointer
    collects `Query`, `E` and the built-in `String`; one that does not follow the pointer from the
    field `e` (11) and from the non-null wrapper (9) to the enum misses `E`. -/
example : (inspect exHeap (fun a => ((exHeap a).map Node.kids).getD []) 40 [0] []).map (·.map (·.1))
    = some ["E", "Query", "String"] := by decide +kernel
example : (inspect exHeap (fun a => if a = 11 ∨ a = 9 then [] else ((exHeap a).map Node.kids).getD []) 40 [0] []).map (·.map (·.1))
    = some ["Query", "String"] := by decide +kernel

end ApiFu.C10.CloneHeap
