/-
  C10 — a small specification of GraphQL (June 2018) *literal* syntax and of literal coercion,
  written for `default_roundtrip`: the parse/coerce side of "each printed default value is a valid
  GraphQL literal that coerces back to the configured default".

  This is a specification written from the grammar (§2.9 Input Values, §2.1.7 Ignored Tokens,
  String Value semantics), not a transliteration of graphql/scanner + graphql/parser: the harness
  discharges the same round trip against the real `parser.ParseValue` + `schema.CoerceLiteral` on
  every printed default. Covered: null, Int, String (quoted form, all escapes), Boolean, enum
  values, lists, input objects. Not covered (the parser answers `none`): Float literals, block
  strings, variables, comments.  Core Lean only.
-/
import ApiFu.C10.Model

namespace ApiFu.C10

/-- Parsed literals. -/
inductive Lit where
  | null
  | int (i : Int)
  | str (cs : List Char)
  | bool (b : Bool)
  | enum (name : List Char)
  | list (xs : List Lit)
  | obj (fs : List (List Char × Lit))
  deriving Repr, Inhabited

/-! ### Lexical grammar -/

def isDigit (c : Char) : Bool := 48 ≤ c.toNat && c.toNat ≤ 57

def isLetter (c : Char) : Bool :=
  (65 ≤ c.toNat && c.toNat ≤ 90) || (97 ≤ c.toNat && c.toNat ≤ 122)

/-- `NameStart`: letter or `_`. -/
def isNameStart (c : Char) : Bool := isLetter c || c.toNat = 95

/-- `NameContinue`: letter, digit or `_`. -/
def isNameCont (c : Char) : Bool := isNameStart c || isDigit c

/-- Ignored tokens that can occur in the printed form: white space, line terminators, commas and
    the byte order mark (comments are not handled: `#` is a syntax error here). -/
def isIgnored (c : Char) : Bool :=
  c.toNat = 32 || c.toNat = 9 || c.toNat = 10 || c.toNat = 13 || c.toNat = 44 || c.toNat = 0xFEFF

def skipIgnored : List Char → List Char
  | [] => []
  | c :: cs => if isIgnored c then skipIgnored cs else c :: cs

/-- `SourceCharacter :: /[\u0009\u000A\u000D -￿]/`. -/
def isSourceChar (c : Char) : Bool :=
  c.toNat = 9 || c.toNat = 10 || c.toNat = 13 || (32 ≤ c.toNat && c.toNat ≤ 0xFFFF)

def hexVal (c : Char) : Option Nat :=
  if 48 ≤ c.toNat && c.toNat ≤ 57 then some (c.toNat - 48)
  else if 97 ≤ c.toNat && c.toNat ≤ 102 then some (c.toNat - 87)
  else if 65 ≤ c.toNat && c.toNat ≤ 70 then some (c.toNat - 55)
  else none

/-- The body of a quoted `StringValue` after the opening quote: returns the *semantic* value (the
    escapes decoded) and the rest after the closing quote. `acc` holds the decoded characters in
    reverse. -/
def lexString : List Char → List Char → Option (List Char × List Char)
  | [], _ => none
  | c :: rest, acc =>
    if c.toNat = 34 then some (acc.reverse, rest)                        -- closing quote
    else if c.toNat = 92 then                                            -- backslash
      match rest with
      | [] => none
      | e :: rest' =>
        if e.toNat = 117 then                                            -- \uXXXX
          match rest' with
          | a :: b :: c' :: d :: rest'' =>
            match hexVal a, hexVal b, hexVal c', hexVal d with
            | some x, some y, some z, some w =>
              lexString rest'' (Char.ofNat (((x * 16 + y) * 16 + z) * 16 + w) :: acc)
            | _, _, _, _ => none
          | _ => none
        else if e.toNat = 34 then lexString rest' ('\x22' :: acc)
        else if e.toNat = 92 then lexString rest' ('\\' :: acc)
        else if e.toNat = 47 then lexString rest' ('/' :: acc)
        else if e.toNat = 98 then lexString rest' (Char.ofNat 8 :: acc)
        else if e.toNat = 102 then lexString rest' (Char.ofNat 12 :: acc)
        else if e.toNat = 110 then lexString rest' ('\n' :: acc)
        else if e.toNat = 114 then lexString rest' ('\r' :: acc)
        else if e.toNat = 116 then lexString rest' ('\t' :: acc)
        else none
    else if c.toNat = 10 || c.toNat = 13 || !isSourceChar c then none   -- line terminator / not a SourceCharacter
    else lexString rest (c :: acc)

/-- A maximal run of `NameContinue` characters. -/
def spanName : List Char → List Char × List Char
  | [] => ([], [])
  | c :: cs => if isNameCont c then let (n, r) := spanName cs; (c :: n, r) else ([], c :: cs)

/-- `Name :: /[_A-Za-z][_0-9A-Za-z]*/`. -/
def validName (n : List Char) : Bool :=
  match n with
  | [] => false
  | c :: cs => isNameStart c && cs.all isNameCont

/-- A maximal run of digits. -/
def spanDigits : List Char → List Char × List Char
  | [] => ([], [])
  | c :: cs => if isDigit c then let (n, r) := spanDigits cs; (c :: n, r) else ([], c :: cs)

def digitsVal (ds : List Char) : Nat := ds.foldl (fun acc c => acc * 10 + (c.toNat - 48)) 0

/-- `IntValue :: -?(0|[1-9][0-9]*)`, not followed by `.`, `e`, `E` (that would be a Float, which
    this parser does not cover) nor by a digit or NameStart. `neg`: a minus sign was consumed. -/
def lexInt (neg : Bool) (cs : List Char) : Option (Int × List Char) :=
  match spanDigits cs with
  | ([], _) => none
  | (d :: ds, rest) =>
    if d.toNat = 48 && !ds.isEmpty then none                             -- leading zero
    else match rest with
      | c :: _ =>
        if c.toNat = 46 || isNameStart c then none
        else some (if neg then - (Int.ofNat (digitsVal (d :: ds))) else Int.ofNat (digitsVal (d :: ds)), rest)
      | [] => some (if neg then - (Int.ofNat (digitsVal (d :: ds))) else Int.ofNat (digitsVal (d :: ds)), rest)

/-! ### Values (§2.9), with explicit fuel -/

mutual
  def parseLit : Nat → List Char → Option (Lit × List Char)
    | 0, _ => none
    | fuel + 1, cs =>
      match skipIgnored cs with
      | [] => none
      | c :: rest =>
        if c.toNat = 91 then parseItems fuel rest []                      -- [
        else if c.toNat = 123 then parseFields fuel rest []               -- {
        else if c.toNat = 34 then                                         -- "
          match rest with
          | q1 :: q2 :: _ =>
            if q1.toNat = 34 && q2.toNat = 34 then none                   -- block string: not covered
            else (lexString rest []).map (fun (s, r) => (Lit.str s, r))
          | _ => (lexString rest []).map (fun (s, r) => (Lit.str s, r))
        else if c.toNat = 45 then (lexInt true rest).map (fun (i, r) => (Lit.int i, r))     -- -
        else if isDigit c then (lexInt false (c :: rest)).map (fun (i, r) => (Lit.int i, r))
        else if isNameStart c then
          let (n, r) := spanName (c :: rest)
          if n = "true".toList then some (Lit.bool true, r)
          else if n = "false".toList then some (Lit.bool false, r)
          else if n = "null".toList then some (Lit.null, r)
          else some (Lit.enum n, r)
        else none
  /-- After `[`: values until `]`. -/
  def parseItems : Nat → List Char → List Lit → Option (Lit × List Char)
    | 0, _, _ => none
    | fuel + 1, cs, acc =>
      match skipIgnored cs with
      | [] => none
      | c :: rest =>
        if c.toNat = 93 then some (Lit.list acc.reverse, rest)            -- ]
        else match parseLit fuel (c :: rest) with
          | some (x, r) => parseItems fuel r (x :: acc)
          | none => none
  /-- After `{`: `Name : Value` until `}`. -/
  def parseFields : Nat → List Char → List (List Char × Lit) → Option (Lit × List Char)
    | 0, _, _ => none
    | fuel + 1, cs, acc =>
      match skipIgnored cs with
      | [] => none
      | c :: rest =>
        if c.toNat = 125 then some (Lit.obj acc.reverse, rest)            -- }
        else if isNameStart c then
          let (n, r) := spanName (c :: rest)
          match skipIgnored r with
          | colon :: r' =>
            if colon.toNat = 58 then
              match parseLit fuel r' with
              | some (x, r'') => parseFields fuel r'' ((n, x) :: acc)
              | none => none
            else none
          | [] => none
        else none
end

/-- Parse a whole text as one literal (nothing but ignored characters may follow). -/
def parseLiteral (s : String) : Option Lit :=
  match parseLit (s.length + 2) s.toList with
  | some (x, rest) => if skipIgnored rest = [] then some x else none
  | none => none

end ApiFu.C10

namespace ApiFu.C10

/-! ### The literal a value denotes; the value classes `default_roundtrip` covers -/

mutual
  /-- The literal that denotes a value (enum values by name, input objects field by field). -/
  def litOf : Value → Lit
    | .null => .null
    | .int i => .int i
    | .float _ => .null          -- floats are outside the covered classes
    | .str s => .str s.toList
    | .bool b => .bool b
    | .enum n => .enum n.toList
    | .list vs => .list (litOfList vs)
    | .obj fs => .obj (litOfFields fs)
  def litOfList : List Value → List Lit
    | [] => []
    | v :: vs => litOf v :: litOfList vs
  def litOfFields : List (String × Value) → List (List Char × Lit)
    | [] => []
    | (k, v) :: fs => (k.toList, litOf v) :: litOfFields fs
end

mutual
  /-- The value classes covered: everything except floats (whose text is a parameter of the model),
      strings within the Basic Multilingual Plane (Lean's `Char` has no surrogates). -/
  def covered : Value → Bool
    | .float _ => false
    | .str s => s.toList.all (fun c => c.toNat ≤ 0xFFFF)
    | .list vs => coveredList vs
    | .obj fs => coveredFields fs
    | _ => true
  def coveredList : List Value → Bool
    | [] => true
    | v :: vs => covered v && coveredList vs
  def coveredFields : List (String × Value) → Bool
    | [] => true
    | (_, v) :: fs => covered v && coveredFields fs
end

mutual
  /-- Fuel `parseLit` needs for the printed form of a value. -/
  def need : Value → Nat
    | .list vs => needList vs + 1
    | .obj fs => needFields fs + 1
    | _ => 1
  def needList : List Value → Nat
    | [] => 1
    | v :: vs => max (need v) (needList vs) + 1
  def needFields : List (String × Value) → Nat
    | [] => 1
    | (_, v) :: fs => max (need v) (needFields fs) + 1
end

/-- Enum value names and input field names are GraphQL names, and no enum value is called `true`,
    `false` or `null` (enum_type.go / input_object_type.go `shallowValidate`). -/
def namesOk {ι : Type} (d : SchemaDef ι) : Bool :=
  d.types.all (fun t =>
    t.values.all (fun v => validName v.name.toList && v.name != "true" && v.name != "false" && v.name != "null")
    && t.inputs.all (fun a => validName a.name.toList))

end ApiFu.C10

namespace ApiFu.C10

/-! ### Literal coercion (§3 input coercion rules as implemented by `schema.CoerceLiteral`)

  A specification of `schema.CoerceLiteral` (schema.go, list_type.go, input_object_type.go,
  enum_type.go, builtins.go) on literals without variables, for the built-in scalars other than
  Float. `none` = the literal does not coerce **or** the case is not covered: custom scalars (their
  `LiteralCoercion` is an application callback), Float, and item-to-list coercion of a non-list
  literal (printed lists are always bracketed). The result of an input object lists the provided
  fields in literal order followed by the defaults of the omitted fields in declaration order (the
  Go result is a map). `InputCoercion` callbacks are not represented. -/

def isNonNull : TRef → Bool
  | .nonNull _ => true
  | _ => false

def int32 (i : Int) : Bool := decide (-2147483648 ≤ i) && decide (i ≤ 2147483647)
def int64 (i : Int) : Bool := decide (-9223372036854775808 ≤ i) && decide (i ≤ 9223372036854775807)

mutual
  def coerceLit {ι : Type} (d : SchemaDef ι) (t : TRef) : Lit → Option Value
    | .null => if isNonNull t then none else some .null
    | .int i =>
      match stripNonNull t with
      | .named n =>
        if n = "Int" then (if int32 i then some (.int i) else none)
        else if n = "ID" then (if int64 i then some (.int i) else none)
        else none
      | _ => none
    | .str cs =>
      match stripNonNull t with
      | .named n => if n = "String" ∨ n = "ID" then some (.str (String.ofList cs)) else none
      | _ => none
    | .bool b =>
      match stripNonNull t with
      | .named n => if n = "Boolean" then some (.bool b) else none
      | _ => none
    | .enum name =>
      match stripNonNull t with
      | .named n =>
        match d.lookup n with
        | some td =>
          if td.kind == .enum && td.values.any (fun v => v.name == String.ofList name)
          then some (.enum (String.ofList name)) else none
        | none => none
      | _ => none
    | .list xs =>
      match stripNonNull t with
      | .list item => (coerceItems d item xs).map .list
      | _ => none
    | .obj fs =>
      match stripNonNull t with
      | .named n =>
        match d.lookup n with
        | some td =>
          if td.kind == .inputObject && nodupNames (fs.map (fun f => String.ofList f.1)) then
            match coerceFields d td.inputs fs with
            | some given =>
              -- omitted fields: default if there is one, an error if the field is non-null
              if td.inputs.all (fun a => given.any (fun g => g.1 == a.name) || a.default.isSome || !isNonNull a.type.ref) then
                some (.obj (given ++ (td.inputs.filter (fun a => !given.any (fun g => g.1 == a.name))).filterMap
                  (fun a => a.default.map (fun v => (a.name, v)))))
              else none
            | none => none
          else none
        | none => none
      | _ => none
  def coerceItems {ι : Type} (d : SchemaDef ι) (item : TRef) : List Lit → Option (List Value)
    | [] => some []
    | x :: xs =>
      match coerceLit d item x, coerceItems d item xs with
      | some v, some vs => some (v :: vs)
      | _, _ => none
  def coerceFields {ι : Type} (d : SchemaDef ι) (inputs : List (InputValueDef ι)) :
      List (List Char × Lit) → Option (List (String × Value))
    | [] => some []
    | (k, x) :: fs =>
      match inputs.find? (fun a => a.name == String.ofList k) with
      | none => none                                    -- unknown field
      | some a =>
        match coerceLit d a.type.ref x, coerceFields d inputs fs with
        | some v, some vs => some ((String.ofList k, v) :: vs)
        | _, _ => none
end

/-! ### Coercion normal form: the values `CoerceLiteral` can produce -/

mutual
  /-- `nf d t v`: `v` is a value of type `t` in the form literal coercion produces (within the
      covered classes): ints in range, enum values of the enum, lists element-wise, input objects
      with distinct declared fields, every field that has a default or is non-null present. -/
  def nf {ι : Type} (d : SchemaDef ι) (t : TRef) : Value → Bool
    | .null => !isNonNull t
    | .int i =>
      match stripNonNull t with
      | .named n => (n == "Int" && int32 i) || (n == "ID" && int64 i)
      | _ => false
    | .float _ => false
    | .str _ =>
      match stripNonNull t with
      | .named n => n == "String" || n == "ID"
      | _ => false
    | .bool _ =>
      match stripNonNull t with
      | .named n => n == "Boolean"
      | _ => false
    | .enum name =>
      match stripNonNull t with
      | .named n =>
        match d.lookup n with
        | some td => td.kind == .enum && td.values.any (fun v => v.name == name)
        | none => false
      | _ => false
    | .list vs =>
      match stripNonNull t with
      | .list item => nfList d item vs
      | _ => false
    | .obj fs =>
      match stripNonNull t with
      | .named n =>
        match d.lookup n with
        | some td =>
          td.kind == .inputObject && nodupNames (fs.map (·.1)) && nfFields d td.inputs fs
          && td.inputs.all (fun a => fs.any (fun g => g.1 == a.name) || (a.default.isNone && !isNonNull a.type.ref))
        | none => false
      | _ => false
  def nfList {ι : Type} (d : SchemaDef ι) (item : TRef) : List Value → Bool
    | [] => true
    | v :: vs => nf d item v && nfList d item vs
  def nfFields {ι : Type} (d : SchemaDef ι) (inputs : List (InputValueDef ι)) : List (String × Value) → Bool
    | [] => true
    | (k, v) :: fs =>
      (match inputs.find? (fun a => a.name == k) with
       | some a => nf d a.type.ref v
       | none => false) && nfFields d inputs fs
end

end ApiFu.C10
