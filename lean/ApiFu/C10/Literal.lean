/-
  C10 — a small specification of GraphQL (June 2018) *literal* syntax and of literal coercion,
  written for `default_roundtrip`: the parse/coerce side of "each printed default value is a valid
  GraphQL literal that coerces back to the configured default".

  This is a specification written from the grammar (§2.9 Input Values, §2.1.7 Ignored Tokens,
  String Value semantics), not a transliteration of graphql/scanner + graphql/parser: the harness
  discharges the same round trip against the real `parser.ParseValue` + `schema.CoerceLiteral` on
  every printed default. Covered: null, Int, String (quoted form, all escapes), Boolean, enum
  values, lists, input objects. Not covered (the parser answers `none`): Float literals, block
  strings, variables, comments.  Core Lean only.
-/
import ApiFu.C10.Model

namespace ApiFu.C10

/-- Parsed literals. -/
inductive Lit where
  | null
  | int (i : Int)
  | str (cs : List Char)
  | bool (b : Bool)
  | enum (name : List Char)
  | list (xs : List Lit)
  | obj (fs : List (List Char × Lit))
  deriving Repr, Inhabited

/-! ### Lexical grammar -/

def isDigit (c : Char) : Bool := 48 ≤ c.toNat && c.toNat ≤ 57

def isLetter (c : Char) : Bool :=
  (65 ≤ c.toNat && c.toNat ≤ 90) || (97 ≤ c.toNat && c.toNat ≤ 122)

/-- `NameStart`: letter or `_`. -/
def isNameStart (c : Char) : Bool := isLetter c || c.toNat = 95

/-- `NameContinue`: letter, digit or `_`. -/
def isNameCont (c : Char) : Bool := isNameStart c || isDigit c

/-- Ignored tokens that can occur in the printed form: white space, line terminators, commas and
    the byte order mark (comments are not handled: `#` is a syntax error here). -/
def isIgnored (c : Char) : Bool :=
  c.toNat = 32 || c.toNat = 9 || c.toNat = 10 || c.toNat = 13 || c.toNat = 44 || c.toNat = 0xFEFF

def skipIgnored : List Char → List Char
  | [] => []
  | c :: cs => if isIgnored c then skipIgnored cs else c :: cs

/-- `SourceCharacter :: /[\u0009\u000A\u000D -￿]/`. -/
def isSourceChar (c : Char) : Bool :=
  c.toNat = 9 || c.toNat = 10 || c.toNat = 13 || (32 ≤ c.toNat && c.toNat ≤ 0xFFFF)

def hexVal (c : Char) : Option Nat :=
  if 48 ≤ c.toNat && c.toNat ≤ 57 then some (c.toNat - 48)
  else if 97 ≤ c.toNat && c.toNat ≤ 102 then some (c.toNat - 87)
  else if 65 ≤ c.toNat && c.toNat ≤ 70 then some (c.toNat - 55)
  else none

/-- The body of a quoted `StringValue` after the opening quote: returns the *semantic* value (the
    escapes decoded) and the rest after the closing quote. `acc` holds the decoded characters in
    reverse. -/
def lexString : List Char → List Char → Option (List Char × List Char)
  | [], _ => none
  | c :: rest, acc =>
    if c.toNat = 34 then some (acc.reverse, rest)                        -- closing quote
    else if c.toNat = 92 then                                            -- backslash
      match rest with
      | [] => none
      | e :: rest' =>
        if e.toNat = 117 then                                            -- \uXXXX
          match rest' with
          | a :: b :: c' :: d :: rest'' =>
            match hexVal a, hexVal b, hexVal c', hexVal d with
            | some x, some y, some z, some w =>
              lexString rest'' (Char.ofNat (((x * 16 + y) * 16 + z) * 16 + w) :: acc)
            | _, _, _, _ => none
          | _ => none
        else if e.toNat = 34 then lexString rest' ('"' :: acc)
        else if e.toNat = 92 then lexString rest' ('\\' :: acc)
        else if e.toNat = 47 then lexString rest' ('/' :: acc)
        else if e.toNat = 98 then lexString rest' (Char.ofNat 8 :: acc)
        else if e.toNat = 102 then lexString rest' (Char.ofNat 12 :: acc)
        else if e.toNat = 110 then lexString rest' ('\n' :: acc)
        else if e.toNat = 114 then lexString rest' ('\r' :: acc)
        else if e.toNat = 116 then lexString rest' ('\t' :: acc)
        else none
    else if c.toNat = 10 || c.toNat = 13 || !isSourceChar c then none   -- line terminator / not a SourceCharacter
    else lexString rest (c :: acc)

/-- A maximal run of `NameContinue` characters. -/
def spanName : List Char → List Char × List Char
  | [] => ([], [])
  | c :: cs => if isNameCont c then let (n, r) := spanName cs; (c :: n, r) else ([], c :: cs)

/-- `Name :: /[_A-Za-z][_0-9A-Za-z]*/`. -/
def validName (n : List Char) : Bool :=
  match n with
  | [] => false
  | c :: cs => isNameStart c && cs.all isNameCont

/-- A maximal run of digits. -/
def spanDigits : List Char → List Char × List Char
  | [] => ([], [])
  | c :: cs => if isDigit c then let (n, r) := spanDigits cs; (c :: n, r) else ([], c :: cs)

def digitsVal (ds : List Char) : Nat := ds.foldl (fun acc c => acc * 10 + (c.toNat - 48)) 0

/-- `IntValue :: -?(0|[1-9][0-9]*)`, not followed by `.`, `e`, `E` (that would be a Float, which
    this parser does not cover) nor by a digit or NameStart. `neg`: a minus sign was consumed. -/
def lexInt (neg : Bool) (cs : List Char) : Option (Int × List Char) :=
  match spanDigits cs with
  | ([], _) => none
  | (d :: ds, rest) =>
    if d.toNat = 48 && !ds.isEmpty then none                             -- leading zero
    else match rest with
      | c :: _ =>
        if c.toNat = 46 || isNameStart c then none
        else some (if neg then - (Int.ofNat (digitsVal (d :: ds))) else Int.ofNat (digitsVal (d :: ds)), rest)
      | [] => some (if neg then - (Int.ofNat (digitsVal (d :: ds))) else Int.ofNat (digitsVal (d :: ds)), rest)

/-! ### Values (§2.9), with explicit fuel -/

mutual
  def parseLit : Nat → List Char → Option (Lit × List Char)
    | 0, _ => none
    | fuel + 1, cs =>
      match skipIgnored cs with
      | [] => none
      | c :: rest =>
        if c.toNat = 91 then parseItems fuel rest []                      -- [
        else if c.toNat = 123 then parseFields fuel rest []               -- {
        else if c.toNat = 34 then                                         -- "
          match rest with
          | q1 :: q2 :: _ =>
            if q1.toNat = 34 && q2.toNat = 34 then none                   -- block string: not covered
            else (lexString rest []).map (fun (s, r) => (Lit.str s, r))
          | _ => (lexString rest []).map (fun (s, r) => (Lit.str s, r))
        else if c.toNat = 45 then (lexInt true rest).map (fun (i, r) => (Lit.int i, r))     -- -
        else if isDigit c then (lexInt false (c :: rest)).map (fun (i, r) => (Lit.int i, r))
        else if isNameStart c then
          let (n, r) := spanName (c :: rest)
          if n = "true".toList then some (Lit.bool true, r)
          else if n = "false".toList then some (Lit.bool false, r)
          else if n = "null".toList then some (Lit.null, r)
          else some (Lit.enum n, r)
        else none
  /-- After `[`: values until `]`. -/
  def parseItems : Nat → List Char → List Lit → Option (Lit × List Char)
    | 0, _, _ => none
    | fuel + 1, cs, acc =>
      match skipIgnored cs with
      | [] => none
      | c :: rest =>
        if c.toNat = 93 then some (Lit.list acc.reverse, rest)            -- ]
        else match parseLit fuel (c :: rest) with
          | some (x, r) => parseItems fuel r (x :: acc)
          | none => none
  /-- After `{`: `Name : Value` until `}`. -/
  def parseFields : Nat → List Char → List (List Char × Lit) → Option (Lit × List Char)
    | 0, _, _ => none
    | fuel + 1, cs, acc =>
      match skipIgnored cs with
      | [] => none
      | c :: rest =>
        if c.toNat = 125 then some (Lit.obj acc.reverse, rest)            -- }
        else if isNameStart c then
          let (n, r) := spanName (c :: rest)
          match skipIgnored r with
          | colon :: r' =>
            if colon.toNat = 58 then
              match parseLit fuel r' with
              | some (x, r'') => parseFields fuel r'' ((n, x) :: acc)
              | none => none
            else none
          | [] => none
        else none
end

/-- Parse a whole text as one literal (nothing but ignored characters may follow). -/
def parseLiteral (s : String) : Option Lit :=
  match parseLit (s.length + 2) s.toList with
  | some (x, rest) => if skipIgnored rest = [] then some x else none
  | none => none

end ApiFu.C10

namespace ApiFu.C10

/-! ### The literal a value denotes; the value classes `default_roundtrip` covers -/

mutual
  /-- The literal that denotes a value (enum values by name, input objects field by field). -/
  def litOf : Value → Lit
    | .null => .null
    | .int i => .int i
    | .float _ => .null          -- floats are outside the covered classes
    | .str s => .str s.toList
    | .bool b => .bool b
    | .enum n => .enum n.toList
    | .list vs => .list (litOfList vs)
    | .obj fs => .obj (litOfFields fs)
  def litOfList : List Value → List Lit
    | [] => []
    | v :: vs => litOf v :: litOfList vs
  def litOfFields : List (String × Value) → List (List Char × Lit)
    | [] => []
    | (k, v) :: fs => (k.toList, litOf v) :: litOfFields fs
end

mutual
  /-- The value classes covered: everything except floats (whose text is a parameter of the model),
      strings within the Basic Multilingual Plane (Lean's `Char` has no surrogates). -/
  def covered : Value → Bool
    | .float _ => false
    | .str s => s.toList.all (fun c => c.toNat ≤ 0xFFFF)
    | .list vs => coveredList vs
    | .obj fs => coveredFields fs
    | _ => true
  def coveredList : List Value → Bool
    | [] => true
    | v :: vs => covered v && coveredList vs
  def coveredFields : List (String × Value) → Bool
    | [] => true
    | (_, v) :: fs => covered v && coveredFields fs
end

mutual
  /-- Fuel `parseLit` needs for the printed form of a value. -/
  def need : Value → Nat
    | .list vs => needList vs + 1
    | .obj fs => needFields fs + 1
    | _ => 1
  def needList : List Value → Nat
    | [] => 1
    | v :: vs => max (need v) (needList vs) + 1
  def needFields : List (String × Value) → Nat
    | [] => 1
    | (_, v) :: fs => max (need v) (needFields fs) + 1
end

/-- Enum value names and input field names are GraphQL names, and no enum value is called `true`,
    `false` or `null` (enum_type.go / input_object_type.go `shallowValidate`). -/
def namesOk {ι : Type} (d : SchemaDef ι) : Bool :=
  d.types.all (fun t =>
    t.values.all (fun v => validName v.name.toList && v.name != "true" && v.name != "false" && v.name != "null")
    && t.inputs.all (fun a => validName a.name.toList))

end ApiFu.C10
