/-
  C04 — part 4: hypotheses bundle, fuel bounds, and the single-root-subscription rule.
-/
import ApiFu.C04.Merge3

namespace ApiFu.C04
open Spec Model
set_option linter.unusedSimpArgs false
set_option linter.unusedVariables false

/-- What the collection theorems need of a document: well-scoped, distinct positions for distinct
    selection sets, unique fragment names, defined spread targets. -/
structure MergeHyp (S : Schema) (D : Document) : Prop where
  ws : WellScoped S D
  posU : PosUnique S D
  names : Spec.fragmentNamesUnique D = true
  spreads : Spec.spreadsDefined S D = true

mutual
theorem specSizeSel_eq : ∀ (sel : Selection), Spec.sizeSel sel = Model.sizeSel sel
  | .field _ _ _ _ _ none => by simp [Spec.sizeSel, Model.sizeSel]
  | .field _ _ _ _ _ (some ss) => by simp [Spec.sizeSel, Model.sizeSel, specSizeSet_eq ss]
  | .spread .. => by simp [Spec.sizeSel, Model.sizeSel]
  | .inline _ _ ss _ => by simp [Spec.sizeSel, Model.sizeSel, specSizeSet_eq ss]
theorem specSizeSet_eq : ∀ (ss : SelSet), Spec.sizeSet ss = Model.sizeSet ss
  | .mk sels _ => by simp [Spec.sizeSet, Model.sizeSet, specSizeSels_eq sels]
theorem specSizeSels_eq : ∀ (sels : List Selection), Spec.sizeSels sels = Model.sizeSels sels
  | [] => by simp [Spec.sizeSels, Model.sizeSels]
  | s :: rest => by simp [Spec.sizeSels, Model.sizeSels, specSizeSel_eq s, specSizeSels_eq rest]
end

theorem specDocSize_eq (D : Document) : Spec.docSize D = Model.docSize D := by
  unfold Spec.docSize Model.docSize
  congr 1
  apply List.map_congr_left
  intro d _
  cases d <;> simp [specSizeSet_eq, Model.defSel]

theorem specFuel_eq (D : Document) : Spec.fuelFor D = Model.fuelFor D := by
  simp [Spec.fuelFor, Model.fuelFor, specDocSize_eq]

mutual
theorem setSize_sel (S : Schema) : ∀ (scope : Option String) (sel : Selection),
    ∀ r ∈ setsOfSel S scope sel, Model.sizeSels r.sels + 1 ≤ Model.sizeSel sel
  | scope, .field _ _ _ _ _ none, r, h => by simp [setsOfSel] at h
  | scope, .field _ n _ _ _ (some ss), r, h => by
    simp only [setsOfSel] at h
    have := setSize_set S _ ss r h
    simp only [Model.sizeSel]; omega
  | scope, .spread .., r, h => by simp [setsOfSel] at h
  | scope, .inline tc _ ss _, r, h => by
    simp only [setsOfSel] at h
    have := setSize_set S _ ss r h
    simp only [Model.sizeSel]; omega
theorem setSize_set (S : Schema) : ∀ (scope : Option String) (ss : SelSet),
    ∀ r ∈ setsOfSet S scope ss, Model.sizeSels r.sels + 1 ≤ Model.sizeSet ss
  | scope, .mk sels p, r, h => by
    simp only [setsOfSet, List.mem_cons] at h
    rcases h with rfl | h
    · simp [Model.sizeSet]; omega
    · have := setSize_sels S scope sels r h
      simp only [Model.sizeSet]; omega
theorem setSize_sels (S : Schema) : ∀ (scope : Option String) (sels : List Selection),
    ∀ r ∈ setsOfSels S scope sels, Model.sizeSels r.sels + 1 ≤ Model.sizeSels sels
  | scope, [], r, h => by simp [setsOfSels] at h
  | scope, s :: rest, r, h => by
    simp only [setsOfSels, List.mem_append] at h
    simp only [Model.sizeSels]
    rcases h with h | h
    · have := setSize_sel S scope s r h; omega
    · have := setSize_sels S scope rest r h; omega
end

theorem setSize_all {S : Schema} {D : Document} {r : SetRef} (hr : r ∈ allSets S D) :
    Model.sizeSels r.sels + 1 ≤ Model.docSize D := by
  unfold allSets at hr
  simp only [List.mem_flatMap] at hr
  obtain ⟨d, hd, hrd⟩ := hr
  have h1 := setSize_set S _ _ r hrd
  have h2 := size_le_docSize hd
  omega

theorem fragsOf_sizeSet_le (D : Document) :
    ((Model.fragsOf D).map (fun f => Model.sizeSet f.sel)).sum ≤ Model.docSize D := by
  unfold Model.fragsOf Model.docSize
  induction D with
  | nil => simp
  | cons d rest ih =>
    cases d with
    | op kind name vars dirs sel =>
      simp only [List.filterMap_cons, List.map_cons, List.sum_cons]
      omega
    | frag n np tc tcp dirs sel p =>
      simp only [List.filterMap_cons, List.map_cons, List.sum_cons]
      simp only [Model.defSel] at ih ⊢
      omega

theorem npot_initial {D : Document} (hu : Spec.fragmentNamesUnique D = true) :
    npot (fragWeight D) (Spec.fragNames D) [] ≤ Model.docSize D := by
  have hnd : Spec.nodup ((Model.fragsOf D).map (·.name)) = true := by
    unfold Spec.fragmentNamesUnique at hu; rw [← fragsOf_names] at hu; exact hu
  have : npot (fragWeight D) (Spec.fragNames D) [] = ((Model.fragsOf D).map (fun f => Model.sizeSet f.sel)).sum := by
    unfold npot
    rw [← fragsOf_names]
    have hfil : ((Model.fragsOf D).map (·.name)).filter (fun n => !([] : List String).contains n) =
        (Model.fragsOf D).map (·.name) := by
      apply List.filter_eq_self.2
      intro a _; rfl
    rw [hfil, List.map_map]
    congr 1
    apply List.map_congr_left
    intro f hf
    have h1 : Model.fragLast D f.name = some f := by
      rw [fragLast_eq_first hu]
      unfold Model.fragFirst
      exact find?_of_unique (Model.fragsOf D) (·.name) f hf hnd
    simp [fragWeight, findFrag_fragLast hu, h1]
  rw [this]
  exact fragsOf_sizeSet_le D

/-- The specification's collection has enough fuel on every selection set of the table. -/
theorem spec_fuel_ok {S : Schema} {D : Document} (hu : Spec.fragmentNamesUnique D = true) {r : SetRef}
    (hr : r ∈ allSets S D) :
    Model.sizeSels r.sels + 1 + npot (fragWeight D) (Spec.fragNames D) [] ≤ Spec.fuelFor D := by
  have h1 := setSize_all hr
  have h2 := npot_initial hu
  rw [specFuel_eq]
  unfold Model.fuelFor
  omega

mutual
theorem spreads_in_sel (S : Schema) : ∀ (scope : Option String) (sel : Selection),
    ∀ r ∈ setsOfSel S scope sel, ∀ n np dirs p, Selection.spread n np dirs p ∈ r.sels → n ∈ Model.spreadNamesSel sel
  | scope, .field _ _ _ _ _ none, r, h => by simp [setsOfSel] at h
  | scope, .field _ m _ _ _ (some ss), r, h => by
    simp only [setsOfSel] at h
    intro n np dirs p hm
    simpa [Model.spreadNamesSel] using spreads_in_set S _ ss r h n np dirs p hm
  | scope, .spread .., r, h => by simp [setsOfSel] at h
  | scope, .inline tc _ ss _, r, h => by
    simp only [setsOfSel] at h
    intro n np dirs p hm
    simpa [Model.spreadNamesSel] using spreads_in_set S _ ss r h n np dirs p hm
theorem spreads_in_set (S : Schema) : ∀ (scope : Option String) (ss : SelSet),
    ∀ r ∈ setsOfSet S scope ss, ∀ n np dirs p, Selection.spread n np dirs p ∈ r.sels → n ∈ Model.spreadNamesSet ss
  | scope, .mk sels q, r, h => by
    simp only [setsOfSet, List.mem_cons] at h
    intro n np dirs p hm
    simp only [Model.spreadNamesSet]
    rcases h with rfl | h
    · exact spreads_here sels n np dirs p hm
    · exact spreads_in_sels S scope sels r h n np dirs p hm
theorem spreads_in_sels (S : Schema) : ∀ (scope : Option String) (sels : List Selection),
    ∀ r ∈ setsOfSels S scope sels, ∀ n np dirs p, Selection.spread n np dirs p ∈ r.sels → n ∈ Model.spreadNamesSels sels
  | scope, [], r, h => by simp [setsOfSels] at h
  | scope, s :: rest, r, h => by
    simp only [setsOfSels, List.mem_append] at h
    intro n np dirs p hm
    simp only [Model.spreadNamesSels, List.mem_append]
    rcases h with h | h
    · exact Or.inl (spreads_in_sel S scope s r h n np dirs p hm)
    · exact Or.inr (spreads_in_sels S scope rest r h n np dirs p hm)
theorem spreads_here : ∀ (sels : List Selection) (n : String) (np : Pos) (dirs : List Directive) (p : Pos),
    Selection.spread n np dirs p ∈ sels → n ∈ Model.spreadNamesSels sels
  | [], _, _, _, _, h => by simp at h
  | s :: rest, n, np, dirs, p, h => by
    simp only [List.mem_cons] at h
    simp only [Model.spreadNamesSels, List.mem_append]
    rcases h with rfl | h
    · exact Or.inl (by simp [Model.spreadNamesSel])
    · exact Or.inr (spreads_here rest n np dirs p h)
end

theorem spreadsDefinedT_of_spec {S : Schema} {D : Document} (h : Spec.spreadsDefined S D = true) :
    SpreadsDefinedT S D := by
  intro r hr n np dirs p hm
  unfold allSets at hr
  simp only [List.mem_flatMap] at hr
  obtain ⟨d, hd, hrd⟩ := hr
  have h1 : n ∈ Model.spreadNamesSet (Model.defSel d) := spreads_in_set S _ _ r hrd n np dirs p hm
  have h2 : n ∈ Model.usedFragments D := by
    unfold Model.usedFragments
    exact List.mem_flatMap.2 ⟨d, hd, h1⟩
  rw [usedFragments_eq S D] at h2
  unfold Spec.spreadsDefined at h
  rw [List.all_eq_true] at h
  have h3 := h n h2
  have h4 : n ∈ (Model.fragsOf D).map (·.name) := by
    rw [fragsOf_names]; simpa using h3
  exact fragLast_isSome_of_mem D n h4

end ApiFu.C04
