/-
  C04 — part 12: the local conditions of the overlapping-fields rule in the specification's terms
  (wrappers, leaf types, identical arguments), their symmetry and reflexivity.
-/
import ApiFu.C04.Merge11
import ApiFu.C04.MergeLocal

namespace ApiFu.C04
open Spec Model
set_option linter.unusedSimpArgs false
set_option linter.unusedVariables false

/-! ## Field types are proper -/

def fieldsProper (fs : List FieldDef) : Bool := fs.all (fun d => d.type.proper)

def kindProper : TypeKind → Bool
  | .object fs _ => fieldsProper fs
  | .interface fs => fieldsProper fs
  | _ => true

/-- No field type of the schema has a non-null directly under a non-null. -/
def Schema.typesProper (S : Schema) : Bool :=
  S.types.all (fun t => kindProper t.kind) && fieldsProper S.metaFields

theorem findField_proper {fs : List FieldDef} (h : fieldsProper fs = true) {n : String} {d : FieldDef}
    (hf : findField fs n = some d) : d.type.proper = true := by
  unfold findField at hf
  have := List.mem_of_find?_eq_some hf
  unfold fieldsProper at h
  rw [List.all_eq_true] at h
  exact h d this

theorem fieldDefinition_proper {S : Schema} (hp : S.typesProper = true) {scope : Option String} {n : String}
    {d : FieldDef} (h : Model.fieldDefinition S scope n = some d) : d.type.proper = true := by
  unfold Schema.typesProper at hp
  simp only [Bool.and_eq_true, List.all_eq_true] at hp
  unfold Model.fieldDefinition at h
  cases scope with
  | none => simp at h
  | some p =>
    simp only at h
    unfold Model.kindOf at h
    cases hf : S.find p with
    | none => simp [hf] at h
    | some t =>
      have ht := hp.1 t (find_mem hf)
      simp only [hf, Option.map_some] at h
      cases hk : t.kind with
      | interface fs =>
        simp only [hk] at h ht
        exact findField_proper ht h
      | object fs ifs =>
        simp only [hk] at h ht
        cases hff : findField fs n with
        | some d' =>
          simp only [hff, Option.some.injEq] at h
          subst h
          exact findField_proper ht hff
        | none =>
          simp only [hff] at h
          by_cases hq : p = S.query
          · simp only [hq, if_true] at h
            exact findField_proper hp.2 h
          · simp [hq] at h
      | scalar sp => simp [hk] at h
      | union ms => simp [hk] at h
      | enum vs => simp [hk] at h
      | input fs => simp [hk] at h

theorem typeOf_proper {S : Schema} {D : Document} (hp : S.typesProper = true) {f : FRef} (hf : TField S D f) :
    (typeOf f).proper = true := by
  obtain ⟨r, hr, al, n, np, args, dirs, sub, hm, rfl⟩ := hf
  unfold typeOf
  simp only [mkRef]
  by_cases hn : n = "__typename"
  · simp only [hn, if_true]; decide
  · simp only [hn, if_false]
    cases hd : Model.fieldDefinition S r.scope n with
    | none => decide
    | some d => exact fieldDefinition_proper hp hd

theorem TField.fdef_eq {S : Schema} {D : Document} {f : FRef} (hf : TField S D f) :
    f.fdef = Model.fieldDefinition S f.setType f.name := by
  obtain ⟨r, hr, al, n, np, args, dirs, sub, hm, rfl⟩ := hf
  rfl

theorem SameCF.typeOf_eq {S : Schema} {D : Document} {a b : FRef} (ta : TField S D a) (tb : TField S D b)
    (h : SameCF a b) : typeOf a = typeOf b := by
  obtain ⟨_, hn, _, _, hst⟩ := h
  unfold typeOf
  rw [ta.fdef_eq, tb.fdef_eq, hn, hst]

/-! ## The shape conditions through `sameWrappers` -/

def specShapeLocal (S : Schema) (ta tb : TRef) : Bool :=
  match Spec.sameWrappers ta tb with
  | none => false
  | some (na, nb) => if Spec.isLeaf S na || Spec.isLeaf S nb then decide (na = nb) else true

def specShapeDeep (S : Schema) (ta tb : TRef) : Bool :=
  match Spec.sameWrappers ta tb with
  | none => false
  | some (na, nb) => !(Spec.isLeaf S na || Spec.isLeaf S nb)

theorem isLeafRef_named (S : Schema) (n : String) : Model.isLeafRef S (.named n) = Spec.isLeaf S n := rfl

theorem shapeLocal_spec {S : Schema} {a b : FRef} (ha : (typeOf a).proper = true) (hb : (typeOf b).proper = true) :
    shapeLocalOk S a b = specShapeLocal S (typeOf a) (typeOf b) ∧
    shapeDeep S a b = specShapeDeep S (typeOf a) (typeOf b) := by
  unfold shapeLocalOk shapeDeep specShapeLocal specShapeDeep
  cases hu : Model.unwrapShapes (typeOf a) (typeOf b) with
  | error e =>
    have := (unwrap_error_iff ha hb).1 ⟨e, hu⟩
    simp [this]
  | ok pr =>
    obtain ⟨ua, ub⟩ := pr
    obtain ⟨na, nb, rfl, rfl, hw⟩ := (unwrap_ok_iff ha hb ua ub).1 hu
    simp only [hw, isLeafRef_named, TRef.named.injEq]
    exact ⟨trivial, trivial⟩

theorem specShapeLocal_symm (S : Schema) (ta tb : TRef) : specShapeLocal S ta tb = specShapeLocal S tb ta := by
  unfold specShapeLocal
  rw [sameWrappers_symm ta tb]
  cases Spec.sameWrappers ta tb with
  | none => rfl
  | some p =>
    obtain ⟨na, nb⟩ := p
    simp only [Option.map_some, Bool.or_comm (Spec.isLeaf S nb)]
    by_cases he : na = nb
    · subst he; rfl
    · have he' : ¬ nb = na := fun h => he h.symm
      simp [he, he']

theorem specShapeDeep_symm (S : Schema) (ta tb : TRef) : specShapeDeep S ta tb = specShapeDeep S tb ta := by
  unfold specShapeDeep
  rw [sameWrappers_symm ta tb]
  cases Spec.sameWrappers ta tb with
  | none => rfl
  | some p =>
    obtain ⟨na, nb⟩ := p
    simp only [Option.map_some, Bool.or_comm (Spec.isLeaf S nb)]

theorem specShapeLocal_refl (S : Schema) (t : TRef) : specShapeLocal S t t = true := by
  unfold specShapeLocal
  obtain ⟨n, hn⟩ := sameWrappers_refl t
  simp [hn]

/-! ## Argument names are unique -/

theorem mocc_here (S : Schema) (scope : Option String) : ∀ (sels : List Selection) {al n np args dirs sub},
    Selection.field al n np args dirs sub ∈ sels → Occ.field scope al n np args dirs sub ∈ moccSels S scope sels
  | [], _, _, _, _, _, _, h => by simp at h
  | x :: rest, al, n, np, args, dirs, sub, h => by
    simp only [List.mem_cons] at h
    simp only [moccSels, List.mem_append]
    rcases h with rfl | h
    · left
      cases sub <;> simp [moccSel]
    · exact Or.inr (mocc_here S scope rest h)

mutual
theorem mocc_of_sel (S : Schema) : ∀ (scope : Option String) (sel : Selection), ∀ r ∈ setsOfSel S scope sel,
    ∀ al n np args dirs sub, Selection.field al n np args dirs sub ∈ r.sels →
      Occ.field r.scope al n np args dirs sub ∈ moccSel S scope sel
  | scope, .field _ _ _ _ _ none, r, h => by simp [setsOfSel] at h
  | scope, .field _ m _ _ _ (some ss), r, h => by
    intro al n np args dirs sub hm
    simp only [setsOfSel] at h
    simp only [moccSel, List.mem_cons]
    exact Or.inr (mocc_of_set S _ ss r h al n np args dirs sub hm)
  | scope, .spread .., r, h => by simp [setsOfSel] at h
  | scope, .inline tc _ ss _, r, h => by
    intro al n np args dirs sub hm
    simp only [setsOfSel] at h
    simp only [moccSel, List.mem_cons]
    exact Or.inr (mocc_of_set S _ ss r h al n np args dirs sub hm)
theorem mocc_of_set (S : Schema) : ∀ (scope : Option String) (ss : SelSet), ∀ r ∈ setsOfSet S scope ss,
    ∀ al n np args dirs sub, Selection.field al n np args dirs sub ∈ r.sels →
      Occ.field r.scope al n np args dirs sub ∈ moccSet S scope ss
  | scope, .mk sels p, r, h => by
    intro al n np args dirs sub hm
    simp only [setsOfSet, List.mem_cons] at h
    simp only [moccSet]
    rcases h with rfl | h
    · exact mocc_here S scope sels hm
    · exact mocc_of_sels S scope sels r h al n np args dirs sub hm
theorem mocc_of_sels (S : Schema) : ∀ (scope : Option String) (sels : List Selection), ∀ r ∈ setsOfSels S scope sels,
    ∀ al n np args dirs sub, Selection.field al n np args dirs sub ∈ r.sels →
      Occ.field r.scope al n np args dirs sub ∈ moccSels S scope sels
  | scope, [], r, h => by simp [setsOfSels] at h
  | scope, s :: rest, r, h => by
    intro al n np args dirs sub hm
    simp only [setsOfSels, List.mem_append] at h
    simp only [moccSels, List.mem_append]
    rcases h with h | h
    · exact Or.inl (mocc_of_sel S scope s r h al n np args dirs sub hm)
    · exact Or.inr (mocc_of_sels S scope rest r h al n np args dirs sub hm)
end

theorem TField.argsUnique {S : Schema} {D : Document} (h : MergeHyp S D) (hargs : Spec.argumentsUnique S D = true)
    {f : FRef} (hf : TField S D f) : Spec.nodup (f.args.map (·.name)) = true := by
  obtain ⟨r, hr, al, n, np, args, dirs, sub, hm, rfl⟩ := hf
  simp only [mkRef]
  have hg := good_allSets h.ws r hr
  obtain ⟨p, hp', hp, ⟨d, hd⟩, _⟩ := hg.field h.ws.wf hm
  unfold allSets at hr
  simp only [List.mem_flatMap] at hr
  obtain ⟨df, hdf, hrd⟩ := hr
  have hocc := mocc_of_set S _ _ r hrd al n np args dirs sub hm
  rw [(def_occs h.ws hdf).1, hp'] at hocc
  unfold Spec.argumentsUnique Spec.argSites at hargs
  simp only [List.all_append, Bool.and_eq_true, List.all_eq_true, List.mem_flatMap] at hargs
  have := hargs.1 { defs := d.args, args := args }
    ⟨_, List.mem_flatMap.2 ⟨df, hdf, hocc⟩, by simp [Spec.occArgSites, hd]⟩
  exact this

/-- What is needed of the schema and the document beyond `MergeHyp`. -/
structure MergeHyp2 (S : Schema) (D : Document) : Prop extends MergeHyp S D where
  proper : S.typesProper = true
  args : Spec.argumentsUnique S D = true
  fpos : FPosUnique S D

theorem mergeLocal_spec {S : Schema} {D : Document} (h : MergeHyp2 S D) {a b : FRef} (ta : TField S D a)
    (tb : TField S D b) : mergeLocalOk a b = (decide (a.name = b.name) && Spec.sameArguments a.args b.args) := by
  unfold mergeLocalOk
  rw [argumentsDiffer_none_iff a b (ta.argsUnique h.toMergeHyp h.args) (tb.argsUnique h.toMergeHyp h.args)]

theorem localSymm {S : Schema} {D : Document} (h : MergeHyp2 S D) : LocalSymm S D := by
  refine ⟨fun a b ta tb => ?_, fun a b ta tb => ?_, fun a b ta tb => ?_⟩
  · rw [(shapeLocal_spec (typeOf_proper h.proper ta) (typeOf_proper h.proper tb)).1,
      (shapeLocal_spec (typeOf_proper h.proper tb) (typeOf_proper h.proper ta)).1]
    exact specShapeLocal_symm S _ _
  · rw [(shapeLocal_spec (typeOf_proper h.proper ta) (typeOf_proper h.proper tb)).2,
      (shapeLocal_spec (typeOf_proper h.proper tb) (typeOf_proper h.proper ta)).2]
    exact specShapeDeep_symm S _ _
  · rw [mergeLocal_spec h ta tb, mergeLocal_spec h tb ta, sameArguments_symm]
    by_cases he : a.name = b.name
    · simp [he]
    · have he' : ¬ b.name = a.name := fun h => he h.symm
      simp [he, he']

theorem localRefl {S : Schema} {D : Document} (h : MergeHyp2 S D) : LocalRefl S D := by
  refine ⟨fun a b ta tb hs => ?_, fun a b ta tb hs => ?_⟩
  · rw [(shapeLocal_spec (typeOf_proper h.proper ta) (typeOf_proper h.proper tb)).1, hs.typeOf_eq ta tb]
    exact specShapeLocal_refl S _
  · rw [mergeLocal_spec h ta tb]
    obtain ⟨_, hn, ha, _, _⟩ := hs
    rw [hn, ha, sameArguments_refl]
    simp

theorem SetBad.mono {S : Schema} {D : Document} {P Q : FRef → FRef → Prop} (h : ∀ x y, P x y → Q x y) {r : SetRef}
    (hb : SetBad S D P r) : SetBad S D Q r := by
  obtain ⟨x, y, hx, hy, hxy, hp, hbad⟩ := hb
  exact ⟨x, y, hx, hy, hxy, h _ _ hp, hbad.mono h⟩

/-- The model's check passes for every selection set of the document exactly when no selection
    set has two differing fields in conflict. -/
theorem model_sets_iff {S : Schema} {D : Document} (h : MergeHyp2 S D) (hac : Acyclic D) :
    (∀ r ∈ allSets S D,
      mergeCheckSet S D (Model.fuelFor D) (Model.pairFuelFor D) r.scope (.mk r.sels r.pos) = .ok) ↔
    (∀ r ∈ allSets S D, ¬ SetBad S D DiffCF r) := by
  constructor
  · intro hall r hr hbad
    exact mergeCheckSet_sound h.toMergeHyp h.fpos (localSymm h) hr (hall r hr)
      (hbad.mono (fun _ _ hp => hp.distinct))
  · intro hall r hr
    exact mergeCheckSet_complete h.toMergeHyp hac hr (loose_free_of_strict_free (localRefl h) hall r hr)

end ApiFu.C04
