/-
  C04 — part 15: a witness makes the specification's functions fail (given their fuel), the
  selection sets of the two sides correspond, and the overlapping-fields group of the model
  agrees with §5.3.2 on documents without spread cycles.
-/
import ApiFu.C04.Merge14

namespace ApiFu.C04
open Spec Model
set_option linter.unusedSimpArgs false
set_option linter.unusedVariables false

/-! ## Witnesses are symmetric -/

theorem ShapeBad.symm {S : Schema} {D : Document} (hs : LocalSymm S D) {P : FRef → FRef → Prop} {a b : FRef}
    (ta : TField S D a) (tb : TField S D b) (hb : ShapeBad S D P a b) : ShapeBad S D P b a := by
  cases hb with
  | loc hl => exact .loc (hs.shapeLocal a b ta tb ▸ hl)
  | deep hd hx hy hr hp hbad => exact .deep (hs.shapeDeep a b ta tb ▸ hd) hx.symm hy.symm hr hp hbad

theorem MergeBad.symm {S : Schema} {D : Document} (hs : LocalSymm S D) {P : FRef → FRef → Prop} {a b : FRef}
    (ta : TField S D a) (tb : TField S D b) (hb : MergeBad S D P a b) : MergeBad S D P b a := by
  cases hb with
  | shape h => exact .shape (h.symm hs ta tb)
  | loc hp hl => exact .loc (parentsCond_symm S a b ▸ hp) (hs.mergeLocal a b ta tb ▸ hl)
  | deep hp hx hy hr hpp hbad => exact .deep (parentsCond_symm S a b ▸ hp) hx.symm hy.symm hr hpp hbad

theorem DiffCF.symm {x y : FRef} (h : DiffCF x y) : DiffCF y x := by
  intro hs
  obtain ⟨h1, h2, h3, h4, h5⟩ := hs
  exact h ⟨h1.symm, h2.symm, h3.symm, h4.symm, h5.symm⟩

theorem cf_ne {x y : FRef} {cx cy : CF} (rx : CFRel x cx) (ry : CFRel y cy) (hd : DiffCF x y) : cx ≠ cy := by
  intro he
  subst he
  exact hd ⟨rx.rname.symm.trans ry.rname, rx.name.symm.trans ry.name, rx.args.symm.trans ry.args,
    rx.sel.symm.trans ry.sel, rx.parent.symm.trans ry.parent⟩

/-! ## A witness: the specification fails -/

theorem SubU.fmuLt {S : Schema} {D : Document} (h : MergeHyp S D) (hac : Acyclic D) {a b x : FRef} {k : Nat}
    (ta : TField S D a) (tb : TField S D b) (ka : fmuLt S D a (k + 1)) (kb : fmuLt S D b (k + 1))
    (hs : SubU S D a b x) : fmuLt S D x k :=
  hs.elim (fun hs => hs.fmuLt h hac ta ka) (fun hs => hs.fmuLt h hac tb kb)

theorem spec_shape_bad {S : Schema} {D : Document} (h : MergeHyp2 S D) (hac : Acyclic D) :
    ∀ (fuel : Nat) (a b : FRef), TField S D a → TField S D b → fmuLt S D a fuel → fmuLt S D b fuel →
      ShapeBad S D DiffCF a b → ∀ (ca cb : CF), CFRel a ca → CFRel b cb →
      Spec.sameResponseShape S D fuel ca cb = false := by
  intro fuel
  induction fuel with
  | zero => intro a b ta _ ka _ _ _ _ _ _; exact absurd ka ta.fmu_pos
  | succ k ih =>
    intro a b ta tb ka kb hbad ca cb ha hb
    rw [spec_shape_step h.toMergeHyp ta tb ha hb]
    obtain ⟨e1, e2⟩ := shapeLocal_spec (S := S) (typeOf_proper h.proper ta) (typeOf_proper h.proper tb)
    rw [← e1, ← e2]
    cases hbad with
    | loc hl => simp [hl]
    | @deep _ _ x y hd hx hy hr hp hsub =>
      obtain ⟨cx, hcx, rx⟩ := (subL_mem h.toMergeHyp ta tb ha hb).2 x hx
      obtain ⟨cy, hcy, ry⟩ := (subL_mem h.toMergeHyp ta tb ha hb).2 y hy
      have tx := SubU.tfield ta tb hx
      have ty := SubU.tfield ta tb hy
      have kx := SubU.fmuLt h.toMergeHyp hac ta tb ka kb hx
      have ky := SubU.fmuLt h.toMergeHyp hac ta tb ka kb hy
      have hrc : cx.rname = cy.rname := by rw [rx.rname, ry.rname, hr]
      have p1 := ih x y tx ty kx ky hsub cx cy rx ry
      have p2 := ih y x ty tx ky kx (hsub.symm (localSymm h) tx ty) cy cx ry rx
      have := pairsOk_false_intro
        (fun x y => x.rname != y.rname || Spec.sameResponseShape S D k x y) _ cx cy hcx hcy (cf_ne rx ry hp)
        (by simp [hrc, p1]) (by simp [hrc, p2])
      rw [this, hd]
      simp

theorem fmuLt_pairFuel {S : Schema} {D : Document} (f : FRef) : fmuLt S D f (Spec.pairFuel D) := by
  intro r hr _
  have := mu_lt_bound hr
  unfold Spec.pairFuel
  rw [specDocSize_eq]
  exact this

theorem specQ_bad {S : Schema} {D : Document} (h : MergeHyp2 S D) (hac : Acyclic D) (k : Nat)
    (ih : ∀ (cs : List CF) (x y : FRef) (cx cy : CF), cx ∈ cs → cy ∈ cs → CFRel x cx → CFRel y cy →
      TField S D x → TField S D y → fmuLt S D x k → fmuLt S D y k → x.rname = y.rname → DiffCF x y →
      MergeBad S D DiffCF x y → Spec.fieldsCanMerge S D k cs = false)
    {a b : FRef} {ca cb : CF} (ta : TField S D a) (tb : TField S D b) (ha : CFRel a ca) (hb : CFRel b cb)
    (ka : fmuLt S D a (k + 1)) (kb : fmuLt S D b (k + 1)) (hr : a.rname = b.rname)
    (hbad : MergeBad S D DiffCF a b) : specQ S D k ca cb = false := by
  rw [specQ_eq h.toMergeHyp ta tb ha hb]
  cases hbad with
  | shape hs =>
    have := spec_shape_bad h hac (Spec.pairFuel D) a b ta tb (fmuLt_pairFuel a) (fmuLt_pairFuel b) hs ca cb ha hb
    simp [hr, this]
  | loc hp hl =>
    rw [mergeLocal_spec h ta tb] at hl
    simp [hr, hp, hl]
  | @deep _ _ x y hp hx hy hxy hpp hsub =>
    obtain ⟨cx, hcx, rx⟩ := (subL_mem h.toMergeHyp ta tb ha hb).2 x hx
    obtain ⟨cy, hcy, ry⟩ := (subL_mem h.toMergeHyp ta tb ha hb).2 y hy
    have := ih (subL S D ca cb) x y cx cy hcx hcy rx ry (SubU.tfield ta tb hx) (SubU.tfield ta tb hy)
      (SubU.fmuLt h.toMergeHyp hac ta tb ka kb hx) (SubU.fmuLt h.toMergeHyp hac ta tb ka kb hy) hxy hpp hsub
    simp [hr, hp, this]

theorem spec_merge_bad {S : Schema} {D : Document} (h : MergeHyp2 S D) (hac : Acyclic D) :
    ∀ (fuel : Nat) (cs : List CF) (x y : FRef) (cx cy : CF), cx ∈ cs → cy ∈ cs → CFRel x cx → CFRel y cy →
      TField S D x → TField S D y → fmuLt S D x fuel → fmuLt S D y fuel → x.rname = y.rname → DiffCF x y →
      MergeBad S D DiffCF x y → Spec.fieldsCanMerge S D fuel cs = false := by
  intro fuel
  induction fuel with
  | zero => intro cs x y cx cy _ _ _ _ tx _ kx _ _ _ _; exact absurd kx tx.fmu_pos
  | succ k ih =>
    intro cs x y cx cy hcx hcy rx ry tx ty kx ky hr hd hbad
    rw [fieldsCanMerge_succ]
    exact pairsOk_false_intro _ _ cx cy hcx hcy (cf_ne rx ry hd)
      (specQ_bad h hac k ih tx ty rx ry kx ky hr hbad)
      (specQ_bad h hac k ih ty tx ry rx ky kx hr.symm (hbad.symm (localSymm h) tx ty))

/-! ## One selection set -/

/-- FieldsInSetCanMerge for one selection set, as `Spec.fieldsMerge` evaluates it. -/
def specSetOk (S : Schema) (D : Document) (r : SetRef) : Bool :=
  Spec.fieldsCanMerge S D (Spec.pairFuel D) (Spec.collect S D (Spec.fuelFor D) r.scope [] r.sels).1

theorem spec_set_false {S : Schema} {D : Document} (h : MergeHyp2 S D) {r : SetRef} (hr : r ∈ allSets S D)
    (hf : specSetOk S D r = false) : SetBad S D Loose r := by
  have hu : Spec.nodup (Spec.fragNames D) = true := h.names
  obtain ⟨x, y, sx, sy, hxy, hbad⟩ := spec_merge_false h _ (Collects S D r.scope r.pos r.sels) _
    (fun c hc => by
      have hcs := (collect_mem (S := S) hu (spec_fuel_ok h.names hr) c).1 hc
      obtain ⟨f, hcol, hrel⟩ := collectsS_to_M h.ws h.names hcs r.pos hr
      exact ⟨f, hcol, hcol.tfield hr, hrel⟩) hf
  exact ⟨x, y, sx, sy, hxy, trivial, hbad⟩

theorem spec_set_bad {S : Schema} {D : Document} (h : MergeHyp2 S D) (hac : Acyclic D) {r : SetRef}
    (hr : r ∈ allSets S D) (hb : SetBad S D DiffCF r) : specSetOk S D r = false := by
  have hu : Spec.nodup (Spec.fragNames D) = true := h.names
  obtain ⟨x, y, hx, hy, hxy, hd, hbad⟩ := hb
  obtain ⟨cx, hcx, rx⟩ := collects_to_S h.ws h.names hx hr
  obtain ⟨cy, hcy, ry⟩ := collects_to_S h.ws h.names hy hr
  have mx := (collect_mem (S := S) hu (spec_fuel_ok h.names hr) cx).2 hcx
  have my := (collect_mem (S := S) hu (spec_fuel_ok h.names hr) cy).2 hcy
  exact spec_merge_bad h hac _ _ x y cx cy mx my rx ry (hx.tfield hr) (hy.tfield hr)
    (fmuLt_pairFuel x) (fmuLt_pairFuel y) hxy hd hbad

/-! ## The selection sets of the two sides -/

def toPair (r : SetRef) : Option String × SelSet := (r.scope, .mk r.sels r.pos)

mutual
theorem sets_sel_eq {S : Schema} (hwf : S.wf = true) : ∀ (scope : Option String) (sel : Selection),
    Inv S scope → (occSel S scope sel).all (scopedAt S) = true →
    (setsOfSel S scope sel).map toPair = Spec.setsSel S scope sel
  | scope, .field al n np args dirs none, _, _ => by simp [setsOfSel, Spec.setsSel]
  | scope, .field al n np args dirs (some ss), hinv, h => by
    obtain ⟨p, rfl, hp⟩ := hinv
    simp only [occSel, List.all_cons, Bool.and_eq_true] at h
    obtain ⟨d, hm, hs, hc⟩ := field_with_sel hwf hp h.1
    have e1 : Model.innerScope S (some p) n = some d.type.base := by simp [Model.innerScope, hm]
    have e2 : Spec.fieldScope S (some p) n = some d.type.base := by simp [Spec.fieldScope, hs]
    simp only [setsOfSel, Spec.setsSel, e1, e2]
    exact sets_set_eq hwf (some d.type.base) ss ⟨_, rfl, hc⟩ (by simpa [e2] using h.2)
  | scope, .spread n np dirs p, _, _ => by simp [setsOfSel, Spec.setsSel]
  | scope, .inline none dirs ss p, hinv, h => by
    simp only [occSel, List.all_cons, Bool.and_eq_true] at h
    simp only [setsOfSel, Spec.setsSel, Model.inlineScope, Spec.inlineScope]
    exact sets_set_eq hwf scope ss hinv (by simpa [Spec.inlineScope] using h.2)
  | scope, .inline (some (t, tp)) dirs ss p, hinv, h => by
    simp only [occSel, List.all_cons, Bool.and_eq_true] at h
    have h1 := h.1
    simp only [scopedAt, Bool.and_eq_true, condExistsAt, condCompositeAt, fieldDefinedAt, leafOkAt] at h1
    obtain ⟨⟨_, hex⟩, hco⟩ := h1
    have hco' : Spec.isComposite S t = true := by
      cases hf : S.find t with
      | none => simp [hf] at hex
      | some td => simpa [hf] using hco
    have e : Spec.condScope S t = some t := by simp [Spec.condScope, hex]
    simp only [setsOfSel, Spec.setsSel, Model.inlineScope, Spec.inlineScope, namedType_eq_condScope, e]
    exact sets_set_eq hwf (some t) ss ⟨_, rfl, hco'⟩ (by simpa [Spec.inlineScope, e] using h.2)
theorem sets_set_eq {S : Schema} (hwf : S.wf = true) : ∀ (scope : Option String) (ss : SelSet),
    Inv S scope → (occSet S scope ss).all (scopedAt S) = true →
    (setsOfSet S scope ss).map toPair = Spec.setsSet S scope ss
  | scope, .mk sels p, hinv, h => by
    simp only [occSet] at h
    simp only [setsOfSet, Spec.setsSet, List.map_cons, toPair]
    rw [sets_sels_eq hwf scope sels hinv h]
theorem sets_sels_eq {S : Schema} (hwf : S.wf = true) : ∀ (scope : Option String) (sels : List Selection),
    Inv S scope → (occSels S scope sels).all (scopedAt S) = true →
    (setsOfSels S scope sels).map toPair = Spec.setsSels S scope sels
  | scope, [], _, _ => by simp [setsOfSels, Spec.setsSels]
  | scope, s :: rest, hinv, h => by
    simp only [occSels, List.all_append, Bool.and_eq_true] at h
    simp only [setsOfSels, Spec.setsSels, List.map_append]
    rw [sets_sel_eq hwf scope s hinv h.1, sets_sels_eq hwf scope rest hinv h.2]
end

theorem selSets_def (S : Schema) (D : Document) :
    Spec.selSets S D = D.flatMap (fun d => Spec.setsSet S (specDefScope S d) (Model.defSel d)) := by
  unfold Spec.selSets
  congr 1
  funext d
  cases d <;> rfl

theorem mem_selSets {S : Schema} {D : Document} (h : WellScoped S D) (p : Option String × SelSet) :
    p ∈ Spec.selSets S D ↔ ∃ r ∈ allSets S D, toPair r = p := by
  rw [selSets_def]
  unfold allSets
  simp only [List.mem_flatMap]
  have key : ∀ d ∈ D, (setsOfSet S (Model.defScope S d) (Model.defSel d)).map toPair =
      Spec.setsSet S (specDefScope S d) (Model.defSel d) := by
    intro d hd
    obtain ⟨e, hinv, _⟩ := def_scope h.toScopeRules hd
    have hocc := (def_occs h hd).2
    rw [e]
    apply sets_set_eq h.wf _ _ hinv
    rw [← occDef_eq, List.all_eq_true]
    intro o ho
    exact (hocc o ho).2
  constructor
  · rintro ⟨d, hd, hp⟩
    rw [← key d hd, List.mem_map] at hp
    obtain ⟨r, hr, he⟩ := hp
    exact ⟨r, ⟨d, hd, hr⟩, he⟩
  · rintro ⟨r, ⟨d, hd, hr⟩, he⟩
    refine ⟨d, hd, ?_⟩
    rw [← key d hd, List.mem_map]
    exact ⟨r, hr, he⟩

theorem fieldsMerge_iff {S : Schema} {D : Document} (h : WellScoped S D) (hnc : Spec.noFragmentCycles D = true) :
    Spec.fieldsMerge S D = true ↔ ∀ r ∈ allSets S D, specSetOk S D r = true := by
  unfold Spec.fieldsMerge
  simp only [hnc, Bool.not_true, Bool.false_or, List.all_eq_true]
  constructor
  · intro hall r hr
    exact hall (toPair r) ((mem_selSets h _).2 ⟨r, hr, rfl⟩)
  · intro hall p hp
    obtain ⟨r, hr, rfl⟩ := (mem_selSets h p).1 hp
    exact hall r hr

/-! ## The group -/

/-- **The overlapping-fields group** (validate_fields.go, second pass, with the memo of fix 06 and
    whatever order Go's maps are iterated in) reports nothing — no error, no secondary error, no
    alternative, fuel not exhausted — exactly when §5.3.2 holds, on documents whose spreads form no
    cycle. -/
theorem merge_group_eq_spec {S : Schema} {D : Document} (h : MergeHyp2 S D)
    (hnc : Spec.noFragmentCycles D = true) :
    validateFields2 S D (Model.fuelFor D) (Model.pairFuelFor D) = ([], false) ↔ Spec.fieldsMerge S D = true := by
  have hac : Acyclic D := ⟨h.names, hnc⟩
  rw [validateFields2_iff, fieldsMerge_iff h.ws hnc]
  unfold SetOk
  rw [model_sets_iff h hac]
  constructor
  · intro hall r hr
    cases hs : specSetOk S D r with
    | true => rfl
    | false =>
      exact absurd (spec_set_false h hr hs) (loose_free_of_strict_free (localRefl h) hall r hr)
  · intro hall r hr hbad
    have := spec_set_bad h hac hr hbad
    rw [hall r hr] at this
    simp at this

end ApiFu.C04
