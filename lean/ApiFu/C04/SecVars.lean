import ApiFu.C04.Props
namespace ApiFu.C04
open Spec Model
set_option linter.unusedSimpArgs false
set_option linter.unusedVariables false

/-!
  C04 — the variables pass (validate_variables.go, with fix 07) is *silent* (no primary and no
  secondary error) when the rules it depends on hold.

  The secondary errors of the pass come from `validateVariableUsage` only:
  * "no type info for variable type": the declared type of the variable does not resolve —
    excluded by §5.8.2 (`variablesAreInputTypes`) for the variables of the operation;
  * "no type info for location type": the usage position has no expected type and is not nested
    in a literal given where a scalar type is expected (`inScalar`, fix 07 / F-04g).

  A custom scalar whose literal coercion accepts list (or object) literals makes `Spec.valueOk`
  accept `[$v]` (resp. `{k: $v}`) at a position of that scalar type, while the values nested in that
  literal have no expected type (`Spec.itemType` / `Spec.objectTarget` are `none`). Before fix 07
  the model emitted the secondary error there although no rule is violated (F-04g; the former
  counterexample `exScalarListS` / `exVarInScalarList` is at the end of the file, now accepted).
  With fix 07 such usages carry `inScalar = true` and are skipped, so "every usage has an expected
  type" becomes "every usage has an expected type or is inside a literal for a scalar", which
  §5.4.1, §5.7.1 and §5.6.1 give on a well-scoped document (`usages_have_expected`).
-/

/-! ## One usage -/

theorem validateVariableUsage_allPrimary (S : Schema) (vd : VarDef) (p : Pos) (c : VCtx)
    (hv : (Model.schemaType S vd.type).isSome = true)
    (hc : c.exp.isSome = true ∨ c.inScalar = true) :
    AllPrimary (validateVariableUsage S vd p c) := by
  unfold validateVariableUsage
  cases hs : Model.schemaType S vd.type with
  | none => simp [hs] at hv
  | some vt =>
    cases he : c.exp with
    | none =>
      have hsc : c.inScalar = true := by
        rcases hc with hc | hc
        · simp [he] at hc
        · exact hc
      simp only [hsc, if_true]
      exact allPrimary_nil
    | some lt =>
      cases lt <;> simp only <;> repeat' split
      all_goals first | exact allPrimary_nil | exact allPrimary_single _ _

/-- A usage with an expected type, or inside a literal for a scalar (fix 07), of a variable whose
    declared type resolves, yields primary errors only. -/
theorem usageErrs_allPrimary (S : Schema) (vars : List VarDef) (u : Usage)
    (hv : ∀ vd ∈ vars, (Model.schemaType S vd.type).isSome = true)
    (hu : u.expected.isSome = true ∨ u.inScalar = true) :
    AllPrimary (usageErrs S vars u) := by
  unfold usageErrs
  cases hf : vars.find? (fun vd => vd.name = u.name) with
  | none => exact allPrimary_single _ _
  | some vd =>
    exact validateVariableUsage_allPrimary S vd u.pos _ (hv vd (List.mem_of_find?_eq_some hf)) hu

/-! ## The body of a definition: errors as a `flatMap` over the specification's usages -/

theorem body_errs_eq {S : Schema} {D : Document} (h : WellScoped S D)
    (hw : Schema.wfDefaults S = true) {d : Definition} (hd : d ∈ D) (vars : List VarDef) :
    (varsDirectives S vars (Model.defDirs d) ++ varsSet S vars (Model.defScope S d) (Model.defSel d)).errs =
      (bodyUsages S d).flatMap (usageErrs S vars) := by
  obtain ⟨e, hocc⟩ := def_occs h hd
  obtain ⟨d1, _, _⟩ := varsDirectives_spec S hw vars (Model.defDirs d)
  obtain ⟨f1, _, _⟩ := vars_set_flat S vars (Model.defScope S d) (Model.defSel d)
  rw [e] at f1
  have d1' : (varsDirectives S vars (Model.defDirs d)).errs =
      (Spec.usagesDirs S (Spec.defDirs d)).flatMap (usageErrs S vars) := by rw [← defDirs_eq]; exact d1
  have g1 : (Spec.occDef S d).flatMap (fun o => (varsOcc S vars o).errs) =
      ((Spec.occDef S d).flatMap (Spec.usagesOcc S)).flatMap (usageErrs S vars) := by
    rw [List.flatMap_assoc]
    exact flatMap_congr_mem _ _ _ (fun o ho => (varsOcc_spec h.wf hw vars (hocc o ho).1 (hocc o ho).2).1)
  simp only [VarAcc.errs_append, d1', f1, g1, bodyUsages, List.flatMap_append]

theorem body_allPrimary {S : Schema} {D : Document} (h : WellScoped S D)
    (hw : Schema.wfDefaults S = true) {d : Definition} (hd : d ∈ D) (vars : List VarDef)
    (hv : ∀ vd ∈ vars, (Model.schemaType S vd.type).isSome = true)
    (hexp : ∀ u ∈ bodyUsages S d, u.expected.isSome = true ∨ u.inScalar = true) :
    AllPrimary (varsDirectives S vars (Model.defDirs d) ++
      varsSet S vars (Model.defScope S d) (Model.defSel d)).errs := by
  rw [body_errs_eq h hw hd vars]
  exact allPrimary_flatMap _ _ (fun u hu => usageErrs_allPrimary S vars u hv (hexp u hu))

/-! ## The worklist, one operation, the document -/

theorem contrib_allPrimary {S : Schema} {D : Document} (h : WellScoped S D)
    (hw : Schema.wfDefaults S = true) (vars : List VarDef)
    (hv : ∀ vd ∈ vars, (Model.schemaType S vd.type).isSome = true)
    (hexp : ∀ d ∈ D, ∀ u ∈ bodyUsages S d, u.expected.isSome = true ∨ u.inScalar = true) (n : String) :
    AllPrimary (contrib S D vars n).errs := by
  unfold contrib
  cases hf : Model.fragLast D n with
  | none => exact allPrimary_nil
  | some f =>
    obtain ⟨hd, _⟩ := fragLast_def hf
    have := body_allPrimary h hw hd vars hv (hexp _ hd)
    simp only [Model.defDirs, Model.defScope, Model.defSel] at this
    exact this

/-- The worklist adds the contributions of fragments only. -/
theorem varsFragments_allPrimary (S : Schema) (D : Document) (vars : List VarDef)
    (hc : ∀ n, AllPrimary (contrib S D vars n).errs) :
    ∀ (fuel : Nat) (todo validated : List String) (acc acc' : VarAcc),
      AllPrimary acc.errs → varsFragments S D vars fuel todo validated acc = some acc' →
      AllPrimary acc'.errs := by
  intro fuel
  induction fuel with
  | zero => intro todo validated acc acc' _ h; simp [varsFragments] at h
  | succ fuel ih =>
    intro todo validated acc acc' ha h
    cases todo with
    | nil =>
      simp only [varsFragments, Option.some.injEq] at h
      subst h
      exact ha
    | cons n rest =>
      unfold varsFragments at h
      by_cases hv : n ∈ validated
      · simp only [List.contains_eq_mem, hv, decide_true, if_true] at h
        exact ih rest validated acc acc' ha h
      · simp only [List.contains_eq_mem, hv, decide_false, Bool.false_eq_true, if_false] at h
        cases hf : Model.fragLast D n with
        | none =>
          simp only [hf] at h
          exact ih rest (n :: validated) acc acc' ha h
        | some f =>
          simp only [hf] at h
          have hcn : contrib S D vars n =
              varsDirectives S vars f.dirs ++ varsSet S vars (Model.namedType S f.tc) f.sel := by
            simp [contrib, hf]
          rw [← hcn] at h
          refine ih _ (n :: validated) _ acc' ?_ h
          simp only [VarAcc.errs_append]
          exact allPrimary_append ha (hc n)

theorem validateVariablesOp_allPrimary {S : Schema} {D : Document} (hws : WellScoped S D)
    (hw : Schema.wfDefaults S = true)
    (hexp : ∀ d ∈ D, ∀ u ∈ bodyUsages S d, u.expected.isSome = true ∨ u.inScalar = true)
    {kind : Option (OpKind × Pos)} {name : Option (String × Pos)}
    {vars : List VarDef} {dirs : List Directive} {sel : SelSet}
    (hd : Definition.op kind name vars dirs sel ∈ D)
    (hv : ∀ vd ∈ vars, (Model.schemaType S vd.type).isSome = true) (fuel : Nat) :
    AllPrimary (validateVariablesOp S D fuel kind vars dirs sel).1 := by
  have hbody := body_allPrimary hws hw hd vars hv (hexp _ hd)
  simp only [Model.defDirs, Model.defScope, Model.defSel] at hbody
  unfold validateVariablesOp
  simp only
  split
  · exact variableDefErrors_allPrimary S [] vars
  · rename_i acc hacc
    have hacc' : AllPrimary acc.errs :=
      varsFragments_allPrimary S D vars (contrib_allPrimary hws hw vars hv hexp) fuel _ _
        { varsDirectives S vars dirs ++ varsSet S vars (Model.opScope S kind) sel with spreads := [] } acc
        hbody hacc
    exact allPrimary_append (allPrimary_append (variableDefErrors_allPrimary S [] vars) hacc')
      (unusedVariableErrors_allPrimary _ vars)

theorem vars_resolve {S : Schema} {D : Document} (h2 : Spec.variablesAreInputTypes S D = true)
    {d : Definition} (hd : d ∈ D) :
    ∀ vd ∈ Spec.varDefsOf d, (Model.schemaType S vd.type).isSome = true := by
  intro vd hvd
  unfold Spec.variablesAreInputTypes at h2
  simp only [List.all_eq_true] at h2
  have := h2 d hd vd hvd
  unfold Spec.variableTypeOk at this
  rw [schemaType_eq_resolveType]
  cases hr : Spec.resolveType S vd.type with
  | none => simp [hr] at this
  | some t => rfl

theorem validateVariablesDefs_allPrimary {S : Schema} {D : Document} (hws : WellScoped S D)
    (hw : Schema.wfDefaults S = true) (h2 : Spec.variablesAreInputTypes S D = true)
    (hexp : ∀ d ∈ D, ∀ u ∈ bodyUsages S d, u.expected.isSome = true ∨ u.inScalar = true) (fuel : Nat) :
    ∀ (ds : List Definition), (∀ d ∈ ds, d ∈ D) → AllPrimary (validateVariablesDefs S D fuel ds).1 := by
  intro ds
  induction ds with
  | nil => intro _; simp only [validateVariablesDefs]; exact allPrimary_nil
  | cons d rest ih =>
    intro hm
    have ihr := ih (fun d hd => hm d (by simp [hd]))
    cases d with
    | frag n np tc tcp dirs sel p =>
      simp only [validateVariablesDefs]
      exact ihr
    | op kind name vars dirs sel =>
      have hd : Definition.op kind name vars dirs sel ∈ D := hm _ (List.mem_cons_self ..)
      have hop := validateVariablesOp_allPrimary hws hw hexp hd (vars_resolve h2 hd) fuel
      simp only [validateVariablesDefs]
      cases ho : validateVariablesOp S D fuel kind vars dirs sel with
      | mk e fo =>
        cases hr : validateVariablesDefs S D fuel rest with
        | mk r fo' =>
          rw [ho] at hop
          rw [hr] at ihr
          exact allPrimary_append hop ihr

/-- **No secondary error, variables pass**: on a well-scoped document whose variables have input
    types and whose usages all have an expected type or are inside a literal for a scalar, the
    variables pass emits primary errors only
    ("no type info for variable type" / "no type info for location type" never occur), with any
    fuel. -/
theorem variables_no_secondary {S : Schema} {D : Document} (hws : WellScoped S D)
    (hw : Schema.wfDefaults S = true) (h2 : Spec.variablesAreInputTypes S D = true)
    (hexp : ∀ d ∈ D, ∀ u ∈ bodyUsages S d, u.expected.isSome = true ∨ u.inScalar = true) (fuel : Nat) :
    AllPrimary (Model.validateVariables S D fuel).1 :=
  validateVariablesDefs_allPrimary hws hw h2 hexp fuel D (fun _ h => h)

/-- **Variables pass silent, general form**: if §5.8.1 – §5.8.5 hold and every usage written in the
    document has an expected type or is inside a literal for a scalar, the pass reports nothing at
    all. -/
theorem variables_silent_of_expected {S : Schema} {D : Document} (hws : WellScoped S D)
    (hw : Schema.wfDefaults S = true) (hu : Spec.fragmentNamesUnique D = true)
    (h1 : Spec.variablesUnique D = true) (h2 : Spec.variablesAreInputTypes S D = true)
    (h3 : Spec.variableUsesDefined S D = true) (h4 : Spec.variablesUsed S D = true)
    (h5 : Spec.variableUsagesAllowed S D = true)
    (hexp : ∀ d ∈ D, ∀ u ∈ bodyUsages S d, u.expected.isSome = true ∨ u.inScalar = true) :
    Model.validateVariables S D (Model.fuelFor D) = ([], false) := by
  obtain ⟨errs, he, hp⟩ := model_variables_eq_spec hws hw hu
  rw [h1, h2, h3, h4, h5] at hp
  have hap := variables_no_secondary hws hw h2 hexp (Model.fuelFor D)
  rw [he] at hap
  rw [he, nil_of_primaryFree_allPrimary hp hap]


/-! ## Every usage has an expected type or is inside a literal for a scalar
    (§5.4.1, §5.7.1, §5.6.1 on a well-scoped document) -/

theorem nullable_named_base : ∀ (t : TRef) (n : String), t.nullable = .named n → t.base = n
  | .named m, n, h => by simpa [TRef.nullable, TRef.base] using h
  | .list x, n, h => by simp [TRef.nullable] at h
  | .nonNull x, n, h => by
    simp only [TRef.nullable] at h
    simpa [TRef.base] using nullable_named_base x n h

theorem literalTarget_base {t : TRef} {ai : Bool} {n : String} (h : Spec.literalTarget t ai = some n) :
    t.base = n := by
  unfold Spec.literalTarget at h
  cases ai with
  | true => simpa using h
  | false =>
    simp only [Bool.false_eq_true, if_false] at h
    cases hn : t.nullable with
    | named m =>
      simp only [hn, Option.some.injEq] at h
      subst h
      exact nullable_named_base t m hn
    | list x => simp [hn] at h
    | nonNull x => simp [hn] at h

theorem itemInScalar_none (S : Schema) : Spec.itemInScalar S none true = true := by
  simp [Spec.itemInScalar, Spec.itemType]

theorem fieldInScalar_none (S : Schema) : Spec.fieldInScalar S none true = true := by
  simp [Spec.fieldInScalar, Spec.objectTarget]

mutual
/-- Everything nested in a value that is inside a literal for a scalar (no expected type, flag
    set) is inside that literal. -/
theorem usagesValue_inScalar (S : Schema) :
    ∀ (v : Value) (ld : Bool), ∀ u ∈ Spec.usagesValue S none ld true v, u.inScalar = true
  | .var n p, ld => by simp [Spec.usagesValue]
  | .list items p, ld => by
    unfold Spec.usagesValue
    rw [itemInScalar_none]
    exact usagesItems_inScalar S items
  | .obj fields p, ld => by
    unfold Spec.usagesValue
    rw [fieldInScalar_none]
    exact usagesFields_inScalar S fields
  | .int _ _, ld => by simp [Spec.usagesValue]
  | .float _ _, ld => by simp [Spec.usagesValue]
  | .str _ _, ld => by simp [Spec.usagesValue]
  | .bool _ _, ld => by simp [Spec.usagesValue]
  | .null _, ld => by simp [Spec.usagesValue]
  | .enum _ _, ld => by simp [Spec.usagesValue]
theorem usagesItems_inScalar (S : Schema) :
    ∀ (items : List Value), ∀ u ∈ Spec.usagesItems S none true items, u.inScalar = true
  | [] => by simp [Spec.usagesItems]
  | v :: rest => by
    simp only [Spec.usagesItems, List.mem_append]
    rintro u (hu | hu)
    · exact usagesValue_inScalar S v false u hu
    · exact usagesItems_inScalar S rest u hu
theorem usagesFields_inScalar (S : Schema) :
    ∀ (fields : List ObjField), ∀ u ∈ Spec.usagesFields S none true fields, u.inScalar = true
  | [] => by simp [Spec.usagesFields]
  | .mk n p v :: rest => by
    simp only [Spec.usagesFields, Option.bind_none, List.mem_append]
    rintro u (hu | hu)
    · exact usagesValue_inScalar S v false u hu
    · exact usagesFields_inScalar S rest u hu
end

mutual
/-- A correct value (§5.6.1) at a typed position gives every variable nested in it an expected
    type — or the variable is inside a list / object literal accepted by a scalar. -/
theorem usagesValue_expected (S : Schema) :
    ∀ (v : Value) (t : TRef) (ai ld sc : Bool), Spec.valueOk S t ai v = true →
      ∀ u ∈ Spec.usagesValue S (some t) ld sc v, u.expected.isSome = true ∨ u.inScalar = true
  | .var n p, t, ai, ld, sc, _ => by simp [Spec.usagesValue]
  | .list items p, t, ai, ld, sc, h => by
    unfold Spec.valueOk at h
    unfold Spec.usagesValue
    cases hn : t.nullable with
    | list inner =>
      have e1 : Spec.itemType (some t) = some inner := by simp [Spec.itemType, hn]
      rw [e1]
      simp only [hn] at h
      exact usagesItems_expected S items inner _ h
    | named n =>
      simp only [hn] at h
      cases hk : Spec.kindOf S n with
      | none => simp [hk] at h
      | some k =>
        cases k with
        | scalar spec =>
          have e1 : Spec.itemType (some t) = none := by simp [Spec.itemType, hn]
          have e2 : Spec.itemInScalar S (some t) sc = true := by
            simp [Spec.itemInScalar, e1, Spec.nullableIsScalar, hn, hk]
          rw [e1, e2]
          exact fun u hu => Or.inr (usagesItems_inScalar S items u hu)
        | _ => simp [hk] at h
    | nonNull x => simp [hn] at h
  | .obj fields p, t, ai, ld, sc, h => by
    unfold Spec.valueOk at h
    unfold Spec.usagesValue
    cases hl : Spec.literalTarget t ai with
    | none => simp [hl] at h
    | some n =>
      have hb := literalTarget_base hl
      subst hb
      simp only [hl] at h
      cases hk : Spec.kindOf S t.base with
      | none => simp [hk] at h
      | some k =>
        cases k with
        | scalar spec =>
          have e1 : Spec.objectTarget S (some t) = none := by simp [Spec.objectTarget, hk]
          have e2 : Spec.fieldInScalar S (some t) sc = true := by
            simp [Spec.fieldInScalar, e1, Spec.baseIsScalar, hk]
          rw [e1, e2]
          exact fun u hu => Or.inr (usagesFields_inScalar S fields u hu)
        | input defs =>
          have e1 : Spec.objectTarget S (some t) = some defs := by simp [Spec.objectTarget, hk]
          rw [e1]
          simp only [hk, Bool.and_eq_true] at h
          exact usagesFields_expected S fields defs _ h.2
        | _ => simp [hk] at h
  | .int _ _, t, ai, ld, sc, _ => by simp [Spec.usagesValue]
  | .float _ _, t, ai, ld, sc, _ => by simp [Spec.usagesValue]
  | .str _ _, t, ai, ld, sc, _ => by simp [Spec.usagesValue]
  | .bool _ _, t, ai, ld, sc, _ => by simp [Spec.usagesValue]
  | .null _, t, ai, ld, sc, _ => by simp [Spec.usagesValue]
  | .enum _ _, t, ai, ld, sc, _ => by simp [Spec.usagesValue]
theorem usagesItems_expected (S : Schema) :
    ∀ (items : List Value) (t : TRef) (sc : Bool), Spec.itemsOk S t items = true →
      ∀ u ∈ Spec.usagesItems S (some t) sc items, u.expected.isSome = true ∨ u.inScalar = true
  | [], t, sc, _ => by simp [Spec.usagesItems]
  | v :: rest, t, sc, h => by
    simp only [Spec.itemsOk, Bool.and_eq_true] at h
    simp only [Spec.usagesItems, List.mem_append]
    rintro u (hu | hu)
    · exact usagesValue_expected S v t false false sc h.1 u hu
    · exact usagesItems_expected S rest t sc h.2 u hu
theorem usagesFields_expected (S : Schema) :
    ∀ (fields : List ObjField) (defs : List InputDef) (sc : Bool), Spec.objFieldsOk S defs fields = true →
      ∀ u ∈ Spec.usagesFields S (some defs) sc fields, u.expected.isSome = true ∨ u.inScalar = true
  | [], defs, sc, _ => by simp [Spec.usagesFields]
  | .mk n p v :: rest, defs, sc, h => by
    simp only [Spec.objFieldsOk, Bool.and_eq_true] at h
    simp only [Spec.usagesFields, Option.bind_some, List.mem_append]
    cases hf : findInput defs n with
    | none => simp [hf] at h
    | some d =>
      simp only [hf] at h ⊢
      rintro u (hu | hu)
      · exact usagesValue_expected S v d.type true _ false h.1 u hu
      · exact usagesFields_expected S rest defs sc h.2 u hu
end

/-- One argument list checked against its definitions: §5.4.1 and §5.6.1 there. -/
theorem usagesArgs_expected (S : Schema) (defs : List InputDef)
    (args : List Argument) (hk : Spec.argsKnownAt { defs := defs, args := args } = true)
    (hv : Spec.siteValuesOk S { defs := defs, args := args } = true) :
    ∀ u ∈ Spec.usagesArgs S (some defs) args, u.expected.isSome = true ∨ u.inScalar = true := by
  intro u hu
  unfold Spec.usagesArgs at hu
  simp only [List.mem_flatMap, Option.bind_some] at hu
  obtain ⟨a, ha, hua⟩ := hu
  simp only [Spec.argsKnownAt, Spec.siteValuesOk, List.all_eq_true] at hk hv
  have k := hk a ha
  have v := hv a ha
  unfold Spec.argValueOk at v
  cases hf : findInput defs a.name with
  | none => simp [hf] at k
  | some d =>
    simp only [hf] at v hua
    exact usagesValue_expected S a.value d.type true _ false v u hua

theorem usagesDirs_expected (S : Schema) (dirs : List Directive)
    (hdef : ∀ d ∈ dirs, (S.findDirective d.name).isSome = true)
    (hk : (Spec.dirArgSites S dirs).all Spec.argsKnownAt = true)
    (hv : (Spec.dirArgSites S dirs).all (Spec.siteValuesOk S) = true) :
    ∀ u ∈ Spec.usagesDirs S dirs, u.expected.isSome = true ∨ u.inScalar = true := by
  intro u hu
  unfold Spec.usagesDirs at hu
  simp only [List.mem_flatMap] at hu
  obtain ⟨d, hd, hud⟩ := hu
  cases hf : S.findDirective d.name with
  | none => have := hdef d hd; simp [hf] at this
  | some dd =>
    have hmem : ({ defs := dd.args, args := d.args } : ArgSite) ∈ Spec.dirArgSites S dirs := by
      unfold Spec.dirArgSites
      simp only [List.mem_filterMap]
      exact ⟨d, hd, by simp [hf]⟩
    simp only [List.all_eq_true] at hk hv
    simp only [hf, Option.map_some] at hud
    exact usagesArgs_expected S dd.args d.args (hk _ hmem) (hv _ hmem) u hud

theorem usagesOcc_expected (S : Schema) {o : Occ}
    (hinv : Inv S (occParent o)) (hs : scopedAt S o = true)
    (hdef : ∀ d ∈ Spec.occDirs o, (S.findDirective d.name).isSome = true)
    (hk : (Spec.occArgSites S o).all Spec.argsKnownAt = true)
    (hv : (Spec.occArgSites S o).all (Spec.siteValuesOk S) = true) :
    ∀ u ∈ Spec.usagesOcc S o, u.expected.isSome = true ∨ u.inScalar = true := by
  cases o with
  | field parent al n np args dirs sel =>
    obtain ⟨p, hp', hp⟩ := hinv
    simp only [occParent] at hp'
    subst hp'
    simp only [scopedAt, Bool.and_eq_true, Spec.fieldDefinedAt, hp, Bool.not_true, Bool.false_or] at hs
    have hdf := hs.1.1.1
    cases hfd : Spec.fieldDef? S p n with
    | none => simp [hfd] at hdf
    | some fd =>
      simp only [Spec.occArgSites, hfd, Spec.occDirs, List.all_append, List.all_cons, List.all_nil,
        Bool.and_true, Bool.and_eq_true] at hk hv hdef
      simp only [Spec.usagesOcc, Option.bind_some, hfd, Option.map_some, List.mem_append]
      rintro u (hu | hu)
      · exact usagesArgs_expected S fd.args args hk.1 hv.1 u hu
      · exact usagesDirs_expected S dirs hdef hk.2 hv.2 u hu
  | spread parent n np dirs p =>
    simp only [Spec.occArgSites, Spec.occDirs, List.nil_append] at hk hv hdef
    simp only [Spec.usagesOcc]
    exact usagesDirs_expected S dirs hdef hk hv
  | inline parent tc dirs p =>
    simp only [Spec.occArgSites, Spec.occDirs, List.nil_append] at hk hv hdef
    simp only [Spec.usagesOcc]
    exact usagesDirs_expected S dirs hdef hk hv

/-- On a well-scoped document with known arguments, defined directives and correct values every
    variable usage written in the document (in operations and in fragments, reachable or not) has an
    expected type, or is nested in a list / object literal accepted by a scalar. -/
theorem usages_have_expected {S : Schema} {D : Document} (hws : WellScoped S D)
    (hk : Spec.argumentsKnown S D = true) (hd : Spec.directivesDefined S D = true)
    (hv : Spec.valuesCorrect S D = true) :
    ∀ d ∈ D, ∀ u ∈ bodyUsages S d, u.expected.isSome = true ∨ u.inScalar = true := by
  intro d hdD
  obtain ⟨_, hocc⟩ := def_occs hws hdD
  -- the three rules, per definition and per occurrence
  unfold Spec.argumentsKnown Spec.argSites Spec.selOccs at hk
  unfold Spec.valuesCorrect Spec.argSites Spec.selOccs at hv
  unfold Spec.directivesDefined Spec.dirSites Spec.selOccs at hd
  rw [List.all_append, Bool.and_eq_true, all_flatMap, all_flatMap, all_flatMap] at hk
  rw [Bool.and_eq_true, List.all_append, Bool.and_eq_true, all_flatMap, all_flatMap, all_flatMap] at hv
  rw [List.all_append, Bool.and_eq_true, List.all_map, List.all_map, all_flatMap] at hd
  obtain ⟨hkO, hkD⟩ := hk
  obtain ⟨⟨hvO, hvD⟩, _⟩ := hv
  obtain ⟨hdD', hdO⟩ := hd
  rw [List.all_eq_true] at hkO hkD hvO hvD hdD' hdO
  have kO := hkO d hdD
  have vO := hvO d hdD
  have dO := hdO d hdD
  rw [List.all_eq_true] at kO vO dO
  have dD : ∀ dir ∈ Spec.defDirs d, (S.findDirective dir.name).isSome = true := by
    have := hdD' d hdD
    simp only [Function.comp, List.all_eq_true] at this
    exact this
  intro u hu
  unfold bodyUsages at hu
  simp only [List.mem_append, List.mem_flatMap] at hu
  rcases hu with hu | ⟨o, ho, hu⟩
  · exact usagesDirs_expected S _ dD (hkD d hdD) (hvD d hdD) u hu
  · have dOo : ∀ dir ∈ Spec.occDirs o, (S.findDirective dir.name).isSome = true := by
      have := dO o ho
      simp only [Function.comp, List.all_eq_true] at this
      exact this
    exact usagesOcc_expected S (hocc o ho).1 (hocc o ho).2 dOo (kO o ho) (vO o ho) u hu

/-! ## The theorem -/

/-- **Variables pass silent**: on a well-scoped document, if §5.8.1 – §5.8.5, §5.4.1, §5.7.1 and
    §5.6.1 hold, the variables pass reports nothing at all: no primary error and no secondary error
    either, within the pipeline's fuel. -/
theorem variables_silent {S : Schema} {D : Document} (hws : WellScoped S D)
    (hw : Schema.wfDefaults S = true) (hu : Spec.fragmentNamesUnique D = true)
    (h1 : Spec.variablesUnique D = true) (h2 : Spec.variablesAreInputTypes S D = true)
    (h3 : Spec.variableUsesDefined S D = true) (h4 : Spec.variablesUsed S D = true)
    (h5 : Spec.variableUsagesAllowed S D = true)
    (hk : Spec.argumentsKnown S D = true) (hd : Spec.directivesDefined S D = true)
    (hv : Spec.valuesCorrect S D = true) :
    Model.validateVariables S D (Model.fuelFor D) = ([], false) :=
  variables_silent_of_expected hws hw hu h1 h2 h3 h4 h5 (usages_have_expected hws hk hd hv)

/-! ## The input of F-04g (fix 07), formerly a counterexample, now accepted

    `scalar J` accepts list literals; `Query { f(a: J): Int }`; `query($v: Int) { f(a: [$v]) }`.
    All 26 rules hold; before fix 07 the variables pass emitted the secondary error "no type info
    for location type" at `$v` and the document was rejected. -/

def exScalarListS : Schema :=
  { types := [
      { name := "Int", kind := .scalar .int }, { name := "String", kind := .scalar .string },
      { name := "J", kind := .scalar (.custom ["list"]) },
      { name := "Query", kind := .object [
          { name := "f", type := .named "Int", args := [{ name := "a", type := .named "J", dflt := .none }] }] [] }],
    query := "Query", mutation := none, subscription := none,
    directives := [], metaFields := [] }

/-- `query($v: Int) { f(a: [$v]) }` -/
def exVarInScalarList : Document :=
  [.op (some (.query, ⟨1, 1⟩)) none
    [{ name := "v", pos := ⟨1, 7⟩, npos := ⟨1, 8⟩, type := .named "Int" ⟨1, 11⟩, dflt := none }] []
    (.mk [.field none "f" ⟨1, 18⟩
      [{ name := "a", pos := ⟨1, 20⟩, value := .list [.var "v" ⟨1, 24⟩] ⟨1, 23⟩ }] [] none] ⟨1, 16⟩)]

example : WellScoped exScalarListS exVarInScalarList :=
  { wf := by decide, ops := by decide, typesExist := by decide, onComposite := by decide,
    fields := by decide, leaves := by decide }
example : Schema.wfDefaults exScalarListS = true := by decide
example : Spec.valid exScalarListS exVarInScalarList = true := by decide
example : (exVarInScalarList.flatMap (Spec.defUsages exScalarListS exVarInScalarList)).map
    (fun u => (u.expected, u.inScalar)) = [(none, true)] := by decide
example : Model.validateVariables exScalarListS exVarInScalarList (Model.fuelFor exVarInScalarList) =
    ([], false) := by decide
example : Model.accepts exScalarListS exVarInScalarList = true := by decide

end ApiFu.C04
