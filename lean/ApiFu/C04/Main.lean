/-
  C04 model driver. Line protocol (S-expressions, one per line; see Wire.lean for the shapes):
    (schema …)         → ok                      -- the schema description used by later lines
    (check (doc …))    → (r (spec valid|invalid rule…) (model ok|fuel slot…) (hyp ok|bad name…))
       hyp: the input hypotheses of the assembly / verdict theorems (`hypFailures2`, Hyp2.lean) for this case
       slot := (s alt…)          -- one reported error; several alts = Go's map iteration picks one
       alt  := (p|x "message" "L:C"…)   -- p primary, x secondary (all errors *before* the filter
                                        -- of validator.go:82-91; the harness applies the filter)
    (schemanew (sdef …))                         → (sn accept|reject (typed ok|bad) (nulldefaults ok|bad) (intro -) (desc -) (roots -))
    (schemanew (sdef …) (feature…) (schema …))   → … (intro ok|bad) (desc same|differs) (roots ok|bad)
       the model of schema.New on a schema definition (SchemaNew.lean); with the description exported from the
       real schema object for a request with these features: Intro.ok of its introspection part, describe =
       the exported description, the root types are visible to the request
  Anything else → bad-op.
-/
import ApiFu.Common.Sexp
import ApiFu.Common.Loop
import ApiFu.C04.Wire
import ApiFu.C04.Spec
import ApiFu.C04.Model
import ApiFu.C04.Hyp2
import ApiFu.C04.SchemaNew

open ApiFu ApiFu.C04

structure St where
  schema : Option Schema := none

def handle (st : St) (line : String) : St × String :=
  match Sexp.parse line with
  | some (Sexp.list (Sexp.atom "schema" :: rest)) =>
    (match Wire.schema? (Sexp.list (Sexp.atom "schema" :: rest)) with
     | some s => ({ st with schema := some s }, "ok")
     | none => (st, "bad-schema"))
  | some (Sexp.list [Sexp.atom "check", d]) =>
    (match st.schema, Wire.doc? d with
     | some S, some D =>
       let v := Spec.violated S D
       let spec := Sexp.node "spec" (Sexp.atom (if v.isEmpty then "valid" else "invalid") :: v.map Sexp.atom)
       let o := Model.allErrors S D
       let alt (e : Err) : Sexp :=
         Sexp.list (Sexp.atom (if e.secondary then "x" else "p") :: Sexp.str e.msg ::
           e.locs.map fun l => Sexp.atom (toString l.line ++ ":" ++ toString l.col))
       let model := Sexp.node "model" (Sexp.atom (if o.fuelOut then "fuel" else "ok") ::
         o.slots.map fun sl => Sexp.node "s" (sl.alts.map alt))
       let hf := hypFailures2 S D
       let hyp := Sexp.node "hyp" (Sexp.atom (if hf.isEmpty then "ok" else "bad") :: hf.map Sexp.atom)
       (st, toString (Sexp.node "r" [spec, model, hyp]))
     | none, _ => (st, "no-schema")
     | _, none => (st, "bad-doc"))
  | some (Sexp.list [Sexp.atom op, d]) =>
    if op == "schemanew" then
      (match SchemaNew.sdef? d with
       | some D => (st, toString (SchemaNew.answer D none))
       | none => (st, "bad-sdef"))
    else (st, "bad-op")
  | some (Sexp.list [Sexp.atom op, d, Sexp.list feats, s]) =>
    if op == "schemanew" then
      (match SchemaNew.sdef? d, Wire.atoms? feats, Wire.schema? s with
       | some D, some rf, some S => (st, toString (SchemaNew.answer D (some (rf, S))))
       | none, _, _ => (st, "bad-sdef")
       | _, none, _ => (st, "bad-features")
       | _, _, none => (st, "bad-schema"))
    else (st, "bad-op")
  | _ => (st, "bad-op")

def main : IO Unit := lineLoop handle {}
