/-
  C04 — part 6: in a document without spread cycles the step from a selection set to a set nested
  in it or spread from it strictly decreases a measure (fragments still reachable, then size).
  This bounds the nesting of field pairs in the overlapping-fields check.
-/
import ApiFu.C04.Merge5

namespace ApiFu.C04
open Spec Model
set_option linter.unusedSimpArgs false
set_option linter.unusedVariables false

/-- One step down: an inline fragment's set, a field's sub-selection, or a spread fragment's set. -/
inductive Child (S : Schema) (D : Document) : SetRef → SetRef → Prop where
  | inline {r tc dirs ss p} : Selection.inline tc dirs ss p ∈ r.sels →
      Child S D r ⟨Model.inlineScope S r.scope tc, ss.pos, ss.sels⟩
  | field {r al n np args dirs ss} : Selection.field al n np args dirs (some ss) ∈ r.sels →
      Child S D r ⟨Model.innerScope S r.scope n, ss.pos, ss.sels⟩
  | spread {r n np dirs p F} : Selection.spread n np dirs p ∈ r.sels → Model.fragLast D n = some F →
      Child S D r ⟨Model.namedType S F.tc, F.sel.pos, F.sel.sels⟩

theorem Child.inTable {S : Schema} {D : Document} {r r' : SetRef} (h : Child S D r r') (hr : r ∈ allSets S D) :
    r' ∈ allSets S D := by
  cases h with
  | inline hm => exact (allSets_children S D r hr).2 _ _ _ _ hm
  | field hm => exact (allSets_children S D r hr).1 _ _ _ _ _ _ hm
  | spread hm hF => exact allSets_frag hF

/-- Spread names written anywhere inside the set. -/
def below (r : SetRef) : List String := Model.spreadNamesSels r.sels

/-- Fragments reachable from the set. -/
def clos (D : Document) (r : SetRef) : List String := Spec.reachableFrom D (below r)

def mu (D : Document) (r : SetRef) : Nat := (clos D r).length * (Model.docSize D + 1) + Model.sizeSels r.sels

theorem nodup_reachable (D : Document) : ∀ (k : Nat) (acc : List String), Spec.nodup acc = true →
    Spec.nodup (Spec.reachable D k acc) = true
  | 0, acc, h => h
  | k + 1, acc, _ => by
    simp only [Spec.reachable]
    exact nodup_reachable D k _ (nodup_dedup _)

theorem nodup_clos (D : Document) (r : SetRef) : Spec.nodup (clos D r) = true := by
  unfold clos Spec.reachableFrom
  exact nodup_reachable D _ _ (nodup_dedup _)

theorem spreadNamesSels_mem : ∀ (sels : List Selection) (s : Selection), s ∈ sels →
    ∀ x ∈ Model.spreadNamesSel s, x ∈ Model.spreadNamesSels sels
  | [], s, h, _, _ => by simp at h
  | y :: rest, s, h, x, hx => by
    simp only [List.mem_cons] at h
    simp only [Model.spreadNamesSels, List.mem_append]
    rcases h with rfl | h
    · exact Or.inl hx
    · exact Or.inr (spreadNamesSels_mem rest s h x hx)

theorem sizeSels_mem : ∀ (sels : List Selection) (s : Selection), s ∈ sels → Model.sizeSel s ≤ Model.sizeSels sels
  | [], s, h => by simp at h
  | y :: rest, s, h => by
    simp only [List.mem_cons] at h
    simp only [Model.sizeSels]
    rcases h with rfl | h
    · omega
    · have := sizeSels_mem rest s h; omega

mutual
theorem below_sel (S : Schema) : ∀ (scope : Option String) (sel : Selection),
    ∀ r ∈ setsOfSel S scope sel, ∀ x ∈ below r, x ∈ Model.spreadNamesSel sel
  | scope, .field _ _ _ _ _ none, r, h => by simp [setsOfSel] at h
  | scope, .field _ m _ _ _ (some ss), r, h => by
    simp only [setsOfSel] at h
    intro x hx
    simpa [Model.spreadNamesSel] using below_set S _ ss r h x hx
  | scope, .spread .., r, h => by simp [setsOfSel] at h
  | scope, .inline tc _ ss _, r, h => by
    simp only [setsOfSel] at h
    intro x hx
    simpa [Model.spreadNamesSel] using below_set S _ ss r h x hx
theorem below_set (S : Schema) : ∀ (scope : Option String) (ss : SelSet),
    ∀ r ∈ setsOfSet S scope ss, ∀ x ∈ below r, x ∈ Model.spreadNamesSet ss
  | scope, .mk sels q, r, h => by
    simp only [setsOfSet, List.mem_cons] at h
    intro x hx
    simp only [Model.spreadNamesSet]
    rcases h with rfl | h
    · exact hx
    · exact below_sels S scope sels r h x hx
theorem below_sels (S : Schema) : ∀ (scope : Option String) (sels : List Selection),
    ∀ r ∈ setsOfSels S scope sels, ∀ x ∈ below r, x ∈ Model.spreadNamesSels sels
  | scope, [], r, h => by simp [setsOfSels] at h
  | scope, s :: rest, r, h => by
    simp only [setsOfSels, List.mem_append] at h
    intro x hx
    simp only [Model.spreadNamesSels, List.mem_append]
    rcases h with h | h
    · exact Or.inl (below_sel S scope s r h x hx)
    · exact Or.inr (below_sels S scope rest r h x hx)
end

theorem below_in_U {S : Schema} {D : Document} {r : SetRef} (hr : r ∈ allSets S D) :
    ∀ x ∈ below r, x ∈ Spec.allSpreads D := by
  intro x hx
  unfold allSets at hr
  simp only [List.mem_flatMap] at hr
  obtain ⟨d, hd, hrd⟩ := hr
  have := below_set S _ _ r hrd x hx
  exact mem_spreads_allSpreads hd (by rw [spreadsInSet_eq]; exact this)

theorem mem_clos {S : Schema} {D : Document} {r : SetRef} (hr : r ∈ allSets S D) (x : String) :
    x ∈ clos D r ↔ (x ∈ below r ∨ ∃ a ∈ below r, Reach (Spec.fragDeps D) a x) :=
  mem_reachableFrom D (below r) (below_in_U hr) x

theorem allSpreads_eq (D : Document) :
    Spec.allSpreads D = D.flatMap (fun d => Model.spreadNamesSet (Model.defSel d)) := by
  simp only [Spec.allSpreads, defSelOf_eq, spreadsInSet_eq]

theorem allSpreads_length_le (D : Document) : (Spec.allSpreads D).length ≤ Model.docSize D := by
  rw [allSpreads_eq]
  unfold Model.docSize
  induction D with
  | nil => simp
  | cons d rest ih =>
    have := spreadNamesSet_le (Model.defSel d)
    simp only [List.flatMap_cons, List.length_append, List.map_cons, List.sum_cons]
    omega

theorem reach_lands_in_U (D : Document) {a x : String} (h : Reach (Spec.fragDeps D) a x) : x ∈ Spec.allSpreads D := by
  induction h with
  | step h1 => exact fragDeps_in_U D _ _ h1
  | trans _ _ ih => exact ih

theorem clos_length_le {S : Schema} {D : Document} {r : SetRef} (hr : r ∈ allSets S D) :
    (clos D r).length ≤ Model.docSize D := by
  have h1 := length_le_of_nodup_subset (clos D r) (Spec.allSpreads D) (nodup_clos D r) (by
    intro x hx
    rcases (mem_clos hr x).1 hx with h | ⟨a, ha, hra⟩
    · exact below_in_U hr x h
    · exact reach_lands_in_U D hra)
  have h2 := allSpreads_length_le D
  omega

theorem mu_lt_bound {S : Schema} {D : Document} {r : SetRef} (hr : r ∈ allSets S D) :
    mu D r < (Model.docSize D + 2) * (Model.docSize D + 2) := by
  unfold mu
  have h1 := clos_length_le hr
  have h2 := setSize_all hr
  have h3 : (clos D r).length * (Model.docSize D + 1) ≤ Model.docSize D * (Model.docSize D + 1) :=
    Nat.mul_le_mul_right _ h1
  have h4 : (Model.docSize D + 2) * (Model.docSize D + 2) =
      Model.docSize D * (Model.docSize D + 1) + (3 * Model.docSize D + 4) := by
    simp only [Nat.add_mul, Nat.mul_add]; omega
  omega

/-- A document without spread cycles, with unique fragment names. -/
structure Acyclic (D : Document) : Prop where
  names : Spec.fragmentNamesUnique D = true
  noCycles : Spec.noFragmentCycles D = true

/-- **The measure decreases along every step.** -/
theorem mu_child {S : Schema} {D : Document} (hac : Acyclic D) {r r' : SetRef} (hr : r ∈ allSets S D)
    (hc : Child S D r r') : mu D r' < mu D r := by
  have hr' := hc.inTable hr
  have hK : 0 < Model.docSize D + 1 := by omega
  cases hc with
  | @inline tc dirs ss p hm =>
    -- fewer selections, no new fragment
    have hsub : ∀ x ∈ below (⟨Model.inlineScope S r.scope tc, ss.pos, ss.sels⟩ : SetRef), x ∈ below r := by
      intro x hx
      exact spreadNamesSels_mem r.sels _ hm x (by cases ss with | mk sl pp => simpa [Model.spreadNamesSel, Model.spreadNamesSet, below, SelSet.sels] using hx)
    have hlen : (clos D ⟨Model.inlineScope S r.scope tc, ss.pos, ss.sels⟩).length ≤ (clos D r).length := by
      apply length_le_of_nodup_subset _ _ (nodup_clos D _)
      intro x hx
      rcases (mem_clos hr' x).1 hx with h | ⟨a, ha, hra⟩
      · exact (mem_clos hr x).2 (Or.inl (hsub x h))
      · exact (mem_clos hr x).2 (Or.inr ⟨a, hsub a ha, hra⟩)
    have hsz : Model.sizeSels ss.sels + 2 ≤ Model.sizeSels r.sels := by
      have := sizeSels_mem r.sels _ hm
      cases ss with
      | mk sl pp => simp only [Model.sizeSel, Model.sizeSet, SelSet.sels] at this ⊢; omega
    have := Nat.mul_le_mul_right (Model.docSize D + 1) hlen
    unfold mu
    simp only
    omega
  | @field al n np args dirs ss hm =>
    have hsub : ∀ x ∈ below (⟨Model.innerScope S r.scope n, ss.pos, ss.sels⟩ : SetRef), x ∈ below r := by
      intro x hx
      exact spreadNamesSels_mem r.sels _ hm x (by cases ss with | mk sl pp => simpa [Model.spreadNamesSel, Model.spreadNamesSet, below, SelSet.sels] using hx)
    have hlen : (clos D ⟨Model.innerScope S r.scope n, ss.pos, ss.sels⟩).length ≤ (clos D r).length := by
      apply length_le_of_nodup_subset _ _ (nodup_clos D _)
      intro x hx
      rcases (mem_clos hr' x).1 hx with h | ⟨a, ha, hra⟩
      · exact (mem_clos hr x).2 (Or.inl (hsub x h))
      · exact (mem_clos hr x).2 (Or.inr ⟨a, hsub a ha, hra⟩)
    have hsz : Model.sizeSels ss.sels + 2 ≤ Model.sizeSels r.sels := by
      have := sizeSels_mem r.sels _ hm
      cases ss with
      | mk sl pp => simp only [Model.sizeSel, Model.sizeSet, SelSet.sels] at this ⊢; omega
    have := Nat.mul_le_mul_right (Model.docSize D + 1) hlen
    unfold mu
    simp only
    omega
  | @spread n np dirs p F hm hF =>
    -- one fragment fewer to reach
    have hn : n ∈ below r := spreadNamesSels_mem r.sels _ hm n (by simp [Model.spreadNamesSel])
    have hdeps : ∀ x, x ∈ below (⟨Model.namedType S F.tc, F.sel.pos, F.sel.sels⟩ : SetRef) ↔ x ∈ Spec.fragDeps D n := by
      intro x
      rw [← wdeps_spec hac.names]
      simp only [wdeps, hF, below]
      cases F.sel with
      | mk sl pp => simp [Model.spreadNamesSet, SelSet.sels]
    have hsubset : ∀ x ∈ clos D ⟨Model.namedType S F.tc, F.sel.pos, F.sel.sels⟩, x ∈ clos D r := by
      intro x hx
      rcases (mem_clos hr' x).1 hx with h | ⟨a, ha, hra⟩
      · exact (mem_clos hr x).2 (Or.inr ⟨n, hn, .step ((hdeps x).1 h)⟩)
      · exact (mem_clos hr x).2 (Or.inr ⟨n, hn, .trans ((hdeps a).1 ha) hra⟩)
    have hnin : n ∈ clos D r := (mem_clos hr n).2 (Or.inl hn)
    have hnfrag : n ∈ Spec.fragNames D := by
      rw [← fragsOf_names]
      by_cases hm' : n ∈ (Model.fragsOf D).map (·.name)
      · exact hm'
      · rw [(fragLast_none_iff D n).2 hm'] at hF; simp at hF
    have hnot : n ∉ clos D ⟨Model.namedType S F.tc, F.sel.pos, F.sel.sels⟩ := by
      intro hx
      have hno := (noFragmentCycles_iff D).1 hac.noCycles n hnfrag
      apply hno
      rcases (mem_clos hr' n).1 hx with h | ⟨a, ha, hra⟩
      · exact .step ((hdeps n).1 h)
      · exact .trans ((hdeps a).1 ha) hra
    have hlt := length_lt_of_new _ _ (nodup_clos D _) (nodup_clos D r) hsubset n hnin hnot
    have hsz := setSize_all hr'
    simp only at hsz
    have h1 : ((clos D ⟨Model.namedType S F.tc, F.sel.pos, F.sel.sels⟩).length + 1) * (Model.docSize D + 1) ≤
        (clos D r).length * (Model.docSize D + 1) := Nat.mul_le_mul_right _ hlt
    rw [Nat.succ_mul] at h1
    unfold mu
    simp only
    omega

end ApiFu.C04
